import GqlVerif.Proofs.C07PermCodegenB
import GqlVerif.Model.Serde
/-!
# C07 / P31 (part S) — `ItemsPerm`-related modules have the same serde behaviour

`e`, `e'` : two environments whose item lists are `ItemsPerm`-related (same items up to the order of the items and of
the variants of tagged enums), same externs.  Under `EnvOK e` (decidable: item names pairwise distinct; in every tagged
enum the variant names are pairwise distinct, the wire names of the non-`other` variants are pairwise distinct, and
there is at most one `#[serde(other)]` variant — each clause is needed, see the end of the file):

* **`itemsPerm_ser_eq`** — `Serde.ser e' t v = Serde.ser e t v` for every type and every value;
* **`itemsPerm_de_eq`** — `Serde.de e' t j = Serde.de e t j` for every type and every JSON `j` in which no entry whose
  key is the tag of a tagged enum of `e` carries an integer (`good (tagsOf e) j`).

The restriction on `j` cannot be dropped: serde's buffered `ContentDeserializer` accepts the variant *index* as a
tag (`Serde.deTaggedWith`, `buffered = true`), and the index of a variant is exactly what a permutation changes —
`de_int_tag_differs`: for a flattened two-variant enum, `{"__typename": 0}` is read as the first variant on each
side.  A GraphQL server never sends an integer `__typename`.
-/
set_option linter.unusedSectionVars false
set_option linter.unusedVariables false
set_option linter.unusedSimpArgs false

namespace GqlVerif
namespace C07P
open Serde C07

/-! ## generic lemmas -/

theorem find?_perm_unique {α} (q : α → Bool) {l l' : List α} (hp : l.Perm l')
    (hu : ∀ x ∈ l, ∀ y ∈ l, q x = true → q y = true → x = y) : l'.find? q = l.find? q := by
  cases h : l.find? q with
  | none =>
    rw [List.find?_eq_none] at h ⊢
    exact fun x hx => h x (hp.mem_iff.2 hx)
  | some x =>
    have hx := List.mem_of_find?_eq_some h
    have hqx := List.find?_some h
    cases h' : l'.find? q with
    | none =>
      rw [List.find?_eq_none] at h'
      exact absurd hqx (h' x (hp.mem_iff.1 hx))
    | some y =>
      have hy := hp.mem_iff.2 (List.mem_of_find?_eq_some h')
      rw [hu x hx y hy hqx (List.find?_some h')]

theorem bind_congr' {ε α β : Type} {m m' : Except ε α} {f f' : α → Except ε β} (hm : m' = m)
    (hf : ∀ x, m = .ok x → f' x = f x) : m' >>= f' = m >>= f := by
  subst hm
  cases m' with
  | error e => rfl
  | ok x => exact hf x rfl

theorem mapM_congr' {ε α β : Type} {f f' : α → Except ε β} : ∀ (xs : List α), (∀ x ∈ xs, f' x = f x) →
    xs.mapM f' = xs.mapM f
  | [], _ => rfl
  | x :: xs, h => by
    rw [List.mapM_cons, List.mapM_cons, h x (by simp), mapM_congr' xs fun y hy => h y (by simp [hy])]

theorem lookup_mem {k : String} {v : Json} : ∀ {kvs : List (String × Json)}, Json.lookup k kvs = some v → (k, v) ∈ kvs
  | [], h => by cases h
  | (k', v') :: rest, h => by
    unfold Json.lookup at h
    split at h
    · rename_i hk
      cases h
      have : k' = k := by simpa using hk
      subst this
      exact List.mem_cons_self
    · exact List.mem_cons_of_mem _ (lookup_mem h)

/-! ## well-formed environments -/

def taggedOK (vs : List RVariant) : Bool :=
  decide (vs.map (·.name)).Nodup && decide ((vs.filter (fun v => !v.other)).map (·.wire)).Nodup &&
    decide ((vs.filter (·.other)).length ≤ 1)

def itemOK : Item → Bool
  | .tagged _ _ _ _ vs => taggedOK vs
  | _ => true

/-- item names pairwise distinct; the variants of every tagged enum can be told apart -/
def EnvOK (e : Env) : Bool := decide (e.items.map Item.name).Nodup && e.items.all itemOK

def tagOf : Item → Option String
  | .tagged _ _ _ tag _ => some tag
  | _ => none

/-- the tags of the tagged enums of the environment -/
def tagsOf (e : Env) : List String := e.items.filterMap tagOf

theorem taggedOK_spec {vs : List RVariant} (h : taggedOK vs = true) :
    (vs.map (·.name)).Nodup ∧ ((vs.filter (fun v => !v.other)).map (·.wire)).Nodup ∧ (vs.filter (·.other)).length ≤ 1 := by
  simpa [taggedOK, and_assoc] using h

theorem find_name_perm {vs vs' : List RVariant} (hp : vs.Perm vs') (hok : taggedOK vs = true) (name : String) :
    vs'.find? (·.name == name) = vs.find? (·.name == name) := by
  apply find?_perm_unique _ hp
  intro x hx y hy h1 h2
  have h1' : x.name = name := by simpa using h1
  have h2' : y.name = name := by simpa using h2
  exact nodup_map_inj (·.name) vs (taggedOK_spec hok).1 x hx y hy (h1'.trans h2'.symm)

theorem find_wire_perm {vs vs' : List RVariant} (hp : vs.Perm vs') (hok : taggedOK vs = true) (name : String) :
    vs'.find? (fun v => !v.other && v.wire == name) = vs.find? (fun v => !v.other && v.wire == name) := by
  apply find?_perm_unique _ hp
  intro x hx y hy h1 h2
  simp only [Bool.and_eq_true, Bool.not_eq_true', beq_iff_eq] at h1 h2
  have mx : x ∈ vs.filter (fun v => !v.other) := List.mem_filter.2 ⟨hx, by simp [h1.1]⟩
  have my : y ∈ vs.filter (fun v => !v.other) := List.mem_filter.2 ⟨hy, by simp [h2.1]⟩
  exact nodup_map_inj (·.wire) _ (taggedOK_spec hok).2.1 x mx y my (h1.2.trans h2.2.symm)

theorem find_other_perm {vs vs' : List RVariant} (hp : vs.Perm vs') (hok : taggedOK vs = true) :
    vs'.find? (·.other) = vs.find? (·.other) := by
  apply find?_perm_unique _ hp
  intro x hx y hy h1 h2
  have mx : x ∈ vs.filter (·.other) := List.mem_filter.2 ⟨hx, h1⟩
  have my : y ∈ vs.filter (·.other) := List.mem_filter.2 ⟨hy, h2⟩
  have hl := (taggedOK_spec hok).2.2
  generalize vs.filter (·.other) = L at mx my hl
  rcases L with _ | ⟨z, _ | ⟨z2, L⟩⟩
  · cases mx
  · simp only [List.mem_singleton] at mx my
    rw [mx, my]
  · simp only [List.length_cons] at hl
    omega

/-! ## the two environments find related items -/

def OptRel {α} (Rel : α → α → Prop) : Option α → Option α → Prop
  | none, none => True
  | some a, some b => Rel a b
  | _, _ => False

theorem itemEqv_name {x y : Item} (h : ItemEqv x y) : y.name = x.name := by
  cases h <;> rfl

theorem allRel_names {l m : List Item} (h : AllRel ItemEqv l m) : m.map Item.name = l.map Item.name := by
  induction h with
  | nil => rfl
  | cons hx _ ih => simp [itemEqv_name hx, ih]

theorem allRel_find {l m : List Item} (h : AllRel ItemEqv l m) (p : String) :
    OptRel ItemEqv (l.find? (·.name == p)) (m.find? (·.name == p)) := by
  induction h with
  | nil => trivial
  | cons hx _ ih =>
    simp only [List.find?_cons, itemEqv_name hx]
    split
    · exact hx
    · exact ih

theorem find_rel {e e' : Env} (hI : ItemsPerm e.items e'.items) (hok : EnvOK e = true) (p : String) :
    OptRel ItemEqv (e.find p) (e'.find p) := by
  obtain ⟨m, h1, h2⟩ := (itemsPerm_iff_itemsEqv _ _).1 hI
  have hnd : (m.map Item.name).Nodup := by
    rw [allRel_names h1]
    simp only [EnvOK, Bool.and_eq_true, decide_eq_true_eq] at hok
    exact hok.1
  have e2 : e'.items.find? (·.name == p) = m.find? (·.name == p) := by
    apply find?_perm_unique _ h2
    intro x hx y hy hx' hy'
    have hx'' : x.name = p := by simpa using hx'
    have hy'' : y.name = p := by simpa using hy'
    exact nodup_map_inj Item.name m hnd x hx y hy (hx''.trans hy''.symm)
  unfold Env.find
  rw [e2]
  exact allRel_find h1 p

theorem find_itemOK {e : Env} (hok : EnvOK e = true) {p : String} {it : Item} (h : e.find p = some it) :
    itemOK it = true := by
  simp only [EnvOK, Bool.and_eq_true, List.all_eq_true] at hok
  exact hok.2 it (List.mem_of_find?_eq_some h)

theorem find_tag_mem {e : Env} {p n : String} {d : List String} {c : Option String} {tag : String}
    {vs : List RVariant} (h : e.find p = some (.tagged n d c tag vs)) : tag ∈ tagsOf e := by
  unfold tagsOf
  exact List.mem_filterMap.2 ⟨_, List.mem_of_find?_eq_some h, rfl⟩

/-! ## serialization -/

section
variable {e e' : Env} (hI : ItemsPerm e.items e'.items) (hx : e'.externs = e.externs) (hok : EnvOK e = true)
include hI hx hok

theorem serPath_eq : ∀ (fuel : Nat) (p : String) (v : Val), serPath e' fuel p v = serPath e fuel p v := by
  intro fuel
  induction fuel with
  | zero => intro p v; rw [serPath, serPath]
  | succ n ih =>
    intro p v
    have ihf : serPath e' n = serPath e n := by funext p v; exact ih p v
    rw [serPath, serPath, ihf, hx]
    cases serPrim v with
    | some j => rfl
    | none =>
      simp only []
      have hr := find_rel hI hok p
      cases h1 : e.find p with
      | none =>
        cases h2 : e'.find p with
        | none => rfl
        | some it' => rw [h1, h2] at hr; exact absurd hr (by simp [OptRel])
      | some it =>
        cases h2 : e'.find p with
        | none => rw [h1, h2] at hr; exact absurd hr (by simp [OptRel])
        | some it' =>
          rw [h1, h2] at hr
          have hit := find_itemOK hok h1
          simp only [OptRel] at hr
          cases hr with
          | refl => rfl
          | tagged nm d c tag hp =>
            simp only []
            cases v with
            | variant name payload =>
              simp only []
              rw [find_name_perm hp hit]
            | _ => rfl

/-- **`ItemsPerm`-related environments serialize every value identically** -/
theorem itemsPerm_ser_eq (t : RTy) (v : Val) : Serde.ser e' t v = Serde.ser e t v := by
  have hf : ∀ fuel, serPath e' fuel = serPath e fuel := fun fuel => by funext p v; exact serPath_eq hI hx hok fuel p v
  unfold Serde.ser serTy
  rw [hf, hx, ← hI.length_eq]

end

/-! ## deserialization: JSON documents without integer tags -/

def isInt : Json → Bool
  | .int _ => true
  | _ => false

mutual
  /-- no entry whose key is in `tags` carries an integer, at any depth -/
  def good (tags : List String) : Json → Bool
    | .arr xs => goodList tags xs
    | .obj kvs => goodKvs tags kvs
    | _ => true
  def goodList (tags : List String) : List Json → Bool
    | [] => true
    | x :: xs => good tags x && goodList tags xs
  def goodKvs (tags : List String) : List (String × Json) → Bool
    | [] => true
    | (k, v) :: rest => !(tags.contains k && isInt v) && good tags v && goodKvs tags rest
end

/-- the entries of an object, as a predicate on the list -/
def GoodKvs (tags : List String) (kvs : List (String × Json)) : Prop :=
  ∀ p ∈ kvs, (tags.contains p.1 && isInt p.2) = false ∧ good tags p.2 = true

def GoodBuf (tags : List String) (buf : Buf) : Prop := GoodKvs tags (present buf)

theorem goodList_iff (tags : List String) : ∀ xs : List Json, goodList tags xs = true ↔ ∀ x ∈ xs, good tags x = true
  | [] => by simp [goodList]
  | x :: xs => by simp [goodList, goodList_iff tags xs]

theorem goodKvs_iff (tags : List String) : ∀ kvs : List (String × Json), goodKvs tags kvs = true ↔ GoodKvs tags kvs
  | [] => by simp [goodKvs, GoodKvs]
  | (k, v) :: rest => by
    simp only [goodKvs, GoodKvs, Bool.and_eq_true, Bool.not_eq_true', goodKvs_iff tags rest, List.mem_cons,
      forall_eq_or_imp, and_assoc]

theorem good_arr {tags : List String} {xs : List Json} (h : good tags (.arr xs) = true) : ∀ x ∈ xs, good tags x = true :=
  (goodList_iff tags xs).1 (by simpa [good] using h)

theorem good_obj {tags : List String} {kvs : List (String × Json)} (h : good tags (.obj kvs) = true) : GoodKvs tags kvs :=
  (goodKvs_iff tags kvs).1 (by simpa [good] using h)

theorem good_of_obj {tags : List String} {kvs : List (String × Json)} (h : GoodKvs tags kvs) : good tags (.obj kvs) = true := by
  simpa [good] using (goodKvs_iff tags kvs).2 h

theorem GoodKvs.sub {tags : List String} {kvs kvs' : List (String × Json)} (h : GoodKvs tags kvs)
    (hs : ∀ p ∈ kvs', p ∈ kvs) : GoodKvs tags kvs' := fun p hp => h p (hs p hp)

theorem GoodKvs.lookup {tags : List String} {kvs : List (String × Json)} (h : GoodKvs tags kvs) {k : String} {v : Json}
    (hl : Json.lookup k kvs = some v) : good tags v = true := (h _ (lookup_mem hl)).2

theorem takeKeys_spec (keys : List String) : ∀ (buf : Buf),
    (∀ p ∈ (takeKeys keys buf).1, p ∈ present buf) ∧ (∀ p ∈ present (takeKeys keys buf).2, p ∈ present buf)
  | [] => by simp [takeKeys, present]
  | none :: rest => by
    have ih := takeKeys_spec keys rest
    simp only [takeKeys, present, List.filterMap_cons, id] at ih ⊢
    exact ih
  | some (k, v) :: rest => by
    have ih := takeKeys_spec keys rest
    simp only [takeKeys, present] at ih ⊢
    split
    · simp only [List.mem_cons, List.filterMap_cons, id]
      exact ⟨fun p hp => hp.elim (fun h => .inl h) (fun h => .inr (ih.1 p h)), fun p hp => .inr (ih.2 p hp)⟩
    · simp only [List.filterMap_cons, id, List.mem_cons]
      exact ⟨fun p hp => .inr (ih.1 p hp), fun p hp => hp.elim (fun h => .inl h) (fun h => .inr (ih.2 p h))⟩

theorem present_map_some (kvs : List (String × Json)) : present (kvs.map some) = kvs := by
  induction kvs with
  | nil => rfl
  | cons x xs ih => simp only [present, List.map_cons, List.filterMap_cons, id] at ih ⊢; rw [ih]

/-! ### the building blocks respect readers that agree on good documents -/

section With
variable {tags : List String} {path path' : String → Json → D Val}
  (hp : ∀ p j, good tags j = true → path' p j = path p j)
include hp

theorem deTyWith_good : ∀ (t : RTy) (j : Json), good tags j = true → deTyWith path' t j = deTyWith path t j
  | .path p, j, hj => by simp only [deTyWith]; exact hp p j hj
  | .opt t, j, hj => by
    simp only [deTyWith]
    split
    · rfl
    · rw [deTyWith_good t j hj]
  | .box t, j, hj => by simp only [deTyWith]; exact deTyWith_good t j hj
  | .vec t, j, hj => by
    cases j with
    | arr xs =>
      simp only [deTyWith]
      rw [mapM_congr' xs fun x hx => deTyWith_good t x (good_arr hj x hx)]
    | _ => rfl

theorem deFieldWith_good (f : RField) (j : Json) (hj : good tags j = true) :
    deFieldWith path' f j = deFieldWith path f j := by
  unfold deFieldWith
  cases f.deserWith with
  | some h => rfl
  | none => exact deTyWith_good hp f.ty j hj

theorem deOwnWith_good : ∀ (fs : List RField) (kvs : List (String × Json)), GoodKvs tags kvs →
    deOwnWith path' fs kvs = deOwnWith path fs kvs
  | [], _, _ => rfl
  | f :: fs, kvs, hk => by
    rw [deOwnWith.eq_2, deOwnWith.eq_2]
    refine bind_congr' (deOwnWith_good fs kvs hk) (fun rest _ => ?_)
    split
    · rfl
    · split
      · rfl
      · cases hl : Json.lookup f.wire kvs with
        | none => rfl
        | some j => simp only [deFieldWith_good hp f j (hk.lookup hl)]

theorem deTaggedWith_good (b : Bool) (tag : String) (htag : tags.contains tag = true) {vs vs' : List RVariant}
    (hperm : vs.Perm vs') (hok : taggedOK vs = true) (kvs : List (String × Json)) (hk : GoodKvs tags kvs) :
    deTaggedWith path' b tag vs' kvs = deTaggedWith path b tag vs kvs := by
  have hrest : good tags (.obj (kvs.filter (·.1 != tag))) = true :=
    good_of_obj (hk.sub fun p hp => (List.mem_filter.1 hp).1)
  have hpick : ∀ v : RVariant,
      (if v.other then (pure (.variant v.name none) : D Val) else
          match v.payload with
          | none => pure (.variant v.name none)
          | some t => (fun x => Val.variant v.name (some x)) <$> deTyWith path' t (.obj (kvs.filter (·.1 != tag)))) =
      (if v.other then (pure (.variant v.name none) : D Val) else
          match v.payload with
          | none => pure (.variant v.name none)
          | some t => (fun x => Val.variant v.name (some x)) <$> deTyWith path t (.obj (kvs.filter (·.1 != tag)))) := by
    intro v
    split
    · rfl
    · cases v.payload with
      | none => rfl
      | some t => simp only [deTyWith_good hp t _ hrest]
  unfold deTaggedWith
  split
  · rfl
  · simp only []
    cases hl : Json.lookup tag kvs with
    | none => rfl
    | some jv =>
      cases jv with
      | str name =>
        simp only [find_wire_perm hperm hok, find_other_perm hperm hok]
        cases vs.find? (fun v => !v.other && v.wire == name) with
        | none => rfl
        | some v => exact hpick v
      | int n =>
        have := (hk _ (lookup_mem hl)).1
        simp only [isInt, Bool.and_true] at this
        rw [htag] at this
        cases this
      | null => rfl
      | bool _ => rfl
      | num _ => rfl
      | arr _ => rfl
      | obj _ => rfl
  · rfl

end With

section Flat
variable {tags : List String} {flat flat' : RTy → Buf → D (Val × Buf)}
  (hf : ∀ t buf, GoodBuf tags buf → flat' t buf = flat t buf)
  (hkeep : ∀ t buf r, GoodBuf tags buf → flat t buf = .ok r → GoodBuf tags r.2)
include hf hkeep

theorem deFlatsWith_good : ∀ (fs : List RField) (buf : Buf), GoodBuf tags buf →
    deFlatsWith flat' fs buf = deFlatsWith flat fs buf
  | [], _, _ => rfl
  | f :: fs, buf, hb => by
    rw [deFlatsWith.eq_2, deFlatsWith.eq_2]
    split
    · exact deFlatsWith_good fs buf hb
    · refine bind_congr' (hf f.ty buf hb) (fun r hr => ?_)
      have := deFlatsWith_good fs r.2 (hkeep f.ty buf r hb hr)
      obtain ⟨v, buf'⟩ := r
      simp only [this]

end Flat

theorem deStructMapWith_good {tags : List String} {path path' : String → Json → D Val}
    {flat flat' : RTy → Buf → D (Val × Buf)}
    (hp : ∀ p j, good tags j = true → path' p j = path p j)
    (hf : ∀ t buf, GoodBuf tags buf → flat' t buf = flat t buf)
    (hkeep : ∀ t buf r, GoodBuf tags buf → flat t buf = .ok r → GoodBuf tags r.2)
    (fields : List RField) (kvs : List (String × Json)) (hk : GoodKvs tags kvs) :
    deStructMapWith path' flat' fields kvs = deStructMapWith path flat fields kvs := by
  unfold deStructMapWith
  refine bind_congr' (deOwnWith_good hp fields kvs hk) (fun own _ => ?_)
  split
  · have hb : GoodBuf tags ((kvs.filter (fun kv =>
        !((fields.filter (!·.flatten)).map (·.wire)).contains kv.1)).map some) := by
      unfold GoodBuf
      rw [present_map_some]
      exact hk.sub fun p hp => (List.mem_filter.1 hp).1
    simp only [deFlatsWith_good hf hkeep fields _ hb]
  · rfl

theorem deStructWith_good {tags : List String} {path path' : String → Json → D Val}
    {flat flat' : RTy → Buf → D (Val × Buf)}
    (hp : ∀ p j, good tags j = true → path' p j = path p j)
    (hf : ∀ t buf, GoodBuf tags buf → flat' t buf = flat t buf)
    (hkeep : ∀ t buf r, GoodBuf tags buf → flat t buf = .ok r → GoodBuf tags r.2)
    (fields : List RField) (j : Json) (hj : good tags j = true) :
    deStructWith path' flat' fields j = deStructWith path flat fields j := by
  unfold deStructWith
  cases j with
  | obj kvs => exact deStructMapWith_good hp hf hkeep fields kvs (good_obj hj)
  | arr xs =>
    simp only []
    split
    · rfl
    · split
      · rfl
      · rw [mapM_congr' (fields.zip xs) fun fx hfx => by
          rw [deFieldWith_good hp fx.1 fx.2 (good_arr hj fx.2 (List.of_mem_zip hfx).2)]]
  | _ => rfl

/-! ### `dePath` / `deFlat` -/

/-- a flattened member never hands on entries it did not receive -/
theorem deFlat_keep (e : Env) (tags : List String) : ∀ (fuel : Nat) (t : RTy) (buf : Buf) (r : Val × Buf),
    GoodBuf tags buf → deFlat e fuel t buf = .ok r → GoodBuf tags r.2 := by
  intro fuel
  induction fuel with
  | zero => intro t buf r _ h; rw [deFlat] at h; cases h
  | succ n ih =>
    intro t buf r hb h
    cases t with
    | box t => rw [deFlat] at h; exact ih t buf r hb h
    | opt t => simp only [deFlat] at h; cases h
    | vec t => simp only [deFlat] at h; cases h
    | path p =>
      rw [deFlat] at h
      cases hfind : e.find p with
      | none => rw [hfind] at h; cases h
      | some it =>
        rw [hfind] at h
        cases it with
        | alias n' pub t => exact ih t buf r hb h
        | struct n' d sc fields =>
          simp only [] at h
          split at h
          · obtain ⟨v, _, h⟩ := C02.bind_ok h
            cases h
            exact hb
          · obtain ⟨own, _, h⟩ := C02.bind_ok h
            cases h
            exact hb.sub (takeKeys_spec _ buf).2
        | tagged n' d sc tag vs =>
          simp only [] at h
          obtain ⟨v, _, h⟩ := C02.bind_ok h
          cases h
          exact hb
        | unitStruct n' d sc => cases h
        | gqlEnum n' d sp vs ser de => cases h
        | oneOf n' d sc vs => cases h
        | defaults fns => cases h

section
variable {e e' : Env} (hI : ItemsPerm e.items e'.items) (hx : e'.externs = e.externs) (hok : EnvOK e = true)
include hI hx hok

theorem de_eq : ∀ (fuel : Nat),
    (∀ b p j, good (tagsOf e) j = true → dePath e' b fuel p j = dePath e b fuel p j) ∧
    (∀ t buf, GoodBuf (tagsOf e) buf → deFlat e' fuel t buf = deFlat e fuel t buf) := by
  intro fuel
  induction fuel with
  | zero =>
    refine ⟨fun b p j _ => ?_, fun t buf _ => ?_⟩
    · rw [dePath, dePath]
    · rw [deFlat, deFlat]
  | succ n ih =>
    obtain ⟨ihP, ihF⟩ := ih
    have ihK := deFlat_keep e (tagsOf e) n
    refine ⟨fun b p j hj => ?_, fun t buf hb => ?_⟩
    · rw [dePath, dePath]
      cases dePrim p j with
      | some r => rfl
      | none =>
      simp only []
      have hr := find_rel hI hok p
      cases h1 : e.find p with
      | none =>
        cases h2 : e'.find p with
        | some it' => rw [h1, h2] at hr; exact absurd hr (by simp [OptRel])
        | none =>
          simp only [hx]
          cases e.externs.find? (·.1 == p) with
          | none => rfl
          | some x => exact deTyWith_good (ihP b) x.2 j hj
      | some it =>
        cases h2 : e'.find p with
        | none => rw [h1, h2] at hr; exact absurd hr (by simp [OptRel])
        | some it' =>
          rw [h1, h2] at hr
          have hit := find_itemOK hok h1
          simp only [OptRel] at hr
          cases hr with
          | tagged nm d c tag hp =>
            have htag : (tagsOf e).contains tag = true := List.contains_iff_mem.2 (find_tag_mem h1)
            simp only []
            cases j with
            | obj kvs => exact deTaggedWith_good (ihP true) b tag htag hp hit kvs (good_obj hj)
            | _ => rfl
          | refl =>
            cases it with
            | alias n' pub t => exact deTyWith_good (ihP b) t j hj
            | struct n' d sc fields => exact deStructWith_good (ihP b) ihF ihK fields j hj
            | unitStruct n' d sc => rfl
            | tagged n' d sc tag vs =>
              have htag : (tagsOf e).contains tag = true := List.contains_iff_mem.2 (find_tag_mem h1)
              simp only []
              cases j with
              | obj kvs => exact deTaggedWith_good (ihP true) b tag htag (.refl _) hit kvs (good_obj hj)
              | _ => rfl
            | gqlEnum n' d sp vs ser de => rfl
            | oneOf n' d sc vs =>
              simp only []
              split
              · rename_i k v
                have hv : good (tagsOf e) v = true := (good_obj hj (k, v) (by simp)).2
                cases vs.find? (·.wire == k) with
                | none => rfl
                | some var =>
                  simp only []
                  cases var.payload with
                  | none => rfl
                  | some t => simp only [deTyWith_good (ihP b) t v hv]
              · rfl
            | defaults fns => rfl
    · cases t with
      | box t => rw [deFlat, deFlat]; exact ihF t buf hb
      | opt t => simp only [deFlat]
      | vec t => simp only [deFlat]
      | path p =>
        rw [deFlat, deFlat]
        have hr := find_rel hI hok p
        cases h1 : e.find p with
        | none =>
          cases h2 : e'.find p with
          | some it' => rw [h1, h2] at hr; exact absurd hr (by simp [OptRel])
          | none => rfl
        | some it =>
          cases h2 : e'.find p with
          | none => rw [h1, h2] at hr; exact absurd hr (by simp [OptRel])
          | some it' =>
            rw [h1, h2] at hr
            have hit := find_itemOK hok h1
            simp only [OptRel] at hr
            cases hr with
            | tagged nm d c tag hp =>
              have htag : (tagsOf e).contains tag = true := List.contains_iff_mem.2 (find_tag_mem h1)
              exact bind_congr' (deTaggedWith_good (ihP true) true tag htag hp hit _ hb) (fun _ _ => rfl)
            | refl =>
              cases it with
              | alias n' pub t => exact ihF t buf hb
              | struct n' d sc fields =>
                simp only []
                split
                · exact bind_congr' (deStructMapWith_good (ihP true) ihF ihK fields _ hb) (fun _ _ => rfl)
                · exact bind_congr' (deOwnWith_good (ihP true) fields _ (hb.sub (takeKeys_spec _ buf).1))
                    (fun _ _ => rfl)
              | tagged n' d sc tag vs =>
                have htag : (tagsOf e).contains tag = true := List.contains_iff_mem.2 (find_tag_mem h1)
                exact bind_congr' (deTaggedWith_good (ihP true) true tag htag (.refl _) hit _ hb) (fun _ _ => rfl)
              | unitStruct n' d sc => rfl
              | gqlEnum n' d sp vs ser de => rfl
              | oneOf n' d sc vs => rfl
              | defaults fns => rfl

/-- **`ItemsPerm`-related environments read every JSON document without an integer tag identically** -/
theorem itemsPerm_de_eq (t : RTy) (j : Json) (hj : good (tagsOf e) j = true) : Serde.de e' t j = Serde.de e t j := by
  unfold Serde.de deTy deFuel
  rw [hx, ← hI.length_eq]
  exact deTyWith_good (fun p j' hj' => (de_eq hI hx hok _).1 false p j' hj') t j hj

/-- … hence the same round trip `to_value(from_value(j))` -/
theorem itemsPerm_roundtrip_eq (t : RTy) (j : Json) (hj : good (tagsOf e) j = true) :
    Serde.roundtrip e' t j = Serde.roundtrip e t j := by
  unfold Serde.roundtrip
  rw [itemsPerm_de_eq hI hx hok t j hj]
  exact bind_congr' rfl (fun v _ => itemsPerm_ser_eq hI hx hok t v)

end

/-! ## corollaries: the hypothesis may be checked on either side; generated modules -/

theorem taggedOK_perm {vs vs' : List RVariant} (hp : vs.Perm vs') (h : taggedOK vs = true) : taggedOK vs' = true := by
  obtain ⟨h1, h2, h3⟩ := taggedOK_spec h
  simp only [taggedOK, Bool.and_eq_true, decide_eq_true_eq]
  exact ⟨⟨(hp.map _).nodup_iff.1 h1, ((hp.filter _).map _).nodup_iff.1 h2⟩, by rw [← (hp.filter _).length_eq]; exact h3⟩

theorem itemOK_eqv {x y : Item} (h : ItemEqv x y) (hx : itemOK x = true) : itemOK y = true := by
  cases h with
  | refl => exact hx
  | tagged n d c tag hp => exact taggedOK_perm hp hx

theorem allRel_mem_right {l m : List Item} (h : AllRel ItemEqv l m) : ∀ y ∈ m, ∃ x ∈ l, ItemEqv x y := by
  induction h with
  | nil => intro y hy; cases hy
  | cons hx _ ih =>
    intro y hy
    rcases List.mem_cons.1 hy with rfl | hy
    · exact ⟨_, List.mem_cons_self, hx⟩
    · obtain ⟨x, hx', hxy⟩ := ih y hy
      exact ⟨x, List.mem_cons_of_mem _ hx', hxy⟩

/-- `EnvOK` is invariant under `ItemsPerm` -/
theorem envOK_of_itemsPerm {e e' : Env} (hI : ItemsPerm e.items e'.items) (hok : EnvOK e = true) : EnvOK e' = true := by
  obtain ⟨m, h1, h2⟩ := (itemsPerm_iff_itemsEqv _ _).1 hI
  simp only [EnvOK, Bool.and_eq_true, decide_eq_true_eq, List.all_eq_true] at hok ⊢
  refine ⟨?_, ?_⟩
  · rw [← (h2.map Item.name).nodup_iff, allRel_names h1]; exact hok.1
  · intro y hy
    obtain ⟨x, hx, hxy⟩ := allRel_mem_right h1 y (h2.mem_iff.2 hy)
    exact itemOK_eqv hxy (hok.2 x hx)

/-- **the wire behaviour of `ModuleEqv`-related modules** (the relation of `C07.CodegenIsoPermStatement`): whatever
the consumer supplies for the types defined outside the module, `Serialize` agrees on every value and `Deserialize` on
every JSON document without an integer tag -/
theorem moduleEqv_serde {m m' : Module} (h : ModuleEqv m m') (externs : List (String × RTy))
    (hok : EnvOK { items := m.items, externs := externs } = true) :
    (∀ t v, Serde.ser { items := m'.items, externs := externs } t v =
      Serde.ser { items := m.items, externs := externs } t v) ∧
    (∀ t j, good (tagsOf { items := m.items, externs := externs }) j = true →
      Serde.de { items := m'.items, externs := externs } t j =
        Serde.de { items := m.items, externs := externs } t j) := by
  have hI : ItemsPerm m.items m'.items := (itemsPerm_iff_itemsEqv _ _).2 h.2.2.2.2.2.2.2.2
  exact ⟨fun t v => itemsPerm_ser_eq (e := ⟨m.items, externs⟩) (e' := ⟨m'.items, externs⟩) hI rfl hok t v,
    fun t j hj => itemsPerm_de_eq (e := ⟨m.items, externs⟩) (e' := ⟨m'.items, externs⟩) hI rfl hok t j hj⟩

/-! ## witnesses -/

/-- a struct with a flattened two-variant enum (the shape the generator emits for a selection on an interface) -/
def wEnv (vs : List RVariant) : Env :=
  { items := [.struct "S" ["Deserialize"] none [{ rust := "on", ty := .path "SOn", flatten := true }],
              .tagged "SOn" ["Deserialize"] none "__typename" vs] }

def wA : RVariant := { name := "A" }
def wB : RVariant := { name := "B" }

theorem wEnv_perm : ItemsPerm (wEnv [wA, wB]).items (wEnv [wB, wA]).items :=
  .cons (.refl _) (.cons (.tagged _ _ _ _ (.swap _ _ _)) .nil)

/-- the hypotheses of `itemsPerm_de_eq` / `itemsPerm_ser_eq` hold on a non-trivial instance … -/
example : EnvOK (wEnv [wA, wB]) = true ∧ tagsOf (wEnv [wA, wB]) = ["__typename"] ∧
    good (tagsOf (wEnv [wA, wB])) (.obj [("__typename", .str "B"), ("id", .int 3)]) = true := by
  decide +kernel

/-- … and the two sides read the same value (an instance of the theorem) -/
example : Serde.de (wEnv [wB, wA]) (.path "S") (.obj [("__typename", .str "B"), ("id", .int 3)]) =
    Serde.de (wEnv [wA, wB]) (.path "S") (.obj [("__typename", .str "B"), ("id", .int 3)]) :=
  itemsPerm_de_eq wEnv_perm rfl (by decide +kernel) _ _ (by decide +kernel)

/-- **the restriction on the JSON document is needed**: buffered content accepts the variant index as a tag, so
`{"__typename": 0}` is read as the *first* variant on each side -/
theorem de_int_tag_differs :
    Serde.de (wEnv [wA, wB]) (.path "S") (.obj [("__typename", .int 0)]) = .ok (.record [("on", .variant "A" none)]) ∧
    Serde.de (wEnv [wB, wA]) (.path "S") (.obj [("__typename", .int 0)]) = .ok (.record [("on", .variant "B" none)]) := by
  constructor <;> rfl

/-- the statement "`de` agrees on every JSON document" is false -/
theorem de_every_json_false :
    ¬ ∀ (e e' : Env), ItemsPerm e.items e'.items → e'.externs = e.externs → EnvOK e = true →
      ∀ (t : RTy) (j : Json), Serde.de e' t j = Serde.de e t j := by
  intro h
  have := h _ _ wEnv_perm rfl (by decide +kernel) (.path "S") (.obj [("__typename", .int 0)])
  rw [de_int_tag_differs.1, de_int_tag_differs.2] at this
  simp at this

/-! each clause of `EnvOK` is needed -/

/-- item names must be distinct (`Env.find` takes the first item of a name) -/
theorem envOK_names_needed :
    let e : Env := { items := [.alias "X" true (.path "String"), .alias "X" true (.path "i64")] }
    let e' : Env := { items := [.alias "X" true (.path "i64"), .alias "X" true (.path "String")] }
    ItemsPerm e.items e'.items ∧ Serde.de e (.path "X") (.str "a") = .ok (.str "a") ∧
      Serde.de e' (.path "X") (.str "a") = .error (.mismatch "expected an integer") := by
  refine ⟨.swap _ _ _, ?_, ?_⟩ <;> rfl

def wT (vs : List RVariant) : Env := { items := [.tagged "T" [] none "t" vs] }

/-- variant names must be distinct (`Serialize` looks the variant up by name) -/
theorem envOK_variant_names_needed :
    let v1 : RVariant := { name := "A", rename := some "a1" }
    let v2 : RVariant := { name := "A", rename := some "a2" }
    ItemsPerm (wT [v1, v2]).items (wT [v2, v1]).items ∧
      Serde.ser (wT [v1, v2]) (.path "T") (.variant "A" none) = .ok (.obj [("t", .str "a1")]) ∧
      Serde.ser (wT [v2, v1]) (.path "T") (.variant "A" none) = .ok (.obj [("t", .str "a2")]) := by
  refine ⟨.cons (.tagged _ _ _ _ (.swap _ _ _)) .nil, ?_, ?_⟩ <;> rfl

/-- wire names must be distinct (`Deserialize` looks the variant up by wire name) -/
theorem envOK_wires_needed :
    let v1 : RVariant := { name := "A", rename := some "x" }
    let v2 : RVariant := { name := "B", rename := some "x" }
    ItemsPerm (wT [v1, v2]).items (wT [v2, v1]).items ∧
      Serde.de (wT [v1, v2]) (.path "T") (.obj [("t", .str "x")]) = .ok (.variant "A" none) ∧
      Serde.de (wT [v2, v1]) (.path "T") (.obj [("t", .str "x")]) = .ok (.variant "B" none) := by
  refine ⟨.cons (.tagged _ _ _ _ (.swap _ _ _)) .nil, ?_, ?_⟩ <;> rfl

/-- at most one `#[serde(other)]` variant -/
theorem envOK_other_needed :
    let v1 : RVariant := { name := "U1", other := true }
    let v2 : RVariant := { name := "U2", other := true }
    ItemsPerm (wT [v1, v2]).items (wT [v2, v1]).items ∧
      Serde.de (wT [v1, v2]) (.path "T") (.obj [("t", .str "zzz")]) = .ok (.variant "U1" none) ∧
      Serde.de (wT [v2, v1]) (.path "T") (.obj [("t", .str "zzz")]) = .ok (.variant "U2" none) := by
  refine ⟨.cons (.tagged _ _ _ _ (.swap _ _ _)) .nil, ?_, ?_⟩ <;> rfl

end C07P
end GqlVerif
