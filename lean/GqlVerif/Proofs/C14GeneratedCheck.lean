import GqlVerif.Proofs.SerdeFuel
/-!
# P26 (1/4) — C14: a decidable, reach-local checker for `KeyFree` (reviewer finding 3)

`Composed.KeyFree e k p` is a `Prop` over the inductive `Composed.Reach` (no `Decidable` instance); what was evaluated so
far is the environment-global sufficient condition `e.items.all (itemOK k)`, false for every key some *other* struct uses
(`name`, `id`, `__typename`).  Here:

* `succs e p` — one step of `Reach` as a list; `reachSet e p` — the closure of `[p]` under `succs` (a work list without
  repetitions, `reachFuel e + 1` rounds); `keyFreeCheck e k p : Bool` — the closure is closed under `succs` and every item
  found at one of its names is `itemOK k`;
* **`keyFreeCheck_sound`** : `keyFreeCheck e k p = true → KeyFree e k p` (needs nothing about the fuel: closedness is
  *checked*);
* **`keyFreeCheck_complete`** : `KeyFree e k p → keyFreeCheck e k p = true` (the closure is closed after `reachFuel e`
  rounds: every round that does not close adds a name of the finite universe `p :: targets e`), hence
  **`keyFreeCheck_iff`** and a `Decidable (KeyFree e k p)` instance;
* `mem_reachSet_iff` : `q ∈ reachSet e p ↔ Reach e p q`;
* evaluation on the generated 25-item module `denyEnv` for keys other structs use (`name`, `id`, `__typename`, `kind`),
  where the global check is `false`; and the positive / negative answers agree with what the module does.
-/
namespace GqlVerif
namespace C14G
open Serde Composed

/-! ## one step of `Reach` -/

/-- the named types read from the same JSON object as `p`, one step -/
def succs (e : Env) (p : String) : List String :=
  match e.find p with
  | some it => sameLevel it
  | none => match e.externs.find? (·.1 == p) with
    | some x => [Scope.leaf x.2]
    | none => []

theorem reach_of_succ {e : Env} {p q r : String} (hq : q ∈ succs e p) (h : Reach e q r) : Reach e p r := by
  unfold succs at hq
  cases hf : e.find p with
  | some it => rw [hf] at hq; exact .item hf hq h
  | none =>
    rw [hf] at hq
    cases hx : e.externs.find? (·.1 == p) with
    | none => rw [hx] at hq; simp at hq
    | some x =>
      rw [hx] at hq
      simp only [List.mem_singleton] at hq
      subst hq
      exact .extern hf hx h

theorem reach_cases {e : Env} {p r : String} (h : Reach e p r) : r = p ∨ ∃ q ∈ succs e p, Reach e q r := by
  cases h with
  | refl => exact .inl rfl
  | item hf hq hr => exact .inr ⟨_, by simp only [succs, hf]; exact hq, hr⟩
  | extern hf hx hr => exact .inr ⟨_, by simp [succs, hf, hx], hr⟩

theorem Reach.trans' {e : Env} {p q r : String} (h1 : Reach e p q) (h2 : Reach e q r) : Reach e p r := by
  induction h1 with
  | refl => exact h2
  | item hf hq _ ih => exact .item hf hq (ih h2)
  | extern hf hx _ ih => exact .extern hf hx (ih h2)

theorem reach_snoc {e : Env} {p q r : String} (h1 : Reach e p q) (hr : r ∈ succs e q) : Reach e p r :=
  Reach.trans' h1 (reach_of_succ hr (.refl r))

/-- a set of names that contains `p` and is closed under `succs` contains everything reachable from `p` -/
theorem reach_subset_of_closed {e : Env} {S : List String} (hcl : ∀ q ∈ S, ∀ r ∈ succs e q, r ∈ S) {p q : String}
    (hp : p ∈ S) (h : Reach e p q) : q ∈ S := by
  induction h with
  | refl => exact hp
  | item hf hq _ ih => exact ih (hcl _ hp _ (by simp only [succs, hf]; exact hq))
  | extern hf hx _ ih => exact ih (hcl _ hp _ (by simp [succs, hf, hx]))

/-! ## the closure -/

/-- append the elements of `xs` that are not there yet -/
def addNew (S : List String) : List String → List String
  | [] => S
  | x :: xs => if S.contains x then addNew S xs else addNew (S ++ [x]) xs

theorem mem_addNew {y : String} : ∀ (xs S : List String), y ∈ addNew S xs ↔ y ∈ S ∨ y ∈ xs
  | [], S => by simp [addNew]
  | x :: xs, S => by
    rw [addNew]
    split
    · rename_i h
      have hx : x ∈ S := by simpa using h
      rw [mem_addNew xs S]
      constructor
      · rintro (h | h)
        · exact .inl h
        · exact .inr (by simp [h])
      · rintro (h | h)
        · exact .inl h
        · rcases List.mem_cons.mp h with rfl | h
          · exact .inl hx
          · exact .inr h
    · rw [mem_addNew xs (S ++ [x])]
      simp only [List.mem_append, List.mem_cons, List.not_mem_nil, or_false]
      constructor
      · rintro ((h | h) | h)
        · exact .inl h
        · exact .inr (.inl h)
        · exact .inr (.inr h)
      · rintro (h | h | h)
        · exact .inl (.inl h)
        · exact .inl (.inr h)
        · exact .inr h

theorem nodup_addNew : ∀ (xs S : List String), S.Nodup → (addNew S xs).Nodup
  | [], S, h => by simpa [addNew] using h
  | x :: xs, S, h => by
    rw [addNew]
    split
    · exact nodup_addNew xs S h
    · rename_i hc
      have hx : x ∉ S := by simpa using hc
      apply nodup_addNew xs (S ++ [x])
      rw [List.nodup_append]
      refine ⟨h, by simp, ?_⟩
      intro a ha b hb
      simp only [List.mem_singleton] at hb
      subst hb
      intro hab; subst hab; exact hx ha

theorem length_addNew_le : ∀ (xs S : List String), S.length ≤ (addNew S xs).length
  | [], S => by simp [addNew]
  | x :: xs, S => by
    rw [addNew]
    split
    · exact length_addNew_le xs S
    · have := length_addNew_le xs (S ++ [x])
      simp only [List.length_append, List.length_singleton] at this
      omega

theorem addNew_of_subset : ∀ (xs S : List String), (∀ x ∈ xs, x ∈ S) → addNew S xs = S
  | [], S, _ => rfl
  | x :: xs, S, h => by
    rw [addNew]
    have hx : S.contains x = true := by simpa using h x (by simp)
    rw [if_pos hx]
    exact addNew_of_subset xs S (fun y hy => h y (by simp [hy]))

theorem length_addNew_lt : ∀ (xs S : List String), (∃ x ∈ xs, x ∉ S) → S.length < (addNew S xs).length
  | [], S, h => by obtain ⟨x, hx, _⟩ := h; simp at hx
  | x :: xs, S, h => by
    rw [addNew]
    split
    · rename_i hc
      have hx : x ∈ S := by simpa using hc
      apply length_addNew_lt xs S
      obtain ⟨y, hy, hyS⟩ := h
      rcases List.mem_cons.mp hy with rfl | hy
      · exact absurd hx hyS
      · exact ⟨y, hy, hyS⟩
    · have := length_addNew_le xs (S ++ [x])
      simp only [List.length_append, List.length_singleton] at this
      omega

/-- one round: add the successors of everything in `S` -/
def expand (e : Env) (S : List String) : List String := addNew S (S.flatMap (succs e))

/-- `n` rounds -/
def closure (e : Env) : Nat → List String → List String
  | 0, S => S
  | n+1, S => closure e n (expand e S)

/-- `S` is closed under `succs` -/
def closedB (e : Env) (S : List String) : Bool := S.all (fun q => (succs e q).all (fun r => S.contains r))

theorem closedB_iff {e : Env} {S : List String} : closedB e S = true ↔ ∀ q ∈ S, ∀ r ∈ succs e q, r ∈ S := by
  simp [closedB, List.all_eq_true]

theorem expand_of_closed {e : Env} {S : List String} (h : closedB e S = true) : expand e S = S := by
  apply addNew_of_subset
  intro x hx
  obtain ⟨q, hq, hxq⟩ := List.mem_flatMap.mp hx
  exact closedB_iff.mp h q hq x hxq

theorem closure_of_closed {e : Env} {S : List String} (h : closedB e S = true) : ∀ n, closure e n S = S
  | 0 => rfl
  | n+1 => by rw [closure, expand_of_closed h, closure_of_closed h n]

theorem length_expand_lt {e : Env} {S : List String} (h : closedB e S = false) : S.length < (expand e S).length := by
  apply length_addNew_lt
  have : ¬ (∀ q ∈ S, ∀ r ∈ succs e q, r ∈ S) := by
    intro hc
    have := closedB_iff.mpr hc
    rw [h] at this; cases this
  apply Classical.byContradiction
  intro hno
  apply this
  intro q hq r hr
  apply Classical.byContradiction
  intro hrS
  exact hno ⟨r, List.mem_flatMap.mpr ⟨q, hq, hr⟩, hrS⟩

theorem subset_closure {e : Env} : ∀ (n : Nat) (S : List String) {x : String}, x ∈ S → x ∈ closure e n S
  | 0, _, _, h => h
  | n+1, S, _, h => subset_closure n (expand e S) ((mem_addNew _ _).mpr (.inl h))

/-- everything in the closure is reachable from a member of the start set -/
theorem closure_reach {e : Env} {p : String} : ∀ (n : Nat) (S : List String), (∀ q ∈ S, Reach e p q) →
    ∀ q ∈ closure e n S, Reach e p q
  | 0, _, h => h
  | n+1, S, h => by
    apply closure_reach n (expand e S)
    intro q hq
    rcases (mem_addNew _ _).mp hq with hq | hq
    · exact h q hq
    · obtain ⟨q', hq', hqq⟩ := List.mem_flatMap.mp hq
      exact reach_snoc (h q' hq') hqq

/-! ## the universe of names, and why `reachFuel e` rounds close the set -/

/-- every name that can be a successor -/
def targets (e : Env) : List String := e.items.flatMap sameLevel ++ e.externs.map (fun x => Scope.leaf x.2)

/-- the number of rounds: one per possible new name -/
def reachFuel (e : Env) : Nat := (targets e).length

theorem succs_subset_targets {e : Env} {q r : String} (h : r ∈ succs e q) : r ∈ targets e := by
  unfold succs at h
  unfold targets
  cases hf : e.find q with
  | some it =>
    rw [hf] at h
    exact List.mem_append_left _ (List.mem_flatMap.mpr ⟨it, List.mem_of_find?_eq_some hf, h⟩)
  | none =>
    rw [hf] at h
    cases hx : e.externs.find? (·.1 == q) with
    | none => rw [hx] at h; simp at h
    | some x =>
      rw [hx] at h
      simp only [List.mem_singleton] at h
      subst h
      exact List.mem_append_right _ (List.mem_map.mpr ⟨x, List.mem_of_find?_eq_some hx, rfl⟩)

/-- a list without repetitions inside `U` is at most as long as `U` -/
theorem nodup_length_le : ∀ (l U : List String), l.Nodup → (∀ x ∈ l, x ∈ U) → l.length ≤ U.length
  | [], _, _, _ => by simp
  | a :: l, U, hnd, hsub => by
    rw [List.nodup_cons] at hnd
    have ha : a ∈ U := hsub a (by simp)
    have ih := nodup_length_le l (U.erase a) hnd.2 (fun x hx => by
      have hne : x ≠ a := fun h => hnd.1 (h ▸ hx)
      exact (List.mem_erase_of_ne hne).mpr (hsub x (by simp [hx])))
    rw [List.length_erase_of_mem ha] at ih
    have hpos : 0 < U.length := List.length_pos_of_mem ha
    simp only [List.length_cons]
    omega

theorem closure_closed {e : Env} {p : String} : ∀ (n : Nat) (S : List String), S.Nodup → (∀ x ∈ S, x ∈ p :: targets e) →
    (p :: targets e).length ≤ S.length + n → closedB e (closure e n S) = true
  | 0, S, hnd, hsub, hlen => by
    rw [closure]
    cases hc : closedB e S with
    | true => rfl
    | false =>
      exfalso
      have h1 := length_expand_lt hc
      have h2 := nodup_length_le (expand e S) (p :: targets e) (nodup_addNew _ _ hnd) (by
        intro x hx
        rcases (mem_addNew _ _).mp hx with hx | hx
        · exact hsub x hx
        · obtain ⟨q, _, hqx⟩ := List.mem_flatMap.mp hx
          exact List.mem_cons_of_mem _ (succs_subset_targets hqx))
      omega
  | n+1, S, hnd, hsub, hlen => by
    cases hc : closedB e S with
    | true => rw [closure_of_closed hc]; exact hc
    | false =>
      rw [closure]
      apply closure_closed n (expand e S) (nodup_addNew _ _ hnd)
      · intro x hx
        rcases (mem_addNew _ _).mp hx with hx | hx
        · exact hsub x hx
        · obtain ⟨q, _, hqx⟩ := List.mem_flatMap.mp hx
          exact List.mem_cons_of_mem _ (succs_subset_targets hqx)
      · have := length_expand_lt hc
        omega

/-! ## the checker -/

/-- the names read from the same JSON object as `p` (closure of `[p]`) -/
def reachSet (e : Env) (p : String) : List String := closure e (reachFuel e) [p]

/-- the item found at `q`, if any, does not name `k` -/
def okAt (e : Env) (k q : String) : Bool :=
  match e.find q with
  | some it => itemOK k it
  | none => true

/-- **the reach-local checker**: the closure is closed, and nothing in it names `k` -/
def keyFreeCheck (e : Env) (k p : String) : Bool :=
  closedB e (reachSet e p) && (reachSet e p).all (okAt e k)

theorem reachSet_closed (e : Env) (p : String) : closedB e (reachSet e p) = true := by
  apply closure_closed (p := p) _ _ (by simp) (by simp)
  simp only [reachFuel, List.length_cons, List.length_nil]
  omega

theorem self_mem_reachSet (e : Env) (p : String) : p ∈ reachSet e p := subset_closure _ _ (by simp)

/-- the closure is exactly the reachable set -/
theorem mem_reachSet_iff (e : Env) (p q : String) : q ∈ reachSet e p ↔ Reach e p q :=
  ⟨closure_reach _ _ (by intro q hq; simp only [List.mem_singleton] at hq; subst hq; exact .refl _) q,
   reach_subset_of_closed (closedB_iff.mp (reachSet_closed e p)) (self_mem_reachSet e p)⟩

/-- **soundness** (independent of the number of rounds: closedness is part of the check) -/
theorem keyFreeCheck_sound {e : Env} {k p : String} (h : keyFreeCheck e k p = true) : KeyFree e k p := by
  simp only [keyFreeCheck, Bool.and_eq_true, List.all_eq_true] at h
  obtain ⟨hcl, hok⟩ := h
  intro q hq it hf
  have hmem : q ∈ reachSet e p := reach_subset_of_closed (closedB_iff.mp hcl) (self_mem_reachSet e p) hq
  have := hok q hmem
  simpa [okAt, hf] using this

/-- **completeness** -/
theorem keyFreeCheck_complete {e : Env} {k p : String} (h : KeyFree e k p) : keyFreeCheck e k p = true := by
  simp only [keyFreeCheck, Bool.and_eq_true, List.all_eq_true]
  refine ⟨reachSet_closed e p, fun q hq => ?_⟩
  unfold okAt
  cases hf : e.find q with
  | none => rfl
  | some it => exact h q ((mem_reachSet_iff e p q).mp hq) it hf

theorem keyFreeCheck_iff (e : Env) (k p : String) : keyFreeCheck e k p = true ↔ KeyFree e k p :=
  ⟨keyFreeCheck_sound, keyFreeCheck_complete⟩

/-- `KeyFree` is decidable -/
instance (e : Env) (k p : String) : Decidable (KeyFree e k p) :=
  decidable_of_iff _ (keyFreeCheck_iff e k p)

/-- the global sufficient condition implies the reach-local one (not conversely: see the evaluation below) -/
theorem keyFreeCheck_of_all (e : Env) (k p : String) (h : e.items.all (itemOK k) = true) : keyFreeCheck e k p = true :=
  keyFreeCheck_complete (keyFree_of_all e k p h)

/-! ## evaluation on the generated module `denyEnv` (25 items, flatten members, tagged enums, aliases)

`name`, `id`, `kind`, `__typename` are keys *other* structs of the module use: the global check fails for each of them,
the reach-local check succeeds exactly where the key is not read from the same JSON object. -/

example : denyItems.all (itemOK "name") = false ∧ denyItems.all (itemOK "id") = false ∧
    denyItems.all (itemOK "__typename") = false ∧ denyItems.all (itemOK "barks") = false := by decide +kernel

/-- `ResponseData { animal, pets, animal2, kind, ext, #[flatten] qf: QF { kind } }`: reads `kind` (own and flattened), not
    `name` / `id` / `barks` / `__typename` / `when` -/
example : reachSet denyEnv "ResponseData" = ["ResponseData", "QF"] ∧
    keyFreeCheck denyEnv "name" "ResponseData" = true ∧ keyFreeCheck denyEnv "id" "ResponseData" = true ∧
    keyFreeCheck denyEnv "__typename" "ResponseData" = true ∧ keyFreeCheck denyEnv "when" "ResponseData" = true ∧
    keyFreeCheck denyEnv "kind" "ResponseData" = false ∧ keyFreeCheck denyEnv "animal" "ResponseData" = false := by
  decide +kernel

/-- `Qanimal { name, #[flatten] on: QanimalOn }` with `QanimalOn = Dog(QanimalOnDog { barks, owner, #[flatten] dog_f }) | Cat(AnimalF)`:
    `id` (a key of `QanimalOnDogowner`, one JSON level below) is not read from this object; `name`, `barks`, `owner`,
    `__typename` are -/
example : reachSet denyEnv "Qanimal" = ["Qanimal", "QanimalOn", "QanimalOnDog", "QanimalOnCat", "DogF", "AnimalF", "AnimalFOn", "AnimalFOnDog"] ∧
    keyFreeCheck denyEnv "id" "Qanimal" = true ∧ keyFreeCheck denyEnv "when" "Qanimal" = true ∧
    keyFreeCheck denyEnv "kind" "Qanimal" = true ∧
    keyFreeCheck denyEnv "name" "Qanimal" = false ∧ keyFreeCheck denyEnv "barks" "Qanimal" = false ∧
    keyFreeCheck denyEnv "owner" "Qanimal" = false ∧ keyFreeCheck denyEnv "__typename" "Qanimal" = false := by
  decide +kernel

/-- the reach-local `KeyFree` for a key the global check rejects, by evaluation — and `denied_key_ignored_de` applied
    with it -/
theorem denyEnv_keyFree_id : KeyFree denyEnv "id" "Qanimal" := keyFreeCheck_sound (by decide +kernel)

example : KeyFree denyEnv "name" "ResponseData" := by decide +kernel

end C14G
end GqlVerif
