import GqlVerif.Proofs.SerdeFuelAcyclic
import GqlVerif.Proofs.C12Items
import GqlVerif.Proofs.C01EndToEnd
/-!
# P25 — every module the generator emits carries at most one `Box` on an alias target / a flattened member

`BoxBound e 1` is the hypothesis under which the (doubled) `deFuel` is enough on an acyclic environment
(`envOK_of_acyclic`).  Here it is discharged for EVERY module `Codegen.responseForQuery` emits, with any externs:

* `renderField_fieldBox` — the member `renderField` renders has `boxCount ≤ 1` (`decorateType` adds `Option` / `Vec`
  only, `boxed` adds one `Box`);
* `calc_box` — by the 4-fold mutual induction of `calcSelection` / `calcVariants` / `calcVariantSels` / `calcFields`:
  every item they return satisfies `itemBox 1`;
* **`responseForQuery_boxBound`** : `responseForQuery c op = .ok items → BoxBound { items, externs } 1`, and in the form
  of the end-to-end theorems `module_boxBound : … → moduleOk c items = true → BoxBound (moduleEnv c items) 1`
  (`moduleOk` is not used);
* `module_envOK_of_acyclic` : for an emitted module, `Acyclic (moduleEnv c items) d` alone gives `EnvOK` — and `Acyclic`
  does NOT hold of every emitted module (`SerdeFuelWitness.spread_cycle_module_not_acyclic`); it has the decidable
  sufficient check `acyclicCheck` (`acyclic_of_check`), besides `rankCheck`.
-/
namespace GqlVerif
namespace SerdeFuel
open Serde Codegen

/-! ## `decorateType`, `renderField`, `aliasItem`, `renderType` -/

theorem decorateStep_boxCount {st st' : RTy × Bool} {q : Qual} (h : decorateStep st q = .ok st') :
    boxCount st'.1 = boxCount st.1 := by
  obtain ⟨t, nn⟩ := st
  unfold decorateStep at h
  cases nn <;> cases q <;> simp only [pure, Except.pure, Except.ok.injEq] at h <;>
    first | (subst h; rfl) | cases h

theorem decorateFold_boxCount : ∀ (l : List Qual) (st st' : RTy × Bool), l.foldlM decorateStep st = .ok st' →
    boxCount st'.1 = boxCount st.1
  | [], st, st', h => by
    simp only [List.foldlM_nil, pure, Except.pure, Except.ok.injEq] at h
    subst h; rfl
  | q :: l, st, st', h => by
    rw [List.foldlM_cons] at h
    obtain ⟨st1, h1, h⟩ := C02.bind_ok h
    rw [decorateFold_boxCount l st1 st' h, decorateStep_boxCount h1]

theorem decorateType_boxCount {base : RTy} {quals : List Qual} {t : RTy} (h : decorateType base quals = .ok t) :
    boxCount t = boxCount base := by
  unfold decorateType at h
  obtain ⟨⟨t1, nn⟩, h1, h⟩ := C02.bind_ok h
  have := decorateFold_boxCount _ _ _ h1
  simp only [pure, Except.pure, Except.ok.injEq] at h
  subst h
  cases nn <;> simpa [boxCount] using this

/-- **the member `renderField` renders carries at most one `Box`** -/
theorem renderField_fieldBox {c : Ctx} {g : Option String} {r ft : String} {quals : List Qual} {fl bx : Bool}
    {dep : Option (Option String)} {o : Option RField}
    (h : renderField c g r ft quals fl bx dep = .ok o) : ∀ f ∈ o.toList, fieldBox 1 f = true := by
  unfold renderField at h
  obtain ⟨ty, hty, h⟩ := C02.bind_ok h
  have hb : boxCount ty = 0 := decorateType_boxCount hty
  have hb' : boxCount (if bx = true then RTy.box ty else ty) ≤ 1 := by
    cases bx <;> simp [boxCount, hb]
  simp only [] at h
  split at h
  · simp only [pure, Except.pure, Except.ok.injEq] at h
    subst h; simp
  · simp only [pure, Except.pure, Except.ok.injEq] at h
    subst h
    intro f hf
    simp only [Option.toList_some, List.mem_singleton] at hf
    subst hf
    simp only [fieldBox, Bool.or_eq_true, Bool.not_eq_true', decide_eq_true_eq]
    exact .inr hb'

theorem aliasItem_itemBox (n t : String) (b : Bool) : itemBox 1 (aliasItem n t b) = true := by
  cases b <;> rfl

theorem renderType_itemBox (c : Ctx) (name : String) (fields : List RField) (variants : List RVariant)
    (hf : ∀ f ∈ fields, fieldBox 1 f = true) : ∀ it ∈ renderType c name fields variants, itemBox 1 it = true := by
  intro it hit
  unfold renderType at hit
  split at hit
  · simp only [List.mem_singleton] at hit; subst hit; rfl
  · split at hit
    · simp only [List.mem_singleton] at hit; subst hit
      simpa [itemBox, List.all_eq_true] using hf
    · simp only [List.mem_cons, List.not_mem_nil, or_false] at hit
      rcases hit with rfl | rfl
      · simp only [itemBox, List.all_eq_true, List.mem_append, List.mem_singleton]
        rintro f (h | rfl)
        · exact hf f h
        · rfl
      · rfl

theorem aliasMembers_fieldBox {c : Ctx} {al : List Item} {extra : List (List RField)} {sname : String}
    (h : al.mapM (aliasMember c) = .ok extra) (hal : ∀ a ∈ al, ∃ tgt b, a = aliasItem sname tgt b) :
    ∀ f ∈ extra.flatten, fieldBox 1 f = true := by
  intro f hf
  obtain ⟨fs, hfs, hf⟩ := List.mem_flatten.mp hf
  obtain ⟨a, ha, hfa⟩ := C02.mapM_ok_mem h fs hfs
  obtain ⟨tgt, b, rfl⟩ := hal a ha
  rw [C02.aliasMember_aliasItem] at hfa
  obtain ⟨fld, hfld, hfa⟩ := C02.bind_ok hfa
  simp only [pure, Except.pure, Except.ok.injEq] at hfa
  subst hfa
  exact renderField_fieldBox hfld f hf

/-! ## the `calc*` block -/

section Calc
variable (c : Ctx)

def BStmt1 (fuel : Nat) : Prop := ∀ name pfx ty sels items,
  calcSelection c fuel name pfx ty sels = .ok items → ∀ it ∈ items, itemBox 1 it = true
def BStmt2 (fuel : Nat) : Prop := ∀ name pfx vsels vts vs items,
  calcVariants c fuel name pfx vsels vts = .ok (vs, items) → ∀ it ∈ items, itemBox 1 it = true
def BStmt3 (fuel : Nat) : Prop := ∀ sname pfx vt mine fs items al,
  calcVariantSels c fuel sname pfx vt mine = .ok (fs, items, al) →
  (∀ f ∈ fs, fieldBox 1 f = true) ∧ (∀ it ∈ items, itemBox 1 it = true) ∧ ∀ a ∈ al, ∃ tgt b, a = aliasItem sname tgt b
def BStmt4 (fuel : Nat) : Prop := ∀ pfx ty sels fs items,
  calcFields c fuel pfx ty sels = .ok (fs, items) →
  (∀ f ∈ fs, fieldBox 1 f = true) ∧ ∀ it ∈ items, itemBox 1 it = true

variable {c}

theorem bstep4 (f : Nat) (H1 : BStmt1 c f) (H4 : BStmt4 c f) : BStmt4 c (f + 1) := by
  intro pfx ty sels fs items h
  cases sels with
  | nil =>
    rw [calcFields.eq_2 _ _ _ _ (by omega)] at h
    simp only [pure, Except.pure, Except.ok.injEq, Prod.mk.injEq] at h
    obtain ⟨rfl, rfl⟩ := h
    exact ⟨fun f hf => (by cases hf), fun it hit => (by cases hit)⟩
  | cons x rest =>
    cases x with
    | field a fid sub =>
      obtain ⟨sf, fld, its, fs', items', _, hr, rfl, rfl, hstep⟩ := C02.calcFields_field_ok h
      have ⟨ih1, ih2⟩ := H4 pfx ty rest fs' items' hr
      have key : (∀ f ∈ fld.toList, fieldBox 1 f = true) ∧ ∀ it ∈ its, itemBox 1 it = true := by
        rcases hstep with ⟨e, en, _, _, rfl, hfld⟩ | ⟨k, sn, _, _, rfl, hfld⟩ | ⟨_, _, _, hfld, hits⟩
        · exact ⟨renderField_fieldBox hfld, fun it hit => (by cases hit)⟩
        · exact ⟨renderField_fieldBox hfld, fun it hit => (by cases hit)⟩
        · exact ⟨renderField_fieldBox hfld, H1 _ _ _ _ _ hits⟩
      exact ⟨fun f hf => (List.mem_append.mp hf).elim (key.1 f) (ih1 f),
        fun it hit => (List.mem_append.mp hit).elim (key.2 it) (ih2 it)⟩
    | spread g =>
      obtain ⟨fr, fs', _, hr, hfs⟩ := C02.calcFields_spread_ok h
      have ⟨ih1, ih2⟩ := H4 pfx ty rest fs' items hr
      refine ⟨fun f hf => ?_, ih2⟩
      rcases hfs with ⟨_, rfl⟩ | ⟨_, fld, hfld, rfl⟩
      · exact ih1 f hf
      · exact (List.mem_append.mp hf).elim (renderField_fieldBox hfld f) (ih1 f)
    | inline t sub =>
      rw [calcFields.eq_5 _ _ _ _ _ _ (by simp) (by simp)] at h
      exact H4 pfx ty rest fs items h
    | typename =>
      rw [calcFields.eq_5 _ _ _ _ _ _ (by simp) (by simp)] at h
      exact H4 pfx ty rest fs items h

theorem bstep3 (f : Nat) (H3 : BStmt3 c f) (H4 : BStmt4 c f) : BStmt3 c (f + 1) := by
  intro sname pfx vt mine fs items al h
  cases mine with
  | nil =>
    rw [calcVariantSels.eq_2 _ _ _ _ _ (by omega)] at h
    simp only [pure, Except.pure, Except.ok.injEq, Prod.mk.injEq] at h
    obtain ⟨rfl, rfl, rfl⟩ := h
    exact ⟨fun f hf => (by cases hf), fun it hit => (by cases hit), fun a ha => (by cases ha)⟩
  | cons x rest =>
    cases x with
    | inline t sub =>
      obtain ⟨tn, fs0, items0, al0, fs', items', al', _, hr, rfl, rfl, rfl, hstep⟩ := C02.calcVariantSels_inline_ok h
      have ⟨ih1, ih2, ih3⟩ := H3 sname pfx vt rest fs' items' al' hr
      have key : (∀ f ∈ fs0, fieldBox 1 f = true) ∧ (∀ it ∈ items0, itemBox 1 it = true) ∧
          ∀ a ∈ al0, ∃ tgt b, a = aliasItem sname tgt b := by
        rcases hstep with ⟨g, fr, rfl, _, rfl, rfl, rfl⟩ | ⟨_, hfl, rfl⟩
        · refine ⟨fun f hf => (by cases hf), fun it hit => (by cases hit), fun a ha => ?_⟩
          simp only [List.mem_singleton] at ha
          exact ⟨fr.name, _, ha⟩
        · have ⟨k1, k2⟩ := H4 _ _ _ _ _ hfl
          exact ⟨k1, k2, fun a ha => (by cases ha)⟩
      exact ⟨fun f hf => (List.mem_append.mp hf).elim (key.1 f) (ih1 f),
        fun it hit => (List.mem_append.mp hit).elim (key.2.1 it) (ih2 it),
        fun a ha => (List.mem_append.mp ha).elim (key.2.2 a) (ih3 a)⟩
    | spread g fr =>
      obtain ⟨fld, fs', hfld, hr, rfl⟩ := C02.calcVariantSels_spread_ok h
      have ⟨ih1, ih2, ih3⟩ := H3 sname pfx vt rest fs' items al hr
      exact ⟨fun f hf => (List.mem_append.mp hf).elim (renderField_fieldBox hfld f) (ih1 f), ih2, ih3⟩

theorem bstep2 (f : Nat) (H2 : BStmt2 c f) (H3 : BStmt3 c f) : BStmt2 c (f + 1) := by
  intro name pfx vsels vts vs items h
  cases vts with
  | nil =>
    rw [calcVariants.eq_2 _ _ _ _ _ (by omega)] at h
    simp only [pure, Except.pure, Except.ok.injEq, Prod.mk.injEq] at h
    obtain ⟨rfl, rfl⟩ := h
    exact fun it hit => (by cases hit)
  | cons vt rest =>
    obtain ⟨vname, thisV, thisItems, vs', items', _, hr, rfl, rfl, hstep⟩ := C02.calcVariants_ok h
    have ih := H2 name pfx vsels rest vs' items' hr
    have key : ∀ it ∈ thisItems, itemBox 1 it = true := by
      rcases hstep with ⟨_, _, rfl⟩ | ⟨_, _, hstep⟩
      · exact fun it hit => (by cases hit)
      · rcases hstep with ⟨g, fr, _, rfl⟩ | ⟨r, hr0, hstep⟩
        · intro it hit
          simp only [List.mem_singleton] at hit
          subst hit
          exact aliasItem_itemBox _ _ _
        · obtain ⟨r1, r2, r3⟩ := H3 _ _ _ _ r.1 r.2.1 r.2.2 hr0
          rcases hstep with ⟨a, _, hal, rfl⟩ | ⟨_, extra, hex, rfl⟩
          · obtain ⟨tgt, b, rfl⟩ := r3 a (by rw [hal]; exact List.mem_cons_self)
            intro it hit
            rcases List.mem_cons.mp hit with rfl | hit
            · exact aliasItem_itemBox _ _ _
            · exact r2 it hit
          · intro it hit
            rcases List.mem_append.mp hit with hit | hit
            · exact renderType_itemBox c _ _ _
                (fun f hf => (List.mem_append.mp hf).elim (r1 f) (aliasMembers_fieldBox hex r3 f)) it hit
            · exact r2 it hit
    exact fun it hit => (List.mem_append.mp hit).elim (key it) (ih it)

theorem bstep1 (f : Nat) (H2 : BStmt2 c f) (H4 : BStmt4 c f) : BStmt1 c (f + 1) := by
  intro name pfx ty sels items h
  by_cases hs : ∃ g, sels = [Sel.spread g]
  · obtain ⟨g, rfl⟩ := hs
    obtain ⟨fr, _, rfl⟩ := C02.calcSelection_single_ok h
    intro it hit
    simp only [List.mem_singleton] at hit
    subst hit
    exact aliasItem_itemBox _ _ _
  · obtain ⟨rv, vi, rf, fi, hvp, hfl, rfl⟩ := C02.calcSelection_ok (fun g hg => hs ⟨g, hg⟩) h
    have ⟨f1, f2⟩ := H4 _ _ _ _ _ hfl
    have hv : ∀ it ∈ vi, itemBox 1 it = true := by
      rcases hvp with ⟨_, _, rfl⟩ | ⟨vts, vsels, r, _, _, hr, _, rfl⟩
      · exact fun it hit => (by cases hit)
      · exact H2 _ _ _ _ r.1 r.2 hr
    intro it hit
    rcases List.mem_append.mp hit with hit | hit
    · rcases List.mem_append.mp hit with hit | hit
      · exact renderType_itemBox c name rf rv f1 it hit
      · exact hv it hit
    · exact f2 it hit

/-- **every item of any `calc*` call carries at most one `Box`** on an alias target / a flattened member -/
theorem calc_box : ∀ fuel, BStmt1 c fuel ∧ BStmt2 c fuel ∧ BStmt3 c fuel ∧ BStmt4 c fuel := by
  intro fuel
  induction fuel with
  | zero =>
    refine ⟨?_, ?_, ?_, ?_⟩
    · intro _ _ _ _ _ h; rw [calcSelection.eq_1] at h; cases h
    · intro _ _ _ _ _ _ h; rw [calcVariants.eq_1] at h; cases h
    · intro _ _ _ _ _ _ _ h; rw [calcVariantSels.eq_1] at h; cases h
    · intro _ _ _ _ _ h; rw [calcFields.eq_1] at h; cases h
  | succ f ih =>
    obtain ⟨H1, H2, H3, H4⟩ := ih
    exact ⟨bstep1 f H2 H4, bstep2 f H2 H3, bstep3 f H3 H4, bstep4 f H1 H4⟩

end Calc

/-! ## the other parts of the module -/

theorem inputItem_itemBox {c : Ctx} {i : StoredInput} {it : Item} (B : Nat) (h : inputItem c i = .ok it) :
    itemBox B it = true := by
  unfold inputItem at h
  simp only [] at h
  split at h
  · obtain ⟨vs, _, h⟩ := C02.bind_ok h
    simp only [pure, Except.pure, Except.ok.injEq] at h
    subst h; rfl
  · obtain ⟨fs, hfs, h⟩ := C02.bind_ok h
    simp only [pure, Except.pure, Except.ok.injEq] at h
    subst h
    simp only [itemBox, List.all_eq_true]
    intro f hf
    obtain ⟨x, _, hx⟩ := C02.mapM_ok_mem hfs f hf
    obtain ⟨t, _, hx⟩ := C02.bind_ok hx
    simp only [pure, Except.pure, Except.ok.injEq] at hx
    subst hx; rfl

theorem variablesItems_itemBox {c : Ctx} {op : Nat} {V : List Item} (B : Nat) (h : variablesItems c op = .ok V) :
    ∀ it ∈ V, itemBox B it = true := by
  unfold variablesItems at h
  simp only [] at h
  split at h
  · simp only [pure, Except.pure, Except.ok.injEq] at h
    subst h
    intro it hit
    simp only [List.mem_singleton] at hit
    subst hit; rfl
  · obtain ⟨fs, hfs, h⟩ := C02.bind_ok h
    obtain ⟨dfl, _, h⟩ := C02.bind_ok h
    simp only [pure, Except.pure, Except.ok.injEq] at h
    subst h
    intro it hit
    simp only [List.mem_cons, List.not_mem_nil, or_false] at hit
    rcases hit with rfl | rfl
    · simp only [itemBox, List.all_eq_true]
      intro f hf
      obtain ⟨x, _, hx⟩ := C02.mapM_ok_mem hfs f hf
      obtain ⟨t, _, hx⟩ := C02.bind_ok hx
      simp only [pure, Except.pure, Except.ok.injEq] at hx
      subst hx; rfl
    · rfl

/-- **every item of an emitted module carries at most one `Box`** on an alias target / a flattened member -/
theorem responseForQuery_itemBox {c : Ctx} {op : Nat} {items : List Item} (h : responseForQuery c op = .ok items) :
    ∀ it ∈ items, itemBox 1 it = true := by
  unfold responseForQuery at h
  obtain ⟨u, _, h⟩ := C02.bind_ok h
  obtain ⟨S, hS, h⟩ := C02.bind_ok h
  obtain ⟨E, hE, h⟩ := C02.bind_ok h
  obtain ⟨F, hF, h⟩ := C02.bind_ok h
  obtain ⟨I, hI, h⟩ := C02.bind_ok h
  obtain ⟨V, hV, h⟩ := C02.bind_ok h
  obtain ⟨o, _, h⟩ := C02.bind_ok h
  obtain ⟨R, hR, h⟩ := C02.bind_ok h
  simp only [pure, Except.pure, Except.ok.injEq] at h
  subst h
  intro it hit
  simp only [List.mem_append] at hit
  rcases hit with (((((hit | hit) | hit) | hit) | hit) | hit) | hit
  · revert it; decide
  · unfold scalarItems at hS
    obtain ⟨names, _, hS⟩ := C02.bind_ok hS
    simp only [pure, Except.pure, Except.ok.injEq] at hS
    subst hS
    obtain ⟨n, _, rfl⟩ := List.mem_map.mp hit
    rfl
  · unfold enumItems at hE
    obtain ⟨es, _, hE⟩ := C02.bind_ok hE
    simp only [pure, Except.pure, Except.ok.injEq] at hE
    subst hE
    obtain ⟨en, _, rfl⟩ := List.mem_map.mp hit
    rfl
  · unfold inputItems at hI
    obtain ⟨x, _, hx⟩ := C02.mapM_ok_mem hI it hit
    exact inputItem_itemBox 1 hx
  · exact variablesItems_itemBox 1 hV it hit
  · obtain ⟨its, hits, hit⟩ := List.mem_flatten.mp hit
    obtain ⟨g, _, hg⟩ := C02.mapM_ok_mem hF its hits
    unfold fragmentItems at hg
    obtain ⟨fr, _, hg⟩ := C02.bind_ok hg
    exact (calc_box (c := c) _).1 _ _ _ _ _ hg it hit
  · unfold responseItems at hR
    exact (calc_box (c := c) _).1 _ _ _ _ _ hR it hit

/-- **`BoxBound … 1` for every emitted module**, with any externs -/
theorem responseForQuery_boxBound {c : Ctx} {op : Nat} {items : List Item} (h : responseForQuery c op = .ok items)
    (externs : List (String × RTy)) : BoxBound { items := items, externs := externs } 1 :=
  boxBound_of_check (List.all_eq_true.mpr (responseForQuery_itemBox h))

/-- in the form of the end-to-end theorems (`moduleOk` is not needed) -/
theorem module_boxBound {c : Ctx} {op : Nat} {items : List Item} (h : responseForQuery c op = .ok items)
    (_hok : C01.E2E.moduleOk c items = true) : BoxBound (C01.E2E.moduleEnv c items) 1 :=
  responseForQuery_boxBound h _

/-- **an emitted module whose input-free jumps are acyclic satisfies `EnvOK`** (and `EnvOKS`): `de` never runs out of
    fuel on it, the fuel never matters, a key nobody names is ignored by `Serde.de` -/
theorem module_envOK_of_acyclic {c : Ctx} {op : Nat} {items : List Item} (h : responseForQuery c op = .ok items)
    {d : String → Nat} (ha : Acyclic (C01.E2E.moduleEnv c items) d) :
    EnvOK (C01.E2E.moduleEnv c items) ∧ EnvOKS (C01.E2E.moduleEnv c items) :=
  ⟨envOK_of_acyclic ha (responseForQuery_boxBound h _), envOKS_of_acyclic ha⟩

/-! ## a decidable sufficient check for `Acyclic` -/

/-- the conditions of `Acyclic` for the rank `d`, checked on every item and extern -/
def acyclicCheckWith (e : Env) (d : String → Nat) : Bool :=
  e.items.all (fun it => match it with
    | .alias n _ t => decide (d (Scope.leaf t) < d n)
    | .struct n _ _ fs => fs.all (fun f => !f.flatten || decide (d (Scope.leaf f.ty) < d n))
    | _ => true) &&
  e.externs.all (fun x => (e.find x.1).isSome || decide (d (Scope.leaf x.2) < d x.1))

theorem acyclic_of_check {e : Env} {d : String → Nat} (h : acyclicCheckWith e d = true) : Acyclic e d := by
  simp only [acyclicCheckWith, Bool.and_eq_true, List.all_eq_true] at h
  obtain ⟨hI, hX⟩ := h
  refine ⟨fun p n pub t hf => ?_, fun p x hf hx => ?_, fun p n dv sc fields hf f hmem hfl => ?_⟩
  · obtain ⟨hm, hn⟩ := find_spec hf
    have h2 := hI _ hm
    simp only [decide_eq_true_eq] at h2
    simp only [Item.name] at hn
    rw [← hn]; exact h2
  · have hm := List.mem_of_find?_eq_some hx
    have hn : x.1 = p := by simpa using List.find?_some hx
    have h2 := hX x hm
    rw [hn, hf] at h2
    simpa using h2
  · obtain ⟨hm, hn⟩ := find_spec hf
    have h2 := hI _ hm
    simp only [List.all_eq_true, Bool.or_eq_true, Bool.not_eq_true', decide_eq_true_eq] at h2
    simp only [Item.name] at hn
    rw [← hn]
    rcases h2 f hmem with h3 | h3
    · rw [hfl] at h3; cases h3
    · exact h3

/-- candidate rank: the number of names on the longest input-free chain from `p` (`Box`es ignored) -/
def costA (e : Env) : Nat → String → Nat
  | 0, _ => 0
  | fuel+1, p =>
    match e.find p with
    | some (.alias _ _ t) => costA e fuel (Scope.leaf t) + 1
    | some (.struct _ _ _ fs) => (fs.filter (·.flatten)).foldl (fun m f => max m (costA e fuel (Scope.leaf f.ty) + 1)) 0
    | some _ => 0
    | none => match e.externs.find? (·.1 == p) with
      | some x => costA e fuel (Scope.leaf x.2) + 1
      | none => 0

/-- **decidable**: the candidate rank witnesses acyclicity -/
def acyclicCheck (e : Env) : Bool := acyclicCheckWith e (costA e (envWidth e))

/-- for an emitted module the executable `acyclicCheck` is all that is left to check -/
theorem module_envOK_of_check {c : Ctx} {op : Nat} {items : List Item} (h : responseForQuery c op = .ok items)
    (hc : acyclicCheck (C01.E2E.moduleEnv c items) = true) :
    EnvOK (C01.E2E.moduleEnv c items) ∧ EnvOKS (C01.E2E.moduleEnv c items) :=
  module_envOK_of_acyclic h (acyclic_of_check hc)

/-- the recursive-fragment module of `C01RecursiveE`-style documents is covered: e.g. the module of the end-to-end
    example `exCtx` -/
example : acyclicCheck (C01.E2E.moduleEnv C01.E2E.exCtx C01.E2E.exItems) = true := by decide +kernel

end SerdeFuel
end GqlVerif
