import GqlVerif.Proofs.AcyclicModulesCalc
/-!
# P27 part A (2/3) — `Acyclic (moduleEnv c items) d` for every emitted module of a same-level-acyclic document

`SerdeFuelCodegen.module_envOK_of_acyclic` needs `Acyclic (moduleEnv c items) d`, so far only decided per module
(`acyclicCheck`).  Here it is PROVED, class-free (no `TreeOp` / `VariantOp` / `FragmentOp` / `RecFragmentOp` hypothesis),
for every module `responseForQuery` emits:

* **`acyclic_of_facts`** : `Acyclic (moduleEnv c items) (rankD …)` with an explicit rank `rankD`, from `ModFacts`
  (`modFacts`: they hold of every emitted module that passes `moduleOk`) and a rank `r` on the USED fragments;
* **`module_acyclic_of_reachRanked`** :
  `responseForQuery c op = .ok items → moduleOk c items = true → c.q.operations[op]? = some o → ReachRanked c.q o.sels r →
   ∃ d, Acyclic (moduleEnv c items) d` — `r` has to decrease only along `jumpSpreads` of the fragments REACHABLE from the
  operation (`used_fragments_reachable`: soundness of `collectSel`; `C02.selPhase_spec`: its completeness);
* `module_acyclic_of_spreadRanked` (`r` on the whole document), `module_acyclic_of_sameLevelRanked` (the relation of the
  task brief: spreads at the top level of a fragment body or at the top level of one of its inline fragments).

How: a jump (alias → target, struct → flattened member) from an item of the module leads, by name, to
(a) a Rust primitive / an extern path (not an item), (b) the `tagged` partner `n ++ "On"` of the struct, or (c) the FIRST
item of a used fragment (`AcyclicModulesCalc.calc_jumps`; `C02.selPhase_spec`: the used set is closed under spreads).
Under `moduleOk` names are pairwise distinct, so the name resolves to THAT item; first items of fragments jump only along
`jumpSpreads`, where `r` decreases.  `moduleOk` is used for: names pairwise distinct, no item is named like a Rust
primitive, no extern is named like a primitive.
-/
namespace GqlVerif
namespace AcyclicM
open Codegen Serde SerdeFuel C01.E2E

/-! ## the parts of the module -/

theorem parts {c : Ctx} {op : Nat} {items : List Item} (h : responseForQuery c op = .ok items) :
    ∃ u S E F I V o R, allUsedTypes c.s c.q op = .ok u ∧ scalarItems c u = .ok S ∧ enumItems c u = .ok E ∧
      (sortNat u.fragments).mapM (fragmentItems c) = .ok F ∧ inputItems c u = .ok I ∧
      variablesItems c op = .ok V ∧ c.q.operations[op]? = some o ∧ responseItems c o = .ok R ∧
      items = builtinAliases ++ S ++ E ++ I ++ V ++ F.flatten ++ R := by
  unfold responseForQuery at h
  obtain ⟨u, hu, h⟩ := C02.bind_ok h
  obtain ⟨S, hS, h⟩ := C02.bind_ok h
  obtain ⟨E, hE, h⟩ := C02.bind_ok h
  obtain ⟨F, hF, h⟩ := C02.bind_ok h
  obtain ⟨I, hI, h⟩ := C02.bind_ok h
  obtain ⟨V, hV, h⟩ := C02.bind_ok h
  obtain ⟨o, ho, h⟩ := C02.bind_ok h
  obtain ⟨R, hR, h⟩ := C02.bind_ok h
  simp only [pure, Except.pure, Except.ok.injEq] at h
  exact ⟨u, S, E, F, I, V, o, R, hu, hS, hE, hF, hI, hV, C02.getOperation_ok ho, hR, h.symm⟩

/-- an item no jump starts from: not an alias, no flattened member -/
def NoJump : Item → Prop
  | .alias .. => False
  | .struct _ _ _ fs => ∀ f ∈ fs, f.flatten = false
  | _ => True

/-- the alias of a custom scalar -/
def IsScalarAlias (it : Item) : Prop := ∃ ident m, it = .alias ident false (.path (m ++ "::" ++ ident))

theorem inputItem_noJump {c : Ctx} {i : StoredInput} {it : Item} (h : inputItem c i = .ok it) : NoJump it := by
  unfold inputItem at h
  simp only [] at h
  split at h
  · obtain ⟨vs, _, h⟩ := C02.bind_ok h
    simp only [pure, Except.pure, Except.ok.injEq] at h
    subst h; trivial
  · obtain ⟨fs, hfs, h⟩ := C02.bind_ok h
    simp only [pure, Except.pure, Except.ok.injEq] at h
    subst h
    intro f hf
    obtain ⟨x, _, hx⟩ := C02.mapM_ok_mem hfs f hf
    obtain ⟨t, _, hx⟩ := C02.bind_ok hx
    simp only [pure, Except.pure, Except.ok.injEq] at hx
    subst hx; rfl

theorem variablesItems_noJump {c : Ctx} {op : Nat} {V : List Item} (h : variablesItems c op = .ok V) :
    ∀ it ∈ V, NoJump it := by
  unfold variablesItems at h
  simp only [] at h
  split at h
  · simp only [pure, Except.pure, Except.ok.injEq] at h
    subst h
    intro it hit
    simp only [List.mem_singleton] at hit
    subst hit; trivial
  · obtain ⟨fs, hfs, h⟩ := C02.bind_ok h
    obtain ⟨dfl, _, h⟩ := C02.bind_ok h
    simp only [pure, Except.pure, Except.ok.injEq] at h
    subst h
    intro it hit
    simp only [List.mem_cons, List.not_mem_nil, or_false] at hit
    rcases hit with rfl | rfl
    · intro f hf
      obtain ⟨x, _, hx⟩ := C02.mapM_ok_mem hfs f hf
      obtain ⟨t, _, hx⟩ := C02.bind_ok hx
      simp only [pure, Except.pure, Except.ok.injEq] at hx
      subst hx; rfl
    · trivial

/-! ## fragments: names, first items -/

def nameOf (q : Query) (g : Nat) : String :=
  match q.fragments[g]? with
  | some f => f.name
  | none => ""

theorem nameOf_eq {q : Query} {g : Nat} {fg : RFragment} (h : q.fragments[g]? = some fg) : nameOf q g = fg.name := by
  simp [nameOf, h]

theorem inj_of_nodup_map {α β : Type} (f : α → β) : ∀ {l : List α}, (l.map f).Nodup →
    ∀ a ∈ l, ∀ b ∈ l, f a = f b → a = b
  | [], _, a, ha, _, _, _ => by cases ha
  | x :: l, hnd, a, ha, b, hb, hab => by
    simp only [List.map_cons, List.nodup_cons, List.mem_map, not_exists, not_and] at hnd
    rcases List.mem_cons.mp ha with rfl | ha' <;> rcases List.mem_cons.mp hb with rfl | hb'
    · rfl
    · exact absurd hab.symm (hnd.1 b hb')
    · exact absurd hab (hnd.1 a ha')
    · exact inj_of_nodup_map f hnd.2 a ha' b hb' hab

/-- a successful `fragmentItems` call, opened -/
theorem fragmentItems_ok {c : Ctx} {g : Nat} {L : List Item} (h : fragmentItems c g = .ok L) :
    ∃ fg, c.q.fragments[g]? = some fg ∧
      calcSelection c (calcFuel c.s c.q) fg.name (c.cs.camel fg.name) fg.on fg.sels = .ok L := by
  unfold fragmentItems at h
  obtain ⟨fg, hfg, h⟩ := C02.bind_ok h
  exact ⟨fg, C02.getFragment_ok hfg, h⟩

/-- the names of the fragments, in order, are a sublist of the names of their items (each fragment's first item) -/
theorem heads_sublist {c : Ctx} : ∀ (Us : List Nat) (F : List (List Item)), Us.mapM (fragmentItems c) = .ok F →
    (Us.map (nameOf c.q)).Sublist (F.flatten.map (·.name))
  | [], F, h => by
    simp only [List.mapM_nil, pure, Except.pure, Except.ok.injEq] at h
    subst h; simp
  | g :: Us, F, h => by
    rw [List.mapM_cons] at h
    obtain ⟨L, hL, h⟩ := C02.bind_ok h
    obtain ⟨F', hF', h⟩ := C02.bind_ok h
    simp only [pure, Except.pure, Except.ok.injEq] at h
    subst h
    obtain ⟨fg, hfg, hcalc⟩ := fragmentItems_ok hL
    obtain ⟨_, hd, tl, rfl, hn, _⟩ := (calc_jumps (c := c) (Used := fun _ => True) _).1 _ _ _ _ _ hcalc (fun _ _ => trivial)
    simp only [List.map_cons, List.flatten_cons, List.cons_append, nameOf_eq hfg, hn]
    refine List.Sublist.cons_cons _ ?_
    rw [List.map_append]
    exact (heads_sublist Us F' hF').trans (List.sublist_append_right _ _)

/-! ## the rank -/

def isJump : Item → Bool
  | .alias .. => true
  | .struct .. => true
  | _ => false

theorem isJump_of_tagged {it : Item} (h : isTagged it = true) : isJump it = false := by
  cases it <;> simp_all [isTagged, isJump]

/-- `r g + 1` for the (first) used fragment `g` named `p`, `0` if there is none -/
def fragRank (q : Query) (Us : List Nat) (r : Nat → Nat) (p : String) : Nat :=
  match Us.find? (fun g => nameOf q g == p) with
  | some g => r g + 1
  | none => 0

/-- the fragment rank of the name `p`, when `p` names an alias / a struct of the module -/
def phi (e : Env) (q : Query) (Us : List Nat) (r : Nat → Nat) (p : String) : Nat :=
  match e.find p with
  | some it => if isJump it then fragRank q Us r p else 0
  | none => 0

def maxFlat (φ : String → Nat) : List RField → Nat
  | [] => 0
  | f :: fs => max (if f.flatten then φ (Scope.leaf f.ty) else 0) (maxFlat φ fs)

def maxRank (r : Nat → Nat) : List Nat → Nat
  | [] => 0
  | g :: gs => max (r g + 1) (maxRank r gs)

def maxLen : List Item → Nat
  | [] => 0
  | it :: l => max it.name.length (maxLen l)

/-- the rank of an item, by content: private aliases (built-ins, custom scalars) sit above everything else, ordered by
    the length of their name (the target `m::n` of a scalar alias `n` is longer than `n`) -/
def rk (φ : String → Nat) (M K : Nat) : Item → Nat
  | .alias n false _ => M + 2 + (K - n.length)
  | .alias _ true t => 2 * φ (Scope.leaf t) + 2
  | .struct _ _ _ fs => 2 * maxFlat φ fs + 2
  | _ => 0

/-- **the rank** witnessing `Acyclic` -/
def rankD (e : Env) (q : Query) (Us : List Nat) (r : Nat → Nat) (p : String) : Nat :=
  match e.find p with
  | some it => rk (phi e q Us r) (2 * maxRank r Us + 2) (maxLen e.items) it
  | none => if (e.externs.find? (·.1 == p)).isSome then 1 else 0

theorem le_maxFlat (φ : String → Nat) : ∀ {fs : List RField} {f : RField}, f ∈ fs → f.flatten = true →
    φ (Scope.leaf f.ty) ≤ maxFlat φ fs
  | x :: fs, f, hf, hfl => by
    rcases List.mem_cons.mp hf with rfl | hf'
    · simp only [maxFlat, hfl, ↓reduceIte]; omega
    · have := le_maxFlat φ hf' hfl
      simp only [maxFlat]; omega

theorem maxFlat_le (φ : String → Nat) (B : Nat) : ∀ {fs : List RField},
    (∀ f ∈ fs, f.flatten = true → φ (Scope.leaf f.ty) ≤ B) → maxFlat φ fs ≤ B
  | [], _ => by simp [maxFlat]
  | x :: fs, h => by
    have ih := maxFlat_le φ B (fs := fs) (fun f hf => h f (List.mem_cons_of_mem _ hf))
    simp only [maxFlat]
    by_cases hx : x.flatten = true
    · have := h x List.mem_cons_self hx
      simp only [hx, ↓reduceIte]; omega
    · simp only [hx]; simp only [Bool.false_eq_true, ↓reduceIte]; omega

theorem le_maxRank (r : Nat → Nat) : ∀ {l : List Nat} {g : Nat}, g ∈ l → r g + 1 ≤ maxRank r l
  | x :: l, g, hg => by
    rcases List.mem_cons.mp hg with rfl | hg'
    · simp only [maxRank]; omega
    · have := le_maxRank r hg'
      simp only [maxRank]; omega

theorem le_maxLen : ∀ {l : List Item} {it : Item}, it ∈ l → it.name.length ≤ maxLen l
  | x :: l, it, h => by
    rcases List.mem_cons.mp h with rfl | h'
    · simp only [maxLen]; omega
    · have := le_maxLen h'
      simp only [maxLen]; omega

theorem fragRank_le (q : Query) (Us : List Nat) (r : Nat → Nat) (p : String) : fragRank q Us r p ≤ maxRank r Us := by
  unfold fragRank
  split
  · rename_i g hf
    exact le_maxRank r (List.mem_of_find?_eq_some hf)
  · omega

theorem phi_le (e : Env) (q : Query) (Us : List Nat) (r : Nat → Nat) (p : String) : phi e q Us r p ≤ maxRank r Us := by
  unfold phi
  split
  · split
    · exact fragRank_le q Us r p
    · omega
  · omega

theorem rk_of_not_jump (φ : String → Nat) (M K : Nat) {it : Item} (h : isJump it = false) : rk φ M K it = 0 := by
  cases it <;> simp_all [isJump, rk]

/-- every item except the private aliases ranks at most `M` -/
theorem rk_le (e : Env) (q : Query) (Us : List Nat) (r : Nat → Nat) (K : Nat) (it : Item)
    (h : ∀ n t, it ≠ .alias n false t) :
    rk (phi e q Us r) (2 * maxRank r Us + 2) K it ≤ 2 * maxRank r Us + 2 := by
  cases it with
  | «alias» n pub t =>
    cases pub with
    | false => exact absurd rfl (h n t)
    | true =>
      have := phi_le e q Us r (Scope.leaf t)
      simp only [rk]; omega
  | struct n d sc fs =>
    have := maxFlat_le (phi e q Us r) (maxRank r Us) (fs := fs) (fun f _ _ => phi_le e q Us r _)
    simp only [rk]; omega
  | _ => simp [rk]

/-! ## soundness of the used-fragment walk: every collected fragment is reachable -/

theorem reach_step_inline' {q : Query} {sels : List Sel} {t : TypeId} {sub : List Sel} {y : Sel}
    (h : C02.Reach q sels (.inline t sub)) (hy : y ∈ sub) : C02.Reach q sels y := by
  generalize hx : Sel.inline t sub = x at h
  induction h with
  | here hm => subst hx; exact .inline hm (.here hy)
  | field hm _ ih => exact .field hm (ih hx)
  | inline hm _ ih => exact .inline hm (ih hx)
  | spread hm hf _ ih => exact .spread hm hf (ih hx)

theorem reach_step_spread' {q : Query} {sels : List Sel} {g : Nat} {f : RFragment} {y : Sel}
    (h : C02.Reach q sels (.spread g)) (hf : q.fragments[g]? = some f) (hy : y ∈ f.sels) : C02.Reach q sels y := by
  generalize hx : Sel.spread g = x at h
  induction h with
  | here hm => subst hx; exact .spread hm hf (.here hy)
  | field hm _ ih => exact .field hm (ih hx)
  | inline hm _ ih => exact .inline hm (ih hx)
  | spread hm hf' _ ih => exact .spread hm hf' (ih hx)

/-- reachability is closed under the sub-tree relation -/
theorem reach_sub {q : Query} {root : List Sel} {x y : Sel} (hs : C02.Sub x y) : C02.Reach q root x → C02.Reach q root y := by
  induction hs with
  | refl => exact id
  | field hm _ ih => exact fun h => ih (reach_step h hm)
  | inline hm _ ih => exact fun h => ih (reach_step_inline' h hm)

/-- **`collectSel` only collects fragments of a set `G` that contains the spreads of the selection at hand and is closed
    under the spreads of the bodies of its members** -/
theorem collectSel_sound (s : Schema) (q : Query) (G : Nat → Prop)
    (hG : ∀ g, G g → ∀ f, q.fragments[g]? = some f → ∀ x ∈ f.sels, ∀ h, C02.Sub x (.spread h) → G h) :
    ∀ (fuel : Nat) (u : UsedTypes) (x : Sel) (u' : UsedTypes), collectSel s q fuel u x = .ok u' →
      (∀ g ∈ u.fragments, G g) → (∀ h, C02.Sub x (.spread h) → G h) → ∀ g ∈ u'.fragments, G g := by
  intro fuel
  induction fuel with
  | zero =>
    intro u x u' h hu _
    rw [collectSel] at h
    simp only [pure, Except.pure, Except.ok.injEq] at h
    subst h; exact hu
  | succ fuel ih =>
    have fold : ∀ (l : List Sel) (u u' : UsedTypes), l.foldlM (collectSel s q fuel) u = .ok u' →
        (∀ g ∈ u.fragments, G g) → (∀ y ∈ l, ∀ h, C02.Sub y (.spread h) → G h) → ∀ g ∈ u'.fragments, G g := by
      intro l
      induction l with
      | nil =>
        intro u u' h hu _
        simp only [List.foldlM_nil, pure, Except.pure, Except.ok.injEq] at h
        subst h; exact hu
      | cons y l ihl =>
        intro u u' h hu hl
        rw [List.foldlM_cons] at h
        obtain ⟨u1, h1, h⟩ := C02.bind_ok h
        exact ihl u1 u' h (ih u y u1 h1 hu (hl y List.mem_cons_self))
          (fun y' hy' => hl y' (List.mem_cons_of_mem _ hy'))
    intro u x u' h hu hx
    cases x with
    | field a fid sub =>
      rw [collectSel] at h
      obtain ⟨f, _, h⟩ := C02.bind_ok h
      exact fold sub _ u' h (by simpa using hu) (fun y hy g hg => hx g (.field hy hg))
    | inline t sub =>
      rw [collectSel] at h
      exact fold sub _ u' h (by simpa using hu) (fun y hy g hg => hx g (.inline hy hg))
    | spread fid =>
      rw [collectSel] at h
      split at h
      · simp only [pure, Except.pure, Except.ok.injEq] at h
        subst h; exact hu
      · obtain ⟨f, hf, h⟩ := C02.bind_ok h
        have hfid : G fid := hx fid (.refl _)
        refine fold f.sels _ u' h ?_ (fun y hy g hg => hG fid hfid f (C02.getFragment_ok hf) y hy g hg)
        intro g hg
        rcases List.mem_cons.mp hg with rfl | hg
        · exact hfid
        · exact hu g hg
    | typename =>
      rw [collectSel] at h
      simp only [pure, Except.pure, Except.ok.injEq] at h
      subst h; exact hu

/-- every used fragment is reachable from the root selection set of the operation -/
theorem used_fragments_reachable {s : Schema} {q : Query} {op : Nat} {u : UsedTypes} (h : allUsedTypes s q op = .ok u)
    {o : ROperation} (ho : q.operations[op]? = some o) : ∀ g ∈ u.fragments, C02.Reach q o.sels (.spread g) := by
  obtain ⟨o', u0, ho', hsel, hvar⟩ := C02.allUsedTypes_ok h
  rw [ho] at ho'; cases ho'
  have ⟨hle, _⟩ := C02.collectVars_spec s _ u0 u hvar
  rw [hle.frags]
  have hG : ∀ g, C02.Reach q o.sels (.spread g) → ∀ f, q.fragments[g]? = some f → ∀ x ∈ f.sels, ∀ h,
      C02.Sub x (.spread h) → C02.Reach q o.sels (.spread h) :=
    fun g hg f hf x hx h hs => reach_sub hs (reach_step_spread' hg hf hx)
  have fold : ∀ (l : List Sel) (u u' : UsedTypes), l.foldlM (collectSel s q (walkFuel q)) u = .ok u' →
      (∀ g ∈ u.fragments, C02.Reach q o.sels (.spread g)) → (∀ y ∈ l, y ∈ o.sels) →
      ∀ g ∈ u'.fragments, C02.Reach q o.sels (.spread g) := by
    intro l
    induction l with
    | nil =>
      intro u u' h hu _
      simp only [List.foldlM_nil, pure, Except.pure, Except.ok.injEq] at h
      subst h; exact hu
    | cons y l ihl =>
      intro u u' h hu hl
      rw [List.foldlM_cons] at h
      obtain ⟨u1, h1, h⟩ := C02.bind_ok h
      refine ihl u1 u' h ?_ (fun y' hy' => hl y' (List.mem_cons_of_mem _ hy'))
      exact collectSel_sound s q _ hG _ u y u1 h1 hu
        (fun g hs => reach_sub hs (.here (hl y List.mem_cons_self)))
  exact fold o.sels {} u0 hsel (fun g hg => by cases hg) (fun y hy => hy)

/-! ## what the proof uses of the module -/

structure ModFacts (c : Ctx) (items : List Item) (Us : List Nat) : Prop where
  nodup : (items.map (·.name)).Nodup
  np : ∀ it ∈ items, C01.notPrim it.name
  ext : ∀ x ∈ customExterns c, C01.notPrim x.1
  cls : ∀ it ∈ items, it ∈ builtinAliases ∨ IsScalarAlias it ∨ NoJump it ∨ ItemOK c.q (· ∈ Us) items it
  heads : ∀ g ∈ Us, ∃ fg hd, c.q.fragments[g]? = some fg ∧ hd ∈ items ∧ hd.name = fg.name ∧
    HeadOK c.q items fg.on fg.sels hd
  closed : ∀ g ∈ Us, ∀ fg, c.q.fragments[g]? = some fg → ∀ h, Sel.spread h ∈ fg.sels → h ∈ Us
  names : (Us.map (nameOf c.q)).Nodup

/-- **the facts hold of every emitted module that passes `moduleOk`** -/
theorem modFacts {c : Ctx} {op : Nat} {items : List Item} (h : responseForQuery c op = .ok items)
    (hok : moduleOk c items = true) :
    ∃ Us, ModFacts c items Us ∧ ∀ o, c.q.operations[op]? = some o → ∀ g ∈ Us, C02.Reach c.q o.sels (.spread g) := by
  obtain ⟨u, S, E, F, I, V, o, R, hu, hS, hE, hF, hI, hV, ho, hR, hitems⟩ := parts h
  simp only [moduleOk, Bool.and_eq_true, List.all_eq_true, decide_eq_true_eq, List.isEmpty_iff] at hok
  obtain ⟨⟨⟨⟨hnd, hnp⟩, hext⟩, _⟩, _⟩ := hok
  have hnd := C01.nodup_iff'.mp hnd
  -- closure of the used fragments
  have hcl_op : ∀ g, C02.Reach c.q o.sels (.spread g) → g ∈ sortNat u.fragments := fun g hr =>
    (C02.mem_sortNat _ _).mpr (C02.spread_fragments_used c.s c.q op u hu o ho g hr)
  have hcl_fr : ∀ g ∈ sortNat u.fragments, ∀ fg, c.q.fragments[g]? = some fg →
      ∀ x, C02.Reach c.q fg.sels (.spread x) → x ∈ sortNat u.fragments := by
    obtain ⟨o', u0, ho', hsel, hvar⟩ := C02.allUsedTypes_ok hu
    rw [ho] at ho'; cases ho'
    have ⟨_, hfr⟩ := C02.selPhase_spec c.s c.q o (List.mem_of_getElem? ho) u0 hsel
    have ⟨hle, _⟩ := C02.collectVars_spec c.s _ u0 u hvar
    intro g hg fg hfg x hr
    have hg0 : g ∈ u0.fragments := by rw [← hle.frags]; exact (C02.mem_sortNat _ _).mp hg
    have hx : x ∈ u0.fragments := C02.reach_direct hfr hr (hfr g hg0 fg hfg)
    exact (C02.mem_sortNat _ _).mpr (by rw [hle.frags]; exact hx)
  -- the items of the fragments and of the operation
  have hsubF : ∀ L ∈ F, ∀ x ∈ L, x ∈ items := by
    intro L hL x hx
    rw [hitems]
    simp only [List.mem_append, List.mem_flatten]
    exact .inl (.inr ⟨L, hL, hx⟩)
  have hsubR : ∀ x ∈ R, x ∈ items := by
    intro x hx; rw [hitems]; simp [hx]
  have hfragL : ∀ g ∈ sortNat u.fragments, ∀ L, fragmentItems c g = .ok L → ∃ fg, c.q.fragments[g]? = some fg ∧
      LocalOK c.q (· ∈ sortNat u.fragments) L ∧ ∃ hd tl, L = hd :: tl ∧ hd.name = fg.name ∧
        HeadOK c.q L fg.on fg.sels hd := by
    intro g hg L hL
    obtain ⟨fg, hfg, hcalc⟩ := fragmentItems_ok hL
    exact ⟨fg, hfg, (calc_jumps (c := c) (Used := (· ∈ sortNat u.fragments)) _).1 _ _ _ _ _ hcalc (hcl_fr g hg fg hfg)⟩
  refine ⟨sortNat u.fragments, ⟨hitems ▸ hnd, hnp, fun x hx => (hext x hx).1, ?_, ?_, ?_, ?_⟩,
    fun o' ho' g hg => used_fragments_reachable hu ho' g ((C02.mem_sortNat _ _).mp hg)⟩
  · -- classification
    intro it hit
    have hit' := hit
    rw [hitems] at hit'
    simp only [List.mem_append] at hit'
    rcases hit' with (((((hb | hs) | he) | hi) | hv) | hf) | hr
    · exact .inl hb
    · refine .inr (.inl ?_)
      unfold scalarItems at hS
      obtain ⟨names, _, hS⟩ := C02.bind_ok hS
      simp only [pure, Except.pure, Except.ok.injEq] at hS
      subst hS
      obtain ⟨n, _, rfl⟩ := List.mem_map.mp hs
      exact ⟨_, _, rfl⟩
    · refine .inr (.inr (.inl ?_))
      unfold enumItems at hE
      obtain ⟨es, _, hE⟩ := C02.bind_ok hE
      simp only [pure, Except.pure, Except.ok.injEq] at hE
      subst hE
      obtain ⟨en, _, rfl⟩ := List.mem_map.mp he
      exact trivial
    · refine .inr (.inr (.inl ?_))
      unfold inputItems at hI
      obtain ⟨x, _, hx⟩ := C02.mapM_ok_mem hI it hi
      exact inputItem_noJump hx
    · exact .inr (.inr (.inl (variablesItems_noJump hV it hv)))
    · refine .inr (.inr (.inr ?_))
      obtain ⟨L, hL, hitL⟩ := List.mem_flatten.mp hf
      obtain ⟨g, hg, hgL⟩ := C02.mapM_ok_mem hF L hL
      obtain ⟨fg, _, hloc, _⟩ := hfragL g hg L hgL
      exact (hloc it hitL).mono (hsubF L hL)
    · refine .inr (.inr (.inr ?_))
      unfold responseItems at hR
      have := ((calc_jumps (c := c) (Used := (· ∈ sortNat u.fragments)) _).1 _ _ _ _ _ hR hcl_op).1
      exact (this it hr).mono hsubR
  · -- first items
    intro g hg
    obtain ⟨L, hL, hgL⟩ := C02.mapM_ok_of_mem hF g hg
    obtain ⟨fg, hfg, _, hd, tl, rfl, hn, hh⟩ := hfragL g hg L hgL
    exact ⟨fg, hd, hfg, hsubF _ hL hd List.mem_cons_self, hn, hh.mono (hsubF _ hL)⟩
  · exact fun g hg fg hfg x hx => hcl_fr g hg fg hfg x (.here hx)
  · -- fragment names pairwise distinct (their first items are items of the module)
    have hsl := heads_sublist (c := c) _ F hF
    have : (F.flatten.map (·.name)).Sublist (items.map (·.name)) := by
      rw [hitems]
      simp only [List.map_append]
      exact ((List.sublist_append_right _ _).trans (List.sublist_append_left _ _))
    exact (hsl.trans this).nodup hnd

/-- `r` decreases along the jumps of the first items of the fragments in `Us` -/
def RankedOn (q : Query) (Us : List Nat) (r : Nat → Nat) : Prop :=
  ∀ g ∈ Us, ∀ f, q.fragments[g]? = some f → ∀ h ∈ jumpSpreads q f, r h < r g

theorem SpreadRanked.rankedOn {q : Query} {r : Nat → Nat} (h : SpreadRanked q r) (Us : List Nat) : RankedOn q Us r :=
  fun g _ f hf x hx => h g f hf x hx

/-! ## the rank decreases along every jump -/

section Rank
variable {c : Ctx} {items : List Item} {Us : List Nat} {r : Nat → Nat}

local notation "E" => moduleEnv c items
local notation "Φ" => phi (moduleEnv c items) c.q Us r
local notation "D" => rankD (moduleEnv c items) c.q Us r

theorem find_item (F : ModFacts c items Us) {it : Item} (h : it ∈ items) : (E).find it.name = some it :=
  find_of_mem _ F.nodup h

theorem item_inj (F : ModFacts c items Us) {a b : Item} (ha : a ∈ items) (hb : b ∈ items) (h : a.name = b.name) :
    a = b := by
  have h1 := find_item F ha
  rw [h, find_item F hb] at h1
  exact (Option.some.inj h1).symm

theorem fragRank_eq (F : ModFacts c items Us) {g : Nat} (hg : g ∈ Us) {fg : RFragment}
    (hfg : c.q.fragments[g]? = some fg) : fragRank c.q Us r fg.name = r g + 1 := by
  unfold fragRank
  cases hf : Us.find? (fun g => nameOf c.q g == fg.name) with
  | none =>
    have := List.find?_eq_none.mp hf g hg
    simp [nameOf_eq hfg] at this
  | some g' =>
    have hg' := List.mem_of_find?_eq_some hf
    have hn : nameOf c.q g' = fg.name := by simpa using List.find?_some hf
    have : g' = g := inj_of_nodup_map _ F.names g' hg' g hg (by rw [hn, nameOf_eq hfg])
    subst this; rfl

theorem phi_frag_le (F : ModFacts c items Us) {g : Nat} (hg : g ∈ Us) {fg : RFragment}
    (hfg : c.q.fragments[g]? = some fg) : Φ fg.name ≤ r g + 1 := by
  unfold phi
  split
  · split
    · rw [fragRank_eq F hg hfg]; omega
    · omega
  · omega

theorem phi_frag_eq (F : ModFacts c items Us) {g : Nat} (hg : g ∈ Us) {fg : RFragment}
    (hfg : c.q.fragments[g]? = some fg) {it : Item} (hf : (E).find fg.name = some it) (hj : isJump it = true) :
    Φ fg.name = r g + 1 := by
  unfold phi
  rw [hf]
  simp only [hj, ↓reduceIte]
  exact fragRank_eq F hg hfg

theorem phi_zero {p : String} {it : Item} (hf : (E).find p = some it) (hj : isJump it = false) : Φ p = 0 := by
  unfold phi
  rw [hf]
  simp [hj]

/-- the first item of a used fragment ranks at most `2 * r g + 2` -/
theorem rank_head (F : ModFacts c items Us) (hr : RankedOn c.q Us r) {g : Nat} (hg : g ∈ Us) {fg : RFragment}
    (hfg : c.q.fragments[g]? = some fg) : D fg.name ≤ 2 * r g + 2 := by
  obtain ⟨fg', hd, hfg', hdm, hdn, hH⟩ := F.heads g hg
  rw [hfg] at hfg'; cases hfg'
  have hfd : (E).find fg.name = some hd := hdn ▸ find_item F hdm
  unfold rankD
  rw [hfd]
  simp only []
  cases hd with
  | «alias» n pub t =>
    obtain ⟨rfl, g', fg', hs, hfg', hname⟩ := hH
    have hj : g' ∈ jumpSpreads c.q fg := by
      unfold jumpSpreads; rw [hs]; simp
    have h1 := hr g hg fg hfg g' hj
    have h2 := phi_frag_le (r := r) F (F.closed g hg fg hfg g' (by rw [hs]; simp)) hfg'
    rw [hname] at h2
    simp only [rk]; omega
  | struct n d sc fs =>
    obtain ⟨hsp, hfs⟩ := hH
    have : maxFlat Φ fs ≤ r g := by
      refine maxFlat_le _ _ (fun f hf hfl => ?_)
      rcases hfs f hf hfl with ⟨g', fg', hm, hfg', hon, hname⟩ | ⟨hp, tg, htm, htn, htt⟩
      · have hj : g' ∈ jumpSpreads c.q fg := by
          unfold jumpSpreads
          split
          · rename_i g'' heq
            exact absurd heq (hsp g'')
          · exact List.mem_filter.mpr ⟨mem_topSpreads.mpr hm, by simp [hfg', hon]⟩
        have h1 := hr g hg fg hfg g' hj
        have h2 := phi_frag_le (r := r) F (F.closed g hg fg hfg g' hm) hfg'
        rw [hname] at h2
        omega
      · rw [hp, ← htn, phi_zero (find_item F htm) (isJump_of_tagged htt)]
        omega
    simp only [rk]; omega
  | _ => simp [rk]

/-- a jump to the name `p` — a used fragment or the `tagged` partner — from an item of rank `B` -/
theorem rank_target (F : ModFacts c items Us) (hr : RankedOn c.q Us r) (p : String) (B : Nat)
    (hT : FragTarget c.q (· ∈ Us) p ∨ ∃ tg ∈ items, tg.name = p ∧ isTagged tg = true)
    (hB : 2 * Φ p + 2 ≤ B) : D p < B := by
  cases hf : (E).find p with
  | none =>
    unfold rankD
    rw [hf]
    simp only []
    split <;> omega
  | some it' =>
    obtain ⟨hm', hn'⟩ := find_spec hf
    cases hj : isJump it' with
    | false =>
      unfold rankD
      rw [hf]
      simp only [rk_of_not_jump _ _ _ hj]
      omega
    | true =>
      rcases hT with ⟨g, fg, hfg, hgU, rfl⟩ | ⟨tg, htm, htn, htt⟩
      · have h1 := phi_frag_eq (r := r) F hgU hfg hf hj
        have h2 := rank_head F hr hgU hfg
        omega
      · have : it' = tg := item_inj F hm' htm (by rw [hn', htn])
        subst this
        rw [isJump_of_tagged htt] at hj
        cases hj

theorem rank_prim (F : ModFacts c items Us) {p : String} (hp : ¬ C01.notPrim p) : D p ≤ 1 := by
  unfold rankD
  cases hf : (E).find p with
  | none => simp only []; split <;> omega
  | some it =>
    obtain ⟨hm, hn⟩ := find_spec hf
    exact absurd (hn ▸ F.np it hm) hp

theorem string_length_path (m n : String) : (m ++ "::" ++ n).length = m.length + 2 + n.length := by
  have h2 : "::".length = 2 := by decide
  simp [String.length_append, h2]

/-- **`Acyclic` for the environment of the module**, with the explicit rank `rankD` -/
theorem acyclic_of_facts (F : ModFacts c items Us) (hr : RankedOn c.q Us r) : Acyclic (E) (D) := by
  refine ⟨fun p n pub t hf => ?_, fun p x hf hx => ?_, fun p n dv sc fields hf f hmem hfl => ?_⟩
  · -- alias → target
    obtain ⟨hm, hn⟩ := find_spec hf
    have hp : D p = rk Φ (2 * maxRank r Us + 2) (maxLen items) (.alias n pub t) := by
      unfold rankD; rw [hf]; rfl
    rw [hp]
    rcases F.cls _ hm with hb | ⟨ident, m, he⟩ | hnj | hok
    · have : pub = false ∧ ¬ C01.notPrim (Scope.leaf t) := by
        simp only [builtinAliases, List.mem_cons, Item.alias.injEq, List.not_mem_nil, or_false] at hb
        rcases hb with ⟨_, rfl, rfl⟩ | ⟨_, rfl, rfl⟩ | ⟨_, rfl, rfl⟩ | ⟨_, rfl, rfl⟩ <;>
          exact ⟨rfl, by simp [C01.notPrim, Scope.leaf]⟩
      obtain ⟨rfl, hprim⟩ := this
      have := rank_prim (r := r) F hprim
      simp only [rk]; omega
    · cases he
      simp only [rk, Scope.leaf]
      cases hf' : (E).find (m ++ "::" ++ n) with
      | none =>
        unfold rankD; rw [hf']; simp only []
        split <;> omega
      | some it' =>
        obtain ⟨hm', hn'⟩ := find_spec hf'
        have hlen : it'.name.length ≤ maxLen items := le_maxLen hm'
        have hl2 : it'.name.length = m.length + 2 + n.length := by rw [hn']; exact string_length_path m n
        unfold rankD; rw [hf']; simp only []
        by_cases hpriv : ∃ n' t', it' = .alias n' false t'
        · obtain ⟨n', t', rfl⟩ := hpriv
          simp only [Item.name] at hlen hl2
          simp only [rk, moduleEnv]; omega
        · have := rk_le (E) c.q Us r (maxLen items) it' (fun n' t' h => hpriv ⟨n', t', h⟩)
          simp only [moduleEnv] at this ⊢
          omega
    · exact absurd hnj (by simp [NoJump])
    · obtain ⟨rfl, hT⟩ := hok
      simp only [rk]
      exact rank_target F hr _ _ (.inl hT) (Nat.le_refl _)
  · -- extern alias → target
    have hp : D p = 1 := by
      unfold rankD; rw [hf]; simp [moduleEnv] at hx ⊢; simp [hx]
    have hxm := List.mem_of_find?_eq_some hx
    have hx2 : x.2 = .path "String" := by
      simp only [moduleEnv, customExterns, List.mem_map] at hxm
      obtain ⟨n, _, rfl⟩ := hxm
      rfl
    have h0 : D "String" = 0 := by
      unfold rankD
      cases hf' : (E).find "String" with
      | some it =>
        obtain ⟨hm, hn⟩ := find_spec hf'
        exact absurd (F.np it hm) (by rw [hn]; simp [C01.notPrim])
      | none =>
        simp only []
        cases hx' : (E).externs.find? (·.1 == "String") with
        | none => simp
        | some y =>
          have hym := List.mem_of_find?_eq_some hx'
          have hyn : y.1 = "String" := by simpa using List.find?_some hx'
          exact absurd (F.ext y hym) (by rw [hyn]; simp [C01.notPrim])
    rw [hp, hx2]
    simp only [Scope.leaf, h0]
    omega
  · -- struct → flattened member
    obtain ⟨hm, hn⟩ := find_spec hf
    have hp : D p = rk Φ (2 * maxRank r Us + 2) (maxLen items) (.struct n dv sc fields) := by
      unfold rankD; rw [hf]; rfl
    rw [hp]
    simp only [rk]
    have hle := le_maxFlat Φ hmem hfl
    rcases F.cls _ hm with hb | ⟨ident, m, he⟩ | hnj | hok
    · simp [builtinAliases] at hb
    · cases he
    · rw [hnj f hmem] at hfl; cases hfl
    · refine rank_target F hr _ _ ?_ (by omega)
      rcases hok f hmem hfl with h | ⟨hp', tg, htm, htn, htt⟩
      · exact .inl h
      · exact .inr ⟨tg, htm, by rw [htn, hp'], htt⟩

end Rank

/-- `r` decreases along the jumps of the first items of the fragments REACHABLE from the operation (unused fragments of
    the document are unconstrained) -/
def ReachRanked (q : Query) (sels : List Sel) (r : Nat → Nat) : Prop :=
  ∀ g, C02.Reach q sels (.spread g) → ∀ f, q.fragments[g]? = some f → ∀ h ∈ jumpSpreads q f, r h < r g

theorem SpreadRanked.reachRanked {q : Query} {r : Nat → Nat} (h : SpreadRanked q r) (sels : List Sel) :
    ReachRanked q sels r := fun g _ f hf x hx => h g f hf x hx

/-- **Part A, main theorem (weakest hypothesis)**: every emitted module that passes `moduleOk`, of an operation whose
    REACHABLE fragments are ranked along `jumpSpreads`, is `Acyclic` -/
theorem module_acyclic_of_reachRanked {c : Ctx} {op : Nat} {o : ROperation} {items : List Item} {r : Nat → Nat}
    (h : responseForQuery c op = .ok items) (hok : moduleOk c items = true) (ho : c.q.operations[op]? = some o)
    (hr : ReachRanked c.q o.sels r) : ∃ d, Acyclic (moduleEnv c items) d := by
  obtain ⟨Us, F, hreach⟩ := modFacts h hok
  exact ⟨_, acyclic_of_facts F (fun g hg f hf x hx => hr g (hreach o ho g hg) f hf x hx)⟩

/-- the rank condition on the whole document -/
theorem module_acyclic_of_spreadRanked {c : Ctx} {op : Nat} {items : List Item} {r : Nat → Nat}
    (h : responseForQuery c op = .ok items) (hok : moduleOk c items = true) (hr : SpreadRanked c.q r) :
    ∃ d, Acyclic (moduleEnv c items) d := by
  obtain ⟨Us, F, _⟩ := modFacts h hok
  exact ⟨_, acyclic_of_facts F (hr.rankedOn Us)⟩

/-- the same from the same-level spread relation of the brief -/
theorem module_acyclic_of_sameLevelRanked {c : Ctx} {op : Nat} {items : List Item} {r : Nat → Nat}
    (h : responseForQuery c op = .ok items) (hok : moduleOk c items = true) (hr : SameLevelRanked c.q r) :
    ∃ d, Acyclic (moduleEnv c items) d :=
  module_acyclic_of_spreadRanked h hok hr.spreadRanked

end AcyclicM
end GqlVerif
