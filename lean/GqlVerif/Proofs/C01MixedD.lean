import GqlVerif.Proofs.C01MixedC
/-!
# C01 end to end (`MixedOp`), part D: losslessness

* `canonSelM s q skip sels j` — the allowed differences: at object positions as `canonSelF` (own entries and, **at the
  position of each spread**, the entries of the fragment; a lone spread: the fragment's own canonical form), a field of
  scalar / enum / interface / union type as `canonFieldD` (`VariantSpreadOp`: at an abstract position the interface-level
  entries and the entries of the fragments on the abstract type itself in selection order, then `__typename`, then the
  entries of the selections on the runtime type);
* `rtStructM`, `rtBodyM`, mutual `rtSelM` / `rtSelsM`, `bodyM_lossless` — round trip of the emitted types (object positions:
  `deStruct_flat_finds` / `ser_flat` / `rtMemberF` / `rtAliasF` of `C01AbstractI`; all other fields: `rtSelD` of
  `C01VariantSpreadE`);
* **`mixed_lossless`** / **`mixed_roundtrip`** — over `moduleEnv c items` for the module `responseForQuery` emits:
  `Serde.roundtrip … j = .ok (normJson (canonSelM … j))` (`normJson`: `serde_json::to_value` keeps one entry per key — with
  spreads of fragments on an abstract type itself `__typename` is written several times, as for `VariantSpreadOp`).

Additional decidable side condition: `mixedRustOk` (Rust field names — own fields, flattened members, `on` — pairwise
distinct in every struct, and inside every spread fragment): `rustOkSelF` at object positions, `rustOkSelD` elsewhere.
-/
set_option linter.unusedSimpArgs false
set_option linter.unusedVariables false
set_option linter.unusedSectionVars false
set_option linter.unnecessarySimpa false

namespace GqlVerif
namespace C01M
open Serde Spec C13 C03 Codegen C01 C01.E2E

/-! ## the allowed differences -/

mutual
  def canonFieldM (s : Schema) (q : Query) (skip : Bool) : Sel → Json → Json
    | .field a fid sub, v =>
      match s.fields[fid]? with
      | none => v
      | some sf =>
        match sf.ty.id with
        | .object _ => canon (fun j =>
            match sub with
            | [.spread g] => canonSelV s skip (fragSels q g) j
            | _ => match j with
              | .obj kvs => .obj (canonEntriesM s q skip sub kvs)
              | j => j) (gtyOf sf.ty.quals) v
        | _ => canonFieldD s q skip (.field a fid sub) v
    | _, v => v
  /-- own entries and, **at the position of each spread**, the entries of the fragment, in selection order -/
  def canonEntriesM (s : Schema) (q : Query) (skip : Bool) : List Sel → List (String × Json) → List (String × Json)
    | [], _ => []
    | .field a fid sub :: xs, kvs =>
      (match s.fields[fid]? with
       | none => []
       | some sf =>
         match Json.lookup (a.getD sf.name) kvs with
         | some v =>
           if skip && skipQ sf.ty.quals && v.isNull then []
           else [(a.getD sf.name, canonFieldM s q skip (.field a fid sub) v)]
         | none => if skip && skipQ sf.ty.quals then [] else [(a.getD sf.name, Json.null)]) ++
        canonEntriesM s q skip xs kvs
    | .spread g :: xs, kvs => canonEntriesV s skip (fragSels q g) kvs ++ canonEntriesM s q skip xs kvs
    | _ :: xs, kvs => canonEntriesM s q skip xs kvs
end

/-- **`canonSelM`**: what the serializer writes for a conforming response `j` (before `serde_json::to_value` merges
    repeated keys) -/
def canonSelM (s : Schema) (q : Query) (skip : Bool) (sels : List Sel) (j : Json) : Json :=
  match sels with
  | [.spread g] => canonSelV s skip (fragSels q g) j
  | _ => match j with
    | .obj kvs => .obj (canonEntriesM s q skip sels kvs)
    | j => j

theorem canonLambdaM (s : Schema) (q : Query) (skip : Bool) (sub : List Sel) :
    (fun j =>
      match sub with
      | [.spread g] => canonSelV s skip (fragSels q g) j
      | _ => match j with
        | .obj kvs => .obj (canonEntriesM s q skip sub kvs)
        | j => j) = canonSelM s q skip sub := by
  funext j; unfold canonSelM; rfl

theorem canonSelM_not_lone {s : Schema} {q : Query} {skip : Bool} {sels : List Sel}
    (h : ∀ g, sels ≠ [Sel.spread g]) (j : Json) :
    canonSelM s q skip sels j = (match j with | .obj kvs => .obj (canonEntriesM s q skip sels kvs) | j => j) := by
  unfold canonSelM
  split
  · exact absurd rfl (h _)
  · rfl

theorem canonFieldM_nonobj {s : Schema} {q : Query} {skip : Bool} {a : Option String} {fid : Nat}
    {sub : List Sel} {sf : StoredField} (hsf : s.fields[fid]? = some sf) (hno : ∀ i, sf.ty.id ≠ .object i) (v : Json) :
    canonFieldM s q skip (.field a fid sub) v = canonFieldD s q skip (.field a fid sub) v := by
  rw [canonFieldM]
  simp only [hsf]

/-! ## Rust field names -/

mutual
  def rustOkSelM (c : Ctx) : Sel → Bool
    | .field a fid sub =>
      (match (c.s.fields[fid]?).map (fun sf => sf.ty.id) with
       | some (TypeId.object _) =>
         (match sub with
          | [.spread g] => rustOkFrag c g
          | _ => EnumSpec.nodup (rustNamesF c sub) && rustOkSelsM c sub)
       | _ => rustOkSelD c (.field a fid sub))
    | .spread g => rustOkFrag c g
    | _ => true
  def rustOkSelsM (c : Ctx) : List Sel → Bool
    | [] => true
    | x :: xs => rustOkSelM c x && rustOkSelsM c xs
end

theorem rust_fieldsOfM (c : Ctx) (pfx : String) (p : TypeId) : ∀ (sels : List Sel), mSels c.s c.q c.o p sels = true →
    (fieldsOfF c pfx sels).map (·.rust) = rustNamesF c sels
  | [], _ => rfl
  | x :: xs, ht => by
    obtain ⟨hx, hxs⟩ := mSels_cons ht
    have ih := rust_fieldsOfM c pfx p xs hxs
    rw [fieldsOfF_cons, List.map_append, ih]
    cases x with
    | field a fid sub =>
      obtain ⟨sf, ft, hsf, _, hf, _⟩ := fieldOfSelV_m c pfx p a fid sub hx
      rw [fieldOfSelF_field, hf]
      simp [rustNamesF, List.filterMap_cons, rustNameF, rustName, hsf, fieldOf]
    | spread g =>
      have hok : fragOk c.s c.q c.o p g = true := by simpa [mSel] using hx
      obtain ⟨fr, hfr, _⟩ := fragOk_parts hok
      simp [fieldOfSelF, hfr, spreadField, rustNamesF, List.filterMap_cons, rustNameF, fragName]
    | inline t sub => simp [mSel] at hx
    | typename => simp [fieldOfSelF, fieldOfSelV, rustNamesF, List.filterMap_cons, rustNameF, rustName]

theorem rustOkSelsM_mem {c : Ctx} : ∀ {sels : List Sel}, rustOkSelsM c sels = true →
    ∀ x ∈ sels, rustOkSelM c x = true
  | [], _, _, hx => by simp at hx
  | y :: ys, h, x, hx => by
    rw [rustOkSelsM, Bool.and_eq_true] at h
    rcases List.mem_cons.mp hx with rfl | hx'
    · exact h.1
    · exact rustOkSelsM_mem h.2 x hx'

theorem keysOksM_mem {s : Schema} {q : Query} : ∀ {sels : List Sel}, keysOksM s q sels = true →
    ∀ x ∈ sels, keysOkM s q x = true
  | [], _, _, hx => by simp at hx
  | y :: ys, h, x, hx => by
    rw [keysOksM, Bool.and_eq_true] at h
    rcases List.mem_cons.mp hx with rfl | hx'
    · exact h.1
    · exact keysOksM_mem h.2 x hx'

/-- the entries the struct writes are `canonEntriesM` -/
theorem flatMap_entriesM_canon (c : Ctx) (pfx : String) (p : TypeId) (fc : RField → Json → Json)
    (mc : RField → List (String × Json)) (kvs : List (String × Json)) : ∀ (sels : List Sel),
    mSels c.s c.q c.o p sels = true →
    (∀ a fid sub, Sel.field a fid sub ∈ sels → ∀ f, fieldOfSelV c pfx (.field a fid sub) = some f →
      ∀ v, fc f v = canonFieldM c.s c.q c.o.skipNone (.field a fid sub) v) →
    (∀ g fr, Sel.spread g ∈ sels → c.q.fragments[g]? = some fr →
      mc (spreadField c fr) = canonEntriesV c.s c.o.skipNone fr.sels kvs) →
    (fieldsOfF c pfx sels).flatMap (entriesF fc mc kvs) = canonEntriesM c.s c.q c.o.skipNone sels kvs
  | [], _, _, _ => by simp [fieldsOfF, canonEntriesM]
  | x :: xs, ht, hfc, hmc => by
    obtain ⟨hx, hxs⟩ := mSels_cons ht
    have ih := flatMap_entriesM_canon c pfx p fc mc kvs xs hxs
      (fun a fid sub hm => hfc a fid sub (List.mem_cons_of_mem _ hm))
      (fun g fr hm => hmc g fr (List.mem_cons_of_mem _ hm))
    rw [fieldsOfF_cons, List.flatMap_append, ih]
    cases x with
    | field a fid sub =>
      obtain ⟨sf, ft, hsf, _, hf, _⟩ := fieldOfSelV_m c pfx p a fid sub hx
      rw [fieldOfSelF_field, hf, canonEntriesM.eq_2]
      simp only [Option.toList, List.flatMap_cons, List.flatMap_nil, List.append_nil, entriesF, fieldOf,
        Bool.false_eq_true, ↓reduceIte]
      have := expectOut_cons fc (fieldOf c (a.getD sf.name) ft sf.ty.quals sf.deprecation) [] kvs
      simp only [fieldOf] at this
      rw [this]
      simp only [hsf, expectOut, List.filterMap_nil, List.append_nil]
      have hw := fieldOf_wire c (a.getD sf.name) ft sf.ty.quals sf.deprecation
      simp only [fieldOf] at hw
      simp only [hw, Bool.and_assoc]
      have hfc' := hfc a fid sub (by simp) _ hf
      simp only [fieldOf] at hfc'
      cases Json.lookup (a.getD sf.name) kvs with
      | none => rfl
      | some v => simp only [hfc' v]
    | spread g =>
      have hok : fragOk c.s c.q c.o p g = true := by simpa [mSel] using hx
      obtain ⟨fr, hfr, _⟩ := fragOk_parts hok
      have hsels : fragSels c.q g = fr.sels := by simp [fragSels, hfr]
      rw [canonEntriesM.eq_3, hsels]
      simp [fieldOfSelF, hfr, entriesF, spreadField, hmc g fr (by simp) hfr]
      rw [← hmc g fr (by simp) hfr]; rfl
    | inline t sub => simp [mSel] at hx
    | typename => simp [fieldOfSelF, fieldOfSelV, canonEntriesM]

/-- the canonical form of the value of the own field whose wire name is `f.wire` -/
def fcanonOfM (s : Schema) (q : Query) (skip : Bool) (sels : List Sel) (f : RField) (v : Json) : Json :=
  match sels.find? (fun x => fieldKey s x == some f.wire) with
  | some x => canonFieldM s q skip x v
  | none => v

theorem mem_fieldsOfV_m {c : Ctx} {pfx : String} {p : TypeId} {sels : List Sel} {f : RField}
    (hf : f ∈ fieldsOfV c pfx sels) (ht : mSels c.s c.q c.o p sels = true) :
    ∃ a fid sub sf ft, Sel.field a fid sub ∈ sels ∧ c.s.fields[fid]? = some sf ∧
      fieldOfSelV c pfx (.field a fid sub) = some f ∧
      f = fieldOf c (a.getD sf.name) ft sf.ty.quals sf.deprecation ∧ wfQuals sf.ty.quals = true := by
  obtain ⟨x, hx, hfx⟩ := List.mem_filterMap.mp hf
  cases x with
  | field a fid sub =>
    obtain ⟨sf, ft, hsf, _, hf', hw⟩ := fieldOfSelV_m c pfx p a fid sub (mSels_mem ht _ hx)
    rw [hf'] at hfx
    exact ⟨a, fid, sub, sf, ft, hx, hsf, by rw [hf', hfx], (Option.some.inj hfx).symm, hw⟩
  | spread g => cases hfx
  | inline t sub => cases hfx
  | typename => cases hfx

theorem mem_fieldsOfM_flatten {c : Ctx} {pfx : String} {p : TypeId} : ∀ {sels : List Sel} {g : RField},
    g ∈ fieldsOfF c pfx sels → mSels c.s c.q c.o p sels = true → g.flatten = true →
    ∃ gid fr, Sel.spread gid ∈ sels ∧ c.q.fragments[gid]? = some fr ∧ g = spreadField c fr
  | [], g, hg, _, _ => by simp [fieldsOfF] at hg
  | x :: xs, g, hg, ht, hfl => by
    obtain ⟨hx, hxs⟩ := mSels_cons ht
    rw [fieldsOfF_cons, List.mem_append] at hg
    rcases hg with hg | hg
    · cases x with
      | field a fid sub =>
        obtain ⟨sf, ft, _, _, hf, _⟩ := fieldOfSelV_m c pfx p a fid sub hx
        rw [fieldOfSelF_field, hf] at hg
        simp only [Option.toList, List.mem_singleton] at hg
        subst hg; simp [fieldOf] at hfl
      | spread gid =>
        have hok : fragOk c.s c.q c.o p gid = true := by simpa [mSel] using hx
        obtain ⟨fr, hfr, _⟩ := fragOk_parts hok
        simp only [fieldOfSelF, hfr, Option.map_some, Option.toList, List.mem_singleton] at hg
        exact ⟨gid, fr, by simp, hfr, hg⟩
      | inline t sub => simp [mSel] at hx
      | typename => simp [fieldOfSelF, fieldOfSelV] at hg
    · obtain ⟨gid, fr, h1, h2, h3⟩ := mem_fieldsOfM_flatten hg hxs hfl
      exact ⟨gid, fr, List.mem_cons_of_mem _ h1, h2, h3⟩

/-! ## round trip of the struct of an object-level selection set with spreads -/

section RTM
variable (e : Env) (c : Ctx)

def RTSelM (pfx : String) (x : Sel) : Prop :=
  ∀ p, mSel c.s c.q c.o p x = true → envSelM e c pfx x → keysOkM c.s c.q x = true → rustOkSelM c x = true →
    ∀ f, fieldOfSelV c pfx x = some f → ∀ b fd fs, 2 * depthF c.q x + 1 ≤ fd → 2 * depthF c.q x ≤ fs →
      ∀ v y, strictFieldV c.s (expandSel c.q x) v = true → deFieldWith (dePath e b fd) f v = .ok y →
        serTyWith (serPath e fs) f.ty y = .ok (canonFieldM c.s c.q c.o.skipNone x v)

/-- **round trip of the struct of an object-level selection set with spreads** -/
theorem rtStructM (pfx name : String) (i : Nat) (sels : List Sel) (H : ∀ x ∈ sels, RTSelM e c pfx x)
    (ht : mSels c.s c.q c.o (.object i) sels = true) (henv : envSelsM e c pfx sels)
    (hko : keysOksM c.s c.q sels = true) (hkeys : EnumSpec.nodup (expKeys c.s c.q sels) = true)
    (hro : rustOkSelsM c sels = true) (hrn : EnumSpec.nodup (rustNamesF c sels) = true)
    (hs : StructEnv e name (fieldsOfF c pfx sels)) (b : Bool) (fd fs : Nat)
    (hfd : 2 * depthsF c.q sels + 2 ≤ fd) (hfs : 2 * depthsF c.q sels + 2 ≤ fs) (kvs : List (String × Json))
    (hnd : (kvs.map (·.1)).Nodup) (hconf : confSelsV c.s i (expandSels c.q sels) kvs = true)
    (v : Val) (hd : dePath e b fd name (.obj kvs) = .ok v) :
    serPath e fs name v = .ok (.obj (canonEntriesM c.s c.q c.o.skipNone sels kvs)) := by
  obtain ⟨hp, _, n, d, cr, hfind⟩ := hs
  obtain ⟨fuel, rfl⟩ : ∃ k, fd = k + 2 := ⟨fd - 2, by omega⟩
  obtain ⟨fs', rfl⟩ : ∃ k, fs = k + 2 := ⟨fs - 2, by omega⟩
  have hcnt := countKey_le_one_of_nodup hnd
  obtain ⟨h1, _, h3, h4⟩ := flat_hypsM e c pfx (.object i) sels ht henv (nodup_iff'.mp hkeys)
  have hrust : ((fieldsOfF c pfx sels).map (·.rust)).Nodup := by
    rw [rust_fieldsOfM c pfx _ sels ht]; exact nodup_iff'.mp hrn
  rw [dePath_struct e b (fuel + 1) name n d cr _ hp hfind, deStruct_obj] at hd
  obtain ⟨vals, rfl, hownf, hmemf⟩ := deStruct_flat_finds e fuel _ _ kvs hcnt hrust (fun g hg hf => (h1 g hg hf).1) h3 h4 v hd
  have hfk : (fieldKeys c.s sels).Nodup := (fieldKeys_sublist_expKeys c.s c.q sels).nodup (nodup_iff'.mp hkeys)
  -- the members
  have hmemrt : ∀ gid fr, Sel.spread gid ∈ sels → c.q.fragments[gid]? = some fr →
      ∃ x, vals.find? (·.1 == (spreadField c fr).rust) = some ((spreadField c fr).rust, x) ∧
        serTyWith (serPath e (fs' + 1)) (spreadField c fr).ty x =
          .ok (.obj (canonEntriesV c.s c.o.skipNone fr.sels kvs)) := by
    intro gid fr hm hfr
    have hx := mSels_mem ht _ hm
    have hokg : fragOk c.s c.q c.o (.object i) gid = true := by simpa [mSel] using hx
    obtain ⟨fr', hfr', hon, _, hv, _⟩ := fragOk_parts hokg
    rw [hfr] at hfr'; cases hfr'
    have henvg : FragEnv e c gid := by have := envSelsM_mem henv _ hm; simpa [envSelM] using this
    have hrog : rustOkFrag c gid = true := by have := rustOkSelsM_mem hro _ hm; simpa [rustOkSelM] using this
    have hgmem : spreadField c fr ∈ fieldsOfF c pfx sels :=
      List.mem_filterMap.mpr ⟨_, hm, by simp [fieldOfSelF, hfr]⟩
    obtain ⟨own, hown, hfindg⟩ := hmemf _ hgmem rfl
    rw [(memberFields_spread e c gid fr hfr henvg).1] at hown
    refine ⟨_, hfindg, ?_⟩
    have hdep := depthsF_mem c.q hm
    rw [depthF] at hdep
    have hsels : fragSels c.q gid = fr.sels := by simp [fragSels, hfr]
    rw [hsels] at hdep
    have hconfg : confSelsV c.s i fr.sels kvs = true := by
      have := confSelsV_mem hconf _ (expandSels_mem c.q hm)
      simpa [expandSel, hfr, confSelV, hon, fragApplies] using this
    exact rtMemberF e c i gid fr hfr hokg henvg hrog fuel fs' (by omega) (by omega) kvs hnd hconfg own hown
  -- the entries a member writes, as a function of the member
  let mc : RField → List (String × Json) := fun g =>
    match vals.find? (·.1 == g.rust) with
    | some (_, x) => (match serTyWith (serPath e (fs' + 1)) g.ty x with | .ok (.obj o) => o | _ => [])
    | none => []
  have hmc : ∀ gid fr, Sel.spread gid ∈ sels → c.q.fragments[gid]? = some fr →
      mc (spreadField c fr) = canonEntriesV c.s c.o.skipNone fr.sels kvs := by
    intro gid fr hm hfr
    obtain ⟨x, hf, hser⟩ := hmemrt gid fr hm hfr
    simp only [mc, hf, hser]
  rw [serPath_struct e (fs' + 1) name n d cr _ hfind,
    ser_flat (dePath e b (fuel + 1)) (serPath e (fs' + 1)) (fcanonOfM c.s c.q c.o.skipNone sels) mc kvs vals
      (fieldsOfF c pfx sels) hownf ?_ ?_ ?_ ?_]
  · rw [flatMap_entriesM_canon c pfx (.object i) _ mc kvs sels ht ?_ hmc]
    · rfl
    · intro a fid sub hx f hfx v
      obtain ⟨sf, ft, hsf, _, hf', _⟩ := fieldOfSelV_m c pfx _ a fid sub (mSels_mem ht _ hx)
      rw [hf'] at hfx
      cases hfx
      unfold fcanonOfM
      rw [fieldOf_wire, find_fieldKey c.s _ sels hfk _ hx (by simp [fieldKey, hsf])]
  · intro f hf hfl j x hl hdx
    have hfV : f ∈ fieldsOfV c pfx sels := by
      rw [← own_fieldsOfM c pfx _ sels ht]; exact List.mem_filter.mpr ⟨hf, by simp [hfl]⟩
    obtain ⟨a, fid, sub, sf, ft, hx, hsf, hfx, rfl, _⟩ := mem_fieldsOfV_m hfV ht
    rw [fieldOf_wire] at hl
    have hst : strictFieldV c.s (expandSel c.q (.field a fid sub)) j = true := by
      have := confSelsV_mem hconf _ (expandSels_mem c.q hx)
      rw [expandSel, confSelV_field] at this
      rw [expandSel]
      simpa [hsf, hl] using this
    have hfc : fcanonOfM c.s c.q c.o.skipNone sels (fieldOf c (a.getD sf.name) ft sf.ty.quals sf.deprecation) j =
        canonFieldM c.s c.q c.o.skipNone (.field a fid sub) j := by
      unfold fcanonOfM
      rw [fieldOf_wire, find_fieldKey c.s _ sels hfk _ hx (by simp [fieldKey, hsf])]
    rw [hfc]
    have hdep := depthsF_mem c.q hx
    exact H _ hx _ (mSels_mem ht _ hx) (envSelsM_mem henv _ hx) (keysOksM_mem hko _ hx) (rustOkSelsM_mem hro _ hx) _ hfx
      b (fuel + 1) (fs' + 1) (by omega) (by omega) j x hst hdx
  · intro f hf hfl hskip j x _ hdx
    have hfV : f ∈ fieldsOfV c pfx sels := by
      rw [← own_fieldsOfM c pfx _ sels ht]; exact List.mem_filter.mpr ⟨hf, by simp [hfl]⟩
    obtain ⟨a, fid, sub, sf, ft, _, _, _, rfl, _⟩ := mem_fieldsOfV_m hfV ht
    refine field_unit_iff _ _ (.inr ?_) j x hdx
    rw [fieldOf_skipNone, Bool.and_eq_true] at hskip
    exact (isOption_rustOf ft sf.ty.quals).trans (skipQ_nullable hskip.2)
  · intro f hf hfl hdef
    have hfV : f ∈ fieldsOfV c pfx sels := by
      rw [← own_fieldsOfM c pfx _ sels ht]; exact List.mem_filter.mpr ⟨hf, by simp [hfl]⟩
    obtain ⟨a, fid, sub, sf, ft, _, _, _, rfl, _⟩ := mem_fieldsOfV_m hfV ht
    have : (decide (ft = "ID") && nullableQ sf.ty.quals) = true := hdef
    rw [Bool.and_eq_true] at this
    exact (isOption_rustOf ft sf.ty.quals).trans this.2
  · intro g hg hfl
    obtain ⟨gid, fr, hm, hfr, rfl⟩ := mem_fieldsOfM_flatten hg ht hfl
    obtain ⟨x, hf, hser⟩ := hmemrt gid fr hm hfr
    exact ⟨x, hf, by rw [hser, hmc gid fr hm hfr]⟩

end RTM

section RTM2
variable (e : Env) (c : Ctx)

/-- round trip of the type emitted for an object-level selection set, from the round trips of its fields -/
theorem rtBodyM (pfx name : String) (i : Nat) (sels : List Sel) (H : ∀ x ∈ sels, RTSelM e c pfx x)
    (ht : mBody c.s c.q c.o (.object i) sels = true) (henv : BodyEnvM e c name pfx sels)
    (hko : keysOksM c.s c.q sels = true) (hkeys : EnumSpec.nodup (expKeys c.s c.q sels) = true)
    (hro : rustOkSelsM c sels = true) (hrn : EnumSpec.nodup (rustNamesF c sels) = true) (b : Bool) (fd fs : Nat)
    (hfd : 2 * depthsF c.q sels + 2 ≤ fd) (hfs : 2 * depthsF c.q sels + 2 ≤ fs) (j : Json) (v : Val)
    (hc : conformsV c.s i (expandSels c.q sels) j = true) (hd : dePath e b fd name j = .ok v) :
    serPath e fs name v = .ok (canonSelM c.s c.q c.o.skipNone sels j) := by
  by_cases hsp : ∃ g, sels = [Sel.spread g]
  · obtain ⟨g, rfl⟩ := hsp
    unfold BodyEnvM at henv
    simp only at henv
    have hdep : depthsF c.q [Sel.spread g] = selsDepth (fragSels c.q g) + 1 := by simp [depthsF, depthF]
    rw [hdep] at hfd hfs
    have hrog : rustOkFrag c g = true := by simpa [rustOkSelsM, rustOkSelM] using hro
    exact rtAliasF e c name i g ht henv.1 henv.2 hrog b fd fs (by omega) (by omega) j v hc hd
  · have hnl : ∀ g, sels ≠ [Sel.spread g] := fun g hg => hsp ⟨g, hg⟩
    have henv' := bodyEnvM_not_lone hnl henv
    rw [mBody_not_lone hnl] at ht
    rw [canonSelM_not_lone hnl]
    cases j with
    | obj kvs =>
      simp only [conformsV, Bool.and_eq_true] at hc
      exact rtStructM e c pfx name i sels H ht henv'.2 hko hkeys hro hrn henv'.1 b fd fs hfd hfs kvs
        (nodup_iff'.mp hc.1.1) hc.2 v hd
    | null => simp [conformsV] at hc
    | bool _ => simp [conformsV] at hc
    | int _ => simp [conformsV] at hc
    | num _ => simp [conformsV] at hc
    | str _ => simp [conformsV] at hc
    | arr _ => simp [conformsV] at hc

theorem rustOkSelM_obj {c : Ctx} {a : Option String} {fid : Nat} {sub : List Sel} {sf : StoredField} {i : Nat}
    (hsf : c.s.fields[fid]? = some sf) (hid : sf.ty.id = .object i) (h : rustOkSelM c (.field a fid sub) = true) :
    rustOkSelsM c sub = true ∧ EnumSpec.nodup (rustNamesF c sub) = true := by
  unfold rustOkSelM at h
  simp only [hsf, hid, Option.map_some] at h
  by_cases hsp : ∃ g, sub = [Sel.spread g]
  · obtain ⟨g, rfl⟩ := hsp
    have hro' : rustOkFrag c g = true := h
    exact ⟨by simpa [rustOkSelsM, rustOkSelM] using hro', by simp [rustNamesF, rustNameF, EnumSpec.nodup]⟩
  · have hnl : ∀ g, sub ≠ [Sel.spread g] := fun g hg => hsp ⟨g, hg⟩
    have : (EnumSpec.nodup (rustNamesF c sub) && rustOkSelsM c sub) = true := by
      revert h
      split
      · exact fun _ => absurd rfl (hnl _)
      · exact id
    rw [Bool.and_eq_true] at this
    exact ⟨this.2, this.1⟩

theorem rustOkSelM_nonobj {c : Ctx} {a : Option String} {fid : Nat} {sub : List Sel} {sf : StoredField}
    (hsf : c.s.fields[fid]? = some sf) (hno : ∀ i, sf.ty.id ≠ .object i) (h : rustOkSelM c (.field a fid sub) = true) :
    rustOkSelD c (.field a fid sub) = true := by
  unfold rustOkSelM at h
  simp only [hsf, Option.map_some] at h
  cases hid : sf.ty.id with
  | object i => exact absurd hid (hno i)
  | scalar k => simpa only [hid] using h
  | «enum» k => simpa only [hid] using h
  | interface k => simpa only [hid] using h
  | union k => simpa only [hid] using h
  | input k => simpa only [hid] using h

mutual
  theorem rtSelM : ∀ (x : Sel) (pfx : String), RTSelM e c pfx x
    | .field a fid sub, pfx => by
      intro p ht henv hko hro f hf b fd fs hfd hfs v y hst hd
      have IH := rtSelsM sub
      obtain ⟨sf, ft, hsf, _, hf', hw⟩ := fieldOfSelV_m c pfx p a fid sub ht
      by_cases hobj : ∃ i, sf.ty.id = .object i
      · obtain ⟨i, hid⟩ := hobj
        rw [depthF] at hfd hfs
        have hwf : wf (gtyOf sf.ty.quals) = true := by rw [wf_gtyOf]; exact hw
        obtain ⟨_, _, _, hbody⟩ := mSel_obj hsf hid ht
        have henvB := envSelM_obj hsf hid henv
        have hko := keysOkM_obj hsf hid hko
        have hroB := rustOkSelM_obj hsf hid hro
        simp only [expandSel, strictFieldV] at hst
        rw [canonFieldM]
        simp only [hsf, hid] at hst ⊢
        simp only [fieldOfSelV, hsf, leafNameV, hid, Option.some.injEq] at hf
        subst hf
        rw [canonLambdaM]
        have hID : pfx ++ c.cs.camel (a.getD sf.name) ≠ "ID" := by
          unfold BodyEnvM at henvB
          split at henvB
          · exact henvB.1.2.1
          · exact henvB.1.2.1
        rw [deField_plain _ _ _ _ hID] at hd
        refine (leaf_roundtrip_on (dePath e b fd) (serPath e fs) _
          (conformsAt c.s (.object i) (expandSels c.q sub)) (canonSelM c.s c.q c.o.skipNone sub) ?_ _ hwf).2 v y hst hd
        intro j w hc hdw
        simp only [conformsAt, List.any_eq_true, List.mem_range, Bool.and_eq_true, fragApplies, beq_iff_eq] at hc
        obtain ⟨rt, _, hrt, hcv⟩ := hc
        subst hrt
        exact rtBodyM e c _ _ i sub (IH _) hbody henvB hko.2 hko.1 hroB.1 hroB.2 b fd fs (by omega) (by omega) j w hcv hdw
      · have hno : ∀ i, sf.ty.id ≠ .object i := fun i h => hobj ⟨i, h⟩
        rw [canonFieldM_nonobj hsf hno]
        exact rtSelD e c _ pfx false (mSel_nonobj hsf hno ht) (envSelM_nonobj hsf hno henv)
          (rustOkSelM_nonobj hsf hno hro) f hf b fd fs hfd hfs v y hst hd
    | .spread g, pfx => by intro _ _ _ _ _ f hf; cases hf
    | .inline t sub, pfx => by intro _ _ _ _ _ f hf; cases hf
    | .typename, pfx => by intro _ _ _ _ _ f hf; cases hf
  theorem rtSelsM : ∀ (sels : List Sel) (pfx : String), ∀ x ∈ sels, RTSelM e c pfx x
    | [], _, x, hx => by simp at hx
    | y :: ys, pfx, x, hx => by
      rcases List.mem_cons.mp hx with h | hx'
      · rw [h]; exact rtSelM y pfx
      · exact rtSelsM ys pfx x hx'
end

/-- **round trip of the type emitted for an object-level selection set of `MixedOp`** -/
theorem bodyM_lossless (pfx name : String) (i : Nat) (sels : List Sel)
    (ht : mBody c.s c.q c.o (.object i) sels = true) (henv : BodyEnvM e c name pfx sels)
    (hko : keysOksM c.s c.q sels = true) (hkeys : EnumSpec.nodup (expKeys c.s c.q sels) = true)
    (hro : rustOkSelsM c sels = true) (hrn : EnumSpec.nodup (rustNamesF c sels) = true) (b : Bool) (fd fs : Nat)
    (hfd : 2 * depthsF c.q sels + 2 ≤ fd) (hfs : 2 * depthsF c.q sels + 2 ≤ fs) (j : Json) (v : Val)
    (hc : conformsV c.s i (expandSels c.q sels) j = true) (hd : dePath e b fd name j = .ok v) :
    serPath e fs name v = .ok (canonSelM c.s c.q c.o.skipNone sels j) :=
  rtBodyM e c pfx name i sels (rtSelsM e c sels pfx) ht henv hko hkeys hro hrn b fd fs hfd hfs j v hc hd

end RTM2

/-! ## top level -/

/-- Rust field names pairwise distinct in every struct (decidable) -/
def mixedRustOk (c : Ctx) (op : ROperation) : Bool :=
  rustOkSelsM c op.sels && EnumSpec.nodup (rustNamesF c op.sels)

/-- **losslessness at the top level** (generic environment) -/
theorem top_losslessM (e : Env) (c : Ctx) (op : ROperation) (ht : MixedOp c op = true)
    (hk : mixedKeysOk c op = true) (hr : mixedRustOk c op = true) (he : TopEnvM e c op)
    (j : Json) (v : Val) (hc : conformsOpM c op j = true) (hd : Serde.de e (.path "ResponseData") j = .ok v) :
    Serde.ser e (.path "ResponseData") v = .ok (normJson (canonSelM c.s c.q c.o.skipNone op.sels j)) := by
  obtain ⟨_, _, hsels⟩ := mixedOp_parts ht
  simp only [mixedKeysOk, Bool.and_eq_true] at hk
  simp only [mixedRustOk, Bool.and_eq_true] at hr
  rw [de_top] at hd
  have h1 := he.size
  have hser := bodyM_lossless e c _ "ResponseData" op.objectId op.sels hsels he.root hk.1 hk.2 hr.1 hr.2 false _
    ((valSize v + 2) * (e.items.length + e.externs.length + 2)) (deFuel_depthS e c op he.size j)
    (by
      have h2 : 2 * (e.items.length + e.externs.length + 2) ≤
          (valSize v + 2) * (e.items.length + e.externs.length + 2) := Nat.mul_le_mul_right _ (by omega)
      omega)
    j v hc hd
  unfold Serde.ser serTy
  rw [show serTyWith (serPath e ((valSize v + 2) * (e.items.length + e.externs.length + 2))) (.path "ResponseData") v =
    serPath e ((valSize v + 2) * (e.items.length + e.externs.length + 2)) "ResponseData" v from rfl, hser]
  rfl

/-- **`mixed_lossless`.**  A conforming response that was read is written back as `normJson (canonSelM … j)`:
    `canonSelM` is what the serializer writes — at object positions the entries of a spread fragment at the position of the
    spread (`canonSelF`), at abstract positions as `canonSelD` of `VariantSpreadOp` —, `normJson` is
    `serde_json::to_value`'s "a repeated key keeps its first position and its last value". -/
theorem mixed_lossless (c : Ctx) (opIdx : Nat) (op : ROperation) (items : List Item)
    (hop : c.q.operations[opIdx]? = some op) (ht : MixedOp c op = true) (hk : mixedKeysOk c op = true)
    (hr : mixedRustOk c op = true)
    (hgen : responseForQuery c opIdx = .ok items) (hok : moduleOk c items = true)
    (j : Json) (hc : conformsOpM c op j = true) (v : Val)
    (hd : Serde.de (moduleEnv c items) (.path "ResponseData") j = .ok v) :
    Serde.ser (moduleEnv c items) (.path "ResponseData") v =
      .ok (normJson (canonSelM c.s c.q c.o.skipNone op.sels j)) :=
  top_losslessM (moduleEnv c items) c op ht hk hr (topEnvM_of_module hop ht hgen hok) j v hc hd

/-- **`mixed_roundtrip`**: both in one statement -/
theorem mixed_roundtrip (c : Ctx) (opIdx : Nat) (op : ROperation) (items : List Item)
    (hop : c.q.operations[opIdx]? = some op) (ht : MixedOp c op = true) (hk : mixedKeysOk c op = true)
    (hr : mixedRustOk c op = true)
    (hgen : responseForQuery c opIdx = .ok items) (hok : moduleOk c items = true)
    (j : Json) (hc : conformsOpM c op j = true) :
    Serde.roundtrip (moduleEnv c items) (.path "ResponseData") j =
      .ok (normJson (canonSelM c.s c.q c.o.skipNone op.sels j)) := by
  obtain ⟨v, hv⟩ := mixed_accepts c opIdx op items hop ht hk hgen hok j hc
  unfold Serde.roundtrip
  rw [hv]
  exact mixed_lossless c opIdx op items hop ht hk hr hgen hok j hc v hv

end C01M
end GqlVerif
