import GqlVerif.Proofs.C14GeneratedAcyclic
import GqlVerif.Proofs.C01AbstractF
/-!
# P26 (3/4, part 4) — the generator link with flattened fragment structs (`FragOpD`), part A: class, closed form

`TreeOpD` has no flatten member, so `KeyFree` there is "not an own wire name".  Here the class **`FragOpD`**: `TreeOpD`
plus **named fragment spreads on the parent type itself** in object-level selection sets (the root selection set and the
sub-selections of object-typed fields).  Fragment bodies are selection sets of `TreeOpD` (spread-free, hence
non-recursive; deprecated fields allowed).  The generator emits

* one struct per spread fragment (`fragmentItems`: the `TreeOpD` closed form `structItemsD` of its body),
* a `#[serde(flatten)]` member per spread (`spreadField`), and a **type alias** where a selection set is a lone spread;

so `KeyFree` at a struct now quantifies over the fragment structs reached through its flattened members.

* `fragOkD`, `fSelD` / `fSelsD`, `fBodyD`, **`FragOpD`** (decidable); `fragOpD_of_treeOpD`;
* `fieldOfSelFD` / `fieldsOfFD` / `itemsFD` / `bodyItemsFD` — closed form;
* **`frag_items_shapeD`** : `responseItems c op = .ok (bodyItemsFD …)`;
  **`frag_struct_shapeD`** : `fragmentItems c g = .ok (structItemsD c f.name (camel f.name) f.sels)` for a spread fragment.
-/
set_option linter.unusedSimpArgs false
set_option linter.unusedSectionVars false
set_option linter.unusedVariables false

namespace GqlVerif
namespace C14G
open Serde Composed SerdeFuel Codegen C13 C01 C01.E2E

/-! ## the class -/

/-- a fragment that may be spread into a selection set on `parent`: it exists, is on `parent` itself, is not named `ID`,
    and its body is a selection set of `TreeOpD` with pairwise distinct kept keys -/
def fragOkD (c : Ctx) (parent : TypeId) (g : Nat) : Bool :=
  match c.q.fragments[g]? with
  | some f => f.on == parent && f.name != "ID" && treeSelsD c f.sels && EnumSpec.nodup (keptKeys c f.sels)
  | none => false

mutual
  /-- one selection of an object-level selection set on `parent` -/
  def fSelD (c : Ctx) (parent : TypeId) : Sel → Bool
    | .field _ fid sub =>
      match c.s.fields[fid]? with
      | none => false
      | some sf =>
        wfQuals sf.ty.quals &&
        (match sf.ty.id with
         | .scalar k => (c.s.scalars[k]?).isSome && sub.isEmpty
         | .enum k => (c.s.enums[k]?).isSome && sub.isEmpty
         | .object i => (c.s.objects[i]?).isSome &&
            (match sub with
             | [.spread g] => fragOkD c (.object i) g
             | _ => fSelsD c (.object i) sub && EnumSpec.nodup (keptKeys c sub))
         | _ => false)
    | .typename => true
    | .spread g => fragOkD c parent g
    | .inline _ _ => false
  def fSelsD (c : Ctx) (parent : TypeId) : List Sel → Bool
    | [] => true
    | x :: xs => fSelD c parent x && fSelsD c parent xs
end

/-- the body of an object-level selection set: a lone spread (type alias) or a selection set of the class with pairwise
    distinct kept keys -/
def fBodyD (c : Ctx) (parent : TypeId) (sels : List Sel) : Bool :=
  match sels with
  | [.spread g] => fragOkD c parent g
  | _ => fSelsD c parent sels && EnumSpec.nodup (keptKeys c sels)

/-- **the class `FragOpD`** (decidable) -/
def FragOpD (c : Ctx) (op : ROperation) : Bool :=
  c.o.normalization == .none && (c.s.objects[op.objectId]?).isSome && fBodyD c (.object op.objectId) op.sels

theorem fragOkD_parts {c : Ctx} {parent : TypeId} {g : Nat} (h : fragOkD c parent g = true) :
    ∃ f, c.q.fragments[g]? = some f ∧ f.on = parent ∧ f.name ≠ "ID" ∧ treeSelsD c f.sels = true ∧
      EnumSpec.nodup (keptKeys c f.sels) = true := by
  unfold fragOkD at h
  cases hf : c.q.fragments[g]? with
  | none => simp [hf] at h
  | some f =>
    simp only [hf, Bool.and_eq_true, beq_iff_eq, bne_iff_ne] at h
    exact ⟨f, rfl, h.1.1.1, h.1.1.2, h.1.2, h.2⟩

theorem fSelsD_cons {c : Ctx} {p : TypeId} {x : Sel} {xs : List Sel} (h : fSelsD c p (x :: xs) = true) :
    fSelD c p x = true ∧ fSelsD c p xs = true := by
  simpa [fSelsD] using h

theorem fSelD_of_mem {c : Ctx} {p : TypeId} {x : Sel} : ∀ {xs : List Sel}, fSelsD c p xs = true → x ∈ xs → fSelD c p x = true
  | [], _, h => by simp at h
  | y :: ys, ht, h => by
    obtain ⟨hy, hys⟩ := fSelsD_cons ht
    rcases List.mem_cons.mp h with rfl | h
    · exact hy
    · exact fSelD_of_mem hys h

theorem fBodyD_not_lone {c : Ctx} {p : TypeId} {sels : List Sel} (h : ∀ g, sels ≠ [Sel.spread g]) :
    fBodyD c p sels = (fSelsD c p sels && EnumSpec.nodup (keptKeys c sels)) := by
  unfold fBodyD
  split
  · rename_i g; exact absurd rfl (h g)
  · rfl

/-- an object-typed field of the class: its sub-selection is a body of the class -/
theorem fSelD_object {c : Ctx} {p : TypeId} {a : Option String} {fid : Nat} {sub : List Sel} {sf : StoredField} {i : Nat}
    (hsf : c.s.fields[fid]? = some sf) (hid : sf.ty.id = .object i) (h : fSelD c p (.field a fid sub) = true) :
    wfQuals sf.ty.quals = true ∧ fBodyD c (.object i) sub = true := by
  rw [fSelD] at h
  simp only [hsf, hid, Bool.and_eq_true] at h
  refine ⟨h.1, ?_⟩
  unfold fBodyD
  split <;> simp_all

theorem fragOpD_parts {c : Ctx} {op : ROperation} (h : FragOpD c op = true) :
    c.o.normalization = .none ∧ fBodyD c (.object op.objectId) op.sels = true := by
  simp only [FragOpD, Bool.and_eq_true, beq_iff_eq] at h
  exact ⟨h.1.1, h.2⟩

/-! ### the class contains `TreeOpD` -/

mutual
  theorem fSelD_of_treeSelD (c : Ctx) : ∀ (x : Sel) (p : TypeId), treeSelD c x = true → fSelD c p x = true
    | .field a fid sub, p => by
      intro h
      have IH := fSelsD_of_treeSelsD c sub
      rw [treeSelD] at h
      rw [fSelD]
      cases hsf : c.s.fields[fid]? with
      | none => simp [hsf] at h
      | some sf =>
        simp only [hsf, Bool.and_eq_true] at h ⊢
        refine ⟨h.1, ?_⟩
        have hty := h.2
        cases hid : sf.ty.id with
        | scalar k => simpa [hid] using hty
        | enum k => simpa [hid] using hty
        | object i =>
          simp only [hid, Bool.and_eq_true] at hty ⊢
          refine ⟨hty.1.1, ?_⟩
          split
          · rename_i g
            have := hty.1.2
            simp [treeSelsD, treeSelD] at this
          · simp only [Bool.and_eq_true]
            exact ⟨IH (.object i) hty.1.2, hty.2⟩
        | interface k => simp [hid] at hty
        | union k => simp [hid] at hty
        | input k => simp [hid] at hty
    | .spread _, _ => by intro h; simp [treeSelD] at h
    | .inline _ _, _ => by intro h; simp [treeSelD] at h
    | .typename, _ => by intro _; simp [fSelD]
  theorem fSelsD_of_treeSelsD (c : Ctx) : ∀ (xs : List Sel) (p : TypeId), treeSelsD c xs = true → fSelsD c p xs = true
    | [], _ => by intro _; simp [fSelsD]
    | x :: xs, p => by
      intro h
      obtain ⟨hx, hxs⟩ := treeSelsD_cons h
      rw [fSelsD, fSelD_of_treeSelD c x p hx, fSelsD_of_treeSelsD c xs p hxs]
      rfl
end

theorem fragOpD_of_treeOpD {c : Ctx} {op : ROperation} (h : TreeOpD c op = true) : FragOpD c op = true := by
  simp only [TreeOpD, Bool.and_eq_true, beq_iff_eq] at h
  simp only [FragOpD, Bool.and_eq_true, beq_iff_eq]
  refine ⟨⟨h.1.1.1, h.1.1.2⟩, ?_⟩
  rw [fBodyD_not_lone (fun g hg => by rw [hg] at h; simp [treeSelsD, treeSelD] at h)]
  simp only [Bool.and_eq_true]
  exact ⟨fSelsD_of_treeSelsD c _ _ h.1.2, h.2⟩

/-! ## closed form -/

def fieldOfSelFD (c : Ctx) (pfx : String) : Sel → Option RField
  | .spread g => (c.q.fragments[g]?).map (spreadField c)
  | x => fieldOfSelD c pfx x

def fieldsOfFD (c : Ctx) (pfx : String) (sels : List Sel) : List RField := sels.filterMap (fieldOfSelFD c pfx)

mutual
  def itemsFD (c : Ctx) (pfx : String) : Sel → List Item
    | .field a fid sub =>
      match c.s.fields[fid]? with
      | none => []
      | some sf =>
        match sf.ty.id with
        | .object _ =>
          (match sub with
           | [.spread g] => [aliasItem (pfx ++ c.cs.camel (a.getD sf.name)) (fragName c g) false]
           | _ => .struct (pfx ++ c.cs.camel (a.getD sf.name)) c.respDerives c.serdeCrate
                    (fieldsOfFD c (pfx ++ c.cs.camel (a.getD sf.name)) sub) ::
                  itemsFsD c (pfx ++ c.cs.camel (a.getD sf.name)) sub)
        | _ => []
    | _ => []
  def itemsFsD (c : Ctx) (pfx : String) : List Sel → List Item
    | [] => []
    | x :: xs => itemsFD c pfx x ++ itemsFsD c pfx xs
end

/-- **closed form** of the items of an object-level selection set: a type alias for a lone spread; otherwise the struct
    (kept own fields and one flattened member per spread, in selection order) and the nested items -/
def bodyItemsFD (c : Ctx) (name pfx : String) (sels : List Sel) : List Item :=
  match sels with
  | [.spread g] => [aliasItem name (fragName c g) false]
  | _ => .struct name c.respDerives c.serdeCrate (fieldsOfFD c pfx sels) :: itemsFsD c pfx sels

theorem bodyItemsFD_not_lone (c : Ctx) (name pfx : String) {sels : List Sel} (h : ∀ g, sels ≠ [Sel.spread g]) :
    bodyItemsFD c name pfx sels =
      .struct name c.respDerives c.serdeCrate (fieldsOfFD c pfx sels) :: itemsFsD c pfx sels := by
  unfold bodyItemsFD
  split
  · rename_i g; exact absurd rfl (h g)
  · rfl

theorem fieldsOfFD_cons (c : Ctx) (pfx : String) (x : Sel) (xs : List Sel) :
    fieldsOfFD c pfx (x :: xs) = (fieldOfSelFD c pfx x).toList ++ fieldsOfFD c pfx xs := by
  unfold fieldsOfFD
  rw [List.filterMap_cons]
  cases fieldOfSelFD c pfx x <;> rfl

theorem itemsFD_object {c : Ctx} {pfx : String} {a : Option String} {fid : Nat} {sub : List Sel} {sf : StoredField} {i : Nat}
    (hsf : c.s.fields[fid]? = some sf) (hid : sf.ty.id = .object i) :
    itemsFD c pfx (.field a fid sub) =
      bodyItemsFD c (pfx ++ c.cs.camel (a.getD sf.name)) (pfx ++ c.cs.camel (a.getD sf.name)) sub := by
  rw [itemsFD]; simp only [hsf, hid]; rfl

/-! ## the fragments of the class are not recursive -/

mutual
  theorem noSpread_of_treeSelD (c : Ctx) : ∀ x : Sel, treeSelD c x = true → noSpread x = true
    | .field a fid sub => by
      intro h
      have hs := spreadFree_of_tree c _ h
      rw [spreadFree] at hs
      rw [noSpread]
      exact noSpreads_of_spreadFrees sub hs
    | .spread _ => by intro h; simp [treeSelD] at h
    | .inline _ _ => by intro h; simp [treeSelD] at h
    | .typename => by intro _; rfl
  theorem noSpreads_of_spreadFrees : ∀ xs : List Sel, spreadFrees xs = true → noSpreads xs = true
    | [] => by intro _; rfl
    | x :: xs => by
      intro h
      rw [spreadFrees, Bool.and_eq_true] at h
      rw [noSpreads, noSpreads_of_spreadFrees xs h.2, Bool.and_true]
      cases x with
      | field a fid sub =>
        rw [noSpread]
        have := h.1
        rw [spreadFree] at this
        exact noSpreads_of_spreadFrees sub this
      | typename => rfl
      | spread g => simp [spreadFree] at h
      | inline t sub => simp [spreadFree] at h
end

theorem not_recursive_of_fragOkD {c : Ctx} {parent : TypeId} {g : Nat} (h : fragOkD c parent g = true) :
    fragmentIsRecursive c.q g = false := by
  obtain ⟨f, hf, _, _, hv, _⟩ := fragOkD_parts h
  unfold fragmentIsRecursive
  rw [hf]
  simp only [reaches_noSpreads c.q g _ [] f.sels (noSpreads_of_spreadFrees _ (spreadFrees_of_tree c _ hv))]

/-! ## Theorem 1 for `FragOpD` -/

section CalcF
variable (c : Ctx) (hn : c.o.normalization = .none)

def S1F (fuel : Nat) : Prop := ∀ name pfx i sels, fBodyD c (.object i) sels = true → 2 * selsSize sels + 2 ≤ fuel →
  calcSelection c fuel name pfx (.object i) sels = .ok (bodyItemsFD c name pfx sels)
def S4F (fuel : Nat) : Prop := ∀ pfx i sels, fSelsD c (.object i) sels = true → 2 * selsSize sels + 1 ≤ fuel →
  calcFields c fuel pfx (.object i) sels = .ok (fieldsOfFD c pfx sels, itemsFsD c pfx sels)

theorem stepS1F (f : Nat) (H4 : S4F c f) : S1F c (f + 1) := by
  intro name pfx i sels ht hf
  by_cases hsp : ∃ g, sels = [Sel.spread g]
  · obtain ⟨g, rfl⟩ := hsp
    rw [calcSelection.eq_2]
    have hok : fragOkD c (.object i) g = true := ht
    obtain ⟨fr, hfr, _, _, _, _⟩ := fragOkD_parts hok
    simp only [getFragment_of hfr, bind, Except.bind, pure, Except.pure, not_recursive_of_fragOkD hok]
    simp [bodyItemsFD, fragName, hfr]
  · have hsp' : ∀ g, sels ≠ [Sel.spread g] := fun g hg => hsp ⟨g, hg⟩
    rw [calcSelection.eq_3 _ _ _ _ _ _ (fun g hg => hsp ⟨g, hg⟩)]
    rw [fBodyD_not_lone hsp', Bool.and_eq_true] at ht
    have hv : variantsOf c.s (.object i) = .ok none := rfl
    simp only [hv, bind, Except.bind, pure, Except.pure]
    rw [H4 pfx i sels ht.1 (by omega), bodyItemsFD_not_lone c name pfx hsp']
    simp [renderType]

include hn in
theorem stepS4F (f : Nat) (H1 : S1F c f) (H4 : S4F c f) : S4F c (f + 1) := by
  intro pfx i sels ht hf
  cases sels with
  | nil => rw [calcFields.eq_2 _ _ _ _ (by omega)]; rfl
  | cons x rest =>
    obtain ⟨hx, hrest⟩ := fSelsD_cons ht
    rw [selsSize.eq_2] at hf
    have hR := H4 pfx i rest hrest (by have := C02.selSize_pos x; omega)
    rw [fieldsOfFD_cons, itemsFsD]
    cases x with
    | field a fid sub =>
      rw [selSize.eq_1] at hf
      rw [calcFields.eq_3]
      have hx' := hx
      rw [fSelD] at hx'
      cases hsf : c.s.fields[fid]? with
      | none => simp [hsf] at hx'
      | some sf =>
        simp only [hsf, Bool.and_eq_true] at hx'
        obtain ⟨hw, hty⟩ := hx'
        simp only [getField_of hsf, bind, Except.bind]
        cases hid : sf.ty.id with
        | scalar k =>
          simp only [hid, Bool.and_eq_true] at hty
          cases hk : c.s.scalars[k]? with
          | none => simp [hk] at hty
          | some sn =>
            simp only [getScalar_of hk, hn, C02.fieldType_none, renderField_D c sf _ _ hw, hR, pure, Except.pure]
            by_cases hd : isDenied c sf = true <;>
              simp [itemsFD, fieldOfSelFD, fieldOfSelD, hsf, hid, leafName, hk, hd]
        | enum k =>
          simp only [hid, Bool.and_eq_true] at hty
          cases hk : c.s.enums[k]? with
          | none => simp [hk] at hty
          | some en =>
            simp only [getEnum_of hk, hn, C02.fieldType_none, renderField_D c sf _ _ hw, hR, pure, Except.pure]
            by_cases hd : isDenied c sf = true <;>
              simp [itemsFD, fieldOfSelFD, fieldOfSelD, hsf, hid, leafName, hk, hd]
        | object j =>
          have hbody := (fSelD_object hsf hid hx).2
          have hS := H1 (pfx ++ c.cs.camel (a.getD sf.name)) (pfx ++ c.cs.camel (a.getD sf.name)) j sub hbody (by omega)
          simp only [renderField_D c sf _ _ hw, hS, hR, pure, Except.pure]
          rw [itemsFD_object hsf hid]
          by_cases hd : isDenied c sf = true <;>
            simp [fieldOfSelFD, fieldOfSelD, hsf, hid, leafName, hd]
        | interface k => simp [hid] at hty
        | union k => simp [hid] at hty
        | input k => simp [hid] at hty
    | spread g =>
      rw [calcFields.eq_4]
      have hok : fragOkD c (.object i) g = true := by simpa [fSelD] using hx
      obtain ⟨fr, hfr, hon, hname, _, _⟩ := fragOkD_parts hok
      have hne : (fr.on != TypeId.object i) = false := by simp [hon]
      simp only [getFragment_of hfr, bind, Except.bind, hR, hne, Bool.false_eq_true, ↓reduceIte,
        not_recursive_of_fragOkD hok, renderField_spread c fr hname, pure, Except.pure]
      simp [fieldOfSelFD, hfr, itemsFD]
    | inline t sub => simp [fSelD] at hx
    | typename =>
      rw [calcFields.eq_5 _ _ _ _ _ _ (by simp) (by simp), hR]
      simp [fieldOfSelFD, fieldOfSelD, itemsFD]

include hn in
theorem calc_fragD : ∀ fuel, S1F c fuel ∧ S4F c fuel := by
  intro fuel
  induction fuel with
  | zero => exact ⟨fun _ _ _ _ _ h => by omega, fun _ _ _ _ h => by omega⟩
  | succ f ih => exact ⟨stepS1F c f ih.2, stepS4F c hn f ih.1 ih.2⟩

end CalcF

/-- **Theorem 1 for `FragOpD`** -/
theorem frag_items_shapeD (c : Ctx) (op : ROperation) (hop : op ∈ c.q.operations) (ht : FragOpD c op = true) :
    responseItems c op = .ok (bodyItemsFD c "ResponseData" (c.cs.camel op.name) op.sels) := by
  obtain ⟨hn, hsels⟩ := fragOpD_parts ht
  exact (calc_fragD c hn _).1 _ _ _ _ hsels (calcFuel_ge c op hop)

theorem calcFuel_ge_frag (c : Ctx) (f : RFragment) (hf : f ∈ c.q.fragments) :
    2 * selsSize f.sels + 2 ≤ calcFuel c.s c.q := by
  have h1 : selsSize f.sels ≤ C02.totalSize c.q := by
    apply C02.le_foldl_add
    left
    simp only [List.mem_append, List.mem_map]
    exact .inl ⟨f, hf, rfl⟩
  rw [C02.calcFuel_eq, C02.walkFuel_eq]
  obtain ⟨K, hK⟩ : ∃ K, K = C02.totalSize c.q + c.s.objects.length + C02.maxUnion c.s + 4 := ⟨_, rfl⟩
  rw [← hK]
  have h2 : 2 ≤ (c.q.fragments.length + 1) * (C02.maxDepth c.q + 2) + 1 := by
    have : 1 * 2 ≤ (c.q.fragments.length + 1) * (C02.maxDepth c.q + 2) := Nat.mul_le_mul (by omega) (by omega)
    omega
  have h3 := Nat.mul_le_mul_right K h2
  omega

/-- **… and the items of a spread fragment**: the struct named like the fragment for its body (the `TreeOpD` closed form) -/
theorem frag_struct_shapeD (c : Ctx) (hn : c.o.normalization = .none) (i : Nat) (g : Nat)
    (hok : fragOkD c (.object i) g = true) :
    ∃ f, c.q.fragments[g]? = some f ∧ fragmentItems c g = .ok (structItemsD c f.name (c.cs.camel f.name) f.sels) := by
  obtain ⟨f, hf, hon, _, hv, _⟩ := fragOkD_parts hok
  refine ⟨f, hf, ?_⟩
  unfold fragmentItems
  simp only [getFragment_of hf, bind, Except.bind]
  rw [hon]
  exact (calc_treeD c hn _).1 _ _ _ _ hv (calcFuel_ge_frag c f (List.mem_of_getElem? hf))

end C14G
end GqlVerif
