import GqlVerif.Proofs.C12Module
import GqlVerif.Proofs.C12FrontEnds
/-!
# C12, whole module (P44) — hypotheses on the schema document

`C12FE.module_input_items_acyclic_of_sdl` (the input CHUNK of the module w.r.t. itself; REVIEW_3 finding 5) restated
for the **whole** module: `InputsWf` and `MentionsFaithful` are discharged from the schema document as in
`C12FrontEnds.lean` (`sdlInputNames doc` pairwise distinct, `noCollision`); what remains are the executable checks on
(schema, query, options): `respNamesOk` (or `NoClash` + `respLeafFree`) and `fixedNamesFree` — the latter also from the
coarser, names-only `namesFree` (`fixedNamesFree_of_namesFree`, `module_items_acyclic_of_sdl_names`).
-/
namespace GqlVerif
namespace C12Mod
open Codegen C12Graph C12I C12FE
open Relation (TransGen ReflTransGen)

/-- **whole module, SDL front-end** -/
theorem module_items_acyclic_of_sdl {doc : SdlDoc} {s : Schema} (o : Options) (cs : CaseFns)
    (h : Sdl.fromSdl doc = .ok s) (hnd : (sdlInputNames doc).Nodup)
    (hnc : noCollision o cs (sdlInputNames doc) (sdlOtherNames doc) = true)
    (q : Query) (op : Nat) (items : List Item)
    (hresp : respNamesOk { s := s, q := q, o := o, cs := cs } op = true)
    (hfix : fixedNamesFree { s := s, q := q, o := o, cs := cs } op = true)
    (hgen : responseForQuery { s := s, q := q, o := o, cs := cs } op = .ok items) :
    ¬ ∃ a, TransGen (containsByValue items) a a :=
  module_items_acyclic { s := s, q := q, o := o, cs := cs } op items (fromSdl_inputsWf h hnd)
    (mentionsFaithful_of_noCollision (c := { s := s, q := q, o := o, cs := cs }) (fromSdl_inputs_names h)
      (fromSdl_otherNames h) hnc) hresp hfix hgen

/-- **whole module, introspection front-end** -/
theorem module_items_acyclic_of_intro {ro : Bool} {src : Option IntroSchema} {s : Schema} (o : Options) (cs : CaseFns)
    (h : Intro.fromIntro ro src = .ok s) (hnd : (introInputNames (introTypesOf src)).Nodup)
    (hnc : noCollision o cs (introInputNames (introTypesOf src)) (introOtherNames (introTypesOf src)) = true)
    (q : Query) (op : Nat) (items : List Item)
    (hresp : respNamesOk { s := s, q := q, o := o, cs := cs } op = true)
    (hfix : fixedNamesFree { s := s, q := q, o := o, cs := cs } op = true)
    (hgen : responseForQuery { s := s, q := q, o := o, cs := cs } op = .ok items) :
    ¬ ∃ a, TransGen (containsByValue items) a a :=
  module_items_acyclic { s := s, q := q, o := o, cs := cs } op items (fromIntro_inputsWf h hnd)
    (mentionsFaithful_of_noCollision (c := { s := s, q := q, o := o, cs := cs }) (fromIntro_facts h).2
      (fromIntro_facts h).1.other hnc) hresp hfix hgen

/-- **whole module, JSON introspection front-end** -/
theorem module_items_acyclic_of_json {ro : Bool} {j : Json} {s : Schema} (o : Options) (cs : CaseFns)
    (h : Intro.fromJson ro j = .ok s) (hnd : (introInputNames (jsonTypesOf ro j)).Nodup)
    (hnc : noCollision o cs (introInputNames (jsonTypesOf ro j)) (introOtherNames (jsonTypesOf ro j)) = true)
    (q : Query) (op : Nat) (items : List Item)
    (hresp : respNamesOk { s := s, q := q, o := o, cs := cs } op = true)
    (hfix : fixedNamesFree { s := s, q := q, o := o, cs := cs } op = true)
    (hgen : responseForQuery { s := s, q := q, o := o, cs := cs } op = .ok items) :
    ¬ ∃ a, TransGen (containsByValue items) a a :=
  module_items_acyclic { s := s, q := q, o := o, cs := cs } op items (fromJson_inputsWf h hnd)
    (mentionsFaithful_of_noCollision (c := { s := s, q := q, o := o, cs := cs }) (fromJson_facts h).2
      (fromJson_facts h).1.other hnc) hresp hfix hgen

/-! ## `fixedNamesFree` from a check on type NAMES only

The repair REVIEW_3 finding 5 suggests: add the fixed names to the name-level collision check.  `namesFree` does not
look at which fields are held by value nor at which inputs are used: no type that occurs as the type of a field of an
`input` of the schema, or of a variable of the operation, is rendered — plainly or keyword-escaped — as `Variables` or
as the name of a fragment / response item (`ResponseData`, `Frag`, `QField`, …); and no used input item, `Variables`,
fragment or response item is named like the target of a leaf alias (`bool`, `f64`, `i64`, `String`, `m::T`).
(Object / interface / union names are deliberately not in the list: `fragment Node on Node` is fine.) -/

/-- the names of the types of all input fields of the schema and of the variables of the operation -/
def refTypeNames (c : Ctx) (op : Nat) : List String :=
  (c.s.inputs.flatMap fun i => i.fields.filterMap fun f => (c.s.typeName f.2.id).toOption) ++
  (c.q.opVariables op).filterMap fun v => (c.s.typeName v.ty.id).toOption

def namesFree (c : Ctx) (op : Nat) : Bool :=
  match allUsedTypes c.s c.q op, c.q.operations[op]? with
  | .ok u, some o =>
    (leafRefs c u).all (fun n => !(C02.inputNames c u ++ "Variables" :: frNames c u o).contains n) &&
    (refTypeNames c op).all (fun tn =>
      !("Variables" :: frNames c u o).contains (mention c tn) &&
      !("Variables" :: frNames c u o).contains (keywordReplace (mention c tn)))
  | _, _ => true

theorem inputRefs_spec {c : Ctx} {u : UsedTypes} {op : Nat} {n : String} (h : n ∈ inputRefs c u) :
    ∃ tn ∈ refTypeNames c op, n = mention c tn := by
  simp only [inputRefs, List.mem_flatMap, List.mem_filterMap] at h
  obtain ⟨x, hx, f, hf, hn⟩ := h
  rw [List.mem_filter, List.mem_zipIdx_iff_getElem?] at hx
  split at hn
  · cases hn
  · split at hn
    · rename_i tn htn
      refine ⟨tn, List.mem_append_left _ ?_, by simpa using hn.symm⟩
      simp only [List.mem_flatMap, List.mem_filterMap]
      exact ⟨x.1, List.mem_of_getElem? hx.1, f, hf, by simp [htn, Except.toOption]⟩
    · cases hn

theorem varRefs_spec {c : Ctx} {op : Nat} {n : String} (h : n ∈ varRefs c op) :
    ∃ tn ∈ refTypeNames c op, n = keywordReplace (mention c tn) := by
  simp only [varRefs, List.mem_filterMap] at h
  obtain ⟨v, hv, hn⟩ := h
  split at hn
  · cases hn
  · split at hn
    · rename_i tn htn
      refine ⟨tn, List.mem_append_right _ ?_, by simpa using hn.symm⟩
      simp only [List.mem_filterMap]
      exact ⟨v, hv, by simp [htn, Except.toOption]⟩
    · cases hn

/-- the name-level check implies `fixedNamesFree` -/
theorem fixedNamesFree_of_namesFree {c : Ctx} {op : Nat} (h : namesFree c op = true) :
    fixedNamesFree c op = true := by
  unfold fixedNamesFree
  unfold namesFree at h
  split
  · rename_i u o hu ho
    simp only [hu, ho, Bool.and_eq_true, List.all_eq_true] at h ⊢
    obtain ⟨h1, h2⟩ := h
    refine ⟨⟨h1, fun n hn => ?_⟩, fun n hn => ?_⟩
    · obtain ⟨tn, htn, rfl⟩ := inputRefs_spec (op := op) hn
      exact (h2 tn htn).1
    · obtain ⟨tn, htn, rfl⟩ := varRefs_spec hn
      exact (h2 tn htn).2
  · rfl

/-- **whole module, SDL front-end, name-level hypotheses**: `noCollision` over the type names of the document,
    `namesFree`, `NoClash` (no type name defined twice in the module) and `respLeafFree` -/
theorem module_items_acyclic_of_sdl_names {doc : SdlDoc} {s : Schema} (o : Options) (cs : CaseFns)
    (h : Sdl.fromSdl doc = .ok s) (hnd : (sdlInputNames doc).Nodup)
    (hnc : noCollision o cs (sdlInputNames doc) (sdlOtherNames doc) = true)
    (q : Query) (op : Nat) (items : List Item)
    (hclash : C02.NoClash { s := s, q := q, o := o, cs := cs } op = true)
    (hlf : respLeafFree { s := s, q := q, o := o, cs := cs } op = true)
    (hfree : namesFree { s := s, q := q, o := o, cs := cs } op = true)
    (hgen : responseForQuery { s := s, q := q, o := o, cs := cs } op = .ok items) :
    ¬ ∃ a, TransGen (containsByValue items) a a :=
  module_items_acyclic_of_sdl o cs h hnd hnc q op items (respNamesOk_of_noClash hclash hlf)
    (fixedNamesFree_of_namesFree hfree) hgen

/-- the rich sample of `C02Response.lean` passes the name-level check -/
example : namesFree C02.richCtx 0 = true := by decide +kernel

end C12Mod
end GqlVerif
