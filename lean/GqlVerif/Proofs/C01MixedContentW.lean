import GqlVerif.Proofs.C01MixedContent
/-!
# C01 end to end (`MixedOp`, `MixedOp2`), `SameContent`: instances on generated modules, and the relation does tell a loss

* `mx_roundtrip_content` / `mx_content` — `mixed_roundtrip_content` on the generated module of `C01MixedE`
  (`query Q { dog { ...DogFields } animal { __typename ...AnimalName ...DogFields } }`, in neither `FragmentOp` nor
  `VariantSpreadOp`): the result of the round trip, written out, is `SameContent` to the payload (the keys of `animal` come
  back in another order);
* `mx2_roundtrip_content` / `mx2_content` — the same with `dog { name ...DogFields }` (a flattened member at an object position);
* `ex_roundtrip_content` / `ex_content` — `mixed2_roundtrip_content` on the module of `C01MixedF`
  (`animal { __typename ...AnimalName ... on Dog { ...DogFields } }`, class `MixedOp2` only);
* **negative witnesses**: `SameContent` sees a lost field.
  `keys_loss_not_sameContent` / `mixed_keys_needed_content`: on `mixed_keys_needed`'s operation (`dog { barks ...DogFields }`, every
  hypothesis of `mixed_roundtrip_content` but `mixedKeysOk`) the round trip returns `barks: null` for `barks: true`, and that is
  **not** `SameContent` — so `mixedKeysOk` cannot be dropped from `mixed_roundtrip_content`; the closed form
  `normJson (canonSelM …)` still is `SameContent` there (`mixed_content` has no side condition): what fails without
  `mixedKeysOk` is "the closed form is the round trip".
  `oi_loss_not_sameContent` / `mixed2_oi_needed_content`: the same for `mixed2_oi_needed` (`dog { ... on Dog { ...DogFields } }`:
  `barks` is absent from the output).
-/
set_option linter.unusedSimpArgs false
set_option linter.unusedVariables false
set_option linter.unusedSectionVars false
set_option linter.unnecessarySimpa false

namespace GqlVerif
namespace C01M
open Serde Spec C13 C03 Codegen C01 C01.E2E

/-! ## `mixed_roundtrip_content` on the generated module of part E -/

theorem mx_roundtrip_content :
    ∃ out, Serde.roundtrip (moduleEnv (mxCtx mxDog mxAnimal) mxItems) (.path "ResponseData") mxJson = .ok out ∧
      SameContent false mxJson out :=
  mixed_roundtrip_content (mxCtx mxDog mxAnimal) 0 (mxOp mxDog mxAnimal) mxItems rfl mx_class mx_keys mx_rust mx_gen mx_ok
    mxJson mx_conforms

/-- written out: the value `mx_roundtrip` computes has the content of the payload (`animal`: `__typename name barks` comes
    back as `name __typename barks`) -/
theorem mx_content :
    SameContent false
      (.obj [("dog", .obj [("barks", .bool true)]),
             ("animal", .obj [("__typename", .str "Dog"), ("name", .str "Rex"), ("barks", .bool false)])])
      (.obj [("dog", .obj [("barks", .bool true)]),
             ("animal", .obj [("name", .str "Rex"), ("__typename", .str "Dog"), ("barks", .bool false)])]) := by
  have h : SameContent false mxJson
      (normJson (canonSelM mxSchema (mxQuery mxDog mxAnimal) false (mxOp mxDog mxAnimal).sels mxJson)) :=
    mixed_content (mxCtx mxDog mxAnimal) (mxOp mxDog mxAnimal) mx_class mxJson mx_conforms
  rw [mx_canon] at h
  exact h

theorem mx2_roundtrip_content :
    ∃ out, Serde.roundtrip (moduleEnv (mxCtx mx2Dog mxAnimal) mx2Items) (.path "ResponseData") mx2Json = .ok out ∧
      SameContent false mx2Json out :=
  mixed_roundtrip_content (mxCtx mx2Dog mxAnimal) 0 (mxOp mx2Dog mxAnimal) mx2Items rfl mx2_class mx2_keys mx2_rust mx2_gen
    mx2_ok mx2Json mx2_conforms

/-- `dog { name ...DogFields }`: `barks name` comes back as `name barks` (the own field, then the flattened member); the `null`
    stays (no skip-none) -/
theorem mx2_content :
    SameContent false
      (.obj [("dog", .obj [("barks", .null), ("name", .str "Rex")]),
             ("animal", .obj [("__typename", .str "Dog"), ("name", .str "Rex"), ("barks", .bool false)])])
      (.obj [("dog", .obj [("name", .str "Rex"), ("barks", .null)]),
             ("animal", .obj [("name", .str "Rex"), ("__typename", .str "Dog"), ("barks", .bool false)])]) := by
  have h : SameContent false mx2Json
      (normJson (canonSelM mxSchema (mxQuery mx2Dog mxAnimal) false (mxOp mx2Dog mxAnimal).sels mx2Json)) :=
    mixed_content (mxCtx mx2Dog mxAnimal) (mxOp mx2Dog mxAnimal) mx2_class mx2Json mx2_conforms
  rw [mx2_canon] at h
  exact h

/-! ## `mixed2_roundtrip_content` on the generated module of part F -/

theorem ex_roundtrip_content :
    ∃ out, Serde.roundtrip (moduleEnv (mxCtx mxDog exAnimal) exItems) (.path "ResponseData") mxJson = .ok out ∧
      SameContent false mxJson out :=
  mixed2_roundtrip_content (mxCtx mxDog exAnimal) 0 (mxOp mxDog exAnimal) exItems rfl ex_class ex_keys ex_rust ex_gen ex_ok
    mxJson ex_conforms

theorem ex_content :
    SameContent false mxJson
      (.obj [("dog", .obj [("barks", .bool true)]),
             ("animal", .obj [("name", .str "Rex"), ("__typename", .str "Dog"), ("barks", .bool false)])]) := by
  have h : SameContent false mxJson
      (normJson (canonSelM mxSchema (mxQuery mxDog exAnimal) false (normSels (mxOp mxDog exAnimal).sels) mxJson)) :=
    mixed2_content (mxCtx mxDog exAnimal) (mxOp mxDog exAnimal) ex_class mxJson ex_conforms
  rw [ex_canon] at h
  exact h

/-! ## what the relation gives on such an instance (it is not vacuous) -/

/-- inversion: what `SameContent` says of an output for an input object (whatever the output is) -/
theorem SameContent.obj_inv {skip : Bool} {kvs : List (String × Json)} {out : Json}
    (h : SameContent skip (.obj kvs) out) :
    ∃ kvs', out = .obj kvs' ∧ ∀ k v, Json.lookup k kvs = some v →
      k = "__typename" ∨ (skip = true ∧ v = .null) ∨ ∃ v', (k, v') ∈ kvs' ∧ SameContent skip v v' := by
  cases h with
  | refl => exact ⟨kvs, rfl, fun k v hl => .inr (.inr ⟨v, jlookup_mem hl, .refl _⟩)⟩
  | obj _ kvs' hnd hfrom hsame hcov =>
    refine ⟨kvs', rfl, fun k v hl => ?_⟩
    rcases hcov k v hl with h | h | h
    · exact .inl h
    · exact .inr (.inl h)
    · obtain ⟨kv, hkv, hk⟩ := List.mem_map.mp h
      obtain ⟨k', v'⟩ := kv
      simp only at hk
      subst hk
      exact .inr (.inr ⟨v', hkv, hsame k' v v' hkv hl⟩)

/-- **whatever** `out` is `SameContent` to the payload `mxJson` has an entry `dog` whose value has the entry `barks: true` of the
    payload — in particular (`mx_roundtrip_content`) the result of the round trip through the type alias `Qdog = DogFields` -/
theorem sameContent_mx_barks (out : Json) (h : SameContent false mxJson out) :
    ∃ kvs d, out = .obj kvs ∧ ("dog", Json.obj d) ∈ kvs ∧ ("barks", Json.bool true) ∈ d := by
  simp only [mxJson] at h
  obtain ⟨kvs, rfl, H⟩ := SameContent.obj_inv h
  rcases H "dog" (.obj [("barks", .bool true)]) (by simp [Json.lookup]) with h1 | h1 | ⟨v', hm, hs⟩
  · simp at h1
  · simp at h1
  · obtain ⟨d, rfl, H2⟩ := SameContent.obj_inv hs
    rcases H2 "barks" (.bool true) (by simp [Json.lookup]) with h2 | h2 | ⟨v2, hm2, hs2⟩
    · simp at h2
    · simp at h2
    · cases hs2
      exact ⟨kvs, d, rfl, hm, hm2⟩

theorem mx_barks_survives :
    ∃ out, Serde.roundtrip (moduleEnv (mxCtx mxDog mxAnimal) mxItems) (.path "ResponseData") mxJson = .ok out ∧
      ∃ kvs d, out = .obj kvs ∧ ("dog", Json.obj d) ∈ kvs ∧ ("barks", Json.bool true) ∈ d := by
  obtain ⟨out, hrt, hsc⟩ := mx_roundtrip_content
  exact ⟨out, hrt, sameContent_mx_barks out hsc⟩

/-! ## negative witnesses: `SameContent` sees a lost field -/

/-- what the round trip of `mixed_keys_needed` returns for `kJson` -/
def kOut : Json :=
  .obj [("dog", .obj [("barks", .null)]), ("animal", .obj [("name", .str "Tom"), ("__typename", .str "Cat")])]

/-- `barks: true` coming back as `barks: null` is **not** `SameContent` -/
theorem keys_loss_not_sameContent : ¬ SameContent false kJson kOut := by
  intro h
  simp only [kJson, kOut] at h
  obtain ⟨v1, hl1, h1⟩ := SameContent.entry (by simp) h "dog" (.obj [("barks", .null)]) (by simp)
  simp only [Json.lookup, beq_self_eq_true, ↓reduceIte, Option.some.injEq] at hl1
  subst hl1
  obtain ⟨v2, hl2, h2⟩ := SameContent.entry (by simp) h1 "barks" .null (by simp)
  simp only [Json.lookup, beq_self_eq_true, ↓reduceIte, Option.some.injEq] at hl2
  subst hl2
  cases h2

theorem k_roundtrip :
    Serde.roundtrip (moduleEnv (mxCtx kDog mxAnimal) (okOr (responseForQuery (mxCtx kDog mxAnimal) 0)))
      (.path "ResponseData") kJson = .ok kOut := by
  have h := mixed_keys_needed.2.2.2.2.2.2
  split at h
  · rename_i heq; exact heq
  · cases h

/-- **`mixedKeysOk` cannot be dropped from `mixed_roundtrip_content`**: on `mixed_keys_needed`'s operation
    (`dog { barks ...DogFields }`) every other hypothesis holds and the result of the round trip is not `SameContent` to the
    conforming payload (`barks` comes back `null`) — while the closed form `normJson (canonSelM …)` is (`mixed_content` needs no
    side condition): without `mixedKeysOk` the closed form is not what the round trip returns. -/
theorem mixed_keys_needed_content :
    MixedOp (mxCtx kDog mxAnimal) (mxOp kDog mxAnimal) = true ∧
    mixedKeysOk (mxCtx kDog mxAnimal) (mxOp kDog mxAnimal) = false ∧
    mixedRustOk (mxCtx kDog mxAnimal) (mxOp kDog mxAnimal) = true ∧
    isOkO (responseForQuery (mxCtx kDog mxAnimal) 0) = true ∧
    moduleOk (mxCtx kDog mxAnimal) (okOr (responseForQuery (mxCtx kDog mxAnimal) 0)) = true ∧
    conformsOpM (mxCtx kDog mxAnimal) (mxOp kDog mxAnimal) kJson = true ∧
    (∃ out, Serde.roundtrip (moduleEnv (mxCtx kDog mxAnimal) (okOr (responseForQuery (mxCtx kDog mxAnimal) 0)))
        (.path "ResponseData") kJson = .ok out ∧ ¬ SameContent false kJson out) ∧
    SameContent false kJson
      (normJson (canonSelM mxSchema (mxQuery kDog mxAnimal) false (mxOp kDog mxAnimal).sels kJson)) := by
  obtain ⟨h1, h2, h3, h4, h5, h6, _⟩ := mixed_keys_needed
  exact ⟨h1, h2, h3, h4, h5, h6, ⟨kOut, k_roundtrip, keys_loss_not_sameContent⟩,
    mixed_content (mxCtx kDog mxAnimal) (mxOp kDog mxAnimal) h1 kJson h6⟩

/-- what the round trip of `mixed2_oi_needed` returns for `kJson` -/
def oOut : Json :=
  .obj [("dog", .obj []), ("animal", .obj [("name", .str "Tom"), ("__typename", .str "Cat")])]

/-- the selected `barks` missing from the output is **not** `SameContent` -/
theorem oi_loss_not_sameContent : ¬ SameContent false kJson oOut := by
  intro h
  simp only [kJson, oOut] at h
  obtain ⟨v1, hl1, h1⟩ := SameContent.entry (by simp) h "dog" (.obj []) (by simp)
  simp only [Json.lookup, beq_self_eq_true, ↓reduceIte, Option.some.injEq] at hl1
  subst hl1
  have := SameContent.no_loss h1 "barks" (.bool true) (by simp [Json.lookup])
  simp at this

theorem o_roundtrip :
    Serde.roundtrip (moduleEnv (mxCtx oDog mxAnimal) (okOr (responseForQuery (mxCtx oDog mxAnimal) 0)))
      (.path "ResponseData") kJson = .ok oOut := by
  have h := mixed2_oi_needed.2.2.2.2.2.2.2.2.2.2
  split at h
  · rename_i heq; exact heq
  · cases h

/-- **`oiSels` cannot be dropped from `MixedOp2` for `mixed2_roundtrip_content`**: on `mixed2_oi_needed`'s operation
    (`dog { ... on Dog { ...DogFields } }`) every other part of the class and every other hypothesis holds, and the result of
    the round trip is not `SameContent` to the conforming payload (`barks` is gone) -/
theorem mixed2_oi_needed_content :
    aliasWfSels (mxCtx oDog mxAnimal).q (mxOp oDog mxAnimal).sels = true ∧
    aliasOkSels (mxCtx oDog mxAnimal) (mxOp oDog mxAnimal).sels = true ∧
    noAliasHere (mxOp oDog mxAnimal).sels = true ∧
    MixedOp (mxCtx oDog mxAnimal) (normOp (mxOp oDog mxAnimal)) = true ∧
    oiSels mxSchema (mxOp oDog mxAnimal).sels = false ∧
    mixedKeysOk (mxCtx oDog mxAnimal) (normOp (mxOp oDog mxAnimal)) = true ∧
    mixedRustOk (mxCtx oDog mxAnimal) (normOp (mxOp oDog mxAnimal)) = true ∧
    isOkO (responseForQuery (mxCtx oDog mxAnimal) 0) = true ∧
    moduleOk (mxCtx oDog mxAnimal) (okOr (responseForQuery (mxCtx oDog mxAnimal) 0)) = true ∧
    conformsOpM (mxCtx oDog mxAnimal) (mxOp oDog mxAnimal) kJson = true ∧
    ∃ out, Serde.roundtrip (moduleEnv (mxCtx oDog mxAnimal) (okOr (responseForQuery (mxCtx oDog mxAnimal) 0)))
        (.path "ResponseData") kJson = .ok out ∧ ¬ SameContent false kJson out := by
  obtain ⟨h1, h2, h3, h4, h5, h6, h7, h8, h9, h10, _⟩ := mixed2_oi_needed
  exact ⟨h1, h2, h3, h4, h5, h6, h7, h8, h9, h10, oOut, o_roundtrip, oi_loss_not_sameContent⟩

end C01M
end GqlVerif
