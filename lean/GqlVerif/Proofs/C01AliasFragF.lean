import GqlVerif.Proofs.C01AliasFragE
import GqlVerif.Proofs.C01NestedF
/-!
# C01 end to end (`AliasFragOp`), part F: the specification side; `aliasfrag_accepts`

The specification is the one of `C01NestedF`: `conformsOpN c op j` — `conformsV` on the root selection set with every spread
read as the inline fragment `... on T { body }`, recursively (`exN`, `c.q.fragments.length` levels deep: an alias hop
`fragment A on T { ...B }` is one level).

* `specA` — by induction on the rank: a response that conforms to the expanded fragment is accepted by the fragment's type
  (lone-spread body: the inline fragment `... on T { ... on T { body of the target } }`);
* **`aliasfrag_accepts`** — every conforming response is accepted by the emitted `ResponseData`.
-/
set_option linter.unusedSimpArgs false
set_option linter.unusedVariables false
set_option linter.unusedSectionVars false
set_option linter.unnecessarySimpa false

namespace GqlVerif
namespace C01AF
open Serde Spec C13 C03 Codegen C01 C01.E2E C01M C01N

/-- an inline fragment whose type condition is the runtime type is transparent for `conformsV` -/
theorem conformsV_inline_self (s : Schema) (i : Nat) (sub : List Sel) (j : Json) :
    conformsV s i [.inline (.object i) sub] j = conformsV s i sub j := by
  cases j with
  | obj kvs =>
    simp only [conformsV, keysSelsV, keysSelV, fragApplies, beq_self_eq_true,
      ↓reduceIte, List.append_nil, confSelsV, confSelV, Bool.not_true, Bool.false_or, Bool.and_true]
  | null => rfl
  | bool _ => rfl
  | int _ => rfl
  | num _ => rfl
  | str _ => rfl
  | arr _ => rfl

/-- **a response conforming to the expanded fragment is accepted by the fragment's type** (by induction on the rank) -/
theorem specA (c : Ctx) : ∀ (r i g : Nat), fragOkA c.s c.q c.o r (.object i) g = true → ∀ r', r ≤ r' →
    (∀ kvs, (∀ k, countKey k kvs ≤ 1) → confSelV c.s i (exN c.q r' g) kvs = true →
      wholeA c r g true (.obj kvs) = true) ∧
    (∀ b j, conformsV c.s i [exN c.q r' g] j = true → wholeA c r g b j = true)
  | 0, i, g => by
    intro h r' hr'
    rw [fragOkA] at h
    rw [wholeA_zero]
    exact specN c 0 i g (by rw [fragOkN]; exact h) r' hr'
  | r + 1, i, g => by
    intro h r' hr'
    have IH := specA c r
    by_cases hold : fragOkA c.s c.q c.o r (.object i) g = true
    · obtain ⟨fr, hfr, hon, _, _⟩ := fragOkA_spec c.s c.q c.o r _ g hold
      have hfon : fragOn c.q g = .object i := by simp [fragOn, hfr, hon]
      have hw : ∀ b j, wholeA c (r + 1) g b j = wholeA c r g b j := by
        intro b j; rw [wholeA, hfon, if_pos hold]
      obtain ⟨h1, h2⟩ := IH i g hold r' (by omega)
      exact ⟨fun kvs hc hh => by rw [hw]; exact h1 kvs hc hh, fun b j hh => by rw [hw]; exact h2 b j hh⟩
    · have holdf : fragOkA c.s c.q c.o r (.object i) g = false := by simpa using hold
      rw [fragOkA, holdf, Bool.false_or] at h
      obtain ⟨fr, hfr, hon, _, _, hb⟩ := fragNewA_parts h
      have hfon : fragOn c.q g = .object i := by simp [fragOn, hfr, hon]
      have hsels : fragSels c.q g = fr.sels := by simp [fragSels, hfr]
      have hw : ∀ b j, wholeA c (r + 1) g b j = conformsLooseN (wholeA c r) c.s c.q c.o b fr.sels j := by
        intro b j; rw [wholeA, hfon, if_neg hold, hsels]
      obtain ⟨r'', rfl⟩ : ∃ k, r' = k + 1 := ⟨r' - 1, by omega⟩
      have hex : exN c.q (r'' + 1) g = .inline (.object i) (expandSelsW (exN c.q r'') fr.sels) := by
        simp [exN, hfr, hon]
      rw [hon] at hb
      have hexA : ∀ g', FragOkAny c.s c.q c.o g' → exN c.q r'' g' = expandSel c.q (.spread g') :=
        fun g' hg' => exN_fragOkAny hg' r''
      have hmem := fun i' g' (hg' : fragOkA c.s c.q c.o r (.object i') g' = true) => (IH i' g' hg' r'' (by omega)).1
      have hali := fun i' g' (hg' : fragOkA c.s c.q c.o r (.object i') g' = true) => (IH i' g' hg' r'' (by omega)).2
      rw [hex]
      by_cases hsp : ∃ g', fr.sels = [Sel.spread g']
      · -- a lone spread: the type alias accepts what its target accepts
        obtain ⟨g', hg'⟩ := hsp
        rw [hg'] at hb hw
        have hokg' : fragOkA c.s c.q c.o r (.object i) g' = true := hb
        have hw' : ∀ b j, wholeA c (r + 1) g b j = wholeA c r g' b j := by intro b j; rw [hw]; rfl
        have hexp : expandSelsW (exN c.q r'') fr.sels = [exN c.q r'' g'] := by
          rw [hg']; simp [expandSelsW, expandSelW]
        rw [hexp]
        refine ⟨fun kvs hc h1 => ?_, fun b j hc => ?_⟩
        · rw [hw']
          simp only [confSelV, fragApplies, beq_self_eq_true, Bool.not_true, Bool.false_or, confSelsV,
            Bool.and_true] at h1
          exact hmem i g' hokg' kvs hc h1
        · rw [hw']
          rw [conformsV_inline_self] at hc
          exact hali i g' hokg' b j hc
      · have hnl : ∀ g', fr.sels ≠ [Sel.spread g'] := fun g' hg' => hsp ⟨g', hg'⟩
        rw [nBody_not_lone hnl] at hb
        have key : ∀ b kvs, (∀ k, countKey k kvs ≤ 1) → confSelsV c.s i (expandSelsW (exN c.q r'') fr.sels) kvs = true →
            conformsLooseN (wholeA c r) c.s c.q c.o b fr.sels (.obj kvs) = true := by
          intro b kvs hc hh
          rw [conformsLooseN_not_lone hnl]
          simp only [Bool.and_eq_true]
          exact ⟨slOwnN c.s c.q c.o _ (wholeA c r) (exN c.q r'') fr.sels _ b i kvs hexA hmem hali hb hc hh,
            slMemN c.s c.q c.o _ (wholeA c r) (exN c.q r'') hmem i kvs hc fr.sels hb hh⟩
        refine ⟨fun kvs hc h1 => ?_, fun b j hc => ?_⟩
        · simp only [confSelV, fragApplies, beq_self_eq_true, Bool.not_true, Bool.false_or] at h1
          rw [hw]
          exact key true kvs hc h1
        · rw [hw]
          rw [conformsV_inline_self] at hc
          cases j with
          | obj kvs =>
            simp only [conformsV, Bool.and_eq_true] at hc
            exact key b kvs (countKey_le_one_of_nodup (nodup_iff'.mp hc.1.1)) hc.2
          | null => simp [conformsV] at hc
          | bool _ => simp [conformsV] at hc
          | int _ => simp [conformsV] at hc
          | num _ => simp [conformsV] at hc
          | str _ => simp [conformsV] at hc
          | arr _ => simp [conformsV] at hc

/-- conforming ⇒ `conformsLooseN`, at the top level -/
theorem conformsOpA_loose (c : Ctx) (op : ROperation) (ht : AliasFragOp c op = true) (b : Bool) (j : Json)
    (h : conformsOpN c op j = true) :
    conformsLooseN (wholeA c c.q.fragments.length) c.s c.q c.o b op.sels j = true := by
  obtain ⟨_, _, hsels⟩ := aliasFragOp_parts ht
  exact conformsN_loose c.s c.q c.o _ (wholeA c c.q.fragments.length) (exN c.q c.q.fragments.length)
    (fun g hg => exN_fragOkAny hg _)
    (fun i g hg => (specA c _ i g hg _ (Nat.le_refl _)).1)
    (fun i g hg => (specA c _ i g hg _ (Nat.le_refl _)).2) b op.objectId op.sels j hsels h

/-- **`aliasfrag_accepts`.**  Every conforming response is accepted by the emitted `ResponseData`. -/
theorem aliasfrag_accepts (c : Ctx) (opIdx : Nat) (op : ROperation) (items : List Item)
    (hop : c.q.operations[opIdx]? = some op) (ht : AliasFragOp c op = true) (hnd : fragNamesOk c = true)
    (hk : aliasKeysOk c op = true)
    (hgen : responseForQuery c opIdx = .ok items) (hok : moduleOk c items = true)
    (j : Json) (hc : conformsOpN c op j = true) :
    ∃ v, Serde.de (moduleEnv c items) (.path "ResponseData") j = .ok v := by
  have := aliasfrag_precise_iff c opIdx op items hop ht hnd hk hgen hok j
  rw [conformsOpA_loose c op ht false j hc] at this
  exact (okB_iff _).mp this

end C01AF
end GqlVerif
