import GqlVerif.Proofs.C01MixedD
/-!
# C01 end to end (`MixedOp`), part E: the two classes inside `MixedOp`, a generated module outside both

* on `VariantSpreadOp`: the side conditions of `mixed_roundtrip` are those of `variantspread_roundtrip`
  (`mixedKeysOk_of_variantSpreadOp`, `mixedRustOk_of_spreadRustOkD`) and the canonical form is the same function
  (`canonSelM_eq_D`: `canonSelM = canonSelD` on the class) — `variantspread_roundtrip` **is** the instance
  (`mixed_roundtrip_on_S`);
* on `FragmentOp`: `mixedKeysOk_of_fragKeysOk`; the result of the round trip is `canonSelF` (`mixed_roundtrip_on_F`:
  `normJson (canonSelM … j) = canonSelF … j` for every conforming response of a generated module — both theorems describe
  the same `Serde.roundtrip`);
* **a generated module in neither class** (`mxCtx`): schema `interface Animal { name }`, `Dog implements Animal { name barks }`,
  `Cat implements Animal { name lives }`, `Query { dog: Dog  animal: Animal }`;
  `fragment DogFields on Dog { barks }`, `fragment AnimalName on Animal { __typename name }`;
  `query Q { dog { ...DogFields } animal { __typename ...AnimalName ...DogFields } }` — a spread at an object position
  (type alias `Qdog = DogFields`), and at the abstract position a spread of a fragment on the interface itself (flattened
  member of `Qanimal`) and one of a fragment on a possible type (variant `Dog` = alias of `DogFields`).  Every hypothesis is
  evaluated by `decide +kernel`; `mx_not_F`, `mx_not_S`: the operation is in neither `FragmentOp` nor `VariantSpreadOp`;
  `mx_roundtrip`: the round trip of a concrete payload.  `mx2…`: the same with `dog { name ...DogFields }` (a struct with a
  flattened member at the object position).
-/
set_option linter.unusedSimpArgs false
set_option linter.unusedVariables false
set_option linter.unusedSectionVars false
set_option linter.unnecessarySimpa false

namespace GqlVerif
namespace C01M
open Serde Spec C13 C03 Codegen C01 C01.E2E

/-! ## `VariantSpreadOp` inside `MixedOp`: same canonical form, same side conditions -/

mutual
  theorem canonFieldM_eq_D (s : Schema) (q : Query) (o : Options) (skip : Bool) : ∀ (x : Sel),
      sSel s q o false x = true → ∀ v, canonFieldM s q skip x v = canonFieldD s q skip x v
    | .field a fid sub => by
      intro h v
      have IH := canonEntriesM_eq_D s q o skip sub
      cases hsf : s.fields[fid]? with
      | none => rw [sSel] at h; simp [hsf] at h
      | some sf =>
        by_cases hobj : ∃ i, sf.ty.id = .object i
        · obtain ⟨i, hid⟩ := hobj
          rw [sSel] at h
          simp only [hsf, hid, Bool.and_eq_true] at h
          have hnl : ∀ g, sub ≠ [Sel.spread g] := fun g hg => not_lone_spread_S h.2.1.2 g hg
          rw [canonFieldM, canonFieldD]
          simp only [hsf, hid]
          have hE : ∀ kvs, canonEntriesM s q skip sub kvs = canonEntriesD s q skip sub kvs := IH h.2.1.2
          simp only [hE]
          congr 1
        · have hno : ∀ i, sf.ty.id ≠ .object i := fun i h => hobj ⟨i, h⟩
          exact canonFieldM_nonobj hsf hno v
    | .spread _ => by intro h; simp [sSel] at h
    | .inline _ _ => by intro h; simp [sSel] at h
    | .typename => by intro _ v; simp [canonFieldM, canonFieldD]
  theorem canonEntriesM_eq_D (s : Schema) (q : Query) (o : Options) (skip : Bool) : ∀ (sels : List Sel),
      sSels s q o false sels = true → ∀ kvs, canonEntriesM s q skip sels kvs = canonEntriesD s q skip sels kvs
    | [] => by intro _ _; simp [canonEntriesM, canonEntriesD]
    | x :: xs => by
      intro h kvs
      obtain ⟨hx, hxs⟩ := sSels_cons h
      have ih := canonEntriesM_eq_D s q o skip xs hxs kvs
      cases x with
      | field a fid sub =>
        rw [canonEntriesM.eq_2, canonEntriesD.eq_2, ih]
        cases hsf : s.fields[fid]? with
        | none => rfl
        | some sf =>
          simp only []
          cases Json.lookup (a.getD sf.name) kvs with
          | none => rfl
          | some v => simp only [canonFieldM_eq_D s q o skip _ hx v]
      | spread g => simp [sSel] at hx
      | inline t sub => simp [sSel] at hx
      | typename => simpa [canonEntriesM, canonEntriesD] using ih
end

/-- **on `VariantSpreadOp` the canonical form is `canonSelD`** -/
theorem canonSelM_eq_D (c : Ctx) (op : ROperation) (h : VariantSpreadOp c op = true) (skip : Bool) (j : Json) :
    canonSelM c.s c.q skip op.sels j = canonSelD c.s c.q skip op.sels j := by
  obtain ⟨_, _, hs, _⟩ := variantSpreadOp_parts h
  rw [canonSelM_not_lone (fun g hg => not_lone_spread_S hs g hg)]
  cases j with
  | obj kvs => simp only [canonSelD, canonEntriesM_eq_D c.s c.q c.o skip op.sels hs kvs]
  | null => rfl
  | bool _ => rfl
  | int _ => rfl
  | num _ => rfl
  | str _ => rfl
  | arr _ => rfl

theorem rustNamesF_noSpread (c : Ctx) : ∀ (sels : List Sel), (∀ g, Sel.spread g ∉ sels) →
    rustNamesF c sels = rustNames c sels
  | [], _ => rfl
  | x :: xs, h => by
    have ih := rustNamesF_noSpread c xs (fun g hm => h g (List.mem_cons_of_mem _ hm))
    cases x with
    | spread g => exact absurd List.mem_cons_self (h g)
    | field a fid sub => simp only [rustNamesF, rustNames, List.filterMap_cons, rustNameF] at ih ⊢; rw [ih]
    | inline t sub => simp only [rustNamesF, rustNames, List.filterMap_cons, rustNameF] at ih ⊢; rw [ih]
    | typename => simp only [rustNamesF, rustNames, List.filterMap_cons, rustNameF] at ih ⊢; rw [ih]

mutual
  theorem rustOkSelM_of_D (c : Ctx) : ∀ (x : Sel), sSel c.s c.q c.o false x = true → rustOkSelD c x = true →
      rustOkSelM c x = true
    | .field a fid sub => by
      intro h hro
      have IH := rustOkSelsM_of_D c sub
      cases hsf : c.s.fields[fid]? with
      | none => rw [sSel] at h; simp [hsf] at h
      | some sf =>
        unfold rustOkSelM
        simp only [hsf, Option.map_some]
        cases hid : sf.ty.id with
        | object i =>
          rw [sSel] at h
          simp only [hsf, hid, Bool.and_eq_true] at h
          have hns := no_spread_of_sSels h.2.1.2
          have hnl : ∀ g, sub ≠ [Sel.spread g] := fun g hg => not_lone_spread_S h.2.1.2 g hg
          rw [rustOkSelD, Bool.and_eq_true, Bool.and_eq_true, isAbsField_of hsf, fieldTy_of hsf] at hro
          simp only [hid, TypeId.isAbstract, Bool.false_eq_true, ↓reduceIte, List.append_nil] at hro
          rw [rustNamesB_noSpread c _ sub hns] at hro
          rw [rustNamesF_noSpread c sub hns, hro.1.1, IH h.2.1.2 hro.1.2]; simp
        | scalar k => exact hro
        | «enum» k => exact hro
        | interface k => exact hro
        | union k => exact hro
        | input k => exact hro
    | .spread _ => by intro h; simp [sSel] at h
    | .inline _ _ => by intro h; simp [sSel] at h
    | .typename => by intro _ _; simp [rustOkSelM]
  theorem rustOkSelsM_of_D (c : Ctx) : ∀ (sels : List Sel), sSels c.s c.q c.o false sels = true →
      rustOkSelsD c sels = true → rustOkSelsM c sels = true
    | [] => by intro _ _; rfl
    | x :: xs => by
      intro h hro
      obtain ⟨hx, hxs⟩ := sSels_cons h
      rw [rustOkSelsD, Bool.and_eq_true] at hro
      rw [rustOkSelsM, rustOkSelM_of_D c x hx hro.1, rustOkSelsM_of_D c xs hxs hro.2]; rfl
end

/-- on `VariantSpreadOp` the side condition `mixedRustOk` is `spreadRustOkD` (the one of `variantspread_roundtrip`) -/
theorem mixedRustOk_of_spreadRustOkD (c : Ctx) (op : ROperation) (h : VariantSpreadOp c op = true)
    (hr : spreadRustOkD c op = true) : mixedRustOk c op = true := by
  obtain ⟨_, _, hs, _⟩ := variantSpreadOp_parts h
  simp only [spreadRustOkD, Bool.and_eq_true] at hr
  simp only [mixedRustOk, Bool.and_eq_true]
  exact ⟨rustOkSelsM_of_D c op.sels hs hr.1, by rw [rustNamesF_noSpread c op.sels (no_spread_of_sSels hs)]; exact hr.2⟩

/-- **`variantspread_roundtrip` is the instance of `mixed_roundtrip` on `VariantSpreadOp`**: same hypotheses, same
    specification (`conformsOpM_eq_S`), same canonical form -/
theorem mixed_roundtrip_on_S (c : Ctx) (opIdx : Nat) (op : ROperation) (items : List Item)
    (hop : c.q.operations[opIdx]? = some op) (ht : VariantSpreadOp c op = true)
    (hgen : responseForQuery c opIdx = .ok items) (hok : moduleOk c items = true)
    (hr : spreadRustOkD c op = true) (j : Json) (hc : conformsOpS c op j = true) :
    Serde.roundtrip (moduleEnv c items) (.path "ResponseData") j =
      .ok (normJson (canonSelD c.s c.q c.o.skipNone op.sels j)) := by
  rw [← canonSelM_eq_D c op ht]
  exact mixed_roundtrip c opIdx op items hop (mixedOp_of_variantSpreadOp c op ht) (mixedKeysOk_of_variantSpreadOp c op ht)
    (mixedRustOk_of_spreadRustOkD c op ht hr) hgen hok j hc

/-! ## `FragmentOp` inside `MixedOp` -/

/-- on `FragmentOp`, for a generated module and a conforming response, the canonical form of `mixed_roundtrip` is the one
    of `fragment_roundtrip` -/
theorem mixed_roundtrip_on_F (c : Ctx) (opIdx : Nat) (op : ROperation) (items : List Item)
    (hop : c.q.operations[opIdx]? = some op) (ht : FragmentOp c op = true) (hk : fragKeysOk c op = true)
    (hr : fragRustOk c op = true) (hrM : mixedRustOk c op = true)
    (hgen : responseForQuery c opIdx = .ok items) (hok : moduleOk c items = true)
    (j : Json) (hc : conformsOpF c op j = true) :
    normJson (canonSelM c.s c.q c.o.skipNone op.sels j) = canonSelF c.s c.q c.o.skipNone op.sels j := by
  have h1 := mixed_roundtrip c opIdx op items hop (mixedOp_of_fragmentOp c op ht) (mixedKeysOk_of_fragKeysOk c op hk) hrM
    hgen hok j hc
  rw [fragment_roundtrip c opIdx op items hop ht hk hr hgen hok j hc] at h1
  exact (Except.ok.inj h1).symm

/-! ## a generated module in neither class -/

def mxSchema : Schema :=
  { objects := [{ name := "Query", fields := [0, 1], implements := [] },
                { name := "Dog", fields := [2, 3], implements := [0] },
                { name := "Cat", fields := [2, 4], implements := [0] }]
    fields := [{ name := "dog", ty := { id := .object 1, quals := [] }, parent := .object 0, deprecation := none },
               { name := "animal", ty := { id := .interface 0, quals := [] }, parent := .object 0, deprecation := none },
               { name := "name", ty := { id := .scalar 1, quals := [.required] }, parent := .interface 0, deprecation := none },
               { name := "barks", ty := { id := .scalar 4, quals := [] }, parent := .object 1, deprecation := none },
               { name := "lives", ty := { id := .scalar 2, quals := [] }, parent := .object 2, deprecation := none }]
    interfaces := [{ name := "Animal", fields := [2] }]
    scalars := ["ID", "String", "Int", "Float", "Boolean"] }

def mxOp (dog animal : List Sel) : ROperation :=
  { name := "Q", kind := .query, objectId := 0, sels := [.field none 0 dog, .field none 1 animal] }

def mxQuery (dog animal : List Sel) : Query :=
  { operations := [mxOp dog animal]
    fragments := [{ name := "DogFields", on := .object 1, sels := [.field none 3 []] },
                  { name := "AnimalName", on := .interface 0, sels := [.typename, .field none 2 []] }] }

def mxCtx (dog animal : List Sel) : Ctx := { s := mxSchema, q := mxQuery dog animal, o := {}, cs := ⟨id, id⟩ }

/-- `dog { ...DogFields }` -/
def mxDog : List Sel := [.spread 0]
/-- `animal { __typename ...AnimalName ...DogFields }` -/
def mxAnimal : List Sel := [.typename, .spread 1, .spread 0]

def mxItems : List Item := okOr (responseForQuery (mxCtx mxDog mxAnimal) 0)

theorem mx_gen : responseForQuery (mxCtx mxDog mxAnimal) 0 = .ok mxItems := gen_of_isOk (by decide +kernel)
theorem mx_class : MixedOp (mxCtx mxDog mxAnimal) (mxOp mxDog mxAnimal) = true := by decide +kernel
/-- the operation is not in `FragmentOp` (a spread at an abstract position) … -/
theorem mx_not_F : FragmentOp (mxCtx mxDog mxAnimal) (mxOp mxDog mxAnimal) = false := by decide +kernel
/-- … and not in `VariantSpreadOp` (a spread at an object position) -/
theorem mx_not_S : VariantSpreadOp (mxCtx mxDog mxAnimal) (mxOp mxDog mxAnimal) = false := by decide +kernel
theorem mx_keys : mixedKeysOk (mxCtx mxDog mxAnimal) (mxOp mxDog mxAnimal) = true := by decide +kernel
theorem mx_rust : mixedRustOk (mxCtx mxDog mxAnimal) (mxOp mxDog mxAnimal) = true := by decide +kernel
theorem mx_ok : moduleOk (mxCtx mxDog mxAnimal) mxItems = true := by decide +kernel

/-- the emitted types: `Qdog` is the alias of the fragment struct; `Qanimal` has the flattened member for `AnimalName` and the
    flattened `on`; the variant `Dog` is the alias of the fragment struct `DogFields` -/
theorem mx_items_shape :
    ((moduleEnv (mxCtx mxDog mxAnimal) mxItems).find "Qdog" == some (.alias "Qdog" true (.path "DogFields"))) &&
    ((moduleEnv (mxCtx mxDog mxAnimal) mxItems).find "Qanimal" ==
      some (.struct "Qanimal" ["Deserialize"] (some "::serde")
        [{ rust := "AnimalName", ty := .path "AnimalName", flatten := true },
         { rust := "on", ty := .path "QanimalOn", flatten := true }])) &&
    ((moduleEnv (mxCtx mxDog mxAnimal) mxItems).find "QanimalOnDog" ==
      some (.alias "QanimalOnDog" true (.path "DogFields"))) = true := by
  decide +kernel

def mxJson : Json :=
  .obj [("dog", .obj [("barks", .bool true)]),
        ("animal", .obj [("__typename", .str "Dog"), ("name", .str "Rex"), ("barks", .bool false)])]

def mxJsonCat : Json :=
  .obj [("dog", .null), ("animal", .obj [("name", .str "Tom"), ("__typename", .str "Cat")])]

macro "confM_eval" : tactic => `(tactic|
  simp [conformsOpM, mxCtx, mxOp, mxQuery, expandSels, expandSel, conformsV, confSelsV, confSelV, keysSelsV, keysSelV,
    fragApplies, rtName, mxSchema, Json.lookup, accepts, acceptsNN, gtyOf, scalarOk, floatOk, stringOk, boolOk,
    Json.isNull, EnumSpec.nodup, List.range, List.range.loop, conformsAt, Schema.implementors, List.zipIdx])

set_option maxRecDepth 8000 in
theorem mx_conforms : conformsOpM (mxCtx mxDog mxAnimal) (mxOp mxDog mxAnimal) mxJson = true := by
  simp only [mxDog, mxAnimal, mxJson]; confM_eval
set_option maxRecDepth 8000 in
theorem mx_conformsCat : conformsOpM (mxCtx mxDog mxAnimal) (mxOp mxDog mxAnimal) mxJsonCat = true := by
  simp only [mxDog, mxAnimal, mxJsonCat]; confM_eval

macro "canonM_eval" : tactic => `(tactic|
  simp [canonSelM, canonEntriesM, canonFieldM, canonSelV, canonSelD, canonEntriesD, canonFieldD, loneG, canonEntriesBD,
    canonVarD, onNamed, absEntries, absRest, hasStruct, isBSpread, isFieldSel, canonAbsV, canonEntriesV, canonFieldV,
    canonInlV, tagName, fragSels, mxOp, mxQuery, mxSchema, objName, rtName, fieldKeys, fieldKey, Json.lookup, canon, canonNN,
    gtyOf, Json.isNull, skipQ, normJson, normKvs, normList, Json.normObj, Json.insert])

set_option maxRecDepth 8000 in
theorem mx_canon :
    normJson (canonSelM mxSchema (mxQuery mxDog mxAnimal) false (mxOp mxDog mxAnimal).sels mxJson) =
      .obj [("dog", .obj [("barks", .bool true)]),
            ("animal", .obj [("name", .str "Rex"), ("__typename", .str "Dog"), ("barks", .bool false)])] := by
  simp only [mxDog, mxAnimal, mxJson]; canonM_eval

/-- **`mixed_roundtrip` on the generated module**: the payload is accepted and written back (the entries of `AnimalName` —
    `name`, `__typename` — first, `__typename` once, then the entry of the variant's fragment `DogFields`) -/
theorem mx_roundtrip :
    Serde.roundtrip (moduleEnv (mxCtx mxDog mxAnimal) mxItems) (.path "ResponseData") mxJson =
      .ok (.obj [("dog", .obj [("barks", .bool true)]),
                 ("animal", .obj [("name", .str "Rex"), ("__typename", .str "Dog"), ("barks", .bool false)])]) := by
  rw [mixed_roundtrip (mxCtx mxDog mxAnimal) 0 (mxOp mxDog mxAnimal) mxItems rfl mx_class mx_keys mx_rust mx_gen mx_ok mxJson
    mx_conforms]
  exact congrArg Except.ok mx_canon

/-- … and a `Cat` (unit variant; `dog` null) is accepted -/
theorem mx_acceptsCat :
    ∃ v, Serde.de (moduleEnv (mxCtx mxDog mxAnimal) mxItems) (.path "ResponseData") mxJsonCat = .ok v :=
  mixed_accepts (mxCtx mxDog mxAnimal) 0 (mxOp mxDog mxAnimal) mxItems rfl mx_class mx_keys mx_gen mx_ok mxJsonCat
    mx_conformsCat

/-- C03 on the module: what `ResponseData` accepts, exactly -/
theorem mx_precise (j : Json) :
    okB (Serde.de (moduleEnv (mxCtx mxDog mxAnimal) mxItems) (.path "ResponseData") j) =
      conformsLooseM mxSchema (mxQuery mxDog mxAnimal) {} false (mxOp mxDog mxAnimal).sels j :=
  mixed_precise_iff (mxCtx mxDog mxAnimal) 0 (mxOp mxDog mxAnimal) mxItems rfl mx_class mx_keys mx_gen mx_ok j

/-! ### the same with a struct with a flattened member at the object position: `dog { name ...DogFields }` -/

def mx2Dog : List Sel := [.field none 2 [], .spread 0]

def mx2Items : List Item := okOr (responseForQuery (mxCtx mx2Dog mxAnimal) 0)

theorem mx2_gen : responseForQuery (mxCtx mx2Dog mxAnimal) 0 = .ok mx2Items := gen_of_isOk (by decide +kernel)
theorem mx2_class : MixedOp (mxCtx mx2Dog mxAnimal) (mxOp mx2Dog mxAnimal) = true := by decide +kernel
theorem mx2_not_F : FragmentOp (mxCtx mx2Dog mxAnimal) (mxOp mx2Dog mxAnimal) = false := by decide +kernel
theorem mx2_not_S : VariantSpreadOp (mxCtx mx2Dog mxAnimal) (mxOp mx2Dog mxAnimal) = false := by decide +kernel
theorem mx2_keys : mixedKeysOk (mxCtx mx2Dog mxAnimal) (mxOp mx2Dog mxAnimal) = true := by decide +kernel
theorem mx2_rust : mixedRustOk (mxCtx mx2Dog mxAnimal) (mxOp mx2Dog mxAnimal) = true := by decide +kernel
theorem mx2_ok : moduleOk (mxCtx mx2Dog mxAnimal) mx2Items = true := by decide +kernel

theorem mx2_items_shape :
    ((moduleEnv (mxCtx mx2Dog mxAnimal) mx2Items).find "Qdog" ==
      some (.struct "Qdog" ["Deserialize"] (some "::serde")
        [{ rust := "name", ty := .path "String" },
         { rust := "DogFields", ty := .path "DogFields", flatten := true }])) = true := by
  decide +kernel

def mx2Json : Json :=
  .obj [("dog", .obj [("barks", .null), ("name", .str "Rex")]),
        ("animal", .obj [("__typename", .str "Dog"), ("name", .str "Rex"), ("barks", .bool false)])]

set_option maxRecDepth 8000 in
theorem mx2_conforms : conformsOpM (mxCtx mx2Dog mxAnimal) (mxOp mx2Dog mxAnimal) mx2Json = true := by
  simp only [mx2Dog, mxAnimal, mx2Json]; confM_eval

set_option maxRecDepth 8000 in
theorem mx2_canon :
    normJson (canonSelM mxSchema (mxQuery mx2Dog mxAnimal) false (mxOp mx2Dog mxAnimal).sels mx2Json) =
      .obj [("dog", .obj [("name", .str "Rex"), ("barks", .null)]),
            ("animal", .obj [("name", .str "Rex"), ("__typename", .str "Dog"), ("barks", .bool false)])] := by
  simp only [mx2Dog, mxAnimal, mx2Json]; canonM_eval

theorem mx2_roundtrip :
    Serde.roundtrip (moduleEnv (mxCtx mx2Dog mxAnimal) mx2Items) (.path "ResponseData") mx2Json =
      .ok (.obj [("dog", .obj [("name", .str "Rex"), ("barks", .null)]),
                 ("animal", .obj [("name", .str "Rex"), ("__typename", .str "Dog"), ("barks", .bool false)])]) := by
  rw [mixed_roundtrip (mxCtx mx2Dog mxAnimal) 0 (mxOp mx2Dog mxAnimal) mx2Items rfl mx2_class mx2_keys mx2_rust mx2_gen mx2_ok
    mx2Json mx2_conforms]
  exact congrArg Except.ok mx2_canon

/-! ### the side condition `mixedKeysOk` is needed

`fragment_overlap_loses_key` (`C01AbstractH`) is a `FragmentOp` — hence `MixedOp` — operation where a fragment spread at an
object position shares a key with a sibling and the generated `ResponseData` rejects a conforming response: the same witness
shows that `mixedKeysOk` cannot be dropped from `mixed_accepts`.  The conditions at abstract positions are part of the class
(`absOkS`); their necessity: `variantspread_overlap_*`, `variantspread_b_overlap_loses_key`,
`variantspread_b_merge_loses_fields` (`C01VariantSpread`, `C01VariantSpreadE`). -/

end C01M
end GqlVerif
