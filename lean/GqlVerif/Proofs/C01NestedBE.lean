import GqlVerif.Proofs.C01NestedBD
/-!
# C01 / C03 end to end (`NestedBOp`), part E: acyclicity from the class; the emitted module; `nestedb_precise_iff`

* `spreadIds_classA`, `nestedb_reachRanked`, **`nestedb_module_envOK`** — as `C01NestedK`: the ranks of the class make the
  reachable spread graph acyclic, so the module is `EnvOK` / `EnvOKS` (fuel independence) with no hypothesis on the document;
* `envSelA_of` / `envSelsA_of`, `topEnvA_of_module` — the environment hypotheses of parts C / D hold for the emitted module;
* **`nestedb_precise_iff`** (C03): `Serde.de (moduleEnv c items) ResponseData j` succeeds **iff** `conformsLooseA …`.

Copy of `C01NestedGenXE` for the class `NestedBOp`; what differs: a (b)-spread is a spread-free fragment on the abstract type
(`FragOkAny`, second alternative: `mem_spreadIdss_unB`), its items are in the module (`FragsInB`, `fragEnvS_of_B` of
`C01VariantSpreadT`), which gives the new component of `EnvAbsB` (`envSelsS_of_spreads`).
-/
set_option linter.unusedSimpArgs false
set_option linter.unusedVariables false
set_option linter.unusedSectionVars false
set_option linter.unnecessarySimpa false

namespace GqlVerif
namespace C01NB
open Serde Spec C13 C03 Codegen C01 C01.E2E C01M C01N C01NA C01NG C01NX

theorem spreadIdss_leafs {s : Schema} {q : Query} {o : Options} : ∀ {isub : List Sel}, (∀ y ∈ isub, isFieldSel y = true) →
    (∀ y ∈ isub, leafSel s q o y = true) → spreadIdss isub = []
  | [], _, _ => rfl
  | y :: ys, hf, hl => by
    have ih := spreadIdss_leafs (fun z hz => hf z (List.mem_cons_of_mem _ hz)) (fun z hz => hl z (List.mem_cons_of_mem _ hz))
    cases y with
    | field a fid sub' =>
      obtain ⟨_, _, _, _, hnil, _⟩ := leafSel_field (hl _ (List.mem_cons_self))
      subst hnil
      rw [spreadIdss, ih]; simp [spreadIds, spreadIdss]
    | spread g => have := hf _ (List.mem_cons_self); simp [isFieldSel] at this
    | inline t sub' => have := hf _ (List.mem_cons_self); simp [isFieldSel] at this
    | typename => have := hf _ (List.mem_cons_self); simp [isFieldSel] at this

/-- the interface-level fields and the inline fragments with (leaf) fields spread nothing -/
theorem mem_spreadIdss_unbody {s : Schema} {q : Query} {o : Options} {vts : List TypeId} {sub0 : List Sel} : ∀ {sub : List Sel},
    (∀ x ∈ sub, leafSel s q o x = true) → (∀ x ∈ sub, isBody x = true → bodyOk s q o vts sub0 x = true) →
    ∀ g ∈ spreadIdss sub, g ∈ spreadIdss (strip (unbody sub))
  | [], _, _, g, hg => by simp [spreadIdss] at hg
  | x :: xs, hl, hb, g, hg => by
    have ih := mem_spreadIdss_unbody (fun y hy => hl y (List.mem_cons_of_mem _ hy))
      (fun y hy => hb y (List.mem_cons_of_mem _ hy))
    rw [spreadIdss, List.mem_append] at hg
    by_cases hk : isBody x = false ∧ isFieldSel x = false
    · have hs : strip (unbody (x :: xs)) = x :: strip (unbody xs) := by
        simp [strip, unbody, List.filter_cons, hk.1, hk.2]
      rw [hs, spreadIdss, List.mem_append]
      exact hg.imp id (ih g)
    · have hs : strip (unbody (x :: xs)) = strip (unbody xs) := by
        by_cases h1 : isBody x = true
        · simp [strip, unbody, List.filter_cons, h1]
        · have h1' : isBody x = false := by simpa using h1
          have h2 : isFieldSel x = true := by
            cases h2 : isFieldSel x with
            | true => rfl
            | false => exact absurd ⟨h1', h2⟩ hk
          simp [strip, unbody, List.filter_cons, h1', h2]
      rw [hs]
      rcases hg with hg | hg
      · exfalso
        by_cases h1 : isBody x = true
        · obtain ⟨t, isub, rfl, _, hall⟩ := isBody_inline h1
          have := hb _ (List.mem_cons_self) h1
          simp only [bodyOk, Bool.and_eq_true, List.all_eq_true] at this
          rw [spreadIds, spreadIdss_leafs hall this.1.2] at hg
          cases hg
        · have h1' : isBody x = false := by simpa using h1
          cases x with
          | field a fid sub' =>
            obtain ⟨_, _, _, _, hnil, _⟩ := leafSel_field (hl _ (List.mem_cons_self))
            subst hnil
            simp [spreadIds, spreadIdss] at hg
          | spread g' => exact hk ⟨h1', rfl⟩
          | inline t sub' => exact hk ⟨h1', rfl⟩
          | typename => exact hk ⟨h1', rfl⟩
      · exact ih g hg

theorem memFrags_src {q : Query} {vt : TypeId} {sub : List Sel} {g : Nat} (hg : g ∈ memFrags q vt sub) :
    Sel.spread g ∈ sub ∨ ∃ t, Sel.inline t [Sel.spread g] ∈ sub := by
  unfold memFrags at hg
  rcases List.mem_append.mp hg with hg | hg
  · obtain ⟨x, hx, hxg⟩ := List.mem_filterMap.mp hg
    cases x with
    | spread g' => simp only [spreadId, Option.some.injEq] at hxg; subst hxg; exact .inl (mem_mineOf hx).1
    | field a fid sub' => simp [spreadId] at hxg
    | inline t sub' => simp [spreadId] at hxg
    | typename => simp [spreadId] at hxg
  · obtain ⟨x, hx, hxg⟩ := List.mem_filterMap.mp hg
    obtain ⟨t, rfl⟩ := aliasInl_some hxg
    exact .inr ⟨t, (mem_mineOf hx).1⟩

theorem mem_itemsAs {c : Ctx} {pfx : String} {it : Item} : ∀ {sels : List Sel} {x : Sel}, x ∈ sels →
    it ∈ itemsA c pfx x → it ∈ itemsAs c pfx sels
  | [], _, h, _ => by simp at h
  | y :: ys, x, h, hit => by
    rw [itemsAs, List.mem_append]
    rcases List.mem_cons.mp h with rfl | h'
    · exact .inl hit
    · exact .inr (mem_itemsAs h' hit)

/-- a spread reachable in a selection set with (b)-spreads: reachable without them, or a (b)-spread -/
theorem mem_spreadIdss_unB (q : Query) (ty : TypeId) : ∀ (sub : List Sel), ∀ g ∈ spreadIdss sub,
    g ∈ spreadIdss (unB q ty sub) ∨ (Sel.spread g ∈ sub ∧ isBSpread q ty (.spread g) = true)
  | [], g, hg => by simp [spreadIdss] at hg
  | x :: xs, g, hg => by
    rw [spreadIdss, List.mem_append] at hg
    have ih := mem_spreadIdss_unB q ty xs g
    cases hb : isBSpread q ty x with
    | true =>
      obtain ⟨g', f, rfl, hf, hon⟩ := isBSpread_spread hb
      rcases hg with hg | hg
      · simp only [spreadIds, List.mem_singleton] at hg
        subst hg
        exact .inr ⟨by simp, hb⟩
      · rcases ih hg with h | ⟨h1, h2⟩
        · left
          have : unB q ty (Sel.spread g' :: xs) = unB q ty xs := by simp [unB, List.filter_cons, hb]
          rw [this]; exact h
        · exact .inr ⟨List.mem_cons_of_mem _ h1, h2⟩
    | false =>
      have : unB q ty (x :: xs) = x :: unB q ty xs := by simp [unB, List.filter_cons, hb]
      rw [this, spreadIdss, List.mem_append]
      rcases hg with hg | hg
      · exact .inl (.inl hg)
      · rcases ih hg with h | ⟨h1, h2⟩
        · exact .inl (.inr h)
        · exact .inr ⟨List.mem_cons_of_mem _ h1, h2⟩

theorem envSelsS_of_spreads {e : Env} {c : Ctx} {pfx : String} : ∀ (l : List Sel),
    (∀ x ∈ l, ∃ g, x = Sel.spread g ∧ FragEnvS e c g) → envSelsS e c pfx l
  | [], _ => by simp [envSelsS]
  | x :: xs, h => by
    rw [envSelsS]
    refine ⟨?_, envSelsS_of_spreads xs (fun y hy => h y (List.mem_cons_of_mem _ hy))⟩
    obtain ⟨g, rfl, hg⟩ := h x (by simp)
    rw [envSelS]; exact hg

mutual
  theorem spreadIds_classA (ok : TypeId → Nat → Bool) (s : Schema) (q : Query) (o : Options) : ∀ (x : Sel) (p : Nat),
      aSel ok s q o (.object p) x = true → ∀ g ∈ spreadIds x, FragOkAny s q o g ∨ ∃ p', ok (.object p') g = true
    | .field a fid sub, p => by
      intro ht g hg
      have IH := spreadIdss_classA ok s q o sub
      obtain ⟨sf, hsf⟩ := aSel_field_some ht
      by_cases hobj : ∃ i, sf.ty.id = .object i
      · obtain ⟨i, hid⟩ := hobj
        obtain ⟨_, _, _, hbody⟩ := aSel_obj hsf hid ht
        rw [spreadIds] at hg
        by_cases hsp : ∃ g', sub = [Sel.spread g']
        · obtain ⟨g', rfl⟩ := hsp
          simp only [spreadIdss, spreadIds, List.append_nil, List.mem_singleton] at hg
          subst hg
          exact .inr ⟨i, hbody⟩
        · have hnl : ∀ g, sub ≠ [Sel.spread g] := fun g hg => hsp ⟨g, hg⟩
          rw [aBody_not_lone hnl] at hbody
          exact IH i hbody g hg
      · have hno : ∀ i, sf.ty.id ≠ .object i := fun i h => hobj ⟨i, h⟩
        rcases aSel_nonobj hsf hno ht with hs | ⟨_, hnew⟩
        · exact .inl (fragOk_of_spreadIdS s q o _ false hs g hg (by simp))
        · obtain ⟨_, _, hty, hsubA⟩ := absFieldB_parts hnew
          have hsb := absSubB_parts hsubA
          have hsg := hsb.x
          have hsp := hsg.gen.abs
          rw [spreadIds] at hg
          rcases mem_spreadIdss_unB q sf.ty.id sub g hg with hg' | ⟨hm, hb⟩
          · obtain ⟨vt, hvt, hokg⟩ := spreadIdss_special hsp g (mem_spreadIdss_unbody hsg.leaf hsg.body g hg')
            obtain ⟨i, rfl, _⟩ := hsp.obj vt hvt
            exact .inr ⟨i, hokg⟩
          · exact .inl (.inr ⟨sf.ty.id, hty, (hsb.b g hm hb).okB⟩)
    | .spread g', p => by
      intro ht g hg
      simp only [spreadIds, List.mem_singleton] at hg
      subst hg
      exact .inr ⟨p, by simpa [aSel] using ht⟩
    | .inline _ _, _ => by intro ht; simp [aSel] at ht
    | .typename, _ => by intro _ g hg; simp [spreadIds] at hg
  theorem spreadIdss_classA (ok : TypeId → Nat → Bool) (s : Schema) (q : Query) (o : Options) :
      ∀ (sels : List Sel) (p : Nat), aSels ok s q o (.object p) sels = true →
      ∀ g ∈ spreadIdss sels, FragOkAny s q o g ∨ ∃ p', ok (.object p') g = true
    | [], _ => by intro _ g hg; simp [spreadIdss] at hg
    | x :: xs, p => by
      intro ht g hg
      obtain ⟨hx, hxs⟩ := aSels_cons ht
      rw [spreadIdss, List.mem_append] at hg
      rcases hg with hg | hg
      · exact spreadIds_classA ok s q o x p hx g hg
      · exact spreadIdss_classA ok s q o xs p hxs g hg
end

theorem spreadIdss_class_bodyA {ok : TypeId → Nat → Bool} {s : Schema} {q : Query} {o : Options} {p : Nat}
    {sels : List Sel} (h : aBody ok s q o (.object p) sels = true) :
    ∀ g ∈ spreadIdss sels, FragOkAny s q o g ∨ ∃ p', ok (.object p') g = true := by
  by_cases hsp : ∃ g', sels = [Sel.spread g']
  · obtain ⟨g', rfl⟩ := hsp
    intro g hg
    simp only [spreadIdss, spreadIds, List.append_nil, List.mem_singleton] at hg
    subst hg
    exact .inr ⟨p, h⟩
  · have hnl : ∀ g, sels ≠ [Sel.spread g] := fun g hg => hsp ⟨g, hg⟩
    rw [aBody_not_lone hnl] at h
    exact spreadIdss_classA ok s q o sels p h


/-- **the reachable fragments of an operation of `NestedBOp` are ranked along same-type spreads** -/
theorem nestedb_reachRanked (c : Ctx) (op : ROperation) (ht : NestedBOp c op = true) :
    AcyclicM.ReachRanked c.q op.sels (rhoN c) := by
  obtain ⟨_, _, hsels⟩ := nestedBOp_parts ht
  -- the fragments reachable from the operation
  let G : Nat → Prop := fun g => FragOkAny c.s c.q c.o g ∨
    ∃ i, fragOkN c.s c.q c.o c.q.fragments.length (.object i) g = true
  have hfree : ∀ g, FragOkAny c.s c.q c.o g → ∀ f, c.q.fragments[g]? = some f → ∀ h, Sel.spread h ∉ f.sels := by
    intro g hg f hf h
    rcases hg with ⟨i, hg⟩ | ⟨ty, _, hg⟩
    · obtain ⟨f', hf', _, _, hv, _⟩ := fragOk_parts hg
      rw [hf] at hf'; cases hf'
      exact no_spread_of_vSels hv h
    · obtain ⟨f', hf', _, _, hv, _⟩ := fragOkB_parts hg
      rw [hf] at hf'; cases hf'
      exact no_spread_of_vSels hv h
  have hfree' : ∀ g, FragOkAny c.s c.q c.o g → spreadIdss (fragSels c.q g) = [] := by
    intro g hg
    rcases hg with ⟨i, hg⟩ | ⟨ty, _, hg⟩
    · obtain ⟨f, hf, _, _, hv, _⟩ := fragOk_parts hg
      have : fragSels c.q g = f.sels := by simp [fragSels, hf]
      rw [this]; exact spreadIdss_noSpreads f.sels (noSpreads_of_vSels c.s c.o f.sels false hv)
    · obtain ⟨f, hf, _, _, hv, _⟩ := fragOkB_parts hg
      have : fragSels c.q g = f.sels := by simp [fragSels, hf]
      rw [this]; exact spreadIdss_noSpreads f.sels (noSpreads_of_vSels c.s c.o f.sels true hv)
  have hcl : ∀ g, G g → ∀ h ∈ spreadIdss (fragSels c.q g), G h := by
    intro g hg h hh
    rcases hg with hg | ⟨i, hg⟩
    · rw [hfree' g hg] at hh; cases hh
    · rcases fragOkN_cases hg with hg0 | ⟨r', hr', hnew⟩
      · rw [hfree' g (.inl ⟨i, hg0⟩)] at hh; cases hh
      · obtain ⟨f, hf, hon, _, _, hnl, hb⟩ := fragNew_parts hnew
        have : fragSels c.q g = f.sels := by simp [fragSels, hf]
        rw [this] at hh
        rw [hon] at hb
        rcases spreadIdss_classN _ c.s c.q c.o f.sels i hb h hh with h1 | ⟨p', h1⟩
        · exact .inl h1
        · exact .inr ⟨p', fragOkN_le (by omega) h1⟩
  have h0 : ∀ h ∈ spreadIdss op.sels, G h := by
    intro h hh
    rcases spreadIdss_class_bodyA hsels h hh with h1 | ⟨p', h1⟩
    · exact .inl h1
    · exact .inr ⟨p', h1⟩
  intro g hr f hf h hh
  have hG : G g := AcyclicM.reach_spread_in_closed c.q G hcl h0 hr
  have hmem : Sel.spread h ∈ f.sels := AcyclicM.mem_topSpreads.mp (AcyclicM.jumpSpreads_sub_top c.q f h hh)
  rcases hG with hg | ⟨i, hg⟩
  · exact absurd hmem (hfree g hg f hf h)
  · obtain ⟨f', hf', hon, _, _⟩ := fragOkN_spec c.s c.q c.o _ _ g hg
    rw [hf] at hf'; cases hf'
    have hfon : fragOn c.q g = .object i := by simp [fragOn, hf, hon]
    have hmono : ∀ (g' : Nat) (p : TypeId) r, (fun r => fragOkN c.s c.q c.o r p g') r = true →
        (fun r => fragOkN c.s c.q c.o r p g') (r + 1) = true := fun g' p r h' => fragOkN_succ h'
    rcases firstOk_cases (P := fun r => fragOkN c.s c.q c.o r (fragOn c.q g) g) c.q.fragments.length
        (by rw [hfon]; exact hg) with ⟨_, h00⟩ | ⟨r0, hrho, hno, hyes⟩
    · -- rank `0`: spread-free
      rw [hfon] at h00
      have : fragOk c.s c.q c.o (.object i) g = true := by simpa [fragOkN] using h00
      exact absurd hmem (hfree g (.inl ⟨i, this⟩) f hf h)
    · rw [hfon] at hno hyes
      have hno' : fragOkN c.s c.q c.o r0 (.object i) g = false := hno
      have hyes' : fragOkN c.s c.q c.o (r0 + 1) (.object i) g = true := hyes
      rw [fragOkN, hno', Bool.false_or] at hyes'
      have hyes := hyes'
      obtain ⟨f', hf', _, _, _, _, hb⟩ := fragNew_parts hyes
      rw [hf] at hf'; cases hf'
      have hokh : fragOkN c.s c.q c.o r0 f.on h = true := by simpa [nSel] using nSels_mem hb _ hmem
      obtain ⟨fh, hfh, honh, _, _⟩ := fragOkN_spec c.s c.q c.o _ _ h hokh
      have hfonh : fragOn c.q h = f.on := by simp [fragOn, hfh, honh]
      have hle : rhoN c h ≤ r0 :=
        firstOk_le (P := fun r => fragOkN c.s c.q c.o r (fragOn c.q h) h) (hmono h _) (by rw [hfonh]; exact hokh) _
      have : rhoN c g = r0 + 1 := hrho
      omega

/-- **the module of an operation of `NestedBOp` is `EnvOK` and `EnvOKS`** (no fuel exhaustion, fuel independence), with no
    acyclicity hypothesis on the document -/
theorem nestedb_module_envOK {c : Ctx} {opIdx : Nat} {op : ROperation} {items : List Item}
    (hop : c.q.operations[opIdx]? = some op) (ht : NestedBOp c op = true)
    (hgen : responseForQuery c opIdx = .ok items) (hok : moduleOk c items = true) :
    SerdeFuel.EnvOK (moduleEnv c items) ∧ SerdeFuel.EnvOKS (moduleEnv c items) :=
  AcyclicM.module_envOK_of_reachRanked hop (nestedb_reachRanked c op ht) hgen hok


theorem bodyEnvA_mk {fenv : Nat → Prop} {e : Env} {c : Ctx} {name pfx : String} {sels : List Sel}
    (hnl : ∀ g, sels ≠ [Sel.spread g])
    (h : StructEnv e name (fieldsOfF c pfx sels) ∧ envSelsA fenv e c pfx sels) : BodyEnvA fenv e c name pfx sels := by
  unfold BodyEnvA
  split
  · exact absurd rfl (hnl _)
  · exact h

section EnvOfA
variable {c : Ctx} {items : List Item} {u : UsedTypes} {root : List Sel} (M : ModFacts c items u root)
  (hfr : FragsIn c items root) (hfrB : FragsInB c items root)
include M hfr hfrB

mutual
  theorem envSelA_of {ok : TypeId → Nat → Bool} {fenv : Nat → Prop} (hok : OkSpec c.q ok)
      (hfenv : ∀ p g, ok (.object p) g = true → C02.Reach c.q root (.spread g) → fenv g) :
      ∀ (x : Sel) (pfx : String) (p : Nat), aSel ok c.s c.q c.o (.object p) x = true →
      (∀ it ∈ itemsA c pfx x, it ∈ items) → C02.Reach c.q root x → envSelA fenv (moduleEnv c items) c pfx x
    | .field a fid sub, pfx, p => by
      intro ht hit hr
      have IH := envSelsA_of hok hfenv sub
      obtain ⟨sf, hsf⟩ := aSel_field_some ht
      by_cases hobj : ∃ i, sf.ty.id = .object i
      · obtain ⟨i, hid⟩ := hobj
        obtain ⟨_, _, _, hbody⟩ := aSel_obj hsf hid ht
        rw [itemsA] at hit
        rw [envSelA]
        simp only [hsf, hid] at hit ⊢
        by_cases hsp : ∃ g, sub = [Sel.spread g]
        · obtain ⟨g, rfl⟩ := hsp
          simp only at hit ⊢
          have hokg : ok (.object i) g = true := hbody
          exact ⟨aliasEnv_of M hfr _ _ (hit _ (by simp)), hfenv i g hokg (reach_step hr (by simp))⟩
        · have hnl : ∀ g, sub ≠ [Sel.spread g] := fun g hg => hsp ⟨g, hg⟩
          rw [aBody_not_lone hnl] at hbody
          have hit' : ∀ it ∈ (Item.struct (pfx ++ c.cs.camel (a.getD sf.name)) c.respDerives c.serdeCrate
              (fieldsOfF c (pfx ++ c.cs.camel (a.getD sf.name)) sub) ::
              itemsAs c (pfx ++ c.cs.camel (a.getD sf.name)) sub), it ∈ items := by
            revert hit
            split
            · exact absurd rfl (hnl _)
            · exact id
          split
          · exact absurd rfl (hnl _)
          · exact ⟨structEnv_of M _ _ (hit' _ (by simp)),
              IH _ i hbody (fun x hx it h => hit' it (by simp [mem_itemsAs hx h]))
                (fun y hy => reach_step hr hy)⟩
      · have hno : ∀ i, sf.ty.id ≠ .object i := fun i h => hobj ⟨i, h⟩
        rcases aSel_nonobj hsf hno ht with hs | ⟨hs, hnew⟩
        · rw [itemsA_old c pfx a fid sub sf hsf hno hs] at hit
          have := envSelS_of M hfr hfrB _ pfx false hs (by simpa [allItemsS] using hit) hr (fun g hg => by cases hg)
          rw [envSelA]
          simp only [hsf]
          cases hid : sf.ty.id with
          | object i => exact absurd hid (hno i)
          | scalar k => simpa only [hid, hs, if_true] using this
          | «enum» k => simpa only [hid, hs, if_true] using this
          | interface k => simpa only [hid, hs, if_true] using this
          | union k => simpa only [hid, hs, if_true] using this
          | input k => simpa only [hid, hs, if_true] using this
        · rw [itemsA_new c pfx a fid sub sf hsf hno hs] at hit
          obtain ⟨_, _, hty, hsubA⟩ := absFieldB_parts hnew
          have hsb := absSubB_parts hsubA
          have hsg := hsb.x
          have hsp := hsg.gen.abs
          have hrU : ∀ {y : Sel}, y ∈ unB c.q sf.ty.id sub → C02.Reach c.q root y :=
            fun hy => reach_step hr (mem_unB.mp hy).1
          have hE : EnvAbsB fenv (moduleEnv c items) c (pfx ++ c.cs.camel (a.getD sf.name)) sf.ty.id sub := by
            refine ⟨?_, ?_, ?_, fun vt hvt => ?_⟩
            · have hvs := variantsV_ne_nil c rfl rfl (pfx ++ c.cs.camel (a.getD sf.name)) (marks c.q (unB c.q sf.ty.id sub)) hsp.ne
              apply absEnv_of M _ _ _ hvs
              intro it hit'
              apply hit
              unfold absItemsB
              exact List.mem_append_left _ hit'
            · apply envSelsS_of M hfr hfrB (C01NG.ownSels sub) _ true (sSels_ownSels sub hsb.leaf)
              · intro x hx it hit'
                obtain ⟨hxs, hxf⟩ := List.mem_filter.mp hx
                cases x with
                | field a' fid' sub' =>
                  obtain ⟨sf', hsf', _, _, _, hty'⟩ := leafSel_field (hsb.leaf _ hxs)
                  rcases hty' with ⟨k, sn, hid, hk⟩ | ⟨k, en, hid, hk⟩
                  · simp [allItemsS, itemsS, hsf', hid] at hit'
                  · simp [allItemsS, itemsS, hsf', hid] at hit'
                | spread g => simp [isFieldSel] at hxf
                | inline t sub' => simp [isFieldSel] at hxf
                | typename => simp [isFieldSel] at hxf
              · intro x hx
                exact reach_step hr (List.mem_filter.mp hx).1
              · intro g hg
                have := (List.mem_filter.mp hg).2
                simp [isFieldSel] at this
            · apply envSelsS_of_spreads
              intro x hx
              obtain ⟨hm, hb⟩ := mem_bSels.mp hx
              obtain ⟨g, f, rfl, _, _⟩ := isBSpread_spread hb
              exact ⟨g, rfl, fragEnvS_of_B M hfr hfrB g sf.ty.id hty (reach_step hr hm) (hsb.b g hm hb).okB⟩
            · obtain ⟨i, rfl, _⟩ := hsp.obj vt hvt
              have hmineX := hsg.mine hok hvt
              have hin : ∀ it ∈ variantHeadX c (pfx ++ c.cs.camel (a.getD sf.name)) (.object i) (unB c.q sf.ty.id sub), it ∈ items := by
                intro it hit'
                apply hit
                unfold absItemsB
                apply List.mem_append_right
                exact List.mem_flatMap.mpr ⟨_, hvt, hit'⟩
              have hreachX : ∀ g ∈ memFrags c.q (.object i) (unB c.q sf.ty.id sub),
                  ok (.object i) g = true ∧ C02.Reach c.q root (.spread g) := by
                intro g hg
                refine ⟨memFrags_okX hmineX hg, ?_⟩
                rcases memFrags_src hg with hm | ⟨t, hm⟩
                · exact hrU hm
                · exact reach_step_inline (hrU hm) (by simp)
              unfold VarEnvX
              split
              · rename_i hbody
                rw [variantHeadX_body hbody] at hin
                refine ⟨structEnv_of M _ _ (hin _ (by simp)), ?_, fun g hg => hfenv i g (hreachX g hg).1 (hreachX g hg).2⟩
                have hvs : ∀ x ∈ C01NG.ownSels (varSels c.q (.object i) (unB c.q sf.ty.id sub)), ∃ t isub, Sel.inline t isub ∈ (unB c.q sf.ty.id sub) ∧ x ∈ isub ∧
                    leafSel c.s c.q c.o x = true := by
                  intro x hx
                  obtain ⟨hxv, hxf⟩ := List.mem_filter.mp hx
                  rcases mem_varSelsOf hxv with ⟨g, rfl, _⟩ | ⟨t, isub, hm, hb, hxi⟩
                  · simp [isFieldSel] at hxf
                  · rcases hmineX _ hm with (⟨g, h0, _⟩ | ⟨g, h0, _⟩) | ⟨isub', h0, _, hlf⟩
                    · cases h0
                    · cases h0; simp [isBody, isFieldSel] at hb
                    · cases h0
                      exact ⟨_, _, (mem_mineOf hm).1, hxi, hlf x hxi⟩
                apply envSelsS_of M hfr hfrB _ _ true (sSels_ownSels _ (fun x hx => by
                  rcases mem_varSelsOf hx with ⟨g, rfl, _⟩ | ⟨t, isub, hm, hb, hxi⟩
                  · rfl
                  · rcases hmineX _ hm with (⟨g, h0, _⟩ | ⟨g, h0, _⟩) | ⟨isub', h0, _, hlf⟩
                    · cases h0
                    · cases h0; simp [isBody, isFieldSel] at hb
                    · cases h0; exact hlf x hxi))
                · intro x hx it hit'
                  obtain ⟨t, isub, _, _, hlx⟩ := hvs x hx
                  have hxf := (List.mem_filter.mp hx).2
                  cases x with
                  | field a' fid' sub' =>
                    obtain ⟨sf', hsf', _, _, _, hty'⟩ := leafSel_field hlx
                    rcases hty' with ⟨k, sn, hid, hk⟩ | ⟨k, en, hid, hk⟩
                    · simp [allItemsS, itemsS, hsf', hid] at hit'
                    · simp [allItemsS, itemsS, hsf', hid] at hit'
                  | spread g => simp [isFieldSel] at hxf
                  | inline t sub' => simp [isFieldSel] at hxf
                  | typename => simp [isFieldSel] at hxf
                · intro x hx
                  obtain ⟨t, isub, hm, hxi, _⟩ := hvs x hx
                  exact reach_step_inline (hrU hm) hxi
                · intro g hg
                  have := (List.mem_filter.mp hg).2
                  simp [isFieldSel] at this
              · rename_i hbody
                have hbody' : (mineOf c.q (.object i) (unB c.q sf.ty.id sub)).any isBody = false := by simpa using hbody
                rw [variantHeadX_nobody hbody'] at hin
                have hreach : ∀ g ∈ memFrags c.q (.object i) (strip (unbody (unB c.q sf.ty.id sub))),
                    ok (.object i) g = true ∧ C02.Reach c.q root (.spread g) := by
                  intro g hg
                  obtain ⟨hokg, hm⟩ := hsp.mem hok hvt hg
                  refine ⟨hokg, ?_⟩
                  rcases hm with hm | hm
                  · exact hrU (mem_unbody.mp (mem_strip.mp hm).1).1
                  · exact reach_step_inline (hrU (mem_unbody.mp (mem_strip.mp hm).1).1) (by simp)
                unfold VarEnvA
                cases hmf : memFrags c.q (.object i) (strip (unbody (unB c.q sf.ty.id sub))) with
                | nil => trivial
                | cons g gs =>
                  cases gs with
                  | nil =>
                    rw [variantHeadA_alias hmf] at hin
                    obtain ⟨hokg, hrg⟩ := hreach g (by rw [hmf]; simp)
                    exact ⟨aliasEnv_of M hfr _ _ (hin _ (by simp)), hfenv i g hokg hrg⟩
                  | cons g' gs' =>
                    have hl2 : 2 ≤ (memFrags c.q (.object i) (strip (unbody (unB c.q sf.ty.id sub)))).length := by rw [hmf]; simp
                    rw [variantHeadA_struct hl2, hmf] at hin
                    refine ⟨structEnv_of M _ _ (hin _ (by simp)), fun g0 hg0 => ?_⟩
                    obtain ⟨hokg, hrg⟩ := hreach g0 (by rw [hmf]; exact hg0)
                    exact hfenv i g0 hokg hrg
          rw [envSelA]
          simp only [hsf]
          cases hid : sf.ty.id with
          | object i => exact absurd hid (hno i)
          | scalar k => simpa only [hid, hs, Bool.false_eq_true, if_false] using hE
          | «enum» k => simpa only [hid, hs, Bool.false_eq_true, if_false] using hE
          | interface k => simpa only [hid, hs, Bool.false_eq_true, if_false] using hE
          | union k => simpa only [hid, hs, Bool.false_eq_true, if_false] using hE
          | input k => simpa only [hid, hs, Bool.false_eq_true, if_false] using hE
    | .spread g, pfx, p => by
      intro ht _ hr
      have hokg : ok (.object p) g = true := by simpa [aSel] using ht
      rw [envSelA]
      exact hfenv p g hokg hr
    | .inline _ _, _, _ => by intro ht; simp [aSel] at ht
    | .typename, _, _ => by intro _ _ _; simp [envSelA]
  theorem envSelsA_of {ok : TypeId → Nat → Bool} {fenv : Nat → Prop} (hok : OkSpec c.q ok)
      (hfenv : ∀ p g, ok (.object p) g = true → C02.Reach c.q root (.spread g) → fenv g) :
      ∀ (sels : List Sel) (pfx : String) (p : Nat), aSels ok c.s c.q c.o (.object p) sels = true →
      (∀ x ∈ sels, ∀ it ∈ itemsA c pfx x, it ∈ items) → (∀ x ∈ sels, C02.Reach c.q root x) →
      envSelsA fenv (moduleEnv c items) c pfx sels
    | [], _, _ => by intro _ _ _; simp [envSelsA]
    | x :: xs, pfx, p => by
      intro ht hit hr
      obtain ⟨hx, hxs⟩ := aSels_cons ht
      rw [envSelsA]
      exact ⟨envSelA_of hok hfenv x pfx p hx (hit x (by simp)) (hr x (by simp)),
        envSelsA_of hok hfenv xs pfx p hxs (fun y hy => hit y (by simp [hy])) (fun y hy => hr y (by simp [hy]))⟩
end

end EnvOfA

/-! ## top level -/

theorem topEnvA_of_module {c : Ctx} {opIdx : Nat} {op : ROperation} {items : List Item}
    (hop : c.q.operations[opIdx]? = some op) (ht : NestedBOp c op = true)
    (hgen : responseForQuery c opIdx = .ok items) (hok : moduleOk c items = true) :
    TopEnvA (moduleEnv c items) c op := by
  obtain ⟨hn, _, hsels⟩ := nestedBOp_parts ht
  refine ⟨?_, (nestedb_module_envOK hop ht hgen hok).1⟩
  have hshape := nestedb_items_shape c op (List.mem_of_getElem? hop) ht
  obtain ⟨u, S, E, F, I, V, o, resp, hu, hS, hE, hF, ho, hresp, hitems⟩ := responseForQuery_parts_full hgen
  rw [hop] at ho; cases ho
  rw [hshape] at hresp
  cases hresp
  have hok' := hok
  simp only [moduleOk, Bool.and_eq_true, List.all_eq_true, decide_eq_true_eq, List.isEmpty_iff] at hok'
  obtain ⟨⟨⟨⟨hnd, hnp⟩, hext⟩, htab⟩, hnoext⟩ := hok'
  have hsub : ∀ it ∈ bodyItemsA c "ResponseData" (c.cs.camel op.name) op.sels, it ∈ items := by
    intro it h; rw [hitems]; simp [h]
  have M : ModFacts c items u op.sels := {
    hn := hn
    nodup := nodup_iff'.mp hnd
    np := hnp
    ext := fun x hx => ⟨(hext x hx).1, fun it hit => by simpa using (hext x hx).2 it hit⟩
    tables := fun n d sp vs ser de hm => by simpa using htab _ hm
    builtin := fun it h => by rw [hitems]; simp [h]
    scalars := fun k n hk hn' hnd' => by
      have := scalarItems_mem hS hk hn' hnd'
      simp only [hn, Normalization.scalarName, Normalization.camelCase] at this
      rw [hitems]; simp [this]
    enums := fun k en hk hen => by
      have := enumItems_mem hE hk hen (by simp [hnoext])
      rw [hitems]; simp [this]
    used := C02.selected_types_used c.s c.q opIdx u hu op hop }
  -- the items of every spread fragment are in the module
  have hfragmem : ∀ g i, C02.Reach c.q op.sels (.spread g) → fragOk c.s c.q c.o (.object i) g = true →
      ∀ f, c.q.fragments[g]? = some f → structItemsV c f.name (c.cs.camel f.name) f.sels ∈ F := by
    intro g i hr hokg f hf
    have hused : g ∈ u.fragments := M.used _ hr
    obtain ⟨its, hits, hfi⟩ := C02.mapM_ok_of_mem hF g ((C02.mem_sortNat _ _).mpr hused)
    obtain ⟨f', hf', hshape⟩ := fragment_struct_shape c hn (.object i) g i rfl hokg
    rw [hf] at hf'; cases hf'
    rw [hshape] at hfi; cases hfi
    exact hits
  have hfragmemB : ∀ g ty, C02.Reach c.q op.sels (.spread g) → absHyp c.s ty → fragOkB c.s c.q c.o ty g = true →
      ∀ f, c.q.fragments[g]? = some f → absItemsV c f.name (c.cs.camel f.name) ty f.sels ∈ F := by
    intro g ty hr hty hokg f hf
    have hused : g ∈ u.fragments := M.used _ hr
    obtain ⟨its, hits, hfi⟩ := C02.mapM_ok_of_mem hF g ((C02.mem_sortNat _ _).mpr hused)
    obtain ⟨f', hf', hshape⟩ := fragment_abs_shape c hn ty g hty hokg
    rw [hf] at hf'; cases hf'
    rw [hshape] at hfi; cases hfi
    exact hits
  have hfr : FragsIn c items op.sels := by
    intro g i hr hokg f hf it hit
    rw [hitems]
    have : it ∈ F.flatten := List.mem_flatten.mpr ⟨_, hfragmem g i hr hokg f hf, hit⟩
    simp [this]
  have hfrB : FragsInB c items op.sels := by
    intro g ty hr hty hokg f hf it hit
    rw [hitems]
    have : it ∈ F.flatten := List.mem_flatten.mpr ⟨_, hfragmemB g ty hr hty hokg f hf, hit⟩
    simp [this]
  have hmemN : ∀ g i r, C02.Reach c.q op.sels (.spread g) → fragOkN c.s c.q c.o r (.object i) g = true →
      ∀ f, c.q.fragments[g]? = some f → ∀ it ∈ bodyItemsM c f.name (c.cs.camel f.name) f.sels, it ∈ items := by
    intro g i r hr hokg f hf it hit
    have hused : g ∈ u.fragments := M.used _ hr
    obtain ⟨its, hits, hfi⟩ := C02.mapM_ok_of_mem hF g ((C02.mem_sortNat _ _).mpr hused)
    obtain ⟨f', hf', _, hshape⟩ := nested_fragment_shape c hn r i g hokg
    rw [hf] at hf'; cases hf'
    rw [hshape] at hfi; cases hfi
    rw [hitems]
    have : it ∈ F.flatten := List.mem_flatten.mpr ⟨_, hits, hit⟩
    simp [this]
  have hfenv : ∀ p g, fragOkN c.s c.q c.o c.q.fragments.length (.object p) g = true →
      C02.Reach c.q op.sels (.spread g) → FragEnvN (moduleEnv c items) c c.q.fragments.length g :=
    fun p g h hr => fragEnvN_of M hfr hfrB hmemN _ p g h hr
  by_cases hsp : ∃ g, op.sels = [Sel.spread g]
  · obtain ⟨g, hg⟩ := hsp
    have hokg : fragOkN c.s c.q c.o c.q.fragments.length (.object op.objectId) g = true := by
      rw [hg] at hsels; exact hsels
    have hr : C02.Reach c.q op.sels (.spread g) := .here (by rw [hg]; simp)
    unfold BodyEnvA
    rw [hg]
    simp only
    exact ⟨aliasEnv_of M hfr _ _ (hsub _ (by rw [hg]; simp [bodyItemsA])), hfenv _ g hokg hr⟩
  · have hnl : ∀ g, op.sels ≠ [Sel.spread g] := fun g hg => hsp ⟨g, hg⟩
    have hsels' := hsels
    rw [aBody_not_lone hnl] at hsels'
    have hbody := bodyItemsA_not_lone c "ResponseData" (c.cs.camel op.name) hnl
    rw [hbody] at hsub
    exact bodyEnvA_mk hnl ⟨structEnv_of M _ _ (hsub _ (by simp)),
        envSelsA_of M hfr hfrB (fragOkN_spec c.s c.q c.o _) hfenv op.sels _ op.objectId hsels'
          (fun x hx it h => hsub it (by simp [mem_itemsAs hx h])) (fun x hx => .here hx)⟩

/-- **`nestedb_precise_iff` (C03), as an equivalence**: on the module `responseForQuery` emits for an operation of
    `NestedBOp`, `ResponseData` accepts exactly `conformsLooseA (wholeN c R)`, `R` the number of fragments -/
theorem nestedb_precise_iff (c : Ctx) (opIdx : Nat) (op : ROperation) (items : List Item)
    (hop : c.q.operations[opIdx]? = some op) (ht : NestedBOp c op = true) (hnd : fragNamesOk c = true)
    (hk : nestedBKeysOk c op = true)
    (hgen : responseForQuery c opIdx = .ok items) (hok : moduleOk c items = true) (j : Json) :
    okB (Serde.de (moduleEnv c items) (.path "ResponseData") j) =
      conformsLooseA (wholeN c c.q.fragments.length) c.s c.q c.o false op.sels j :=
  top_accepts_iffA (moduleEnv c items) c op ht hnd hk
    (topEnvA_of_module hop ht hgen hok) j

theorem nestedb_precise (c : Ctx) (opIdx : Nat) (op : ROperation) (items : List Item)
    (hop : c.q.operations[opIdx]? = some op) (ht : NestedBOp c op = true) (hnd : fragNamesOk c = true)
    (hk : nestedBKeysOk c op = true)
    (hgen : responseForQuery c opIdx = .ok items) (hok : moduleOk c items = true) (j : Json) (v : Val)
    (hd : Serde.de (moduleEnv c items) (.path "ResponseData") j = .ok v) :
    conformsLooseA (wholeN c c.q.fragments.length) c.s c.q c.o false op.sels j = true := by
  rw [← nestedb_precise_iff c opIdx op items hop ht hnd hk hgen hok j, hd]; rfl

end C01NB
end GqlVerif
