import GqlVerif.Props.C13
/-!
# C13 — the modifier rule loses nothing: `rustOf` is injective on well-formed type expressions

"One exact rule" is stated in `Props/C13.lean` as `decorate_spec` (the generator computes `rustOf`).
This file adds the converse reading a user relies on when they read generated code: the Rust type
determines the GraphQL type expression.  For a base type that is a plain path (every base the
generator uses: `i64`, `String`, `super::Foo`, a struct name ...), two well-formed type expressions
with the same `Option`/`Vec` nesting have the same modifier shape — no placement of `!` and no list
level is ever collapsed into another (the regression class "an error that only appears at depth 2
or after a particular `!` placement" contains, among others, every rule that merges two shapes).

`wf` is needed: `T!!` and `T!` map to the same Rust type under the specification (and the real
`decorate_type` panics on `!!`, see `decorate_double_required_panics`).
-/
namespace GqlVerif
namespace C13

/-- the modifier shape of a type expression (names erased) -/
def shape : GTy → GTy
  | .named _ => .named ""
  | .list t => .list (shape t)
  | .nonNull t => .nonNull (shape t)

/-- a base type that is neither `Option<_>` nor `Vec<_>` (a path or a `Box`) -/
def plainBase : RTy → Bool
  | .opt _ => false
  | .vec _ => false
  | _ => true

theorem plain_absurd {b : RTy} {P : Prop} (hb : plainBase b = true) {r : RTy}
    (he : b = r.vec ∨ r.vec = b ∨ b = r.opt ∨ r.opt = b) : P := by
  rcases he with h | h | h | h <;> (first | rw [h] at hb | rw [← h] at hb) <;> simp [plainBase] at hb

/-- injectivity, both contexts at once (structural induction on the first expression) -/
theorem rustOf_shape_aux (b : RTy) (hb : plainBase b = true) (t1 : GTy) :
    (∀ t2, wf t1 = true → wf t2 = true → isNN t1 = false → isNN t2 = false →
        rustOfNN b t1 = rustOfNN b t2 → shape t1 = shape t2) ∧
    (∀ t2, wf t1 = true → wf t2 = true → rustOf b t1 = rustOf b t2 → shape t1 = shape t2) := by
  induction t1 with
  | named n =>
    have hNN : ∀ t2, wf t2 = true → isNN t2 = false → rustOfNN b (.named n) = rustOfNN b t2 →
        shape (.named n) = shape t2 := by
      intro t2 _ hn2 he
      cases t2 with
      | named m => simp [shape]
      | list u => simp [rustOfNN] at he; exact plain_absurd hb (by first | exact .inl he | exact .inr (.inl he) | exact .inr (.inr (.inl he)) | exact .inr (.inr (.inr he)))
      | nonNull u => simp [isNN] at hn2
    refine ⟨fun t2 _ h2 _ hn2 he => hNN t2 h2 hn2 he, ?_⟩
    intro t2 _ h2 he
    cases t2 with
    | named m => simp [shape]
    | list u =>
      simp [rustOf, rustOfNN] at he; exact plain_absurd hb (by first | exact .inl he | exact .inr (.inl he) | exact .inr (.inr (.inl he)) | exact .inr (.inr (.inr he)))
    | nonNull u =>
      simp [rustOf, rustOfNN] at he
      cases u with
      | named m => simp [rustOfNN] at he; exact plain_absurd hb (by first | exact .inl he | exact .inr (.inl he) | exact .inr (.inr (.inl he)) | exact .inr (.inr (.inr he)))
      | list v => simp [rustOfNN] at he
      | nonNull v => simp [wf] at h2
  | list t ih =>
    have hNN : ∀ t2, wf (GTy.list t) = true → wf t2 = true → isNN t2 = false →
        rustOfNN b (.list t) = rustOfNN b t2 → shape (.list t) = shape t2 := by
      intro t2 h1 h2 hn2 he
      cases t2 with
      | named m => simp [rustOfNN] at he; exact plain_absurd hb (by first | exact .inl he | exact .inr (.inl he) | exact .inr (.inr (.inl he)) | exact .inr (.inr (.inr he)))
      | list u =>
        simp [rustOfNN] at he
        simp [wf] at h1 h2
        simp [shape, ih.2 u h1 h2 he]
      | nonNull u => simp [isNN] at hn2
    refine ⟨fun t2 h1 h2 _ hn2 he => hNN t2 h1 h2 hn2 he, ?_⟩
    intro t2 h1 h2 he
    cases t2 with
    | named m => simp [rustOf, rustOfNN] at he; exact plain_absurd hb (by first | exact .inl he | exact .inr (.inl he) | exact .inr (.inr (.inl he)) | exact .inr (.inr (.inr he)))
    | list u =>
      simp [rustOf] at he
      exact hNN (.list u) h1 h2 (by simp [isNN]) he
    | nonNull u =>
      simp [rustOf, rustOfNN] at he
      cases u with
      | named m => simp [rustOfNN] at he; exact plain_absurd hb (by first | exact .inl he | exact .inr (.inl he) | exact .inr (.inr (.inl he)) | exact .inr (.inr (.inr he)))
      | list v => simp [rustOfNN] at he
      | nonNull v => simp [wf] at h2
  | nonNull t ih =>
    refine ⟨fun t2 _ _ hn1 => by simp [isNN] at hn1, ?_⟩
    intro t2 h1 h2 he
    -- `t` is not itself non-null (wf), so `rustOfNN b t` is the non-null reading of a nullable `t`
    have hnt : isNN t = false := by
      cases t with
      | nonNull v => simp [wf] at h1
      | _ => simp [isNN]
    have h1' : wf t = true := by
      cases t with
      | nonNull v => simp [wf] at h1
      | named m => simp [wf]
      | list v => simpa [wf] using h1
    cases t2 with
    | named m =>
      simp [rustOf, rustOfNN] at he
      cases t with
      | named k => simp [rustOfNN] at he; exact plain_absurd hb (by first | exact .inl he | exact .inr (.inl he) | exact .inr (.inr (.inl he)) | exact .inr (.inr (.inr he)))
      | list v => simp [rustOfNN] at he
      | nonNull v => simp [isNN] at hnt
    | list u =>
      simp [rustOf, rustOfNN] at he
      cases t with
      | named k => simp [rustOfNN] at he; exact plain_absurd hb (by first | exact .inl he | exact .inr (.inl he) | exact .inr (.inr (.inl he)) | exact .inr (.inr (.inr he)))
      | list v => simp [rustOfNN] at he
      | nonNull v => simp [isNN] at hnt
    | nonNull u =>
      have hnu : isNN u = false := by
        cases u with
        | nonNull v => simp [wf] at h2
        | _ => simp [isNN]
      have h2' : wf u = true := by
        cases u with
        | nonNull v => simp [wf] at h2
        | named m => simp [wf]
        | list v => simpa [wf] using h2
      simp [rustOf] at he
      simp [shape, ih.1 u h1' h2' hnt hnu he]

/-- **the rule is exact in both directions**: equal Rust types ⇒ equal modifier shapes -/
theorem rustOf_shape_inj (b : RTy) (hb : plainBase b = true) (t1 t2 : GTy)
    (h1 : wf t1 = true) (h2 : wf t2 = true) (he : rustOf b t1 = rustOf b t2) : shape t1 = shape t2 :=
  (rustOf_shape_aux b hb t1).2 t2 h1 h2 he

/-- hence a generator computing `rustOf` (`decorate_spec`) never maps two different modifier shapes
    of one named type to the same Rust type -/
theorem rustOf_distinct (b : RTy) (hb : plainBase b = true) (t1 t2 : GTy)
    (h1 : wf t1 = true) (h2 : wf t2 = true) (hs : shape t1 ≠ shape t2) : rustOf b t1 ≠ rustOf b t2 :=
  fun he => hs (rustOf_shape_inj b hb t1 t2 h1 h2 he)

/-- `wf` cannot be dropped: `Int!!` and `Int!` have the same Rust type but different shapes -/
theorem rustOf_not_inj_without_wf :
    rustOf (.path "i64") (.nonNull (.nonNull (.named "Int"))) = rustOf (.path "i64") (.nonNull (.named "Int")) ∧
    shape (.nonNull (.nonNull (.named "Int"))) ≠ shape (.nonNull (.named "Int")) := by
  simp [rustOf, rustOfNN, shape]

/-- `plainBase` cannot be dropped: with base `Vec<i64>`, `T!` and `[U!]!` collide -/
theorem rustOf_not_inj_without_plainBase :
    rustOf (.vec (.path "i64")) (.nonNull (.named "T")) = rustOf (.path "i64") (.nonNull (.list (.nonNull (.named "U")))) := by
  simp [rustOf, rustOfNN]

/-- **on the generator's own function**: `decorate_type` maps two well-formed qualifier lists to the same
    Rust type only if they are the same modifier shape (a corollary of `decorate_spec`) -/
theorem decorateType_shape_inj (b : RTy) (hb : plainBase b = true) (t1 t2 : GTy)
    (h1 : wf t1 = true) (h2 : wf t2 = true)
    (he : Codegen.decorateType b (GTy.quals t1) = Codegen.decorateType b (GTy.quals t2)) :
    shape t1 = shape t2 := by
  rw [decorate_spec b t1 h1, decorate_spec b t2 h2] at he
  exact rustOf_shape_inj b hb t1 t2 h1 h2 (by injection he)

-- non-vacuity: `[[Int!]]!` vs `[[Int]!]!`
example : rustOf (.path "i64") (.nonNull (.list (.list (.nonNull (.named "Int"))))) ≠
    rustOf (.path "i64") (.nonNull (.list (.nonNull (.list (.named "Int"))))) :=
  rustOf_distinct _ (by simp [plainBase]) _ _ (by simp [wf]) (by simp [wf]) (by simp [shape])

end C13
end GqlVerif
