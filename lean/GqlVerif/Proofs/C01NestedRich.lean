import GqlVerif.Proofs.C01NestedW
/-!
# C01 — NestedOp on a richer schema (instances contributed by the fifth independent review, docs/REVIEW_5.md finding 3)

The instances shipped with `C01NestedW.lean` use a small schema with scalar leaves.  These two operations exercise, INSIDE nested
fragments: object-typed fields with fragments of their own, a list, `ID` leaves given as integers and as strings, nulls at
nullable positions, aliases, `skip_serializing_none`, three levels of nesting and one fragment spread at two places.  The
theorems below are kernel-checked evaluations (`decide +kernel`) of the HYPOTHESES of `nested_roundtrip` on these operations
(non-vacuity on a richer schema: in the class, outside the smaller one, names / keys / Rust names / `moduleOk` fine, the
generator succeeds).  That the payloads `j1`, `j1b`, `j2` conform, that the model's round trip equals the theorem's canonical
form on them, and that the compiled derive of the real crate accepts them and writes the same entries, was evaluated by the
reviewer (`#eval`, and a consumer crate built against the repository); the unbounded statement is `C01N.nested_roundtrip`.
-/
namespace GqlVerif.C01N.Rich
open GqlVerif GqlVerif.Serde GqlVerif.Spec GqlVerif.Codegen GqlVerif.C01 GqlVerif.C01.E2E GqlVerif.C01M GqlVerif.C01N

/-- Query{dog,animal,pet}  Dog{name! barks id! owner tags age} Cat{name! lives id!} Person{pname pid}  interface Animal{name}  union Pet = Dog|Cat -/
def S : Schema :=
  { objects := [{ name := "Query", fields := [0, 1, 11], implements := [] },
                { name := "Dog", fields := [2, 3, 5, 6, 7, 10], implements := [0] },
                { name := "Cat", fields := [2, 4, 5], implements := [0] },
                { name := "Person", fields := [8, 9], implements := [] }]
    fields := [{ name := "dog", ty := { id := .object 1, quals := [] }, parent := .object 0, deprecation := none },
               { name := "animal", ty := { id := .interface 0, quals := [] }, parent := .object 0, deprecation := none },
               { name := "name", ty := { id := .scalar 1, quals := [.required] }, parent := .interface 0, deprecation := none },
               { name := "barks", ty := { id := .scalar 4, quals := [] }, parent := .object 1, deprecation := none },
               { name := "lives", ty := { id := .scalar 2, quals := [] }, parent := .object 2, deprecation := none },
               { name := "id", ty := { id := .scalar 0, quals := [.required] }, parent := .interface 0, deprecation := none },
               { name := "owner", ty := { id := .object 3, quals := [] }, parent := .object 1, deprecation := none },
               { name := "tags", ty := { id := .scalar 1, quals := [.list, .required] }, parent := .object 1, deprecation := none },
               { name := "pname", ty := { id := .scalar 1, quals := [] }, parent := .object 3, deprecation := none },
               { name := "pid", ty := { id := .scalar 0, quals := [] }, parent := .object 3, deprecation := none },
               { name := "age", ty := { id := .scalar 2, quals := [] }, parent := .object 1, deprecation := none },
               { name := "pets", ty := { id := .interface 0, quals := [.list, .required] }, parent := .object 0, deprecation := none }]
    interfaces := [{ name := "Animal", fields := [2, 5] }]
    scalars := ["ID", "String", "Int", "Float", "Boolean"] }

def mkOp (sels : List Sel) : ROperation := { name := "Q", kind := .query, objectId := 0, sels := sels }
def mkCtx (frs : List RFragment) (sels : List Sel) (o : Options := {}) : Ctx :=
  { s := S, q := { operations := [mkOp sels], fragments := frs }, o := o, cs := ⟨id, id⟩ }
def itemsOf (c : Ctx) : List Item := okOr (responseForQuery c 0)
end GqlVerif.C01N.Rich
namespace GqlVerif.C01N.Rich
open GqlVerif GqlVerif.Serde GqlVerif.Spec GqlVerif.Codegen GqlVerif.C01 GqlVerif.C01.E2E GqlVerif.C01M GqlVerif.C01N

/- fragment PersonBits on Person { pid }            -- 0
   fragment PersonF on Person { pname ...PersonBits } -- 1
   fragment Inner on Dog { barks tags owner { ...PersonF } } -- 2
   fragment Outer on Dog { id name ...Inner }  -- 3
   query Q { dog { __typename ...Outer } animal { __typename name } } -/
def frs : List RFragment :=
  [{ name := "PersonBits", on := .object 3, sels := [.field none 9 []] },
   { name := "PersonF", on := .object 3, sels := [.field none 8 [], .spread 0] },
   { name := "Inner", on := .object 1, sels := [.field none 3 [], .field none 7 [], .field none 6 [.spread 1]] },
   { name := "Outer", on := .object 1, sels := [.field none 5 [], .field none 2 [], .spread 2] }]
def sels1 : List Sel := [.field none 0 [.typename, .spread 3], .field none 1 [.typename, .field none 2 []]]
def c1 : Ctx := mkCtx frs sels1
def j1 : Json :=
  .obj [("dog", .obj [("__typename", .str "Dog"), ("id", .int 7), ("name", .str "Rex"), ("barks", .null),
                       ("tags", .arr [.str "a", .str "b"]), ("owner", .obj [("pname", .null), ("pid", .int 3)])]),
        ("animal", .obj [("__typename", .str "Cat"), ("name", .str "Tom")])]
def j1b : Json :=
  .obj [("animal", .null),
        ("dog", .obj [("owner", .null), ("tags", .null), ("barks", .bool false), ("name", .str "Rex"), ("id", .str "x"), ("__typename", .str "Dog")])]

-- non-conforming: missing barks, extra key, wrong type

/- probe 2: skipNone, spread in a fragment below an object field with own fields; 3 levels; same fragment spread at two places -/
def frs2 : List RFragment :=
  [{ name := "PersonBits", on := .object 3, sels := [.field none 9 []] },
   { name := "PersonF", on := .object 3, sels := [.field none 8 [], .spread 0] },
   { name := "Inner", on := .object 1, sels := [.field none 3 [], .field (some "o2") 6 [.field (some "nm") 8 [], .spread 0]] },
   { name := "Outer", on := .object 1, sels := [.field none 5 [], .spread 2, .field none 6 [.spread 1]] },
   { name := "Top", on := .object 1, sels := [.field none 10 [], .spread 3] }]
def sels2 : List Sel := [.field none 0 [.spread 4]]
def c2 : Ctx := mkCtx frs2 sels2 { skipNone := true }
def j2 : Json :=
  .obj [("dog", .obj [("age", .null), ("id", .int (-2)), ("barks", .bool true),
      ("o2", .obj [("nm", .str "N"), ("pid", .null)]), ("owner", .obj [("pname", .str "P"), ("pid", .str "q")])])]
end GqlVerif.C01N.Rich

namespace GqlVerif.C01N.Rich
open GqlVerif GqlVerif.Serde GqlVerif.Spec GqlVerif.Codegen GqlVerif.C01 GqlVerif.C01.E2E GqlVerif.C01M GqlVerif.C01N

theorem rich1_hyps : NestedOp c1 (mkOp sels1) = true ∧ MixedOp c1 (mkOp sels1) = false ∧ fragNamesOk c1 = true ∧
    nestedKeysOk c1 (mkOp sels1) = true ∧ nestedRustOk c1 (mkOp sels1) = true ∧ moduleOk c1 (itemsOf c1) = true ∧
    (responseForQuery c1 0).toOption.isSome = true := by
  decide +kernel

theorem rich2_hyps : NestedOp c2 (mkOp sels2) = true ∧ NestedOp1 c2 (mkOp sels2) = false ∧ fragNamesOk c2 = true ∧
    nestedKeysOk c2 (mkOp sels2) = true ∧ nestedRustOk c2 (mkOp sels2) = true ∧ moduleOk c2 (itemsOf c2) = true ∧
    (responseForQuery c2 0).toOption.isSome = true := by
  decide +kernel

end GqlVerif.C01N.Rich
