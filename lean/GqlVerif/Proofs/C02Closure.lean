import GqlVerif.Model.Codegen
import GqlVerif.Props.C17
import GqlVerif.Props.C11
/-!
# C02 (closure part) and C17 (the fuel of the code-generation walks is never exhausted)

The generated module mentions schema types by name; `allUsedTypes` decides for which of them an item
is emitted.  This file proves, for every schema / query / operation / options / case functions, that
the set computed by `allUsedTypes` (a DFS with visited sets and explicit fuel) is *closed*, that the
fuel handed to each guarded walk is never exhausted, and that every type name mentioned by the emitted
input structs and the `Variables` struct is defined by an emitted item.  Core Lean only.

* **A** `used_inputs_closed` — under `OutputOnly s q` (decidable: no output field has an input-object
  type, no inline fragment is conditioned on one) the used set is closed under input fields.
  `used_inputs_closed_varPhase` is the hypothesis-free form (inputs inserted by the variables phase).
  Fuel: `usedInputIds_spec`, `collectVar_spec` (`#inputs + 1` always exceeds the number of unvisited
  input ids).  `outputOnly_needed`: without the hypothesis the statement is false.
* **B** `variable_types_used` — the type of every variable of the operation is in the used set.
* **C** `selected_types_used` (+ `selected_field_types_used`, `spread_fragments_used`,
  `inline_conditions_used`) — every selection `Reach`able from the root selection set (through fields,
  inline fragments and spreads, any depth) has its type in `u.types` / its fragment in `u.fragments`.
  Fuel: `collectSel_spec` (need = depth of the selection + (depth bound + 1) per unvisited fragment) and
  `walkFuel_sufficient` (`walkFuel q` covers that need — exact, no hypothesis).
* **D** `input_item_mentions_defined`, `inputItems_mentions_defined` — under `normalization = none`,
  `OutputOnly`, `InputFieldsRelevant` and the naming hypothesis (`keyword_replace` is the identity on
  input-type names) every type name mentioned by an emitted input struct / `@oneOf` enum is a built-in,
  an extern enum or the name of an item of `scalarItems` / `enumItems` / `inputItems` of the same used
  set.  `keyword_input_name_mismatch`: the naming hypothesis is needed (input type called `type`).
  **D′** `variables_mentions_defined` — the same for the `Variables` struct and `default_*` functions.
* **E** `responseItems_fuel_sufficient`, `fragmentItems_fuel_sufficient` — with `calcFuel` the `calc*`
  block never returns an `unmodelled` (out of fuel) error, fragment spreads included
  (`calc_clean`: simultaneous induction over the four mutual functions).
  `responseForQuery_fuel` — the only fuel `responseForQuery` can exhaust is the model's nesting bound
  for default-value literals.
-/
namespace GqlVerif
namespace C02
open Codegen

/-! ## 0. generic lemmas -/

/-- invariant rule for `foldlM` in `Except`: a preorder `le` on states, a precondition that
    survives growth of the state, a postcondition per element that survives growth -/
theorem foldlM_inv {ε α β : Type} (f : β → α → Except ε β) (le : β → β → Prop) (Pre : β → α → Prop)
    (Post : α → β → Prop)
    (le_refl : ∀ b, le b b) (le_trans : ∀ a b c, le a b → le b c → le a c)
    (pre_mono : ∀ b b' x, le b b' → Pre b x → Pre b' x)
    (post_mono : ∀ b b' x, le b b' → Post x b → Post x b') :
    ∀ (l : List α), (∀ b x b', x ∈ l → Pre b x → f b x = .ok b' → le b b' ∧ Post x b') →
    ∀ (b b' : β), (∀ x ∈ l, Pre b x) → l.foldlM f b = .ok b' → le b b' ∧ ∀ x ∈ l, Post x b' := by
  intro l
  induction l with
  | nil =>
    intro _ b b' _ h
    simp only [List.foldlM_nil, pure, Except.pure, Except.ok.injEq] at h
    subst h
    exact ⟨le_refl _, by simp⟩
  | cons a l ih =>
    intro step b b' hpre h
    simp only [List.foldlM_cons, bind, Except.bind] at h
    cases hfa : f b a with
    | error e => simp [hfa] at h
    | ok b1 =>
      simp only [hfa] at h
      have ⟨h1, h2⟩ := step b a b1 (by simp) (hpre a (by simp)) hfa
      have ⟨h3, h4⟩ := ih (fun b x b' hx => step b x b' (by simp [hx])) b1 b'
        (fun x hx => pre_mono b b1 x h1 (hpre x (by simp [hx]))) h
      refine ⟨le_trans _ _ _ h1 h3, ?_⟩
      intro x hx
      simp only [List.mem_cons] at hx
      rcases hx with rfl | hx
      · exact post_mono _ _ _ h3 h2
      · exact h4 x hx

/-- number of ids below `n` not yet `seen` -/
def unseen (n : Nat) (seen : Nat → Bool) : Nat := (List.range n).countP (fun i => !seen i)

theorem unseen_le_n (n : Nat) (seen : Nat → Bool) : unseen n seen ≤ n := by
  unfold unseen
  have := List.countP_le_length (p := fun i => !seen i) (l := List.range n)
  simpa using this

theorem unseen_le {n : Nat} {seen seen' : Nat → Bool} (h : ∀ i, seen i = true → seen' i = true) :
    unseen n seen' ≤ unseen n seen := by
  unfold unseen
  apply C17.countP_le
  intro y hy
  cases hs : seen y
  · rfl
  · simp [h y hs] at hy

theorem unseen_lt {n : Nat} {seen seen' : Nat → Bool} (k : Nat) (hk : k < n) (h0 : seen k = false)
    (h1 : seen' k = true) (h : ∀ i, seen i = true → seen' i = true) :
    unseen n seen' < unseen n seen := by
  unfold unseen
  apply C17.countP_lt _ _ _ k (by simpa using hk) (by simp [h0]) (by simp [h1])
  intro y hy
  cases hs : seen y
  · rfl
  · simp [h y hs] at hy

theorem mem_insertType {u : UsedTypes} {t x : TypeId} :
    x ∈ (u.insertType t).types ↔ x = t ∨ x ∈ u.types := by
  unfold UsedTypes.insertType
  split
  · rename_i h
    have : t ∈ u.types := by simpa using h
    constructor
    · intro hx; exact .inr hx
    · rintro (rfl | hx)
      · exact this
      · exact hx
  · simp

@[simp] theorem insertType_fragments (u : UsedTypes) (t : TypeId) :
    (u.insertType t).fragments = u.fragments := by
  unfold UsedTypes.insertType
  split <;> rfl

theorem getInput_ok {s : Schema} {i : Nat} {x} (h : s.getInput i = .ok x) : s.inputs[i]? = some x :=
  by
  unfold Schema.getInput at h
  split at h
  · rename_i o ho; simp only [pure, Except.pure, Except.ok.injEq] at h; rw [ho, h]
  · simp [panic'] at h
theorem getField_ok {s : Schema} {i : Nat} {x} (h : s.getField i = .ok x) : s.fields[i]? = some x :=
  by
  unfold Schema.getField at h
  split at h
  · rename_i o ho; simp only [pure, Except.pure, Except.ok.injEq] at h; rw [ho, h]
  · simp [panic'] at h
theorem getEnum_ok {s : Schema} {i : Nat} {x} (h : s.getEnum i = .ok x) : s.enums[i]? = some x :=
  by
  unfold Schema.getEnum at h
  split at h
  · rename_i o ho; simp only [pure, Except.pure, Except.ok.injEq] at h; rw [ho, h]
  · simp [panic'] at h
theorem getScalar_ok {s : Schema} {i : Nat} {x} (h : s.getScalar i = .ok x) : s.scalars[i]? = some x :=
  by
  unfold Schema.getScalar at h
  split at h
  · rename_i o ho; simp only [pure, Except.pure, Except.ok.injEq] at h; rw [ho, h]
  · simp [panic'] at h
theorem getFragment_ok {q : Query} {i : Nat} {x} (h : q.getFragment i = .ok x) : q.fragments[i]? = some x :=
  by
  unfold Query.getFragment at h
  split at h
  · rename_i o ho; simp only [pure, Except.pure, Except.ok.injEq] at h; rw [ho, h]
  · simp [panic'] at h
theorem getOperation_ok {q : Query} {i : Nat} {x} (h : q.getOperation i = .ok x) :
    q.operations[i]? = some x :=
  by
  unfold Query.getOperation at h
  split at h
  · rename_i o ho; simp only [pure, Except.pure, Except.ok.injEq] at h; rw [ho, h]
  · simp [panic'] at h

/-- decomposition of a successful `>>=` in `Except` -/
theorem bind_ok {ε α β} {x : Except ε α} {f : α → Except ε β} {b : β} (h : x >>= f = .ok b) :
    ∃ a, x = .ok a ∧ f a = .ok b := by
  cases x with
  | error e => simp [bind, Except.bind] at h
  | ok a => exact ⟨a, rfl, h⟩

/-! ## A. the closure is closed under input fields (`usedInputIds` / `collectVar`) -/

/-- the type ids for which the module has to emit (or import) an item on the *variables* side -/
def Relevant : TypeId → Prop
  | .input _ | .enum _ | .scalar _ => True
  | _ => False

/-- all input/enum/scalar field types of input `j` are in `u` -/
def InputClosed (s : Schema) (u : UsedTypes) (j : Nat) : Prop :=
  ∀ i, s.inputs[j]? = some i → ∀ p ∈ i.fields, Relevant p.2.id → p.2.id ∈ u.types

/-- growth of the used set during the variables phase: nothing is lost, fragments are untouched and
    every input id that is *new* is already closed -/
structure LeA (s : Schema) (u u' : UsedTypes) : Prop where
  types : ∀ t ∈ u.types, t ∈ u'.types
  frags : u'.fragments = u.fragments
  closed : ∀ j, .input j ∈ u'.types → .input j ∉ u.types → InputClosed s u' j

theorem InputClosed.mono {s : Schema} {u u' : UsedTypes} {j : Nat} (h : ∀ t ∈ u.types, t ∈ u'.types)
    (hc : InputClosed s u j) : InputClosed s u' j :=
  fun i hi p hp hr => h _ (hc i hi p hp hr)

theorem LeA.refl (s : Schema) (u : UsedTypes) : LeA s u u :=
  ⟨fun _ h => h, rfl, fun _ h h' => absurd h h'⟩

theorem LeA.trans {s : Schema} {a b c : UsedTypes} (h1 : LeA s a b) (h2 : LeA s b c) : LeA s a c := by
  refine ⟨fun t ht => h2.types t (h1.types t ht), by rw [h2.frags, h1.frags], ?_⟩
  intro j hj hnj
  by_cases hb : .input j ∈ b.types
  · exact (h1.closed j hb hnj).mono h2.types
  · exact h2.closed j hj hb

theorem LeA.insert_noninput {s : Schema} (u : UsedTypes) (t : TypeId) (ht : ∀ j, t ≠ .input j) :
    LeA s u (u.insertType t) := by
  refine ⟨fun x hx => mem_insertType.mpr (.inr hx), by simp, ?_⟩
  intro j hj hnj
  rcases mem_insertType.mp hj with h | h
  · exact absurd h.symm (ht j)
  · exact absurd h hnj

/-- input ids (below `#inputs`) not yet in the used set -/
def unseenInputs (s : Schema) (u : UsedTypes) : Nat :=
  unseen s.inputs.length (fun j => u.types.contains (.input j))

theorem unseenInputs_le {s : Schema} {u u' : UsedTypes} (h : ∀ t ∈ u.types, t ∈ u'.types) :
    unseenInputs s u' ≤ unseenInputs s u := by
  apply unseen_le
  intro i hi
  simp only [List.contains_eq_mem, decide_eq_true_eq] at hi ⊢
  exact h _ hi

/-- **fuel sufficiency + closure of `used_input_ids_recursive`**: whenever the fuel exceeds the
    number of input ids not yet visited, the walk returns a set in which all fields of `i`, and all
    fields of every newly inserted input, are present -/
theorem usedInputIds_spec (s : Schema) :
    ∀ (fuel : Nat) (u : UsedTypes) (i : StoredInput) (u' : UsedTypes),
      unseenInputs s u < fuel → usedInputIds s fuel u i = .ok u' →
      LeA s u u' ∧ ∀ p ∈ i.fields, Relevant p.2.id → p.2.id ∈ u'.types := by
  intro fuel
  induction fuel with
  | zero => intro _ _ _ h; omega
  | succ n ih =>
    intro u i u' hfuel h
    rw [usedInputIds.eq_2] at h
    refine foldlM_inv _ (LeA s) (fun b _ => unseenInputs s b ≤ n)
      (fun (p : String × FieldType) (b : UsedTypes) => Relevant p.2.id → p.2.id ∈ b.types)
      (LeA.refl s) (fun _ _ _ => LeA.trans)
      (fun b b' _ hle hp => Nat.le_trans (unseenInputs_le hle.types) hp)
      (fun b b' (p : String × FieldType) hle hp hr => hle.types p.2.id (hp hr))
      i.fields ?_ u u' (fun _ _ => by omega) h
    rintro b ⟨fname, ty⟩ b' _ hpre hstep
    simp only at hstep
    split at hstep
    · -- input
      rename_i iid hid
      split at hstep
      · rename_i hc
        simp only [pure, Except.pure, Except.ok.injEq] at hstep
        subst hstep
        exact ⟨LeA.refl s _, fun _ => by simpa using hc⟩
      · rename_i hc
        obtain ⟨i2, hi2, hrec⟩ := bind_ok hstep
        have hi2' := getInput_ok hi2
        have hlt : iid < s.inputs.length := (List.getElem?_eq_some_iff.mp hi2').1
        have hnot : ty.id ∉ b.types := by simpa using hc
        have hdec : unseenInputs s (b.insertType ty.id) < unseenInputs s b := by
          apply unseen_lt iid hlt
          · simpa [hid] using hnot
          · simp [mem_insertType, hid]
          · intro j hj
            simp only [List.contains_eq_mem, decide_eq_true_eq] at hj ⊢
            exact mem_insertType.mpr (.inr hj)
        have ⟨hle, hfields⟩ := ih (b.insertType ty.id) i2 b' (by omega) hrec
        refine ⟨⟨fun t ht => hle.types t (mem_insertType.mpr (.inr ht)), by rw [hle.frags]; simp, ?_⟩, ?_⟩
        · intro j hj hnj
          by_cases hji : j = iid
          · subst hji
            intro i3 hi3 p hp hr
            rw [hi2'] at hi3
            cases hi3
            exact hfields p hp hr
          · apply hle.closed j hj
            intro hmem
            rcases mem_insertType.mp hmem with h | h
            · rw [hid] at h; cases h; exact hji rfl
            · exact hnj h
        · intro _
          exact hle.types _ (mem_insertType.mpr (.inl rfl))
    · rename_i e he
      simp only [pure, Except.pure, Except.ok.injEq] at hstep
      subst hstep
      exact ⟨LeA.insert_noninput _ _ (by rw [he]; intro j; simp), fun _ => mem_insertType.mpr (.inl rfl)⟩
    · rename_i e he
      simp only [pure, Except.pure, Except.ok.injEq] at hstep
      subst hstep
      exact ⟨LeA.insert_noninput _ _ (by rw [he]; intro j; simp), fun _ => mem_insertType.mpr (.inl rfl)⟩
    · rename_i hni hne hns
      simp only [pure, Except.pure, Except.ok.injEq] at hstep
      subst hstep
      refine ⟨LeA.refl s _, ?_⟩
      intro hr
      cases hty : ty.id with
      | input j => exact absurd hty (hni j)
      | «enum» j => exact absurd hty (hne j)
      | scalar j => exact absurd hty (hns j)
      | _ => simp [hty, Relevant] at hr

/-- `collectVar`: the fuel `#inputs + 1` is always enough -/
theorem collectVar_spec (s : Schema) (u : UsedTypes) (v : RVariable) (u' : UsedTypes)
    (h : collectVar s u v = .ok u') :
    LeA s u u' ∧ (Relevant v.ty.id → v.ty.id ∈ u'.types) := by
  unfold collectVar at h
  split at h
  · rename_i iid hid
    obtain ⟨i, hi, hrec⟩ := bind_ok h
    have hi' := getInput_ok hi
    have hfuel : unseenInputs s (u.insertType v.ty.id) < s.inputs.length + 1 := by
      have := unseen_le_n s.inputs.length (fun j => (u.insertType v.ty.id).types.contains (.input j))
      unfold unseenInputs; omega
    have ⟨hle, hfields⟩ := usedInputIds_spec s _ _ i u' hfuel hrec
    refine ⟨⟨fun t ht => hle.types t (mem_insertType.mpr (.inr ht)), by rw [hle.frags]; simp, ?_⟩,
      fun _ => hle.types _ (mem_insertType.mpr (.inl rfl))⟩
    intro j hj hnj
    by_cases hji : j = iid
    · subst hji
      intro i3 hi3 p hp hr
      rw [hi'] at hi3
      cases hi3
      exact hfields p hp hr
    · apply hle.closed j hj
      intro hmem
      rcases mem_insertType.mp hmem with h | h
      · rw [hid] at h; cases h; exact hji rfl
      · exact hnj h
  · rename_i e he
    simp only [pure, Except.pure, Except.ok.injEq] at h
    subst h
    exact ⟨LeA.insert_noninput _ _ (by rw [he]; intro j; simp), fun _ => mem_insertType.mpr (.inl rfl)⟩
  · rename_i e he
    simp only [pure, Except.pure, Except.ok.injEq] at h
    subst h
    exact ⟨LeA.insert_noninput _ _ (by rw [he]; intro j; simp), fun _ => mem_insertType.mpr (.inl rfl)⟩
  · rename_i hni hns hne
    simp only [pure, Except.pure, Except.ok.injEq] at h
    subst h
    refine ⟨LeA.refl s _, ?_⟩
    intro hr
    cases hty : v.ty.id with
    | input j => exact absurd hty (hni j)
    | «enum» j => exact absurd hty (hne j)
    | scalar j => exact absurd hty (hns j)
    | _ => simp [hty, Relevant] at hr

/-- the variables phase of `allUsedTypes` -/
theorem collectVars_spec (s : Schema) (vars : List RVariable) (u u' : UsedTypes)
    (h : vars.foldlM (collectVar s) u = .ok u') :
    LeA s u u' ∧ ∀ v ∈ vars, Relevant v.ty.id → v.ty.id ∈ u'.types :=
  foldlM_inv _ (LeA s) (fun _ _ => True) (fun (v : RVariable) (b : UsedTypes) => Relevant v.ty.id → v.ty.id ∈ b.types)
    (LeA.refl s) (fun _ _ _ => LeA.trans) (fun _ _ _ _ _ => trivial)
    (fun _ _ (v : RVariable) hle hp hr => hle.types v.ty.id (hp hr))
    vars (fun b v b' _ _ hstep => collectVar_spec s b v b' hstep) u u' (fun _ _ => trivial) h

/-! ## C. the selection walk (`collectSel`): fuel sufficiency and coverage -/

/-- `y` occurs in the selection tree of `x` (through fields and inline fragments, not through spreads) -/
inductive Sub : Sel → Sel → Prop
  | refl (x : Sel) : Sub x x
  | field {a : Option String} {fid : Nat} {sub : List Sel} {x y : Sel} :
      x ∈ sub → Sub x y → Sub (.field a fid sub) y
  | inline {t : TypeId} {sub : List Sel} {x y : Sel} : x ∈ sub → Sub x y → Sub (.inline t sub) y

/-- what the walk owes for one selection node: the type of a selected field, the type condition of
    an inline fragment, the id of a spread fragment -/
def Direct (s : Schema) (u : UsedTypes) : Sel → Prop
  | .field _ fid _ => ∀ f, s.fields[fid]? = some f → f.ty.id ∈ u.types
  | .inline t _ => t ∈ u.types
  | .spread g => g ∈ u.fragments
  | .typename => True

/-- every node of the tree of `x` is accounted for in `u` -/
def Covered (s : Schema) (u : UsedTypes) (x : Sel) : Prop := ∀ y, Sub x y → Direct s u y

/-- growth of the used set during the selection phase: nothing is lost and the body of every *newly*
    visited fragment is covered -/
structure LeC (s : Schema) (q : Query) (u u' : UsedTypes) : Prop where
  types : ∀ t ∈ u.types, t ∈ u'.types
  frags : ∀ g ∈ u.fragments, g ∈ u'.fragments
  closed : ∀ g ∈ u'.fragments, g ∉ u.fragments → ∀ f, q.fragments[g]? = some f →
    ∀ x ∈ f.sels, Covered s u' x

theorem Direct.mono {s : Schema} {u u' : UsedTypes} (ht : ∀ t ∈ u.types, t ∈ u'.types)
    (hf : ∀ g ∈ u.fragments, g ∈ u'.fragments) {x : Sel} (h : Direct s u x) : Direct s u' x := by
  cases x with
  | field a fid sub => exact fun f hf' => ht _ (h f hf')
  | inline t sub => exact ht _ h
  | spread g => exact hf _ h
  | typename => trivial

theorem Covered.mono {s : Schema} {q : Query} {u u' : UsedTypes} (hle : LeC s q u u') {x : Sel}
    (h : Covered s u x) : Covered s u' x :=
  fun y hy => (h y hy).mono hle.types hle.frags

theorem LeC.refl (s : Schema) (q : Query) (u : UsedTypes) : LeC s q u u :=
  ⟨fun _ h => h, fun _ h => h, fun _ h h' => absurd h h'⟩

theorem LeC.trans {s : Schema} {q : Query} {a b c : UsedTypes} (h1 : LeC s q a b) (h2 : LeC s q b c) :
    LeC s q a c := by
  refine ⟨fun t ht => h2.types t (h1.types t ht), fun g hg => h2.frags g (h1.frags g hg), ?_⟩
  intro g hg hng f hf x hx
  by_cases hb : g ∈ b.fragments
  · exact (h1.closed g hb hng f hf x hx).mono h2
  · exact h2.closed g hg hb f hf x hx

theorem LeC.insertType (s : Schema) (q : Query) (u : UsedTypes) (t : TypeId) :
    LeC s q u (u.insertType t) :=
  ⟨fun x hx => mem_insertType.mpr (.inr hx), fun g hg => by simpa using hg,
   fun g hg hng => by simp at hg; exact absurd hg hng⟩

/-- fragments (below `#fragments`) not yet visited -/
def unseenFrags (q : Query) (u : UsedTypes) : Nat :=
  unseen q.fragments.length (fun g => u.fragments.contains g)

theorem unseenFrags_le {q : Query} {u u' : UsedTypes} (h : ∀ g ∈ u.fragments, g ∈ u'.fragments) :
    unseenFrags q u' ≤ unseenFrags q u := by
  apply unseen_le
  intro i hi
  simp only [List.contains_eq_mem, decide_eq_true_eq] at hi ⊢
  exact h _ hi

theorem selDepth_le_of_mem {x : Sel} : ∀ {l : List Sel}, x ∈ l → selDepth x ≤ selsDepth l
  | [], h => by simp at h
  | y :: ys, h => by
    rw [selsDepth.eq_2]
    simp only [List.mem_cons] at h
    rcases h with rfl | h
    · exact Nat.le_max_left _ _
    · exact Nat.le_trans (selDepth_le_of_mem h) (Nat.le_max_right _ _)

theorem selDepth_pos (x : Sel) : 1 ≤ selDepth x := by
  cases x <;> simp [selDepth]

/-- the fuel a call of `collectSel` needs: the depth of the selection at hand plus a full body depth
    (`d + 1`) for every fragment that can still be entered -/
def fuelNeed (q : Query) (d : Nat) (u : UsedTypes) (x : Sel) : Nat :=
  selDepth x + unseenFrags q u * (d + 1)

theorem fuelNeed_mono {s : Schema} {q : Query} {d : Nat} {u u' : UsedTypes} (hle : LeC s q u u') (x : Sel) :
    fuelNeed q d u' x ≤ fuelNeed q d u x := by
  unfold fuelNeed
  have := Nat.mul_le_mul_right (d + 1) (unseenFrags_le (q := q) hle.frags)
  omega

/-- **fuel sufficiency + coverage of `collect_used_types`**: with enough fuel (depth of the
    selection + one body depth per unvisited fragment) the walk accounts for the whole tree of
    `sel` and for the bodies of all fragments it newly visits -/
theorem collectSel_spec (s : Schema) (q : Query) (d : Nat)
    (hd : ∀ f ∈ q.fragments, selsDepth f.sels ≤ d) :
    ∀ (fuel : Nat) (u : UsedTypes) (sel : Sel) (u' : UsedTypes),
      fuelNeed q d u sel ≤ fuel → collectSel s q fuel u sel = .ok u' →
      LeC s q u u' ∧ Covered s u' sel := by
  intro fuel
  induction fuel with
  | zero =>
    intro u sel _ h
    have := selDepth_pos sel
    unfold fuelNeed at h; omega
  | succ n ih =>
    intro u sel u' hfuel h
    have hfold : ∀ (sub : List Sel) (u1 : UsedTypes), (∀ x ∈ sub, fuelNeed q d u1 x ≤ n) →
        sub.foldlM (collectSel s q n) u1 = .ok u' → LeC s q u1 u' ∧ ∀ x ∈ sub, Covered s u' x :=
      fun sub u1 hpre hf =>
        foldlM_inv _ (LeC s q) (fun b x => fuelNeed q d b x ≤ n) (fun x b => Covered s b x)
          (LeC.refl s q) (fun _ _ _ => LeC.trans)
          (fun b b' x hle hp => Nat.le_trans (fuelNeed_mono hle x) hp)
          (fun b b' x hle hp => hp.mono hle)
          sub (fun b x b' _ hp hstep => ih b x b' hp hstep) u1 u' hpre hf
    cases sel with
    | typename =>
      simp only [collectSel, pure, Except.pure, Except.ok.injEq] at h
      subst h
      refine ⟨LeC.refl s q _, ?_⟩
      intro y hy; cases hy; trivial
    | field a fid sub =>
      rw [collectSel.eq_2] at h
      obtain ⟨f, hf, hrest⟩ := bind_ok h
      have hf' := getField_ok hf
      have hpre : ∀ x ∈ sub, fuelNeed q d (u.insertType f.ty.id) x ≤ n := by
        intro x hx
        have h1 := fuelNeed_mono (d := d) (LeC.insertType s q u f.ty.id) x
        have h2 := selDepth_le_of_mem hx
        unfold fuelNeed at h1 hfuel ⊢
        rw [selDepth.eq_1] at hfuel
        omega
      have ⟨hle, hcov⟩ := hfold sub _ hpre hrest
      have hle' := (LeC.insertType s q u f.ty.id).trans hle
      refine ⟨hle', ?_⟩
      intro y hy
      cases hy with
      | refl =>
        intro f2 hf2
        rw [hf'] at hf2; cases hf2
        exact hle.types _ (mem_insertType.mpr (.inl rfl))
      | field hx hxy => exact hcov _ hx y hxy
    | inline t sub =>
      rw [collectSel.eq_3] at h
      have hpre : ∀ x ∈ sub, fuelNeed q d (u.insertType t) x ≤ n := by
        intro x hx
        have h1 := fuelNeed_mono (d := d) (LeC.insertType s q u t) x
        have h2 := selDepth_le_of_mem hx
        unfold fuelNeed at h1 hfuel ⊢
        rw [selDepth.eq_2] at hfuel
        omega
      have ⟨hle, hcov⟩ := hfold sub _ hpre h
      have hle' := (LeC.insertType s q u t).trans hle
      refine ⟨hle', ?_⟩
      intro y hy
      cases hy with
      | refl => exact hle.types _ (mem_insertType.mpr (.inl rfl))
      | inline hx hxy => exact hcov _ hx y hxy
    | spread g =>
      rw [collectSel.eq_4] at h
      split at h
      · rename_i hc
        simp only [pure, Except.pure, Except.ok.injEq] at h
        subst h
        refine ⟨LeC.refl s q _, ?_⟩
        intro y hy; cases hy
        have : g ∈ u.fragments := by simpa using hc
        exact this
      · rename_i hc
        have hng : g ∉ u.fragments := by simpa using hc
        obtain ⟨f, hf, hrest⟩ := bind_ok h
        have hf' := getFragment_ok hf
        have hlt : g < q.fragments.length := (List.getElem?_eq_some_iff.mp hf').1
        have hfmem : f ∈ q.fragments := List.mem_of_getElem? hf'
        have hdec : unseenFrags q { u with fragments := g :: u.fragments } < unseenFrags q u := by
          apply unseen_lt g hlt
          · simpa using hng
          · simp
          · intro j hj
            simp only [List.contains_eq_mem, decide_eq_true_eq] at hj ⊢
            exact List.mem_cons_of_mem _ hj
        have hpre : ∀ x ∈ f.sels, fuelNeed q d { u with fragments := g :: u.fragments } x ≤ n := by
          intro x hx
          have h2 := selDepth_le_of_mem hx
          have h3 := hd f hfmem
          have h4 := Nat.mul_le_mul_right (d + 1) (Nat.succ_le_of_lt hdec)
          rw [Nat.succ_mul] at h4
          unfold fuelNeed at hfuel ⊢
          have := selDepth_pos (.spread g)
          omega
        have ⟨hle, hcov⟩ := hfold f.sels _ hpre hrest
        have hle' : LeC s q u u' := by
          refine ⟨fun t ht => hle.types t ht, fun g' hg' => hle.frags g' (List.mem_cons_of_mem _ hg'), ?_⟩
          intro g' hg' hng' f' hf'' x hx
          by_cases hgg : g' = g
          · subst hgg
            rw [hf'] at hf''; cases hf''
            exact hcov x hx
          · apply hle.closed g' hg' _ f' hf'' x hx
            simp only [List.mem_cons, not_or]
            exact ⟨hgg, hng'⟩
        refine ⟨hle', ?_⟩
        intro y hy; cases hy
        exact hle.frags g (by simp)

/-- selections reachable from a selection set: through nested fields, inline fragments and fragment
    spreads, at any depth -/
inductive Reach (q : Query) : List Sel → Sel → Prop
  | here {sels : List Sel} {x : Sel} : x ∈ sels → Reach q sels x
  | field {sels : List Sel} {a : Option String} {fid : Nat} {sub : List Sel} {x : Sel} :
      .field a fid sub ∈ sels → Reach q sub x → Reach q sels x
  | inline {sels : List Sel} {t : TypeId} {sub : List Sel} {x : Sel} :
      .inline t sub ∈ sels → Reach q sub x → Reach q sels x
  | spread {sels : List Sel} {g : Nat} {f : RFragment} {x : Sel} :
      .spread g ∈ sels → q.fragments[g]? = some f → Reach q f.sels x → Reach q sels x

/-- a used set is *saturated* for a selection set: the set and the bodies of all its fragments are covered -/
theorem reach_direct {s : Schema} {q : Query} {u : UsedTypes}
    (hfr : ∀ g ∈ u.fragments, ∀ f, q.fragments[g]? = some f → ∀ x ∈ f.sels, Covered s u x) :
    ∀ {sels : List Sel} {x : Sel}, Reach q sels x → (∀ y ∈ sels, Covered s u y) → Direct s u x := by
  intro sels x hr
  induction hr with
  | here hx => intro hc; exact hc _ hx _ (.refl _)
  | field hm _ ih =>
    intro hc
    exact ih (fun y hy z hz => hc _ hm z (.field hy hz))
  | inline hm _ ih =>
    intro hc
    exact ih (fun y hy z hz => hc _ hm z (.inline hy hz))
  | spread hm hf _ ih =>
    intro hc
    have : _ ∈ u.fragments := hc _ hm _ (.refl _)
    exact ih (hfr _ this _ hf)

theorem le_foldl_max (l : List Nat) : ∀ (a x : Nat), (x ∈ l ∨ x ≤ a) → x ≤ l.foldl max a := by
  induction l with
  | nil => intro a x h; simpa using h
  | cons y ys ih =>
    intro a x h
    simp only [List.foldl_cons]
    apply ih
    simp only [List.mem_cons] at h
    rcases h with (rfl | h) | h
    · exact .inr (Nat.le_max_right _ _)
    · exact .inl h
    · exact .inr (Nat.le_trans h (Nat.le_max_left _ _))

/-- the `d` of `walkFuel` -/
def maxDepth (q : Query) : Nat :=
  (q.fragments.map (fun f => selsDepth f.sels) ++ q.operations.map (fun o => selsDepth o.sels)).foldl max 0

theorem walkFuel_eq (q : Query) : walkFuel q = (q.fragments.length + 1) * (maxDepth q + 2) + 1 := rfl

theorem frag_depth_le (q : Query) : ∀ f ∈ q.fragments, selsDepth f.sels ≤ maxDepth q := by
  intro f hf
  apply le_foldl_max
  left
  simp only [List.mem_append, List.mem_map]
  exact .inl ⟨f, hf, rfl⟩

theorem op_depth_le (q : Query) : ∀ o ∈ q.operations, selsDepth o.sels ≤ maxDepth q := by
  intro o ho
  apply le_foldl_max
  left
  simp only [List.mem_append, List.mem_map]
  exact .inr ⟨o, ho, rfl⟩

/-- **C17 for `collect_used_types`**: the fuel `walkFuel q` handed to the walk by `allUsedTypes`
    covers the need of every root selection of every operation (and of every fragment body) -/
theorem walkFuel_sufficient (q : Query) (sels : List Sel) (hsels : selsDepth sels ≤ maxDepth q) :
    ∀ x ∈ sels, fuelNeed q (maxDepth q) {} x ≤ walkFuel q := by
  intro x hx
  have h1 := selDepth_le_of_mem hx
  have h2 : unseenFrags q {} ≤ q.fragments.length := unseen_le_n _ _
  have h3 := Nat.mul_le_mul_right (maxDepth q + 1) h2
  rw [walkFuel_eq]
  unfold fuelNeed
  have h4 : (q.fragments.length + 1) * (maxDepth q + 2) =
      q.fragments.length * (maxDepth q + 1) + q.fragments.length + (maxDepth q + 2) := by
    rw [Nat.succ_mul, Nat.mul_succ]
  omega

/-- result of the selection phase of `allUsedTypes` -/
theorem selPhase_spec (s : Schema) (q : Query) (o : ROperation) (ho : o ∈ q.operations) (u0 : UsedTypes)
    (h : o.sels.foldlM (collectSel s q (walkFuel q)) {} = .ok u0) :
    (∀ x ∈ o.sels, Covered s u0 x) ∧
    (∀ g ∈ u0.fragments, ∀ f, q.fragments[g]? = some f → ∀ x ∈ f.sels, Covered s u0 x) := by
  have ⟨hle, hcov⟩ := foldlM_inv _ (LeC s q) (fun b x => fuelNeed q (maxDepth q) b x ≤ walkFuel q)
    (fun x b => Covered s b x) (LeC.refl s q) (fun _ _ _ => LeC.trans)
    (fun b b' x hle hp => Nat.le_trans (fuelNeed_mono hle x) hp)
    (fun b b' x hle hp => hp.mono hle)
    o.sels (fun b x b' _ hp hstep => collectSel_spec s q (maxDepth q) (frag_depth_le q) _ b x b' hp hstep)
    {} u0 (walkFuel_sufficient q o.sels (op_depth_le q o ho)) h
  exact ⟨hcov, fun g hg => hle.closed g hg (by simp)⟩

/-- decomposition of `allUsedTypes` -/
theorem allUsedTypes_ok {s : Schema} {q : Query} {op : Nat} {u : UsedTypes}
    (h : allUsedTypes s q op = .ok u) :
    ∃ o u0, q.operations[op]? = some o ∧ o.sels.foldlM (collectSel s q (walkFuel q)) {} = .ok u0 ∧
      (q.opVariables op).foldlM (collectVar s) u0 = .ok u := by
  unfold allUsedTypes at h
  obtain ⟨o, ho, h⟩ := bind_ok h
  obtain ⟨u0, hu0, h⟩ := bind_ok h
  exact ⟨o, u0, getOperation_ok ho, hu0, h⟩

/-- **C (main)**: every selection reachable from the operation's root selection set — through nested
    fields, inline fragments and fragment spreads, at any depth — is accounted for in the used set:
    the type of a selected field and the type condition of an inline fragment are in `u.types`, a
    spread fragment is in `u.fragments`.  No hypothesis: `walkFuel q` is always enough. -/
theorem selected_types_used (s : Schema) (q : Query) (op : Nat) (u : UsedTypes)
    (h : allUsedTypes s q op = .ok u) (o : ROperation) (ho : q.operations[op]? = some o) :
    ∀ x, Reach q o.sels x → Direct s u x := by
  obtain ⟨o', u0, ho', hsel, hvar⟩ := allUsedTypes_ok h
  rw [ho] at ho'; cases ho'
  have ⟨hroot, hfr⟩ := selPhase_spec s q o (List.mem_of_getElem? ho) u0 hsel
  have ⟨hle, _⟩ := collectVars_spec s _ u0 u hvar
  have hfrag : ∀ g ∈ u0.fragments, g ∈ u.fragments := fun g hg => by rw [hle.frags]; exact hg
  intro x hx
  exact (reach_direct hfr hx hroot).mono hle.types hfrag

/-- C, spelled out for field selections -/
theorem selected_field_types_used (s : Schema) (q : Query) (op : Nat) (u : UsedTypes)
    (h : allUsedTypes s q op = .ok u) (o : ROperation) (ho : q.operations[op]? = some o)
    (a : Option String) (fid : Nat) (sub : List Sel) (hr : Reach q o.sels (.field a fid sub))
    (f : StoredField) (hf : s.fields[fid]? = some f) : f.ty.id ∈ u.types :=
  selected_types_used s q op u h o ho _ hr f hf

/-- C, spelled out for fragment spreads -/
theorem spread_fragments_used (s : Schema) (q : Query) (op : Nat) (u : UsedTypes)
    (h : allUsedTypes s q op = .ok u) (o : ROperation) (ho : q.operations[op]? = some o)
    (g : Nat) (hr : Reach q o.sels (.spread g)) : g ∈ u.fragments :=
  selected_types_used s q op u h o ho _ hr

/-- C, spelled out for inline fragments -/
theorem inline_conditions_used (s : Schema) (q : Query) (op : Nat) (u : UsedTypes)
    (h : allUsedTypes s q op = .ok u) (o : ROperation) (ho : q.operations[op]? = some o)
    (t : TypeId) (sub : List Sel) (hr : Reach q o.sels (.inline t sub)) : t ∈ u.types :=
  selected_types_used s q op u h o ho _ hr

/-! ## A and B, final form -/

mutual
  /-- no inline fragment with an *input* type as its type condition -/
  def selNoInputCond : Sel → Bool
    | .field _ _ sub => selsNoInputCond sub
    | .inline t sub => t.asInput?.isNone && selsNoInputCond sub
    | _ => true
  def selsNoInputCond : List Sel → Bool
    | [] => true
    | x :: xs => selNoInputCond x && selsNoInputCond xs
end

/-- schema/query well-formedness needed for A (decidable): output fields never have an input-object
    type and no inline fragment is conditioned on one.  (GraphQL validation guarantees both; the
    model's `Schema`/`Query` records do not.)  Without it the selection walk can put an input id in
    the used set without walking its fields — see `outputOnly_needed`. -/
def OutputOnly (s : Schema) (q : Query) : Bool :=
  s.fields.all (fun f => f.ty.id.asInput?.isNone) &&
  q.fragments.all (fun f => selsNoInputCond f.sels) &&
  q.operations.all (fun o => selsNoInputCond o.sels)

def NoInput (u : UsedTypes) : Prop := ∀ j, TypeId.input j ∉ u.types

theorem selNoInputCond_of_mem {x : Sel} : ∀ {l : List Sel}, selsNoInputCond l = true → x ∈ l →
    selNoInputCond x = true
  | [], _, h => by simp at h
  | y :: ys, hl, h => by
    rw [selsNoInputCond.eq_2, Bool.and_eq_true] at hl
    simp only [List.mem_cons] at h
    rcases h with rfl | h
    · exact hl.1
    · exact selNoInputCond_of_mem hl.2 h

theorem NoInput.insert {u : UsedTypes} {t : TypeId} (hu : NoInput u) (ht : t.asInput?.isNone = true) :
    NoInput (u.insertType t) := by
  intro j hj
  rcases mem_insertType.mp hj with h | h
  · subst h; simp [TypeId.asInput?] at ht
  · exact hu j h

/-- the selection walk never inserts an input id (under `OutputOnly`) -/
theorem collectSel_noInput (s : Schema) (q : Query)
    (hfields : ∀ f ∈ s.fields, f.ty.id.asInput?.isNone = true)
    (hfrags : ∀ f ∈ q.fragments, selsNoInputCond f.sels = true) :
    ∀ (fuel : Nat) (u : UsedTypes) (sel : Sel) (u' : UsedTypes), selNoInputCond sel = true →
      collectSel s q fuel u sel = .ok u' → NoInput u → NoInput u' := by
  intro fuel
  induction fuel with
  | zero =>
    intro u sel u' _ h
    simp only [collectSel, pure, Except.pure, Except.ok.injEq] at h
    subst h; exact id
  | succ n ih =>
    intro u sel u' hsel h
    have hfold : ∀ (sub : List Sel) (u1 : UsedTypes), selsNoInputCond sub = true →
        sub.foldlM (collectSel s q n) u1 = .ok u' → NoInput u1 → NoInput u' :=
      fun sub u1 hsub hf =>
        (foldlM_inv _ (fun a b => NoInput a → NoInput b) (fun _ x => selNoInputCond x = true)
          (fun _ _ => True) (fun _ => id) (fun _ _ _ h1 h2 => h2 ∘ h1) (fun _ _ _ _ h => h)
          (fun _ _ _ _ _ => trivial)
          sub (fun b x b' _ hp hstep => ⟨ih b x b' hp hstep, trivial⟩) u1 u'
          (fun x hx => selNoInputCond_of_mem hsub hx) hf).1
    cases sel with
    | typename =>
      simp only [collectSel, pure, Except.pure, Except.ok.injEq] at h
      subst h; exact id
    | field a fid sub =>
      rw [collectSel.eq_2] at h
      obtain ⟨f, hf, hrest⟩ := bind_ok h
      have hfm : f ∈ s.fields := List.mem_of_getElem? (getField_ok hf)
      rw [selNoInputCond.eq_1] at hsel
      exact fun hu => hfold sub _ hsel hrest (hu.insert (hfields f hfm))
    | inline t sub =>
      rw [collectSel.eq_3] at h
      rw [selNoInputCond.eq_2, Bool.and_eq_true] at hsel
      exact fun hu => hfold sub _ hsel.2 h (hu.insert hsel.1)
    | spread g =>
      rw [collectSel.eq_4] at h
      split at h
      · simp only [pure, Except.pure, Except.ok.injEq] at h
        subst h; exact id
      · obtain ⟨f, hf, hrest⟩ := bind_ok h
        have hfm : f ∈ q.fragments := List.mem_of_getElem? (getFragment_ok hf)
        exact fun hu => hfold f.sels _ (hfrags f hfm) hrest hu

theorem OutputOnly.parts {s : Schema} {q : Query} (h : OutputOnly s q = true) :
    (∀ f ∈ s.fields, f.ty.id.asInput?.isNone = true) ∧
    (∀ f ∈ q.fragments, selsNoInputCond f.sels = true) ∧
    (∀ o ∈ q.operations, selsNoInputCond o.sels = true) := by
  unfold OutputOnly at h
  simp only [Bool.and_eq_true, List.all_eq_true] at h
  exact ⟨h.1.1, h.1.2, h.2⟩

/-- **A (general form)**: every input id that enters the used set during the *variables* phase
    (i.e. is not already there after the selection walk) has all its input / enum / scalar field
    types in the final set.  No hypothesis on schema or query: an out-of-range id makes
    `allUsedTypes` fail, and the fuel `#inputs + 1` is never exhausted. -/
theorem used_inputs_closed_varPhase (s : Schema) (q : Query) (op : Nat) (u : UsedTypes)
    (h : allUsedTypes s q op = .ok u) :
    ∃ o u0, q.operations[op]? = some o ∧ o.sels.foldlM (collectSel s q (walkFuel q)) {} = .ok u0 ∧
      ∀ j, .input j ∈ u.types → .input j ∉ u0.types →
        ∀ i, s.inputs[j]? = some i → ∀ p ∈ i.fields, Relevant p.2.id → p.2.id ∈ u.types := by
  obtain ⟨o, u0, ho, hsel, hvar⟩ := allUsedTypes_ok h
  exact ⟨o, u0, ho, hsel, (collectVars_spec s _ u0 u hvar).1.closed⟩

/-- **A**: the used set is closed under input fields — for every input type `j` in the set, the type
    of every field of `s.inputs[j]` that is an input / enum / scalar is in the set -/
theorem used_inputs_closed (s : Schema) (q : Query) (op : Nat) (u : UsedTypes)
    (hwf : OutputOnly s q = true) (h : allUsedTypes s q op = .ok u) :
    ∀ j, .input j ∈ u.types → ∀ i, s.inputs[j]? = some i →
      ∀ p ∈ i.fields, Relevant p.2.id → p.2.id ∈ u.types := by
  obtain ⟨o, u0, ho, hsel, hvar⟩ := allUsedTypes_ok h
  have ⟨hf, hfr, hops⟩ := OutputOnly.parts hwf
  have hno : NoInput u0 :=
    (foldlM_inv _ (fun a b => NoInput a → NoInput b) (fun _ x => selNoInputCond x = true)
      (fun _ _ => True) (fun _ => id) (fun _ _ _ h1 h2 => h2 ∘ h1) (fun _ _ _ _ h => h)
      (fun _ _ _ _ _ => trivial)
      o.sels (fun b x b' _ hp hstep => ⟨collectSel_noInput s q hf hfr _ b x b' hp hstep, trivial⟩) {} u0
      (fun x hx => selNoInputCond_of_mem (hops o (List.mem_of_getElem? ho)) hx) hsel).1
      (fun j hj => by simp at hj)
  intro j hj
  exact (collectVars_spec s _ u0 u hvar).1.closed j hj (hno j)

/-- **B**: the type of every variable of the operation is in the used set (when it is an input, enum
    or scalar; nothing else can be the type of a variable in a valid document) -/
theorem variable_types_used (s : Schema) (q : Query) (op : Nat) (u : UsedTypes)
    (h : allUsedTypes s q op = .ok u) :
    ∀ v ∈ q.opVariables op, Relevant v.ty.id → v.ty.id ∈ u.types := by
  obtain ⟨o, u0, ho, hsel, hvar⟩ := allUsedTypes_ok h
  exact (collectVars_spec s _ u0 u hvar).2

/-! ### the hypothesis of A is needed, and is satisfiable -/

/-- `type Query { f: In }  input In { e: E }  enum E { A }` — an output field of input type -/
def badSchema : Schema :=
  { objects := [{ name := "Query", fields := [0], implements := [] }],
    fields := [{ name := "f", ty := { id := .input 0, quals := [] }, parent := .object 0, deprecation := none }],
    enums := [{ name := "E", variants := ["A"] }],
    inputs := [{ name := "In", fields := [("e", { id := .enum 0, quals := [] })], isOneOf := false }] }

/-- `query Q { f }` -/
def badQuery1 : Query :=
  { operations := [{ name := "Q", kind := .query, objectId := 0, sels := [.field none 0 []] }] }

/-- `query Q { ... on In { } }` (resolved form; `Resolve` lets an empty selection set on a
    non-composite type through) -/
def badQuery2 : Query :=
  { operations := [{ name := "Q", kind := .query, objectId := 0, sels := [.inline (.input 0) []] }] }

/-- without `OutputOnly`, A fails: `In` is used, its field type `E` is not -/
theorem outputOnly_needed :
    (allUsedTypes badSchema badQuery1 0).toOption.map (·.types) = some [.input 0] ∧
    (allUsedTypes badSchema badQuery2 0).toOption.map (·.types) = some [.input 0] ∧
    OutputOnly badSchema badQuery1 = false ∧ OutputOnly badSchema badQuery2 = false := by
  decide

/-- `input In { e: E, next: In2 }  input In2 { back: [In], s: Date }`, `query Q($v: In) { x { y } ...F }` -/
def goodSchema : Schema :=
  { objects := [{ name := "Query", fields := [0], implements := [] }, { name := "X", fields := [1], implements := [] }],
    fields := [{ name := "x", ty := { id := .object 1, quals := [] }, parent := .object 0, deprecation := none },
               { name := "y", ty := { id := .scalar 5, quals := [] }, parent := .object 1, deprecation := none }],
    scalars := Schema.defaultScalars ++ ["Date"],
    enums := [{ name := "E", variants := ["A"] }],
    inputs := [{ name := "In", fields := [("e", { id := .enum 0, quals := [] }), ("next", { id := .input 1, quals := [] })],
                 isOneOf := false },
               { name := "In2", fields := [("back", { id := .input 0, quals := [.list] }),
                                           ("s", { id := .scalar 5, quals := [] })], isOneOf := false }] }

def goodQuery : Query :=
  { fragments := [{ name := "F", on := .object 0, sels := [.field none 0 [.field none 1 []], .spread 0] }],
    operations := [{ name := "Q", kind := .query, objectId := 0,
                     sels := [.field none 0 [.field none 1 []], .spread 0] }],
    variables := [{ opIdx := 0, name := "v", default := none, ty := { id := .input 0, quals := [] } }] }

example : OutputOnly goodSchema goodQuery = true := by decide
example : (allUsedTypes goodSchema goodQuery 0).toOption.map (fun u => (u.types, u.fragments)) =
    some ([.input 1, .enum 0, .input 0, .scalar 5, .object 1], [0]) := by decide

/-! ## D. every type name mentioned by an emitted input item is defined -/

/-- the path at the leaf of a decorated type (`Option<Vec<Box<T>>>` ↦ `T`) -/
def leaf : RTy → String
  | .path p => p
  | .opt t => leaf t
  | .vec t => leaf t
  | .box t => leaf t

/-- the type names an item mentions in field / payload / alias position -/
def itemMentions : Item → List String
  | .struct _ _ _ fs => fs.map (fun f => leaf f.ty)
  | .tagged _ _ _ _ vs => vs.filterMap (fun v => v.payload.map leaf)
  | .oneOf _ _ _ vs => vs.filterMap (fun v => v.payload.map leaf)
  | .alias _ _ t => [leaf t]
  | .defaults fns => fns.map (fun p => leaf p.2)
  | _ => []

theorem mapM_ok_of_mem {ε α β : Type} {f : α → Except ε β} :
    ∀ {l : List α} {r : List β}, l.mapM f = .ok r → ∀ x ∈ l, ∃ y ∈ r, f x = .ok y
  | [], _, _, x, hx => by simp at hx
  | a :: l, r, h, x, hx => by
    rw [List.mapM_cons] at h
    obtain ⟨b, hb, h⟩ := bind_ok h
    obtain ⟨r', hr', h⟩ := bind_ok h
    simp only [pure, Except.pure, Except.ok.injEq] at h
    subst h
    simp only [List.mem_cons] at hx
    rcases hx with rfl | hx
    · exact ⟨b, by simp, hb⟩
    · obtain ⟨y, hy, hfy⟩ := mapM_ok_of_mem hr' x hx
      exact ⟨y, by simp [hy], hfy⟩

theorem mapM_ok_mem {ε α β : Type} {f : α → Except ε β} :
    ∀ {l : List α} {r : List β}, l.mapM f = .ok r → ∀ y ∈ r, ∃ x ∈ l, f x = .ok y
  | [], r, h, y, hy => by
    simp only [List.mapM_nil, pure, Except.pure, Except.ok.injEq] at h
    subst h; simp at hy
  | a :: l, r, h, y, hy => by
    rw [List.mapM_cons] at h
    obtain ⟨b, hb, h⟩ := bind_ok h
    obtain ⟨r', hr', h⟩ := bind_ok h
    simp only [pure, Except.pure, Except.ok.injEq] at h
    subst h
    simp only [List.mem_cons] at hy
    rcases hy with rfl | hy
    · exact ⟨a, by simp, hb⟩
    · obtain ⟨x, hx, hfx⟩ := mapM_ok_mem hr' y hy
      exact ⟨x, by simp [hx], hfx⟩

theorem mem_ins (x y : Nat) : ∀ l : List Nat, y ∈ sortNat.ins x l ↔ y = x ∨ y ∈ l
  | [] => by simp [sortNat.ins]
  | z :: zs => by
    rw [sortNat.ins.eq_2]
    split
    · simp
    · split
      · rename_i h
        have : x = z := by simpa using h
        subst this
        simp
      · simp only [List.mem_cons, mem_ins x y zs]
        constructor
        · rintro (h | h | h)
          · exact .inr (.inl h)
          · exact .inl h
          · exact .inr (.inr h)
        · rintro (h | h | h)
          · exact .inr (.inl h)
          · exact .inl h
          · exact .inr (.inr h)

theorem mem_sortNat (xs : List Nat) (y : Nat) : y ∈ sortNat xs ↔ y ∈ xs := by
  unfold sortNat
  have : ∀ (l acc : List Nat), y ∈ l.foldl (fun acc x => sortNat.ins x acc) acc ↔ y ∈ acc ∨ y ∈ l := by
    intro l
    induction l with
    | nil => simp
    | cons a l ih =>
      intro acc
      simp only [List.foldl_cons, ih, mem_ins, List.mem_cons]
      constructor
      · rintro ((h | h) | h)
        · exact .inr (.inl h)
        · exact .inl h
        · exact .inr (.inr h)
      · rintro (h | h | h)
        · exact .inl (.inr h)
        · exact .inl (.inl h)
        · exact .inr h
  simpa using this xs []

theorem fieldType_none (cs : CaseFns) (n : String) : Normalization.fieldType .none cs n = n := by
  simp [Normalization.fieldType, Normalization.camelCase]

theorem decorateStep_leaf {st st' : RTy × Bool} {q : Qual} (h : decorateStep st q = .ok st') :
    leaf st'.1 = leaf st.1 := by
  unfold decorateStep at h
  split at h <;> simp only [pure, Except.pure, Except.ok.injEq, panic'] at h
  all_goals first | (subst h; rfl) | cases h

theorem decorateType_leaf {base : RTy} {quals : List Qual} {t : RTy}
    (h : decorateType base quals = .ok t) : leaf t = leaf base := by
  unfold decorateType at h
  obtain ⟨st, hst, h⟩ := bind_ok h
  have := (foldlM_inv decorateStep (fun a b => leaf b.1 = leaf a.1) (fun _ _ => True) (fun _ _ => True)
    (fun _ => rfl) (fun _ _ _ h1 h2 => h2.trans h1) (fun _ _ _ _ _ => trivial) (fun _ _ _ _ _ => trivial)
    quals.reverse (fun b x b' _ _ hs => ⟨decorateStep_leaf hs, trivial⟩) (base, false) st
    (fun _ _ => trivial) hst).1
  simp only [pure, Except.pure, Except.ok.injEq] at h
  subst h
  split <;> simpa [leaf] using this

/-- the leaf of an input field type is the (normalised) schema name of the field's type -/
theorem inputFieldType_leaf {c : Ctx} {ty : FieldType} {quals : List Qual} {t : RTy}
    (h : inputFieldType c ty quals = .ok t) :
    ∃ tn, c.s.typeName ty.id = .ok tn ∧ leaf t = c.o.normalization.fieldType c.cs tn := by
  unfold inputFieldType at h
  obtain ⟨tn, htn, h⟩ := bind_ok h
  obtain ⟨t0, ht0, h⟩ := bind_ok h
  simp only [pure, Except.pure, Except.ok.injEq] at h
  subst h
  refine ⟨tn, htn, ?_⟩
  have := decorateType_leaf ht0
  split
  · split <;> simpa [leaf] using this
  · simpa [leaf] using this

/-- the fields of the item emitted for an input type: each mention is the leaf of the
    `inputFieldType` of one of the schema fields -/
theorem inputItem_mentions {c : Ctx} {i : StoredInput} {item : Item} (h : inputItem c i = .ok item) :
    ∀ n ∈ itemMentions item, ∃ p ∈ i.fields, ∃ quals t, inputFieldType c p.2 quals = .ok t ∧ leaf t = n := by
  rw [inputItem.eq_1] at h
  split at h
  · obtain ⟨vs, hvs, h⟩ := bind_ok h
    simp only [pure, Except.pure, Except.ok.injEq] at h
    subst h
    intro n hn
    simp only [itemMentions, List.mem_filterMap] at hn
    obtain ⟨v, hv, hvn⟩ := hn
    obtain ⟨⟨fname, ty⟩, hp, hfp⟩ := mapM_ok_mem hvs v hv
    simp only at hfp
    obtain ⟨t, ht, hfp⟩ := bind_ok hfp
    simp only [pure, Except.pure, Except.ok.injEq] at hfp
    subst hfp
    simp only [Option.map_some, Option.some.injEq] at hvn
    exact ⟨(fname, ty), hp, _, t, ht, hvn⟩
  · obtain ⟨fs, hfs, h⟩ := bind_ok h
    simp only [pure, Except.pure, Except.ok.injEq] at h
    subst h
    intro n hn
    simp only [itemMentions, List.mem_map] at hn
    obtain ⟨f, hf, hfn⟩ := hn
    obtain ⟨⟨fname, ty⟩, hp, hfp⟩ := mapM_ok_mem hfs f hf
    simp only at hfp
    obtain ⟨t, ht, hfp⟩ := bind_ok hfp
    simp only [pure, Except.pure, Except.ok.injEq] at hfp
    subst hfp
    exact ⟨(fname, ty), hp, _, t, ht, hfn⟩

theorem inputItem_name {c : Ctx} {i : StoredInput} {item : Item} (h : inputItem c i = .ok item) :
    item.name = keywordReplace (c.o.normalization.inputName c.cs i.name) := by
  rw [inputItem.eq_1] at h
  split at h
  · obtain ⟨vs, _, h⟩ := bind_ok h
    simp only [pure, Except.pure, Except.ok.injEq] at h
    subst h; rfl
  · obtain ⟨fs, _, h⟩ := bind_ok h
    simp only [pure, Except.pure, Except.ok.injEq] at h
    subst h; rfl

/-- a used custom scalar gets an alias under its (normalised) name -/
theorem scalarItems_defines {c : Ctx} {u : UsedTypes} {S : List Item} (h : scalarItems c u = .ok S)
    {k : Nat} {n : String} (hk : .scalar k ∈ u.types) (hn : c.s.scalars[k]? = some n)
    (hnd : n ∉ Schema.defaultScalars) :
    ∃ it ∈ S, it.name = c.o.normalization.scalarName c.cs n := by
  unfold scalarItems at h
  obtain ⟨names, hnames, h⟩ := bind_ok h
  simp only [pure, Except.pure, Except.ok.injEq] at h
  subst h
  have hmem : k ∈ sortNat (u.types.filterMap TypeId.asScalar?) := by
    rw [mem_sortNat, List.mem_filterMap]
    exact ⟨_, hk, rfl⟩
  obtain ⟨n', hn', hget⟩ := mapM_ok_of_mem hnames k hmem
  have := getScalar_ok hget
  rw [hn] at this; cases this
  refine ⟨_, List.mem_map.mpr ⟨n, List.mem_filter.mpr ⟨hn', by simpa using hnd⟩, rfl⟩, rfl⟩

/-- a used enum that is not extern gets its `gqlEnum` item under its (normalised) name -/
theorem enumItems_defines {c : Ctx} {u : UsedTypes} {E : List Item} (h : enumItems c u = .ok E)
    {k : Nat} {e : StoredEnum} (hk : .enum k ∈ u.types) (he : c.s.enums[k]? = some e)
    (hne : e.name ∉ c.o.externEnums) :
    ∃ it ∈ E, it.name = c.o.normalization.enumName c.cs e.name := by
  unfold enumItems at h
  obtain ⟨es, hes, h⟩ := bind_ok h
  simp only [pure, Except.pure, Except.ok.injEq] at h
  subst h
  have hmem : k ∈ sortNat (u.types.filterMap TypeId.asEnum?) := by
    rw [mem_sortNat, List.mem_filterMap]
    exact ⟨_, hk, rfl⟩
  obtain ⟨e', he', hget⟩ := mapM_ok_of_mem hes k hmem
  have := getEnum_ok hget
  rw [he] at this; cases this
  refine ⟨_, List.mem_map.mpr ⟨e, List.mem_filter.mpr ⟨he', by simpa using hne⟩, rfl⟩, rfl⟩

/-- a used input type gets its item -/
theorem inputItems_defines {c : Ctx} {u : UsedTypes} {I : List Item} (h : inputItems c u = .ok I)
    {k : Nat} {i : StoredInput} (hk : .input k ∈ u.types) (hi : c.s.inputs[k]? = some i) :
    ∃ it ∈ I, inputItem c i = .ok it := by
  unfold inputItems at h
  have hmem : (i, k) ∈ c.s.inputs.zipIdx.filter (fun (x : StoredInput × Nat) => u.types.contains (.input x.2)) := by
    rw [List.mem_filter]
    refine ⟨?_, by simpa using hk⟩
    rw [List.mem_zipIdx_iff_getElem?]
    simpa using hi
  obtain ⟨it, hit, hfit⟩ := mapM_ok_of_mem h (i, k) hmem
  exact ⟨it, hit, hfit⟩

/-- conversely every emitted input item is the item of a used input type -/
theorem inputItems_origin {c : Ctx} {u : UsedTypes} {I : List Item} (h : inputItems c u = .ok I) :
    ∀ it ∈ I, ∃ k i, .input k ∈ u.types ∧ c.s.inputs[k]? = some i ∧ inputItem c i = .ok it := by
  unfold inputItems at h
  intro it hit
  obtain ⟨⟨i, k⟩, hmem, hf⟩ := mapM_ok_mem h it hit
  rw [List.mem_filter, List.mem_zipIdx_iff_getElem?] at hmem
  exact ⟨k, i, by simpa using hmem.2, by simpa using hmem.1, hf⟩

/-- schema well-formedness for D (decidable): the fields of input types have input / enum / scalar types -/
def InputFieldsRelevant (s : Schema) : Bool :=
  s.inputs.all (fun i => i.fields.all (fun p =>
    match p.2.id with | .input _ | .enum _ | .scalar _ => true | _ => false))

theorem InputFieldsRelevant.spec {s : Schema} (h : InputFieldsRelevant s = true) :
    ∀ i ∈ s.inputs, ∀ p ∈ i.fields, Relevant p.2.id := by
  unfold InputFieldsRelevant at h
  simp only [List.all_eq_true] at h
  intro i hi p hp
  have := h i hi p hp
  unfold Relevant
  split <;> simp_all

/-- a name is *defined* for the module of `u`: a built-in alias (or Rust's `String`), an extern enum
    supplied by the consumer, or the name of an item emitted by `scalarItems` / `enumItems` / `inputItems` -/
def Defined (c : Ctx) (S E I : List Item) (n : String) : Prop :=
  n ∈ Schema.defaultScalars ∨ n ∈ c.o.externEnums ∨ ∃ it ∈ S ++ E ++ I, it.name = n

/-- **D**: under `normalization = none` every type name mentioned by the struct / `@oneOf` enum
    emitted for a used input type is defined: it is `Int`/`Float`/`Boolean`/`ID`/`String`, an extern
    enum, or the name of an item emitted for the *same* used set.
    Naming hypothesis `hkw`: `keyword_replace` is the identity on the names of input types (the item
    is declared under the escaped name, the mention is not escaped — see `keyword_input_name_mismatch`). -/
theorem input_item_mentions_defined (c : Ctx) (op : Nat) (u : UsedTypes) (S E I : List Item)
    (hnorm : c.o.normalization = .none)
    (hkw : ∀ i ∈ c.s.inputs, keywordReplace i.name = i.name)
    (hwf : OutputOnly c.s c.q = true) (hrel : InputFieldsRelevant c.s = true)
    (hu : allUsedTypes c.s c.q op = .ok u)
    (hS : scalarItems c u = .ok S) (hE : enumItems c u = .ok E) (hI : inputItems c u = .ok I) :
    ∀ j i, .input j ∈ u.types → c.s.inputs[j]? = some i → ∀ item, inputItem c i = .ok item →
      ∀ n ∈ itemMentions item, Defined c S E I n := by
  intro j i hj hi item hitem n hn
  obtain ⟨p, hp, quals, t, ht, hleaf⟩ := inputItem_mentions hitem n hn
  obtain ⟨tn, htn, hleaf'⟩ := inputFieldType_leaf ht
  rw [hnorm, fieldType_none] at hleaf'
  have hn' : n = tn := by rw [← hleaf, hleaf']
  subst hn'
  have hrelp : Relevant p.2.id := InputFieldsRelevant.spec hrel i (List.mem_of_getElem? hi) p hp
  have hused : p.2.id ∈ u.types := used_inputs_closed c.s c.q op u hwf hu j hj i hi p hp hrelp
  cases hid : p.2.id with
  | scalar k =>
    rw [hid] at htn hused
    have hk := getScalar_ok htn
    by_cases hd : n ∈ Schema.defaultScalars
    · exact .inl hd
    · obtain ⟨it, hit, hname⟩ := scalarItems_defines hS hused hk hd
      refine .inr (.inr ⟨it, by simp [hit], ?_⟩)
      rw [hname, hnorm]; rfl
  | «enum» k =>
    rw [hid] at htn hused
    simp only [Schema.typeName] at htn
    cases hge : c.s.getEnum k with
    | error e => simp [hge, Functor.map, Except.map] at htn
    | ok e =>
      simp only [hge, Functor.map, Except.map, Except.ok.injEq] at htn
      have hk := getEnum_ok hge
      by_cases hx : e.name ∈ c.o.externEnums
      · exact .inr (.inl (htn ▸ hx))
      · obtain ⟨it, hit, hname⟩ := enumItems_defines hE hused hk hx
        refine .inr (.inr ⟨it, by simp [hit], ?_⟩)
        rw [hname, hnorm, ← htn]; rfl
  | input k =>
    rw [hid] at htn hused
    simp only [Schema.typeName] at htn
    cases hge : c.s.getInput k with
    | error e => simp [hge, Functor.map, Except.map] at htn
    | ok i2 =>
      simp only [hge, Functor.map, Except.map, Except.ok.injEq] at htn
      have hk := getInput_ok hge
      obtain ⟨it, hit, hfit⟩ := inputItems_defines hI hused hk
      refine .inr (.inr ⟨it, by simp [hit], ?_⟩)
      rw [inputItem_name hfit, hnorm, ← htn]
      exact hkw i2 (List.mem_of_getElem? hk)
  | object k => rw [hid] at hrelp; exact absurd hrelp (by simp [Relevant])
  | interface k => rw [hid] at hrelp; exact absurd hrelp (by simp [Relevant])
  | union k => rw [hid] at hrelp; exact absurd hrelp (by simp [Relevant])

/-- D for the items actually emitted: every mention of every item of `inputItems c u` is defined -/
theorem inputItems_mentions_defined (c : Ctx) (op : Nat) (u : UsedTypes) (S E I : List Item)
    (hnorm : c.o.normalization = .none)
    (hkw : ∀ i ∈ c.s.inputs, keywordReplace i.name = i.name)
    (hwf : OutputOnly c.s c.q = true) (hrel : InputFieldsRelevant c.s = true)
    (hu : allUsedTypes c.s c.q op = .ok u)
    (hS : scalarItems c u = .ok S) (hE : enumItems c u = .ok E) (hI : inputItems c u = .ok I) :
    ∀ item ∈ I, ∀ n ∈ itemMentions item, Defined c S E I n := by
  intro item hitem
  obtain ⟨k, i, hk, hi, hf⟩ := inputItems_origin hI item hitem
  exact input_item_mentions_defined c op u S E I hnorm hkw hwf hrel hu hS hE hI k i hk hi item hf


/-! ### the naming hypothesis of D is needed (defect candidate) -/

/-- `input In { f: type }` -/
def kwIn : StoredInput := { name := "In", fields := [("f", { id := .input 1, quals := [] })], isOneOf := false }
/-- `input type { x: Int }` — `type` is a legal GraphQL name and a Rust keyword -/
def kwType : StoredInput := { name := "type", fields := [("x", { id := .scalar 2, quals := [] })], isOneOf := false }
def kwSchema : Schema :=
  { objects := [{ name := "Query", fields := [], implements := [] }],
    scalars := Schema.defaultScalars,
    inputs := [kwIn, kwType] }
/-- `query Q($v: In) { __typename }` -/
def kwQuery : Query :=
  { operations := [{ name := "Q", kind := .query, objectId := 0, sels := [.typename] }],
    variables := [{ opIdx := 0, name := "v", default := none, ty := { id := .input 0, quals := [] } }] }
def kwCtx : Ctx := { s := kwSchema, q := kwQuery, o := {}, cs := ⟨id, id⟩ }

/-- **without the naming hypothesis D is false** (mirrors `codegen/inputs.rs`: the struct name goes
    through `keyword_replace`, the field type identifier does not): both inputs are used, the struct
    emitted for `In` mentions `type`, the struct emitted for the input `type` is called `type_` -/
theorem keyword_input_name_mismatch :
    (allUsedTypes kwSchema kwQuery 0).toOption.map (·.types) = some [.scalar 2, .input 1, .input 0] ∧
    OutputOnly kwSchema kwQuery = true ∧ InputFieldsRelevant kwSchema = true ∧
    ∃ item1 item2, inputItem kwCtx kwIn = .ok item1 ∧ inputItem kwCtx kwType = .ok item2 ∧
      itemMentions item1 = ["type"] ∧ item1.name = "In" ∧ item2.name = "type_" := by
  refine ⟨by decide, by decide, by decide, ?_⟩
  have h1 : keywordReplace "In" = "In" := by rw [C11.keywordReplace_spec]; simp; decide +kernel
  have h2 : keywordReplace "type" = "type_" := by rw [C11.keywordReplace_spec]; simp; decide +kernel
  have e2 : inputItem kwCtx kwType = .ok (.struct (keywordReplace "type") (allVariableDerives {}) (some "::serde")
      [{ rust := keywordReplace "x", rename := fieldRename "x" (keywordReplace "x"), ty := .opt (.path "Int"),
         skipNone := false }]) := by
    simp [inputItem, kwType, kwCtx, inputFieldType, Schema.typeName, Schema.getScalar, kwSchema, Schema.defaultScalars,
      fieldType_none, decorateType, bind, Except.bind, pure, Except.pure, TypeId.asInput?, Normalization.inputName,
      Normalization.camelCase, Ctx.serdeCrate, FieldType.isOptional]
  have e1 : inputItem kwCtx kwIn = .ok (.struct (keywordReplace "In") (allVariableDerives {}) (some "::serde")
      [{ rust := keywordReplace "f", rename := fieldRename "f" (keywordReplace "f"), ty := .opt (.path "type"),
         skipNone := false }]) := by
    have h1 : inputIsRecursive kwSchema 1 = false := by decide
    have h2 : kwSchema.getInput 1 = .ok kwType := rfl
    simp [inputItem, kwIn, kwCtx, inputFieldType, Schema.typeName, h1, h2, kwType,
      fieldType_none, decorateType, bind, Except.bind, pure, Except.pure, TypeId.asInput?, Normalization.inputName,
      Normalization.camelCase, Ctx.serdeCrate, FieldType.isOptional, Functor.map, Except.map]
  exact ⟨_, _, e1, e2, rfl, h1, h2⟩

/-- the naming hypothesis in decidable form: no input type is named like a Rust keyword of the table -/
theorem hkw_of_not_keyword (s : Schema) (h : ∀ i ∈ s.inputs, i.name ∉ Gen.keywordTable) :
    ∀ i ∈ s.inputs, keywordReplace i.name = i.name := by
  intro i hi
  rw [C11.keywordReplace_spec, if_neg (h i hi)]

example : ∀ i ∈ goodSchema.inputs, keywordReplace i.name = i.name :=
  hkw_of_not_keyword _ (by decide +kernel)
example : InputFieldsRelevant goodSchema = true := by decide

/-! ## E. the fuel of the `calc*` block (`calcSelection` / `calcVariants` / `calcVariantSels` / `calcFields`) -/


/-- the result is not an "out of fuel" (`unmodelled`) error -/
def Clean {α} (r : Outcome α) : Prop := ∀ w, r ≠ .error (.unmodelled w)

theorem Clean.pure {α} (a : α) : Clean (Pure.pure a : Outcome α) := by intro w h; cases h
theorem Clean.ok {α} (a : α) : Clean (.ok a : Outcome α) := by intro w h; cases h
theorem Clean.panic {α} (m : String) : Clean (panic' m : Outcome α) := by intro w h; cases h
theorem Clean.bind {α β} {x : Outcome α} {f : α → Outcome β} (hx : Clean x)
    (hf : ∀ a, x = .ok a → Clean (f a)) : Clean (x >>= f) := by
  cases x with
  | error e => intro w h; (change Except.error e = _ at h; cases h; exact hx w rfl)
  | ok a => exact hf a rfl
theorem Clean.map {α β} {x : Outcome α} {f : α → β} (hx : Clean x) : Clean (f <$> x) := by
  cases x with
  | error e => intro w h; (change Except.error e = _ at h; cases h; exact hx w rfl)
  | ok a => intro w h; cases h

theorem Clean.getElem {α} (l : List α) (i : Nat) (m : String) :
    Clean (match l[i]? with | some o => (Pure.pure o : Outcome α) | none => panic' m) := by
  split
  · exact Clean.pure _
  · exact Clean.panic _

theorem clean_getFragment (q : Query) (i : Nat) : Clean (q.getFragment i) := by
  unfold Query.getFragment; split <;> first | exact Clean.pure _ | exact Clean.panic _
theorem clean_getField (s : Schema) (i : Nat) : Clean (s.getField i) := by
  unfold Schema.getField; split <;> first | exact Clean.pure _ | exact Clean.panic _
theorem clean_getEnum (s : Schema) (i : Nat) : Clean (s.getEnum i) := by
  unfold Schema.getEnum; split <;> first | exact Clean.pure _ | exact Clean.panic _
theorem clean_getScalar (s : Schema) (i : Nat) : Clean (s.getScalar i) := by
  unfold Schema.getScalar; split <;> first | exact Clean.pure _ | exact Clean.panic _
theorem clean_getInput (s : Schema) (i : Nat) : Clean (s.getInput i) := by
  unfold Schema.getInput; split <;> first | exact Clean.pure _ | exact Clean.panic _
theorem clean_getObject (s : Schema) (i : Nat) : Clean (s.getObject i) := by
  unfold Schema.getObject; split <;> first | exact Clean.pure _ | exact Clean.panic _
theorem clean_getInterface (s : Schema) (i : Nat) : Clean (s.getInterface i) := by
  unfold Schema.getInterface; split <;> first | exact Clean.pure _ | exact Clean.panic _
theorem clean_getUnion (s : Schema) (i : Nat) : Clean (s.getUnion i) := by
  unfold Schema.getUnion; split <;> first | exact Clean.pure _ | exact Clean.panic _

theorem clean_typeName (s : Schema) (t : TypeId) : Clean (s.typeName t) := by
  cases t <;> simp only [Schema.typeName]
  · exact (clean_getObject s _).map
  · exact clean_getScalar s _
  · exact (clean_getInterface s _).map
  · exact (clean_getUnion s _).map
  · exact (clean_getEnum s _).map
  · exact (clean_getInput s _).map

theorem clean_variantsOf (s : Schema) (t : TypeId) : Clean (variantsOf s t) := by
  cases t <;> simp only [variantsOf] <;> try exact Clean.pure _
  exact Clean.bind (clean_getUnion s _) (fun _ _ => Clean.pure _)

theorem clean_variantSelOf (q : Query) (ty : TypeId) (x : Sel) : Clean (variantSelOf q ty x) := by
  cases x <;> simp only [variantSelOf] <;> try exact Clean.pure _
  exact Clean.bind (clean_getFragment q _) (fun _ _ => Clean.pure _)

theorem clean_foldlM {α β} (f : β → α → Outcome β) (hf : ∀ b x, Clean (f b x)) :
    ∀ (l : List α) (b : β), Clean (l.foldlM f b)
  | [], b => by rw [List.foldlM_nil]; exact Clean.pure _
  | a :: l, b => by
    rw [List.foldlM_cons]
    exact Clean.bind (hf b a) (fun b' _ => clean_foldlM f hf l b')

theorem clean_filterMapM {α β} (f : α → Outcome (Option β)) (hf : ∀ x, Clean (f x)) :
    ∀ (l : List α), Clean (l.filterMapM f)
  | [] => by rw [List.filterMapM_nil]; exact Clean.pure _
  | a :: l => by
    rw [List.filterMapM_cons]
    refine Clean.bind (hf a) (fun o _ => ?_)
    cases o with
    | none => exact clean_filterMapM f hf l
    | some b => exact Clean.bind (clean_filterMapM f hf l) (fun _ _ => Clean.pure _)

theorem clean_decorateType (base : RTy) (quals : List Qual) : Clean (decorateType base quals) := by
  unfold decorateType
  refine Clean.bind (clean_foldlM _ ?_ _ _) (fun _ _ => Clean.pure _)
  intro st q
  unfold decorateStep
  split <;> first | exact Clean.pure _ | exact Clean.panic _

theorem clean_renderField (c : Ctx) (g : Option String) (r ft : String) (quals : List Qual) (fl bx : Bool)
    (dep : Option (Option String)) : Clean (renderField c g r ft quals fl bx dep) := by
  unfold renderField
  refine Clean.bind (clean_decorateType _ _) (fun _ _ => ?_)
  simp only []
  split <;> exact Clean.pure _

theorem clean_mapM {α β} (f : α → Outcome β) (hf : ∀ x, Clean (f x)) :
    ∀ (l : List α), Clean (l.mapM f)
  | [] => by rw [List.mapM_nil]; exact Clean.pure _
  | a :: l => by
    rw [List.mapM_cons]
    exact Clean.bind (hf a) (fun _ _ => Clean.bind (clean_mapM f hf l) (fun _ _ => Clean.pure _))

theorem clean_aliasMember (c : Ctx) (a : Item) : Clean (aliasMember c a) := by
  unfold aliasMember
  split
  · exact Clean.bind (clean_renderField _ _ _ _ _ _ _ _) (fun _ _ => Clean.pure _)
  · exact Clean.bind (clean_renderField _ _ _ _ _ _ _ _) (fun _ _ => Clean.pure _)
  · exact Clean.pure _


/-! ### structural facts -/

theorem selSize_pos (x : Sel) : 1 ≤ selSize x := by
  cases x <;> simp [selSize]

theorem length_le_selsSize : ∀ l : List Sel, l.length ≤ selsSize l
  | [] => by simp [selsSize]
  | x :: xs => by
    have := length_le_selsSize xs
    have := selSize_pos x
    rw [selsSize.eq_2]; simp only [List.length_cons]; omega

theorem selSize_le_of_mem {x : Sel} : ∀ {l : List Sel}, x ∈ l → selSize x ≤ selsSize l
  | [], h => by simp at h
  | y :: ys, h => by
    rw [selsSize.eq_2]
    simp only [List.mem_cons] at h
    rcases h with rfl | h
    · omega
    · have := selSize_le_of_mem h; omega

theorem selsDepth_cons_pos (x : Sel) (xs : List Sel) : 1 ≤ selsDepth (x :: xs) := by
  rw [selsDepth.eq_2]
  have := selDepth_pos x
  omega

section CalcFuel
variable (c : Ctx) (N M : Nat)

/-- fuel bound for `calcSelection` on a selection set of depth `≤ e` -/
def Sb (e : Nat) : Nat := e * (N + M + 4) + M + 4
/-- fuel bound for `calcFields` on a selection set of depth `≤ e` and length `L` -/
def Fneed : Nat → Nat → Nat
  | 0, _ => 1
  | e+1, L => L + 1 + Sb N M e

def InlOK (e : Nat) (vsels : List VariantSel) : Prop :=
  ∀ t sub, VariantSel.inline t sub ∈ vsels → selsDepth sub ≤ e ∧ selsSize sub ≤ N

def Stmt1 (fuel : Nat) : Prop := ∀ name pfx ty sels e, selsDepth sels ≤ e → selsSize sels ≤ N →
  Sb N M e ≤ fuel → Clean (calcSelection c fuel name pfx ty sels)
def Stmt2 (fuel : Nat) : Prop := ∀ name pfx vsels vts e, InlOK N e vsels →
  vts.length + 1 + vsels.length + 1 + Fneed N M e N ≤ fuel → Clean (calcVariants c fuel name pfx vsels vts)
def Stmt3 (fuel : Nat) : Prop := ∀ sname pfx vt mine e, InlOK N e mine →
  mine.length + 1 + Fneed N M e N ≤ fuel → Clean (calcVariantSels c fuel sname pfx vt mine)
def Stmt4 (fuel : Nat) : Prop := ∀ pfx ty sels e, selsDepth sels ≤ e → selsSize sels ≤ N →
  Fneed N M e sels.length ≤ fuel → Clean (calcFields c fuel pfx ty sels)

macro "clean_leaf" : tactic => `(tactic| first
  | exact Clean.pure _ | exact Clean.ok _ | exact Clean.panic _
  | exact clean_getFragment _ _ | exact clean_getField _ _ | exact clean_getEnum _ _
  | exact clean_getScalar _ _ | exact clean_typeName _ _ | exact clean_renderField _ _ _ _ _ _ _ _
  | assumption)

macro "clean_auto" : tactic => `(tactic|
  repeat' (first | clean_leaf | (refine Clean.bind ?_ (fun _ _ => ?_)) | split))

theorem step4 (f : Nat) (H1 : Stmt1 c N M f) (H4 : Stmt4 c N M f) : Stmt4 c N M (f + 1) := by
  intro pfx ty sels e hD hS hF
  cases sels with
  | nil => rw [calcFields.eq_2 _ _ _ _ (by omega)]; exact Clean.pure _
  | cons x rest =>
    cases e with
    | zero => have := selsDepth_cons_pos x rest; omega
    | succ e =>
      rw [selsDepth.eq_2] at hD
      rw [selsSize.eq_2] at hS
      simp only [Fneed, List.length_cons] at hF
      have hrest : Clean (calcFields c f pfx ty rest) :=
        H4 pfx ty rest (e + 1) (by omega) (by omega) (by simp only [Fneed]; omega)
      cases x with
      | field a fid sub =>
        rw [selDepth.eq_1] at hD
        rw [selSize.eq_1] at hS
        have hsub : ∀ name pfx t, Clean (calcSelection c f name pfx t sub) :=
          fun name pfx t => H1 name pfx t sub e (by omega) (by omega) (by omega)
        rw [calcFields.eq_3]
        simp only []
        clean_auto
        all_goals exact hsub _ _ _
      | spread g =>
        rw [calcFields.eq_4]
        clean_auto
      | inline t sub => rw [calcFields.eq_5 _ _ _ _ _ _ (by simp) (by simp)]; exact hrest
      | typename => rw [calcFields.eq_5 _ _ _ _ _ _ (by simp) (by simp)]; exact hrest
end CalcFuel


section CalcFuel2
variable (c : Ctx) (N M : Nat)

theorem Fneed_pos (e L : Nat) : 1 ≤ Fneed N M e L := by
  cases e <;> simp only [Fneed] <;> omega

theorem Fneed_mono (e : Nat) {L L' : Nat} (h : L ≤ L') : Fneed N M e L ≤ Fneed N M e L' := by
  cases e <;> simp only [Fneed] <;> omega

theorem Sb_succ (e : Nat) : Sb N M (e + 1) = Sb N M e + (N + M + 4) := by
  unfold Sb; rw [Nat.succ_mul]; omega

theorem InlOK.tail {e : Nat} {x : VariantSel} {rest : List VariantSel} (h : InlOK N e (x :: rest)) :
    InlOK N e rest :=
  fun t sub hm => h t sub (List.mem_cons_of_mem _ hm)

theorem InlOK.filter {e : Nat} {l : List VariantSel} (p : VariantSel → Bool) (h : InlOK N e l) :
    InlOK N e (l.filter p) :=
  fun t sub hm => h t sub (List.mem_filter.mp hm).1

theorem step3 (f : Nat) (H3 : Stmt3 c N M f) (H4 : Stmt4 c N M f) : Stmt3 c N M (f + 1) := by
  intro sname pfx vt mine e hI hF
  cases mine with
  | nil => rw [calcVariantSels.eq_2 _ _ _ _ _ (by omega)]; exact Clean.pure _
  | cons x rest =>
    simp only [List.length_cons] at hF
    have hrest : Clean (calcVariantSels c f sname pfx vt rest) :=
      H3 sname pfx vt rest e hI.tail (by omega)
    cases x with
    | spread g fr =>
      rw [calcVariantSels.eq_5]
      clean_auto
    | inline t sub =>
      have ⟨hd, hs⟩ := hI t sub (by simp)
      have hsub : ∀ pfx, Clean (calcFields c f pfx vt sub) := fun pfx =>
        H4 pfx vt sub e hd hs (by
          have := Fneed_mono N M e (Nat.le_trans (length_le_selsSize sub) hs)
          omega)
      by_cases hsp : ∃ g, sub = [Sel.spread g]
      · obtain ⟨g, rfl⟩ := hsp
        rw [calcVariantSels.eq_3]
        simp only []
        clean_auto
      · rw [calcVariantSels.eq_4 _ _ _ _ _ _ _ _ (fun g hg => hsp ⟨g, hg⟩)]
        simp only []
        clean_auto
        all_goals exact hsub _

theorem step2 (f : Nat) (H2 : Stmt2 c N M f) (H3 : Stmt3 c N M f) : Stmt2 c N M (f + 1) := by
  intro name pfx vsels vts e hI hF
  cases vts with
  | nil => rw [calcVariants.eq_2 _ _ _ _ _ (by omega)]; exact Clean.pure _
  | cons vt rest =>
    simp only [List.length_cons] at hF
    have hrest : Clean (calcVariants c f name pfx vsels rest) := H2 name pfx vsels rest e hI (by omega)
    have hmine : ∀ sname, Clean (calcVariantSels c f sname pfx vt (vsels.filter (fun v => v.typeId == vt))) :=
      fun sname => H3 sname pfx vt _ e (hI.filter N _) (by
        have := List.length_filter_le (fun v : VariantSel => v.typeId == vt) vsels
        omega)
    rw [calcVariants.eq_3]
    simp only []
    clean_auto
    all_goals first | exact hmine _ | exact clean_mapM _ (clean_aliasMember c) _

theorem variantSels_spec (q : Query) (ty : TypeId) : ∀ (sels : List Sel) (vsels : List VariantSel),
    sels.filterMapM (variantSelOf q ty) = .ok vsels →
    vsels.length ≤ sels.length ∧ ∀ t sub, VariantSel.inline t sub ∈ vsels → Sel.inline t sub ∈ sels
  | [], vsels, h => by
    simp only [List.filterMapM_nil, pure, Except.pure, Except.ok.injEq] at h
    subst h; simp
  | x :: xs, vsels, h => by
    rw [List.filterMapM_cons] at h
    obtain ⟨o, ho, h⟩ := bind_ok h
    cases o with
    | none =>
      have ⟨h1, h2⟩ := variantSels_spec q ty xs vsels h
      exact ⟨by simp only [List.length_cons]; omega, fun t sub hm => List.mem_cons_of_mem _ (h2 t sub hm)⟩
    | some v =>
      simp only [] at h
      obtain ⟨r, hr, h⟩ := bind_ok h
      simp only [pure, Except.pure, Except.ok.injEq] at h
      subst h
      have ⟨h1, h2⟩ := variantSels_spec q ty xs r hr
      refine ⟨by simp only [List.length_cons]; omega, ?_⟩
      intro t sub hm
      simp only [List.mem_cons] at hm
      rcases hm with hm | hm
      · subst hm
        cases x with
        | inline t' sub' =>
          simp only [variantSelOf, pure, Except.pure, Except.ok.injEq, Option.some.injEq] at ho
          cases ho; simp
        | spread g =>
          simp only [variantSelOf] at ho
          obtain ⟨fr, _, ho⟩ := bind_ok ho
          simp only [pure, Except.pure, Except.ok.injEq] at ho
          split at ho <;> simp at ho
        | field a b c' => simp [variantSelOf, pure, Except.pure] at ho
        | typename => simp [variantSelOf, pure, Except.pure] at ho
      · exact List.mem_cons_of_mem _ (h2 t sub hm)

theorem step1 (hM : ∀ ty vts, variantsOf c.s ty = .ok (some vts) → vts.length ≤ M)
    (f : Nat) (H2 : Stmt2 c N M f) (H4 : Stmt4 c N M f) : Stmt1 c N M (f + 1) := by
  intro name pfx ty sels e hD hS hF
  by_cases hsp : ∃ g, sels = [Sel.spread g]
  · obtain ⟨g, rfl⟩ := hsp
    rw [calcSelection.eq_2]
    clean_auto
  · rw [calcSelection.eq_3 _ _ _ _ _ _ (fun g hg => hsp ⟨g, hg⟩)]
    have hL := length_le_selsSize sels
    have hfields : Clean (calcFields c f pfx ty sels) := by
      apply H4 pfx ty sels e hD hS
      cases e with
      | zero => simp only [Fneed]; unfold Sb at hF; omega
      | succ e' => simp only [Fneed]; rw [Sb_succ] at hF; omega
    simp only []
    refine Clean.bind (clean_variantsOf _ _) (fun variants hv => ?_)
    cases variants with
    | none =>
      simp only []
      clean_auto
    | some vts =>
      simp only []
      refine Clean.bind (clean_filterMapM _ (clean_variantSelOf _ _) _) (fun vsels hvs => ?_)
      have ⟨hlen, hinl⟩ := variantSels_spec c.q ty sels vsels hvs
      have hvl := hM ty vts hv
      have hvar : Clean (calcVariants c f name pfx vsels vts) := by
        cases e with
        | zero =>
          have : sels = [] := by
            cases sels with
            | nil => rfl
            | cons x xs => have := selsDepth_cons_pos x xs; omega
          subst this
          have : vsels = [] := List.length_eq_zero_iff.mp (by simpa using hlen)
          subst this
          apply H2 name pfx [] vts 0 (fun t sub hm => by simp at hm)
          simp only [Fneed, List.length_nil]; unfold Sb at hF; omega
        | succ e' =>
          have hI : InlOK N e' vsels := by
            intro t sub hm
            have hmem := hinl t sub hm
            have h1 := selDepth_le_of_mem hmem
            have h2 := selSize_le_of_mem hmem
            rw [selDepth.eq_2] at h1
            rw [selSize.eq_2] at h2
            omega
          apply H2 name pfx vsels vts e' hI
          cases e' with
          | zero => simp only [Fneed]; rw [Sb_succ] at hF; unfold Sb at hF; omega
          | succ e'' => simp only [Fneed]; rw [Sb_succ, Sb_succ] at hF; omega
      clean_auto

theorem calc_clean (hM : ∀ ty vts, variantsOf c.s ty = .ok (some vts) → vts.length ≤ M) :
    ∀ fuel, Stmt1 c N M fuel ∧ Stmt2 c N M fuel ∧ Stmt3 c N M fuel ∧ Stmt4 c N M fuel := by
  intro fuel
  induction fuel with
  | zero =>
    refine ⟨?_, ?_, ?_, ?_⟩
    · intro _ _ _ _ e _ _ h; unfold Sb at h; omega
    · intro _ _ _ _ e _ h; omega
    · intro _ _ _ _ e _ h; omega
    · intro _ _ _ e _ _ h; have := Fneed_pos N M e ‹List Sel›.length; omega
  | succ f ih =>
    obtain ⟨H1, H2, H3, H4⟩ := ih
    exact ⟨step1 c N M hM f H2 H4, step2 c N M f H2 H3, step3 c N M f H3 H4, step4 c N M f H1 H4⟩

end CalcFuel2


/-! ### the fuel of `responseItems` / `fragmentItems` -/

theorem le_foldl_add (l : List Nat) : ∀ (a x : Nat), (x ∈ l ∨ x ≤ a) → x ≤ l.foldl (· + ·) a := by
  induction l with
  | nil => intro a x h; simpa using h
  | cons y ys ih =>
    intro a x h
    simp only [List.foldl_cons]
    apply ih
    simp only [List.mem_cons] at h
    rcases h with (rfl | h) | h
    · exact .inr (by omega)
    · exact .inl h
    · exact .inr (by omega)

def totalSize (q : Query) : Nat :=
  (q.fragments.map (fun f => selsSize f.sels) ++ q.operations.map (fun o => selsSize o.sels)).foldl (· + ·) 0
def maxUnion (s : Schema) : Nat := (s.unions.map (fun u => u.variants.length)).foldl max 0

theorem calcFuel_eq (s : Schema) (q : Query) :
    calcFuel s q = walkFuel q * (totalSize q + s.objects.length + maxUnion s + 4) + 16 := rfl

/-- an abstract type never has more variants than `#objects + (largest union)` -/
theorem variants_length_le (s : Schema) (ty : TypeId) (vts : List TypeId)
    (h : variantsOf s ty = .ok (some vts)) : vts.length ≤ s.objects.length + maxUnion s := by
  cases ty with
  | interface i =>
    simp only [variantsOf, pure, Except.pure, Except.ok.injEq, Option.some.injEq] at h
    subst h
    simp only [List.length_map, Schema.implementors]
    have := List.length_filter_le (fun (x : StoredObject × Nat) => x.1.implements.contains i) s.objects.zipIdx
    simp only [List.length_zipIdx] at this
    omega
  | union i =>
    simp only [variantsOf] at h
    obtain ⟨un, hun, h⟩ := bind_ok h
    simp only [pure, Except.pure, Except.ok.injEq, Option.some.injEq] at h
    subst h
    have hmem : un ∈ s.unions := by
      unfold Schema.getUnion at hun
      split at hun
      · rename_i o ho
        simp only [pure, Except.pure, Except.ok.injEq] at hun
        subst hun; exact List.mem_of_getElem? ho
      · simp [panic'] at hun
    have : un.variants.length ≤ maxUnion s := by
      apply le_foldl_max
      left
      exact List.mem_map.mpr ⟨un, hmem, rfl⟩
    omega
  | object i => simp [variantsOf, pure, Except.pure] at h
  | scalar i => simp [variantsOf, pure, Except.pure] at h
  | «enum» i => simp [variantsOf, pure, Except.pure] at h
  | input i => simp [variantsOf, pure, Except.pure] at h

/-- **fuel sufficiency of the `calc*` block**: for every selection set that is the body of one of the
    query's operations or fragments (any name, prefix and parent type), `calcFuel` is enough -/
theorem calcSelection_clean (c : Ctx) (name pfx : String) (ty : TypeId) (sels : List Sel)
    (hd : selsDepth sels ≤ maxDepth c.q) (hs : selsSize sels ≤ totalSize c.q) :
    Clean (calcSelection c (calcFuel c.s c.q) name pfx ty sels) := by
  have H := (calc_clean c (totalSize c.q) (c.s.objects.length + maxUnion c.s)
    (variants_length_le c.s) (calcFuel c.s c.q)).1
  apply H name pfx ty sels (maxDepth c.q) hd hs
  rw [calcFuel_eq, walkFuel_eq]
  unfold Sb
  obtain ⟨K, hK⟩ : ∃ K, K = totalSize c.q + c.s.objects.length + maxUnion c.s + 4 := ⟨_, rfl⟩
  have e1 : totalSize c.q + (c.s.objects.length + maxUnion c.s) + 4 = K := by omega
  rw [e1, ← hK]
  have h1 : maxDepth c.q + 3 ≤ (c.q.fragments.length + 1) * (maxDepth c.q + 2) + 1 := by
    rw [Nat.succ_mul]; omega
  have h2 := Nat.mul_le_mul_right K h1
  rw [Nat.add_mul] at h2
  omega

/-- **E**: `responseItems` never runs out of fuel (it never returns an `unmodelled` error at all),
    for every operation of the query, with or without fragment spreads -/
theorem responseItems_fuel_sufficient (c : Ctx) (op : ROperation) (hop : op ∈ c.q.operations) :
    ∀ w, responseItems c op ≠ .error (.unmodelled w) := by
  unfold responseItems
  apply calcSelection_clean c _ _ _ _ (op_depth_le c.q op hop)
  apply le_foldl_add
  left
  simp only [List.mem_append, List.mem_map]
  exact .inr ⟨op, hop, rfl⟩

/-- E for the items of a fragment -/
theorem fragmentItems_fuel_sufficient (c : Ctx) (fid : Nat) :
    ∀ w, fragmentItems c fid ≠ .error (.unmodelled w) := by
  unfold fragmentItems
  refine Clean.bind (clean_getFragment _ _) (fun f hf => ?_)
  have hmem : f ∈ c.q.fragments := List.mem_of_getElem? (getFragment_ok hf)
  apply calcSelection_clean c _ _ _ _ (frag_depth_le c.q f hmem)
  apply le_foldl_add
  left
  simp only [List.mem_append, List.mem_map]
  exact .inl ⟨f, hmem, rfl⟩




/-! ## D′. the `Variables` struct (and its default-value functions) mentions only defined names -/

theorem filterMapM_ok_mem {ε α β : Type} {f : α → Except ε (Option β)} :
    ∀ {l : List α} {r : List β}, l.filterMapM f = .ok r → ∀ y ∈ r, ∃ x ∈ l, f x = .ok (some y)
  | [], r, h, y, hy => by
    simp only [List.filterMapM_nil, pure, Except.pure, Except.ok.injEq] at h
    subst h; simp at hy
  | a :: l, r, h, y, hy => by
    rw [List.filterMapM_cons] at h
    obtain ⟨o, ho, h⟩ := bind_ok h
    cases o with
    | none =>
      obtain ⟨x, hx, hfx⟩ := filterMapM_ok_mem (l := l) h y hy
      exact ⟨x, by simp [hx], hfx⟩
    | some b =>
      simp only [] at h
      obtain ⟨r', hr', h⟩ := bind_ok h
      simp only [pure, Except.pure, Except.ok.injEq] at h
      subst h
      simp only [List.mem_cons] at hy
      rcases hy with rfl | hy
      · exact ⟨a, by simp, ho⟩
      · obtain ⟨x, hx, hfx⟩ := filterMapM_ok_mem hr' y hy
        exact ⟨x, by simp [hx], hfx⟩

theorem variableType_leaf {c : Ctx} {v : RVariable} {t : RTy} (h : variableType c v = .ok t) :
    ∃ tn, c.s.typeName v.ty.id = .ok tn ∧ leaf t = keywordReplace (c.o.normalization.fieldType c.cs tn) := by
  unfold variableType at h
  obtain ⟨tn, htn, h⟩ := bind_ok h
  exact ⟨tn, htn, by simpa [leaf] using decorateType_leaf h⟩

/-- every mention of an item of `variablesItems` is the leaf of the `variableType` of a variable -/
theorem variablesItems_mentions {c : Ctx} {op : Nat} {items : List Item} (h : variablesItems c op = .ok items) :
    ∀ item ∈ items, ∀ n ∈ itemMentions item,
      ∃ v ∈ c.q.opVariables op, ∃ t, variableType c v = .ok t ∧ leaf t = n := by
  unfold variablesItems at h
  simp only [] at h
  split at h
  · simp only [pure, Except.pure, Except.ok.injEq] at h
    subst h
    intro item hitem n hn
    simp only [List.mem_singleton] at hitem
    subst hitem
    simp [itemMentions] at hn
  · obtain ⟨fs, hfs, h⟩ := bind_ok h
    obtain ⟨dfl, hdfl, h⟩ := bind_ok h
    simp only [pure, Except.pure, Except.ok.injEq] at h
    subst h
    intro item hitem n hn
    simp only [List.mem_cons, List.not_mem_nil, or_false] at hitem
    rcases hitem with rfl | rfl
    · simp only [itemMentions, List.mem_map] at hn
      obtain ⟨f, hf, hfn⟩ := hn
      obtain ⟨v, hv, hfv⟩ := mapM_ok_mem hfs f hf
      obtain ⟨t, ht, hfv⟩ := bind_ok hfv
      simp only [pure, Except.pure, Except.ok.injEq] at hfv
      subst hfv
      exact ⟨v, hv, t, ht, hfn⟩
    · simp only [itemMentions, List.mem_map] at hn
      obtain ⟨p, hp, hpn⟩ := hn
      obtain ⟨v, hv, hfv⟩ := filterMapM_ok_mem hdfl p hp
      split at hfv
      · simp [pure, Except.pure] at hfv
      · obtain ⟨t, ht, hfv⟩ := bind_ok hfv
        obtain ⟨_, _, hfv⟩ := bind_ok hfv
        simp only [pure, Except.pure, Except.ok.injEq, Option.some.injEq] at hfv
        subst hfv
        exact ⟨v, hv, t, ht, hpn⟩

/-- **D′**: under `normalization = none`, every type name mentioned by the `Variables` struct and by
    the `default_*` functions is defined.  Hypotheses: the variables have input / enum / scalar types
    (GraphQL validation), and `keyword_replace` is the identity on the names of the schema's scalars
    and enums (the mention is escaped here, the enum / scalar declarations are not; for input types both
    sides are escaped, so no hypothesis is needed for them). -/
theorem variables_mentions_defined (c : Ctx) (op : Nat) (u : UsedTypes) (S E I items : List Item)
    (hnorm : c.o.normalization = .none)
    (hkwS : ∀ n ∈ c.s.scalars, keywordReplace n = n)
    (hkwE : ∀ e ∈ c.s.enums, keywordReplace e.name = e.name)
    (hvars : ∀ v ∈ c.q.opVariables op, Relevant v.ty.id)
    (hu : allUsedTypes c.s c.q op = .ok u)
    (hS : scalarItems c u = .ok S) (hE : enumItems c u = .ok E) (hI : inputItems c u = .ok I)
    (hV : variablesItems c op = .ok items) :
    ∀ item ∈ items, ∀ n ∈ itemMentions item, Defined c S E I n := by
  intro item hitem n hn
  obtain ⟨v, hv, t, ht, hleaf⟩ := variablesItems_mentions hV item hitem n hn
  obtain ⟨tn, htn, hleaf'⟩ := variableType_leaf ht
  rw [hnorm, fieldType_none] at hleaf'
  have hn' : n = keywordReplace tn := by rw [← hleaf, hleaf']
  subst hn'
  have hrel := hvars v hv
  have hused : v.ty.id ∈ u.types := variable_types_used c.s c.q op u hu v hv hrel
  cases hid : v.ty.id with
  | scalar k =>
    rw [hid] at htn hused
    have hk := getScalar_ok htn
    rw [hkwS tn (List.mem_of_getElem? hk)]
    by_cases hd : tn ∈ Schema.defaultScalars
    · exact .inl hd
    · obtain ⟨it, hit, hname⟩ := scalarItems_defines hS hused hk hd
      refine .inr (.inr ⟨it, by simp [hit], ?_⟩)
      rw [hname, hnorm]; rfl
  | «enum» k =>
    rw [hid] at htn hused
    simp only [Schema.typeName] at htn
    cases hge : c.s.getEnum k with
    | error e => simp [hge, Functor.map, Except.map] at htn
    | ok e =>
      simp only [hge, Functor.map, Except.map, Except.ok.injEq] at htn
      have hk := getEnum_ok hge
      rw [← htn, hkwE e (List.mem_of_getElem? hk)]
      by_cases hx : e.name ∈ c.o.externEnums
      · exact .inr (.inl hx)
      · obtain ⟨it, hit, hname⟩ := enumItems_defines hE hused hk hx
        refine .inr (.inr ⟨it, by simp [hit], ?_⟩)
        rw [hname, hnorm]; rfl
  | input k =>
    rw [hid] at htn hused
    simp only [Schema.typeName] at htn
    cases hge : c.s.getInput k with
    | error e => simp [hge, Functor.map, Except.map] at htn
    | ok i2 =>
      simp only [hge, Functor.map, Except.map, Except.ok.injEq] at htn
      have hk := getInput_ok hge
      obtain ⟨it, hit, hfit⟩ := inputItems_defines hI hused hk
      refine .inr (.inr ⟨it, by simp [hit], ?_⟩)
      rw [inputItem_name hfit, hnorm, ← htn]
      rfl
  | object k => rw [hid] at hrel; exact absurd hrel (by simp [Relevant])
  | interface k => rw [hid] at hrel; exact absurd hrel (by simp [Relevant])
  | union k => rw [hid] at hrel; exact absurd hrel (by simp [Relevant])




/-- the hypotheses of D′ hold on the sample schema / query -/
example : (∀ n ∈ goodSchema.scalars, keywordReplace n = n) ∧
    (∀ e ∈ goodSchema.enums, keywordReplace e.name = e.name) ∧
    (∀ v ∈ goodQuery.opVariables 0, Relevant v.ty.id) := by
  refine ⟨fun n hn => ?_, fun e he => ?_, fun v hv => ?_⟩
  · rw [C11.keywordReplace_spec, if_neg]
    revert n; decide +kernel
  · rw [C11.keywordReplace_spec, if_neg]
    revert e; decide +kernel
  · have : v ∈ [goodQuery.variables[0]] := hv
    simp only [List.mem_singleton] at this
    subst this
    trivial

/-! ## C17 at the level of the whole module: which fuel can `responseForQuery` exhaust? -/

/-- the only "out of fuel" result allowed is the depth bound of default-value literals -/
def LitOnly {α} (r : Outcome α) : Prop := ∀ w, r = .error (.unmodelled w) → w = "literal fuel"

theorem Clean.litOnly {α} {r : Outcome α} (h : Clean r) : LitOnly r := fun w hw => absurd hw (h w)

theorem LitOnly.bind {α β} {x : Outcome α} {f : α → Outcome β} (hx : LitOnly x)
    (hf : ∀ a, x = .ok a → LitOnly (f a)) : LitOnly (x >>= f) := by
  cases x with
  | error e => intro w h; (change Except.error e = _ at h; cases h; exact hx w rfl)
  | ok a => exact hf a rfl

theorem litOnly_forM {α} (f : α → Outcome PUnit) (hf : ∀ x, LitOnly (f x)) :
    ∀ (l : List α), LitOnly (l.forM f)
  | [] => by simp only [List.forM]; exact (Clean.pure _).litOnly
  | a :: l => by
    simp only [List.forM]
    exact LitOnly.bind (hf a) (fun _ _ => litOnly_forM f hf l)

theorem litOnly_mapM {α β} (f : α → Outcome β) (hf : ∀ x, LitOnly (f x)) :
    ∀ (l : List α), LitOnly (l.mapM f)
  | [] => by rw [List.mapM_nil]; exact (Clean.pure _).litOnly
  | a :: l => by
    rw [List.mapM_cons]
    exact LitOnly.bind (hf a) (fun _ _ => LitOnly.bind (litOnly_mapM f hf l) (fun _ _ => (Clean.pure _).litOnly))

theorem litOnly_filterMapM {α β} (f : α → Outcome (Option β)) (hf : ∀ x, LitOnly (f x)) :
    ∀ (l : List α), LitOnly (l.filterMapM f)
  | [] => by rw [List.filterMapM_nil]; exact (Clean.pure _).litOnly
  | a :: l => by
    rw [List.filterMapM_cons]
    refine LitOnly.bind (hf a) (fun o _ => ?_)
    cases o with
    | none => exact litOnly_filterMapM f hf l
    | some b => exact LitOnly.bind (litOnly_filterMapM f hf l) (fun _ _ => (Clean.pure _).litOnly)

theorem literalOk_litOnly (s : Schema) : ∀ (fuel : Nat) (v : Value) (ty : TypeId) (quals : List Qual),
    LitOnly (literalOk s fuel v ty quals) := by
  intro fuel
  induction fuel with
  | zero =>
    intro v ty quals w h
    simp only [literalOk] at h
    split at h
    · cases h
    · simp only [Except.error.injEq, Err.unmodelled.injEq] at h
      exact h.symm
  | succ n ih =>
    intro v ty quals
    cases v with
    | var x => simp only [literalOk]; exact (Clean.panic _).litOnly
    | null =>
      simp only [literalOk]
      split
      · exact (Clean.pure _).litOnly
      · exact (Clean.panic _).litOnly
    | list xs => simp only [literalOk]; exact litOnly_forM _ (fun x => ih x ty _) xs
    | obj kvs =>
      simp only [literalOk]
      split
      · exact (Clean.pure _).litOnly
      · refine LitOnly.bind (clean_getInput _ _).litOnly (fun i _ => ?_)
        apply litOnly_forM
        rintro ⟨fname, fty⟩
        simp only []
        split
        · exact ih _ _ _
        · exact (Clean.pure _).litOnly
    | int x => simp only [literalOk]; exact (Clean.pure _).litOnly
    | float x => simp only [literalOk]; exact (Clean.pure _).litOnly
    | str x => simp only [literalOk]; exact (Clean.pure _).litOnly
    | bool x => simp only [literalOk]; exact (Clean.pure _).litOnly
    | «enum» x => simp only [literalOk]; exact (Clean.pure _).litOnly

theorem clean_collectSel (s : Schema) (q : Query) : ∀ (fuel : Nat) (u : UsedTypes) (x : Sel),
    Clean (collectSel s q fuel u x) := by
  intro fuel
  induction fuel with
  | zero => intro u x; simp only [collectSel]; exact Clean.pure _
  | succ n ih =>
    intro u x
    cases x with
    | typename => simp only [collectSel]; exact Clean.pure _
    | field a fid sub =>
      rw [collectSel.eq_2]
      exact Clean.bind (clean_getField _ _) (fun _ _ => clean_foldlM _ ih _ _)
    | inline t sub => rw [collectSel.eq_3]; exact clean_foldlM _ ih _ _
    | spread g =>
      rw [collectSel.eq_4]
      split
      · exact Clean.pure _
      · exact Clean.bind (clean_getFragment _ _) (fun _ _ => clean_foldlM _ ih _ _)

theorem clean_usedInputIds (s : Schema) : ∀ (fuel : Nat) (u : UsedTypes) (i : StoredInput),
    Clean (usedInputIds s fuel u i) := by
  intro fuel
  induction fuel with
  | zero => intro u i; simp only [usedInputIds]; exact Clean.pure _
  | succ n ih =>
    intro u i
    rw [usedInputIds.eq_2]
    apply clean_foldlM
    rintro b ⟨fname, ty⟩
    simp only []
    split
    · split
      · exact Clean.pure _
      · exact Clean.bind (clean_getInput _ _) (fun _ _ => ih _ _)
    all_goals exact Clean.pure _

theorem clean_allUsedTypes (s : Schema) (q : Query) (op : Nat) : Clean (allUsedTypes s q op) := by
  unfold allUsedTypes
  refine Clean.bind ?_ (fun o _ => Clean.bind (clean_foldlM _ (clean_collectSel s q _) _ _)
    (fun u _ => clean_foldlM _ ?_ _ _))
  · unfold Query.getOperation; split <;> first | exact Clean.pure _ | exact Clean.panic _
  · intro b v
    unfold collectVar
    split
    · exact Clean.bind (clean_getInput _ _) (fun _ _ => clean_usedInputIds _ _ _ _)
    all_goals exact Clean.pure _

theorem clean_inputItem (c : Ctx) (i : StoredInput) : Clean (inputItem c i) := by
  have hft : ∀ ty quals, Clean (inputFieldType c ty quals) := by
    intro ty quals
    unfold inputFieldType
    exact Clean.bind (clean_typeName _ _) (fun _ _ => Clean.bind (clean_decorateType _ _) (fun _ _ => Clean.pure _))
  rw [inputItem.eq_1]
  split
  · refine Clean.bind (clean_mapM _ ?_ _) (fun _ _ => Clean.pure _)
    rintro ⟨fname, ty⟩
    exact Clean.bind (hft _ _) (fun _ _ => Clean.pure _)
  · refine Clean.bind (clean_mapM _ ?_ _) (fun _ _ => Clean.pure _)
    rintro ⟨fname, ty⟩
    exact Clean.bind (hft _ _) (fun _ _ => Clean.pure _)

theorem litOnly_variablesItems (c : Ctx) (op : Nat) : LitOnly (variablesItems c op) := by
  have hvt : ∀ v, Clean (variableType c v) := by
    intro v
    unfold variableType
    exact Clean.bind (clean_typeName _ _) (fun _ _ => clean_decorateType _ _)
  unfold variablesItems
  simp only []
  split
  · exact (Clean.pure _).litOnly
  · refine LitOnly.bind (clean_mapM _ ?_ _).litOnly (fun _ _ => LitOnly.bind (litOnly_filterMapM _ ?_ _)
      (fun _ _ => (Clean.pure _).litOnly))
    · intro v
      exact Clean.bind (hvt v) (fun _ _ => Clean.pure _)
    · intro v
      split
      · exact (Clean.pure _).litOnly
      · exact LitOnly.bind (hvt v).litOnly (fun _ _ => LitOnly.bind (literalOk_litOnly _ _ _ _ _)
          (fun _ _ => (Clean.pure _).litOnly))

/-- **C17, module level**: whatever the schema, query, operation and options, the only fuel that
    `responseForQuery` can exhaust is the nesting bound (64) of default-value literals — a bound of the
    model, not of the code.  All walks that mirror guarded recursions of the code (`collect_used_types`,
    `used_input_ids_recursive`, `calculate_selection`) always have enough fuel. -/
theorem responseForQuery_fuel (c : Ctx) (op : Nat) :
    ∀ w, responseForQuery c op = .error (.unmodelled w) → w = "literal fuel" := by
  unfold responseForQuery
  refine LitOnly.bind (clean_allUsedTypes _ _ _).litOnly (fun u _ => ?_)
  refine LitOnly.bind (Clean.litOnly ?_) (fun scalars _ => ?_)
  · unfold scalarItems
    exact Clean.bind (clean_mapM _ (clean_getScalar _) _) (fun _ _ => Clean.pure _)
  refine LitOnly.bind (Clean.litOnly ?_) (fun enums _ => ?_)
  · unfold enumItems
    exact Clean.bind (clean_mapM _ (clean_getEnum _) _) (fun _ _ => Clean.pure _)
  refine LitOnly.bind (clean_mapM _ (fragmentItems_fuel_sufficient c) _).litOnly (fun frags _ => ?_)
  refine LitOnly.bind (Clean.litOnly ?_) (fun inputs _ => ?_)
  · unfold inputItems
    apply clean_mapM
    rintro ⟨i, _⟩
    exact clean_inputItem c i
  refine LitOnly.bind (litOnly_variablesItems c op) (fun vars _ => ?_)
  refine LitOnly.bind (Clean.litOnly ?_) (fun o ho => ?_)
  · unfold Query.getOperation; split <;> first | exact Clean.pure _ | exact Clean.panic _
  have hmem : o ∈ c.q.operations := List.mem_of_getElem? (getOperation_ok ho)
  exact LitOnly.bind (Clean.litOnly (responseItems_fuel_sufficient c o hmem)) (fun _ _ => (Clean.pure _).litOnly)



end C02
end GqlVerif
