import GqlVerif.Proofs.C01EndToEndC
/-!
# C01 / C03 end to end over `Codegen.responseForQuery`, for object-tree operations

**Scope** (see part A): selection trees made of `.field` (with or without alias) and `.typename` only,
sub-selections on object types only, scalar / enum leaves, normalization `none`, no denied deprecated
field.  **Fragments, inline fragments, interface / union positions and extern enums are out of scope.**

Files: `C01EndToEndA` (specification `conformsSel`, class `TreeOp`, closed form, Theorem 1
`tree_items_shape`), `C01EndToEndB` (loose specification, exact acceptance of the emitted structs),
`C01EndToEndC` (`canonSel`, losslessness of the emitted structs), this file (top level).

The environment is `moduleEnv c items`: the items `responseForQuery` emitted (built-in aliases, scalar
aliases, enums, `Variables`, response structs) + one extern per custom scalar, defined as `String`.

* `tree_accepts` (Theorem 2): `conformsOp c op j → ∃ v, Serde.de env ResponseData j = .ok v`;
* `tree_lossless` (Theorem 3): … `→ Serde.ser env ResponseData v = .ok (canonSel … j)`, with `canonSel`
  the explicit function of part C (selection order, integer ID → decimal string, `__typename` and
  nothing else dropped, `null` → absent exactly where `skip_serializing_none` applies); `tree_roundtrip`
  is 2 + 3 in one statement about `Serde.roundtrip`;
* `tree_precise_iff` / `tree_precise` (Theorem 4, C03): `Serde.de env ResponseData j` succeeds **iff**
  `conformsSelLoose c.s op.sels j` — so a missing key or `null` at a non-null position, a non-list at a
  list position, a wrong scalar kind, a duplicated selected key are rejected at every depth of the tree.
  Two liberties of serde that the task statement did not list are part of `conformsSelLoose`: a JSON
  array at an object position is read positionally, an absent key at a nullable position reads as `None`.
  With a loose specification that only allows unknown keys the statement is **false of the model**:
  `array_at_object_position_accepted`, `absent_nullable_key_accepted`, `precise_literal_false_array`,
  `precise_literal_false_absent` (concrete witnesses on the module at the end of the file).
* `tree_module_shape`, `fieldOf_shape` — Theorem 1 continued: the response structs are the tail of the
  module; `wire` = response key, type = `rustOf` over the leaf name, helper exactly on `ID` leaves.

Hypotheses (all decidable, all evaluated on a concrete module at the end of the file):
`TreeOp c op` (the class); `moduleOk c items` (item names pairwise distinct and not Rust primitives, no
item named like an extern path, enum tables well-formed, no extern enums); for Theorem 3 also
`rustOkSels` / `rustNames` (Rust field names pairwise distinct within every selection set).
Fuel: `deFuel` / the fuel of `Serde.ser` exceed the depth of the selection tree because every nesting
level contributes a struct item (`depth_le_items`, `deFuel_depth`).
-/
set_option linter.unusedSimpArgs false
set_option linter.unusedSectionVars false

namespace GqlVerif
namespace C01
namespace E2E
open Serde Spec C13 C03 Codegen

/-! ## `serde_json::to_value` normalisation leaves the canonical form alone -/

theorem normList_eq : ∀ xs : List Json, normList xs = xs.map normJson
  | [] => by simp [normList]
  | x :: xs => by simp [normList, normList_eq xs]

theorem normKvs_fixed : ∀ l : List (String × Json), (∀ kv ∈ l, normJson kv.2 = kv.2) → normKvs l = l
  | [], _ => by simp [normKvs]
  | (k, v) :: rest, h => by
    rw [normKvs, h (k, v) (by simp), normKvs_fixed rest (fun kv hkv => h kv (by simp [hkv]))]

theorem normJson_obj_fixed (l : List (String × Json)) (hk : (l.map (·.1)).Nodup)
    (hv : ∀ kv ∈ l, normJson kv.2 = kv.2) : normJson (.obj l) = .obj l := by
  rw [normJson, normKvs_fixed l hv, normObj_of_nodup l hk]

theorem norm_canon (ok : Json → Bool) (lc : Json → Json) (hl : ∀ j, ok j = true → normJson (lc j) = lc j) :
    ∀ t : GTy, (∀ j, acceptsNN ok t j = true → normJson (canonNN lc t j) = canonNN lc t j) ∧
      (∀ j, accepts ok t j = true → normJson (canon lc t j) = canon lc t j) := by
  intro t
  have lift : ∀ (A : Json → Bool) (cn : Json → Json), (∀ j, A j = true → normJson (cn j) = cn j) →
      ∀ j, (j.isNull || A j) = true → normJson (if j.isNull then .null else cn j) = (if j.isNull then .null else cn j) := by
    intro A cn h j hj
    cases hn : j.isNull
    · simp only [hn, Bool.false_eq_true, ↓reduceIte]; exact h j (by simpa [hn] using hj)
    · simp [normJson]
  induction t with
  | named n =>
    have hnn : ∀ j, acceptsNN ok (.named n) j = true → normJson (canonNN lc (.named n) j) = canonNN lc (.named n) j := by
      intro j hj; simp only [canonNN, acceptsNN] at hj ⊢; exact hl j hj
    exact ⟨hnn, fun j hj => by simp only [canon, accepts] at hj ⊢; exact lift _ _ hnn j hj⟩
  | list t ih =>
    have hnn : ∀ j, acceptsNN ok (.list t) j = true → normJson (canonNN lc (.list t) j) = canonNN lc (.list t) j := by
      intro j hj
      cases j with
      | arr xs =>
        simp only [acceptsNN, List.all_eq_true] at hj
        simp only [canonNN, normJson, normList_eq, List.map_map]
        congr 1
        apply List.map_congr_left
        intro x hx
        exact ih.2 x (hj x hx)
      | null => simp [acceptsNN] at hj
      | bool _ => simp [acceptsNN] at hj
      | int _ => simp [acceptsNN] at hj
      | num _ => simp [acceptsNN] at hj
      | str _ => simp [acceptsNN] at hj
      | obj _ => simp [acceptsNN] at hj
    exact ⟨hnn, fun j hj => by simp only [canon, accepts] at hj ⊢; exact lift _ _ hnn j hj⟩
  | nonNull t ih =>
    exact ⟨fun j hj => by simp only [canonNN, acceptsNN] at hj ⊢; exact ih.1 j hj,
           fun j hj => by simp only [canon, accepts] at hj ⊢; exact ih.1 j hj⟩

theorem norm_scalar (n : String) (j : Json) (h : scalarOk n j = true) : normJson j = j := by
  unfold scalarOk at h
  cases j <;> first | rfl | (exfalso; repeat (first | split at h | simp [intOk, floatOk, boolOk, idOk, stringOk] at h))

theorem norm_idCanon (j : Json) (h : idOk j = true) : normJson (idCanon j) = idCanon j := by
  cases j <;> simp [idOk] at h <;> rfl

theorem norm_string (j : Json) (h : stringOk j = true) : normJson j = j := by
  cases j <;> simp [stringOk] at h <;> rfl


theorem canonEntries_keys (s : Schema) (skip : Bool) (kvs : List (String × Json)) :
    ∀ sels : List Sel, ((canonEntries s skip sels kvs).map (·.1)).Sublist (respKeys s sels)
  | [] => by simp [canonEntries, respKeys]
  | x :: xs => by
    have ih := canonEntries_keys s skip kvs xs
    cases x with
    | field a fid sub =>
      rw [canonEntries.eq_2]
      simp only [respKeys, List.filterMap_cons, respKey]
      cases hsf : s.fields[fid]? with
      | none => simpa [respKeys] using ih
      | some sf =>
        simp only [Option.map_some, List.map_append]
        have : ∀ l : List (String × Json), (l = [] ∨ ∃ v, l = [(a.getD sf.name, v)]) →
            (l.map (·.1) ++ (canonEntries s skip xs kvs).map (·.1)).Sublist
              (a.getD sf.name :: List.filterMap (respKey s) xs) := by
          intro l hl
          rcases hl with rfl | ⟨v, rfl⟩
          · exact List.Sublist.cons _ ih
          · exact List.Sublist.cons_cons _ ih
        apply this
        cases Json.lookup (a.getD sf.name) kvs with
        | none => simp only []; split <;> simp
        | some v => simp only []; split <;> simp
    | spread g =>
      have h : respKey s (.spread g) = none := rfl
      simpa [canonEntries, respKeys, h] using ih
    | inline t sub =>
      have h : respKey s (.inline t sub) = none := rfl
      simpa [canonEntries, respKeys, h] using ih
    | typename =>
      have h : respKey s .typename = some "__typename" := rfl
      simp only [canonEntries, respKeys, List.filterMap_cons, h]
      exact List.Sublist.cons _ ih

mutual
  theorem normField (s : Schema) (o : Options) (skip : Bool) : ∀ (x : Sel) (v : Json), treeSel s o x = true →
      strictField s x v = true → normJson (canonField s skip x v) = canonField s skip x v
    | .field a fid sub, v => by
      intro ht hst
      have IH := normEntries s o skip sub
      rw [treeSel] at ht
      simp only [strictField] at hst
      rw [canonField]
      cases hsf : s.fields[fid]? with
      | none => simp [hsf] at ht
      | some sf =>
        simp only [hsf, Bool.and_eq_true] at ht hst ⊢
        obtain ⟨_, hty⟩ := ht
        cases hid : sf.ty.id with
        | scalar k =>
          simp only [hid] at hst ⊢
          cases hk : s.scalars[k]? with
          | none => simp [hk] at hst
          | some sn =>
            simp only [hk] at hst ⊢
            by_cases hID : sn = "ID"
            · subst hID
              simp only [↓reduceIte]
              exact (norm_canon idOk idCanon norm_idCanon _).2 v (by simpa [scalarOk] using hst)
            · simp only [hID, ↓reduceIte]
              have := (norm_canon (scalarOk sn) id (norm_scalar sn) _).2 v hst
              rwa [(canon_id _).2 v] at this
        | enum k =>
          simp only [hid] at hst ⊢
          cases hk : s.enums[k]? with
          | none => simp [hk] at hst
          | some en =>
            simp only [hk] at hst
            have := (norm_canon stringOk id norm_string _).2 v hst
            rwa [(canon_id _).2 v] at this
        | object i =>
          simp only [hid, Bool.and_eq_true] at hty hst ⊢
          cases hk : s.objects[i]? with
          | none => simp [hk] at hst
          | some ob =>
            simp only [hk] at hst
            rw [canonLambda]
            refine (norm_canon (conformsSel s ob.name sub) (canonSel s skip sub) ?_ _).2 v hst
            intro j hj
            cases j with
            | obj kvs =>
              simp only [conformsSel, Bool.and_eq_true] at hj
              rw [canonSel]
              exact normJson_obj_fixed _
                (List.Nodup.sublist (canonEntries_keys s skip kvs sub) (nodup_iff'.mp hty.2))
                (IH ob.name kvs hty.1.2 hj.2)
            | null => rfl
            | bool _ => rfl
            | int _ => rfl
            | num _ => rfl
            | str _ => rfl
            | arr _ => simp [conformsSel] at hj
        | interface k => simp [hid] at hty
        | union k => simp [hid] at hty
        | input k => simp [hid] at hty
    | .spread _, _ => by intro ht; simp [treeSel] at ht
    | .inline _ _, _ => by intro ht; simp [treeSel] at ht
    | .typename, _ => by intro _ h; simp [strictField] at h
  theorem normEntries (s : Schema) (o : Options) (skip : Bool) : ∀ (sels : List Sel) (tn : String)
      (kvs : List (String × Json)), treeSels s o sels = true → confSels s tn sels kvs = true →
      ∀ kv ∈ canonEntries s skip sels kvs, normJson kv.2 = kv.2
    | [], _, _, _, _ => by simp [canonEntries]
    | x :: xs, tn, kvs, ht, hc => by
      obtain ⟨hx, hxs⟩ := treeSels_cons ht
      rw [confSels, Bool.and_eq_true] at hc
      have ih := normEntries s o skip xs tn kvs hxs hc.2
      cases x with
      | field a fid sub =>
        have hcx := hc.1
        rw [confSel_field] at hcx
        rw [canonEntries.eq_2]
        cases hsf : s.fields[fid]? with
        | none => simp [hsf] at hcx
        | some sf =>
          simp only [hsf] at hcx ⊢
          cases hl : Json.lookup (a.getD sf.name) kvs with
          | none => simp [hl] at hcx
          | some v =>
            simp only [hl] at hcx ⊢
            intro kv hkv
            rw [List.mem_append] at hkv
            rcases hkv with hkv | hkv
            · split at hkv
              · simp at hkv
              · simp only [List.mem_singleton] at hkv
                subst hkv
                exact normField s o skip _ v hx hcx
            · exact ih kv hkv
      | spread g => simp [treeSel] at hx
      | inline t sub => simp [treeSel] at hx
      | typename => simpa [canonEntries] using ih
end

/-- the canonical form of a conforming response is a `serde_json::to_value` normal form -/
theorem norm_canonSel (s : Schema) (o : Options) (skip : Bool) (tn : String) (sels : List Sel) (j : Json)
    (ht : treeSels s o sels = true) (hk : EnumSpec.nodup (respKeys s sels) = true)
    (hj : conformsSel s tn sels j = true) : normJson (canonSel s skip sels j) = canonSel s skip sels j := by
  cases j with
  | obj kvs =>
    simp only [conformsSel, Bool.and_eq_true] at hj
    rw [canonSel]
    exact normJson_obj_fixed _ (List.Nodup.sublist (canonEntries_keys s skip kvs sels) (nodup_iff'.mp hk))
      (normEntries s o skip sels tn kvs ht hj.2)
  | null => rfl
  | bool _ => rfl
  | int _ => rfl
  | num _ => rfl
  | str _ => rfl
  | arr _ => simp [conformsSel] at hj


/-! ## fuel: the depth of the selection tree is below the number of emitted items -/

mutual
  theorem depth_le_items_sel (c : Ctx) : ∀ (x : Sel) (pfx : String), treeSel c.s c.o x = true →
      selDepth x ≤ (itemsOfSel c pfx x).length + 1
    | .field a fid sub, pfx => by
      intro ht
      have IH := depth_le_items c sub
      rw [treeSel] at ht
      rw [selDepth, itemsOfSel]
      cases hsf : c.s.fields[fid]? with
      | none => simp [hsf] at ht
      | some sf =>
        simp only [hsf, Bool.and_eq_true] at ht ⊢
        obtain ⟨_, hty⟩ := ht
        cases hid : sf.ty.id with
        | scalar k =>
          simp only [hid, Bool.and_eq_true, List.isEmpty_iff] at hty
          rw [hty.2]; simp [selsDepth]
        | enum k =>
          simp only [hid, Bool.and_eq_true, List.isEmpty_iff] at hty
          rw [hty.2]; simp [selsDepth]
        | object i =>
          simp only [hid, Bool.and_eq_true] at hty
          have := IH (pfx ++ c.cs.camel (a.getD sf.name)) hty.1.2
          simp only [List.length_cons]; omega
        | interface k => simp [hid] at hty
        | union k => simp [hid] at hty
        | input k => simp [hid] at hty
    | .spread _, _ => by intro ht; simp [treeSel] at ht
    | .inline _ _, _ => by intro ht; simp [treeSel] at ht
    | .typename, _ => by intro _; simp [selDepth]
  theorem depth_le_items (c : Ctx) : ∀ (sels : List Sel) (pfx : String), treeSels c.s c.o sels = true →
      selsDepth sels ≤ (itemsOfSels c pfx sels).length + 1
    | [], _ => by intro _; simp [selsDepth]
    | x :: xs, pfx => by
      intro ht
      obtain ⟨hx, hxs⟩ := treeSels_cons ht
      have h1 := depth_le_items_sel c x pfx hx
      have h2 := depth_le_items c xs pfx hxs
      rw [selsDepth, itemsOfSels, List.length_append]
      omega
end

/-! ## top level: `Serde.de` / `Serde.ser` at `ResponseData` -/

/-- what the end-to-end theorems need of the environment (discharged for the environment built from
    `responseForQuery` by `topEnv_of_module`) -/
structure TopEnv (e : Env) (c : Ctx) (op : ROperation) : Prop where
  root : StructEnv e "ResponseData" (fieldsOf c (c.cs.camel op.name) op.sels)
  sub : envSels e c (c.cs.camel op.name) op.sels
  size : (itemsOfSels c (c.cs.camel op.name) op.sels).length + 1 ≤ e.items.length

theorem treeOp_parts {c : Ctx} {op : ROperation} (h : TreeOp c op = true) :
    c.o.normalization = .none ∧ (c.s.objects[op.objectId]?).isSome = true ∧
      treeSels c.s c.o op.sels = true ∧ EnumSpec.nodup (respKeys c.s op.sels) = true := by
  simp only [TreeOp, Bool.and_eq_true, beq_iff_eq] at h
  exact ⟨h.1.1.1, h.1.1.2, h.1.2, h.2⟩

theorem de_top (e : Env) (j : Json) :
    Serde.de e (.path "ResponseData") j = dePath e false (deFuel e j) "ResponseData" j := rfl

theorem deFuel_depth (e : Env) (c : Ctx) (op : ROperation) (ht : treeSels c.s c.o op.sels = true)
    (hsz : (itemsOfSels c (c.cs.camel op.name) op.sels).length + 1 ≤ e.items.length) (j : Json) :
    selsDepth op.sels + 3 ≤ deFuel e j := by
  have h1 := depth_le_items c op.sels (c.cs.camel op.name) ht
  unfold deFuel
  have h2 : 2 * (e.items.length + e.externs.length + 2) ≤
      (jsonSize j + 2) * (e.items.length + e.externs.length + 2) := Nat.mul_le_mul_right _ (by omega)
  omega

/-- **`ResponseData` accepts exactly the loosely conforming values** (generic environment) -/
theorem top_accepts_iff (e : Env) (c : Ctx) (op : ROperation) (ht : TreeOp c op = true) (he : TopEnv e c op)
    (j : Json) : okB (Serde.de e (.path "ResponseData") j) = conformsSelLoose c.s op.sels j := by
  obtain ⟨_, _, hsels, _⟩ := treeOp_parts ht
  rw [de_top]
  exact struct_accepts_iff e c _ _ op.sels hsels he.sub he.root false _ (deFuel_depth e c op hsels he.size j) j

/-- **losslessness at the top level** (generic environment) -/
theorem top_lossless (e : Env) (c : Ctx) (op : ROperation) (ht : TreeOp c op = true) (he : TopEnv e c op)
    (hro : rustOkSels c op.sels = true) (hrn : EnumSpec.nodup (rustNames c op.sels) = true)
    (tn : String) (j : Json) (v : Val) (hc : conformsSel c.s tn op.sels j = true)
    (hd : Serde.de e (.path "ResponseData") j = .ok v) :
    Serde.ser e (.path "ResponseData") v = .ok (canonSel c.s c.o.skipNone op.sels j) := by
  obtain ⟨_, _, hsels, hkeys⟩ := treeOp_parts ht
  rw [de_top] at hd
  have h1 := depth_le_items c op.sels (c.cs.camel op.name) hsels
  have hsz := he.size
  have hser := struct_lossless e c _ "ResponseData" op.sels hsels he.sub hro hrn hkeys he.root false _
    ((valSize v + 2) * (e.items.length + e.externs.length + 2))
    (deFuel_depth e c op hsels he.size j)
    (by
      have h2 : 2 * (e.items.length + e.externs.length + 2) ≤
          (valSize v + 2) * (e.items.length + e.externs.length + 2) := Nat.mul_le_mul_right _ (by omega)
      omega)
    tn j v hc hd
  unfold Serde.ser serTy
  rw [show serTyWith (serPath e ((valSize v + 2) * (e.items.length + e.externs.length + 2))) (.path "ResponseData") v =
    serPath e ((valSize v + 2) * (e.items.length + e.externs.length + 2)) "ResponseData" v from rfl, hser]
  rw [show (normJson <$> (Except.ok (canonSel c.s c.o.skipNone op.sels j) : D Json)) =
    .ok (normJson (canonSel c.s c.o.skipNone op.sels j)) from rfl,
    norm_canonSel c.s c.o c.o.skipNone tn op.sels j hsels hkeys hc]


/-! ## the environment of an emitted module -/

/-- externs: every custom scalar of the schema is supplied by the consumer as `String` (as the harness does) -/
def customExterns (c : Ctx) : List (String × RTy) :=
  (c.s.scalars.filter (fun n => !Schema.defaultScalars.contains n)).map
    (fun n => ((c.o.scalarsModule.getD "super") ++ "::" ++ n, RTy.path "String"))

/-- the environment in which the emitted module is read: its items + the consumer's scalar types -/
def moduleEnv (c : Ctx) (items : List Item) : Env := { items := items, externs := customExterns c }

/-- side conditions on the emitted module (decidable; all are properties of the *output* that hold
    for any module that compiles as Rust, but that the model — whose case functions are parameters —
    cannot derive): item names pairwise distinct, none of them a Rust primitive the model reads natively,
    no item named like an extern path, the enum tables well-formed (`EnumSpec.tablesWf`, the check the
    harness evaluates on the emitted impls), no extern enums (their type is the consumer's, out of scope) -/
def moduleOk (c : Ctx) (items : List Item) : Bool :=
  EnumSpec.nodup (items.map (·.name)) &&
  items.all (fun it => decide (notPrim it.name)) &&
  (customExterns c).all (fun x => decide (notPrim x.1) && items.all (fun it => it.name != x.1)) &&
  items.all (fun it => match it with
    | .gqlEnum _ _ _ vs ser de => EnumSpec.tablesWf vs ser de
    | _ => true) &&
  c.o.externEnums.isEmpty

theorem find_of_mem (ex : List (String × RTy)) : ∀ {items : List Item}, (items.map (·.name)).Nodup → ∀ {it : Item},
    it ∈ items → ({ items := items, externs := ex } : Env).find it.name = some it
  | [], _, _, h => by simp at h
  | a :: rest, hnd, it, h => by
    simp only [List.map_cons, List.nodup_cons] at hnd
    unfold Env.find
    simp only [List.find?_cons]
    rcases List.mem_cons.mp h with rfl | h'
    · simp
    · have hne : (a.name == it.name) = false := by
        have : a.name ≠ it.name := fun heq => hnd.1 (heq ▸ List.mem_map_of_mem h')
        simpa using this
      simp only [hne]
      exact find_of_mem ex hnd.2 h'

theorem find_none_of (ex : List (String × RTy)) (items : List Item) (n : String) (h : ∀ it ∈ items, it.name ≠ n) :
    ({ items := items, externs := ex } : Env).find n = none := by
  unfold Env.find
  rw [List.find?_eq_none]
  intro it hit
  simpa using h it hit

theorem responseForQuery_parts {c : Ctx} {opIdx : Nat} {items : List Item}
    (h : responseForQuery c opIdx = .ok items) :
    ∃ u S E I V F o resp, allUsedTypes c.s c.q opIdx = .ok u ∧ scalarItems c u = .ok S ∧
      enumItems c u = .ok E ∧ c.q.operations[opIdx]? = some o ∧ responseItems c o = .ok resp ∧
      items = builtinAliases ++ S ++ E ++ I ++ V ++ F ++ resp := by
  unfold responseForQuery at h
  obtain ⟨u, hu, h⟩ := C02.bind_ok h
  obtain ⟨S, hS, h⟩ := C02.bind_ok h
  obtain ⟨E, hE, h⟩ := C02.bind_ok h
  obtain ⟨F, _, h⟩ := C02.bind_ok h
  obtain ⟨I, _, h⟩ := C02.bind_ok h
  obtain ⟨V, _, h⟩ := C02.bind_ok h
  obtain ⟨o, ho, h⟩ := C02.bind_ok h
  obtain ⟨resp, hresp, h⟩ := C02.bind_ok h
  simp only [pure, Except.pure, Except.ok.injEq] at h
  exact ⟨u, S, E, I, V, F.flatten, o, resp, hu, hS, hE, C02.getOperation_ok ho, hresp, h.symm⟩

theorem enumItems_mem {c : Ctx} {u : UsedTypes} {E : List Item} (h : enumItems c u = .ok E)
    {k : Nat} {en : StoredEnum} (hk : .enum k ∈ u.types) (he : c.s.enums[k]? = some en)
    (hne : en.name ∉ c.o.externEnums) : enumItem c en ∈ E := by
  unfold enumItems at h
  obtain ⟨es, hes, h⟩ := C02.bind_ok h
  simp only [pure, Except.pure, Except.ok.injEq] at h
  subst h
  have hmem : k ∈ sortNat (u.types.filterMap TypeId.asEnum?) := by
    rw [C02.mem_sortNat, List.mem_filterMap]
    exact ⟨_, hk, rfl⟩
  obtain ⟨e', he', hget⟩ := C02.mapM_ok_of_mem hes k hmem
  have := C02.getEnum_ok hget
  rw [he] at this; cases this
  exact List.mem_map.mpr ⟨en, List.mem_filter.mpr ⟨he', by simpa using hne⟩, rfl⟩

theorem scalarItems_mem {c : Ctx} {u : UsedTypes} {S : List Item} (h : scalarItems c u = .ok S)
    {k : Nat} {n : String} (hk : .scalar k ∈ u.types) (hn : c.s.scalars[k]? = some n)
    (hnd : n ∉ Schema.defaultScalars) :
    Item.alias (c.o.normalization.scalarName c.cs n) false
      (.path ((c.o.scalarsModule.getD "super") ++ "::" ++ c.o.normalization.scalarName c.cs n)) ∈ S := by
  unfold scalarItems at h
  obtain ⟨names, hnames, h⟩ := C02.bind_ok h
  simp only [pure, Except.pure, Except.ok.injEq] at h
  subst h
  have hmem : k ∈ sortNat (u.types.filterMap TypeId.asScalar?) := by
    rw [C02.mem_sortNat, List.mem_filterMap]
    exact ⟨_, hk, rfl⟩
  obtain ⟨n', hn', hget⟩ := C02.mapM_ok_of_mem hnames k hmem
  have := C02.getScalar_ok hget
  rw [hn] at this; cases this
  exact List.mem_map.mpr ⟨n, List.mem_filter.mpr ⟨hn', by simpa using hnd⟩, rfl⟩

theorem reach_step {q : Query} {sels : List Sel} {a : Option String} {fid : Nat} {sub : List Sel} {y : Sel}
    (h : C02.Reach q sels (.field a fid sub)) (hy : y ∈ sub) : C02.Reach q sels y := by
  generalize hx : Sel.field a fid sub = x at h
  induction h with
  | here hm => subst hx; exact .field hm (.here hy)
  | field hm _ ih => exact .field hm (ih hx)
  | inline hm _ ih => exact .inline hm (ih hx)
  | spread hm hf _ ih => exact .spread hm hf (ih hx)


theorem find_extern (l : List (String × RTy)) (X : String) (hall : ∀ x ∈ l, x.2 = RTy.path "String")
    (hex : ∃ x ∈ l, x.1 = X) : ∃ k, l.find? (·.1 == X) = some (k, RTy.path "String") := by
  cases hf : l.find? (·.1 == X) with
  | none =>
    rw [List.find?_eq_none] at hf
    obtain ⟨x, hx, hx1⟩ := hex
    exact absurd (by simpa using hx1) (hf x hx)
  | some kv =>
    have := hall kv (List.mem_of_find?_eq_some hf)
    exact ⟨kv.1, by rw [← this]⟩

/-- the facts about an emitted module that the environment hypotheses are derived from -/
structure ModFacts (c : Ctx) (items : List Item) (u : UsedTypes) (root : List Sel) : Prop where
  hn : c.o.normalization = .none
  nodup : (items.map (·.name)).Nodup
  np : ∀ it ∈ items, notPrim it.name
  ext : ∀ x ∈ customExterns c, notPrim x.1 ∧ ∀ it ∈ items, it.name ≠ x.1
  tables : ∀ n d sp vs ser de, Item.gqlEnum n d sp vs ser de ∈ items → EnumSpec.tablesWf vs ser de = true
  builtin : ∀ it ∈ builtinAliases, it ∈ items
  scalars : ∀ k n, TypeId.scalar k ∈ u.types → c.s.scalars[k]? = some n → n ∉ Schema.defaultScalars →
    Item.alias n false (.path ((c.o.scalarsModule.getD "super") ++ "::" ++ n)) ∈ items
  enums : ∀ k en, TypeId.enum k ∈ u.types → c.s.enums[k]? = some en → enumItem c en ∈ items
  used : ∀ x, C02.Reach c.q root x → C02.Direct c.s u x

section EnvOf
variable {c : Ctx} {items : List Item} {u : UsedTypes} {root : List Sel} (M : ModFacts c items u root)
include M

theorem name_ne_ID {it : Item} (hit : it ∈ items) (hna : ∀ t, it ≠ Item.alias "ID" false t) : it.name ≠ "ID" := by
  intro h
  have h1 := find_of_mem (customExterns c) M.nodup hit
  have h2 := find_of_mem (customExterns c) M.nodup
    (M.builtin (.alias "ID" false (.path "String")) (by simp [builtinAliases]))
  rw [h] at h1
  have h3 : (Item.alias "ID" false (.path "String")).name = "ID" := rfl
  rw [h3, h1] at h2
  exact hna _ (Option.some.inj h2)

theorem scalarEnv_of (k : Nat) (sn : String) (hk : c.s.scalars[k]? = some sn) (hu : TypeId.scalar k ∈ u.types) :
    ScalarEnv (moduleEnv c items) sn := by
  unfold ScalarEnv
  have hb := fun it h => find_of_mem (customExterns c) M.nodup (M.builtin it h)
  by_cases h1 : sn = "Int"
  · simp only [h1, ↓reduceIte]
    exact hb (.alias "Int" false (.path "i64")) (by simp [builtinAliases])
  by_cases h2 : sn = "Float"
  · simp only [h2, ↓reduceIte]
    exact hb (.alias "Float" false (.path "f64")) (by simp [builtinAliases])
  by_cases h3 : sn = "Boolean"
  · simp only [h3, ↓reduceIte]
    exact hb (.alias "Boolean" false (.path "bool")) (by simp [builtinAliases])
  by_cases h4 : sn = "ID"
  · simp [h4]
  by_cases h5 : sn = "String"
  · simp [h5]
  simp only [h1, h2, h3, h4, h5, ↓reduceIte]
  have hnd : sn ∉ Schema.defaultScalars := by simp [Schema.defaultScalars, h1, h2, h3, h4, h5]
  have hal := M.scalars k sn hu hk hnd
  have hX : ((c.o.scalarsModule.getD "super") ++ "::" ++ sn, RTy.path "String") ∈ customExterns c := by
    unfold customExterns
    exact List.mem_map.mpr ⟨sn, List.mem_filter.mpr ⟨List.mem_of_getElem? hk, by simpa using hnd⟩, rfl⟩
  obtain ⟨hXp, hXn⟩ := M.ext _ hX
  refine ⟨(c.o.scalarsModule.getD "super") ++ "::" ++ sn, M.np _ hal, hXp,
    find_of_mem (customExterns c) M.nodup hal, find_none_of _ _ _ hXn, ?_⟩
  apply find_extern
  · intro x hx
    unfold moduleEnv customExterns at hx
    obtain ⟨n, _, rfl⟩ := List.mem_map.mp hx
    rfl
  · exact ⟨_, hX, rfl⟩

theorem enumEnv_of (k : Nat) (en : StoredEnum) (hk : c.s.enums[k]? = some en) (hu : TypeId.enum k ∈ u.types) :
    EnumEnv (moduleEnv c items) en.name := by
  have hmem := M.enums k en hu hk
  have hname : (enumItem c en).name = en.name := by
    simp [enumItem, Item.name, M.hn, Normalization.enumName, Normalization.camelCase]
  have hfind := find_of_mem (customExterns c) M.nodup hmem
  rw [hname] at hfind
  refine ⟨hname ▸ M.np _ hmem, hname ▸ name_ne_ID M hmem (by intro t h; simp [enumItem] at h), ?_⟩
  unfold enumItem at hfind hmem
  exact ⟨_, _, _, _, _, _, hfind, M.tables _ _ _ _ _ _ hmem⟩

theorem structEnv_of (name : String) (fields : List RField)
    (hmem : Item.struct name c.respDerives c.serdeCrate fields ∈ items) :
    StructEnv (moduleEnv c items) name fields :=
  ⟨M.np _ hmem, name_ne_ID M hmem (by intro t h; cases h), _, _, _, find_of_mem (customExterns c) M.nodup hmem⟩

mutual
  theorem envSel_of : ∀ (x : Sel) (pfx : String), treeSel c.s c.o x = true →
      (∀ it ∈ itemsOfSel c pfx x, it ∈ items) → C02.Reach c.q root x → envSel (moduleEnv c items) c pfx x
    | .field a fid sub, pfx => by
      intro ht hit hr
      have IH := envSels_of sub
      have hdir := M.used _ hr
      rw [treeSel] at ht
      rw [itemsOfSel] at hit
      rw [envSel]
      cases hsf : c.s.fields[fid]? with
      | none => simp [hsf] at ht
      | some sf =>
        simp only [hsf, Bool.and_eq_true] at ht hit ⊢
        have hty := ht.2
        have hused : sf.ty.id ∈ u.types := hdir sf hsf
        cases hid : sf.ty.id with
        | scalar k =>
          simp only [hid] at hused ⊢
          cases hk : c.s.scalars[k]? with
          | none => trivial
          | some sn => exact scalarEnv_of M k sn hk hused
        | enum k =>
          simp only [hid] at hused ⊢
          cases hk : c.s.enums[k]? with
          | none => trivial
          | some en => exact enumEnv_of M k en hk hused
        | object i =>
          simp only [hid, Bool.and_eq_true] at hty hit ⊢
          refine ⟨structEnv_of M _ _ (hit _ (by simp)), ?_⟩
          exact IH _ hty.1.2 (fun it h => hit it (by simp [h])) (fun y hy => reach_step hr hy)
        | interface k => simp [hid] at hty
        | union k => simp [hid] at hty
        | input k => simp [hid] at hty
    | .spread _, _ => by intro ht; simp [treeSel] at ht
    | .inline _ _, _ => by intro ht; simp [treeSel] at ht
    | .typename, _ => by intro _ _ _; simp [envSel]
  theorem envSels_of : ∀ (sels : List Sel) (pfx : String), treeSels c.s c.o sels = true →
      (∀ it ∈ itemsOfSels c pfx sels, it ∈ items) → (∀ x ∈ sels, C02.Reach c.q root x) →
      envSels (moduleEnv c items) c pfx sels
    | [], _ => by intro _ _ _; simp [envSels]
    | x :: xs, pfx => by
      intro ht hit hr
      obtain ⟨hx, hxs⟩ := treeSels_cons ht
      rw [itemsOfSels] at hit
      rw [envSels]
      exact ⟨envSel_of x pfx hx (fun it h => hit it (by simp [h])) (hr x (by simp)),
        envSels_of xs pfx hxs (fun it h => hit it (by simp [h])) (fun y hy => hr y (by simp [hy]))⟩
end

end EnvOf


/-! ## from `Codegen.responseForQuery` to the environment hypotheses -/

theorem topEnv_of_module {c : Ctx} {opIdx : Nat} {op : ROperation} {items : List Item}
    (hop : c.q.operations[opIdx]? = some op) (ht : TreeOp c op = true)
    (hgen : responseForQuery c opIdx = .ok items) (hok : moduleOk c items = true) :
    TopEnv (moduleEnv c items) c op := by
  obtain ⟨u, S, E, I, V, F, o, resp, hu, hS, hE, ho, hresp, hitems⟩ := responseForQuery_parts hgen
  rw [hop] at ho; cases ho
  obtain ⟨hn, _, hsels, _⟩ := treeOp_parts ht
  rw [tree_items_shape c op (List.mem_of_getElem? hop) ht] at hresp
  cases hresp
  simp only [moduleOk, Bool.and_eq_true, List.all_eq_true, decide_eq_true_eq, List.isEmpty_iff] at hok
  obtain ⟨⟨⟨⟨hnd, hnp⟩, hext⟩, htab⟩, hnoext⟩ := hok
  have hsub : ∀ it ∈ structItems c "ResponseData" (c.cs.camel op.name) op.sels, it ∈ items := by
    intro it h; rw [hitems]; simp [h]
  have M : ModFacts c items u op.sels := {
    hn := hn
    nodup := nodup_iff'.mp hnd
    np := hnp
    ext := fun x hx => ⟨(hext x hx).1, fun it hit => by simpa using (hext x hx).2 it hit⟩
    tables := fun n d sp vs ser de hm => by simpa using htab _ hm
    builtin := fun it h => by rw [hitems]; simp [h]
    scalars := fun k n hk hn' hnd' => by
      have := scalarItems_mem hS hk hn' hnd'
      simp only [hn, Normalization.scalarName, Normalization.camelCase] at this
      rw [hitems]; simp [this]
    enums := fun k en hk hen => by
      have := enumItems_mem hE hk hen (by simp [hnoext])
      rw [hitems]; simp [this]
    used := C02.selected_types_used c.s c.q opIdx u hu op hop }
  refine ⟨structEnv_of M _ _ (hsub _ (by simp [structItems])), ?_, ?_⟩
  · exact envSels_of M op.sels _ hsels (fun it h => hsub it (by simp [structItems, h])) (fun x hx => .here hx)
  · rw [hitems]
    simp only [moduleEnv, List.length_append, structItems, List.length_cons]
    omega

/-- the name of the operation's root object type (for `__typename` at the root) -/
def rootName (c : Ctx) (op : ROperation) : String :=
  match c.s.objects[op.objectId]? with
  | some o => o.name
  | none => ""

/-- a response conforms to the operation (GraphQL spec §6.4) -/
def conformsOp (c : Ctx) (op : ROperation) (j : Json) : Bool := conformsSel c.s (rootName c op) op.sels j

/-- **Theorem 2 (`tree_accepts`).**  Every conforming response is accepted by the emitted `ResponseData`. -/
theorem tree_accepts (c : Ctx) (opIdx : Nat) (op : ROperation) (items : List Item)
    (hop : c.q.operations[opIdx]? = some op) (ht : TreeOp c op = true)
    (hgen : responseForQuery c opIdx = .ok items) (hok : moduleOk c items = true)
    (j : Json) (hc : conformsOp c op j = true) :
    ∃ v, Serde.de (moduleEnv c items) (.path "ResponseData") j = .ok v := by
  have he := topEnv_of_module hop ht hgen hok
  have := top_accepts_iff (moduleEnv c items) c op ht he j
  rw [conforms_loose _ _ _ _ hc] at this
  exact (okB_iff _).mp this

/-- **Theorem 3 (`tree_lossless`).**  … and written back as `canonSel … j`. -/
theorem tree_lossless (c : Ctx) (opIdx : Nat) (op : ROperation) (items : List Item)
    (hop : c.q.operations[opIdx]? = some op) (ht : TreeOp c op = true)
    (hgen : responseForQuery c opIdx = .ok items) (hok : moduleOk c items = true)
    (hro : rustOkSels c op.sels = true) (hrn : EnumSpec.nodup (rustNames c op.sels) = true)
    (j : Json) (hc : conformsOp c op j = true) (v : Val)
    (hd : Serde.de (moduleEnv c items) (.path "ResponseData") j = .ok v) :
    Serde.ser (moduleEnv c items) (.path "ResponseData") v = .ok (canonSel c.s c.o.skipNone op.sels j) :=
  top_lossless (moduleEnv c items) c op ht (topEnv_of_module hop ht hgen hok) hro hrn _ j v hc hd

/-- Theorems 2 and 3 in one statement: `roundtrip j = canonSel j` -/
theorem tree_roundtrip (c : Ctx) (opIdx : Nat) (op : ROperation) (items : List Item)
    (hop : c.q.operations[opIdx]? = some op) (ht : TreeOp c op = true)
    (hgen : responseForQuery c opIdx = .ok items) (hok : moduleOk c items = true)
    (hro : rustOkSels c op.sels = true) (hrn : EnumSpec.nodup (rustNames c op.sels) = true)
    (j : Json) (hc : conformsOp c op j = true) :
    Serde.roundtrip (moduleEnv c items) (.path "ResponseData") j = .ok (canonSel c.s c.o.skipNone op.sels j) := by
  obtain ⟨v, hv⟩ := tree_accepts c opIdx op items hop ht hgen hok j hc
  unfold Serde.roundtrip
  rw [hv]
  exact tree_lossless c opIdx op items hop ht hgen hok hro hrn j hc v hv

/-- **Theorem 4 (`tree_precise`, C03), as an equivalence.**  The emitted `ResponseData` accepts `j`
    **iff** `j` is loosely conforming. -/
theorem tree_precise_iff (c : Ctx) (opIdx : Nat) (op : ROperation) (items : List Item)
    (hop : c.q.operations[opIdx]? = some op) (ht : TreeOp c op = true)
    (hgen : responseForQuery c opIdx = .ok items) (hok : moduleOk c items = true) (j : Json) :
    okB (Serde.de (moduleEnv c items) (.path "ResponseData") j) = conformsSelLoose c.s op.sels j :=
  top_accepts_iff (moduleEnv c items) c op ht (topEnv_of_module hop ht hgen hok) j

theorem tree_precise (c : Ctx) (opIdx : Nat) (op : ROperation) (items : List Item)
    (hop : c.q.operations[opIdx]? = some op) (ht : TreeOp c op = true)
    (hgen : responseForQuery c opIdx = .ok items) (hok : moduleOk c items = true) (j : Json) (v : Val)
    (hd : Serde.de (moduleEnv c items) (.path "ResponseData") j = .ok v) :
    conformsSelLoose c.s op.sels j = true := by
  rw [← tree_precise_iff c opIdx op items hop ht hgen hok j, hd]; rfl


/-! ## shape of the emitted module and of its fields (Theorem 1, continued) -/

/-- the response items are the tail of the emitted module -/
theorem tree_module_shape (c : Ctx) (opIdx : Nat) (op : ROperation) (items : List Item)
    (hop : c.q.operations[opIdx]? = some op) (ht : TreeOp c op = true)
    (hgen : responseForQuery c opIdx = .ok items) :
    ∃ pre, items = Codegen.builtinAliases ++ pre ++ structItems c "ResponseData" (c.cs.camel op.name) op.sels := by
  obtain ⟨u, S, E, I, V, F, o, resp, _, _, _, ho, hresp, hitems⟩ := responseForQuery_parts hgen
  rw [hop] at ho; cases ho
  rw [tree_items_shape c op (List.mem_of_getElem? hop) ht] at hresp
  cases hresp
  exact ⟨S ++ E ++ I ++ V ++ F, by rw [hitems]; simp⟩

/-- one emitted field: `wire` = response key, type = `rustOf` of the schema type over the leaf name,
    never flattened, an ID helper exactly when the leaf name is `ID` -/
theorem fieldOf_shape (c : Ctx) (g ft : String) (quals : List Qual) (dep : Option (Option String)) :
    (fieldOf c g ft quals dep).wire = g ∧
    (fieldOf c g ft quals dep).ty = rustOf (.path ft) (gtyOf quals) ∧
    (fieldOf c g ft quals dep).flatten = false ∧
    ((fieldOf c g ft quals dep).deserWith.isSome = true ↔ ft = "ID") := by
  refine ⟨fieldOf_wire c g ft quals dep, rfl, rfl, ?_⟩
  by_cases h : ft = "ID" <;> simp [fieldOf, h]

/-! ## a concrete module: the class and every side condition are satisfiable, the theorems apply

Two-level operation with `__typename` at both levels, an alias, an `ID!`, a nullable `String`, a
deprecated non-null enum (one of whose values is a Rust keyword), a nullable custom scalar, and a
non-null list of non-null objects. -/

def exSchema : Schema :=
  { objects := [{ name := "Query", fields := [0, 5], implements := [] },
                { name := "Hero", fields := [1, 2, 3, 4], implements := [] }]
    fields := [{ name := "hero", ty := { id := .object 1, quals := [] }, parent := .object 0, deprecation := none },
               { name := "id", ty := { id := .scalar 0, quals := [.required] }, parent := .object 1, deprecation := none },
               { name := "name", ty := { id := .scalar 1, quals := [] }, parent := .object 1, deprecation := none },
               { name := "episode", ty := { id := .enum 0, quals := [.required] }, parent := .object 1, deprecation := some none },
               { name := "born", ty := { id := .scalar 5, quals := [] }, parent := .object 1, deprecation := none },
               { name := "friends", ty := { id := .object 1, quals := [.required, .list, .required] }, parent := .object 0, deprecation := none }]
    scalars := ["ID", "String", "Int", "Float", "Boolean", "Date"]
    enums := [{ name := "Episode", variants := ["NEWHOPE", "EMPIRE", "type"] }] }

def exOp : ROperation :=
  { name := "Q", kind := .query, objectId := 0,
    sels := [.typename,
             .field none 0 [.field none 1 [], .field (some "n") 2 [], .field none 3 [], .field none 4 [], .typename],
             .field (some "others") 5 [.field none 1 []]] }

def exQuery : Query := { operations := [exOp] }

def exCtx : Ctx := { s := exSchema, q := exQuery, o := {}, cs := ⟨id, id⟩ }

example : TreeOp exCtx exOp = true := by decide +kernel


def exUsed : UsedTypes := { types := [.scalar 5, .enum 0, .scalar 1, .scalar 0, .object 1], fragments := [] }

theorem ex_used : allUsedTypes exSchema exQuery 0 = .ok exUsed := by rfl

def exEpisode : StoredEnum := { name := "Episode", variants := ["NEWHOPE", "EMPIRE", "type"] }

/-- the emitted module, in closed form (the response part by Theorem 1) -/
def exItems : List Item :=
  builtinAliases ++ [.alias "Date" false (.path "super::Date")] ++ [enumItem exCtx exEpisode] ++ [] ++
    [.unitStruct "Variables" ["Serialize"] (some "::serde")] ++ [] ++
    structItems exCtx "ResponseData" "Q" exOp.sels

theorem ex_scalars : scalarItems exCtx exUsed = .ok [.alias "Date" false (.path "super::Date")] := by rfl
theorem ex_enums : enumItems exCtx exUsed = .ok [enumItem exCtx exEpisode] := by rfl
theorem ex_inputs : inputItems exCtx exUsed = .ok [] := by rfl
theorem ex_vars : variablesItems exCtx 0 = .ok [.unitStruct "Variables" ["Serialize"] (some "::serde")] := by rfl
theorem ex_frags : (sortNat exUsed.fragments).mapM (fragmentItems exCtx) = .ok [] := by rfl
theorem ex_tree : TreeOp exCtx exOp = true := by decide +kernel

theorem ex_gen : responseForQuery exCtx 0 = .ok exItems := by
  have hresp := tree_items_shape exCtx exOp (by simp [exCtx, exQuery]) ex_tree
  have hop : exCtx.q.getOperation 0 = .ok exOp := rfl
  unfold responseForQuery
  simp only [show exCtx.s = exSchema from rfl, show exCtx.q = exQuery from rfl, ex_used, ex_scalars, ex_enums,
    ex_inputs, ex_vars, ex_frags, bind, Except.bind]
  rw [show exQuery.getOperation 0 = .ok exOp from rfl]
  simp only [hresp]
  rfl


theorem kw_not {w : String} (h : w ∉ Gen.keywordTable) : keywordReplace w = w := by
  rw [C11.keywordReplace_spec, if_neg h]
theorem kw_is {w : String} (h : w ∈ Gen.keywordTable) : keywordReplace w = w ++ "_" := by
  rw [C11.keywordReplace_spec, if_pos h]

theorem ex_enumItem : enumItem exCtx exEpisode =
    .gqlEnum "Episode" [] "::serde" ["NEWHOPE", "EMPIRE", "type_"]
      [("NEWHOPE", "NEWHOPE"), ("EMPIRE", "EMPIRE"), ("type_", "type")]
      [("NEWHOPE", "NEWHOPE"), ("EMPIRE", "EMPIRE"), ("type", "type_")] := by
  have h1 : keywordReplace "NEWHOPE" = "NEWHOPE" := kw_not (by decide +kernel)
  have h2 : keywordReplace "EMPIRE" = "EMPIRE" := kw_not (by decide +kernel)
  have h3 : keywordReplace "type" = "type_" := kw_is (by decide +kernel)
  have i1 : enumVariantIdent .none exCtx.cs "NEWHOPE" = "NEWHOPE" := by
    simp only [enumVariantIdent, Normalization.enumVariant, Normalization.camelCase, h1]; decide
  have i2 : enumVariantIdent .none exCtx.cs "EMPIRE" = "EMPIRE" := by
    simp only [enumVariantIdent, Normalization.enumVariant, Normalization.camelCase, h2]; decide
  have i3 : enumVariantIdent .none exCtx.cs "type" = "type_" := by
    simp only [enumVariantIdent, Normalization.enumVariant, Normalization.camelCase, h3]; decide
  simp only [enumItem, exCtx, exEpisode, Normalization.enumName, Normalization.camelCase,
    List.map_cons, List.map_nil] at i1 i2 i3 ⊢
  rw [i1, i2, i3]
  rfl


theorem ex_ok : moduleOk exCtx exItems = true := by
  unfold exItems
  rw [ex_enumItem]
  decide +kernel

theorem ex_rust : rustOkSels exCtx exOp.sels = true ∧ EnumSpec.nodup (rustNames exCtx exOp.sels) = true := by
  have h1 : keywordReplace "hero" = "hero" := kw_not (by decide +kernel)
  have h2 : keywordReplace "others" = "others" := kw_not (by decide +kernel)
  have h3 : keywordReplace "id" = "id" := kw_not (by decide +kernel)
  have h4 : keywordReplace "n" = "n" := kw_not (by decide +kernel)
  have h5 : keywordReplace "episode" = "episode" := kw_not (by decide +kernel)
  have h6 : keywordReplace "born" = "born" := kw_not (by decide +kernel)
  have e1 : rustNames exCtx exOp.sels = [keywordReplace "hero", keywordReplace "others"] := rfl
  have e2 : rustNames exCtx [.field none 1 [], .field (some "n") 2 [], .field none 3 [], .field none 4 [], .typename] =
      [keywordReplace "id", keywordReplace "n", keywordReplace "episode", keywordReplace "born"] := rfl
  have e3 : rustNames exCtx [.field none 1 []] = [keywordReplace "id"] := rfl
  have e4 : rustNames exCtx [] = [] := rfl
  refine ⟨?_, by rw [e1, h1, h2]; decide +kernel⟩
  simp only [exOp, rustOkSels, rustOkSel, e2, e3, e4, h3, h4, h5, h6]
  decide +kernel

def exJson : Json :=
  .obj [("others", .arr [.obj [("id", .str "a")], .obj [("id", .int 12)]]),
        ("__typename", .str "Query"),
        ("hero", .obj [("__typename", .str "Hero"), ("id", .int 7), ("n", .str "Luke"), ("episode", .str "JEDI"),
                       ("born", .null)])]

def exCanon : Json :=
  .obj [("hero", .obj [("id", .str "7"), ("n", .str "Luke"), ("episode", .str "JEDI"), ("born", .null)]),
        ("others", .arr [.obj [("id", .str "a")], .obj [("id", .str "12")]])]

theorem ex_conforms : conformsOp exCtx exOp exJson = true := by
  simp [conformsOp, rootName, conformsSel, confSels, confSel, exCtx, exSchema, exOp, exJson, Json.lookup, accepts,
    acceptsNN, gtyOf, scalarOk, idOk, stringOk, i64Ok, Json.isNull, EnumSpec.nodup, respKeys, respKey]


theorem ex_canon : canonSel exCtx.s exCtx.o.skipNone exOp.sels exJson = exCanon := by
  simp [canonSel, canonEntries, canonField, canon, canonNN, idCanon, gtyOf, exCtx, exSchema, exOp, exJson, exCanon,
    Json.lookup, skipQ, Json.isNull]
  decide

/-- Theorems 2 + 3 on the concrete module: `to_value (from_value exJson) = exCanon` -/
example : Serde.roundtrip (moduleEnv exCtx exItems) (.path "ResponseData") exJson = .ok exCanon := by
  rw [← ex_canon]
  exact tree_roundtrip exCtx 0 exOp exItems rfl ex_tree ex_gen ex_ok ex_rust.1 ex_rust.2 exJson ex_conforms

theorem ex_precise (j : Json) :
    okB (Serde.de (moduleEnv exCtx exItems) (.path "ResponseData") j) = conformsSelLoose exSchema exOp.sels j :=
  tree_precise_iff exCtx 0 exOp exItems rfl ex_tree ex_gen ex_ok j

macro "loose_eval" : tactic => `(tactic|
  simp [conformsSelLoose, looseSels, looseArr, looseField, exSchema, exOp, Json.lookup, accepts, acceptsNN, gtyOf,
    scalarOk, idOk, stringOk, i64Ok, Json.isNull, nullableQ, countKey])

/-- **witness 1** (a liberty of serde not listed in the task statement): a JSON *array* at an object
    position is read positionally by the derived `Deserialize` (`visit_seq`) -/
theorem array_at_object_position_accepted :
    okB (Serde.de (moduleEnv exCtx exItems) (.path "ResponseData") (.arr [.null, .arr []])) = true := by
  rw [ex_precise]; loose_eval

/-- **witness 2**: an absent key at a *nullable* position reads as `None` -/
theorem absent_nullable_key_accepted :
    okB (Serde.de (moduleEnv exCtx exItems) (.path "ResponseData") (.obj [("others", .arr [])])) = true := by
  rw [ex_precise]; loose_eval

/-- rejected: a missing key at a non-null position -/
example : okB (Serde.de (moduleEnv exCtx exItems) (.path "ResponseData") (.obj [("hero", .null)])) = false := by
  rw [ex_precise]; loose_eval
/-- rejected: `null` at a non-null position -/
example : okB (Serde.de (moduleEnv exCtx exItems) (.path "ResponseData")
    (.obj [("hero", .null), ("others", .null)])) = false := by
  rw [ex_precise]; loose_eval
/-- rejected: a non-list at a list position -/
example : okB (Serde.de (moduleEnv exCtx exItems) (.path "ResponseData")
    (.obj [("hero", .null), ("others", .obj [("id", .str "a")])])) = false := by
  rw [ex_precise]; loose_eval
/-- rejected: a wrong scalar kind at depth 2 (inside a list of objects) -/
example : okB (Serde.de (moduleEnv exCtx exItems) (.path "ResponseData")
    (.obj [("hero", .null), ("others", .arr [.obj [("id", .bool true)]])])) = false := by
  rw [ex_precise]; loose_eval
/-- rejected: a missing non-null key at depth 2 -/
example : okB (Serde.de (moduleEnv exCtx exItems) (.path "ResponseData")
    (.obj [("hero", .obj [("n", .str "x")]), ("others", .arr [])])) = false := by
  rw [ex_precise]; loose_eval
/-- rejected: a selected key twice -/
example : okB (Serde.de (moduleEnv exCtx exItems) (.path "ResponseData")
    (.obj [("hero", .null), ("hero", .null), ("others", .arr [])])) = false := by
  rw [ex_precise]; loose_eval
/-- accepted: unknown keys, `__typename` absent or anything -/
example : okB (Serde.de (moduleEnv exCtx exItems) (.path "ResponseData")
    (.obj [("zzz", .int 1), ("hero", .null), ("__typename", .int 3), ("others", .arr [])])) = true := by
  rw [ex_precise]; loose_eval


/-- the statement of the task with a loose specification that *only* allows unknown keys is **false** of
    the model: serde accepts a value that is not an object … -/
theorem precise_literal_false_array :
    ∃ j, okB (Serde.de (moduleEnv exCtx exItems) (.path "ResponseData") j) = true ∧ ∀ kvs, j ≠ .obj kvs :=
  ⟨_, array_at_object_position_accepted, fun _ h => by cases h⟩

/-- … and an object in which a selected (nullable) key is absent -/
theorem precise_literal_false_absent :
    ∃ kvs, okB (Serde.de (moduleEnv exCtx exItems) (.path "ResponseData") (.obj kvs)) = true ∧
      Json.lookup "hero" kvs = none :=
  ⟨_, absent_nullable_key_accepted, by simp [Json.lookup]⟩

end E2E
end C01
end GqlVerif
