import GqlVerif.Proofs.C09Options
/-!
# C09 — Serde half of the `normalization` wire theorem

Two environments `e₀`, `e₁` that have the same *shape* and differ only in the names of types (item names,
`RTy.path` leaves, keys of `externs`) and in the Rust identifiers of the variants of hand-written string
enums read and write the same JSON, provided the correspondence `R` between the two sets of names is a
partial bijection (`Bij R`) that relates a prelude name (`String`, `i64`, `f64`, `bool`) only to itself
(`PrimOK R`), and the identifier tables of corresponding enums have the same kernel (`EnumRen`).

* `EnvRen R e₀ e₁` — the hypothesis (items and externs related pointwise by `ItemRen R`, `Bij R`, `PrimOK R`);
* `VRel R e₀ e₁ t v v'` — type-directed relation of Rust values: equal except that a value of a string enum
  is the variant *at the same position* of the two identifier tables;
* `de_rename` (`dePath_rename`, `deFlat_rename`, `deTy_rename`): same acceptance, same `mismatch` error
  (an `unmodelled` error may carry a different text, it quotes type names), results related by `VRel`
  (needs `FieldsWF e₀`: fields with the same Rust name have the same type, variants with the same name the
  same payload — otherwise `VRel`, which follows the way `Serialize` looks fields up, is not what comes out);
* `ser_rename` (`serPath_rename`, `serTy_rename`): `VRel`-related values are written to the same JSON;
* `roundtrip_rename`: `to_value(from_value(j))` is the same.
-/
namespace GqlVerif
namespace C09N
open Serde Codegen C09

/-! ## relations -/

/-- same `Option` / `Vec` / `Box` shape, leaves related by `R` -/
def TyRen (R : String → String → Prop) : RTy → RTy → Prop
  | .path p, .path p' => R p p'
  | .opt t, .opt t' => TyRen R t t'
  | .vec t, .vec t' => TyRen R t t'
  | .box t, .box t' => TyRen R t t'
  | _, _ => False

structure FieldRen (R : String → String → Prop) (f f' : RField) : Prop where
  rust : f'.rust = f.rust
  rename : f'.rename = f.rename
  ty : TyRen R f.ty f'.ty
  flatten : f'.flatten = f.flatten
  skipNone : f'.skipNone = f.skipNone
  deserWith : f'.deserWith = f.deserWith
  default : f'.default = f.default

def OptTyRen (R : String → String → Prop) : Option RTy → Option RTy → Prop
  | none, none => True
  | some t, some t' => TyRen R t t'
  | _, _ => False

structure VariantRen (R : String → String → Prop) (v v' : RVariant) : Prop where
  name : v'.name = v.name
  rename : v'.rename = v.rename
  payload : OptTyRen R v.payload v'.payload
  other : v'.other = v.other

/-- the pairs `(a, a')` occurring at the same position have the same kernel: `a = b ↔ a' = b'` -/
def KernelEq (l : List (String × String)) : Prop :=
  ∀ x ∈ l, ∀ y ∈ l, (x.1 = y.1 ↔ x.2 = y.2)

instance (l : List (String × String)) : Decidable (KernelEq l) := by unfold KernelEq; infer_instance

/-- corresponding Rust identifiers of two `Deserialize` tables -/
def identPairs (de de' : List (String × String)) : List (String × String) :=
  (de.map (·.2)).zip (de'.map (·.2))

/-- the tables of two string enums: same wire strings in the same order, `Serialize` table inverse to the
    `Deserialize` table, identifiers with the same kernel -/
structure EnumRen (ser de ser' de' : List (String × String)) : Prop where
  keys : de.map (·.1) = de'.map (·.1)
  ser : ser = de.map Prod.swap
  ser' : ser' = de'.map Prod.swap
  kernel : KernelEq (identPairs de de')

inductive ItemRen (R : String → String → Prop) : Item → Item → Prop
  | struct {n n' d d' s s' fs fs'} : R n n' → All2 (FieldRen R) fs fs' →
      ItemRen R (.struct n d s fs) (.struct n' d' s' fs')
  | unitStruct {n n' d d' s s'} : R n n' → ItemRen R (.unitStruct n d s) (.unitStruct n' d' s')
  | tagged {n n' d d' s s' tag vs vs'} : R n n' → All2 (VariantRen R) vs vs' →
      ItemRen R (.tagged n d s tag vs) (.tagged n' d' s' tag vs')
  | alias {n n' pub pub' t t'} : R n n' → TyRen R t t' → ItemRen R (.alias n pub t) (.alias n' pub' t')
  | gqlEnum {n n' d d' sp sp' ids ids' ser ser' de de'} : R n n' → EnumRen ser de ser' de' →
      ItemRen R (.gqlEnum n d sp ids ser de) (.gqlEnum n' d' sp' ids' ser' de')
  | oneOf {n n' d d' s s' vs vs'} : R n n' → All2 (VariantRen R) vs vs' →
      ItemRen R (.oneOf n d s vs) (.oneOf n' d' s' vs')
  | defaults {fns fns'} : R "<impl Variables>" "<impl Variables>" → ItemRen R (.defaults fns) (.defaults fns')

/-- `R` is a partial bijection -/
def Bij (R : String → String → Prop) : Prop := ∀ a a' b b', R a a' → R b b' → (a = b ↔ a' = b')

/-- a prelude name corresponds only to itself -/
def PrimOK (R : String → String → Prop) : Prop :=
  ∀ a a', R a a' → (isPrimName a = true ∨ isPrimName a' = true) → a = a'

structure EnvRen (R : String → String → Prop) (e e' : Env) : Prop where
  items : All2 (ItemRen R) e.items e'.items
  externs : All2 (fun x x' => R x.1 x'.1 ∧ TyRen R x.2 x'.2) e.externs e'.externs
  bij : Bij R
  prim : PrimOK R

theorem ItemRen.name {R} {it it' : Item} (h : ItemRen R it it') : R it.name it'.name := by
  cases h <;> assumption

/-! ## generalities on `All2` -/

theorem All2.getElem? {α β} {R : α → β → Prop} : ∀ {l l'}, All2 R l l' → ∀ i : Nat,
    (l[i]? = none ∧ l'[i]? = none) ∨ ∃ a b, l[i]? = some a ∧ l'[i]? = some b ∧ R a b
  | _, _, .nil, i => Or.inl ⟨by simp, by simp⟩
  | _, _, .cons (a := a) (b := b) hab t, i => by
    cases i with
    | zero => exact Or.inr ⟨a, b, by simp, by simp, hab⟩
    | succ i => simpa using All2.getElem? t i

theorem All2.mem_left {α β} {R : α → β → Prop} : ∀ {l l'}, All2 R l l' → ∀ a ∈ l, ∃ b ∈ l', R a b
  | _, _, .nil, a, h => by cases h
  | _, _, .cons (a := x) (b := y) hab t, a, h => by
    rcases List.mem_cons.mp h with rfl | h
    · exact ⟨y, by simp, hab⟩
    · obtain ⟨b, hb, hr⟩ := All2.mem_left t a h
      exact ⟨b, by simp [hb], hr⟩

/-- `find?` with predicates that agree on related elements -/
theorem All2.find? {α β} {R : α → β → Prop} {p : α → Bool} {q : β → Bool} :
    ∀ {l l'}, All2 R l l' → (∀ a b, a ∈ l → R a b → p a = q b) →
      (l.find? p = none ∧ l'.find? q = none) ∨ ∃ a b, a ∈ l ∧ l.find? p = some a ∧ l'.find? q = some b ∧ R a b
  | _, _, .nil, _ => Or.inl ⟨rfl, rfl⟩
  | _, _, .cons (a := a) (b := b) (as := as) hab t, h => by
    have hpq := h a b (by simp) hab
    cases hp : p a
    · have hq : q b = false := by rw [← hpq, hp]
      simp only [List.find?_cons, hp, hq]
      rcases All2.find? t (fun x y hx hr => h x y (by simp [hx]) hr) with hn | ⟨x, y, hx, h1, h2, hr⟩
      · exact Or.inl hn
      · exact Or.inr ⟨x, y, by simp [hx], h1, h2, hr⟩
    · have hq : q b = true := by rw [← hpq, hp]
      exact Or.inr ⟨a, b, by simp, by simp [hp], by simp [hq], hab⟩

theorem All2.any_eq {α β} {R : α → β → Prop} {p : α → Bool} {q : β → Bool} :
    ∀ {l l'}, All2 R l l' → (∀ a b, R a b → p a = q b) → l.any p = l'.any q
  | _, _, .nil, _ => rfl
  | _, _, .cons hab t, h => by simp only [List.any_cons, h _ _ hab, All2.any_eq t h]

theorem All2.map_eq {α β γ} {R : α → β → Prop} {f : α → γ} {g : β → γ} :
    ∀ {l l'}, All2 R l l' → (∀ a b, R a b → f a = g b) → l.map f = l'.map g
  | _, _, .nil, _ => rfl
  | _, _, .cons hab t, h => by simp only [List.map_cons, h _ _ hab, All2.map_eq t h]

theorem All2.filter {α β} {R : α → β → Prop} {p : α → Bool} {q : β → Bool} :
    ∀ {l l'}, All2 R l l' → (∀ a b, R a b → p a = q b) → All2 R (l.filter p) (l'.filter q)
  | _, _, .nil, _ => .nil
  | _, _, .cons (a := a) (b := b) hab t, h => by
    have := h a b hab
    cases hp : p a
    · have hq : q b = false := by rw [← this, hp]
      simp only [List.filter_cons, hp, hq]
      exact All2.filter t h
    · have hq : q b = true := by rw [← this, hp]
      simp only [List.filter_cons, hp, hq]
      exact .cons hab (All2.filter t h)

theorem All2.mono {α β} {R S : α → β → Prop} (h : ∀ a b, R a b → S a b) : ∀ {l l'}, All2 R l l' → All2 S l l'
  | _, _, .nil => .nil
  | _, _, .cons hab t => .cons (h _ _ hab) (All2.mono h t)

/-! ## the value relation -/

mutual
  /-- values without any enum / variant inside: what `Option::None`, unit structs and the ID helpers produce -/
  def idVal : Val → Bool
    | .unit => true
    | .str _ => true
    | .some v => idVal v
    | .list vs => idVals vs
    | _ => false
  def idVals : List Val → Bool
    | [] => true
    | v :: vs => idVal v && idVals vs
end

/-- `v` (a value of `e`'s type `t`) and `v'` are the same value, up to the identifiers of string-enum variants,
    which correspond by their position in the tables of the two environments -/
inductive VRel (R : String → String → Prop) (e e' : Env) : RTy → Val → Val → Prop
  | plain {t v} : idVal v = true → VRel R e e' t v v
  | some {t v v'} : VRel R e e' t v v' → VRel R e e' (.opt t) (.some v) (.some v')
  | list {t vs vs'} : vs.length = vs'.length →
      (∀ (i : Nat) v v', vs[i]? = some v → vs'[i]? = some v' → VRel R e e' t v v') →
      VRel R e e' (.vec t) (.list vs) (.list vs')
  | box {t v v'} : VRel R e e' t v v' → VRel R e e' (.box t) v v'
  | leaf {p v j} : serPrim v = some j → VRel R e e' (.path p) v v
  | alias {p n pub t v v'} : e.find p = some (.alias n pub t) → VRel R e e' t v v' → VRel R e e' (.path p) v v'
  | extern {p k t v v'} : e.find p = none → e.externs.find? (·.1 == p) = some (k, t) → VRel R e e' t v v' →
      VRel R e e' (.path p) v v'
  | record {p n d s fields vals vals'} : e.find p = some (.struct n d s fields) →
      vals.map (·.1) = vals'.map (·.1) → (∀ kv ∈ vals, ∃ f ∈ fields, f.rust = kv.1) →
      (∀ (i : Nat) kv kv', vals[i]? = some kv → vals'[i]? = some kv' →
        ∀ f ∈ fields, f.rust = kv.1 → VRel R e e' f.ty kv.2 kv'.2) →
      VRel R e e' (.path p) (.record vals) (.record vals')
  | taggedUnit {p n d s tag vs name} : e.find p = some (.tagged n d s tag vs) →
      VRel R e e' (.path p) (.variant name none) (.variant name none)
  | tagged {p n d s tag vs name pv pv'} : e.find p = some (.tagged n d s tag vs) →
      (∃ var ∈ vs, var.name = name ∧ ∃ t, var.payload = some t) →
      (∀ var ∈ vs, var.name = name → ∀ t, var.payload = some t → VRel R e e' t pv pv') →
      VRel R e e' (.path p) (.variant name (some pv)) (.variant name (some pv'))
  | oneOf {p n d s vs name pv pv'} : e.find p = some (.oneOf n d s vs) →
      (∃ var ∈ vs, var.name = name ∧ ∃ t, var.payload = some t) →
      (∀ var ∈ vs, var.name = name → ∀ t, var.payload = some t → VRel R e e' t pv pv') →
      VRel R e e' (.path p) (.variant name (some pv)) (.variant name (some pv'))
  | enum {p p' n d sp ids ser de n' d' sp' ids' ser' de' v v'} : e.find p = some (.gqlEnum n d sp ids ser de) →
      R p p' → e'.find p' = some (.gqlEnum n' d' sp' ids' ser' de') → (v, v') ∈ identPairs de de' →
      VRel R e e' (.path p) (.variant v none) (.variant v' none)

/-- pointwise relation of two lists by index -/
theorem all2_of_getElem {α β} {S : α → β → Prop} : ∀ {l : List α} {l' : List β}, l.length = l'.length →
    (∀ (i : Nat) a b, l[i]? = some a → l'[i]? = some b → S a b) → All2 S l l'
  | [], [], _, _ => .nil
  | [], _ :: _, h, _ => by simp at h
  | _ :: _, [], h, _ => by simp at h
  | a :: l, b :: l', h, hs =>
    .cons (hs 0 a b (by simp) (by simp))
      (all2_of_getElem (by simpa using h) (fun i x y hx hy => hs (i + 1) x y (by simpa using hx) (by simpa using hy)))

theorem getElem_of_all2 {α β} {S : α → β → Prop} {l : List α} {l' : List β} (h : All2 S l l') :
    l.length = l'.length ∧ ∀ (i : Nat) a b, l[i]? = some a → l'[i]? = some b → S a b := by
  refine ⟨All2.length_eq h, fun i a b ha hb => ?_⟩
  rcases All2.getElem? h i with ⟨h1, _⟩ | ⟨x, y, h1, h2, hr⟩
  · rw [ha] at h1; cases h1
  · rw [ha] at h1; rw [hb] at h2; cases h1; cases h2; exact hr

/-- the record relation, as a pointwise relation of lists -/
abbrev PW (R : String → String → Prop) (e e' : Env) (fields : List RField) : List (String × Val) → List (String × Val) → Prop :=
  All2 (fun kv kv' => kv.1 = kv'.1 ∧ (∃ f ∈ fields, f.rust = kv.1) ∧
    ∀ f ∈ fields, f.rust = kv.1 → VRel R e e' f.ty kv.2 kv'.2)

theorem vrel_ofPW {R e e' p n d s fields vals vals'} (h : e.find p = some (.struct n d s fields))
    (hpw : PW R e e' fields vals vals') : VRel R e e' (.path p) (.record vals) (.record vals') :=
  .record h (All2.map_eq hpw (fun _ _ h => h.1))
    (fun kv hkv => by obtain ⟨_, _, hr⟩ := All2.mem_left hpw kv hkv; exact hr.2.1)
    (fun i kv kv' h1 h2 => ((getElem_of_all2 hpw).2 i kv kv' h1 h2).2.2)

theorem pw_ofRecord {R e e' fields vals vals'} (hk : vals.map (·.1) = vals'.map (·.1))
    (hex : ∀ kv ∈ vals, ∃ f ∈ fields, f.rust = kv.1)
    (hv : ∀ (i : Nat) (kv kv' : String × Val), vals[i]? = some kv → vals'[i]? = some kv' →
        ∀ f ∈ fields, f.rust = kv.1 → VRel R e e' f.ty kv.2 kv'.2) : PW R e e' fields vals vals' := by
  refine all2_of_getElem (by simpa using congrArg List.length hk) (fun i kv kv' h1 h2 =>
    ⟨?_, hex kv (List.mem_of_getElem? h1), hv i kv kv' h1 h2⟩)
  have := congrArg (fun l : List String => l[i]?) hk
  simpa [List.getElem?_map, h1, h2] using this

theorem vrel_ofList {R e e' t vs vs'} (h : All2 (VRel R e e' t) vs vs') : VRel R e e' (.vec t) (.list vs) (.list vs') :=
  .list (getElem_of_all2 h).1 (getElem_of_all2 h).2

/-! ## results of `Deserialize` / `Serialize` up to the text of `unmodelled` -/

/-- same error, except that an `unmodelled` error (which quotes type names) may carry another text -/
def ERel : DErr → DErr → Prop
  | .mismatch w, .mismatch w' => w = w'
  | .unmodelled _, .unmodelled _ => True
  | _, _ => False

def DRel {α β} (S : α → β → Prop) : D α → D β → Prop
  | .ok a, .ok b => S a b
  | .error x, .error y => ERel x y
  | _, _ => False

theorem ERel.refl (x : DErr) : ERel x x := by cases x <;> simp [ERel]

theorem DRel.pure {α β} {S : α → β → Prop} {a : α} {b : β} (h : S a b) :
    DRel S (Pure.pure a : D α) (Pure.pure b : D β) := h

theorem DRel.ofBad {α β} {S : α → β → Prop} (w : String) : DRel S (Serde.bad w : D α) (Serde.bad w : D β) := by
  simp [Serde.bad, DRel, ERel]

theorem DRel.ofUnmodelled {α β} {S : α → β → Prop} (w w' : String) :
    DRel S (Serde.unmodelled w : D α) (Serde.unmodelled w' : D β) := by
  simp [Serde.unmodelled, DRel, ERel]

theorem DRel.bind {α β γ δ} {S : α → β → Prop} {T : γ → δ → Prop} {x : D α} {y : D β} {f : α → D γ} {g : β → D δ}
    (hxy : DRel S x y) (hfg : ∀ a b, S a b → DRel T (f a) (g b)) : DRel T (x >>= f) (y >>= g) := by
  cases x <;> cases y <;> simp only [DRel] at hxy
  · exact hxy
  · exact hfg _ _ hxy

theorem DRel.map {α β γ δ} {S : α → β → Prop} {T : γ → δ → Prop} {x : D α} {y : D β} {f : α → γ} {g : β → δ}
    (hxy : DRel S x y) (hfg : ∀ a b, S a b → T (f a) (g b)) : DRel T (f <$> x) (g <$> y) := by
  cases x <;> cases y <;> simp only [DRel] at hxy
  · exact hxy
  · exact hfg _ _ hxy

theorem DRel.mono {α β} {S T : α → β → Prop} (h : ∀ a b, S a b → T a b) {x : D α} {y : D β} (hxy : DRel S x y) :
    DRel T x y := by
  cases x <;> cases y <;> simp only [DRel] at hxy ⊢
  · exact hxy
  · exact h _ _ hxy

theorem DRel.refl {α} {S : α → α → Prop} (h : ∀ a, S a a) (x : D α) : DRel S x x := by
  cases x
  · exact ERel.refl _
  · exact h _

theorem DRel.mapM {α β γ δ} {S : α → β → Prop} {T : γ → δ → Prop} {f : α → D γ} {g : β → D δ} :
    ∀ {l : List α} {l' : List β}, All2 S l l' → (∀ a b, S a b → DRel T (f a) (g b)) →
      DRel (All2 T) (l.mapM f) (l'.mapM g)
  | _, _, .nil, _ => by simp only [List.mapM_nil]; exact DRel.pure .nil
  | _, _, .cons hab t, h => by
    simp only [List.mapM_cons]
    apply DRel.bind (h _ _ hab); intro c d hcd
    apply DRel.bind (DRel.mapM t h); intro cs ds hcds
    exact DRel.pure (.cons hcd hcds)

/-! ## lookups commute with the renaming -/

section lookups
variable {R : String → String → Prop} {e e' : Env}

theorem dePrim_ren (H : EnvRen R e e') {p p' : String} (h : R p p') (j : Json) : dePrim p' j = dePrim p j := by
  cases hp : isPrimName p
  · cases hp' : isPrimName p'
    · rw [dePrim_none_of_notPrim hp, dePrim_none_of_notPrim hp']
    · rw [H.prim p p' h (Or.inr hp')]
  · rw [H.prim p p' h (Or.inl hp)]

theorem dePrim_rel {p : String} {j : Json} {r : D Val} (h : dePrim p j = some r) :
    DRel (VRel R e e' (.path p)) r r := by
  unfold dePrim at h
  split at h
  · cases h; cases j <;> first | exact DRel.ofBad _ | exact DRel.pure (.leaf rfl)
  · split at h
    · cases h
      cases j <;> try exact DRel.ofBad _
      rename_i n
      by_cases hn : inI64 n = true <;> simp only [hn, ↓reduceIte]
      · exact DRel.pure (.leaf rfl)
      · exact DRel.ofBad _
    · split at h
      · cases h; cases j <;> first | exact DRel.ofBad _ | exact DRel.pure (.leaf rfl)
      · split at h
        · cases h; cases j <;> first | exact DRel.ofBad _ | exact DRel.pure (.leaf rfl)
        · cases h

theorem find_ren (H : EnvRen R e e') {p p' : String} (h : R p p') :
    (e.find p = none ∧ e'.find p' = none) ∨
    ∃ it it', it ∈ e.items ∧ e.find p = some it ∧ e'.find p' = some it' ∧ ItemRen R it it' := by
  unfold Env.find
  apply All2.find? H.items
  intro a b _ hab
  have := H.bij a.name b.name p p' hab.name h
  by_cases hq : a.name = p
  · rw [beq_iff_eq.mpr hq, beq_iff_eq.mpr (this.mp hq)]
  · have hq' : ¬ b.name = p' := fun hb => hq (this.mpr hb)
    rw [beq_eq_false_iff_ne.mpr hq, beq_eq_false_iff_ne.mpr hq']

theorem extern_ren (H : EnvRen R e e') {p p' : String} (h : R p p') :
    (e.externs.find? (·.1 == p) = none ∧ e'.externs.find? (·.1 == p') = none) ∨
    ∃ k t k' t', e.externs.find? (·.1 == p) = some (k, t) ∧ e'.externs.find? (·.1 == p') = some (k', t') ∧
      TyRen R t t' := by
  rcases All2.find? (p := fun x : String × RTy => x.1 == p) (q := fun x : String × RTy => x.1 == p') H.externs
      (by
        intro a b _ hab
        have := H.bij a.1 b.1 p p' hab.1 h
        by_cases hq : a.1 = p
        · rw [beq_iff_eq.mpr hq, beq_iff_eq.mpr (this.mp hq)]
        · have hq' : ¬ b.1 = p' := fun hb => hq (this.mpr hb)
          rw [beq_eq_false_iff_ne.mpr hq, beq_eq_false_iff_ne.mpr hq']) with hn | ⟨a, b, _, h1, h2, hr⟩
  · exact Or.inl hn
  · exact Or.inr ⟨a.1, a.2, b.1, b.2, h1, h2, hr.2⟩

end lookups

/-! ## shape lemmas -/

section shape
variable {R : String → String → Prop}

theorem tyRen_path {p : String} {t' : RTy} (h : TyRen R (.path p) t') : ∃ p', t' = .path p' ∧ R p p' := by
  cases t' <;> simp only [TyRen] at h
  exact ⟨_, rfl, h⟩

theorem tyRen_opt {t t' : RTy} (h : TyRen R (.opt t) t') : ∃ u, t' = .opt u ∧ TyRen R t u := by
  cases t' <;> simp only [TyRen] at h
  exact ⟨_, rfl, h⟩

theorem tyRen_vec {t t' : RTy} (h : TyRen R (.vec t) t') : ∃ u, t' = .vec u ∧ TyRen R t u := by
  cases t' <;> simp only [TyRen] at h
  exact ⟨_, rfl, h⟩

theorem tyRen_box {t t' : RTy} (h : TyRen R (.box t) t') : ∃ u, t' = .box u ∧ TyRen R t u := by
  cases t' <;> simp only [TyRen] at h
  exact ⟨_, rfl, h⟩

theorem isOption_ren : ∀ {t t' : RTy}, TyRen R t t' → isOption t' = isOption t := by
  intro t
  induction t with
  | path p => intro t' h; obtain ⟨_, rfl, _⟩ := tyRen_path h; rfl
  | opt t _ => intro t' h; obtain ⟨_, rfl, _⟩ := tyRen_opt h; rfl
  | vec t _ => intro t' h; obtain ⟨_, rfl, _⟩ := tyRen_vec h; rfl
  | box t ih => intro t' h; obtain ⟨u, rfl, hu⟩ := tyRen_box h; exact ih (t' := u) hu

theorem deNestedId_ren : ∀ {t t' : RTy}, TyRen R t t' → ∀ j, deNestedId t' j = deNestedId t j := by
  intro t
  induction t with
  | path p => intro t' h j; obtain ⟨_, rfl, _⟩ := tyRen_path h; rfl
  | opt t ih => intro t' h j; obtain ⟨u, rfl, hu⟩ := tyRen_opt h; simp only [deNestedId, ih hu]
  | vec t ih =>
    intro t' h j; obtain ⟨u, rfl, hu⟩ := tyRen_vec h
    have : deNestedId u = deNestedId t := funext (ih hu)
    simp only [deNestedId, this]
  | box t ih => intro t' h j; obtain ⟨u, rfl, hu⟩ := tyRen_box h; simp only [deNestedId, ih hu]

theorem deHelper_ren {t t' : RTy} (h : TyRen R t t') (hl : String) (j : Json) : deHelper hl t' j = deHelper hl t j := by
  unfold deHelper; rw [deNestedId_ren h]

theorem missingField_ren {f f' : RField} (h : FieldRen R f f') : missingField f' = missingField f := by
  unfold missingField RField.wire
  rw [h.default, h.deserWith, h.rename, h.rust, isOption_ren h.ty]

theorem wire_ren {f f' : RField} (h : FieldRen R f f') : f'.wire = f.wire := by
  unfold RField.wire; rw [h.rename, h.rust]

theorem vwire_ren {v v' : RVariant} (h : VariantRen R v v') : v'.wire = v.wire := by
  unfold RVariant.wire; rw [h.rename, h.name]

end shape

/-! ## the ID helpers produce plain values -/

theorem mapM_idVals {f : Json → D Val} (hf : ∀ j v, f j = .ok v → idVal v = true) :
    ∀ (xs : List Json) (vs : List Val), xs.mapM f = .ok vs → idVals vs = true
  | [], vs, h => by
    simp only [List.mapM_nil, pure, Except.pure, Except.ok.injEq] at h
    subst h; rfl
  | x :: xs, vs, h => by
    rw [List.mapM_cons] at h
    cases hx : f x with
    | error err => simp [hx, bind, Except.bind] at h
    | ok y =>
      cases hxs : xs.mapM f with
      | error err => simp [hx, hxs, bind, Except.bind] at h
      | ok ys =>
        simp only [hx, hxs, bind, Except.bind, pure, Except.pure, Except.ok.injEq] at h
        subst h
        simp only [idVals, hf x y hx, mapM_idVals hf xs ys hxs, Bool.and_self]

theorem deIntOrString_idVal (j : Json) (v : Val) (h : deIntOrString j = .ok v) : idVal v = true := by
  unfold deIntOrString at h
  split at h
  · split at h
    · cases h; rfl
    · cases h
  · cases h; rfl
  · cases h

theorem deNestedId_idVal : ∀ (t : RTy) (j : Json) (v : Val), deNestedId t j = .ok v → idVal v = true := by
  intro t
  induction t with
  | path p => intro j v h; exact deIntOrString_idVal j v h
  | opt t ih =>
    intro j v h
    simp only [deNestedId] at h
    split at h
    · cases h; rfl
    · cases hr : deNestedId t j with
      | error err => simp [hr, Functor.map, Except.map] at h
      | ok x =>
        simp only [hr, Functor.map, Except.map, Except.ok.injEq] at h
        subst h
        simp only [idVal]; exact ih j x hr
  | vec t ih =>
    intro j v h
    simp only [deNestedId] at h
    split at h
    · rename_i xs
      cases hr : xs.mapM (deNestedId t) with
      | error err => simp [hr, Functor.map, Except.map] at h
      | ok ys =>
        simp only [hr, Functor.map, Except.map, Except.ok.injEq] at h
        subst h
        simp only [idVal]; exact mapM_idVals ih xs ys hr
    · cases h
  | box t ih => intro j v h; exact ih j v h

theorem deHelper_idVal (hl : String) (t : RTy) (j : Json) (v : Val) (h : deHelper hl t j = .ok v) : idVal v = true := by
  unfold deHelper at h
  split at h
  · exact deIntOrString_idVal j v h
  · split at h
    · split at h
      · cases h; rfl
      · cases hr : deIntOrString j with
        | error err => simp [hr, Functor.map, Except.map] at h
        | ok x =>
          simp only [hr, Functor.map, Except.map, Except.ok.injEq] at h
          subst h
          simp only [idVal]; exact deIntOrString_idVal j x hr
    · split at h
      · exact deNestedId_idVal t j v h
      · cases h

theorem DRel.plainSelf {R e e'} (t : RTy) (r : D Val) (h : ∀ v, r = .ok v → idVal v = true) : DRel (VRel R e e' t) r r := by
  cases r with
  | error err => exact ERel.refl _
  | ok v => exact VRel.plain (h v rfl)

theorem missingField_rel {R e e'} (f : RField) (t : RTy) : DRel (VRel R e e' t) (missingField f) (missingField f) := by
  apply DRel.plainSelf
  intro v h
  unfold missingField at h
  split at h
  · cases h; rfl
  · split at h
    · cases h
    · split at h
      · cases h; rfl
      · cases h

/-! ## the building blocks of `Deserialize` -/

section deBlocks
variable {R : String → String → Prop} {e e' : Env}

/-- two "read a named type" functions that agree up to the renaming -/
abbrev PathRel (R : String → String → Prop) (e e' : Env) (path path' : String → Json → D Val) : Prop :=
  ∀ p p', R p p' → ∀ j, DRel (VRel R e e' (.path p)) (path p j) (path' p' j)

theorem all2_refl_eq {α} (l : List α) : All2 (fun a b => a = b) l l := All2.refl (fun _ => rfl) l

theorem deTyWith_rel {path path' : String → Json → D Val} (hp : PathRel R e e' path path') :
    ∀ {t t' : RTy}, TyRen R t t' → ∀ j, DRel (VRel R e e' t) (deTyWith path t j) (deTyWith path' t' j) := by
  intro t
  induction t with
  | path p => intro t' h j; obtain ⟨p', rfl, hr⟩ := tyRen_path h; exact hp p p' hr j
  | opt t ih =>
    intro t' h j; obtain ⟨u, rfl, hu⟩ := tyRen_opt h
    simp only [deTyWith]
    split
    · exact DRel.pure (.plain rfl)
    · exact DRel.map (ih hu j) (fun a b hab => .some hab)
  | vec t ih =>
    intro t' h j; obtain ⟨u, rfl, hu⟩ := tyRen_vec h
    simp only [deTyWith]
    cases j <;> try exact DRel.ofBad _
    rename_i xs
    refine DRel.map (DRel.mapM (all2_refl_eq xs) (fun a b hab => ?_)) (fun a b hab => vrel_ofList hab)
    subst hab
    exact ih hu a
  | box t ih =>
    intro t' h j; obtain ⟨u, rfl, hu⟩ := tyRen_box h
    simp only [deTyWith]
    exact DRel.mono (fun a b hab => .box hab) (ih hu j)

end deBlocks

section deBlocks2
variable {R : String → String → Prop} {e e' : Env}

theorem deFieldWith_rel {path path' : String → Json → D Val} (hp : PathRel R e e' path path') {f f' : RField}
    (h : FieldRen R f f') (j : Json) : DRel (VRel R e e' f.ty) (deFieldWith path f j) (deFieldWith path' f' j) := by
  unfold deFieldWith
  rw [h.deserWith]
  cases f.deserWith with
  | none => exact deTyWith_rel hp h.ty j
  | some hl =>
    simp only [deHelper_ren h.ty]
    exact DRel.plainSelf _ _ (deHelper_idVal hl f.ty j)

/-- fields with the same Rust name have the same type -/
def SameTy (fields : List RField) : Prop := ∀ f ∈ fields, ∀ g ∈ fields, f.rust = g.rust → f.ty = g.ty

instance (fields : List RField) : Decidable (SameTy fields) := by unfold SameTy; infer_instance

theorem pw_entry {fields : List RField} (hwf : SameTy fields) {f f' : RField} (hf : f ∈ fields) (h : FieldRen R f f')
    {v v' : Val} (hv : VRel R e e' f.ty v v') :
    (f.rust, v).1 = (f'.rust, v').1 ∧ (∃ g ∈ fields, g.rust = (f.rust, v).1) ∧
      ∀ g ∈ fields, g.rust = (f.rust, v).1 → VRel R e e' g.ty (f.rust, v).2 (f'.rust, v').2 := by
  refine ⟨h.rust.symm, ⟨f, hf, rfl⟩, fun g hg hgr => ?_⟩
  rw [hwf g hg f hf hgr]; exact hv

theorem deOwnWith_rel {path path' : String → Json → D Val} (hp : PathRel R e e' path path') {fields : List RField}
    (hwf : SameTy fields) : ∀ {fs fs' : List RField}, All2 (FieldRen R) fs fs' → (∀ f ∈ fs, f ∈ fields) → ∀ kvs,
      DRel (PW R e e' fields) (deOwnWith path fs kvs) (deOwnWith path' fs' kvs)
  | _, _, .nil, _, kvs => by unfold deOwnWith; exact DRel.pure .nil
  | _, _, .cons (a := f) (b := f') (as := fs) (bs := fs') h t, hsub, kvs => by
    unfold deOwnWith
    apply DRel.bind (deOwnWith_rel hp hwf t (fun g hg => hsub g (by simp [hg])) kvs); intro rest rest' hrest
    rw [h.flatten, wire_ren h]
    split
    · exact DRel.pure hrest
    · split
      · exact DRel.ofBad _
      · split
        · apply DRel.bind (deFieldWith_rel hp h _); intro v v' hv
          exact DRel.pure (.cons (pw_entry hwf (hsub f (by simp)) h hv) hrest)
        · rw [missingField_ren h]
          apply DRel.bind (missingField_rel f f.ty); intro v v' hv
          exact DRel.pure (.cons (pw_entry hwf (hsub f (by simp)) h hv) hrest)

/-- two "read a flattened member" functions that agree up to the renaming -/
abbrev FlatRel (R : String → String → Prop) (e e' : Env) (flat flat' : RTy → Buf → D (Val × Buf)) : Prop :=
  ∀ t t', TyRen R t t' → ∀ buf, DRel (fun a b => VRel R e e' t a.1 b.1 ∧ a.2 = b.2) (flat t buf) (flat' t' buf)

theorem deFlatsWith_rel {flat flat' : RTy → Buf → D (Val × Buf)} (hf : FlatRel R e e' flat flat') {fields : List RField}
    (hwf : SameTy fields) : ∀ {fs fs' : List RField}, All2 (FieldRen R) fs fs' → (∀ f ∈ fs, f ∈ fields) → ∀ buf,
      DRel (PW R e e' fields) (deFlatsWith flat fs buf) (deFlatsWith flat' fs' buf)
  | _, _, .nil, _, buf => by unfold deFlatsWith; exact DRel.pure .nil
  | _, _, .cons (a := f) (b := f') (as := fs) (bs := fs') h t, hsub, buf => by
    unfold deFlatsWith
    rw [h.flatten]
    split
    · exact deFlatsWith_rel hf hwf t (fun g hg => hsub g (by simp [hg])) buf
    · apply DRel.bind (hf f.ty f'.ty h.ty buf); intro a b hab
      obtain ⟨v, buf1⟩ := a
      obtain ⟨v', buf2⟩ := b
      obtain ⟨hv, hb⟩ := hab
      simp only at hv hb
      subst hb
      apply DRel.bind (deFlatsWith_rel hf hwf t (fun g hg => hsub g (by simp [hg])) buf1); intro rest rest' hrest
      exact DRel.pure (.cons (pw_entry hwf (hsub f (by simp)) h hv) hrest)

theorem pw_find {fields : List RField} {l l' : List (String × Val)} (h : PW R e e' fields l l') (k : String) :
    (l.find? (·.1 == k) = none ∧ l'.find? (·.1 == k) = none) ∨
    ∃ kv kv', l.find? (·.1 == k) = some kv ∧ l'.find? (·.1 == k) = some kv' ∧
      (kv.1 = kv'.1 ∧ (∃ f ∈ fields, f.rust = kv.1) ∧ ∀ f ∈ fields, f.rust = kv.1 → VRel R e e' f.ty kv.2 kv'.2) := by
  rcases All2.find? (p := fun x : String × Val => x.1 == k) (q := fun x : String × Val => x.1 == k) h
      (fun a b _ hab => by simp only [hab.1]) with hn | ⟨a, b, _, h1, h2, hr⟩
  · exact Or.inl hn
  · exact Or.inr ⟨a, b, h1, h2, hr⟩

theorem pw_filterMap {fields : List RField} {l l' : List (String × Val)} (h : PW R e e' fields l l') :
    ∀ {fs fs' : List RField}, All2 (FieldRen R) fs fs' →
      PW R e e' fields (fs.filterMap fun f => l.find? (·.1 == f.rust)) (fs'.filterMap fun f => l'.find? (·.1 == f.rust))
  | _, _, .nil => .nil
  | _, _, .cons (a := f) (b := f') hf t => by
    simp only [List.filterMap_cons, hf.rust]
    rcases pw_find h f.rust with ⟨h1, h2⟩ | ⟨kv, kv', h1, h2, hr⟩
    · simp only [h1, h2]; exact pw_filterMap h t
    · simp only [h1, h2]; exact .cons hr (pw_filterMap h t)

/-- both are records with related entries -/
def RecRel (R : String → String → Prop) (e e' : Env) (fields : List RField) (v v' : Val) : Prop :=
  ∃ vals vals', v = .record vals ∧ v' = .record vals' ∧ PW R e e' fields vals vals'

theorem deStructMapWith_rel {path path' : String → Json → D Val} (hp : PathRel R e e' path path')
    {flat flat' : RTy → Buf → D (Val × Buf)} (hf : FlatRel R e e' flat flat') {fields fields' : List RField}
    (hwf : SameTy fields) (h : All2 (FieldRen R) fields fields') (kvs : List (String × Json)) :
    DRel (RecRel R e e' fields) (deStructMapWith path flat fields kvs) (deStructMapWith path' flat' fields' kvs) := by
  unfold deStructMapWith
  apply DRel.bind (deOwnWith_rel hp hwf h (fun _ hf => hf) kvs); intro own own' hown
  have hany : fields'.any (·.flatten) = fields.any (·.flatten) :=
    (All2.any_eq h (fun a b hab => hab.flatten.symm)).symm
  have hkeys : (fields'.filter (!·.flatten)).map (·.wire) = (fields.filter (!·.flatten)).map (·.wire) :=
    (All2.map_eq (All2.filter h (fun a b hab => by rw [hab.flatten])) (fun a b hab => (wire_ren hab).symm)).symm
  rw [hany]
  split
  · simp only [hkeys]
    apply DRel.bind (deFlatsWith_rel hf hwf h (fun _ hf => hf) _); intro fl fl' hfl
    exact DRel.pure ⟨_, _, rfl, rfl, pw_filterMap (All2.append hown hfl) h⟩
  · exact DRel.pure ⟨_, _, rfl, rfl, hown⟩

theorem All2.zip_right {α β γ} {S : α → β → Prop} : ∀ {l : List α} {l' : List β}, All2 S l l' → ∀ (xs : List γ),
    All2 (fun a b => S a.1 b.1 ∧ a.2 = b.2) (l.zip xs) (l'.zip xs)
  | _, _, .nil, _ => by simp only [List.zip_nil_left]; exact .nil
  | _, _, .cons _ _, [] => by simp only [List.zip_nil_right]; exact .nil
  | _, _, .cons hab t, x :: xs => by
    simp only [List.zip_cons_cons]
    exact .cons ⟨hab, rfl⟩ (All2.zip_right t xs)

theorem All2.attach_mem {α β} {S : α → β → Prop} : ∀ {l : List α} {l' : List β}, All2 S l l' →
    All2 (fun a b => a ∈ l ∧ S a b) l l'
  | _, _, .nil => .nil
  | _, _, .cons hab t =>
    .cons ⟨by simp, hab⟩ (All2.mono (fun a b h => ⟨by simp [h.1], h.2⟩) (All2.attach_mem t))

theorem deStructWith_rel {path path' : String → Json → D Val} (hp : PathRel R e e' path path')
    {flat flat' : RTy → Buf → D (Val × Buf)} (hf : FlatRel R e e' flat flat') {fields fields' : List RField}
    (hwf : SameTy fields) (h : All2 (FieldRen R) fields fields') (j : Json) :
    DRel (RecRel R e e' fields) (deStructWith path flat fields j) (deStructWith path' flat' fields' j) := by
  unfold deStructWith
  cases j <;> try exact DRel.ofBad _
  · rename_i xs
    have hany : fields'.any (·.flatten) = fields.any (·.flatten) :=
      (All2.any_eq h (fun a b hab => hab.flatten.symm)).symm
    simp only [hany, ← All2.length_eq h]
    split
    · exact DRel.ofBad _
    · split
      · exact DRel.ofBad _
      · refine DRel.map (T := RecRel R e e' fields)
          (DRel.mapM (T := fun kv kv' => kv.1 = kv'.1 ∧ (∃ f ∈ fields, f.rust = kv.1) ∧
              ∀ f ∈ fields, f.rust = kv.1 → VRel R e e' f.ty kv.2 kv'.2)
            (All2.zip_right (All2.attach_mem h) xs) ?_) (fun a b hab => ⟨_, _, rfl, rfl, hab⟩)
        intro a b hab
        obtain ⟨f, x⟩ := a
        obtain ⟨f', x'⟩ := b
        obtain ⟨⟨hmem, hff⟩, hx⟩ := hab
        simp only at hmem hff hx
        subst hx
        apply DRel.bind (deFieldWith_rel hp hff x); intro v v' hv
        exact DRel.pure (pw_entry hwf hmem hff hv)
  · exact deStructMapWith_rel hp hf hwf h _

end deBlocks2

section deBlocks3
variable {R : String → String → Prop} {e e' : Env}

/-- variants with the same name have the same payload type -/
def SamePayload (vs : List RVariant) : Prop := ∀ v ∈ vs, ∀ w ∈ vs, v.name = w.name → v.payload = w.payload

instance (vs : List RVariant) : Decidable (SamePayload vs) := by unfold SamePayload; infer_instance

/-- both are the same variant, with related payloads -/
def TagRel (R : String → String → Prop) (e e' : Env) (vs : List RVariant) (v v' : Val) : Prop :=
  (∃ name, v = .variant name none ∧ v' = .variant name none) ∨
  (∃ name pv pv', v = .variant name (some pv) ∧ v' = .variant name (some pv') ∧
    (∃ var ∈ vs, var.name = name ∧ ∃ t, var.payload = some t) ∧
    ∀ var ∈ vs, var.name = name → ∀ t, var.payload = some t → VRel R e e' t pv pv')

theorem pick_rel {pathB pathB' : String → Json → D Val} (hp : PathRel R e e' pathB pathB') {vs : List RVariant}
    (hwf : SamePayload vs) {v v' : RVariant} (hv : v ∈ vs) (h : VariantRen R v v') (rest : List (String × Json)) :
    DRel (TagRel R e e' vs)
      (if v.other then pure (.variant v.name none) else
        match v.payload with
        | none => pure (.variant v.name none)
        | some t => (fun x => Val.variant v.name (some x)) <$> deTyWith pathB t (.obj rest))
      (if v'.other then pure (.variant v'.name none) else
        match v'.payload with
        | none => pure (.variant v'.name none)
        | some t => (fun x => Val.variant v'.name (some x)) <$> deTyWith pathB' t (.obj rest)) := by
  rw [h.other, h.name]
  split
  · exact DRel.pure (Or.inl ⟨_, rfl, rfl⟩)
  · have hpl := h.payload
    cases hp0 : v.payload with
    | none =>
      cases hp1 : v'.payload with
      | none => exact DRel.pure (Or.inl ⟨_, rfl, rfl⟩)
      | some t' => simp [hp0, hp1, OptTyRen] at hpl
    | some t =>
      cases hp1 : v'.payload with
      | none => simp [hp0, hp1, OptTyRen] at hpl
      | some t' =>
        simp only [hp0, hp1, OptTyRen] at hpl
        refine DRel.map (deTyWith_rel hp hpl _) (fun a b hab => Or.inr ⟨_, _, _, rfl, rfl, ⟨v, hv, rfl, t, hp0⟩, ?_⟩)
        intro var hvar hname t2 ht2
        have := hwf var hvar v hv hname
        rw [ht2, hp0] at this
        cases this
        exact hab

theorem deTaggedWith_rel {pathB pathB' : String → Json → D Val} (hp : PathRel R e e' pathB pathB') {vs vs' : List RVariant}
    (hwf : SamePayload vs) (h : All2 (VariantRen R) vs vs') (buffered : Bool) (tag : String) (kvs : List (String × Json)) :
    DRel (TagRel R e e' vs) (deTaggedWith pathB buffered tag vs kvs) (deTaggedWith pathB' buffered tag vs' kvs) := by
  unfold deTaggedWith
  have hother : (vs.find? (·.other) = none ∧ vs'.find? (·.other) = none) ∨
      ∃ o o', vs.find? (·.other) = some o ∧ vs'.find? (·.other) = some o' ∧ o'.name = o.name := by
    rcases All2.find? (p := fun v : RVariant => v.other) (q := fun v : RVariant => v.other) h
        (fun a b _ hab => hab.other.symm) with hn | ⟨a, b, _, h1, h2, hr⟩
    · exact Or.inl hn
    · exact Or.inr ⟨a, b, h1, h2, hr.name⟩
  split
  · exact DRel.ofBad _
  · simp only
    split
    · rename_i name _
      rcases All2.find? (p := fun v : RVariant => !v.other && v.wire == name)
          (q := fun v : RVariant => !v.other && v.wire == name) h
          (fun a b _ hab => by rw [hab.other, vwire_ren hab]) with ⟨h1, h2⟩ | ⟨a, b, ha, h1, h2, hr⟩
      · simp only [h1, h2]
        rcases hother with ⟨h3, h4⟩ | ⟨o, o', h3, h4, ho⟩
        · simp only [h3, h4]; exact DRel.ofBad _
        · simp only [h3, h4, ho]; exact DRel.pure (Or.inl ⟨_, rfl, rfl⟩)
      · simp only [h1, h2]
        exact pick_rel hp hwf ha hr _
    · rename_i n _
      split
      · exact DRel.ofBad _
      · split
        · exact DRel.ofBad _
        · rcases All2.getElem? (All2.attach_mem h) n.toNat with ⟨h1, h2⟩ | ⟨a, b, h1, h2, ha, hr⟩
          · simp only [h1, h2]
            rcases hother with ⟨h3, h4⟩ | ⟨o, o', h3, h4, ho⟩
            · simp only [h3, h4]; exact DRel.ofBad _
            · simp only [h3, h4, ho]; exact DRel.pure (Or.inl ⟨_, rfl, rfl⟩)
          · simp only [h1, h2]
            exact pick_rel hp hwf ha hr _
    · exact DRel.ofBad _
  · exact DRel.ofBad _

end deBlocks3

/-! ## `Deserialize` commutes with the renaming -/

/-- well-formedness of the field lists: fields of a struct with the same Rust name have the same type, variants
    of an enum with the same name have the same payload (true of every module that compiles) -/
def ItemWF : Item → Prop
  | .struct _ _ _ fs => SameTy fs
  | .tagged _ _ _ _ vs => SamePayload vs
  | .oneOf _ _ _ vs => SamePayload vs
  | _ => True

instance (it : Item) : Decidable (ItemWF it) := by cases it <;> (simp only [ItemWF]; infer_instance)

def FieldsWF (e : Env) : Prop := ∀ it ∈ e.items, ItemWF it

instance (e : Env) : Decidable (FieldsWF e) := by unfold FieldsWF; infer_instance

theorem enum_de_find : ∀ {de de' : List (String × String)}, de.map (·.1) = de'.map (·.1) → ∀ s : String,
    (de.find? (·.1 == s) = none ∧ de'.find? (·.1 == s) = none) ∨
    ∃ x x', de.find? (·.1 == s) = some x ∧ de'.find? (·.1 == s) = some x' ∧ (x.2, x'.2) ∈ identPairs de de'
  | [], [], _, _ => Or.inl ⟨rfl, rfl⟩
  | [], _ :: _, h, _ => by simp at h
  | _ :: _, [], h, _ => by simp at h
  | x :: de, x' :: de', h, s => by
    simp only [List.map_cons, List.cons.injEq] at h
    cases hs : x.1 == s
    · have hs' : (x'.1 == s) = false := by rw [← h.1, hs]
      simp only [List.find?_cons, hs, hs']
      rcases enum_de_find h.2 s with hn | ⟨y, y', h1, h2, hm⟩
      · exact Or.inl hn
      · exact Or.inr ⟨y, y', h1, h2, by simp only [identPairs, List.map_cons, List.zip_cons_cons]; exact List.mem_cons_of_mem _ hm⟩
    · have hs' : (x'.1 == s) = true := by rw [← h.1, hs]
      exact Or.inr ⟨x, x', by simp [hs], by simp [hs'], by simp [identPairs]⟩

section deMain
variable {R : String → String → Prop} {e e' : Env}

theorem de_rename_fuel (H : EnvRen R e e') (hwf : FieldsWF e) : ∀ fuel,
    (∀ b, PathRel R e e' (dePath e b fuel) (dePath e' b fuel)) ∧ FlatRel R e e' (deFlat e fuel) (deFlat e' fuel) := by
  intro fuel
  induction fuel with
  | zero =>
    constructor
    · intro b p p' _ j; unfold dePath; exact DRel.ofUnmodelled _ _
    · intro t t' _ buf; unfold deFlat; exact DRel.ofUnmodelled _ _
  | succ n ih =>
    obtain ⟨ihP, ihF⟩ := ih
    constructor
    · intro b p p' hr j
      unfold dePath
      rw [dePrim_ren H hr]
      cases hprim : dePrim p j with
      | some r => exact dePrim_rel hprim
      | none =>
        simp only
        rcases find_ren H hr with ⟨h1, h2⟩ | ⟨it, it', hmem, h1, h2, hit⟩
        · simp only [h1, h2]
          rcases extern_ren H hr with ⟨h3, h4⟩ | ⟨k, t, k', t', h3, h4, ht⟩
          · simp only [h3, h4]; exact DRel.ofUnmodelled _ _
          · simp only [h3, h4]
            exact DRel.mono (fun a b hab => .extern h1 h3 hab) (deTyWith_rel (ihP b) ht j)
        · simp only [h1, h2]
          have hitwf := hwf it hmem
          cases hit with
          | alias hn ht => exact DRel.mono (fun a b hab => .alias h1 hab) (deTyWith_rel (ihP b) ht j)
          | struct hn hfs =>
            exact DRel.mono (fun a b ⟨_, _, ha, hb, hpw⟩ => by subst ha; subst hb; exact vrel_ofPW h1 hpw)
              (deStructWith_rel (ihP b) ihF hitwf hfs j)
          | unitStruct hn =>
            simp only
            split
            · exact DRel.pure (.plain rfl)
            · exact DRel.ofBad _
          | tagged hn hvs =>
            simp only
            cases j with
            | obj kvs =>
              refine DRel.mono ?_ (deTaggedWith_rel (ihP true) hitwf hvs b _ kvs)
              rintro a b (⟨name, rfl, rfl⟩ | ⟨name, pv, pv', rfl, rfl, hex, hpv⟩)
              · exact .taggedUnit h1
              · exact .tagged h1 hex hpv
            | arr xs => exact DRel.ofUnmodelled _ _
            | _ => exact DRel.ofBad _
          | gqlEnum hn hen =>
            simp only
            cases j with
            | str s =>
              simp only
              rcases enum_de_find hen.keys s with ⟨h3, h4⟩ | ⟨x, x', h3, h4, hm⟩
              · simp only [h3, h4]; exact DRel.pure (.leaf rfl)
              · simp only [h3, h4]; exact DRel.pure (.enum h1 hr h2 hm)
            | _ => exact DRel.ofBad _
          | oneOf hn hvs =>
            simp only
            split
            · rename_i k v
              rcases All2.find? (p := fun v : RVariant => v.wire == k) (q := fun v : RVariant => v.wire == k)
                  (All2.attach_mem hvs) (fun a b _ hab => by rw [vwire_ren hab.2]) with ⟨h3, h4⟩ | ⟨va, vb, _, h3, h4, ha, hab⟩
              · simp only [h3, h4]; exact DRel.ofBad _
              · simp only [h3, h4]
                have hpl := hab.payload
                cases hp0 : va.payload with
                | none =>
                  cases hp1 : vb.payload with
                  | none => exact DRel.ofUnmodelled _ _
                  | some t' => simp [hp0, hp1, OptTyRen] at hpl
                | some t =>
                  cases hp1 : vb.payload with
                  | none => simp [hp0, hp1, OptTyRen] at hpl
                  | some t' =>
                    simp only [hp0, hp1, OptTyRen, hab.name] at hpl ⊢
                    refine DRel.map (deTyWith_rel (ihP b) hpl _) (fun x y hxy => .oneOf h1 ⟨va, ha, rfl, t, hp0⟩ ?_)
                    intro var hvar hname t2 ht2
                    have := hitwf var hvar va ha hname
                    rw [ht2, hp0] at this
                    cases this
                    exact hxy
            · exact DRel.ofBad _
          | defaults hn => exact DRel.ofUnmodelled _ _
    · intro t t' ht buf
      cases t with
      | opt t => obtain ⟨u, rfl, _⟩ := tyRen_opt ht; unfold deFlat; exact DRel.ofUnmodelled _ _
      | vec t => obtain ⟨u, rfl, _⟩ := tyRen_vec ht; unfold deFlat; exact DRel.ofUnmodelled _ _
      | box t =>
        obtain ⟨u, rfl, hu⟩ := tyRen_box ht
        unfold deFlat
        exact DRel.mono (fun a b hab => ⟨.box hab.1, hab.2⟩) (ihF t u hu buf)
      | path p =>
        obtain ⟨p', rfl, hr⟩ := tyRen_path ht
        unfold deFlat
        rcases find_ren H hr with ⟨h1, h2⟩ | ⟨it, it', hmem, h1, h2, hit⟩
        · simp only [h1, h2]; exact DRel.ofUnmodelled _ _
        · simp only [h1, h2]
          have hitwf := hwf it hmem
          cases hit with
          | alias hn ht => exact DRel.mono (fun a b hab => ⟨.alias h1 hab.1, hab.2⟩) (ihF _ _ ht buf)
          | struct hn hfs =>
            simp only
            have hany := (All2.any_eq hfs (fun a b hab => hab.flatten.symm) : List.any _ (·.flatten) = List.any _ (·.flatten))
            rw [← hany]
            split
            · apply DRel.bind (deStructMapWith_rel (ihP true) ihF hitwf hfs (present buf))
              rintro a b ⟨_, _, rfl, rfl, hpw⟩
              exact DRel.pure ⟨vrel_ofPW h1 hpw, rfl⟩
            · have hw := All2.map_eq hfs (fun a b hab => (wire_ren hab).symm)
              rw [← hw]
              apply DRel.bind (deOwnWith_rel (ihP true) hitwf hfs (fun _ h => h) _)
              intro own own' hown
              exact DRel.pure ⟨vrel_ofPW h1 hown, rfl⟩
          | tagged hn hvs =>
            simp only
            apply DRel.bind (deTaggedWith_rel (ihP true) hitwf hvs true _ (present buf))
            rintro a b (⟨name, rfl, rfl⟩ | ⟨name, pv, pv', rfl, rfl, hex, hpv⟩)
            · exact DRel.pure ⟨.taggedUnit h1, rfl⟩
            · exact DRel.pure ⟨.tagged h1 hex hpv, rfl⟩
          | unitStruct hn => exact DRel.ofUnmodelled _ _
          | gqlEnum hn hen => exact DRel.ofUnmodelled _ _
          | oneOf hn hvs => exact DRel.ofUnmodelled _ _
          | defaults hn => exact DRel.ofUnmodelled _ _

end deMain

/-! ## `Serialize` commutes with the renaming -/

section serBlocks
variable {R : String → String → Prop} {e e' : Env}

theorem vrel_serPrim {t : RTy} {v v' : Val} (h : VRel R e e' t v v') : serPrim v' = serPrim v := by
  induction h with
  | plain _ => rfl
  | some _ _ => rfl
  | list _ _ _ => rfl
  | box _ ih => exact ih
  | leaf _ => rfl
  | alias _ _ ih => exact ih
  | extern _ _ _ ih => exact ih
  | record _ _ _ _ _ => rfl
  | taggedUnit _ => rfl
  | tagged _ _ _ _ => rfl
  | oneOf _ _ _ _ => rfl
  | enum _ _ _ _ => rfl

theorem vrel_isUnit {t : RTy} {v v' : Val} (h : VRel R e e' t v v') : v'.isUnit = v.isUnit := by
  induction h with
  | plain _ => rfl
  | some _ _ => rfl
  | list _ _ _ => rfl
  | box _ ih => exact ih
  | leaf _ => rfl
  | alias _ _ ih => exact ih
  | extern _ _ _ ih => exact ih
  | record _ _ _ _ _ => rfl
  | taggedUnit _ => rfl
  | tagged _ _ _ _ => rfl
  | oneOf _ _ _ _ => rfl
  | enum _ _ _ _ => rfl

theorem idVals_mem : ∀ {vs : List Val}, idVals vs = true → ∀ v ∈ vs, idVal v = true
  | [], _, v, h => by cases h
  | x :: xs, h, v, hv => by
    simp only [idVals, Bool.and_eq_true] at h
    rcases List.mem_cons.mp hv with rfl | hv
    · exact h.1
    · exact idVals_mem h.2 v hv

/-- two "write a named type" functions that agree up to the renaming -/
abbrev SPathRel (R : String → String → Prop) (e e' : Env) (path path' : String → Val → D Json) : Prop :=
  ∀ p p', R p p' → ∀ v v', VRel R e e' (.path p) v v' → DRel Eq (path p v) (path' p' v')

theorem all2_eq {α} : ∀ {a b : List α}, All2 Eq a b → a = b
  | _, _, .nil => rfl
  | _, _, .cons h t => by rw [h, all2_eq t]

theorem all2_plain {t : RTy} : ∀ {vs : List Val}, idVals vs = true → All2 (VRel R e e' t) vs vs
  | [], _ => .nil
  | x :: xs, h => by
    simp only [idVals, Bool.and_eq_true] at h
    exact .cons (.plain h.1) (all2_plain h.2)

theorem serTyWith_rel {path path' : String → Val → D Json} (hp : SPathRel R e e' path path') :
    ∀ {t t' : RTy}, TyRen R t t' → ∀ {v v'}, VRel R e e' t v v' → DRel Eq (serTyWith path t v) (serTyWith path' t' v') := by
  intro t
  induction t with
  | path p => intro t' h v v' hv; obtain ⟨p', rfl, hr⟩ := tyRen_path h; exact hp p p' hr v v' hv
  | opt t ih =>
    intro t' h v v' hv; obtain ⟨u, rfl, hu⟩ := tyRen_opt h
    cases hv with
    | plain hid =>
      cases v <;> simp only [serTyWith] <;> try exact DRel.ofUnmodelled _ _
      · exact DRel.pure rfl
      · exact ih hu (.plain (by simpa [idVal] using hid))
    | some hx => simp only [serTyWith]; exact ih hu hx
  | vec t ih =>
    intro t' h v v' hv; obtain ⟨u, rfl, hu⟩ := tyRen_vec h
    cases hv with
    | plain hid =>
      cases v <;> simp only [serTyWith] <;> try exact DRel.ofUnmodelled _ _
      rename_i vs
      exact DRel.map (DRel.mapM (all2_plain (by simpa [idVal] using hid)) (fun a b hab => ih hu hab)) (fun a b hab => by rw [all2_eq hab])
    | list hl hx =>
      simp only [serTyWith]
      exact DRel.map (DRel.mapM (all2_of_getElem hl hx) (fun a b hab => ih hu hab)) (fun a b hab => by rw [all2_eq hab])
  | box t ih =>
    intro t' h v v' hv; obtain ⟨u, rfl, hu⟩ := tyRen_box h
    simp only [serTyWith]
    cases hv with
    | plain hid => exact ih hu (.plain hid)
    | box hx => exact ih hu hx

theorem serFieldsWith_rel {path path' : String → Val → D Json} (hp : SPathRel R e e' path path') {fields : List RField}
    {vals vals' : List (String × Val)} (hpw : PW R e e' fields vals vals') :
    ∀ {fs fs' : List RField}, All2 (FieldRen R) fs fs' → (∀ f ∈ fs, f ∈ fields) →
      DRel Eq (serFieldsWith path fs vals) (serFieldsWith path' fs' vals')
  | _, _, .nil, _ => by unfold serFieldsWith; exact DRel.pure rfl
  | _, _, .cons (a := f) (b := f') (as := fs) (bs := fs') h t, hsub => by
    unfold serFieldsWith
    apply DRel.bind (serFieldsWith_rel hp hpw t (fun g hg => hsub g (by simp [hg]))); intro rest rest' hrest
    subst hrest
    rw [h.rust]
    rcases pw_find hpw f.rust with ⟨h1, h2⟩ | ⟨kv, kv', h1, h2, hk, _, hv⟩
    · simp only [h1, h2]; exact DRel.ofUnmodelled _ _
    · simp only [h1, h2]
      have hkey : f.rust = kv.1 := by
        have := List.find?_some h1
        simpa using (beq_iff_eq.mp this).symm
      have hvv := hv f (hsub f (by simp)) hkey
      rw [h.flatten, h.skipNone, vrel_isUnit hvv, wire_ren h]
      split
      · apply DRel.bind (serTyWith_rel hp h.ty hvv); intro a b hab
        subst hab
        exact DRel.refl (fun _ => rfl) _
      · split
        · exact DRel.pure rfl
        · apply DRel.bind (serTyWith_rel hp h.ty hvv); intro a b hab
          subst hab
          exact DRel.pure rfl

end serBlocks

section serMain
variable {R : String → String → Prop} {e e' : Env}

/-! ### inversion of `VRel` at a named type, by the kind of item the name resolves to -/

theorem vrel_inv_alias {p n pub t v v'} (hf : e.find p = some (.alias n pub t)) (hs : serPrim v = none)
    (h : VRel R e e' (.path p) v v') : VRel R e e' t v v' := by
  cases h with
  | plain hid => exact .plain hid
  | leaf hj => rw [hs] at hj; cases hj
  | alias h1 hv => rw [hf] at h1; cases h1; exact hv
  | extern h1 _ _ => rw [hf] at h1; cases h1
  | record h1 _ _ _ => rw [hf] at h1; cases h1
  | taggedUnit h1 => rw [hf] at h1; cases h1
  | tagged h1 _ _ => rw [hf] at h1; cases h1
  | oneOf h1 _ _ => rw [hf] at h1; cases h1
  | enum h1 _ _ _ => rw [hf] at h1; cases h1

theorem vrel_inv_extern {p k t v v'} (hf : e.find p = none) (hx : e.externs.find? (·.1 == p) = some (k, t))
    (hs : serPrim v = none) (h : VRel R e e' (.path p) v v') : VRel R e e' t v v' := by
  cases h with
  | plain hid => exact .plain hid
  | leaf hj => rw [hs] at hj; cases hj
  | alias h1 hv => rw [hf] at h1; cases h1
  | extern h1 h2 hv => rw [hx] at h2; cases h2; exact hv
  | record h1 _ _ _ => rw [hf] at h1; cases h1
  | taggedUnit h1 => rw [hf] at h1; cases h1
  | tagged h1 _ _ => rw [hf] at h1; cases h1
  | oneOf h1 _ _ => rw [hf] at h1; cases h1
  | enum h1 _ _ _ => rw [hf] at h1; cases h1

theorem vrel_inv_struct {p n d s fields v v'} (hf : e.find p = some (.struct n d s fields)) (hs : serPrim v = none)
    (h : VRel R e e' (.path p) v v') :
    (v' = v ∧ idVal v = true) ∨ ∃ vals vals', v = .record vals ∧ v' = .record vals' ∧ PW R e e' fields vals vals' := by
  cases h with
  | plain hid => exact Or.inl ⟨rfl, hid⟩
  | leaf hj => rw [hs] at hj; cases hj
  | alias h1 hv => rw [hf] at h1; cases h1
  | extern h1 _ _ => rw [hf] at h1; cases h1
  | record h1 hk hex hv => rw [hf] at h1; cases h1; exact Or.inr ⟨_, _, rfl, rfl, pw_ofRecord hk hex hv⟩
  | taggedUnit h1 => rw [hf] at h1; cases h1
  | tagged h1 _ _ => rw [hf] at h1; cases h1
  | oneOf h1 _ _ => rw [hf] at h1; cases h1
  | enum h1 _ _ _ => rw [hf] at h1; cases h1

theorem vrel_inv_tagged {p n d s tag vs v v'} (hf : e.find p = some (.tagged n d s tag vs)) (hs : serPrim v = none)
    (h : VRel R e e' (.path p) v v') : (v' = v ∧ idVal v = true) ∨ TagRel R e e' vs v v' := by
  cases h with
  | plain hid => exact Or.inl ⟨rfl, hid⟩
  | leaf hj => rw [hs] at hj; cases hj
  | alias h1 hv => rw [hf] at h1; cases h1
  | extern h1 _ _ => rw [hf] at h1; cases h1
  | record h1 _ _ _ => rw [hf] at h1; cases h1
  | taggedUnit h1 => exact Or.inr (Or.inl ⟨_, rfl, rfl⟩)
  | tagged h1 hex hv => rw [hf] at h1; cases h1; exact Or.inr (Or.inr ⟨_, _, _, rfl, rfl, hex, hv⟩)
  | oneOf h1 _ _ => rw [hf] at h1; cases h1
  | enum h1 _ _ _ => rw [hf] at h1; cases h1

theorem vrel_inv_oneOf {p n d s vs v v'} (hf : e.find p = some (.oneOf n d s vs)) (hs : serPrim v = none)
    (h : VRel R e e' (.path p) v v') :
    (v' = v ∧ idVal v = true) ∨ ∃ name pv pv', v = .variant name (some pv) ∧ v' = .variant name (some pv') ∧
      (∃ var ∈ vs, var.name = name ∧ ∃ t, var.payload = some t) ∧ ∀ var ∈ vs, var.name = name → ∀ t, var.payload = some t → VRel R e e' t pv pv' := by
  cases h with
  | plain hid => exact Or.inl ⟨rfl, hid⟩
  | leaf hj => rw [hs] at hj; cases hj
  | alias h1 hv => rw [hf] at h1; cases h1
  | extern h1 _ _ => rw [hf] at h1; cases h1
  | record h1 _ _ _ => rw [hf] at h1; cases h1
  | taggedUnit h1 => rw [hf] at h1; cases h1
  | tagged h1 _ hv => rw [hf] at h1; cases h1
  | oneOf h1 hex hv => rw [hf] at h1; cases h1; exact Or.inr ⟨_, _, _, rfl, rfl, hex, hv⟩
  | enum h1 _ _ _ => rw [hf] at h1; cases h1

theorem vrel_inv_enum (hb : Bij R) {p p' n d sp ids ser de n' d' sp' ids' ser' de' v v'}
    (hf : e.find p = some (.gqlEnum n d sp ids ser de)) (hr : R p p')
    (hf' : e'.find p' = some (.gqlEnum n' d' sp' ids' ser' de')) (hs : serPrim v = none)
    (h : VRel R e e' (.path p) v v') :
    (v' = v ∧ idVal v = true) ∨ ∃ a a', v = .variant a none ∧ v' = .variant a' none ∧ (a, a') ∈ identPairs de de' := by
  cases h with
  | plain hid => exact Or.inl ⟨rfl, hid⟩
  | leaf hj => rw [hs] at hj; cases hj
  | alias h1 hv => rw [hf] at h1; cases h1
  | extern h1 _ _ => rw [hf] at h1; cases h1
  | record h1 _ _ _ => rw [hf] at h1; cases h1
  | taggedUnit h1 => rw [hf] at h1; cases h1
  | tagged h1 _ hv => rw [hf] at h1; cases h1
  | oneOf h1 _ hv => rw [hf] at h1; cases h1
  | enum h1 hr2 h2 hm =>
    rw [hf] at h1; cases h1
    have := (hb _ _ _ _ hr hr2).mp rfl
    subst this
    rw [hf'] at h2; cases h2
    exact Or.inr ⟨_, _, rfl, rfl, hm⟩

theorem kernelEq_tail {x : String × String} {l : List (String × String)} (h : KernelEq (x :: l)) : KernelEq l :=
  fun a ha b hb => h a (by simp [ha]) b (by simp [hb])

/-- related identifiers are written as the same string -/
theorem enum_ser_find : ∀ {de de' : List (String × String)}, de.map (·.1) = de'.map (·.1) → KernelEq (identPairs de de') →
    ∀ {a a' : String}, (a, a') ∈ identPairs de de' →
    ∃ x x', (de.map Prod.swap).find? (·.1 == a) = some x ∧ (de'.map Prod.swap).find? (·.1 == a') = some x' ∧ x.2 = x'.2
  | [], _, _, _, _, _, hm => by simp [identPairs] at hm
  | _ :: _, [], _, _, _, _, hm => by simp [identPairs] at hm
  | x :: de, x' :: de', h, hk, a, a', hm => by
    simp only [List.map_cons, List.cons.injEq] at h
    have hk' : KernelEq ((x.2, x'.2) :: identPairs de de') := by simpa [identPairs] using hk
    have hm' : (a, a') ∈ (x.2, x'.2) :: identPairs de de' := by simpa [identPairs] using hm
    have hiff : x.2 = a ↔ x'.2 = a' := hk' (x.2, x'.2) (by simp) (a, a') hm'
    by_cases hxa : x.2 = a
    · have hxa' := hiff.mp hxa
      exact ⟨x.swap, x'.swap, by simp [hxa], by simp [hxa'], h.1⟩
    · have hxa' : ¬ x'.2 = a' := fun hc => hxa (hiff.mpr hc)
      have hmt : (a, a') ∈ identPairs de de' := by
        rcases List.mem_cons.mp hm' with heq | hmt
        · cases heq; exact absurd rfl hxa
        · exact hmt
      obtain ⟨y, y', h1, h2, h3⟩ := enum_ser_find h.2 (kernelEq_tail hk') hmt
      refine ⟨y, y', ?_, ?_, h3⟩
      · simp only [List.map_cons, List.find?_cons, Prod.fst_swap, beq_eq_false_iff_ne.mpr hxa]; exact h1
      · simp only [List.map_cons, List.find?_cons, Prod.fst_swap, beq_eq_false_iff_ne.mpr hxa']; exact h2

end serMain

section serMain2
variable {R : String → String → Prop} {e e' : Env}

theorem idVal_not_record {v : Val} (h : idVal v = true) : (∀ vals, v ≠ .record vals) ∧ (∀ n pl, v ≠ .variant n pl) := by
  cases v <;> simp [idVal] at h <;> exact ⟨fun _ => by simp, fun _ _ => by simp⟩

theorem ser_rename_fuel (H : EnvRen R e e') : ∀ fuel, SPathRel R e e' (serPath e fuel) (serPath e' fuel) := by
  intro fuel
  induction fuel with
  | zero => intro p p' _ v v' _; unfold serPath; exact DRel.ofUnmodelled _ _
  | succ n ih =>
    intro p p' hr v v' hv
    unfold serPath
    rw [vrel_serPrim hv]
    cases hs : serPrim v with
    | some j => exact DRel.pure rfl
    | none =>
      simp only
      rcases find_ren H hr with ⟨h1, h2⟩ | ⟨it, it', hmem, h1, h2, hit⟩
      · simp only [h1, h2]
        rcases extern_ren H hr with ⟨h3, h4⟩ | ⟨k, t, k', t', h3, h4, ht⟩
        · simp only [h3, h4]; exact DRel.ofUnmodelled _ _
        · simp only [h3, h4]
          exact serTyWith_rel ih ht (vrel_inv_extern h1 h3 hs hv)
      · simp only [h1, h2]
        cases hit with
        | alias hn ht => exact serTyWith_rel ih ht (vrel_inv_alias h1 hs hv)
        | struct hn hfs =>
          simp only
          rcases vrel_inv_struct h1 hs hv with ⟨rfl, hid⟩ | ⟨vals, vals', rfl, rfl, hpw⟩
          · have := (idVal_not_record hid).1
            cases v' <;> first | exact DRel.ofUnmodelled _ _ | exact absurd rfl (this _)
          · simp only
            exact DRel.map (serFieldsWith_rel ih hpw hfs (fun _ h => h)) (fun a b hab => by rw [hab])
        | unitStruct hn => exact DRel.pure rfl
        | tagged hn hvs =>
          simp only
          rcases vrel_inv_tagged h1 hs hv with ⟨rfl, hid⟩ | ⟨name, rfl, rfl⟩ | ⟨name, pv, pv', rfl, rfl, _, hpv⟩
          · have := (idVal_not_record hid).2
            cases v' <;> first | exact DRel.ofUnmodelled _ _ | exact absurd rfl (this _ _)
          · simp only
            rcases All2.find? (p := fun v : RVariant => v.name == name) (q := fun v : RVariant => v.name == name) hvs
                (fun a b _ hab => by rw [hab.name]) with ⟨h3, h4⟩ | ⟨a, b, _, h3, h4, hab⟩
            · simp only [h3, h4]; exact DRel.ofUnmodelled _ _
            · simp only [h3, h4, vwire_ren hab]; exact DRel.pure rfl
          · simp only
            rcases All2.find? (p := fun v : RVariant => v.name == name) (q := fun v : RVariant => v.name == name) hvs
                (fun a b _ hab => by rw [hab.name]) with ⟨h3, h4⟩ | ⟨a, b, ha, h3, h4, hab⟩
            · simp only [h3, h4]; exact DRel.ofUnmodelled _ _
            · simp only [h3, h4, vwire_ren hab]
              have hname : a.name = name := by simpa using List.find?_some h3
              have hpl := hab.payload
              cases hp0 : a.payload with
              | none =>
                cases hp1 : b.payload with
                | none => exact DRel.ofUnmodelled _ _
                | some t' => simp [hp0, hp1, OptTyRen] at hpl
              | some t =>
                cases hp1 : b.payload with
                | none => simp [hp0, hp1, OptTyRen] at hpl
                | some t' =>
                  simp only [hp0, hp1, OptTyRen] at hpl ⊢
                  apply DRel.bind (serTyWith_rel ih hpl (hpv a ha hname t hp0)); intro x y hxy
                  subst hxy
                  exact DRel.refl (fun _ => rfl) _
        | gqlEnum hn hen =>
          simp only
          rcases vrel_inv_enum H.bij h1 hr h2 hs hv with ⟨rfl, hid⟩ | ⟨a, a', rfl, rfl, hm⟩
          · have := (idVal_not_record hid).2
            cases v' <;> first | exact DRel.ofUnmodelled _ _ | exact absurd rfl (this _ _)
          · simp only
            obtain ⟨x, x', h3, h4, hx⟩ := enum_ser_find hen.keys hen.kernel hm
            rw [hen.ser, hen.ser', h3, h4]
            simp only [hx]
            exact DRel.pure rfl
        | oneOf hn hvs =>
          simp only
          rcases vrel_inv_oneOf h1 hs hv with ⟨rfl, hid⟩ | ⟨name, pv, pv', rfl, rfl, _, hpv⟩
          · have := (idVal_not_record hid).2
            cases v' <;> first | exact DRel.ofUnmodelled _ _ | exact absurd rfl (this _ _)
          · simp only
            rcases All2.find? (p := fun v : RVariant => v.name == name) (q := fun v : RVariant => v.name == name) hvs
                (fun a b _ hab => by rw [hab.name]) with ⟨h3, h4⟩ | ⟨a, b, ha, h3, h4, hab⟩
            · simp only [h3, h4]; exact DRel.ofUnmodelled _ _
            · simp only [h3, h4, vwire_ren hab]
              have hname : a.name = name := by simpa using List.find?_some h3
              have hpl := hab.payload
              cases hp0 : a.payload with
              | none =>
                cases hp1 : b.payload with
                | none => exact DRel.ofUnmodelled _ _
                | some t' => simp [hp0, hp1, OptTyRen] at hpl
              | some t =>
                cases hp1 : b.payload with
                | none => simp [hp0, hp1, OptTyRen] at hpl
                | some t' =>
                  simp only [hp0, hp1, OptTyRen] at hpl ⊢
                  apply DRel.bind (serTyWith_rel ih hpl (hpv a ha hname t hp0)); intro x y hxy
                  subst hxy
                  exact DRel.pure rfl
        | defaults hn => exact DRel.ofUnmodelled _ _

end serMain2

/-! ## top level: `Serde.de`, `Serde.ser`, `Serde.roundtrip` -/

section top
variable {R : String → String → Prop} {e e' : Env}

theorem valsSize_all2 : ∀ {vs vs' : List Val}, All2 (fun a b => valSize b = valSize a) vs vs' → valsSize vs' = valsSize vs
  | _, _, .nil => rfl
  | _, _, .cons h t => by simp only [valsSize, h, valsSize_all2 t]

theorem fieldsSize_all2 : ∀ {fs fs' : List (String × Val)}, All2 (fun a b => valSize b.2 = valSize a.2) fs fs' →
    fieldsSize fs' = fieldsSize fs
  | _, _, .nil => rfl
  | _, _, .cons (a := a) (b := b) h t => by
    obtain ⟨k, v⟩ := a
    obtain ⟨k', v'⟩ := b
    simp only at h
    simp only [fieldsSize, h, fieldsSize_all2 t]

/-- related values have the same size (hence get the same fuel) -/
theorem vrel_valSize {t : RTy} {v v' : Val} (h : VRel R e e' t v v') : valSize v' = valSize v := by
  induction h with
  | plain _ => rfl
  | some _ ih => simp only [valSize, ih]
  | list hl _ ih => simp only [valSize, valsSize_all2 (all2_of_getElem hl ih)]
  | box _ ih => exact ih
  | leaf _ => rfl
  | alias _ _ ih => exact ih
  | extern _ _ _ ih => exact ih
  | record _ hk hex _ ih =>
    simp only [valSize]
    rw [fieldsSize_all2 (all2_of_getElem (by simpa using congrArg List.length hk) (fun i kv kv' h1 h2 => ?_))]
    obtain ⟨f, hf, hfr⟩ := hex kv (List.mem_of_getElem? h1)
    exact ih i kv kv' h1 h2 f hf hfr
  | taggedUnit _ => rfl
  | tagged _ hex _ ih =>
    obtain ⟨var, hvar, hn, t, ht⟩ := hex
    simp only [valSize, ih var hvar hn t ht]
  | oneOf _ hex _ ih =>
    obtain ⟨var, hvar, hn, t, ht⟩ := hex
    simp only [valSize, ih var hvar hn t ht]
  | enum _ _ _ _ => rfl

theorem EnvRen.length_eq (H : EnvRen R e e') :
    e'.items.length + e'.externs.length = e.items.length + e.externs.length := by
  rw [All2.length_eq H.items, All2.length_eq H.externs]

/-- **`de_rename`**: reading at corresponding types of two renamed environments: same acceptance, same error
    (up to the text of `unmodelled`), `VRel`-related results; for every fuel and both content modes … -/
theorem deTy_rename (H : EnvRen R e e') (hwf : FieldsWF e) (b : Bool) (fuel : Nat) {t t' : RTy} (ht : TyRen R t t')
    (j : Json) : DRel (VRel R e e' t) (deTy e b fuel t j) (deTy e' b fuel t' j) :=
  deTyWith_rel ((de_rename_fuel H hwf fuel).1 b) ht j

theorem dePath_rename (H : EnvRen R e e') (hwf : FieldsWF e) (b : Bool) (fuel : Nat) {p p' : String} (hr : R p p')
    (j : Json) : DRel (VRel R e e' (.path p)) (dePath e b fuel p j) (dePath e' b fuel p' j) :=
  (de_rename_fuel H hwf fuel).1 b p p' hr j

theorem deFlat_rename (H : EnvRen R e e') (hwf : FieldsWF e) (fuel : Nat) {t t' : RTy} (ht : TyRen R t t')
    (buf : Buf) : DRel (fun a b => VRel R e e' t a.1 b.1 ∧ a.2 = b.2) (deFlat e fuel t buf) (deFlat e' fuel t' buf) :=
  (de_rename_fuel H hwf fuel).2 t t' ht buf

/-- … and at the top level -/
theorem de_rename (H : EnvRen R e e') (hwf : FieldsWF e) {t t' : RTy} (ht : TyRen R t t') (j : Json) :
    DRel (VRel R e e' t) (Serde.de e t j) (Serde.de e' t' j) := by
  unfold Serde.de deFuel
  rw [H.length_eq]
  exact deTy_rename H hwf false _ ht j

/-- **`ser_rename`**: related values are written to the same JSON (same error up to the text of `unmodelled`) -/
theorem serPath_rename (H : EnvRen R e e') (fuel : Nat) {p p' : String} (hr : R p p') {v v' : Val}
    (hv : VRel R e e' (.path p) v v') : DRel Eq (serPath e fuel p v) (serPath e' fuel p' v') :=
  ser_rename_fuel H fuel p p' hr v v' hv

theorem serTy_rename (H : EnvRen R e e') (fuel : Nat) {t t' : RTy} (ht : TyRen R t t') {v v' : Val}
    (hv : VRel R e e' t v v') : DRel Eq (serTy e fuel t v) (serTy e' fuel t' v') :=
  serTyWith_rel (ser_rename_fuel H fuel) ht hv

theorem ser_rename (H : EnvRen R e e') {t t' : RTy} (ht : TyRen R t t') {v v' : Val} (hv : VRel R e e' t v v') :
    DRel Eq (Serde.ser e t v) (Serde.ser e' t' v') := by
  unfold Serde.ser
  rw [H.length_eq, vrel_valSize hv]
  exact DRel.map (serTy_rename H _ ht hv) (fun a b hab => by rw [hab])

/-- **`roundtrip_rename`**: `to_value(from_value(j))` is the same in both environments -/
theorem roundtrip_rename (H : EnvRen R e e') (hwf : FieldsWF e) {t t' : RTy} (ht : TyRen R t t') (j : Json) :
    DRel Eq (Serde.roundtrip e t j) (Serde.roundtrip e' t' j) := by
  unfold Serde.roundtrip
  exact DRel.bind (de_rename H hwf ht j) (fun v v' hv => ser_rename H ht hv)

/-- spelled out: acceptance is the same -/
theorem de_rename_isOk (H : EnvRen R e e') (hwf : FieldsWF e) {t t' : RTy} (ht : TyRen R t t') (j : Json) :
    (Serde.de e t j).isOk = (Serde.de e' t' j).isOk := by
  have := de_rename H hwf ht j
  cases h1 : Serde.de e t j <;> cases h2 : Serde.de e' t' j <;> simp [h1, h2, DRel, Except.isOk, Except.toBool] at this ⊢

/-- spelled out: a successful round trip gives the same JSON -/
theorem roundtrip_rename_ok (H : EnvRen R e e') (hwf : FieldsWF e) {t t' : RTy} (ht : TyRen R t t') (j out : Json) :
    Serde.roundtrip e t j = .ok out ↔ Serde.roundtrip e' t' j = .ok out := by
  have := roundtrip_rename H hwf ht j
  cases h1 : Serde.roundtrip e t j <;> cases h2 : Serde.roundtrip e' t' j <;> simp [h1, h2, DRel] at this ⊢
  rw [this]

end top

end C09N
end GqlVerif
