import GqlVerif.Proofs.C01NestedAbsJ
/-!
# C01 end to end: nested fragments at GENERAL abstract positions (`NestedGenOp`), part A: class, closed form

`NestedAbsOp` (P46, `C01NestedAbs*`) allows, at a field of interface / union type, `__typename` plus (a)-spreads `...F` /
`... on T { ...F }` of NESTED fragments (`fragOkN`) — and nothing else.  `NestedGenOp` (stage 1) adds **interface-level
fields** (scalar / enum fields) in the same selection set: the generator then emits the struct with the own fields and the
flattened member `on`, the tagged enum `…On`, and per possible type what it emits in `NestedAbsOp`.

The selection set is split: `strip sub` (everything but the fields) is a selection set of `NestedAbsOp` (`absSubA`), so the
whole variant side is the one of P46, used as it is; the fields are fields of `VariantSpreadOp` (`sSel`).
-/
set_option linter.unusedSimpArgs false
set_option linter.unusedVariables false
set_option linter.unusedSectionVars false
set_option linter.unnecessarySimpa false

namespace GqlVerif
namespace C01NG
open Serde Spec C13 C03 Codegen C01 C01.E2E C01M C01N C01NA

/-! ## the class -/

/-! ## the class -/

/-- the selection set without its (interface-level) fields: `__typename` and the variant selections -/
def strip (sub : List Sel) : List Sel := sub.filter (fun x => !isFieldSel x)

/-- the interface-level fields of the selection set -/
def ownSels (sub : List Sel) : List Sel := sub.filter isFieldSel

/-- an interface-level field of the class: a scalar / enum field (as in `VariantSpreadOp`) -/
def leafSel (s : Schema) (q : Query) (o : Options) : Sel → Bool
  | .field a fid sub =>
    sSel s q o true (.field a fid sub) &&
      (match (s.fields[fid]?).map (fun sf => sf.ty.id) with
       | some (TypeId.scalar _) => true
       | some (TypeId.enum _) => true
       | _ => false)
  | _ => true

/-- a selection set on the abstract type `ty` of the general kind (stage 1): without its fields a selection set of
    `NestedAbsOp` (`absSubA`); the fields are scalar / enum fields with pairwise distinct response keys, none of them `__typename` -/
def absSubG (ok : TypeId → Nat → Bool) (s : Schema) (q : Query) (o : Options) (ty : TypeId) (sub : List Sel) : Bool :=
  absSubA ok s q o ty (strip sub) && sub.all (leafSel s q o) && EnumSpec.nodup ("__typename" :: fieldKeys s (ownSels sub))

/-- a field of interface / union type with a selection set of the general kind -/
def absFieldG (ok : TypeId → Nat → Bool) (s : Schema) (q : Query) (o : Options) (sf : StoredField) (sub : List Sel) : Bool :=
  wfQuals sf.ty.quals && !(sf.deprecation.isSome && o.deprecation == .deny) && absTyOk s sf.ty.id &&
    absSubG ok s q o sf.ty.id sub

mutual
  /-- one selection of an object-level selection set on `parent` -/
  def aSel (ok : TypeId → Nat → Bool) (s : Schema) (q : Query) (o : Options) (parent : TypeId) : Sel → Bool
    | .field a fid sub =>
      match s.fields[fid]? with
      | none => false
      | some sf =>
        match sf.ty.id with
        | .object i =>
          wfQuals sf.ty.quals && !(sf.deprecation.isSome && o.deprecation == .deny) && (s.objects[i]?).isSome &&
            (match sub with
             | [.spread g] => ok (.object i) g
             | _ => aSels ok s q o (.object i) sub)
        | _ => sSel s q o false (.field a fid sub) || absFieldG ok s q o sf sub
    | .typename => true
    | .spread g => ok parent g
    | .inline _ _ => false
  def aSels (ok : TypeId → Nat → Bool) (s : Schema) (q : Query) (o : Options) (parent : TypeId) : List Sel → Bool
    | [] => true
    | x :: xs => aSel ok s q o parent x && aSels ok s q o parent xs
end

def aBody (ok : TypeId → Nat → Bool) (s : Schema) (q : Query) (o : Options) (parent : TypeId) (sels : List Sel) : Bool :=
  match sels with
  | [.spread g] => ok parent g
  | _ => aSels ok s q o parent sels

/-- **the class `NestedGenOp`** (decidable): `NestedOp`, and nested fragments (`fragOkN`) as variant selections at
    abstract positions -/
def NestedGenOp (c : Ctx) (op : ROperation) : Bool :=
  c.o.normalization == .none && (c.s.objects[op.objectId]?).isSome &&
  aBody (fragOkN c.s c.q c.o c.q.fragments.length) c.s c.q c.o (.object op.objectId) op.sels

/-! ## closed form -/

/-- the items of an abstract position of the general kind: the struct with the interface-level fields and the flattened
    `on` + the tagged enum `…On` (or the tagged enum alone, without fields), then per selected possible type the item of
    `NestedAbsOp` -/
def absItemsG (c : Ctx) (name pfx : String) (ty : TypeId) (sub : List Sel) : List Item :=
  renderType c name (fieldsOfV c pfx sub) (variantsV c pfx ty (marks c.q (strip sub))) ++
    (vtsOfTy c.s ty).flatMap (fun vt => variantHeadA c pfx vt (strip sub))

mutual
  def itemsA (c : Ctx) (pfx : String) : Sel → List Item
    | .field a fid sub =>
      match c.s.fields[fid]? with
      | none => []
      | some sf =>
        match sf.ty.id with
        | .object _ =>
          (match sub with
           | [.spread g] => [aliasItem (pfx ++ c.cs.camel (a.getD sf.name)) (fragName c g) false]
           | _ => .struct (pfx ++ c.cs.camel (a.getD sf.name)) c.respDerives c.serdeCrate
                    (fieldsOfF c (pfx ++ c.cs.camel (a.getD sf.name)) sub) ::
                  itemsAs c (pfx ++ c.cs.camel (a.getD sf.name)) sub)
        | ty =>
          if sSel c.s c.q c.o false (.field a fid sub) then itemsS c pfx (.field a fid sub)
          else absItemsG c (pfx ++ c.cs.camel (a.getD sf.name)) (pfx ++ c.cs.camel (a.getD sf.name)) ty sub
    | _ => []
  def itemsAs (c : Ctx) (pfx : String) : List Sel → List Item
    | [] => []
    | x :: xs => itemsA c pfx x ++ itemsAs c pfx xs
end

/-- **closed form** of the items of an object-level selection set -/
def bodyItemsA (c : Ctx) (name pfx : String) (sels : List Sel) : List Item :=
  match sels with
  | [.spread g] => [aliasItem name (fragName c g) false]
  | _ => .struct name c.respDerives c.serdeCrate (fieldsOfF c pfx sels) :: itemsAs c pfx sels

/-! ## basic facts -/

section Basic
variable {ok : TypeId → Nat → Bool} {s : Schema} {q : Query} {o : Options}

theorem aSels_cons {p : TypeId} {x : Sel} {xs : List Sel}
    (h : aSels ok s q o p (x :: xs) = true) : aSel ok s q o p x = true ∧ aSels ok s q o p xs = true := by
  simpa [aSels] using h

theorem aSels_mem {p : TypeId} : ∀ {sels : List Sel}, aSels ok s q o p sels = true →
    ∀ x ∈ sels, aSel ok s q o p x = true
  | [], _, _, hx => by simp at hx
  | y :: ys, h, x, hx => by
    obtain ⟨h1, h2⟩ := aSels_cons h
    rcases List.mem_cons.mp hx with rfl | hx'
    · exact h1
    · exact aSels_mem h2 x hx'

theorem aBody_not_lone {p : TypeId} {sels : List Sel}
    (h : ∀ g, sels ≠ [Sel.spread g]) : aBody ok s q o p sels = aSels ok s q o p sels := by
  unfold aBody
  split
  · rename_i g; exact absurd rfl (h g)
  · rfl

theorem aBody_lone {p : TypeId} {g : Nat} : aBody ok s q o p [Sel.spread g] = ok p g := rfl

theorem bodyItemsA_not_lone (c : Ctx) (name pfx : String) {sels : List Sel} (h : ∀ g, sels ≠ [Sel.spread g]) :
    bodyItemsA c name pfx sels =
      .struct name c.respDerives c.serdeCrate (fieldsOfF c pfx sels) :: itemsAs c pfx sels := by
  unfold bodyItemsA
  split
  · rename_i g; exact absurd rfl (h g)
  · rfl

theorem aSel_obj {p : TypeId} {a : Option String} {fid : Nat} {sub : List Sel}
    {sf : StoredField} {i : Nat} (hsf : s.fields[fid]? = some sf) (hid : sf.ty.id = .object i)
    (h : aSel ok s q o p (.field a fid sub) = true) :
    wfQuals sf.ty.quals = true ∧ (sf.deprecation.isSome && o.deprecation == .deny) = false ∧
      (s.objects[i]?).isSome = true ∧ aBody ok s q o (.object i) sub = true := by
  rw [aSel] at h
  simp only [hsf, hid, Bool.and_eq_true] at h
  obtain ⟨⟨⟨hw, hdep⟩, hobj⟩, hb⟩ := h
  refine ⟨hw, ?_, hobj, hb⟩
  cases hd : (sf.deprecation.isSome && o.deprecation == .deny) with
  | false => rfl
  | true => simp [hd] at hdep

/-- a field of the class that is not object-typed: a field of `VariantSpreadOp`, or of the new kind -/
theorem aSel_nonobj {p : TypeId} {a : Option String} {fid : Nat} {sub : List Sel}
    {sf : StoredField} (hsf : s.fields[fid]? = some sf) (hno : ∀ i, sf.ty.id ≠ .object i)
    (h : aSel ok s q o p (.field a fid sub) = true) :
    sSel s q o false (.field a fid sub) = true ∨
      (sSel s q o false (.field a fid sub) = false ∧ absFieldG ok s q o sf sub = true) := by
  rw [aSel] at h
  simp only [hsf] at h
  have h' : (sSel s q o false (.field a fid sub) || absFieldG ok s q o sf sub) = true := by
    cases hid : sf.ty.id with
    | object i => exact absurd hid (hno i)
    | scalar k => simpa [hid] using h
    | «enum» k => simpa [hid] using h
    | interface k => simpa [hid] using h
    | union k => simpa [hid] using h
    | input k => simpa [hid] using h
  cases hs : sSel s q o false (.field a fid sub) with
  | true => exact .inl rfl
  | false => rw [hs] at h'; exact .inr ⟨rfl, by simpa using h'⟩

theorem aSel_field_some {p : TypeId} {a : Option String} {fid : Nat} {sub : List Sel}
    (h : aSel ok s q o p (.field a fid sub) = true) : ∃ sf, s.fields[fid]? = some sf := by
  rw [aSel] at h
  cases hsf : s.fields[fid]? with
  | none => simp [hsf] at h
  | some sf => exact ⟨sf, rfl⟩

theorem absFieldG_parts {sf : StoredField} {sub : List Sel} (h : absFieldG ok s q o sf sub = true) :
    wfQuals sf.ty.quals = true ∧ (sf.deprecation.isSome && o.deprecation == .deny) = false ∧
      absHyp s sf.ty.id ∧ absSubG ok s q o sf.ty.id sub = true := by
  simp only [absFieldG, Bool.and_eq_true] at h
  obtain ⟨⟨⟨hw, hdep⟩, hty⟩, hsub⟩ := h
  refine ⟨hw, ?_, absTyOk_absHyp hty, hsub⟩
  cases hd : (sf.deprecation.isSome && o.deprecation == .deny) with
  | false => rfl
  | true => simp [hd] at hdep

end Basic
/-! ## the selection set of a position of the general kind -/

/-- what `absSubG` says, as propositions -/
structure SpecialGen (ok : TypeId → Nat → Bool) (s : Schema) (q : Query) (o : Options) (ty : TypeId) (sub : List Sel) :
    Prop where
  abs : SpecialAbs ok s q o ty (strip sub)
  leaf : ∀ x ∈ sub, leafSel s q o x = true
  nd : EnumSpec.nodup ("__typename" :: fieldKeys s (ownSels sub)) = true

theorem absSubG_parts {ok : TypeId → Nat → Bool} {s : Schema} {q : Query} {o : Options} {ty : TypeId} {sub : List Sel}
    (h : absSubG ok s q o ty sub = true) : SpecialGen ok s q o ty sub := by
  simp only [absSubG, Bool.and_eq_true, List.all_eq_true] at h
  exact ⟨absSubA_parts h.1.1, h.1.2, h.2⟩

theorem mem_strip {sub : List Sel} {x : Sel} : x ∈ strip sub ↔ x ∈ sub ∧ isFieldSel x = false := by
  simp [strip, List.mem_filter]

theorem strip_length_le (sub : List Sel) : (strip sub).length ≤ sub.length := List.length_filter_le _ _

theorem strip_cons_field (a : Option String) (fid : Nat) (sub' : List Sel) (xs : List Sel) :
    strip (Sel.field a fid sub' :: xs) = strip xs := by
  simp [strip, List.filter_cons, isFieldSel]

theorem strip_cons_other {x : Sel} (h : isFieldSel x = false) (xs : List Sel) : strip (x :: xs) = x :: strip xs := by
  simp [strip, List.filter_cons, h]

/-- a selection set without fields is its own `strip` -/
theorem strip_eq_self {sub : List Sel} (h : ∀ x ∈ sub, isFieldSel x = false) : strip sub = sub := by
  unfold strip
  rw [List.filter_eq_self]
  intro x hx
  simp [h x hx]

theorem vselsOfS_strip (q : Query) (ty : TypeId) : ∀ (sub : List Sel), vselsOfS q ty (strip sub) = vselsOfS q ty sub
  | [] => rfl
  | x :: xs => by
    have ih := vselsOfS_strip q ty xs
    cases x with
    | field a fid sub' =>
      rw [strip_cons_field, ih]
      simp [vselsOfS, vselOfS, List.filterMap_cons]
    | spread g => rw [strip_cons_other rfl]; unfold vselsOfS at ih ⊢; rw [List.filterMap_cons, List.filterMap_cons, ih]
    | inline t sub' => rw [strip_cons_other rfl]; unfold vselsOfS at ih ⊢; rw [List.filterMap_cons, List.filterMap_cons, ih]
    | typename => rw [strip_cons_other rfl]; unfold vselsOfS at ih ⊢; rw [List.filterMap_cons, List.filterMap_cons, ih]

theorem SpecialGen.ne_nil {ok : TypeId → Nat → Bool} {s : Schema} {q : Query} {o : Options} {ty : TypeId} {sub : List Sel}
    (h : SpecialGen ok s q o ty sub) : sub ≠ [] := by
  intro hs
  have := h.abs.tn
  rw [hs] at this
  simp [strip] at this

theorem SpecialGen.tn {ok : TypeId → Nat → Bool} {s : Schema} {q : Query} {o : Options} {ty : TypeId} {sub : List Sel}
    (h : SpecialGen ok s q o ty sub) : sub.any isTypename = true := by
  have := h.abs.tn
  simp only [List.any_eq_true] at this ⊢
  obtain ⟨x, hx, hxt⟩ := this
  exact ⟨x, (mem_strip.mp hx).1, hxt⟩

/-- what `leafSel` says of a field -/
theorem leafSel_field {s : Schema} {q : Query} {o : Options} {a : Option String} {fid : Nat} {sub' : List Sel}
    (h : leafSel s q o (.field a fid sub') = true) :
    ∃ sf, s.fields[fid]? = some sf ∧ wfQuals sf.ty.quals = true ∧
      (sf.deprecation.isSome && o.deprecation == .deny) = false ∧ sub' = [] ∧
      ((∃ k sn, sf.ty.id = .scalar k ∧ s.scalars[k]? = some sn) ∨ (∃ k en, sf.ty.id = .enum k ∧ s.enums[k]? = some en)) := by
  simp only [leafSel, Bool.and_eq_true] at h
  obtain ⟨hs, hl⟩ := h
  rw [sSel] at hs
  cases hsf : s.fields[fid]? with
  | none => simp [hsf] at hs
  | some sf =>
    simp only [hsf, Bool.and_eq_true, Option.map_some] at hs hl
    obtain ⟨⟨hw, hdep⟩, hty⟩ := hs
    have hdep' : (sf.deprecation.isSome && o.deprecation == .deny) = false := by
      cases hd : (sf.deprecation.isSome && o.deprecation == .deny) with
      | false => rfl
      | true => simp [hd] at hdep
    refine ⟨sf, rfl, hw, hdep', ?_⟩
    cases hid : sf.ty.id with
    | scalar k =>
      simp only [hid, Bool.and_eq_true, List.isEmpty_iff] at hty
      cases hk : s.scalars[k]? with
      | none => simp [hk] at hty
      | some sn => exact ⟨hty.2, .inl ⟨k, sn, rfl, hk⟩⟩
    | «enum» k =>
      simp only [hid, Bool.and_eq_true, List.isEmpty_iff] at hty
      cases hk : s.enums[k]? with
      | none => simp [hk] at hty
      | some en => exact ⟨hty.2, .inr ⟨k, en, rfl, hk⟩⟩
    | object k => simp [hid] at hl
    | interface k => simp [hid] at hl
    | union k => simp [hid] at hl
    | input k => simp [hid] at hl

/-! ## Theorem 1: the items of an abstract position of the general kind -/

section CalcAbs
variable (c : Ctx) (hn : c.o.normalization = .none) (ok : TypeId → Nat → Bool) (hok : OkSpec c.q ok)

include hn in
/-- the field loop: the interface-level fields, no items -/
theorem calcFields_specialG (pfx : String) (ty : TypeId) : ∀ (sub : List Sel) (fuel : Nat), sub.length + 1 ≤ fuel →
    (∀ x ∈ sub, leafSel c.s c.q c.o x = true) →
    (∀ g, Sel.spread g ∈ sub → ∃ f, c.q.fragments[g]? = some f ∧ f.on ≠ ty) →
    calcFields c fuel pfx ty sub = .ok (fieldsOfV c pfx sub, [])
  | [], fuel, hf, _, _ => by
    obtain ⟨f, rfl⟩ : ∃ f, fuel = f + 1 := ⟨fuel - 1, by omega⟩
    rw [calcFields.eq_2 _ _ _ _ (by omega)]; rfl
  | x :: xs, fuel, hf, hlf, hsp => by
    simp only [List.length_cons] at hf
    obtain ⟨f, rfl⟩ : ∃ f, fuel = f + 1 := ⟨fuel - 1, by omega⟩
    have ih := calcFields_specialG pfx ty xs f (by omega) (fun y hy => hlf y (List.mem_cons_of_mem _ hy))
      (fun g hg => hsp g (List.mem_cons_of_mem _ hg))
    cases x with
    | field a fid sub' =>
      obtain ⟨sf, hsf, hw, hdep', _, hty⟩ := leafSel_field (hlf _ (List.mem_cons_self))
      rw [calcFields.eq_3]
      simp only [getField_of hsf, bind, Except.bind]
      rcases hty with ⟨k, sn, hid, hk⟩ | ⟨k, en, hid, hk⟩
      · simp only [hid, getScalar_of hk, hn, C02.fieldType_none, renderField_tree c _ _ _ _ hw hdep', ih,
          pure, Except.pure]
        simp [fieldsOfV, fieldOfSelV, hsf, hid, leafNameV, hk]
      · simp only [hid, getEnum_of hk, hn, C02.fieldType_none, renderField_tree c _ _ _ _ hw hdep', ih,
          pure, Except.pure]
        simp [fieldsOfV, fieldOfSelV, hsf, hid, leafNameV, hk]
    | spread g =>
      obtain ⟨fr, hfr, hne⟩ := hsp g (List.mem_cons_self)
      have hne' : (fr.on != ty) = true := by simpa using hne
      rw [calcFields.eq_4]
      simp only [getFragment_of hfr, bind, Except.bind, ih, hne', ↓reduceIte, pure, Except.pure]
      rw [fieldsOfV_cons_none c pfx _ xs rfl]
    | inline t sub' =>
      rw [calcFields.eq_5 _ _ _ _ _ _ (by simp) (by simp), ih, fieldsOfV_cons_none c pfx _ xs rfl]
    | typename =>
      rw [calcFields.eq_5 _ _ _ _ _ _ (by simp) (by simp), ih, fieldsOfV_cons_none c pfx _ xs rfl]

include hn hok in
/-- **the items of an abstract position of the general kind** -/
theorem calcSelection_specialG (name pfx : String) (ty : TypeId) (sub : List Sel) (hty : absHyp c.s ty)
    (h : SpecialGen ok c.s c.q c.o ty sub) (fuel : Nat) (hf : (vtsOfTy c.s ty).length + sub.length + 5 ≤ fuel) :
    calcSelection c fuel name pfx ty sub = .ok (absItemsG c name pfx ty sub) := by
  obtain ⟨f, rfl⟩ : ∃ f, fuel = f + 1 := ⟨fuel - 1, by omega⟩
  have hns : ∀ g, sub = [Sel.spread g] → False := by
    intro g hg
    have := h.tn
    subst hg
    simp [isTypename] at this
  rw [calcSelection.eq_3 _ _ _ _ _ _ hns]
  have hv : variantsOf c.s ty = .ok (some (vtsOfTy c.s ty)) := by
    apply variantsOf_abs
    cases ty <;> simp only [absHyp] at hty ⊢ <;> first | trivial | exact hty
  have hsp : ∀ g, Sel.spread g ∈ sub → ∃ fr, c.q.fragments[g]? = some fr ∧ fr.on ≠ ty :=
    fun g hg => h.abs.spread hok hty (mem_strip.mpr ⟨hg, rfl⟩)
  have hfm := filterMapM_variantSelS c.q ty sub (fun g hg => (hsp g hg).imp fun _ hx => hx.1)
  have hsl := strip_length_le sub
  have hvar := calcVariants_special c ok hok name pfx ty (strip sub) hty h.abs (vtsOfTy c.s ty) f (by omega) (fun _ ht => ht)
  rw [vselsOfS_strip] at hvar
  have hfields := calcFields_specialG c hn pfx ty sub f (by omega) h.leaf hsp
  simp only [hv, bind, Except.bind, pure, Except.pure, hfm, hvar, hfields]
  simp [absItemsG, variantsV, otherVariants]

end CalcAbs

/-! ## Theorem 1 for `NestedGenOp` -/

section CalcA
variable (c : Ctx) (hn : c.o.normalization = .none) (N M : Nat) (ok : TypeId → Nat → Bool) (hok : OkSpec c.q ok)

def A1 (fuel : Nat) : Prop := ∀ name pfx i sels e, selsDepth sels ≤ e → selsSize sels ≤ N →
  C02.Sb N M e ≤ fuel → aBody ok c.s c.q c.o (.object i) sels = true →
  calcSelection c fuel name pfx (.object i) sels = .ok (bodyItemsA c name pfx sels)
def A4 (fuel : Nat) : Prop := ∀ pfx i sels e, selsDepth sels ≤ e → selsSize sels ≤ N →
  C02.Fneed N M e sels.length ≤ fuel → aSels ok c.s c.q c.o (.object i) sels = true →
  calcFields c fuel pfx (.object i) sels = .ok (fieldsOfF c pfx sels, itemsAs c pfx sels)

include hok in
theorem stepA1 (f : Nat) (H4 : A4 c N M ok f) : A1 c N M ok (f + 1) := by
  intro name pfx i sels e hD hS hF ht
  by_cases hsp : ∃ g, sels = [Sel.spread g]
  · obtain ⟨g, rfl⟩ := hsp
    rw [calcSelection.eq_2]
    have hokg : ok (.object i) g = true := ht
    obtain ⟨fr, hfr, _, _, hrec⟩ := hok _ _ hokg
    simp only [getFragment_of hfr, bind, Except.bind, pure, Except.pure, hrec]
    simp [bodyItemsA, fragName, hfr]
  · have hsp' : ∀ g, sels ≠ [Sel.spread g] := fun g hg => hsp ⟨g, hg⟩
    rw [calcSelection.eq_3 _ _ _ _ _ _ (fun g hg => hsp ⟨g, hg⟩)]
    rw [aBody_not_lone hsp'] at ht
    have hv : variantsOf c.s (.object i) = .ok none := rfl
    have hL := C02.length_le_selsSize sels
    have hfields := H4 pfx i sels e hD hS (by
      cases e with
      | zero => simp only [C02.Fneed]; unfold C02.Sb at hF; omega
      | succ e' => simp only [C02.Fneed]; rw [C02.Sb_succ] at hF; omega) ht
    simp only [hv, bind, Except.bind, pure, Except.pure, hfields]
    rw [bodyItemsA_not_lone c name pfx hsp']
    simp [renderType]

theorem itemsA_old (pfx : String) (a : Option String) (fid : Nat) (sub : List Sel) (sf : StoredField)
    (hsf : c.s.fields[fid]? = some sf) (hno : ∀ i, sf.ty.id ≠ .object i)
    (hs : sSel c.s c.q c.o false (.field a fid sub) = true) :
    itemsA c pfx (.field a fid sub) = itemsS c pfx (.field a fid sub) := by
  rw [itemsA]
  simp only [hsf]
  cases hid : sf.ty.id with
  | object i => exact absurd hid (hno i)
  | scalar k => simp [hs]
  | «enum» k => simp [hs]
  | interface k => simp [hs]
  | union k => simp [hs]
  | input k => simp [hs]

theorem itemsA_new (pfx : String) (a : Option String) (fid : Nat) (sub : List Sel) (sf : StoredField)
    (hsf : c.s.fields[fid]? = some sf) (hno : ∀ i, sf.ty.id ≠ .object i)
    (hs : sSel c.s c.q c.o false (.field a fid sub) = false) :
    itemsA c pfx (.field a fid sub) =
      absItemsG c (pfx ++ c.cs.camel (a.getD sf.name)) (pfx ++ c.cs.camel (a.getD sf.name)) sf.ty.id sub := by
  rw [itemsA]
  simp only [hsf]
  cases hid : sf.ty.id with
  | object i => exact absurd hid (hno i)
  | scalar k => simp [hs]
  | «enum» k => simp [hs]
  | interface k => simp [hs]
  | union k => simp [hs]
  | input k => simp [hs]

include hn hok in
theorem stepA4 (hM : ∀ ty vts, variantsOf c.s ty = .ok (some vts) → vts.length ≤ M)
    (f : Nat) (H1 : A1 c N M ok f) (H4 : A4 c N M ok f) : A4 c N M ok (f + 1) := by
  intro pfx i sels e hD hS hF ht
  have H1a := (calc_variantspread c hn N M hM f).2.1
  cases sels with
  | nil => rw [calcFields.eq_2 _ _ _ _ (by omega)]; rfl
  | cons x rest =>
    cases e with
    | zero => have := C02.selsDepth_cons_pos x rest; omega
    | succ e =>
      obtain ⟨hx, hrest⟩ := aSels_cons ht
      rw [selsDepth.eq_2] at hD
      rw [selsSize.eq_2] at hS
      simp only [C02.Fneed, List.length_cons] at hF
      have hR := H4 pfx i rest (e + 1) (by omega) (by omega) (by simp only [C02.Fneed]; omega) hrest
      rw [fieldsOfF_cons, itemsAs]
      cases x with
      | field a fid sub =>
        rw [selDepth.eq_1] at hD
        rw [selSize.eq_1] at hS
        obtain ⟨sf, hsf⟩ := aSel_field_some hx
        by_cases hobj : ∃ j, sf.ty.id = .object j
        · rw [calcFields.eq_3]
          simp only [getField_of hsf, bind, Except.bind]
          obtain ⟨j, hid⟩ := hobj
          obtain ⟨hw, hdep', _, hbody⟩ := aSel_obj hsf hid hx
          have hS' := H1 (pfx ++ c.cs.camel (a.getD sf.name)) (pfx ++ c.cs.camel (a.getD sf.name)) j sub e
            (by omega) (by omega) (by omega) hbody
          simp only [hid, renderField_tree c _ _ _ _ hw hdep', hS', hR, pure, Except.pure]
          have hitems : itemsA c pfx (.field a fid sub) =
              bodyItemsA c (pfx ++ c.cs.camel (a.getD sf.name)) (pfx ++ c.cs.camel (a.getD sf.name)) sub := by
            rw [itemsA]; simp only [hsf, hid]; rfl
          rw [hitems]
          simp [fieldOfSelF, fieldOfSelV, hsf, hid, leafNameV]
        · have hno : ∀ j, sf.ty.id ≠ .object j := fun j h => hobj ⟨j, h⟩
          rcases aSel_nonobj hsf hno hx with hs | ⟨hs, hnew⟩
          · -- a field of `VariantSpreadOp`
            rw [calcFields.eq_3]
            simp only [getField_of hsf, bind, Except.bind]
            rw [itemsA_old c pfx a fid sub sf hsf hno hs]
            rw [sSel] at hs
            simp only [hsf, Bool.and_eq_true] at hs
            obtain ⟨⟨hw, hdep⟩, hty⟩ := hs
            have hdep' : (sf.deprecation.isSome && c.o.deprecation == .deny) = false := by
              cases hd : (sf.deprecation.isSome && c.o.deprecation == .deny) with
              | false => rfl
              | true => simp [hd] at hdep
            cases hid : sf.ty.id with
            | object j => exact absurd hid (hno j)
            | scalar k =>
              simp only [hid, Bool.and_eq_true] at hty
              cases hk : c.s.scalars[k]? with
              | none => simp [hk] at hty
              | some sn =>
                simp only [getScalar_of hk, hn, C02.fieldType_none, renderField_tree c _ _ _ _ hw hdep', hR,
                  pure, Except.pure]
                simp [itemsS, fieldOfSelF, fieldOfSelV, hsf, hid, leafNameV, hk]
            | «enum» k =>
              simp only [hid, Bool.and_eq_true] at hty
              cases hk : c.s.enums[k]? with
              | none => simp [hk] at hty
              | some en =>
                simp only [getEnum_of hk, hn, C02.fieldType_none, renderField_tree c _ _ _ _ hw hdep', hR,
                  pure, Except.pure]
                simp [itemsS, fieldOfSelF, fieldOfSelV, hsf, hid, leafNameV, hk]
            | interface k =>
              simp only [hid, Bool.and_eq_true] at hty
              have hS' := H1a (pfx ++ c.cs.camel (a.getD sf.name)) (pfx ++ c.cs.camel (a.getD sf.name)) (.interface k) sub e
                (by omega) (by omega) (by omega) hty.1.1 hty.1.2 hty.2
              simp only [renderField_tree c _ _ _ _ hw hdep', hS', hR, pure, Except.pure]
              simp [itemsS, fieldOfSelF, fieldOfSelV, hsf, hid, leafNameV, absItemsS, absItemsL]
            | union k =>
              simp only [hid, Bool.and_eq_true] at hty
              have hS' := H1a (pfx ++ c.cs.camel (a.getD sf.name)) (pfx ++ c.cs.camel (a.getD sf.name)) (.union k) sub e
                (by omega) (by omega) (by omega) hty.1.1 hty.1.2 hty.2
              simp only [renderField_tree c _ _ _ _ hw hdep', hS', hR, pure, Except.pure]
              simp [itemsS, fieldOfSelF, fieldOfSelV, hsf, hid, leafNameV, absItemsS, absItemsL]
            | input k => simp [hid] at hty
          · -- a field of abstract type of the new kind
            rw [calcFields.eq_3]
            simp only [getField_of hsf, bind, Except.bind]
            rw [itemsA_new c pfx a fid sub sf hsf hno hs]
            obtain ⟨hw, hdep', hty, hsubA⟩ := absFieldG_parts hnew
            have hsp := absSubG_parts hsubA
            have hvl : (vtsOfTy c.s sf.ty.id).length ≤ M := by
              apply hM sf.ty.id
              apply variantsOf_abs
              revert hty
              cases sf.ty.id <;> simp only [absHyp] <;> intro hty <;> first | trivial | exact hty
            have hsubpos : 1 ≤ selsDepth sub := by
              have := hsp.ne_nil
              cases sub with
              | nil => exact absurd rfl this
              | cons y ys => exact C02.selsDepth_cons_pos y ys
            have hL := C02.length_le_selsSize sub
            have hfuel : (vtsOfTy c.s sf.ty.id).length + sub.length + 5 ≤ f := by
              obtain ⟨e', rfl⟩ : ∃ e', e = e' + 1 := ⟨e - 1, by omega⟩
              rw [C02.Sb_succ] at hF
              unfold C02.Sb at hF
              omega
            have hS' := calcSelection_specialG c hn ok hok (pfx ++ c.cs.camel (a.getD sf.name))
              (pfx ++ c.cs.camel (a.getD sf.name)) sf.ty.id sub hty hsp f hfuel
            cases hid : sf.ty.id with
            | object j => exact absurd hid (hno j)
            | scalar k => rw [hid] at hty; exact absurd hty (by simp [absHyp])
            | «enum» k => rw [hid] at hty; exact absurd hty (by simp [absHyp])
            | input k => rw [hid] at hty; exact absurd hty (by simp [absHyp])
            | interface k =>
              rw [hid] at hS'
              simp only [renderField_tree c _ _ _ _ hw hdep', hS', hR, pure, Except.pure]
              simp [fieldOfSelF, fieldOfSelV, hsf, hid, leafNameV]
            | union k =>
              rw [hid] at hS'
              simp only [renderField_tree c _ _ _ _ hw hdep', hS', hR, pure, Except.pure]
              simp [fieldOfSelF, fieldOfSelV, hsf, hid, leafNameV]
      | spread g =>
        rw [calcFields.eq_4]
        have hokg : ok (.object i) g = true := by simpa [aSel] using hx
        obtain ⟨fr, hfr, hon, hname, hrec⟩ := hok _ _ hokg
        have hne : (fr.on != TypeId.object i) = false := by simp [hon]
        simp only [getFragment_of hfr, bind, Except.bind, hR, hne, Bool.false_eq_true, ↓reduceIte,
          hrec, renderField_spread c fr hname, pure, Except.pure]
        simp [fieldOfSelF, hfr, itemsA]
      | inline t sub => simp [aSel] at hx
      | typename =>
        rw [calcFields.eq_5 _ _ _ _ _ _ (by simp) (by simp), hR]
        simp [fieldOfSelF, fieldOfSelV, itemsA]


include hn hok in
theorem calc_nestedabs (hM : ∀ ty vts, variantsOf c.s ty = .ok (some vts) → vts.length ≤ M) :
    ∀ fuel, A1 c N M ok fuel ∧ A4 c N M ok fuel := by
  intro fuel
  induction fuel with
  | zero =>
    refine ⟨?_, ?_⟩
    · intro _ _ _ _ e _ _ h; unfold C02.Sb at h; omega
    · intro _ _ sels e _ _ h; have := C02.Fneed_pos N M e sels.length; omega
  | succ f ih => exact ⟨stepA1 c N M ok hok f ih.2, stepA4 c hn N M ok hok hM f ih.1 ih.2⟩

end CalcA

theorem nestedGenOp_parts {c : Ctx} {op : ROperation} (h : NestedGenOp c op = true) :
    c.o.normalization = .none ∧ (c.s.objects[op.objectId]?).isSome = true ∧
      aBody (fragOkN c.s c.q c.o c.q.fragments.length) c.s c.q c.o (.object op.objectId) op.sels = true := by
  simp only [NestedGenOp, Bool.and_eq_true, beq_iff_eq] at h
  exact ⟨h.1.1, h.1.2, h.2⟩

/-- the items of an object-level selection set of the class (any rank), anywhere in the document -/
theorem bodyA_items_shape (c : Ctx) (hn : c.o.normalization = .none) (r : Nat) (name pfx : String) (i : Nat)
    (sels : List Sel) (hD : selsDepth sels ≤ C02.maxDepth c.q) (hS : selsSize sels ≤ C02.totalSize c.q)
    (ht : aBody (fragOkN c.s c.q c.o r) c.s c.q c.o (.object i) sels = true) :
    calcSelection c (calcFuel c.s c.q) name pfx (.object i) sels = .ok (bodyItemsA c name pfx sels) :=
  (calc_nestedabs c hn (C02.totalSize c.q) (c.s.objects.length + C02.maxUnion c.s) _ (fragOkN_spec c.s c.q c.o r)
    (C02.variants_length_le c.s) (calcFuel c.s c.q)).1 name pfx i sels (C02.maxDepth c.q) hD hS (calcFuel_Sb c) ht

/-- **Theorem 1 (`nestedgen_items_shape`).**  For an operation of the class `NestedGenOp` the response items are, in closed
    form, `bodyItemsA`: those of `nested_items_shape`, and at a field of abstract type of the new kind the tagged enum and,
    per selected possible type `T`, the type alias `…On<T> = F` of the (nested) fragment's struct. -/
theorem nestedgen_items_shape (c : Ctx) (op : ROperation) (hop : op ∈ c.q.operations) (ht : NestedGenOp c op = true) :
    responseItems c op = .ok (bodyItemsA c "ResponseData" (c.cs.camel op.name) op.sels) := by
  obtain ⟨hn, _, hsels⟩ := nestedGenOp_parts ht
  apply bodyA_items_shape c hn _ _ _ _ _ (C02.op_depth_le c.q op hop) _ hsels
  apply C02.le_foldl_add
  left
  simp only [List.mem_append, List.mem_map]
  exact .inr ⟨op, hop, rfl⟩

/-! ## `NestedAbsOp ⊆ NestedGenOp`; the closed form agrees -/

theorem absSelA_not_field {ok : TypeId → Nat → Bool} {vts : List TypeId} {x : Sel} (h : absSelA ok vts x = true) :
    isFieldSel x = false := by
  cases x <;> simp_all [absSelA, isFieldSel]

theorem ownSels_nil {sub : List Sel} (h : ∀ x ∈ sub, isFieldSel x = false) : ownSels sub = [] := by
  unfold ownSels
  rw [List.filter_eq_nil_iff]
  intro x hx
  simp [h x hx]

theorem fieldsOfV_nil {c : Ctx} {pfx : String} {sub : List Sel} (h : ∀ x ∈ sub, isFieldSel x = false) :
    fieldsOfV c pfx sub = [] := by
  unfold fieldsOfV
  rw [List.filterMap_eq_nil_iff]
  intro x hx
  have := h x hx
  cases x <;> simp_all [fieldOfSelV, isFieldSel]

theorem absSubA_nofield {ok : TypeId → Nat → Bool} {s : Schema} {q : Query} {o : Options} {ty : TypeId} {sub : List Sel}
    (h : absSubA ok s q o ty sub = true) : ∀ x ∈ sub, isFieldSel x = false :=
  fun x hx => absSelA_not_field ((absSubA_parts h).sel x hx)

theorem absSubG_of_absSubA {ok : TypeId → Nat → Bool} {s : Schema} {q : Query} {o : Options} {ty : TypeId} {sub : List Sel}
    (h : absSubA ok s q o ty sub = true) : absSubG ok s q o ty sub = true := by
  have hnf := absSubA_nofield h
  simp only [absSubG, Bool.and_eq_true, List.all_eq_true]
  refine ⟨⟨by rw [strip_eq_self hnf]; exact h, ?_⟩, ?_⟩
  · intro x hx
    have := hnf x hx
    cases x <;> simp_all [leafSel, isFieldSel]
  · rw [ownSels_nil hnf]; rfl

theorem absFieldG_of_absFieldA {ok : TypeId → Nat → Bool} {s : Schema} {q : Query} {o : Options} {sf : StoredField}
    {sub : List Sel} (h : absFieldA ok s q o sf sub = true) : absFieldG ok s q o sf sub = true := by
  simp only [absFieldA, Bool.and_eq_true] at h
  simp only [absFieldG, Bool.and_eq_true]
  exact ⟨h.1, absSubG_of_absSubA h.2⟩

/-- at a position of `NestedAbsOp` the closed form is the one of `nestedabs_items_shape` -/
theorem absItemsG_eq_A {ok : TypeId → Nat → Bool} {c : Ctx} {ty : TypeId} {sub : List Sel}
    (h : absSubA ok c.s c.q c.o ty sub = true) (name pfx : String) :
    absItemsG c name pfx ty sub = absItemsA c name pfx ty sub := by
  have hnf := absSubA_nofield h
  unfold absItemsG absItemsA
  rw [strip_eq_self hnf, fieldsOfV_nil hnf]

mutual
  theorem aSel_of_A {ok : TypeId → Nat → Bool} (s : Schema) (q : Query) (o : Options) : ∀ (x : Sel) (p : TypeId),
      C01NA.aSel ok s q o p x = true → aSel ok s q o p x = true
    | .field a fid sub, p => by
      intro h
      have IH := aSels_of_A (ok := ok) s q o sub
      obtain ⟨sf, hsf⟩ := C01NA.aSel_field_some h
      by_cases hobj : ∃ i, sf.ty.id = .object i
      · obtain ⟨i, hid⟩ := hobj
        obtain ⟨hw, hdep, ho, hb⟩ := C01NA.aSel_obj hsf hid h
        rw [aSel]
        simp only [hsf, hid, hw, hdep, ho, Bool.not_false, Bool.and_self, Bool.true_and]
        by_cases hsp : ∃ g, sub = [Sel.spread g]
        · obtain ⟨g, rfl⟩ := hsp; exact hb
        · have hnl : ∀ g, sub ≠ [Sel.spread g] := fun g hg => hsp ⟨g, hg⟩
          rw [C01NA.aBody_not_lone hnl] at hb
          split
          · exact absurd rfl (hnl _)
          · exact IH _ hb
      · have hno : ∀ i, sf.ty.id ≠ .object i := fun i h => hobj ⟨i, h⟩
        have hs : (sSel s q o false (.field a fid sub) || absFieldG ok s q o sf sub) = true := by
          rcases C01NA.aSel_nonobj hsf hno h with hs | ⟨_, hnew⟩
          · rw [hs]; rfl
          · rw [absFieldG_of_absFieldA hnew]; simp
        rw [aSel]
        simp only [hsf]
        cases hid : sf.ty.id with
        | object i => exact absurd hid (hno i)
        | scalar k => simpa using hs
        | «enum» k => simpa using hs
        | interface k => simpa using hs
        | union k => simpa using hs
        | input k => simpa using hs
    | .spread g, p => by intro h; rw [C01NA.aSel] at h; rw [aSel]; exact h
    | .inline _ _, _ => by intro h; simp [C01NA.aSel] at h
    | .typename, _ => by intro _; simp [aSel]
  theorem aSels_of_A {ok : TypeId → Nat → Bool} (s : Schema) (q : Query) (o : Options) : ∀ (sels : List Sel) (p : TypeId),
      C01NA.aSels ok s q o p sels = true → aSels ok s q o p sels = true
    | [], _ => by intro _; rfl
    | x :: xs, p => by
      intro h
      obtain ⟨hx, hxs⟩ := C01NA.aSels_cons h
      rw [aSels, aSel_of_A s q o x p hx, aSels_of_A s q o xs p hxs]; rfl
end

theorem aBody_of_A {ok : TypeId → Nat → Bool} {s : Schema} {q : Query} {o : Options} {p : TypeId} {sels : List Sel}
    (h : C01NA.aBody ok s q o p sels = true) : aBody ok s q o p sels = true := by
  by_cases hsp : ∃ g, sels = [Sel.spread g]
  · obtain ⟨g, rfl⟩ := hsp; exact h
  · have hnl : ∀ g, sels ≠ [Sel.spread g] := fun g hg => hsp ⟨g, hg⟩
    rw [C01NA.aBody_not_lone hnl] at h
    rw [aBody_not_lone hnl]
    exact aSels_of_A s q o sels p h

/-- **`NestedAbsOp ⊆ NestedGenOp`** -/
theorem nestedGenOp_of_nestedAbsOp (c : Ctx) (op : ROperation) (h : NestedAbsOp c op = true) : NestedGenOp c op = true := by
  obtain ⟨hn, ho, hb⟩ := nestedAbsOp_parts h
  simp only [NestedGenOp, Bool.and_eq_true, beq_iff_eq]
  exact ⟨⟨hn, ho⟩, aBody_of_A hb⟩

mutual
  theorem itemsA_eq_A {ok : TypeId → Nat → Bool} (c : Ctx) : ∀ (x : Sel) (p : TypeId) (pfx : String),
      C01NA.aSel ok c.s c.q c.o p x = true → itemsA c pfx x = C01NA.itemsA c pfx x
    | .field a fid sub, p, pfx => by
      intro h
      have IH := itemsAs_eq_A (ok := ok) c sub
      obtain ⟨sf, hsf⟩ := C01NA.aSel_field_some h
      by_cases hobj : ∃ i, sf.ty.id = .object i
      · obtain ⟨i, hid⟩ := hobj
        obtain ⟨_, _, _, hb⟩ := C01NA.aSel_obj hsf hid h
        rw [itemsA, C01NA.itemsA]
        simp only [hsf, hid]
        by_cases hsp : ∃ g, sub = [Sel.spread g]
        · obtain ⟨g, rfl⟩ := hsp; rfl
        · have hnl : ∀ g, sub ≠ [Sel.spread g] := fun g hg => hsp ⟨g, hg⟩
          rw [C01NA.aBody_not_lone hnl] at hb
          have e1 := IH (.object i) (pfx ++ c.cs.camel (a.getD sf.name)) hb
          split
          · exact absurd rfl (hnl _)
          · split
            · exact absurd rfl (hnl _)
            · rw [e1]
      · have hno : ∀ i, sf.ty.id ≠ .object i := fun i h => hobj ⟨i, h⟩
        rcases C01NA.aSel_nonobj hsf hno h with hs | ⟨hs, hnew⟩
        · rw [itemsA_old c pfx a fid sub sf hsf hno hs, C01NA.itemsA_old c pfx a fid sub sf hsf hno hs]
        · rw [itemsA_new c pfx a fid sub sf hsf hno hs, C01NA.itemsA_new c pfx a fid sub sf hsf hno hs]
          exact absItemsG_eq_A (C01NA.absFieldA_parts hnew).2.2.2 _ _
    | .spread g, _, _ => by intro _; simp [itemsA, C01NA.itemsA]
    | .inline _ _, _, _ => by intro _; simp [itemsA, C01NA.itemsA]
    | .typename, _, _ => by intro _; simp [itemsA, C01NA.itemsA]
  theorem itemsAs_eq_A {ok : TypeId → Nat → Bool} (c : Ctx) : ∀ (sels : List Sel) (p : TypeId) (pfx : String),
      C01NA.aSels ok c.s c.q c.o p sels = true → itemsAs c pfx sels = C01NA.itemsAs c pfx sels
    | [], _, _ => by intro _; rfl
    | x :: xs, p, pfx => by
      intro h
      obtain ⟨hx, hxs⟩ := C01NA.aSels_cons h
      rw [itemsAs, C01NA.itemsAs, itemsA_eq_A c x p pfx hx, itemsAs_eq_A c xs p pfx hxs]
end

/-- on `NestedAbsOp` the closed form is the one of `nestedabs_items_shape` -/
theorem bodyItemsA_eq_A (c : Ctx) (op : ROperation) (h : NestedAbsOp c op = true) (name pfx : String) :
    bodyItemsA c name pfx op.sels = C01NA.bodyItemsA c name pfx op.sels := by
  obtain ⟨_, _, hb⟩ := nestedAbsOp_parts h
  by_cases hsp : ∃ g, op.sels = [Sel.spread g]
  · obtain ⟨g, hg⟩ := hsp; rw [hg]; rfl
  · have hnl : ∀ g, op.sels ≠ [Sel.spread g] := fun g hg => hsp ⟨g, hg⟩
    rw [C01NA.aBody_not_lone hnl] at hb
    rw [bodyItemsA_not_lone c name pfx hnl, C01NA.bodyItemsA_not_lone c name pfx hnl, itemsAs_eq_A c op.sels _ pfx hb]

end C01NG
end GqlVerif
