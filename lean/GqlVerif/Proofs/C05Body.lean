import GqlVerif.Model.Envelope
import GqlVerif.Props.C05
import GqlVerif.Props.C04
import GqlVerif.Proofs.C06Sound
/-!
# C05 — the request body `build_query` produces; C04 — the key set of a serialized `Variables`

Part 1 (`C05Body`): `buildQuery` mirrors the `impl GraphQLQuery` block `generated_module.rs` emits.
Part 2 (`C04Keys`): `Codegen.variablesItems` connected to the whole-struct serialization theorems of
`Proofs/C01Layers.lean` (L5).
-/
namespace GqlVerif
namespace C05Body
open Codegen

/-! ## Part 1 — `build_query` -/

/-- the emitted
    `fn build_query(variables) -> QueryBody { QueryBody { variables, query: QUERY, operation_name: OPERATION_NAME } }`
    (`generated_module.rs`); `QUERY` / `OPERATION_NAME` are the module's two constants, `vars` is what the
    `Variables` value serializes to -/
def buildQuery (M : Module) (vars : Json) : Envelope.QueryBody :=
  { variables := vars, query := M.query, operationName := M.operationName }

/-- **the body, exactly**: an object with the three members `variables`, `query`, `operationName`, in
    this order, holding the variables, the module's `QUERY` and the module's `OPERATION_NAME` -/
theorem body_members (M : Module) (v : Json) :
    Envelope.serQueryBody (buildQuery M v) =
      .obj [("variables", v), ("query", .str M.query), ("operationName", .str M.operationName)] := rfl

/-- the same, member by member: the key list, and what a reader finds under each key -/
theorem body_keys (M : Module) (v : Json) :
    ∃ kvs, Envelope.serQueryBody (buildQuery M v) = .obj kvs ∧
      kvs.map (·.1) = ["variables", "query", "operationName"] ∧
      Json.lookup "variables" kvs = some v ∧
      Json.lookup "query" kvs = some (.str M.query) ∧
      Json.lookup "operationName" kvs = some (.str M.operationName) ∧
      ∀ k, k ≠ "variables" → k ≠ "query" → k ≠ "operationName" → Json.lookup k kvs = none := by
  refine ⟨_, rfl, rfl, rfl, rfl, rfl, ?_⟩
  intro k h1 h2 h3
  have e1 : ("variables" == k) = false := by simpa using fun h => h1 h.symm
  have e2 : ("query" == k) = false := by simpa using fun h => h2 h.symm
  have e3 : ("operationName" == k) = false := by simpa using fun h => h3 h.symm
  simp [Json.lookup, e1, e2, e3]

/-! ### from `generate` to the module's constants -/

theorem getOperation_ok {q : Query} {i : Nat} {op : ROperation} (h : q.getOperation i = .ok op) :
    q.operations[i]? = some op := by
  unfold Query.getOperation at h
  split at h <;> simp_all [pure, Except.pure, panic']

/-- every module `generate` returns is `generatedModule` of one operation of the resolved document, called
    with the document text and that operation's name as written -/
theorem generate_inv (s : Schema) (cs : CaseFns) (o : Options) (text : String) (doc : QDoc) (ms : List Module)
    (h : generate s cs o text doc = .ok ms) :
    ∃ q, Resolve.resolve s doc = .ok q ∧
      ∀ M ∈ ms, ∃ (i : Nat) (op : ROperation), q.operations[i]? = some op ∧
        generatedModule { s, q, o, cs } text op.name = .ok M := by
  unfold generate at h
  cases hq : Resolve.resolve s doc with
  | error e => simp [hq, bind, Except.bind] at h
  | ok q =>
    refine ⟨q, rfl, ?_⟩
    simp only [hq, bind, Except.bind] at h
    obtain ⟨ops, hops⟩ : ∃ ops : List Nat, ops.mapM (fun i => do
        let op ← q.getOperation i
        generatedModule { s, q, o, cs } text op.name) = .ok ms := by
      cases hsel : o.operationName.bind (selectOperation { s, q, o, cs }) with
      | some i => simp only [hsel, pure, Except.pure] at h; exact ⟨_, h⟩
      | none =>
        cases hmode : o.mode with
        | cli => simp only [hsel, hmode, pure, Except.pure] at h; exact ⟨_, h⟩
        | derive => simp [hsel, hmode, fail'] at h
    obtain ⟨_, hall⟩ := C05.mapM_spec _ ops ms hops
    intro M hM
    obtain ⟨k, hk⟩ := List.getElem?_of_mem hM
    obtain ⟨i, _, hfi⟩ := hall k M hk
    simp only [bind, Except.bind] at hfi
    cases hop : q.getOperation i with
    | error e => simp [hop] at hfi
    | ok op =>
      simp only [hop] at hfi
      exact ⟨i, op, getOperation_ok hop, hfi⟩

/-- the operation table of a resolved document lists the operation names of the document, exactly as
    written, in document order, and they are pairwise distinct (composition of `C06Sound.createRoots_names`
    and `C06Sound.fold_ok`) -/
theorem resolve_opNames {s : Schema} {d : QDoc} {q : Query} (h : Resolve.resolve s d = .ok q) :
    q.operations.map (·.name) = Valid.opNames d ∧ (Valid.opNames d).Nodup := by
  obtain ⟨q0, h0, h1, _⟩ := C06Sound.resolve_inv h
  obtain ⟨_, hfn, hon, hond⟩ := C06Sound.createRoots_names h0
  have hf := C06Sound.fold_ok s d q0 q h1 hfn hond
  have := hf.onames_eq
  simp only [C06Sound.onames] at this
  exact ⟨this.trans hon, hond⟩

/-- a name in `Valid.opNames d` is the name of an operation definition of `d` -/
theorem mem_opNames_iff {d : QDoc} {n : String} :
    n ∈ Valid.opNames d ↔ ∃ kind vars sels, QDef.op kind (some n) vars sels ∈ d := by
  unfold Valid.opNames
  rw [List.mem_filterMap]
  constructor
  · rintro ⟨x, hx, hn⟩
    cases x with
    | op k name v sels =>
      cases name with
      | none => simp at hn
      | some m => simp only [Option.some.injEq] at hn; subst hn; exact ⟨k, v, sels, hx⟩
    | selset _ => simp at hn
    | frag _ _ _ => simp at hn
  · rintro ⟨k, v, sels, hx⟩
    exact ⟨_, hx, rfl⟩

/-- the normalized name (`Normalization::operation`) under the options of `c` -/
abbrev normOp (c : Ctx) (name : String) : String := c.o.normalization.operation c.cs name

/-- no operation written before the `i`-th one has the same **normalized** name -/
def NoEarlierClash (c : Ctx) (i : Nat) : Prop :=
  ∀ (j : Nat) (opj opi : ROperation), j < i → c.q.operations[j]? = some opj → c.q.operations[i]? = some opi →
    normOp c opj.name ≠ normOp c opi.name

/-- **C05, from `generate` to the wire.**  For every module `M` that `generate` returns:
    * `M.query` is the document text passed in, byte for byte;
    * `M.operationName` is the name of the `i`-th operation of the document exactly as written
      (an entry of `Valid.opNames doc`, not normalized);
    * the module's items are `responseForQuery` of the **first** operation whose normalized name equals the
      normalized `M.operationName` (index `root ≤ i`); this is operation `i` itself when no earlier operation
      has the same normalized name (`NoEarlierClash`). -/
theorem body_of_generate (s : Schema) (cs : CaseFns) (o : Options) (text : String) (doc : QDoc)
    (ms : List Module) (M : Module) (h : generate s cs o text doc = .ok ms) (hM : M ∈ ms) :
    M.query = text ∧
    ∃ (q : Query) (i : Nat) (op : ROperation), Resolve.resolve s doc = .ok q ∧ q.operations[i]? = some op ∧
      M.operationName = op.name ∧ (Valid.opNames doc)[i]? = some M.operationName ∧
      (∃ kind vars sels, QDef.op kind (some M.operationName) vars sels ∈ doc) ∧
      ∃ root, root ≤ i ∧ selectOperation { s, q, o, cs } (normOp { s, q, o, cs } M.operationName) = some root ∧
        (∀ j opj, j < root → q.operations[j]? = some opj →
          normOp { s, q, o, cs } opj.name ≠ normOp { s, q, o, cs } M.operationName) ∧
        responseForQuery { s, q, o, cs } root = .ok M.items ∧
        (NoEarlierClash { s, q, o, cs } i → root = i) := by
  obtain ⟨q, hq, hall⟩ := generate_inv s cs o text doc ms h
  obtain ⟨i, op, hop, hgen⟩ := hall M hM
  obtain ⟨root, items, hsel, hresp, hitems, hname, htext⟩ := C05.module_shape _ _ _ _ hgen
  obtain ⟨hnames, _⟩ := resolve_opNames hq
  have hith : (Valid.opNames doc)[i]? = some M.operationName := by
    rw [← hnames, List.getElem?_map, hop, hname]; rfl
  obtain ⟨opr, hopr, hnorm, hmin⟩ := C05.selectOperation_spec _ _ _ hsel
  have hle : root ≤ i := by
    refine Nat.le_of_not_lt fun hlt => ?_
    exact hmin i hlt op hop rfl
  refine ⟨htext, q, i, op, hq, hop, hname, hith, mem_opNames_iff.mp (List.mem_of_getElem? hith), root, hle, ?_, ?_, ?_, ?_⟩
  · rw [hname]; exact hsel
  · intro j opj hj hopj; rw [hname]; exact hmin j hj opj hopj
  · rw [hitems]; exact hresp
  · intro hno
    rcases Nat.lt_or_ge root i with hlt | hge
    · exact absurd hnorm (hno root opr op hlt hopr hop)
    · exact Nat.le_antisymm hle hge

/-! ### when is the first match the operation itself? -/

/-- in a list of operations with pairwise distinct names, equal names at two positions means equal positions -/
theorem index_of_name {ops : List ROperation} (hnd : (ops.map (·.name)).Nodup) {i j : Nat} {a b : ROperation}
    (hi : ops[i]? = some a) (hj : ops[j]? = some b) (hn : a.name = b.name) : i = j := by
  have hlt : i < (ops.map (·.name)).length := by
    have := (List.getElem?_eq_some_iff.mp hi).1; simpa using this
  refine (List.getElem?_inj hlt hnd).mp ?_
  rw [List.getElem?_map, List.getElem?_map, hi, hj]; simp [hn]

/-- `NoEarlierClash` holds at every position as soon as normalization is injective on the names the
    document defines (different operations keep different names after normalization) -/
theorem noEarlierClash_of_injective (c : Ctx) (hnd : (c.q.operations.map (·.name)).Nodup)
    (hinj : ∀ a ∈ c.q.operations, ∀ b ∈ c.q.operations, normOp c a.name = normOp c b.name → a.name = b.name)
    (i : Nat) : NoEarlierClash c i := by
  intro j opj opi hlt hj hi heq
  have := index_of_name hnd hj hi (hinj opj (List.mem_of_getElem? hj) opi (List.mem_of_getElem? hi) heq)
  omega

/-- without normalization (`Normalization::None`, the default) names are compared as written: never a clash -/
theorem noEarlierClash_of_none (c : Ctx) (hnd : (c.q.operations.map (·.name)).Nodup)
    (hn : c.o.normalization = .none) (i : Nat) : NoEarlierClash c i :=
  noEarlierClash_of_injective c hnd
    (fun a _ b _ h => by simpa [normOp, Normalization.operation, Normalization.camelCase, hn] using h) i

/-- **the items of a module are generated from the operation it names**, whenever no earlier operation has
    the same normalized name; in particular always under `Normalization::None`, and under
    `Normalization::Rust` whenever `to_upper_camel_case` keeps the document's operation names apart -/
theorem items_of_named_operation (s : Schema) (cs : CaseFns) (o : Options) (text : String) (doc : QDoc)
    (ms : List Module) (M : Module) (h : generate s cs o text doc = .ok ms) (hM : M ∈ ms)
    (hok : o.normalization = .none ∨
      ∀ a ∈ Valid.opNames doc, ∀ b ∈ Valid.opNames doc,
        o.normalization.operation cs a = o.normalization.operation cs b → a = b) :
    ∃ (q : Query) (i : Nat) (op : ROperation), Resolve.resolve s doc = .ok q ∧ q.operations[i]? = some op ∧
      op.name = M.operationName ∧ (Valid.opNames doc)[i]? = some M.operationName ∧
      responseForQuery { s, q, o, cs } i = .ok M.items := by
  obtain ⟨_, q, i, op, hq, hop, hname, hith, _, root, _, _, _, hresp, hown⟩ :=
    body_of_generate s cs o text doc ms M h hM
  obtain ⟨hnames, hnd⟩ := resolve_opNames hq
  have hno : NoEarlierClash { s, q, o, cs } i := by
    rcases hok with hn | hinj
    · exact noEarlierClash_of_none _ (hnames ▸ hnd) hn i
    · refine noEarlierClash_of_injective _ (hnames ▸ hnd) ?_ i
      intro a ha b hb heq
      have ha' : a.name ∈ Valid.opNames doc := hnames ▸ List.mem_map_of_mem ha
      have hb' : b.name ∈ Valid.opNames doc := hnames ▸ List.mem_map_of_mem hb
      exact hinj _ ha' _ hb' heq
  exact ⟨q, i, op, hq, hop, hname.symm, hith, hown hno ▸ hresp⟩

/-- … and that table entry is the resolved form of the one definition of the document carrying the name:
    same kind, the schema's root type for that kind, and a selection that corresponds (`C06Sound.CorrL`) to
    the written one -/
theorem named_operation_is_written (s : Schema) (doc : QDoc) (q : Query) (i : Nat) (op : ROperation)
    (hq : Resolve.resolve s doc = .ok q) (hop : q.operations[i]? = some op) :
    ∃ vars sels root, QDef.op op.kind (some op.name) vars sels ∈ doc ∧ Valid.rootOf s op.kind = some root ∧
      op.objectId = root ∧
      C06Sound.CorrL s (C06Sound.ftff (Valid.fragTable doc)) (.object root) sels op.sels := by
  obtain ⟨hnames, hnd⟩ := resolve_opNames hq
  obtain ⟨q0, h0, h1, _⟩ := C06Sound.resolve_inv hq
  have hres := C06Sound.resolved_of_phases h0 h1
  have hmem : op.name ∈ Valid.opNames doc := hnames ▸ List.mem_map_of_mem (List.mem_of_getElem? hop)
  obtain ⟨kind, vars, sels, hdef⟩ := mem_opNames_iff.mp hmem
  obtain ⟨n, root, id, rs, hn, hroot, _, hid, hcorr⟩ := hres.op kind _ vars sels hdef
  cases hn
  have : id = i := index_of_name (hnames ▸ hnd) hid hop rfl
  subst this
  have hopeq : op = { name := op.name, kind := kind, objectId := root, sels := rs } :=
    Option.some.inj (hop.symm.trans hid)
  rw [hopeq]
  exact ⟨vars, sels, root, hdef, hroot, rfl, hcorr⟩

/-- **end to end**: what a caller of `build_query` puts on the wire for a module produced by `generate` -/
theorem request_body_of_generate (s : Schema) (cs : CaseFns) (o : Options) (text : String) (doc : QDoc)
    (ms : List Module) (M : Module) (v : Json) (h : generate s cs o text doc = .ok ms) (hM : M ∈ ms) :
    ∃ n, n ∈ Valid.opNames doc ∧ M.operationName = n ∧
      Envelope.serQueryBody (buildQuery M v) = .obj [("variables", v), ("query", .str text), ("operationName", .str n)] := by
  obtain ⟨htext, _, i, _, _, _, _, hith, _⟩ := body_of_generate s cs o text doc ms M h hM
  exact ⟨M.operationName, List.mem_of_getElem? hith, rfl, by rw [body_members, htext]⟩

/-! ### the side condition cannot be dropped (finding: normalized-name clash)

`query getA { a }  query GetA { b }` with `Normalization::Rust`: both names normalize to `GetA`, `root()` looks
the operation up by normalized name and finds the first.  The module whose `OPERATION_NAME` is `GetA` gets the
types of `getA` (`ResponseData { a }`), not those of the operation it names (`ResponseData { b }`).
(The two modules are also called `get_a` / `struct GetA` twice, so rustc rejects the output in CLI mode; in
derive mode only the first of the two operations can ever be selected.) -/

def clashSdl : SdlDoc :=
  [.object "Query" [] [{ name := "a", ty := .named "String", directives := [] },
                       { name := "b", ty := .named "Int", directives := [] }]]

def clashDoc : QDoc :=
  [.op .query (some "getA") [] [.field none "a" []],
   .op .query (some "GetA") [] [.field none "b" []]]

/-- heck on the two names of the witness, identity elsewhere -/
def clashCs : CaseFns :=
  { snake := fun s => if s == "getA" || s == "GetA" then "get_a" else s,
    camel := fun s => if s == "getA" then "GetA" else s }

def sameItems : Outcome (List Item) → List Item → Bool
  | .ok a, b => a == b
  | .error _, _ => false

theorem clash_witness :
    (match Sdl.fromSdl clashSdl with
     | .ok s =>
       let o : Options := { normalization := .rust }
       match generate s clashCs o "TEXT" clashDoc, Resolve.resolve s clashDoc with
       | .ok [_, m1], .ok q =>
         m1.operationName == "GetA" && m1.query == "TEXT" &&
         sameItems (responseForQuery { s, q, o, cs := clashCs } 0) m1.items &&
         !sameItems (responseForQuery { s, q, o, cs := clashCs } 1) m1.items
       | _, _ => false
     | .error _ => false) = true := by decide +kernel

end C05Body
end GqlVerif
