import GqlVerif.Model.Envelope
import GqlVerif.Props.C05
import GqlVerif.Props.C04
import GqlVerif.Proofs.C06Sound
/-!
# C05 — the request body `build_query` produces; C04 — the key set of a serialized `Variables`

Part 1 (namespace `C05Body`): `buildQuery` mirrors the `impl GraphQLQuery` block `generated_module.rs` emits.
* `body_members`, `body_keys` — the serialized body is the object `variables`, `query`, `operationName` (this order)
  holding the variables, `M.query`, `M.operationName`;
* `generate_inv`, `resolve_opNames` (from `C06Sound`), `body_of_generate` — for `M ∈ ms`, `generate … = .ok ms`:
  `M.query = text`, `M.operationName` is the `i`-th entry of `Valid.opNames doc` (as written), the items are
  `responseForQuery` of the **first** operation with the same *normalized* name (`root ≤ i`), and `root = i` under
  `NoEarlierClash`;
* `items_of_named_operation` — hence the items come from the named operation itself under `Normalization::None`
  or when normalization is injective on the document's operation names; `named_operation_is_written` ties that
  table entry to the written definition; `request_body_of_generate` — end to end;
* `clash_witness` — the side condition is needed (finding: `getA` / `GetA` under `Normalization::Rust`).

Part 2 (namespace `C04Keys`): `Codegen.variablesItems` connected to the whole-struct serialization theorems of
`Proofs/C01Layers.lean` (L5) and to the top-level `Serde.ser` (with its `serde_json::Map` collapse).
* `variablesItems_inv` — unit struct, or one member (`varField`) per declared variable, in order;
* `variables_keys` — no side condition: keys pairwise distinct, as a set = the names of the written variables,
  as a list = those names **iff** they are pairwise distinct;
* `variables_keys_exact` (names distinct ⇒ key list = declared names minus omitted ones),
  `variables_keys_all_iff` (skip-none off: key list = declared names ⇔ names distinct),
  `variables_keys_any_value`, `variables_unit`;
* `variables_keys_of_assignment` — values given per variable; this (and only this) needs the *Rust* member
  identifiers (`keyword_replace ∘ to_snake_case`) pairwise distinct;
* `find_variables_in_module` — discharges `e.find "Variables" = items.head?` inside a generated module;
* `hypotheses_satisfiable`, `distinct_names_needed`, `distinct_members_needed` — concrete runs.
-/
namespace GqlVerif
namespace C05Body
open Codegen

/-! ## Part 1 — `build_query` -/

/-- the emitted
    `fn build_query(variables) -> QueryBody { QueryBody { variables, query: QUERY, operation_name: OPERATION_NAME } }`
    (`generated_module.rs`); `QUERY` / `OPERATION_NAME` are the module's two constants, `vars` is what the
    `Variables` value serializes to -/
def buildQuery (M : Module) (vars : Json) : Envelope.QueryBody :=
  { variables := vars, query := M.query, operationName := M.operationName }

/-- **the body, exactly**: an object with the three members `variables`, `query`, `operationName`, in
    this order, holding the variables, the module's `QUERY` and the module's `OPERATION_NAME` -/
theorem body_members (M : Module) (v : Json) :
    Envelope.serQueryBody (buildQuery M v) =
      .obj [("variables", v), ("query", .str M.query), ("operationName", .str M.operationName)] := rfl

/-- the same, member by member: the key list, and what a reader finds under each key -/
theorem body_keys (M : Module) (v : Json) :
    ∃ kvs, Envelope.serQueryBody (buildQuery M v) = .obj kvs ∧
      kvs.map (·.1) = ["variables", "query", "operationName"] ∧
      Json.lookup "variables" kvs = some v ∧
      Json.lookup "query" kvs = some (.str M.query) ∧
      Json.lookup "operationName" kvs = some (.str M.operationName) ∧
      ∀ k, k ≠ "variables" → k ≠ "query" → k ≠ "operationName" → Json.lookup k kvs = none := by
  refine ⟨_, rfl, rfl, rfl, rfl, rfl, ?_⟩
  intro k h1 h2 h3
  have e1 : ("variables" == k) = false := by simpa using fun h => h1 h.symm
  have e2 : ("query" == k) = false := by simpa using fun h => h2 h.symm
  have e3 : ("operationName" == k) = false := by simpa using fun h => h3 h.symm
  simp [Json.lookup, e1, e2, e3]

/-! ### from `generate` to the module's constants -/

theorem getOperation_ok {q : Query} {i : Nat} {op : ROperation} (h : q.getOperation i = .ok op) :
    q.operations[i]? = some op := by
  unfold Query.getOperation at h
  split at h <;> simp_all [pure, Except.pure, panic']

/-- every module `generate` returns is `generatedModule` of one operation of the resolved document, called
    with the document text and that operation's name as written -/
theorem generate_inv (s : Schema) (cs : CaseFns) (o : Options) (text : String) (doc : QDoc) (ms : List Module)
    (h : generate s cs o text doc = .ok ms) :
    ∃ q, Resolve.resolve s doc = .ok q ∧
      ∀ M ∈ ms, ∃ (i : Nat) (op : ROperation), q.operations[i]? = some op ∧
        generatedModule { s, q, o, cs } text op.name = .ok M := by
  unfold generate at h
  cases hq : Resolve.resolve s doc with
  | error e => simp [hq, bind, Except.bind] at h
  | ok q =>
    refine ⟨q, rfl, ?_⟩
    simp only [hq, bind, Except.bind] at h
    obtain ⟨ops, hops⟩ : ∃ ops : List Nat, ops.mapM (fun i => do
        let op ← q.getOperation i
        generatedModule { s, q, o, cs } text op.name) = .ok ms := by
      cases hsel : o.operationName.bind (selectOperation { s, q, o, cs }) with
      | some i => simp only [hsel, pure, Except.pure] at h; exact ⟨_, h⟩
      | none =>
        cases hmode : o.mode with
        | cli => simp only [hsel, hmode, pure, Except.pure] at h; exact ⟨_, h⟩
        | derive => simp [hsel, hmode, fail'] at h
    obtain ⟨_, hall⟩ := C05.mapM_spec _ ops ms hops
    intro M hM
    obtain ⟨k, hk⟩ := List.getElem?_of_mem hM
    obtain ⟨i, _, hfi⟩ := hall k M hk
    simp only [bind, Except.bind] at hfi
    cases hop : q.getOperation i with
    | error e => simp [hop] at hfi
    | ok op =>
      simp only [hop] at hfi
      exact ⟨i, op, getOperation_ok hop, hfi⟩

/-- the operation table of a resolved document lists the operation names of the document, exactly as
    written, in document order, and they are pairwise distinct (composition of `C06Sound.createRoots_names`
    and `C06Sound.fold_ok`) -/
theorem resolve_opNames {s : Schema} {d : QDoc} {q : Query} (h : Resolve.resolve s d = .ok q) :
    q.operations.map (·.name) = Valid.opNames d ∧ (Valid.opNames d).Nodup := by
  obtain ⟨q0, h0, h1, _⟩ := C06Sound.resolve_inv h
  obtain ⟨_, hfn, hon, hond⟩ := C06Sound.createRoots_names h0
  have hf := C06Sound.fold_ok s d q0 q h1 hfn hond
  have := hf.onames_eq
  simp only [C06Sound.onames] at this
  exact ⟨this.trans hon, hond⟩

/-- a name in `Valid.opNames d` is the name of an operation definition of `d` -/
theorem mem_opNames_iff {d : QDoc} {n : String} :
    n ∈ Valid.opNames d ↔ ∃ kind vars sels, QDef.op kind (some n) vars sels ∈ d := by
  unfold Valid.opNames
  rw [List.mem_filterMap]
  constructor
  · rintro ⟨x, hx, hn⟩
    cases x with
    | op k name v sels =>
      cases name with
      | none => simp at hn
      | some m => simp only [Option.some.injEq] at hn; subst hn; exact ⟨k, v, sels, hx⟩
    | selset _ => simp at hn
    | frag _ _ _ => simp at hn
  · rintro ⟨k, v, sels, hx⟩
    exact ⟨_, hx, rfl⟩

/-- the normalized name (`Normalization::operation`) under the options of `c` -/
abbrev normOp (c : Ctx) (name : String) : String := c.o.normalization.operation c.cs name

/-- no operation written before the `i`-th one has the same **normalized** name -/
def NoEarlierClash (c : Ctx) (i : Nat) : Prop :=
  ∀ (j : Nat) (opj opi : ROperation), j < i → c.q.operations[j]? = some opj → c.q.operations[i]? = some opi →
    normOp c opj.name ≠ normOp c opi.name

/-- **C05, from `generate` to the wire.**  For every module `M` that `generate` returns:
    * `M.query` is the document text passed in, byte for byte;
    * `M.operationName` is the name of the `i`-th operation of the document exactly as written
      (an entry of `Valid.opNames doc`, not normalized);
    * the module's items are `responseForQuery` of the **first** operation whose normalized name equals the
      normalized `M.operationName` (index `root ≤ i`); this is operation `i` itself when no earlier operation
      has the same normalized name (`NoEarlierClash`). -/
theorem body_of_generate (s : Schema) (cs : CaseFns) (o : Options) (text : String) (doc : QDoc)
    (ms : List Module) (M : Module) (h : generate s cs o text doc = .ok ms) (hM : M ∈ ms) :
    M.query = text ∧
    ∃ (q : Query) (i : Nat) (op : ROperation), Resolve.resolve s doc = .ok q ∧ q.operations[i]? = some op ∧
      M.operationName = op.name ∧ (Valid.opNames doc)[i]? = some M.operationName ∧
      (∃ kind vars sels, QDef.op kind (some M.operationName) vars sels ∈ doc) ∧
      ∃ root, root ≤ i ∧ selectOperation { s, q, o, cs } (normOp { s, q, o, cs } M.operationName) = some root ∧
        (∀ j opj, j < root → q.operations[j]? = some opj →
          normOp { s, q, o, cs } opj.name ≠ normOp { s, q, o, cs } M.operationName) ∧
        responseForQuery { s, q, o, cs } root = .ok M.items ∧
        (NoEarlierClash { s, q, o, cs } i → root = i) := by
  obtain ⟨q, hq, hall⟩ := generate_inv s cs o text doc ms h
  obtain ⟨i, op, hop, hgen⟩ := hall M hM
  obtain ⟨root, items, hsel, hresp, hitems, hname, htext⟩ := C05.module_shape _ _ _ _ hgen
  obtain ⟨hnames, _⟩ := resolve_opNames hq
  have hith : (Valid.opNames doc)[i]? = some M.operationName := by
    rw [← hnames, List.getElem?_map, hop, hname]; rfl
  obtain ⟨opr, hopr, hnorm, hmin⟩ := C05.selectOperation_spec _ _ _ hsel
  have hle : root ≤ i := by
    refine Nat.le_of_not_lt fun hlt => ?_
    exact hmin i hlt op hop rfl
  refine ⟨htext, q, i, op, hq, hop, hname, hith, mem_opNames_iff.mp (List.mem_of_getElem? hith), root, hle, ?_, ?_, ?_, ?_⟩
  · rw [hname]; exact hsel
  · intro j opj hj hopj; rw [hname]; exact hmin j hj opj hopj
  · rw [hitems]; exact hresp
  · intro hno
    rcases Nat.lt_or_ge root i with hlt | hge
    · exact absurd hnorm (hno root opr op hlt hopr hop)
    · exact Nat.le_antisymm hle hge

/-! ### when is the first match the operation itself? -/

/-- in a list of operations with pairwise distinct names, equal names at two positions means equal positions -/
theorem index_of_name {ops : List ROperation} (hnd : (ops.map (·.name)).Nodup) {i j : Nat} {a b : ROperation}
    (hi : ops[i]? = some a) (hj : ops[j]? = some b) (hn : a.name = b.name) : i = j := by
  have hlt : i < (ops.map (·.name)).length := by
    have := (List.getElem?_eq_some_iff.mp hi).1; simpa using this
  refine (List.getElem?_inj hlt hnd).mp ?_
  rw [List.getElem?_map, List.getElem?_map, hi, hj]; simp [hn]

/-- `NoEarlierClash` holds at every position as soon as normalization is injective on the names the
    document defines (different operations keep different names after normalization) -/
theorem noEarlierClash_of_injective (c : Ctx) (hnd : (c.q.operations.map (·.name)).Nodup)
    (hinj : ∀ a ∈ c.q.operations, ∀ b ∈ c.q.operations, normOp c a.name = normOp c b.name → a.name = b.name)
    (i : Nat) : NoEarlierClash c i := by
  intro j opj opi hlt hj hi heq
  have := index_of_name hnd hj hi (hinj opj (List.mem_of_getElem? hj) opi (List.mem_of_getElem? hi) heq)
  omega

/-- without normalization (`Normalization::None`, the default) names are compared as written: never a clash -/
theorem noEarlierClash_of_none (c : Ctx) (hnd : (c.q.operations.map (·.name)).Nodup)
    (hn : c.o.normalization = .none) (i : Nat) : NoEarlierClash c i :=
  noEarlierClash_of_injective c hnd
    (fun a _ b _ h => by simpa [normOp, Normalization.operation, Normalization.camelCase, hn] using h) i

/-- **the items of a module are generated from the operation it names**, whenever no earlier operation has
    the same normalized name; in particular always under `Normalization::None`, and under
    `Normalization::Rust` whenever `to_upper_camel_case` keeps the document's operation names apart -/
theorem items_of_named_operation (s : Schema) (cs : CaseFns) (o : Options) (text : String) (doc : QDoc)
    (ms : List Module) (M : Module) (h : generate s cs o text doc = .ok ms) (hM : M ∈ ms)
    (hok : o.normalization = .none ∨
      ∀ a ∈ Valid.opNames doc, ∀ b ∈ Valid.opNames doc,
        o.normalization.operation cs a = o.normalization.operation cs b → a = b) :
    ∃ (q : Query) (i : Nat) (op : ROperation), Resolve.resolve s doc = .ok q ∧ q.operations[i]? = some op ∧
      op.name = M.operationName ∧ (Valid.opNames doc)[i]? = some M.operationName ∧
      responseForQuery { s, q, o, cs } i = .ok M.items := by
  obtain ⟨_, q, i, op, hq, hop, hname, hith, _, root, _, _, _, hresp, hown⟩ :=
    body_of_generate s cs o text doc ms M h hM
  obtain ⟨hnames, hnd⟩ := resolve_opNames hq
  have hno : NoEarlierClash { s, q, o, cs } i := by
    rcases hok with hn | hinj
    · exact noEarlierClash_of_none _ (hnames ▸ hnd) hn i
    · refine noEarlierClash_of_injective _ (hnames ▸ hnd) ?_ i
      intro a ha b hb heq
      have ha' : a.name ∈ Valid.opNames doc := hnames ▸ List.mem_map_of_mem ha
      have hb' : b.name ∈ Valid.opNames doc := hnames ▸ List.mem_map_of_mem hb
      exact hinj _ ha' _ hb' heq
  exact ⟨q, i, op, hq, hop, hname.symm, hith, hown hno ▸ hresp⟩

/-- … and that table entry is the resolved form of the one definition of the document carrying the name:
    same kind, the schema's root type for that kind, and a selection that corresponds (`C06Sound.CorrL`) to
    the written one -/
theorem named_operation_is_written (s : Schema) (doc : QDoc) (q : Query) (i : Nat) (op : ROperation)
    (hq : Resolve.resolve s doc = .ok q) (hop : q.operations[i]? = some op) :
    ∃ vars sels root, QDef.op op.kind (some op.name) vars sels ∈ doc ∧ Valid.rootOf s op.kind = some root ∧
      op.objectId = root ∧
      C06Sound.CorrL s (C06Sound.ftff (Valid.fragTable doc)) (.object root) sels op.sels := by
  obtain ⟨hnames, hnd⟩ := resolve_opNames hq
  obtain ⟨q0, h0, h1, _⟩ := C06Sound.resolve_inv hq
  have hres := C06Sound.resolved_of_phases h0 h1
  have hmem : op.name ∈ Valid.opNames doc := hnames ▸ List.mem_map_of_mem (List.mem_of_getElem? hop)
  obtain ⟨kind, vars, sels, hdef⟩ := mem_opNames_iff.mp hmem
  obtain ⟨n, root, id, rs, hn, hroot, _, hid, hcorr⟩ := hres.op kind _ vars sels hdef
  cases hn
  have : id = i := index_of_name (hnames ▸ hnd) hid hop rfl
  subst this
  have hopeq : op = { name := op.name, kind := kind, objectId := root, sels := rs } :=
    Option.some.inj (hop.symm.trans hid)
  rw [hopeq]
  exact ⟨vars, sels, root, hdef, hroot, rfl, hcorr⟩

/-- **end to end**: what a caller of `build_query` puts on the wire for a module produced by `generate` -/
theorem request_body_of_generate (s : Schema) (cs : CaseFns) (o : Options) (text : String) (doc : QDoc)
    (ms : List Module) (M : Module) (v : Json) (h : generate s cs o text doc = .ok ms) (hM : M ∈ ms) :
    ∃ n, n ∈ Valid.opNames doc ∧ M.operationName = n ∧
      Envelope.serQueryBody (buildQuery M v) = .obj [("variables", v), ("query", .str text), ("operationName", .str n)] := by
  obtain ⟨htext, _, i, _, _, _, _, hith, _⟩ := body_of_generate s cs o text doc ms M h hM
  exact ⟨M.operationName, List.mem_of_getElem? hith, rfl, by rw [body_members, htext]⟩

/-! ### the side condition cannot be dropped (finding: normalized-name clash)

`query getA { a }  query GetA { b }` with `Normalization::Rust`: both names normalize to `GetA`, `root()` looks
the operation up by normalized name and finds the first.  The module whose `OPERATION_NAME` is `GetA` gets the
types of `getA` (`ResponseData { a }`), not those of the operation it names (`ResponseData { b }`).
(The two modules are also called `get_a` / `struct GetA` twice, so rustc rejects the output in CLI mode; in
derive mode only the first of the two operations can ever be selected.) -/

def clashSdl : SdlDoc :=
  [.object "Query" [] [{ name := "a", ty := .named "String", directives := [] },
                       { name := "b", ty := .named "Int", directives := [] }]]

def clashDoc : QDoc :=
  [.op .query (some "getA") [] [.field none "a" []],
   .op .query (some "GetA") [] [.field none "b" []]]

/-- heck on the two names of the witness, identity elsewhere -/
def clashCs : CaseFns :=
  { snake := fun s => if s == "getA" || s == "GetA" then "get_a" else s,
    camel := fun s => if s == "getA" then "GetA" else s }

def sameItems : Outcome (List Item) → List Item → Bool
  | .ok a, b => a == b
  | .error _, _ => false

theorem clash_witness :
    (match Sdl.fromSdl clashSdl with
     | .ok s =>
       let o : Options := { normalization := .rust }
       match generate s clashCs o "TEXT" clashDoc, Resolve.resolve s clashDoc with
       | .ok [_, m1], .ok q =>
         m1.operationName == "GetA" && m1.query == "TEXT" &&
         sameItems (responseForQuery { s, q, o, cs := clashCs } 0) m1.items &&
         !sameItems (responseForQuery { s, q, o, cs := clashCs } 1) m1.items
       | _, _ => false
     | .error _ => false) = true := by decide +kernel

end C05Body

/-! ## Part 2 — the key set of a serialized `Variables` value -/

namespace C04Keys
open Codegen Serde

/-- the Rust identifier of the member emitted for a variable: snake case, then keyword escaping -/
def memberName (c : Ctx) (v : RVariable) : String := keywordReplace (c.cs.snake v.name)

/-- the variable's declared type is nullable at top level (`Int`, `[Int!]`; not `Int!`) -/
def nullable (v : RVariable) : Bool := v.ty.quals.head? != some .required

/-- the member `variablesItems` emits for variable `v` once its Rust type `t` is known -/
def varField (c : Ctx) (v : RVariable) (t : RTy) : RField :=
  { rust := memberName c v, rename := fieldRename v.name (memberName c v), ty := t,
    skipNone := c.o.skipNone && nullable v }

/-- variable `v` and member `f` belong together -/
def IsMember (c : Ctx) (v : RVariable) (f : RField) : Prop := ∃ t, variableType c v = .ok t ∧ f = varField c v t

theorem mapM_all2 {ε α β} (f : α → Except ε β) :
    ∀ (xs : List α) (ys : List β), xs.mapM f = .ok ys → C01.All2 (fun x y => f x = .ok y) xs ys
  | [], ys, h => by cases h; exact .nil
  | x :: xs, ys, h => by
    rw [List.mapM_cons] at h
    cases hx : f x with
    | error e => simp [hx, bind, Except.bind] at h
    | ok y =>
      cases hm : xs.mapM f with
      | error e => simp [hx, hm, bind, Except.bind] at h
      | ok ys' =>
        simp [hx, hm, bind, Except.bind, pure, Except.pure] at h
        subst h
        exact .cons hx (mapM_all2 f xs ys' hm)

/-- **what `variablesItems` emits**: `struct Variables;` for an operation without variables, otherwise
    `struct Variables { … }` with one member per declared variable, in declaration order (followed by the
    `impl Variables` block with the default-value functions) -/
theorem variablesItems_inv (c : Ctx) (op : Nat) (items : List Item) (h : variablesItems c op = .ok items) :
    (c.q.opVariables op = [] ∧ items = [.unitStruct "Variables" (allVariableDerives c.o) c.serdeCrate]) ∨
    (c.q.opVariables op ≠ [] ∧ ∃ fs dfl,
      items = [.struct "Variables" (allVariableDerives c.o) c.serdeCrate fs, .defaults dfl] ∧
      C01.All2 (IsMember c) (c.q.opVariables op) fs) := by
  by_cases hv : c.q.opVariables op = []
  · left
    rw [C04.unit_variables_null c op hv] at h
    cases h
    exact ⟨hv, rfl⟩
  · right
    refine ⟨hv, ?_⟩
    unfold variablesItems at h
    have hemp : (c.q.opVariables op).isEmpty = false := by
      cases hvs : c.q.opVariables op with
      | nil => exact absurd hvs hv
      | cons a b => rfl
    simp only [hemp, Bool.false_eq_true, ↓reduceIte, bind, Except.bind] at h
    split at h
    · simp at h
    · rename_i fs hfs
      split at h
      · simp at h
      · rename_i dfl _
        simp only [pure, Except.pure, Except.ok.injEq] at h
        refine ⟨fs, dfl, h.symm, ?_⟩
        refine C01.All2.imp ?_ (mapM_all2 _ _ _ hfs)
        intro v f hvf
        cases hvt : variableType c v with
        | error e => simp [hvt] at hvf
        | ok t =>
          simp only [hvt, pure, Except.pure, Except.ok.injEq] at hvf
          exact ⟨t, hvt, hvf.symm⟩

/-! ### members ↔ variables -/

/-- the member of variable `v` is left out of the object: `skip_serializing_none` is on, the declared type is
    nullable and the member holds `None` -/
def omitted (c : Ctx) (vals : List (String × Val)) (v : RVariable) : Bool :=
  c.o.skipNone && nullable v && (C01.valOf vals (memberName c v)).isUnit

theorem members_plain (c : Ctx) : ∀ {vars : List RVariable} {fs : List RField},
    C01.All2 (IsMember c) vars fs → C01.plain fs = true
  | _, _, .nil => rfl
  | _, _, .cons ⟨t, _, hf⟩ rest => by
    subst hf
    simp only [C01.plain, List.all_cons, Bool.and_eq_true] at *
    exact ⟨rfl, members_plain c rest⟩

theorem members_wire (c : Ctx) : ∀ {vars : List RVariable} {fs : List RField},
    C01.All2 (IsMember c) vars fs → fs.map (·.wire) = vars.map (·.name)
  | _, _, .nil => rfl
  | _, _, .cons ⟨t, _, hf⟩ rest => by
    subst hf
    simp only [List.map_cons, members_wire c rest]
    congr 1
    exact C11.input_wire_is_graphql_name _ _ _ _

theorem members_rust (c : Ctx) : ∀ {vars : List RVariable} {fs : List RField},
    C01.All2 (IsMember c) vars fs → fs.map (·.rust) = vars.map (memberName c)
  | _, _, .nil => rfl
  | _, _, .cons ⟨t, _, hf⟩ rest => by
    subst hf
    simp only [List.map_cons, members_rust c rest]
    rfl

/-- the wire names of the members that are written = the names of the variables that are not omitted -/
theorem members_written (c : Ctx) (vals : List (String × Val)) : ∀ {vars : List RVariable} {fs : List RField},
    C01.All2 (IsMember c) vars fs →
      (fs.filter (fun f => !C01.skipped vals f)).map (·.wire) = (vars.filter (fun v => !omitted c vals v)).map (·.name)
  | _, _, .nil => rfl
  | v :: _, _, .cons ⟨t, _, hf⟩ rest => by
    subst hf
    have hs : C01.skipped vals (varField c v t) = omitted c vals v := rfl
    have hw : (varField c v t).wire = v.name := C11.input_wire_is_graphql_name _ _ _ _
    simp only [List.filter_cons, hs]
    cases omitted c vals v
    · simp only [Bool.not_false, ↓reduceIte, List.map_cons, hw, members_written c vals rest]
    · simp only [Bool.not_true, Bool.false_eq_true, ↓reduceIte, members_written c vals rest]

/-! ### `serde_json::Map` collapsing (`Json.normObj`) on key lists -/

abbrev keys (kvs : List (String × Json)) : List String := kvs.map (·.1)

theorem keys_insert (k : String) (v : Json) :
    ∀ acc : List (String × Json), keys (Json.insert k v acc) = if k ∈ keys acc then keys acc else keys acc ++ [k]
  | [] => by simp [Json.insert, keys]
  | (k', v') :: acc => by
    by_cases hk : k' = k
    · subst hk; simp [Json.insert, keys]
    · have hne : (k' == k) = false := by simpa using hk
      have hne' : ¬ k = k' := fun h => hk h.symm
      simp only [Json.insert, hne, Bool.false_eq_true, ↓reduceIte, keys, List.map_cons, List.mem_cons, hne', false_or]
      have ih := keys_insert k v acc
      simp only [keys] at ih
      rw [ih]
      split <;> simp

theorem foldl_insert_keys : ∀ (kvs acc : List (String × Json)), (keys acc).Nodup →
    (keys (kvs.foldl (fun acc (kv : String × Json) => Json.insert kv.1 kv.2 acc) acc)).Nodup ∧
    ∀ k, k ∈ keys (kvs.foldl (fun acc (kv : String × Json) => Json.insert kv.1 kv.2 acc) acc) ↔ k ∈ keys acc ∨ k ∈ keys kvs
  | [], acc, h => by simp [h]
  | (k, v) :: kvs, acc, h => by
    have hstep : (keys (Json.insert k v acc)).Nodup ∧ ∀ x, x ∈ keys (Json.insert k v acc) ↔ x ∈ keys acc ∨ x = k := by
      rw [keys_insert]
      split
      · rename_i hm
        refine ⟨h, fun x => ⟨Or.inl, ?_⟩⟩
        rintro (hx | rfl)
        · exact hx
        · exact hm
      · rename_i hm
        refine ⟨?_, fun x => by simp⟩
        rw [List.nodup_append]
        refine ⟨h, by simp, ?_⟩
        intro a ha b hb
        simp only [List.mem_singleton] at hb
        subst hb
        intro hab
        exact hm (hab ▸ ha)
    obtain ⟨ih1, ih2⟩ := foldl_insert_keys kvs (Json.insert k v acc) hstep.1
    refine ⟨ih1, fun x => ?_⟩
    rw [List.foldl_cons, ih2 x, hstep.2 x]
    simp only [keys, List.map_cons, List.mem_cons]
    constructor
    · rintro ((h | h) | h)
      · exact Or.inl h
      · exact Or.inr (Or.inl h)
      · exact Or.inr (Or.inr h)
    · rintro (h | h | h)
      · exact Or.inl (Or.inl h)
      · exact Or.inl (Or.inr h)
      · exact Or.inr h

/-- a `serde_json::Map` never holds a key twice … -/
theorem normObj_keys_nodup (kvs : List (String × Json)) : (keys (Json.normObj kvs)).Nodup :=
  (foldl_insert_keys kvs [] List.nodup_nil).1

/-- … and holds exactly the keys that were inserted -/
theorem mem_normObj_keys (kvs : List (String × Json)) (k : String) : k ∈ keys (Json.normObj kvs) ↔ k ∈ keys kvs := by
  have := (foldl_insert_keys kvs [] List.nodup_nil).2 k
  simpa [Json.normObj] using this

theorem keys_normKvs : ∀ kvs : List (String × Json), keys (normKvs kvs) = keys kvs
  | [] => rfl
  | (k, v) :: rest => by simp only [normKvs, keys, List.map_cons]; rw [← keys, ← keys, keys_normKvs rest]

/-- the key list survives the collapse unchanged **iff** it has no repetition -/
theorem normObj_keys_eq_iff (kvs : List (String × Json)) : keys (Json.normObj kvs) = keys kvs ↔ (keys kvs).Nodup := by
  constructor
  · intro h; rw [← h]; exact normObj_keys_nodup kvs
  · intro h; rw [C01.normObj_of_nodup kvs h]

/-! ### `Serde.ser` at a struct type -/

theorem ser_fuel (e : Env) (v : Val) : ∃ k, (valSize v + 2) * (e.items.length + e.externs.length + 2) = k + 1 := by
  have : 0 < (valSize v + 2) * (e.items.length + e.externs.length + 2) := Nat.mul_pos (by omega) (by omega)
  exact ⟨(valSize v + 2) * (e.items.length + e.externs.length + 2) - 1, by omega⟩

/-- top-level serialization of a record at a struct type: the entries `serFieldsWith` writes, then the
    `serde_json::Map` collapse -/
theorem ser_record_struct (e : Env) (p n : String) (d : List String) (sc : Option String) (fs : List RField)
    (vals : List (String × Val)) (j : Json) (he : e.find p = some (.struct n d sc fs))
    (h : Serde.ser e (.path p) (.record vals) = .ok j) :
    ∃ k out, serFieldsWith (serPath e k) fs vals = .ok out ∧ j = .obj (Json.normObj (normKvs out)) := by
  unfold Serde.ser at h
  rw [C01.map_ok] at h
  obtain ⟨j0, hj0, rfl⟩ := h
  obtain ⟨k, hk⟩ := ser_fuel e (.record vals)
  rw [hk] at hj0
  have hpath : serTy e (k + 1) (.path p) (.record vals) = serPath e (k + 1) p (.record vals) := rfl
  rw [hpath, C01.serPath_struct e k p n d sc fs he, C01.map_ok] at hj0
  obtain ⟨out, hout, rfl⟩ := hj0
  exact ⟨k, out, hout, by simp [normJson]⟩

/-- a value that serializes at a struct type is a record — or a bare leaf value (`serPrim` writes those
    whatever the named type is; such a value is not a value of the struct) -/
theorem ser_struct_value (e : Env) (p n : String) (d : List String) (sc : Option String) (fs : List RField)
    (v : Val) (j : Json) (he : e.find p = some (.struct n d sc fs)) (hprim : serPrim v = none)
    (h : Serde.ser e (.path p) v = .ok j) : ∃ vals, v = .record vals := by
  unfold Serde.ser at h
  rw [C01.map_ok] at h
  obtain ⟨j0, hj0, rfl⟩ := h
  obtain ⟨k, hk⟩ := ser_fuel e v
  rw [hk] at hj0
  have hpath : serTy e (k + 1) (.path p) v = serPath e (k + 1) p v := rfl
  rw [hpath] at hj0
  unfold serPath at hj0
  simp only [hprim, he] at hj0
  cases v with
  | record vals => exact ⟨vals, rfl⟩
  | _ => simp [unmodelled] at hj0

/-! ### the theorems -/

/-- names of the variables whose member is written, in declaration order -/
def writtenNames (c : Ctx) (op : Nat) (vals : List (String × Val)) : List String :=
  ((c.q.opVariables op).filter (fun v => !omitted c vals v)).map (·.name)

/-- the struct item behind `items.head?` in the non-empty case -/
theorem variables_struct (c : Ctx) (op : Nat) (items : List Item) (h : variablesItems c op = .ok items)
    (hne : c.q.opVariables op ≠ []) :
    ∃ fs, items.head? = some (.struct "Variables" (allVariableDerives c.o) c.serdeCrate fs) ∧
      C01.All2 (IsMember c) (c.q.opVariables op) fs := by
  rcases variablesItems_inv c op items h with ⟨hnil, _⟩ | ⟨_, fs, dfl, rfl, hall⟩
  · exact absurd hnil hne
  · exact ⟨fs, rfl, hall⟩

/-- **C04, whole struct — general form (no side condition).**  A `Variables` record serialized with
    `Serde.ser` (= `serde_json::to_value`) is a JSON object whose keys are pairwise distinct and are, as a set,
    exactly the declared names of the variables whose member is written; the key *list* is that list of names,
    in declaration order, **iff** those names are pairwise distinct. -/
theorem variables_keys (c : Ctx) (op : Nat) (items : List Item) (e : Env) (vals : List (String × Val)) (j : Json)
    (h : variablesItems c op = .ok items) (hne : c.q.opVariables op ≠ [])
    (he : e.find "Variables" = items.head?)
    (hs : Serde.ser e (.path "Variables") (.record vals) = .ok j) :
    ∃ kvs, j = .obj kvs ∧ (keys kvs).Nodup ∧ (∀ k, k ∈ keys kvs ↔ k ∈ writtenNames c op vals) ∧
      (keys kvs = writtenNames c op vals ↔ (writtenNames c op vals).Nodup) := by
  obtain ⟨fs, hhead, hall⟩ := variables_struct c op items h hne
  rw [hhead] at he
  obtain ⟨k, out, hout, rfl⟩ := ser_record_struct e _ _ _ _ fs vals j he hs
  have hkeys : keys (normKvs out) = writtenNames c op vals := by
    rw [keys_normKvs]
    have := C01.ser_keys_exact _ fs vals out (members_plain c hall) hout
    rw [members_written c vals hall] at this
    exact this
  refine ⟨_, rfl, normObj_keys_nodup _, ?_, ?_⟩
  · intro x; rw [mem_normObj_keys, hkeys]
  · rw [← hkeys]; exact normObj_keys_eq_iff _

/-- **`variables_keys_exact`.**  If the declared variable names of the operation are pairwise distinct, the keys
    of a serialized `Variables` value are exactly — as a list, in declaration order — the declared names,
    minus (with `skip_serializing_none`) the nullable ones whose member is `None`. -/
theorem variables_keys_exact (c : Ctx) (op : Nat) (items : List Item) (e : Env) (vals : List (String × Val)) (j : Json)
    (h : variablesItems c op = .ok items) (hne : c.q.opVariables op ≠ [])
    (he : e.find "Variables" = items.head?)
    (hnd : ((c.q.opVariables op).map (·.name)).Nodup)
    (hs : Serde.ser e (.path "Variables") (.record vals) = .ok j) :
    ∃ kvs, j = .obj kvs ∧
      keys kvs = ((c.q.opVariables op).filter (fun v =>
        !(c.o.skipNone && nullable v && (C01.valOf vals (memberName c v)).isUnit))).map (·.name) := by
  obtain ⟨kvs, hj, _, _, hiff⟩ := variables_keys c op items e vals j h hne he hs
  exact ⟨kvs, hj, hiff.mpr (List.Nodup.sublist (List.Sublist.map _ List.filter_sublist) hnd)⟩

theorem writtenNames_all (c : Ctx) (op : Nat) (vals : List (String × Val))
    (hall : ∀ v ∈ c.q.opVariables op, omitted c vals v = false) :
    writtenNames c op vals = (c.q.opVariables op).map (·.name) := by
  unfold writtenNames
  congr 1
  rw [List.filter_eq_self]
  intro v hv; simp [hall v hv]

/-- without `skip_serializing_none`: exactly the declared names, and the distinctness hypothesis is **necessary
    and sufficient** -/
theorem variables_keys_all_iff (c : Ctx) (op : Nat) (items : List Item) (e : Env) (vals : List (String × Val)) (j : Json)
    (h : variablesItems c op = .ok items) (hne : c.q.opVariables op ≠ [])
    (he : e.find "Variables" = items.head?) (hskip : c.o.skipNone = false)
    (hs : Serde.ser e (.path "Variables") (.record vals) = .ok j) :
    ∃ kvs, j = .obj kvs ∧
      (keys kvs = (c.q.opVariables op).map (·.name) ↔ ((c.q.opVariables op).map (·.name)).Nodup) := by
  obtain ⟨kvs, hj, _, _, hiff⟩ := variables_keys c op items e vals j h hne he hs
  rw [writtenNames_all c op vals (fun v _ => by simp [omitted, hskip])] at hiff
  exact ⟨kvs, hj, hiff⟩

/-- the same for every value that is not a bare leaf: it is a record and the statements above apply -/
theorem variables_keys_any_value (c : Ctx) (op : Nat) (items : List Item) (e : Env) (v : Val) (j : Json)
    (h : variablesItems c op = .ok items) (hne : c.q.opVariables op ≠ [])
    (he : e.find "Variables" = items.head?)
    (hnd : ((c.q.opVariables op).map (·.name)).Nodup) (hprim : serPrim v = none)
    (hs : Serde.ser e (.path "Variables") v = .ok j) :
    ∃ vals kvs, v = .record vals ∧ j = .obj kvs ∧ keys kvs = writtenNames c op vals := by
  obtain ⟨fs, hhead, _⟩ := variables_struct c op items h hne
  obtain ⟨vals, rfl⟩ := ser_struct_value e _ _ _ _ fs v j (he.trans hhead) hprim hs
  obtain ⟨kvs, hj, hk⟩ := variables_keys_exact c op items e vals j h hne he hnd hs
  exact ⟨vals, kvs, rfl, hj, hk⟩

/-- an operation without variables: `struct Variables;` is written as `null` (no keys at all) -/
theorem variables_unit (c : Ctx) (op : Nat) (items : List Item) (e : Env)
    (h : variablesItems c op = .ok items) (hnil : c.q.opVariables op = [])
    (he : e.find "Variables" = items.head?) : Serde.ser e (.path "Variables") .unit = .ok .null := by
  rw [C04.unit_variables_null c op hnil] at h
  cases h
  unfold Serde.ser
  obtain ⟨k, hk⟩ := ser_fuel e .unit
  rw [hk]
  have hpath : serTy e (k + 1) (.path "Variables") .unit = serPath e (k + 1) "Variables" .unit := rfl
  rw [hpath, C04.unit_struct_is_null e k "Variables" _ _ _ he]
  rfl

/-! ### values given per variable: where the *Rust* identifiers have to be distinct

A record is keyed by Rust member names.  To say "the member of the `i`-th variable holds the `i`-th value" the
member names (`keyword_replace (to_snake_case name)`) have to be pairwise distinct — which rustc demands of a
struct anyway.  This is the only place where snake-casing and escaping enter. -/

/-- the record holding `xs[i]` in the member of the `i`-th variable -/
def recordOf (c : Ctx) (vars : List RVariable) (xs : List Val) : List (String × Val) := (vars.map (memberName c)).zip xs

theorem valOf_cons_self (n : String) (x : Val) (rest : List (String × Val)) : C01.valOf ((n, x) :: rest) n = x := by
  simp [C01.valOf]

theorem valOf_cons_ne {n m : String} (x : Val) (rest : List (String × Val)) (h : n ≠ m) :
    C01.valOf ((n, x) :: rest) m = C01.valOf rest m := by
  have : (n == m) = false := by simpa using h
  simp [C01.valOf, this]

theorem filter_by_assignment (g : RVariable → String) (P : RVariable → Val → Bool) :
    ∀ (vars : List RVariable) (xs : List Val), vars.length = xs.length → (vars.map g).Nodup →
      vars.filter (fun v => P v (C01.valOf ((vars.map g).zip xs) (g v))) =
        ((vars.zip xs).filter (fun p => P p.1 p.2)).map (·.1)
  | [], _, _, _ => rfl
  | v :: vs, [], h, _ => by simp at h
  | v :: vs, x :: xs, h, hnd => by
    simp only [List.map_cons, List.nodup_cons] at hnd
    have ih := filter_by_assignment g P vs xs (by simpa using h) hnd.2
    have hcongr : vs.filter (fun w => P w (C01.valOf ((g v, x) :: (vs.map g).zip xs) (g w))) =
        vs.filter (fun w => P w (C01.valOf ((vs.map g).zip xs) (g w))) := by
      apply List.filter_congr
      intro w hw
      have hne : g v ≠ g w := fun heq => hnd.1 (heq ▸ List.mem_map_of_mem hw)
      rw [valOf_cons_ne x _ hne]
    simp only [List.map_cons, List.zip_cons_cons, List.filter_cons, valOf_cons_self, hcongr, ih]
    cases P v x <;> simp

/-- **keys from an assignment of values to variables**: with pairwise distinct variable names *and* pairwise
    distinct member identifiers, the keys are the names of the variables `v` with value `x` except those with
    `skip_serializing_none`, nullable type and `x = None` -/
theorem variables_keys_of_assignment (c : Ctx) (op : Nat) (items : List Item) (e : Env) (xs : List Val) (j : Json)
    (h : variablesItems c op = .ok items) (hne : c.q.opVariables op ≠ [])
    (he : e.find "Variables" = items.head?)
    (hlen : (c.q.opVariables op).length = xs.length)
    (hnd : ((c.q.opVariables op).map (·.name)).Nodup)
    (hrust : ((c.q.opVariables op).map (memberName c)).Nodup)
    (hs : Serde.ser e (.path "Variables") (.record (recordOf c (c.q.opVariables op) xs)) = .ok j) :
    ∃ kvs, j = .obj kvs ∧
      keys kvs = (((c.q.opVariables op).zip xs).filter (fun p =>
        !(c.o.skipNone && nullable p.1 && p.2.isUnit))).map (·.1.name) := by
  obtain ⟨kvs, hj, hk⟩ := variables_keys_exact c op items e _ j h hne he hnd hs
  refine ⟨kvs, hj, ?_⟩
  rw [hk]
  have := filter_by_assignment (memberName c) (fun v x => !(c.o.skipNone && nullable v && x.isUnit))
    (c.q.opVariables op) xs hlen hrust
  unfold recordOf
  rw [this, List.map_map]
  rfl

/-! ### `e.find "Variables"` inside a generated module -/

/-- the items of a module contain the `Variables` items as a block -/
theorem responseForQuery_split (c : Ctx) (op : Nat) (items : List Item) (h : responseForQuery c op = .ok items) :
    ∃ pre vars post, items = pre ++ vars ++ post ∧ variablesItems c op = .ok vars := by
  unfold responseForQuery at h
  obtain ⟨u, _, h⟩ := C06Sound.bind_ok h
  obtain ⟨scalars, _, h⟩ := C06Sound.bind_ok h
  obtain ⟨enums, _, h⟩ := C06Sound.bind_ok h
  obtain ⟨frags, _, h⟩ := C06Sound.bind_ok h
  obtain ⟨inputs, _, h⟩ := C06Sound.bind_ok h
  obtain ⟨vars, hvars, h⟩ := C06Sound.bind_ok h
  obtain ⟨o, _, h⟩ := C06Sound.bind_ok h
  obtain ⟨resp, _, h⟩ := C06Sound.bind_ok h
  simp only [pure, Except.pure, Except.ok.injEq] at h
  exact ⟨builtinAliases ++ scalars ++ enums ++ inputs, vars, frags.flatten ++ resp, by simp [← h, List.append_assoc], hvars⟩

theorem find_append_of_head (pre vars post : List Item) (p : String) (it : Item)
    (hpre : ∀ x ∈ pre, x.name ≠ p) (hhead : vars.head? = some it) (hname : it.name = p) :
    (Env.mk (pre ++ vars ++ post) []).find p = vars.head? := by
  cases vars with
  | nil => simp at hhead
  | cons a rest =>
    simp only [List.head?_cons, Option.some.injEq] at hhead
    subst hhead
    unfold Env.find
    simp only [List.append_assoc, List.head?_cons]
    rw [List.find?_append]
    have : pre.find? (fun x => x.name == p) = none := by
      rw [List.find?_eq_none]; intro x hx; simpa using hpre x hx
    simp [this, hname]

/-- in the environment made of a module's own items, `Variables` resolves to the item `variablesItems` emitted,
    provided no item before it (built-in aliases, custom scalars, enums, input objects) is itself called
    `Variables` -/
theorem find_variables_in_module (c : Ctx) (op : Nat) (items : List Item) (h : responseForQuery c op = .ok items) :
    ∃ pre vars post, items = pre ++ vars ++ post ∧ variablesItems c op = .ok vars ∧
      ((∀ x ∈ pre, x.name ≠ "Variables") → (Env.mk items []).find "Variables" = vars.head?) := by
  obtain ⟨pre, vars, post, rfl, hv⟩ := responseForQuery_split c op items h
  refine ⟨pre, vars, post, rfl, hv, fun hpre => ?_⟩
  rcases variablesItems_inv c op vars hv with ⟨_, rfl⟩ | ⟨_, fs, dfl, rfl, _⟩
  · exact find_append_of_head pre _ post "Variables" _ hpre rfl rfl
  · exact find_append_of_head pre _ post "Variables" _ hpre rfl rfl

/-! ### the hypotheses: satisfiable, and not droppable

All three runs go through the model's own pipeline: `Sdl.fromSdl`, `Resolve.resolve`, `variablesItems`,
`Serde.ser` in the environment made of the emitted items. -/

def demoSdl : SdlDoc := [.object "Query" [] [{ name := "x", ty := .named "String", directives := [] }]]

def keysOf : Json → Option (List String)
  | .obj kvs => some (keys kvs)
  | _ => none

/-- what the right-hand side of `variables_keys_of_assignment` predicts -/
def predicted (c : Ctx) (op : Nat) (xs : List Val) : List String :=
  (((c.q.opVariables op).zip xs).filter (fun p => !(c.o.skipNone && nullable p.1 && p.2.isUnit))).map (·.1.name)

structure Run where
  names : List String
  members : List String
  keys : Option (List String)
  predicted : List String
  deriving DecidableEq

/-- operation 0 of `doc`, one value per declared variable -/
def run (cs : CaseFns) (o : Options) (doc : QDoc) (xs : List Val) : Option Run :=
  match Sdl.fromSdl demoSdl with
  | .ok s => match Resolve.resolve s doc with
    | .ok q =>
      let c : Ctx := { s, q, o, cs }
      match variablesItems c 0 with
      | .ok items => match Serde.ser { items := items } (.path "Variables") (.record (recordOf c (q.opVariables 0) xs)) with
        | .ok j => some { names := (q.opVariables 0).map (·.name), members := (q.opVariables 0).map (memberName c),
                          keys := keysOf j, predicted := predicted c 0 xs }
        | .error _ => none
      | .error _ => none
    | .error _ => none
  | .error _ => none

def idCs : CaseFns := { snake := id, camel := id }

/-- `query Q($id: ID!, $first: Int) { x }` -/
def okDoc : QDoc :=
  [.op .query (some "Q") [{ name := "id", ty := .nonNull (.named "ID"), default := none },
                          { name := "first", ty := .named "Int", default := none }] [.field none "x" []]]

/-- a non-trivial instance of all hypotheses (`names` and `members` without repetition): `id = "7"`, `first = None`;
    with `skip_serializing_none` only `id` is written, without it both are -/
theorem hypotheses_satisfiable :
    run idCs { skipNone := true } okDoc [.str "7", .unit] =
      some { names := ["id", "first"], members := ["id", "first"], keys := some ["id"], predicted := ["id"] } ∧
    run idCs { skipNone := false } okDoc [.str "7", .unit] =
      some { names := ["id", "first"], members := ["id", "first"], keys := some ["id", "first"],
             predicted := ["id", "first"] } := by
  constructor <;> decide +kernel

/-- `query Q($a: Int, $a: Int) { x }` — accepted by `resolve` (nothing checks variable names for uniqueness) -/
def dupDoc : QDoc :=
  [.op .query (some "Q") [{ name := "a", ty := .named "Int", default := none },
                          { name := "a", ty := .named "Int", default := none }] [.field none "x" []]]

/-- **`hnd` is needed**: two variables called `a`, no `skip_serializing_none`, both members `Some 1`: the declared
    names are `[a, a]`, the object has the single key `a` (in Rust the struct does not compile: field declared
    twice) -/
theorem distinct_names_needed :
    run idCs {} dupDoc [.some (.int 1), .some (.int 1)] =
      some { names := ["a", "a"], members := ["a", "a"], keys := some ["a"], predicted := ["a", "a"] } := by
  decide +kernel

/-- `to_snake_case` on the two names of the next witness, identity elsewhere -/
def snakeCs : CaseFns := { snake := fun s => if s == "fooBar" then "foo_bar" else s, camel := id }

/-- `query Q($fooBar: Int, $foo_bar: Int) { x }`: distinct GraphQL names, the same Rust identifier -/
def memberClashDoc : QDoc :=
  [.op .query (some "Q") [{ name := "fooBar", ty := .named "Int", default := none },
                          { name := "foo_bar", ty := .named "Int", default := none }] [.field none "x" []]]

/-- **`hrust` is needed** (for the per-variable reading only): `fooBar = None`, `foo_bar = Some 1` with
    `skip_serializing_none`.  Both members are called `foo_bar`, both read the first value, nothing is written;
    the assignment predicts the key `foo_bar`.  The key-list theorem `variables_keys_exact` still holds here (its
    right-hand side is stated through the record, not through the assignment). -/
theorem distinct_members_needed :
    run snakeCs { skipNone := true } memberClashDoc [.unit, .some (.int 1)] =
      some { names := ["fooBar", "foo_bar"], members := ["foo_bar", "foo_bar"], keys := some [],
             predicted := ["foo_bar"] } := by
  decide +kernel

end C04Keys

namespace C05Body

/-- the side condition of `items_of_named_operation` on concrete data: the default options do not normalize;
    under `Normalization::Rust` the names `getA`, `getB` stay apart, the names of `clashDoc` do not -/
example : ({} : Options).normalization = .none := rfl

example : ∀ a ∈ ["getA", "getB"], ∀ b ∈ ["getA", "getB"],
    Normalization.rust.operation clashCs a = Normalization.rust.operation clashCs b → a = b := by decide +kernel

example : Valid.opNames clashDoc = ["getA", "GetA"] ∧
    Normalization.rust.operation clashCs "getA" = Normalization.rust.operation clashCs "GetA" := by decide +kernel

end C05Body
end GqlVerif
