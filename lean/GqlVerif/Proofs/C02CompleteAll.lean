import GqlVerif.Proofs.C02CompleteGen
/-!
# C02 (first half) — assembly: a supported input is accepted, and every emitted module is scoped iff `NoClash`

**`supported_input_accepted_and_scoped`**: `SchemaWf s`, `SchemaWfGen s`, `Valid.validDoc s true d`, `Supported s d`,
`DocVarsOk s d` ⇒ `resolve` accepts `d`; `generate` returns one module per requested operation
(`generate_succeeds`) and `response_for_query` succeeds at every operation index (`codegen_succeeds`); and, under
the hypotheses of `C02.module_well_scoped_iff` (normalization `none`, keyword-free schema type names,
`InputFieldsRelevant s`, `DocVarsInput s d`), every module returned by `generate` passes `Scope.wellScoped` iff
`C02.NoClash` holds for its operation and no item has two members of one identifier.

Pieces of its own: `outputOnly_of_valid` (validity ⇒ the `OutputOnly` hypothesis of the scope theorems),
`vars_relevant` (`DocVarsInput` ⇒ the `hvars` hypothesis), `generate_modules` (each returned module's items are
`responseForQuery c j` for an operation index `j` in range).
`DocVarsInput` is needed because "variables have input types" (GraphQL §5.8.2) is not part of `Valid.validDoc`
(`C02.object_variable_unresolved` is the witness that the scope statement fails without it).
-/
namespace GqlVerif
namespace C02All
open Codegen C02Complete C02Gen C06Sound

/-! ## `OutputOnly` from validity -/

mutual
  theorem corr_noInputCond {s : Schema} {ff : String → Option Nat} {ft : FT} {strict : Bool} :
      ∀ (x : QSel) (p : TypeId) (r : Sel), Corr s ff p x r → Valid.validSel s ft strict p x = true →
        C02.selNoInputCond r = true
    | .field a n sub, p, r, hc, hv => by
      cases hc with
      | typename => rfl
      | field hn hl hfid hleaf hsub =>
        rename_i fid f rs
        rw [C02.selNoInputCond]
        unfold Valid.validSel at hv
        have hn' : (n == "__typename") = false := by simpa using hn
        simp only [hn', Bool.false_eq_true, if_false, hl] at hv
        cases hcomp : Valid.isComposite f.ty.id with
        | false =>
          have := hleaf hcomp
          subst this
          cases hsub
          rfl
        | true =>
          simp only [hcomp, if_true, Bool.and_eq_true] at hv
          exact corrL_noInputCond sub _ _ hsub hv.1.2
    | .inline on sub, p, r, hc, hv => by
      cases hc with
      | inline ht hleaf hsub =>
        rename_i on t rs
        rw [C02.selNoInputCond]
        unfold Valid.validSel at hv
        simp only [ht, Bool.and_eq_true] at hv
        refine Bool.and_eq_true_iff.mpr ⟨?_, corrL_noInputCond sub _ _ hsub hv.2⟩
        have := hv.1.1
        cases t <;> simp_all [Valid.isComposite, TypeId.asInput?]
    | .spread n, p, r, hc, hv => by
      cases hc with
      | spread => rfl
  theorem corrL_noInputCond {s : Schema} {ff : String → Option Nat} {ft : FT} {strict : Bool} :
      ∀ (xs : List QSel) (p : TypeId) (rs : List Sel), CorrL s ff p xs rs → Valid.validSels s ft strict p xs = true →
        C02.selsNoInputCond rs = true
    | [], p, rs, hc, _ => by cases hc; rfl
    | x :: xs, p, rs, hc, hv => by
      cases hc with
      | cons hx hxs =>
        rw [C02.selsNoInputCond]
        unfold Valid.validSels at hv
        simp only [Bool.and_eq_true] at hv
        exact Bool.and_eq_true_iff.mpr ⟨corr_noInputCond x _ _ hx hv.1, corrL_noInputCond xs _ _ hxs hv.2⟩
end

theorem resolve_parts {s : Schema} {d : QDoc} {q : Query} (h : Resolve.resolve s d = .ok q) :
    Resolved s d q ∧ onames q = Valid.opNames d := by
  obtain ⟨q0, h0, h1, _⟩ := resolve_inv h
  have hR := resolved_of_phases h0 h1
  have hr := createRoots_ok s d {} q0 h0
  have hon0 : onames q0 = Valid.opNames d := by simpa [onames] using hr.onames
  have hfo := fold_ok s d q0 q h1 hR.fnodup hR.onodup
  exact ⟨hR, hfo.onames_eq.trans hon0⟩

/-- on a valid document the resolved query has no inline fragment on an input type; with `SchemaWfGen` this is
    the `OutputOnly` hypothesis of the scope theorems -/
theorem outputOnly_of_valid {s : Schema} {d : QDoc} {q : Query} {strict : Bool} (hsg : SchemaWfGen s = true)
    (hv : Valid.validDoc s strict d = true) (h : Resolve.resolve s d = .ok q) : C02.OutputOnly s q = true := by
  obtain ⟨hR, honF⟩ := resolve_parts h
  have hg := wfG_of hsg
  unfold Valid.validDoc at hv
  simp only [Bool.and_eq_true, List.all_eq_true] at hv
  obtain ⟨_, hdefs⟩ := hv
  unfold C02.OutputOnly
  simp only [Bool.and_eq_true, List.all_eq_true]
  refine ⟨⟨?_, ?_⟩, ?_⟩
  · intro f hf
    cases hid : f.ty.id with
    | input j => exact absurd hid (hg.noInput f hf j)
    | _ => rfl
  · intro f hf
    obtain ⟨n, on, sels, hm, hty, hc⟩ := frag_inv hR f hf
    have := hdefs _ hm
    unfold Valid.validDef at this
    simp only [hty, Bool.and_eq_true] at this
    exact corrL_noInputCond _ _ _ hc this.1
  · intro o ho
    obtain ⟨vars, sels, hm, hroot, hc⟩ := op_inv hR honF o ho
    have := hdefs _ hm
    unfold Valid.validDef at this
    simp only [hroot, Bool.and_eq_true] at this
    exact corrL_noInputCond _ _ _ hc this.1

/-! ## variables have input types -/

/-- GraphQL §5.8.2 (variables are input types) is not part of `Valid.validDoc`; the scope theorems need it -/
def DocVarsInput (s : Schema) (d : QDoc) : Bool :=
  d.all fun
    | .op _ _ vars _ => vars.all (fun vd =>
        match s.findType vd.ty.base with
        | some (.input _) | some (.enum _) | some (.scalar _) | none => true
        | _ => false)
    | _ => true

theorem vars_relevant {s : Schema} {d : QDoc} {q : Query} (h : Resolve.resolve s d = .ok q)
    (hd : DocVarsInput s d = true) : ∀ v ∈ q.variables, C02.Relevant v.ty.id := by
  intro v hv
  obtain ⟨kind, name, vars, sels, vd, hm, hvd, _, _, _, hty⟩ := resolve_vars h v hv
  unfold DocVarsInput at hd
  rw [List.all_eq_true] at hd
  have := hd _ hm
  simp only [List.all_eq_true] at this
  have := this vd hvd
  rw [hty] at this
  unfold C02.Relevant
  cases hid : v.ty.id <;> simp_all


/-! ## the modules `generate` returns -/

theorem generate_modules {s : Schema} {cs : CaseFns} {o : Options} {text : String} {d : QDoc} {q : Query}
    {ms : List Module} (hres : Resolve.resolve s d = .ok q) (h : generate s cs o text d = .ok ms) :
    ∀ m ∈ ms, ∃ j, j < q.operations.length ∧ responseForQuery { s, q, o, cs } j = .ok m.items := by
  intro m hm
  unfold generate at h
  obtain ⟨q', hq', h⟩ := C02.bind_ok h
  rw [hres] at hq'
  cases hq'
  have key : ∃ ops : List Nat, ops.mapM (fun i => (do
      let op ← q.getOperation i
      generatedModule { s, q, o, cs } text op.name : Outcome Module)) = .ok ms := by
    simp only [] at h
    split at h <;> (obtain ⟨ops, _, h⟩ := C02.bind_ok h; exact ⟨ops, h⟩)
  obtain ⟨ops, h⟩ := key
  obtain ⟨i, _, hi⟩ := C02.mapM_ok_mem h m hm
  obtain ⟨op, _, hi⟩ := C02.bind_ok hi
  unfold generatedModule at hi
  simp only [] at hi
  split at hi
  · rename_i j hj
    simp only [pure_bind] at hi
    obtain ⟨items, hitems, hi⟩ := C02.bind_ok hi
    simp only [pure, Except.pure, Except.ok.injEq] at hi
    subst hi
    exact ⟨j, selectOperation_lt hj, hitems⟩
  · obtain ⟨_, hf, _⟩ := C02.bind_ok hi
    simp [fail'] at hf

/-- **C02, first half, assembled.**  For a well-formed schema (`SchemaWf`, `SchemaWfGen`) and a document that is
    valid by the strict specification and in the supported subset (`Supported`, `DocVarsOk`):
    1. `resolve` accepts the document (`resolve_complete`);
    2. `generate` returns one module per operation it was asked for (`selectedOps`: all operations in CLI mode,
       the selected one otherwise), and `response_for_query` succeeds for every operation index;
    3. under the hypotheses of `C02.module_well_scoped_iff` (normalization `none`, `keyword_replace` is the identity
       on the names of the schema's input types / scalars / enums, input fields have input types, variables have
       input types) every emitted module passes the executable scope check `Scope.wellScoped` **iff** `NoClash`
       holds and no item has two members of the same identifier. -/
theorem supported_input_accepted_and_scoped {s : Schema} {cs : CaseFns} {o : Options} {text : String} {d : QDoc}
    (hs : SchemaWf s = true) (hsg : SchemaWfGen s = true)
    (hv : Valid.validDoc s true d = true) (hsup : Supported s d = true) (hdv : DocVarsOk s d = true) :
    ∃ q, Resolve.resolve s d = .ok q ∧
      (∀ ops, selectedOps { s, q, o, cs } = some ops →
        ∃ ms, generate s cs o text d = .ok ms ∧ ms.length = ops.length) ∧
      (∀ i, i < q.operations.length → ∃ items, responseForQuery { s, q, o, cs } i = .ok items) ∧
      (o.normalization = .none →
        (∀ i ∈ s.inputs, keywordReplace i.name = i.name) → (∀ n ∈ s.scalars, keywordReplace n = n) →
        (∀ e ∈ s.enums, keywordReplace e.name = e.name) →
        C02.InputFieldsRelevant s = true → DocVarsInput s d = true →
        ∀ ms, generate s cs o text d = .ok ms → ∀ m ∈ ms, ∃ j, j < q.operations.length ∧
          responseForQuery { s, q, o, cs } j = .ok m.items ∧
          (Scope.wellScoped m.items (C02.moduleSupplied { s, q, o, cs }) = true ↔
            C02.NoClash { s, q, o, cs } j = true ∧ ∀ it ∈ m.items, (C02.memberIdents it).Nodup)) := by
  obtain ⟨q, hres⟩ := resolve_complete hs hv hsup
  have hq := resolve_queryWf hs hres
  have hvg := varsGenOk_of_doc hres hdv
  refine ⟨q, hres, ?_, ?_, ?_⟩
  · intro ops hops
    exact generate_succeeds hres hs hsg hq hvg hops
  · intro i hi
    exact codegen_succeeds (c := { s, q, o, cs }) hs hsg hq hvg hi
  · intro hnorm hkwI hkwS hkwE hrel hdi ms hms m hm
    obtain ⟨j, hj, hitems⟩ := generate_modules hres hms m hm
    refine ⟨j, hj, hitems, ?_⟩
    exact C02.module_well_scoped_iff { s, q, o, cs } j m.items hnorm hkwI hkwS hkwE
      (outputOnly_of_valid hsg hv hres) hrel
      (fun v hv' => vars_relevant hres hdi v (List.mem_filter.mp hv').1) hitems


/-- non-vacuity: every hypothesis of `supported_input_accepted_and_scoped` (including those of part 3) holds of the
    instance `goodSdl` / `goodDoc` of `Proofs/C02CompleteGen.lean`, and the three generated modules pass the scope check -/
example : (match Sdl.fromSdl goodSdl with
    | .ok s =>
      match Resolve.resolve s goodDoc with
      | .ok q =>
        let c : Ctx := { s, q, o := {}, cs := ⟨id, id⟩ }
        SchemaWf s && SchemaWfGen s && Valid.validDoc s true goodDoc && Supported s goodDoc && DocVarsOk s goodDoc &&
        C02.InputFieldsRelevant s && DocVarsInput s goodDoc &&
        s.inputs.all (fun i => keywordReplace i.name == i.name) && s.scalars.all (fun n => keywordReplace n == n) &&
        s.enums.all (fun e => keywordReplace e.name == e.name) &&
        (match generate s ⟨id, id⟩ {} "" goodDoc with
          | .ok ms => ms.length == 3 && ms.all (fun m => Scope.wellScoped m.items (C02.moduleSupplied c))
          | .error _ => false)
      | .error _ => false
    | .error _ => false) = true := by decide +kernel

end C02All
end GqlVerif
