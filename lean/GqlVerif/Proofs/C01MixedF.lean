import GqlVerif.Proofs.C01MixedE
import GqlVerif.Proofs.C01VariantSpreadG
/-!
# C01 end to end: `MixedOp2` — `MixedOp` with inline fragments `... on T { ...F }` at abstract positions (part F)

`VariantSpreadOp2` (`C01VariantSpreadF` / `G`) extends `VariantSpreadOp` by inline fragments whose body is a lone spread, next
to other selections (`animal { __typename ... on Dog { ...DogFields } }`): the emitted items are those of the *normalized*
selection set `normSels` (every such inline fragment replaced by the spread `...F`, moved behind the other selections), and
the specification is invariant under the normalization (`conformsV_norm`).  `MixedOp2` does the same for `MixedOp`:

* `MixedOp2 c op` (decidable): the normalized operation is in `MixedOp`; the aliased inline fragments are well-formed
  (`aliasWfSels`, `aliasOkSels` of `VariantSpreadOp2`); **no aliased inline fragment in an object-level selection set**
  (`oiSels`: there the generator ignores inline fragments altogether);
* `mixed2_items_shape` — `responseItems c op = .ok (bodyItemsM … (normSels op.sels))`;
* `mixed2_accepts`, `mixed2_precise_iff`, `mixed2_lossless`, `mixed2_roundtrip` — stated with the specification of the
  operation **as written** (`conformsOpM c op`);
* `mixedOp2_of_mixedOp`, `mixedOp2_of_variantSpreadOp2` — the class contains `MixedOp` (hence `FragmentOp`,
  `VariantSpreadOp`) and `VariantSpreadOp2`;
* the generated module of the task's example, `query Q { dog { ...DogFields } animal { __typename ...AnimalName
  ... on Dog { ...DogFields } } }` (`ex…`): in none of `FragmentOp`, `VariantSpreadOp`, `VariantSpreadOp2`, `MixedOp`; all
  hypotheses by `decide +kernel`; round trip of a concrete payload.
-/
set_option linter.unusedSimpArgs false
set_option linter.unusedVariables false
set_option linter.unusedSectionVars false
set_option linter.unnecessarySimpa false

namespace GqlVerif
namespace C01M
open Serde Spec C13 C03 Codegen C01 C01.E2E

/-! ## the class -/

/-- no aliased inline fragment `... on T { ...F }` among these selections -/
def noAliasHere (sels : List Sel) : Bool := sels.all (fun x => (aliasInl x).isNone)

mutual
  /-- no aliased inline fragment in the object-level selection sets below this selection (object-typed fields, at any
      nesting depth below object-typed fields) -/
  def oiSel (s : Schema) : Sel → Bool
    | .field _ fid sub =>
      (match (s.fields[fid]?).map (fun sf => sf.ty.id) with
       | some (TypeId.object _) => noAliasHere sub && oiSels s sub
       | _ => true)
    | _ => true
  def oiSels (s : Schema) : List Sel → Bool
    | [] => true
    | x :: xs => oiSel s x && oiSels s xs
end

/-- **the class `MixedOp2`** (decidable) -/
def MixedOp2 (c : Ctx) (op : ROperation) : Bool :=
  aliasWfSels c.q op.sels && aliasOkSels c op.sels && noAliasHere op.sels && oiSels c.s op.sels && MixedOp c (normOp op)

theorem mixedOp2_parts {c : Ctx} {op : ROperation} (h : MixedOp2 c op = true) :
    aliasWfSels c.q op.sels = true ∧ aliasOkSels c op.sels = true ∧ noAliasHere op.sels = true ∧
      oiSels c.s op.sels = true ∧ MixedOp c (normOp op) = true := by
  simpa [MixedOp2, and_assoc] using h

/-! ## normalization of an object-level selection set without aliased inline fragment -/

theorem noAliasHere_cons {x : Sel} {xs : List Sel} (h : noAliasHere (x :: xs) = true) :
    aliasInl x = none ∧ noAliasHere xs = true := by
  simp only [noAliasHere, List.all_cons, Bool.and_eq_true, Option.isNone_iff_eq_none] at h
  exact ⟨h.1, by simpa [noAliasHere] using h.2⟩

theorem movedN_of_noAliasHere {sels : List Sel} (h : noAliasHere sels = true) : movedN sels = [] := by
  apply movedN_no_alias
  intro x hx
  simp only [noAliasHere, List.all_eq_true, Option.isNone_iff_eq_none] at h
  exact h x hx

theorem normSels_of_noAliasHere {sels : List Sel} (h : noAliasHere sels = true) : normSels sels = keepN sels := by
  simp [normSels, movedN_of_noAliasHere h]

theorem keepN_lone {sels : List Sel} (h : noAliasHere sels = true) (g : Nat) :
    keepN sels = [Sel.spread g] ↔ sels = [Sel.spread g] := by
  constructor
  · intro hk
    cases sels with
    | nil => simp [keepN] at hk
    | cons x xs =>
      obtain ⟨hx, hxs⟩ := noAliasHere_cons h
      rw [keepN_cons_keep hx] at hk
      injection hk with h1 h2
      cases xs with
      | cons y ys =>
        obtain ⟨hy, _⟩ := noAliasHere_cons hxs
        rw [keepN_cons_keep hy] at h2; cases h2
      | nil =>
        cases x with
        | spread g' => rw [normSel] at h1; rw [h1]
        | field a fid sub => rw [normSel_field] at h1; cases h1
        | inline t sub => rw [normSel_inline] at h1; cases h1
        | typename => rw [normSel] at h1; cases h1
  · intro hs
    subst hs
    rw [keepN_cons_keep (by simp [aliasInl])]
    simp [keepN, normSel]

theorem oiSels_cons {s : Schema} {x : Sel} {xs : List Sel} (h : oiSels s (x :: xs) = true) :
    oiSel s x = true ∧ oiSels s xs = true := by
  simpa [oiSels] using h

theorem oiSel_obj {s : Schema} {a : Option String} {fid : Nat} {sub : List Sel} {sf : StoredField} {i : Nat}
    (hsf : s.fields[fid]? = some sf) (hid : sf.ty.id = .object i) (h : oiSel s (.field a fid sub) = true) :
    noAliasHere sub = true ∧ oiSels s sub = true := by
  rw [oiSel] at h
  simpa [hsf, hid] using h

/-! ## Theorem 1 for `MixedOp2` -/

section CalcN
variable (c : Ctx) (hn : c.o.normalization = .none) (N M : Nat)

def N1 (fuel : Nat) : Prop := ∀ name pfx i sels e, selsDepth sels ≤ e → selsSize sels ≤ N →
  C02.Sb N M e ≤ fuel → noAliasHere sels = true → oiSels c.s sels = true →
  mBody c.s c.q c.o (.object i) (keepN sels) = true → aliasOkSels c sels = true →
  calcSelection c fuel name pfx (.object i) sels = .ok (bodyItemsM c name pfx (keepN sels))
def N4 (fuel : Nat) : Prop := ∀ pfx i sels e, selsDepth sels ≤ e → selsSize sels ≤ N →
  C02.Fneed N M e sels.length ≤ fuel → noAliasHere sels = true → oiSels c.s sels = true →
  mSels c.s c.q c.o (.object i) (keepN sels) = true → aliasOkSels c sels = true →
  calcFields c fuel pfx (.object i) sels = .ok (fieldsOfF c pfx (keepN sels), itemsMs c pfx (keepN sels))

theorem stepN1 (f : Nat) (H4 : N4 c N M f) : N1 c N M (f + 1) := by
  intro name pfx i sels e hD hS hF hna hoi ht hal
  by_cases hsp : ∃ g, sels = [Sel.spread g]
  · obtain ⟨g, rfl⟩ := hsp
    have hk : keepN [Sel.spread g] = [Sel.spread g] := (keepN_lone hna g).mpr rfl
    rw [hk] at ht ⊢
    rw [calcSelection.eq_2]
    have hok : fragOk c.s c.q c.o (.object i) g = true := ht
    obtain ⟨fr, hfr, _, _, _, _⟩ := fragOk_parts hok
    simp only [getFragment_of hfr, bind, Except.bind, pure, Except.pure, not_recursive_of_fragOk hok]
    simp [bodyItemsM, fragName, hfr]
  · have hsp' : ∀ g, sels ≠ [Sel.spread g] := fun g hg => hsp ⟨g, hg⟩
    have hspk : ∀ g, keepN sels ≠ [Sel.spread g] := fun g hg => hsp ⟨g, (keepN_lone hna g).mp hg⟩
    rw [calcSelection.eq_3 _ _ _ _ _ _ (fun g hg => hsp ⟨g, hg⟩)]
    rw [mBody_not_lone hspk] at ht
    have hv : variantsOf c.s (.object i) = .ok none := rfl
    have hL := C02.length_le_selsSize sels
    have hfields := H4 pfx i sels e hD hS (by
      cases e with
      | zero => simp only [C02.Fneed]; unfold C02.Sb at hF; omega
      | succ e' => simp only [C02.Fneed]; rw [C02.Sb_succ] at hF; omega) hna hoi ht hal
    simp only [hv, bind, Except.bind, pure, Except.pure, hfields]
    rw [bodyItemsM_not_lone c name pfx hspk]
    simp [renderType]

include hn in
theorem stepN4 (hM : ∀ ty vts, variantsOf c.s ty = .ok (some vts) → vts.length ≤ M)
    (f : Nat) (H1 : N1 c N M f) (H4 : N4 c N M f) : N4 c N M (f + 1) := by
  intro pfx i sels e hD hS hF hna hoi ht hal
  have H1a := (calc_variantspread2 c hn N M hM f).2.1
  cases sels with
  | nil => rw [calcFields.eq_2 _ _ _ _ (by omega)]; rfl
  | cons x rest =>
    cases e with
    | zero => have := C02.selsDepth_cons_pos x rest; omega
    | succ e =>
      obtain ⟨hax, hnar⟩ := noAliasHere_cons hna
      obtain ⟨hoix, hoir⟩ := oiSels_cons hoi
      obtain ⟨halx, halr⟩ := aliasOkSels_cons hal
      rw [keepN_cons_keep hax] at ht ⊢
      obtain ⟨hx, hrest⟩ := mSels_cons ht
      rw [selsDepth.eq_2] at hD
      rw [selsSize.eq_2] at hS
      simp only [C02.Fneed, List.length_cons] at hF
      have hR := H4 pfx i rest (e + 1) (by omega) (by omega) (by simp only [C02.Fneed]; omega) hnar hoir hrest halr
      rw [fieldsOfF_cons, itemsMs]
      cases x with
      | field a fid sub =>
        rw [selDepth.eq_1] at hD
        rw [selSize.eq_1] at hS
        rw [calcFields.eq_3]
        rw [normSel_field] at hx ⊢
        rw [aliasOkSel, Bool.and_eq_true] at halx
        obtain ⟨sf, hsf⟩ := mSel_field_some hx
        simp only [getField_of hsf, bind, Except.bind]
        simp only [hsf] at halx
        by_cases hobj : ∃ j, sf.ty.id = .object j
        · obtain ⟨j, hid⟩ := hobj
          obtain ⟨hw, hdep', _, hbody⟩ := mSel_obj hsf hid hx
          obtain ⟨hnas, hois⟩ := oiSel_obj hsf hid hoix
          rw [normSels_of_noAliasHere hnas] at hbody ⊢
          have hS' := H1 (pfx ++ c.cs.camel (a.getD sf.name)) (pfx ++ c.cs.camel (a.getD sf.name)) j sub e
            (by omega) (by omega) (by omega) hnas hois hbody halx.2
          simp only [hid, renderField_tree c _ _ _ _ hw hdep', hS', hR, pure, Except.pure]
          have hitems : itemsM c pfx (.field a fid (keepN sub)) =
              bodyItemsM c (pfx ++ c.cs.camel (a.getD sf.name)) (pfx ++ c.cs.camel (a.getD sf.name)) (keepN sub) := by
            rw [itemsM]; simp only [hsf, hid]; rfl
          rw [hitems]
          simp [fieldOfSelF, fieldOfSelV, hsf, hid, leafNameV]
        · have hno : ∀ j, sf.ty.id ≠ .object j := fun j h => hobj ⟨j, h⟩
          have hs := mSel_nonobj hsf hno hx
          rw [itemsM_nonobj c pfx a fid _ sf hsf hno]
          rw [sSel] at hs
          simp only [hsf, Bool.and_eq_true] at hs
          obtain ⟨⟨hw, hdep⟩, hty⟩ := hs
          have hdep' : (sf.deprecation.isSome && c.o.deprecation == .deny) = false := by
            cases hd : (sf.deprecation.isSome && c.o.deprecation == .deny) with
            | false => rfl
            | true => simp [hd] at hdep
          cases hid : sf.ty.id with
          | object j => exact absurd hid (hno j)
          | scalar k =>
            simp only [hid, Bool.and_eq_true] at hty
            cases hk : c.s.scalars[k]? with
            | none => simp [hk] at hty
            | some sn =>
              simp only [getScalar_of hk, hn, C02.fieldType_none, renderField_tree c _ _ _ _ hw hdep', hR,
                pure, Except.pure]
              simp [itemsS, fieldOfSelF, fieldOfSelV, hsf, hid, leafNameV, hk]
          | «enum» k =>
            simp only [hid, Bool.and_eq_true] at hty
            cases hk : c.s.enums[k]? with
            | none => simp [hk] at hty
            | some en =>
              simp only [getEnum_of hk, hn, C02.fieldType_none, renderField_tree c _ _ _ _ hw hdep', hR,
                pure, Except.pure]
              simp [itemsS, fieldOfSelF, fieldOfSelV, hsf, hid, leafNameV, hk]
          | interface k =>
            simp only [hid, Bool.and_eq_true] at hty halx
            have hS' := H1a (pfx ++ c.cs.camel (a.getD sf.name)) (pfx ++ c.cs.camel (a.getD sf.name)) (.interface k) sub e
              (by omega) (by omega) (by omega) hty.1.1 hty.1.2 hty.2 halx.1 halx.2
            simp only [renderField_tree c _ _ _ _ hw hdep', hS', hR, pure, Except.pure]
            simp [itemsS, fieldOfSelF, fieldOfSelV, hsf, hid, leafNameV, absItemsS, absItemsL]
          | union k =>
            simp only [hid, Bool.and_eq_true] at hty halx
            have hS' := H1a (pfx ++ c.cs.camel (a.getD sf.name)) (pfx ++ c.cs.camel (a.getD sf.name)) (.union k) sub e
              (by omega) (by omega) (by omega) hty.1.1 hty.1.2 hty.2 halx.1 halx.2
            simp only [renderField_tree c _ _ _ _ hw hdep', hS', hR, pure, Except.pure]
            simp [itemsS, fieldOfSelF, fieldOfSelV, hsf, hid, leafNameV, absItemsS, absItemsL]
          | input k => simp [hid] at hty
      | spread g =>
        rw [calcFields.eq_4]
        have hns : normSel (.spread g) = .spread g := by rw [normSel]
        rw [hns] at hx ⊢
        have hok : fragOk c.s c.q c.o (.object i) g = true := by simpa [mSel] using hx
        obtain ⟨fr, hfr, hon, hname, _, _⟩ := fragOk_parts hok
        have hne : (fr.on != TypeId.object i) = false := by simp [hon]
        simp only [getFragment_of hfr, bind, Except.bind, hR, hne, Bool.false_eq_true, ↓reduceIte,
          not_recursive_of_fragOk hok, renderField_spread c fr hname, pure, Except.pure]
        simp [fieldOfSelF, hfr, itemsM]
      | inline t sub => rw [normSel_inline] at hx; simp [mSel] at hx
      | typename =>
        have hns : normSel .typename = .typename := by rw [normSel]
        rw [calcFields.eq_5 _ _ _ _ _ _ (by simp) (by simp), hR, hns]
        simp [fieldOfSelF, fieldOfSelV, itemsM]

include hn in
theorem calc_mixed2 (hM : ∀ ty vts, variantsOf c.s ty = .ok (some vts) → vts.length ≤ M) :
    ∀ fuel, N1 c N M fuel ∧ N4 c N M fuel := by
  intro fuel
  induction fuel with
  | zero =>
    refine ⟨?_, ?_⟩
    · intro _ _ _ _ e _ _ h; unfold C02.Sb at h; omega
    · intro _ _ sels e _ _ h; have := C02.Fneed_pos N M e sels.length; omega
  | succ f ih => exact ⟨stepN1 c N M f ih.2, stepN4 c hn N M hM f ih.1 ih.2⟩

end CalcN

/-- **Theorem 1 (`mixed2_items_shape`).**  For an operation of the class `MixedOp2` the response items are those of
    `mixed_items_shape` for the normalized selection set. -/
theorem mixed2_items_shape (c : Ctx) (op : ROperation) (hop : op ∈ c.q.operations) (ht : MixedOp2 c op = true) :
    responseItems c op = .ok (bodyItemsM c "ResponseData" (c.cs.camel op.name) (normSels op.sels)) := by
  obtain ⟨_, hal, hna, hoi, ht'⟩ := mixedOp2_parts ht
  obtain ⟨hn, _, hsels⟩ := mixedOp_parts ht'
  rw [normOp_sels, normOp_objectId, normSels_of_noAliasHere hna] at hsels
  rw [normSels_of_noAliasHere hna]
  have H := (calc_mixed2 c hn (C02.totalSize c.q) (c.s.objects.length + C02.maxUnion c.s)
    (C02.variants_length_le c.s) (calcFuel c.s c.q)).1
  apply H _ _ _ _ (C02.maxDepth c.q) (C02.op_depth_le c.q op hop) _ (calcFuel_Sb c) hna hoi hsels hal
  apply C02.le_foldl_add
  left
  simp only [List.mem_append, List.mem_map]
  exact .inr ⟨op, hop, rfl⟩

/-! ## the environment of the emitted module, for the normalized operation -/

theorem topEnvM2_of_module {c : Ctx} {opIdx : Nat} {op : ROperation} {items : List Item}
    (hop : c.q.operations[opIdx]? = some op) (ht : MixedOp2 c op = true)
    (hgen : responseForQuery c opIdx = .ok items) (hok : moduleOk c items = true) :
    TopEnvM (moduleEnv c items) c (normOp op) := by
  obtain ⟨_, _, _, _, ht'⟩ := mixedOp2_parts ht
  obtain ⟨hn, _, hsels⟩ := mixedOp_parts ht'
  obtain ⟨h1, h2⟩ := topEnvM_of_shape (normSels op.sels) hop hn hsels
    (mixed2_items_shape c op (List.mem_of_getElem? hop) ht)
    (fun u hu => used_norm (C02.selected_types_used c.s c.q opIdx u hu op hop)) hgen hok
  exact ⟨h1, h2⟩

/-! ## the theorems -/

theorem conformsOpM_norm {c : Ctx} {op : ROperation} (hwf : aliasWfSels c.q op.sels = true) (j : Json) :
    conformsOpM c (normOp op) j = conformsOpM c op j := by
  unfold conformsOpM
  rw [normOp_sels, normOp_objectId, conformsV_norm c.s c.q op.sels hwf]

/-- **`mixed2_accepts`.**  Every response that conforms to the operation (specification of the operation as written) is
    accepted by the emitted `ResponseData`. -/
theorem mixed2_accepts (c : Ctx) (opIdx : Nat) (op : ROperation) (items : List Item)
    (hop : c.q.operations[opIdx]? = some op) (ht : MixedOp2 c op = true) (hk : mixedKeysOk c (normOp op) = true)
    (hgen : responseForQuery c opIdx = .ok items) (hok : moduleOk c items = true)
    (j : Json) (hc : conformsOpM c op j = true) :
    ∃ v, Serde.de (moduleEnv c items) (.path "ResponseData") j = .ok v := by
  obtain ⟨hwf, _, _, _, ht'⟩ := mixedOp2_parts ht
  have he := topEnvM2_of_module hop ht hgen hok
  have := top_accepts_iffM (moduleEnv c items) c (normOp op) ht' hk he j
  have hc' : conformsOpM c (normOp op) j = true := by rw [conformsOpM_norm hwf]; exact hc
  rw [conformsM_loose c.s c.q c.o false _ _ _ (mixedOp_parts ht').2.2 hc'] at this
  exact (okB_iff _).mp this

/-- **`mixed2_precise_iff` (C03).** -/
theorem mixed2_precise_iff (c : Ctx) (opIdx : Nat) (op : ROperation) (items : List Item)
    (hop : c.q.operations[opIdx]? = some op) (ht : MixedOp2 c op = true) (hk : mixedKeysOk c (normOp op) = true)
    (hgen : responseForQuery c opIdx = .ok items) (hok : moduleOk c items = true) (j : Json) :
    okB (Serde.de (moduleEnv c items) (.path "ResponseData") j) =
      conformsLooseM c.s c.q c.o false (normSels op.sels) j :=
  top_accepts_iffM (moduleEnv c items) c (normOp op) (mixedOp2_parts ht).2.2.2.2 hk (topEnvM2_of_module hop ht hgen hok) j

/-- **`mixed2_lossless`.**  A response that conforms to the operation (as written) and was read is written back as
    `normJson (canonSelM … (normSels op.sels) j)`: the entries of `... on T { ...F }` are written where the member
    `snake(F)` is — behind the other entries of the variant. -/
theorem mixed2_lossless (c : Ctx) (opIdx : Nat) (op : ROperation) (items : List Item)
    (hop : c.q.operations[opIdx]? = some op) (ht : MixedOp2 c op = true) (hk : mixedKeysOk c (normOp op) = true)
    (hr : mixedRustOk c (normOp op) = true)
    (hgen : responseForQuery c opIdx = .ok items) (hok : moduleOk c items = true)
    (j : Json) (hc : conformsOpM c op j = true) (v : Val)
    (hd : Serde.de (moduleEnv c items) (.path "ResponseData") j = .ok v) :
    Serde.ser (moduleEnv c items) (.path "ResponseData") v =
      .ok (normJson (canonSelM c.s c.q c.o.skipNone (normSels op.sels) j)) := by
  obtain ⟨hwf, _, _, _, ht'⟩ := mixedOp2_parts ht
  have hc' : conformsOpM c (normOp op) j = true := by rw [conformsOpM_norm hwf]; exact hc
  exact top_losslessM (moduleEnv c items) c (normOp op) ht' hk hr (topEnvM2_of_module hop ht hgen hok) j v hc' hd

/-- **`mixed2_roundtrip`**: both in one statement -/
theorem mixed2_roundtrip (c : Ctx) (opIdx : Nat) (op : ROperation) (items : List Item)
    (hop : c.q.operations[opIdx]? = some op) (ht : MixedOp2 c op = true) (hk : mixedKeysOk c (normOp op) = true)
    (hr : mixedRustOk c (normOp op) = true)
    (hgen : responseForQuery c opIdx = .ok items) (hok : moduleOk c items = true)
    (j : Json) (hc : conformsOpM c op j = true) :
    Serde.roundtrip (moduleEnv c items) (.path "ResponseData") j =
      .ok (normJson (canonSelM c.s c.q c.o.skipNone (normSels op.sels) j)) := by
  obtain ⟨v, hv⟩ := mixed2_accepts c opIdx op items hop ht hk hgen hok j hc
  unfold Serde.roundtrip
  rw [hv]
  exact mixed2_lossless c opIdx op items hop ht hk hr hgen hok j hc v hv

/-! ## the class contains `MixedOp` and `VariantSpreadOp2` -/

theorem noAliasHere_of {sels : List Sel} (h : ∀ x ∈ sels, aliasInl x = none) : noAliasHere sels = true := by
  simp only [noAliasHere, List.all_eq_true, Option.isNone_iff_eq_none]
  exact h

mutual
  /-- an operation of `MixedOp` has no aliased inline fragment: nothing to normalize -/
  theorem noAliasM_sel (c : Ctx) : ∀ (x : Sel) (p : TypeId), mSel c.s c.q c.o p x = true →
      normSel x = x ∧ aliasOkSel c x = true ∧ aliasWfSel c.q x = true ∧ aliasInl x = none ∧ oiSel c.s x = true
    | .field a fid sub, p => by
      intro ht
      have IH := noAliasM_sels c sub
      obtain ⟨sf, hsf⟩ := mSel_field_some ht
      by_cases hobj : ∃ i, sf.ty.id = .object i
      · obtain ⟨i, hid⟩ := hobj
        obtain ⟨_, _, _, hbody⟩ := mSel_obj hsf hid ht
        have key : NoAliasAt c sub ∧ oiSels c.s sub = true := by
          by_cases hsp : ∃ g, sub = [Sel.spread g]
          · obtain ⟨g, rfl⟩ := hsp
            refine ⟨⟨by simp [normSels, keepN, movedN, normSel, aliasInl], by simp [aliasOkSels, aliasOkSel],
              by simp [aliasWfSels, aliasWfSel], fun x hx => by simp at hx; subst hx; rfl⟩, by simp [oiSels, oiSel]⟩
          · have hnl : ∀ g, sub ≠ [Sel.spread g] := fun g hg => hsp ⟨g, hg⟩
            rw [mBody_not_lone hnl] at hbody
            exact IH _ hbody
        obtain ⟨⟨h1, h2, h3, h4⟩, h5⟩ := key
        refine ⟨by rw [normSel_field, h1], ?_, by rw [aliasWfSel]; exact h3, rfl, ?_⟩
        · rw [aliasOkSel]
          simp only [hsf, Bool.and_eq_true]
          exact ⟨aliasAt_of_noAlias c _ sub h4, h2⟩
        · rw [oiSel]
          simp only [hsf, hid, Option.map_some, Bool.and_eq_true]
          exact ⟨noAliasHere_of h4, h5⟩
      · have hno : ∀ i, sf.ty.id ≠ .object i := fun i h => hobj ⟨i, h⟩
        obtain ⟨h1, h2, h3, h4⟩ := noAlias_sel c _ false (mSel_nonobj hsf hno ht)
        refine ⟨h1, h2, h3, h4, ?_⟩
        rw [oiSel]
        simp only [hsf, Option.map_some]
        cases hid : sf.ty.id with
        | object i => exact absurd hid (hno i)
        | scalar k => rfl
        | «enum» k => rfl
        | interface k => rfl
        | union k => rfl
        | input k => rfl
    | .spread g, _ => by
      intro _; exact ⟨by rw [normSel], by simp [aliasOkSel], by simp [aliasWfSel], rfl, by simp [oiSel]⟩
    | .inline _ _, _ => by intro ht; simp [mSel] at ht
    | .typename, _ => by
      intro _; exact ⟨by rw [normSel], by simp [aliasOkSel], by simp [aliasWfSel], rfl, by simp [oiSel]⟩
  theorem noAliasM_sels (c : Ctx) : ∀ (sels : List Sel) (p : TypeId), mSels c.s c.q c.o p sels = true →
      NoAliasAt c sels ∧ oiSels c.s sels = true
    | [], _ => by intro _; exact ⟨⟨rfl, rfl, rfl, fun x hx => by simp at hx⟩, rfl⟩
    | x :: xs, p => by
      intro ht
      obtain ⟨hx, hxs⟩ := mSels_cons ht
      obtain ⟨a1, a2, a3, a4, a5⟩ := noAliasM_sel c x p hx
      obtain ⟨⟨b1, b2, b3, b4⟩, b5⟩ := noAliasM_sels c xs p hxs
      have hall : ∀ y ∈ x :: xs, aliasInl y = none := by
        intro y hy
        rcases List.mem_cons.mp hy with h | h
        · rw [h]; exact a4
        · exact b4 y h
      refine ⟨⟨?_, by rw [aliasOkSels, a2, b2]; rfl, by rw [aliasWfSels, a3, b3]; rfl, hall⟩, by rw [oiSels, a5, b5]; rfl⟩
      unfold normSels at b1 ⊢
      rw [movedN_no_alias _ hall, List.append_nil, keepN_cons_keep a4, a1]
      rw [movedN_no_alias _ b4, List.append_nil] at b1
      rw [b1]
end

theorem noAliasM_body (c : Ctx) (sels : List Sel) (p : TypeId) (h : mBody c.s c.q c.o p sels = true) :
    NoAliasAt c sels ∧ oiSels c.s sels = true := by
  by_cases hsp : ∃ g, sels = [Sel.spread g]
  · obtain ⟨g, rfl⟩ := hsp
    exact ⟨⟨by simp [normSels, keepN, movedN, normSel, aliasInl], by simp [aliasOkSels, aliasOkSel],
      by simp [aliasWfSels, aliasWfSel], fun x hx => by simp at hx; subst hx; rfl⟩, by simp [oiSels, oiSel]⟩
  · have hnl : ∀ g, sels ≠ [Sel.spread g] := fun g hg => hsp ⟨g, hg⟩
    rw [mBody_not_lone hnl] at h
    exact noAliasM_sels c sels p h

/-- **the class only grows**: `MixedOp ⊆ MixedOp2`, with the same statements (`normSels op.sels = op.sels`) -/
theorem mixedOp2_of_mixedOp (c : Ctx) (op : ROperation) (h : MixedOp c op = true) :
    MixedOp2 c op = true ∧ normOp op = op := by
  obtain ⟨_, _, hsels⟩ := mixedOp_parts h
  obtain ⟨⟨h1, h2, h3, h4⟩, h5⟩ := noAliasM_body c op.sels _ hsels
  have hno : normOp op = op := by unfold normOp; rw [h1]
  refine ⟨?_, hno⟩
  unfold MixedOp2
  rw [hno, h, h2, h3, h5, noAliasHere_of h4]
  rfl

mutual
  /-- below an operation whose normalization is in `VariantSpreadOp`, no object-level selection set has an aliased inline
      fragment -/
  theorem oiSel_of_norm (s : Schema) (q : Query) (o : Options) : ∀ (x : Sel) (abs : Bool),
      sSel s q o abs (normSel x) = true → oiSel s x = true
    | .field a fid sub, abs => by
      intro h
      have IH := oiSels_of_norm s q o sub
      rw [normSel_field, sSel] at h
      rw [oiSel]
      cases hsf : s.fields[fid]? with
      | none => rfl
      | some sf =>
        simp only [Option.map_some]
        cases hid : sf.ty.id with
        | object i =>
          simp only [hsf, hid, Bool.and_eq_true] at h ⊢
          have hs : sSels s q o false (normSels sub) = true := h.2.1.2
          have hmv := movedN_nil_of_obj hs
          refine ⟨?_, IH false (by simpa [normSels, hmv] using hs)⟩
          apply noAliasHere_of
          intro x hx
          cases ha : aliasInl x with
          | none => rfl
          | some g =>
            have : Sel.spread g ∈ movedN sub := by
              unfold movedN
              exact List.mem_filterMap.mpr ⟨x, hx, by simp [ha]⟩
            rw [hmv] at this; simp at this
        | scalar k => rfl
        | «enum» k => rfl
        | interface k => rfl
        | union k => rfl
        | input k => rfl
    | .spread _, _ => by intro _; simp [oiSel]
    | .inline _ _, _ => by intro _; simp [oiSel]
    | .typename, _ => by intro _; simp [oiSel]
  theorem oiSels_of_norm (s : Schema) (q : Query) (o : Options) : ∀ (sels : List Sel) (abs : Bool),
      sSels s q o abs (keepN sels) = true → oiSels s sels = true
    | [], _ => by intro _; rfl
    | x :: xs, abs => by
      intro h
      cases ha : aliasInl x with
      | some g =>
        obtain ⟨t, rfl⟩ := aliasInl_some ha
        rw [keepN_cons_alias ha] at h
        rw [oiSels, oiSels_of_norm s q o xs abs h]; simp [oiSel]
      | none =>
        rw [keepN_cons_keep ha] at h
        obtain ⟨hx, hxs⟩ := sSels_cons h
        rw [oiSels, oiSel_of_norm s q o x abs hx, oiSels_of_norm s q o xs abs hxs]; rfl
end

/-- **`VariantSpreadOp2 ⊆ MixedOp2`** -/
theorem mixedOp2_of_variantSpreadOp2 (c : Ctx) (op : ROperation) (h : VariantSpreadOp2 c op = true) :
    MixedOp2 c op = true := by
  obtain ⟨hwf, hal, ht⟩ := variantSpreadOp2_parts h
  obtain ⟨_, _, hsels, _⟩ := variantSpreadOp_parts ht
  rw [normOp_sels] at hsels
  have hmv := movedN_nil_of_obj hsels
  have hna : noAliasHere op.sels = true := by
    apply noAliasHere_of
    intro x hx
    cases ha : aliasInl x with
    | none => rfl
    | some g =>
      have : Sel.spread g ∈ movedN op.sels := by
        unfold movedN
        exact List.mem_filterMap.mpr ⟨x, hx, by simp [ha]⟩
      rw [hmv] at this; simp at this
  have hoi : oiSels c.s op.sels = true := oiSels_of_norm c.s c.q c.o op.sels false (by simpa [normSels, hmv] using hsels)
  unfold MixedOp2
  rw [hwf, hal, hna, hoi, mixedOp_of_variantSpreadOp c _ ht]
  rfl

/-! ## the task's example

`query Q { dog { ...DogFields } animal { __typename ...AnimalName ... on Dog { ...DogFields } } }` on the schema `mxSchema`
of part E (`interface Animal { name }`, `Dog`, `Cat`). -/

/-- `animal { __typename ...AnimalName ... on Dog { ...DogFields } }` -/
def exAnimal : List Sel := [.typename, .spread 1, .inline (.object 1) [.spread 0]]

def exItems : List Item := okOr (responseForQuery (mxCtx mxDog exAnimal) 0)

theorem ex_gen : responseForQuery (mxCtx mxDog exAnimal) 0 = .ok exItems := gen_of_isOk (by decide +kernel)
theorem ex_class : MixedOp2 (mxCtx mxDog exAnimal) (mxOp mxDog exAnimal) = true := by decide +kernel
/-- the operation is in none of the existing classes, nor in `MixedOp` -/
theorem ex_not_F : FragmentOp (mxCtx mxDog exAnimal) (mxOp mxDog exAnimal) = false := by decide +kernel
theorem ex_not_S : VariantSpreadOp (mxCtx mxDog exAnimal) (mxOp mxDog exAnimal) = false := by decide +kernel
theorem ex_not_S2 : VariantSpreadOp2 (mxCtx mxDog exAnimal) (mxOp mxDog exAnimal) = false := by decide +kernel
theorem ex_not_M : MixedOp (mxCtx mxDog exAnimal) (mxOp mxDog exAnimal) = false := by decide +kernel
theorem ex_keys : mixedKeysOk (mxCtx mxDog exAnimal) (normOp (mxOp mxDog exAnimal)) = true := by decide +kernel
theorem ex_rust : mixedRustOk (mxCtx mxDog exAnimal) (normOp (mxOp mxDog exAnimal)) = true := by decide +kernel
theorem ex_ok : moduleOk (mxCtx mxDog exAnimal) exItems = true := by decide +kernel

theorem ex_norm : normSels (mxOp mxDog exAnimal).sels = (mxOp mxDog mxAnimal).sels := by
  simp [normSels, keepN, movedN, normSel, aliasInl, mxOp, mxDog, exAnimal, mxAnimal]

theorem ex_items_shape :
    ((moduleEnv (mxCtx mxDog exAnimal) exItems).find "Qdog" == some (.alias "Qdog" true (.path "DogFields"))) &&
    ((moduleEnv (mxCtx mxDog exAnimal) exItems).find "Qanimal" ==
      some (.struct "Qanimal" ["Deserialize"] (some "::serde")
        [{ rust := "AnimalName", ty := .path "AnimalName", flatten := true },
         { rust := "on", ty := .path "QanimalOn", flatten := true }])) &&
    ((moduleEnv (mxCtx mxDog exAnimal) exItems).find "QanimalOnDog" ==
      some (.alias "QanimalOnDog" true (.path "DogFields"))) = true := by
  decide +kernel

set_option maxRecDepth 8000 in
theorem ex_conforms : conformsOpM (mxCtx mxDog exAnimal) (mxOp mxDog exAnimal) mxJson = true := by
  simp only [mxDog, exAnimal, mxJson]; confM_eval

set_option maxRecDepth 8000 in
theorem ex_canon :
    normJson (canonSelM mxSchema (mxQuery mxDog exAnimal) false (normSels (mxOp mxDog exAnimal).sels) mxJson) =
      .obj [("dog", .obj [("barks", .bool true)]),
            ("animal", .obj [("name", .str "Rex"), ("__typename", .str "Dog"), ("barks", .bool false)])] := by
  rw [ex_norm]
  simp only [mxDog, mxAnimal, exAnimal, mxJson]; canonM_eval

/-- **`mixed2_roundtrip` on the generated module of the task's example** -/
theorem ex_roundtrip :
    Serde.roundtrip (moduleEnv (mxCtx mxDog exAnimal) exItems) (.path "ResponseData") mxJson =
      .ok (.obj [("dog", .obj [("barks", .bool true)]),
                 ("animal", .obj [("name", .str "Rex"), ("__typename", .str "Dog"), ("barks", .bool false)])]) := by
  rw [mixed2_roundtrip (mxCtx mxDog exAnimal) 0 (mxOp mxDog exAnimal) exItems rfl ex_class ex_keys ex_rust ex_gen ex_ok mxJson
    ex_conforms]
  exact congrArg Except.ok ex_canon

end C01M
end GqlVerif
