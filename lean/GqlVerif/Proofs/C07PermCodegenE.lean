import GqlVerif.Proofs.C07PermCodegenD
import GqlVerif.Proofs.C02CompleteFrontends
/-!
# C07 / P31 (part E) — `CodegenIsoPermStatement` proved

* `renOf P s` — the total, injective renumbering induced by a `TypePerm` on the tables of `s` (`idxOf` inside the
  tables, the identity outside);
* `Closed s` — every type id stored in `s` points inside its table (field types, `implements`, union members, input
  field types, the name table, the roots); `closed_toSchema : WfAS a → Closed a.toSchema`;
* `typeIso_mapTypes : Closed s → PermOK P s → TypeIso (renOf P s) s (s.mapTypes P)`;
* **`codegen_iso_perm : C07.CodegenIsoPermStatement`** — the statement left open in `Proofs/C07Permutations.lean`,
  at full strength; `codegen_iso_perm_iff` — success is equivalent on the two sides.
-/
set_option linter.unusedSectionVars false
set_option linter.unusedVariables false
set_option linter.unusedSimpArgs false

namespace GqlVerif
namespace C07P
open Resolve Codegen C07 C02Complete

/-! ## `idxOf` made total and injective -/

/-- inside `[0, n)` the new position, outside the identity -/
def rn (σ : List Nat) (n : Nat) (i : Nat) : Nat := if i < n then σ.idxOf i else i

theorem rn_lt {σ : List Nat} {n i : Nat} (hi : i < n) : rn σ n i = σ.idxOf i := by simp [rn, hi]
theorem rn_ge {σ : List Nat} {n i : Nat} (hi : n ≤ i) : rn σ n i = i := by
  have : ¬ i < n := by omega
  simp [rn, this]

theorem rn_inj {σ : List Nat} {n : Nat} (h : σ.Perm (List.range n)) (i j : Nat) (hij : rn σ n i = rn σ n j) : i = j := by
  obtain ⟨hlt, _, hinj, _⟩ := idxOf_bijection σ n h
  rcases Nat.lt_or_ge i n with hi | hi <;> rcases Nat.lt_or_ge j n with hj | hj
  · rw [rn_lt hi, rn_lt hj] at hij; exact hinj i j hi hj hij
  · rw [rn_lt hi, rn_ge hj] at hij; have := hlt i hi; omega
  · rw [rn_ge hi, rn_lt hj] at hij; have := hlt j hj; omega
  · rw [rn_ge hi, rn_ge hj] at hij; exact hij

theorem pick_getElem? {α} (σ : List Nat) (l : List α) (h : σ.Perm (List.range l.length)) (k : Nat) :
    (pick σ l)[k]? = σ[k]?.bind (l[·]?) := by
  obtain ⟨_, _, hmem⟩ := perm_range_facts σ _ h
  exact filterMap_all_some _ σ (fun x hx => by have := (hmem x).1 hx; simp [this]) k

theorem pick_rn {α} (σ : List Nat) (l : List α) (h : σ.Perm (List.range l.length)) (i : Nat) :
    (pick σ l)[rn σ l.length i]? = l[i]? := by
  obtain ⟨_, hlen, _⟩ := perm_range_facts σ _ h
  obtain ⟨_, _, _, _, hinv, _⟩ := idxOf_bijection σ _ h
  rw [pick_getElem? σ l h]
  rcases Nat.lt_or_ge i l.length with hi | hi
  · rw [rn_lt hi, hinv i hi]; rfl
  · rw [rn_ge hi, List.getElem?_eq_none (by omega), List.getElem?_eq_none hi]; rfl

theorem filterMap_congr' {α β} {f g : α → Option β} : ∀ {l : List α}, (∀ x ∈ l, f x = g x) →
    l.filterMap f = l.filterMap g
  | [], _ => rfl
  | x :: l, h => by
    rw [List.filterMap_cons, List.filterMap_cons, h x (by simp),
      filterMap_congr' (l := l) fun y hy => h y (by simp [hy])]

theorem zipIdx_eq_filterMap_range {α} (l : List α) :
    l.zipIdx = (List.range l.length).filterMap fun i => l[i]?.map (·, i) := by
  apply List.ext_getElem?
  intro j
  rw [List.getElem?_zipIdx, filterMap_all_some _ _ (fun x hx => by
    have : x < l.length := by simpa using hx
    simp [this])]
  rcases Nat.lt_or_ge j l.length with hj | hj
  · rw [List.getElem?_range hj]; simp
  · rw [List.getElem?_eq_none hj, List.getElem?_eq_none (by simpa using hj)]; rfl

/-- the table reordered by `σ`, with its new positions: a permutation of the old table with renumbered positions -/
theorem pick_zipIdx_perm {α} (σ : List Nat) (l : List α) (h : σ.Perm (List.range l.length)) :
    (pick σ l).zipIdx.Perm (l.zipIdx.map fun p => (p.1, rn σ l.length p.2)) := by
  obtain ⟨hnd, hlen, hmem⟩ := perm_range_facts σ _ h
  obtain ⟨_, _, _, _, _, hpos⟩ := idxOf_bijection σ _ h
  have e1 : (l.zipIdx.map fun p => (p.1, rn σ l.length p.2)) =
      (List.range l.length).filterMap fun i => l[i]?.map (·, σ.idxOf i) := by
    rw [zipIdx_eq_filterMap_range, List.map_filterMap]
    apply filterMap_congr'
    intro i hi
    have hi' : i < l.length := by simpa using hi
    rw [List.getElem?_eq_getElem hi']
    simp [rn_lt hi']
  have e2 : (pick σ l).zipIdx = σ.filterMap fun i => l[i]?.map (·, σ.idxOf i) := by
    apply List.ext_getElem?
    intro k
    rw [List.getElem?_zipIdx, pick_getElem? σ l h, filterMap_all_some _ σ (fun x hx => by
      have := (hmem x).1 hx; simp [this])]
    rcases Nat.lt_or_ge k σ.length with hk | hk
    · rw [List.getElem?_eq_getElem hk]
      have hx : σ[k] < l.length := (hmem _).1 (List.getElem_mem hk)
      simp [List.getElem?_eq_getElem hx, hpos k hk]
    · rw [List.getElem?_eq_none hk]; rfl
  rw [e1, e2]
  exact h.filterMap _

/-! ## the renumbering of a `TypePerm` -/

def renOf (P : TypePerm) (s : Schema) : Ren :=
  { obj := rn P.objs s.objects.length, sc := rn P.scalars s.scalars.length, ifc := rn P.ifaces s.interfaces.length,
    un := rn P.unions s.unions.length, en := rn P.enums s.enums.length, inp := rn P.inputs s.inputs.length,
    par := P.parent }

/-- every component of `P` is a permutation of the ids of its kind -/
structure PermOK (P : TypePerm) (s : Schema) : Prop where
  scalars : P.scalars.Perm (List.range s.scalars.length)
  enums : P.enums.Perm (List.range s.enums.length)
  ifaces : P.ifaces.Perm (List.range s.interfaces.length)
  objs : P.objs.Perm (List.range s.objects.length)
  unions : P.unions.Perm (List.range s.unions.length)
  inputs : P.inputs.Perm (List.range s.inputs.length)

/-- every type id stored in the schema points inside its table -/
structure Closed (s : Schema) : Prop where
  fieldTy : ∀ f ∈ s.fields, tyOk s f.ty.id = true
  impl : ∀ o ∈ s.objects, ∀ i ∈ o.implements, i < s.interfaces.length
  variants : ∀ u ∈ s.unions, ∀ v ∈ u.variants, tyOk s v = true
  inputTy : ∀ i ∈ s.inputs, ∀ p ∈ i.fields, tyOk s p.2.id = true
  names : ∀ p ∈ s.names, tyOk s p.2 = true
  query : rootOk s s.queryType = true
  mutation : rootOk s s.mutationType = true
  subscription : rootOk s s.subscriptionType = true

theorem renOf_inj {P : TypePerm} {s : Schema} (hP : PermOK P s) : (renOf P s).Inj :=
  ⟨rn_inj hP.objs, rn_inj hP.scalars, rn_inj hP.ifaces, rn_inj hP.unions, rn_inj hP.enums, rn_inj hP.inputs⟩

theorem renOf_tid {P : TypePerm} {s : Schema} {id : TypeId} (h : tyOk s id = true) : (renOf P s).tid id = P.tid id := by
  cases id <;> simp only [tyOk, decide_eq_true_eq] at h <;>
    simp only [Ren.tid, TypePerm.tid, renOf, rn_lt h]

theorem renOf_ft {P : TypePerm} {s : Schema} {ty : FieldType} (h : tyOk s ty.id = true) :
    (renOf P s).ft ty = P.ft ty := by
  simp only [Ren.ft, TypePerm.ft, renOf_tid h]

theorem renOf_root {P : TypePerm} {s : Schema} {r : Option Nat} (h : rootOk s r = true) :
    r.map P.objs.idxOf = r.map (renOf P s).obj := by
  cases r with
  | none => rfl
  | some i =>
    simp only [rootOk, decide_eq_true_eq] at h
    simp only [Option.map_some, renOf, rn_lt h]

theorem typeIso_mapTypes {P : TypePerm} {s : Schema} (hc : Closed s) (hP : PermOK P s) :
    TypeIso (renOf P s) s (s.mapTypes P) := by
  have hobj : ∀ o ∈ s.objects, ({ o with implements := o.implements.map P.ifaces.idxOf } : StoredObject) =
      (renOf P s).object o := by
    intro o ho
    simp only [Ren.object, StoredObject.mk.injEq, true_and]
    apply List.map_congr_left
    intro i hi
    exact (rn_lt (hc.impl o ho i hi)).symm
  have hun : ∀ u ∈ s.unions, ({ u with variants := u.variants.map P.tid } : StoredUnion) = (renOf P s).union u := by
    intro u hu
    simp only [Ren.union, StoredUnion.mk.injEq, true_and]
    apply List.map_congr_left
    intro v hv
    exact (renOf_tid (hc.variants u hu v hv)).symm
  have hinp : ∀ i ∈ s.inputs, ({ i with fields := i.fields.map fun p => (p.1, P.ft p.2) } : StoredInput) =
      (renOf P s).input i := by
    intro i hi
    simp only [Ren.input, StoredInput.mk.injEq, true_and, and_true]
    apply List.map_congr_left
    intro p hp
    rw [renOf_ft (hc.inputTy i hi p hp)]
  have getMap : ∀ {α β : Type} (l : List α) (g g' : α → β) (k : Nat), (∀ x ∈ l, g x = g' x) →
      (l[k]?).map g = (l[k]?).map g' := by
    intro α β l g g' k hg
    cases hk : l[k]? with
    | none => rfl
    | some x => simp only [Option.map_some, hg x (List.mem_of_getElem? hk)]
  refine
    { inj := renOf_inj hP
      fields := ?_
      objAt := ?_, ifcAt := ?_, unAt := ?_, scAt := ?_, enAt := ?_, inpAt := ?_
      objsPerm := ?_, inpsPerm := ?_
      names := ?_
      queryType := renOf_root hc.query
      mutationType := renOf_root hc.mutation
      subscriptionType := renOf_root hc.subscription }
  · simp only [Schema.mapTypes]
    apply List.map_congr_left
    intro f hf
    simp only [TypePerm.field, Ren.field, renOf_ft (hc.fieldTy f hf)]
    rfl
  · intro i
    simp only [Schema.mapTypes, List.getElem?_map]
    rw [show (renOf P s).obj i = rn P.objs s.objects.length i from rfl, pick_rn _ _ hP.objs]
    exact getMap _ _ _ i hobj
  · intro i
    simp only [Schema.mapTypes]
    exact pick_rn _ _ hP.ifaces i
  · intro i
    simp only [Schema.mapTypes, List.getElem?_map]
    rw [show (renOf P s).un i = rn P.unions s.unions.length i from rfl, pick_rn _ _ hP.unions]
    exact getMap _ _ _ i hun
  · intro i
    simp only [Schema.mapTypes]
    exact pick_rn _ _ hP.scalars i
  · intro i
    simp only [Schema.mapTypes]
    exact pick_rn _ _ hP.enums i
  · intro i
    simp only [Schema.mapTypes, List.getElem?_map]
    rw [show (renOf P s).inp i = rn P.inputs s.inputs.length i from rfl, pick_rn _ _ hP.inputs]
    exact getMap _ _ _ i hinp
  · simp only [Schema.mapTypes, List.zipIdx_map]
    refine ((pick_zipIdx_perm _ _ hP.objs).map _).trans (List.Perm.of_eq ?_)
    rw [List.map_map]
    apply List.map_congr_left
    intro p hp
    have hmem : p.1 ∈ s.objects := by
      obtain ⟨o, k⟩ := p
      exact List.mem_of_getElem? (List.mk_mem_zipIdx_iff_getElem?.1 hp)
    simp only [Function.comp, Prod.map, id, hobj p.1 hmem]
    rfl
  · simp only [Schema.mapTypes, List.zipIdx_map]
    refine ((pick_zipIdx_perm _ _ hP.inputs).map _).trans (List.Perm.of_eq ?_)
    rw [List.map_map]
    apply List.map_congr_left
    intro p hp
    have hmem : p.1 ∈ s.inputs := by
      obtain ⟨o, k⟩ := p
      exact List.mem_of_getElem? (List.mk_mem_zipIdx_iff_getElem?.1 hp)
    simp only [Function.comp, Prod.map, id, hinp p.1 hmem]
    rfl
  · simp only [Schema.mapTypes]
    apply List.map_congr_left
    intro p hp
    rw [renOf_tid (hc.names p hp)]

/-! ## the schemas of the front-ends are closed -/

theorem mem_objStored_implements {N : List (String × TypeId)} {so : StoredObject} : ∀ {start : Nat} {os : List AObj},
    so ∈ objStored N start os → ∃ o ∈ os, so.implements = o.implements.map (ifaceId N)
  | _, [], h => by cases h
  | start, o :: os, h => by
    simp only [objStored, List.mem_cons] at h
    rcases h with rfl | h
    · exact ⟨o, by simp, rfl⟩
    · obtain ⟨o', ho', r⟩ := mem_objStored_implements h
      exact ⟨o', List.mem_cons_of_mem _ ho', r⟩

theorem tyId_tyOk (a : AS) (hn : a.known.Nodup) {n : String} (h : n ∈ a.known) :
    tyOk a.toSchema (tyId a.names n) = true := by
  obtain ⟨id, hid⟩ := a.get_of_known hn h
  simp only [tyId, hid, Option.getD_some]
  exact C02Frontends.names_tyOk a hid

/-- **the schema of a well-formed abstract schema is closed** -/
theorem closed_toSchema (a : AS) (hw : WfAS a) : Closed a.toSchema := by
  have hwf := C02Frontends.schemaWf_toSchema a hw
  obtain ⟨hn, hif, hof, himpl, hun, hinp⟩ := hw
  unfold SchemaWf at hwf
  simp only [Bool.and_eq_true, List.all_eq_true] at hwf
  obtain ⟨⟨⟨⟨⟨⟨h1, _⟩, _⟩, h4⟩, h5⟩, h6⟩, h7⟩ := hwf
  refine ⟨h1, ?_, ?_, ?_, h4, h5, h6, h7⟩
  · intro so hso i hi
    obtain ⟨o, ho, himp⟩ := mem_objStored_implements (show so ∈ objStored a.names _ a.objects from hso)
    rw [himp] at hi
    obtain ⟨n, hn', rfl⟩ := List.mem_map.1 hi
    obtain ⟨k, hk⟩ := (lookups a hn).impl n (himpl o ho n hn')
    have := C02Frontends.names_tyOk a hk
    simp only [ifaceId, hk, Option.bind_some, TypeId.asInterface?, Option.getD_some]
    simpa [tyOk] using this
  · intro su hsu v hv
    obtain ⟨u, hu, rfl⟩ := List.mem_map.1 (show su ∈ a.unions.map (storedUnion a.names) from hsu)
    obtain ⟨m, hm, rfl⟩ := List.mem_map.1 (show v ∈ u.members.map (tyId a.names) from hv)
    exact tyId_tyOk a hn (hun u hu m hm)
  · intro si hsi p hp
    obtain ⟨i, hi, rfl⟩ := List.mem_map.1 (show si ∈ a.inputs.map (storedInput a.names) from hsi)
    obtain ⟨f, hf, rfl⟩ := List.mem_map.1 (show p ∈ i.fields.map (fun p => (p.1, ftOf a.names p.2)) from hp)
    exact C02Frontends.ftOf_tyOk a hn (hinp i hi f hf)

theorem permOK_permOf (a a' : AS) (hw : WfAS a) (hp : PermOf a a') : PermOK (permOf a a') a.toSchema := by
  obtain ⟨h1, h2, h3, h4, h5, h6⟩ := permOf_perm a a' hw hp
  exact ⟨h1, h2, h3, h4, h5, h6⟩

/-! ## the statement of `Proofs/C07Permutations.lean` -/

/-- **C07, type-order permutations, end of the chain**: two abstract schemas that list the definitions of every kind
in different orders generate, for every document, all options and case functions, modules that are pairwise equal up
to the order of the items and of the variants of tagged enums, with identical constants (module name, visibility,
struct declaration, `OPERATION_NAME`, `QUERY`, the included query file, the serde path, the `impl` target). -/
theorem codegen_iso_perm : CodegenIsoPermStatement := by
  intro a a' hw hp cs o queryText doc ms hms
  rw [codegen_perm_eq_mapTypes a a' hw hp]
  exact codegen_tiso (typeIso_mapTypes (closed_toSchema a hw) (permOK_permOf a a' hw hp)) cs o queryText doc ms hms

theorem permOf_symm {a a' : AS} (hp : PermOf a a') : PermOf a' a :=
  ⟨hp.scalars.symm, hp.enums.symm, hp.interfaces.symm, hp.objects.symm, hp.unions.symm, hp.inputs.symm,
    hp.query.symm, hp.mutation.symm, hp.subscription.symm⟩

/-- success is equivalent on the two sides -/
theorem codegen_iso_perm_iff (a a' : AS) (hw : WfAS a) (hp : PermOf a a') (cs : CaseFns) (o : Options)
    (queryText : String) (doc : QDoc) :
    (∃ ms, Codegen.generate a.toSchema cs o queryText doc = .ok ms) ↔
      (∃ ms', Codegen.generate a'.toSchema cs o queryText doc = .ok ms') := by
  constructor
  · rintro ⟨ms, hms⟩
    obtain ⟨ms', h', _⟩ := codegen_iso_perm a a' hw hp cs o queryText doc ms hms
    exact ⟨ms', h'⟩
  · rintro ⟨ms', hms'⟩
    obtain ⟨ms, h', _⟩ := codegen_iso_perm a' a (wf_perm a a' hw hp) (permOf_symm hp) cs o queryText doc ms' hms'
    exact ⟨ms, h'⟩

/-- the through-the-front-ends form: any SDL rendering of `a` against any introspection rendering of `a'` -/
theorem codegen_iso_perm_frontends (a a' : AS) (sdl : SdlDoc) (l' : List (Option FullType)) (hw : WfAS a)
    (hp : PermOf a a') (hd : IsSdlOf a sdl) (hi' : IsIntroOf a' (l'.filterMap id))
    (cs : CaseFns) (o : Options) (queryText : String) (doc : QDoc) (ms : List Module)
    (hms : (Sdl.fromSdl sdl >>= fun s => Codegen.generate s cs o queryText doc) = .ok ms) :
    ∃ ms', (Intro.fromIntro true (some (introSchemaOf a' l')) >>= fun s => Codegen.generate s cs o queryText doc) =
      .ok ms' ∧ AllRel ModuleEqv ms ms' := by
  rw [sdl_spec a sdl hw hd] at hms
  rw [intro_spec a' l' (wf_perm a a' hw hp) hi']
  exact codegen_iso_perm a a' hw hp cs o queryText doc ms hms

/-! ## a witness -/

/-- the hypotheses of `typeIso_mapTypes` on the running example of `Proofs/C07Permutations.lean` -/
example : TypeIso (renOf (permOf exASq exASp) exASq.toSchema) exASq.toSchema
    (exASq.toSchema.mapTypes (permOf exASq exASp)) :=
  typeIso_mapTypes (closed_toSchema _ (by decide)) (permOK_permOf _ _ (by decide) (by decide))

/-- a query on the interface `Character` of the running example: its implementors `Human`, `Droid` are listed in
the two orders by `exASq` and `exASp` -/
def wDoc : QDoc :=
  [.op .query (some "Q") [] [.field none "hero" [.field none "__typename" [], .field none "id" [],
     .inline (some "Human") [.field none "height" []]]]]

def wGen (a : AS) : Outcome (List Module) :=
  Codegen.generate a.toSchema ⟨id, id⟩ {} "query Q { hero { __typename id ... on Human { height } } }" wDoc

/-- literal equality of the generated modules FAILS (the variants of the tagged enum `QheroOn` come in object-id
order: `[Human, Droid]` for `exASq`, `[Droid, Human]` for `exASp`; kernel evaluation) … -/
theorem codegen_perm_not_equal :
    (match wGen exASq, wGen exASp with | .ok a, .ok b => !(a == b) | _, _ => false) = true := by
  decide +kernel

theorem ok_of_toBool {α} {x : Outcome α} (h : x.toBool = true) : ∃ a, x = .ok a := by
  cases x with
  | error e => cases h
  | ok a => exact ⟨a, rfl⟩

/-- … and `codegen_iso_perm` relates them -/
example : ∃ ms ms', wGen exASq = .ok ms ∧ wGen exASp = .ok ms' ∧ AllRel ModuleEqv ms ms' := by
  obtain ⟨ms, hms⟩ := ok_of_toBool (x := wGen exASq) (by decide +kernel)
  obtain ⟨ms', hms', hrel⟩ := codegen_iso_perm exASq exASp (by decide) (by decide) _ _ _ _ ms hms
  exact ⟨ms, ms', hms, hms', hrel⟩

end C07P
end GqlVerif
