import GqlVerif.Proofs.C02CompleteFrontends
import GqlVerif.Proofs.C12Items
/-!
# P27 part B — the standing hypotheses of C12 (`InputsWf`, `MentionsFaithful`) discharged from the front-ends

`C12I.input_items_acyclic` / `C12.dfs_complete` assume `InputsWf c.s` (input type names pairwise distinct, `TypeId.input`
ids of input fields in range) and `MentionsFaithful c`.  Here, for ARBITRARY documents (no rendering hypothesis, type
extensions, duplicate names of other kinds, unknown definitions … allowed):

* **`fromSdl_inputsWf`** : `Sdl.fromSdl doc = .ok s → (sdlInputNames doc).Nodup → InputsWf s`, with the closed forms
  `fromSdl_inputs_names : s.inputs.map (·.name) = sdlInputNames doc`, `fromSdl_otherNames` (every other type name of `s`
  is a built-in scalar or the name of a scalar / enum / union / interface / object definition of `doc`);
* **`fromIntro_inputsWf`**, **`fromJson_inputsWf`** : the same for `Intro.fromIntro` / `Intro.fromJson`
  (`introInputNames`: the names of the `INPUT_OBJECT` entries, in order);
* `inputsWf_toSchema`, `inputsWf_of_sdl_rendering`, `inputsWf_of_intro_rendering` : the rendering-based forms
  (`C07.WfAS`), as `C02Frontends.schemaWf_fromSdl`;
* **`mentionsFaithful_of_noCollision`** : `MentionsFaithful c` from the decidable name-level `noCollision`: after
  normalization (`fieldType`) no other type name, and no other input's name, is mentioned under the item name
  (`keywordReplace ∘ inputName`) of an input;
* **`input_items_acyclic_of_sdl`**, `module_input_items_acyclic_of_sdl`, `input_items_acyclic_of_intro` : end to end,
  hypotheses on the document only;
* witnesses: `dup_input_not_wf` (a duplicate `input B`: the front-end succeeds, `InputsWf` is false),
  `dup_input_intro_not_wf`, `kw_collision` (`noCollision` false on the document of `C12I.mentionsFaithful_needed`).
-/
namespace GqlVerif
namespace C12FE
open Codegen C12Graph C12I C07 C02Frontends

/-! ## the invariant of both front-ends -/

/-- the names of the non-input types of a schema -/
def otherNames (s : Schema) : List String :=
  s.scalars ++ s.enums.map (·.name) ++ s.objects.map (·.name) ++ s.interfaces.map (·.name) ++ s.unions.map (·.name)

/-- `K` bounds every input id of the name table and of the fields of the stored inputs; `A` contains every non-input
    type name -/
structure Inv (K : Nat) (A : List String) (s : Schema) : Prop where
  names : ∀ x ∈ s.names, ∀ i, x.2 = .input i → i < K
  fields : ∀ inp ∈ s.inputs, ∀ f ∈ inp.fields, ∀ i, f.2.id = .input i → i < K
  other : ∀ n ∈ otherNames s, n ∈ A

/-- `s'` differs from `s` at most in its `fields` and roots -/
def Same (s s' : Schema) : Prop :=
  s'.names = s.names ∧ s'.inputs = s.inputs ∧ s'.scalars = s.scalars ∧ s'.enums = s.enums ∧
  s'.objects = s.objects ∧ s'.interfaces = s.interfaces ∧ s'.unions = s.unions

theorem Same.refl (s : Schema) : Same s s := ⟨rfl, rfl, rfl, rfl, rfl, rfl, rfl⟩

theorem Same.trans {a b c : Schema} (h1 : Same a b) (h2 : Same b c) : Same a c := by
  obtain ⟨a1, a2, a3, a4, a5, a6, a7⟩ := h1
  obtain ⟨b1, b2, b3, b4, b5, b6, b7⟩ := h2
  exact ⟨b1.trans a1, b2.trans a2, b3.trans a3, b4.trans a4, b5.trans a5, b6.trans a6, b7.trans a7⟩

theorem Same.pushField (s : Schema) (f : StoredField) : Same s (s.pushField f).1 := ⟨rfl, rfl, rfl, rfl, rfl, rfl, rfl⟩

theorem Same.otherNames {s s' : Schema} (h : Same s s') : otherNames s' = otherNames s := by
  obtain ⟨_, _, a3, a4, a5, a6, a7⟩ := h
  simp only [C12FE.otherNames, a3, a4, a5, a6, a7]

/-- the invariant survives a step that keeps the name table and the inputs and adds only names of `A` -/
theorem Inv.step {K : Nat} {A : List String} {s s' : Schema} (hI : Inv K A s) (hn : s'.names = s.names)
    (hi : s'.inputs = s.inputs) (ho : ∀ n ∈ otherNames s', n ∈ otherNames s ∨ n ∈ A) : Inv K A s' :=
  ⟨hn ▸ hI.names, hi ▸ hI.fields, fun n hn' => (ho n hn').elim (hI.other n) id⟩

theorem Inv.same {K : Nat} {A : List String} {s s' : Schema} (hI : Inv K A s) (h : Same s s') : Inv K A s' :=
  hI.step h.1 h.2.1 (fun _ hn => .inl (h.otherNames ▸ hn))

theorem namesGet_mem {n : String} {t : TypeId} : ∀ {l : List (String × TypeId)}, namesGet n l = some t → (n, t) ∈ l
  | [], h => by simp [namesGet] at h
  | (k, v) :: rest, h => by
    unfold namesGet at h
    split at h
    · rename_i hk
      have : n = k := by simpa using hk
      cases h; subst this; exact List.mem_cons_self
    · exact List.mem_cons_of_mem _ (namesGet_mem h)

theorem findTypeId_bound {K : Nat} {A : List String} {s : Schema} (hI : Inv K A s) {n : String} {t : TypeId}
    (h : s.findTypeId n = .ok t) {i : Nat} (ht : t = .input i) : i < K := by
  unfold Schema.findTypeId Schema.findType at h
  split at h
  · rename_i t' hg
    simp only [pure, Except.pure, Except.ok.injEq] at h
    subst h
    exact hI.names _ (namesGet_mem hg) i ht
  · cases h

theorem resolveFieldType_bound {K : Nat} {A : List String} {s : Schema} (hI : Inv K A s) {t : GTy} {ft : FieldType}
    (h : resolveFieldType s t = .ok ft) {i : Nat} (ht : ft.id = .input i) : i < K := by
  unfold resolveFieldType at h
  obtain ⟨id, hid, h⟩ := C02.bind_ok h
  simp only [pure, Except.pure, Except.ok.injEq] at h
  subst h
  exact findTypeId_bound hI hid ht

/-- inserting a non-input entry keeps the bound -/
theorem names_insert_bound {K : Nat} {l : List (String × TypeId)} (h : ∀ x ∈ l, ∀ i, x.2 = .input i → i < K)
    (k : String) (v : TypeId) (hv : ∀ i, v = .input i → i < K) :
    ∀ x ∈ namesInsert k v l, ∀ i, x.2 = .input i → i < K := by
  intro x hx i hi
  rcases mem_namesInsert hx with rfl | hx
  · exact hv i hi
  · exact h x hx i hi

theorem insAll_bound {K : Nat} {ps l : List (String × TypeId)} (h : ∀ x ∈ l, ∀ i, x.2 = .input i → i < K)
    (hp : ∀ x ∈ ps, ∀ i, x.2 = .input i → i < K) : ∀ x ∈ insAll ps l, ∀ i, x.2 = .input i → i < K := by
  intro x hx
  rcases mem_insAll hx with hx | hx
  · exact hp x hx
  · exact h x hx

theorem pairsFrom_bound (mk : Nat → TypeId) (ns : List String) (K : Nat)
    (hmk : ∀ j i, j < ns.length → mk j = .input i → i < K) :
    ∀ x ∈ pairsFrom mk ns 0, ∀ i, x.2 = .input i → i < K := by
  intro x hx i hi
  obtain ⟨j, _, hj, hid⟩ := mem_pairsFrom_range mk ns 0 x.1 x.2 hx
  exact hmk j i (by omega) (hid ▸ hi)

theorem schema_new_inv (K : Nat) (A : List String) (hA : ∀ n ∈ Schema.defaultScalars, n ∈ A) : Inv K A Schema.new := by
  rw [schema_new]
  refine ⟨?_, fun inp h => (by cases h), ?_⟩
  · exact insAll_bound (fun x h => (by cases h)) (pairsFrom_bound _ _ _ (fun j i _ h => (by cases h)))
  · intro n hn
    simp only [otherNames, List.map_nil, List.append_nil] at hn
    exact hA n hn

/-! ## SDL -/

def sdlInputPick : SdlDef → Option String
  | .input n _ _ => some n
  | _ => none

def sdlOtherPick : SdlDef → Option String
  | .scalar n => some n
  | .enum n _ => some n
  | .union n _ => some n
  | .interface n _ => some n
  | .object n _ _ => some n
  | _ => none

/-- the names of the `input` definitions of the document, in order -/
def sdlInputNames (doc : SdlDoc) : List String := doc.filterMap sdlInputPick

/-- the built-in scalars and the names of the scalar / enum / union / interface / object definitions -/
def sdlOtherNames (doc : SdlDoc) : List String := Schema.defaultScalars ++ doc.filterMap sdlOtherPick

theorem sdlInputNames_eq (doc : SdlDoc) :
    Sdl.namesOfKind doc (fun | .input n _ _ => some n | _ => none) = sdlInputNames doc := by
  unfold Sdl.namesOfKind sdlInputNames
  congr 1

theorem sdl_ingestFields_same (parent : FieldParent) : ∀ (fs : List SdlField) (s s' : Schema) (ids : List Nat),
    Sdl.ingestFields s parent fs = .ok (s', ids) → Same s s'
  | [], s, s', ids, h => by
    simp only [Sdl.ingestFields, pure, Except.pure, Except.ok.injEq, Prod.mk.injEq] at h
    rw [← h.1]; exact Same.refl s
  | f :: fs, s, s', ids, h => by
    rw [Sdl.ingestFields] at h
    obtain ⟨ty, _, h⟩ := C02.bind_ok h
    simp only [] at h
    obtain ⟨⟨s2, ids2⟩, hr, h⟩ := C02.bind_ok h
    simp only [pure, Except.pure, Except.ok.injEq, Prod.mk.injEq] at h
    rw [← h.1]
    exact (Same.pushField s _).trans (sdl_ingestFields_same parent fs _ _ _ hr)

theorem mem_otherNames {s : Schema} {n : String} : n ∈ otherNames s ↔
    n ∈ s.scalars ∨ (∃ e ∈ s.enums, e.name = n) ∨ (∃ o ∈ s.objects, o.name = n) ∨
    (∃ i ∈ s.interfaces, i.name = n) ∨ (∃ u ∈ s.unions, u.name = n) := by
  simp only [otherNames, List.mem_append, List.mem_map, or_assoc]

/-- a step that adds at most the name `n0 ∈ A` to the non-input names -/
theorem other_step {s s' : Schema} {A : List String} {n0 : String} (hn0 : n0 ∈ A)
    (h1 : ∀ m ∈ s'.scalars, m ∈ s.scalars ∨ m = n0)
    (h2 : ∀ m ∈ s'.enums.map (·.name), m ∈ s.enums.map (·.name) ∨ m = n0)
    (h3 : ∀ m ∈ s'.objects.map (·.name), m ∈ s.objects.map (·.name) ∨ m = n0)
    (h4 : ∀ m ∈ s'.interfaces.map (·.name), m ∈ s.interfaces.map (·.name) ∨ m = n0)
    (h5 : ∀ m ∈ s'.unions.map (·.name), m ∈ s.unions.map (·.name) ∨ m = n0) :
    ∀ n ∈ otherNames s', n ∈ otherNames s ∨ n ∈ A := by
  intro n hn
  simp only [otherNames, List.mem_append] at hn ⊢
  rcases hn with (((hn | hn) | hn) | hn) | hn
  · rcases h1 n hn with h | rfl
    · exact .inl (.inl (.inl (.inl (.inl h))))
    · exact .inr hn0
  · rcases h2 n hn with h | rfl
    · exact .inl (.inl (.inl (.inl (.inr h))))
    · exact .inr hn0
  · rcases h3 n hn with h | rfl
    · exact .inl (.inl (.inl (.inr h)))
    · exact .inr hn0
  · rcases h4 n hn with h | rfl
    · exact .inl (.inl (.inr h))
    · exact .inr hn0
  · rcases h5 n hn with h | rfl
    · exact .inl (.inr h)
    · exact .inr hn0

theorem mem_map_snoc {α : Type} (f : α → String) (l : List α) (x : α) (m : String)
    (h : m ∈ (l ++ [x]).map f) : m ∈ l.map f ∨ m = f x := by
  simp only [List.map_append, List.mem_append, List.map_cons, List.map_nil, List.mem_singleton] at h
  exact h

/-- a custom scalar is added -/
theorem scalar_other {s : Schema} {A : List String} {name : String} (names' : List (String × TypeId)) (hn : name ∈ A)
    (hI : ∀ n ∈ otherNames s, n ∈ A) :
    ∀ m ∈ otherNames { s with scalars := s.scalars ++ [name], names := names' }, m ∈ A := by
  intro m hm
  exact (other_step (s := s) (s' := { s with scalars := s.scalars ++ [name], names := names' }) hn
    (fun m h => by simp only [List.mem_append, List.mem_singleton] at h; exact h)
    (fun _ h => .inl h) (fun _ h => .inl h) (fun _ h => .inl h) (fun _ h => .inl h) m hm).elim (hI m) id

/-- an enum is added (the name table may change) -/
theorem enum_other {s : Schema} {A : List String} (e : StoredEnum) (names' : List (String × TypeId)) (hn : e.name ∈ A)
    (hI : ∀ n ∈ otherNames s, n ∈ A) :
    ∀ m ∈ otherNames { s with enums := s.enums ++ [e], names := names' }, m ∈ A := by
  intro m hm
  exact (other_step (s := s) (s' := { s with enums := s.enums ++ [e], names := names' }) hn
    (fun _ h => .inl h) (fun m h => mem_map_snoc _ _ _ m h)
    (fun _ h => .inl h) (fun _ h => .inl h) (fun _ h => .inl h) m hm).elim (hI m) id

/-- `match o with | some x => pure x | none => panic' _` followed by a continuation: the `none` branch fails -/
macro "kill_panic" h:ident : tactic =>
  `(tactic| (obtain ⟨_, hb, _⟩ := C02.bind_ok $h; cases hb))

/-- **one `ingestDef` step** keeps the invariant; only pass 6 on an `input` definition touches the inputs: it appends one
    input with that name -/
theorem sdl_step {K : Nat} {A : List String} {p : Nat} {s s' : Schema} {d : SdlDef}
    (h : Sdl.ingestDef p s d = .ok s') (hA : ∀ n, sdlOtherPick d = some n → n ∈ A) (hI : Inv K A s) :
    Inv K A s' ∧
    s'.inputs.map (·.name) = s.inputs.map (·.name) ++ (if p = 6 then (sdlInputPick d).toList else []) := by
  unfold Sdl.ingestDef at h
  split at h
  · -- pass 0, scalar
    rename_i n
    simp only [pure, Except.pure, Except.ok.injEq] at h
    subst h
    refine ⟨⟨?_, hI.fields, ?_⟩, by simp [Sdl.ingestScalar, Schema.pushScalar]⟩
    · exact names_insert_bound hI.names _ _ (fun i hi => by cases hi)
    · exact scalar_other _ (hA n rfl) hI.other
  · -- pass 1, enum
    rename_i n vs
    simp only [pure, Except.pure, Except.ok.injEq] at h
    subst h
    exact ⟨hI.step rfl rfl (other_step (hA n rfl) (fun _ h => .inl h) (fun m h => mem_map_snoc _ _ _ m h)
      (fun _ h => .inl h) (fun _ h => .inl h) (fun _ h => .inl h)), by simp⟩
  · -- pass 2, union
    rename_i n ts
    obtain ⟨vs, _, h⟩ := C02.bind_ok h
    simp only [pure, Except.pure, Except.ok.injEq] at h
    subst h
    exact ⟨hI.step rfl rfl (other_step (hA n rfl) (fun _ h => .inl h) (fun _ h => .inl h)
      (fun _ h => .inl h) (fun _ h => .inl h) (fun m h => mem_map_snoc _ _ _ m h)), by simp⟩
  · -- pass 3, interface
    rename_i n fs
    obtain ⟨x, _, h⟩ := C02.bind_ok h
    simp only [] at h
    split at h
    · obtain ⟨id, _, h⟩ := C02.bind_ok h
      obtain ⟨⟨s1, ids⟩, hf, h⟩ := C02.bind_ok h
      simp only [pure, Except.pure, Except.ok.injEq] at h
      subst h
      have hs := sdl_ingestFields_same _ _ _ _ _ hf
      exact ⟨(hI.same hs).step rfl rfl (other_step (hA n rfl) (fun _ h => .inl h) (fun _ h => .inl h)
        (fun _ h => .inl h) (fun m h => mem_map_snoc _ _ _ m h) (fun _ h => .inl h)), by simp [hs.2.1]⟩
    · obtain ⟨id, hid, _⟩ := C02.bind_ok h
      cases hid
  · -- pass 4, object
    rename_i n impls fs
    obtain ⟨x, _, h⟩ := C02.bind_ok h
    simp only [] at h
    split at h
    · obtain ⟨id, _, h⟩ := C02.bind_ok h
      obtain ⟨⟨s1, ids⟩, hf, h⟩ := C02.bind_ok h
      obtain ⟨ifs, _, h⟩ := C02.bind_ok h
      simp only [pure, Except.pure, Except.ok.injEq] at h
      subst h
      have hs := sdl_ingestFields_same _ _ _ _ _ hf
      exact ⟨(hI.same hs).step rfl rfl (other_step (hA n rfl) (fun _ h => .inl h) (fun _ h => .inl h)
        (fun m h => mem_map_snoc _ _ _ m h) (fun _ h => .inl h) (fun _ h => .inl h)), by simp [hs.2.1]⟩
    · obtain ⟨id, hid, _⟩ := C02.bind_ok h
      cases hid
  · -- pass 5, type extension
    rename_i n impls fs
    obtain ⟨x, _, h⟩ := C02.bind_ok h
    simp only [] at h
    split at h
    · obtain ⟨id, _, h⟩ := C02.bind_ok h
      obtain ⟨⟨s1, ids⟩, hf, h⟩ := C02.bind_ok h
      obtain ⟨ifs, _, h⟩ := C02.bind_ok h
      simp only [] at h
      have hs := sdl_ingestFields_same _ _ _ _ _ hf
      split at h
      · cases h
      · rename_i o ho
        simp only [pure, Except.pure, Except.ok.injEq] at h
        subst h
        refine ⟨(hI.same hs).step rfl rfl (fun m hm => .inl ?_), by simp [hs.2.1]⟩
        rw [mem_otherNames] at hm ⊢
        rcases hm with hm | hm | ⟨u, hu, rfl⟩ | hm | hm
        · exact .inl hm
        · exact .inr (.inl hm)
        · refine .inr (.inr (.inl ?_))
          rcases List.mem_or_eq_of_mem_set hu with hu | rfl
          · exact ⟨u, hu, rfl⟩
          · exact ⟨o, List.mem_of_getElem? ho, rfl⟩
        · exact .inr (.inr (.inr (.inl hm)))
        · exact .inr (.inr (.inr (.inr hm)))
    · obtain ⟨id, hid, _⟩ := C02.bind_ok h
      cases hid
  · -- pass 6, input
    rename_i n dirs fs
    obtain ⟨fields, hfs, h⟩ := C02.bind_ok h
    simp only [pure, Except.pure, Except.ok.injEq] at h
    subst h
    refine ⟨⟨hI.names, ?_, hI.other⟩, by simp [sdlInputPick]⟩
    intro inp hinp f hf i hi
    rcases List.mem_append.mp hinp with hinp | hinp
    · exact hI.fields inp hinp f hf i hi
    · simp only [List.mem_singleton] at hinp
      subst hinp
      obtain ⟨x, _, hx⟩ := C02.mapM_ok_mem hfs f hf
      obtain ⟨ty, hty, hx⟩ := C02.bind_ok hx
      simp only [pure, Except.pure, Except.ok.injEq] at hx
      subst hx
      exact resolveFieldType_bound hI hty hi
  · -- every other combination: nothing happens
    rename_i hne
    simp only [pure, Except.pure, Except.ok.injEq] at h
    subst h
    refine ⟨hI, ?_⟩
    split
    · rename_i hp
      subst hp
      cases d <;> first | exact (hne _ _ _ rfl rfl).elim | simp [sdlInputPick]
    · simp

theorem sdl_pass {K : Nat} {A : List String} (p : Nat) : ∀ (l : SdlDoc) (s s' : Schema),
    Sdl.ingestPass p s l = .ok s' → (∀ d ∈ l, ∀ n, sdlOtherPick d = some n → n ∈ A) → Inv K A s →
    Inv K A s' ∧ s'.inputs.map (·.name) = s.inputs.map (·.name) ++ (if p = 6 then sdlInputNames l else [])
  | [], s, s', h, _, hI => by
    simp only [Sdl.ingestPass, List.foldlM_nil, pure, Except.pure, Except.ok.injEq] at h
    subst h
    refine ⟨hI, ?_⟩
    split <;> simp [sdlInputNames]
  | d :: l, s, s', h, hA, hI => by
    simp only [Sdl.ingestPass, List.foldlM_cons] at h
    obtain ⟨s1, h1, h⟩ := C02.bind_ok h
    obtain ⟨hI1, e1⟩ := sdl_step h1 (hA d List.mem_cons_self) hI
    obtain ⟨hI2, e2⟩ := sdl_pass p l s1 s' h (fun d' hd' => hA d' (List.mem_cons_of_mem _ hd')) hI1
    refine ⟨hI2, ?_⟩
    rw [e2, e1]
    split
    · simp only [sdlInputNames, List.filterMap_cons, List.append_assoc]
      cases sdlInputPick d <;> simp
    · simp

/-- **the closed form of what `Sdl.fromSdl` returns about inputs and names**, for ANY document -/
theorem fromSdl_facts {doc : SdlDoc} {s : Schema} (h : Sdl.fromSdl doc = .ok s) :
    Inv (sdlInputNames doc).length (sdlOtherNames doc) s ∧ s.inputs.map (·.name) = sdlInputNames doc := by
  unfold Sdl.fromSdl at h
  simp only [] at h
  have hA : ∀ d ∈ doc, ∀ n, sdlOtherPick d = some n → n ∈ sdlOtherNames doc := by
    intro d hd n hn
    unfold sdlOtherNames
    exact List.mem_append_right _ (List.mem_filterMap.mpr ⟨d, hd, hn⟩)
  have h0 : Inv (sdlInputNames doc).length (sdlOtherNames doc) (Sdl.populateNames Schema.new doc) ∧
      (Sdl.populateNames Schema.new doc).inputs = [] := by
    have hnew := schema_new_inv (sdlInputNames doc).length (sdlOtherNames doc)
      (fun n hn => List.mem_append_left _ hn)
    refine ⟨⟨?_, ?_, ?_⟩, ?_⟩
    · unfold Sdl.populateNames
      simp only [zipIdx_foldl_eq']
      refine insAll_bound (insAll_bound (insAll_bound (insAll_bound (insAll_bound hnew.names ?_) ?_) ?_) ?_) ?_
      · exact pairsFrom_bound _ _ _ (fun j i _ h => by cases h)
      · exact pairsFrom_bound _ _ _ (fun j i _ h => by cases h)
      · exact pairsFrom_bound _ _ _ (fun j i _ h => by cases h)
      · exact pairsFrom_bound _ _ _ (fun j i _ h => by cases h)
      · exact pairsFrom_bound _ _ _ (fun j i hj h => by cases h; exact hj)
    · exact hnew.fields
    · exact hnew.other
    · rw [show (Sdl.populateNames Schema.new doc).inputs = Schema.new.inputs from rfl, schema_new]
  obtain ⟨hI, hin⟩ := h0
  obtain ⟨s0, hp0, h⟩ := C02.bind_ok h
  obtain ⟨s1, hp1, h⟩ := C02.bind_ok h
  obtain ⟨s2, hp2, h⟩ := C02.bind_ok h
  obtain ⟨s3, hp3, h⟩ := C02.bind_ok h
  obtain ⟨s4, hp4, h⟩ := C02.bind_ok h
  obtain ⟨s5, hp5, h⟩ := C02.bind_ok h
  obtain ⟨s6, hp6, h⟩ := C02.bind_ok h
  obtain ⟨hI0, e0⟩ := sdl_pass 0 doc _ _ hp0 hA hI
  obtain ⟨hI1, e1⟩ := sdl_pass 1 doc _ _ hp1 hA hI0
  obtain ⟨hI2, e2⟩ := sdl_pass 2 doc _ _ hp2 hA hI1
  obtain ⟨hI3, e3⟩ := sdl_pass 3 doc _ _ hp3 hA hI2
  obtain ⟨hI4, e4⟩ := sdl_pass 4 doc _ _ hp4 hA hI3
  obtain ⟨hI5, e5⟩ := sdl_pass 5 doc _ _ hp5 hA hI4
  obtain ⟨hI6, e6⟩ := sdl_pass 6 doc _ _ hp6 hA hI5
  have hnames : s6.inputs.map (·.name) = sdlInputNames doc := by
    rw [e6, e5, e4, e3, e2, e1, e0, hin]
    simp
  have hfin : ∀ q m sub, Inv (sdlInputNames doc).length (sdlOtherNames doc)
      { s6 with queryType := q, mutationType := m, subscriptionType := sub } ∧
      ({ s6 with queryType := q, mutationType := m, subscriptionType := sub } : Schema).inputs.map (·.name) =
        sdlInputNames doc :=
    fun q m sub => ⟨hI6.same ⟨rfl, rfl, rfl, rfl, rfl, rfl, rfl⟩, hnames⟩
  split at h
  · simp only [pure, Except.pure, Except.ok.injEq] at h
    subst h
    exact hfin _ _ _
  · simp only [pure, Except.pure, Except.ok.injEq] at h
    subst h
    exact hfin _ _ _

/-- the invariant gives `InputsWf` as soon as the input names are pairwise distinct -/
theorem inputsWf_of_inv {K : Nat} {A : List String} {s : Schema} (hI : Inv K A s) (hK : K = s.inputs.length)
    (hnd : (s.inputs.map (·.name)).Nodup) : InputsWf s := by
  simp only [InputsWf, inputsWf, Bool.and_eq_true, decide_eq_true_eq, List.all_eq_true]
  refine ⟨hnd, fun inp hinp f hf => ?_⟩
  cases hfi : f.2.id.asInput? with
  | none => rfl
  | some i =>
    have := hI.fields inp hinp f hf i (asInput?_eq_some.mp hfi)
    simp only [decide_eq_true_eq]
    omega

theorem fromSdl_inputs_names {doc : SdlDoc} {s : Schema} (h : Sdl.fromSdl doc = .ok s) :
    s.inputs.map (·.name) = sdlInputNames doc := (fromSdl_facts h).2

theorem fromSdl_otherNames {doc : SdlDoc} {s : Schema} (h : Sdl.fromSdl doc = .ok s) :
    ∀ n ∈ otherNames s, n ∈ sdlOtherNames doc := (fromSdl_facts h).1.other

/-- **Part B.1 (SDL)** — for ANY document the SDL front-end accepts: if its `input` definitions have pairwise distinct
    names, the schema satisfies `InputsWf` -/
theorem fromSdl_inputsWf {doc : SdlDoc} {s : Schema} (h : Sdl.fromSdl doc = .ok s)
    (hnd : (sdlInputNames doc).Nodup) : InputsWf s := by
  obtain ⟨hI, hn⟩ := fromSdl_facts h
  refine inputsWf_of_inv hI ?_ (hn ▸ hnd)
  rw [← hn, List.length_map]

/-- … and conversely `InputsWf` of the result forces distinct names: the hypothesis is exactly what is needed -/
theorem fromSdl_inputsWf_iff {doc : SdlDoc} {s : Schema} (h : Sdl.fromSdl doc = .ok s) :
    InputsWf s ↔ (sdlInputNames doc).Nodup :=
  ⟨fun hw => fromSdl_inputs_names h ▸ hw.nodup, fromSdl_inputsWf h⟩

/-! ## introspection -/

/-- the names of the `INPUT_OBJECT` entries, in order -/
def introInputNames (ts : List FullType) : List String := (Intro.ofKind ts "INPUT_OBJECT").filterMap (·.name)

/-- the built-in scalars and the names of all entries that are not `INPUT_OBJECT`s -/
def introOtherNames (ts : List FullType) : List String :=
  Schema.defaultScalars ++ (ts.filter (fun t => t.kind != some "INPUT_OBJECT")).filterMap (·.name)

/-- the entries `fromIntro` works on -/
def introTypesOf (src : Option IntroSchema) : List FullType :=
  match src with
  | some x => (x.types.getD []).filterMap id
  | none => []

theorem expectName_ok {what : String} {t : FullType} {n : String} (h : Intro.expectName what t = .ok n) :
    t.name = some n := by
  unfold Intro.expectName at h
  split at h
  · rename_i m hm
    simp only [pure, Except.pure, Except.ok.injEq] at h
    rw [hm, h]
  · cases h

theorem expectNames_eq {what : String} : ∀ (l : List FullType) (ns : List String),
    l.mapM (Intro.expectName what) = .ok ns → ns = l.filterMap (·.name)
  | [], ns, h => by
    simp only [List.mapM_nil, pure, Except.pure, Except.ok.injEq] at h
    subst h; rfl
  | t :: l, ns, h => by
    rw [List.mapM_cons] at h
    obtain ⟨n, hn, h⟩ := C02.bind_ok h
    obtain ⟨ns', hns, h⟩ := C02.bind_ok h
    simp only [pure, Except.pure, Except.ok.injEq] at h
    subst h
    rw [List.filterMap_cons, expectName_ok hn, expectNames_eq l ns' hns]

theorem fromJsonType_bound {K : Nat} {A : List String} {s : Schema} (hI : Inv K A s) (r : TypeRef) :
    ∀ (ft : FieldType), Intro.fromJsonType s r = .ok ft → ∀ i, ft.id = .input i → i < K := by
  fun_induction Intro.fromJsonType s r with
  | case1 x inner ih =>
    intro ft h i hi
    obtain ⟨r', hr', h⟩ := C02.bind_ok h
    simp only [pure, Except.pure, Except.ok.injEq] at h
    subst h
    exact ih r' hr' i hi
  | case2 x inner ih =>
    intro ft h i hi
    obtain ⟨r', hr', h⟩ := C02.bind_ok h
    simp only [pure, Except.pure, Except.ok.injEq] at h
    subst h
    exact ih r' hr' i hi
  | case3 k name id hg =>
    intro ft h i hi
    simp only [pure, Except.pure, Except.ok.injEq] at h
    subst h
    exact hI.names _ (namesGet_mem hg) i hi
  | case4 => intro ft h; cases h
  | case5 => intro ft h; cases h

theorem intro_ingestFields_same (parent : FieldParent) : ∀ (fs : List IntroField) (s s' : Schema) (ids : List Nat),
    Intro.ingestFields s parent fs = .ok (s', ids) → Same s s'
  | [], s, s', ids, h => by
    simp only [Intro.ingestFields, pure, Except.pure, Except.ok.injEq, Prod.mk.injEq] at h
    rw [← h.1]; exact Same.refl s
  | f :: fs, s, s', ids, h => by
    rw [Intro.ingestFields] at h
    split at h
    · try simp only [pure_bind] at h
      split at h
      · try simp only [pure_bind] at h
        obtain ⟨ty, _, h⟩ := C02.bind_ok h
        obtain ⟨⟨s2, ids2⟩, hr, h⟩ := C02.bind_ok h
        simp only [pure, Except.pure, Except.ok.injEq, Prod.mk.injEq] at h
        rw [← h.1]
        exact (Same.pushField s _).trans (intro_ingestFields_same parent fs _ _ _ hr)
      · kill_panic h
    · kill_panic h

theorem intro_scalar_step {K : Nat} {A : List String} {s s' : Schema} {t : FullType}
    (h : Intro.ingestScalar s t = .ok s') (hA : ∀ n, t.name = some n → n ∈ A) (hI : Inv K A s) :
    Inv K A s' ∧ s'.inputs = s.inputs := by
  unfold Intro.ingestScalar at h
  obtain ⟨name, hn, h⟩ := C02.bind_ok h
  simp only [pure, Except.pure, Except.ok.injEq] at h
  subst h
  refine ⟨⟨?_, hI.fields, ?_⟩, rfl⟩
  · exact names_insert_bound hI.names _ _ (fun i hi => by cases hi)
  · exact scalar_other _ (hA name (expectName_ok hn)) hI.other

theorem intro_enum_step {K : Nat} {A : List String} {s s' : Schema} {t : FullType}
    (h : Intro.ingestEnum s t = .ok s') (hA : ∀ n, t.name = some n → n ∈ A) (hI : Inv K A s) :
    Inv K A s' ∧ s'.inputs = s.inputs := by
  unfold Intro.ingestEnum at h
  obtain ⟨name, hn, h⟩ := C02.bind_ok h
  simp only [] at h
  split at h
  · try simp only [pure_bind] at h
    obtain ⟨variants, _, h⟩ := C02.bind_ok h
    simp only [pure, Except.pure, Except.ok.injEq] at h
    subst h
    refine ⟨⟨?_, hI.fields, ?_⟩, rfl⟩
    · exact names_insert_bound hI.names _ _ (fun i hi => by cases hi)
    · exact enum_other _ _ (hA name (expectName_ok hn)) hI.other
  · kill_panic h

theorem intro_iface_step {K : Nat} {A : List String} {s s' : Schema} {t : FullType}
    (h : Intro.ingestInterface s t = .ok s') (hA : ∀ n, t.name = some n → n ∈ A) (hI : Inv K A s) :
    Inv K A s' ∧ s'.inputs = s.inputs := by
  unfold Intro.ingestInterface at h
  obtain ⟨name, hn, h⟩ := C02.bind_ok h
  obtain ⟨x, _, h⟩ := C02.bind_ok h
  simp only [] at h
  split at h
  · try simp only [pure_bind] at h
    split at h
    · try simp only [pure_bind] at h
      obtain ⟨⟨s1, ids⟩, hf, h⟩ := C02.bind_ok h
      simp only [pure, Except.pure, Except.ok.injEq] at h
      subst h
      have hs := intro_ingestFields_same _ _ _ _ _ hf
      exact ⟨(hI.same hs).step rfl rfl (other_step (hA name (expectName_ok hn)) (fun _ h => .inl h)
        (fun _ h => .inl h) (fun _ h => .inl h) (fun m h => mem_map_snoc _ _ _ m h) (fun _ h => .inl h)), hs.2.1⟩
    · kill_panic h
  · kill_panic h

theorem intro_object_step {K : Nat} {A : List String} {s s' : Schema} {t : FullType}
    (h : Intro.ingestObject s t = .ok s') (hA : ∀ n, t.name = some n → n ∈ A) (hI : Inv K A s) :
    Inv K A s' ∧ s'.inputs = s.inputs := by
  unfold Intro.ingestObject at h
  obtain ⟨name, hn, h⟩ := C02.bind_ok h
  obtain ⟨x, _, h⟩ := C02.bind_ok h
  simp only [] at h
  split at h
  · try simp only [pure_bind] at h
    split at h
    · try simp only [pure_bind] at h
      obtain ⟨⟨s1, ids⟩, hf, h⟩ := C02.bind_ok h
      simp only [] at h
      have hs := intro_ingestFields_same _ _ _ _ _ hf
      have fin : ∀ impls : List Nat, Inv K A { s1 with objects := s1.objects ++ [{ name := name, fields := ids, implements := impls }] } ∧
          ({ s1 with objects := s1.objects ++ [{ name := name, fields := ids, implements := impls }] } : Schema).inputs = s.inputs :=
        fun impls => ⟨(hI.same hs).step rfl rfl (other_step (hA name (expectName_ok hn)) (fun _ h => .inl h)
          (fun _ h => .inl h) (fun m h => mem_map_snoc _ _ _ m h) (fun _ h => .inl h) (fun _ h => .inl h)), hs.2.1⟩
      split at h
      · simp only [pure, Except.pure, Except.ok.injEq] at h
        subst h
        exact fin _
      · obtain ⟨impls, _, h⟩ := C02.bind_ok h
        simp only [pure, Except.pure, Except.ok.injEq] at h
        subst h
        exact fin _
    · kill_panic h
  · kill_panic h

theorem intro_union_step {K : Nat} {A : List String} {s s' : Schema} {t : FullType}
    (h : Intro.ingestUnion s t = .ok s') (hA : ∀ n, t.name = some n → n ∈ A) (hI : Inv K A s) :
    Inv K A s' ∧ s'.inputs = s.inputs := by
  unfold Intro.ingestUnion at h
  split at h
  · try simp only [pure_bind] at h
    obtain ⟨variants, _, h⟩ := C02.bind_ok h
    obtain ⟨name, hn, h⟩ := C02.bind_ok h
    simp only [pure, Except.pure, Except.ok.injEq] at h
    subst h
    exact ⟨hI.step rfl rfl (other_step (hA name (expectName_ok hn)) (fun _ h => .inl h) (fun _ h => .inl h)
      (fun _ h => .inl h) (fun _ h => .inl h) (fun m h => mem_map_snoc _ _ _ m h)), rfl⟩
  · kill_panic h

theorem intro_input_step {K : Nat} {A : List String} {ro : Bool} {s s' : Schema} {t : FullType}
    (h : Intro.ingestInput ro s t = .ok s') (hI : Inv K A s) :
    Inv K A s' ∧ s'.inputs.map (·.name) = s.inputs.map (·.name) ++ t.name.toList := by
  unfold Intro.ingestInput at h
  split at h
  · try simp only [pure_bind] at h
    obtain ⟨fields, hfs, h⟩ := C02.bind_ok h
    obtain ⟨name, hn, h⟩ := C02.bind_ok h
    simp only [pure, Except.pure, Except.ok.injEq] at h
    subst h
    refine ⟨⟨hI.names, ?_, hI.other⟩, by simp [expectName_ok hn]⟩
    intro inp hinp f hf i hi
    rcases List.mem_append.mp hinp with hinp | hinp
    · exact hI.fields inp hinp f hf i hi
    · simp only [List.mem_singleton] at hinp
      subst hinp
      obtain ⟨x, _, hx⟩ := C02.mapM_ok_mem hfs f hf
      obtain ⟨ty, hty, hx⟩ := C02.bind_ok hx
      simp only [pure, Except.pure, Except.ok.injEq] at hx
      subst hx
      exact fromJsonType_bound hI _ _ hty i hi
  · kill_panic h

/-- a fold of steps that keep the invariant and the inputs -/
theorem fold_keep {K : Nat} {A : List String} (f : Schema → FullType → Outcome Schema) : ∀ (l : List FullType)
    (_ : ∀ t ∈ l, ∀ s s', f s t = .ok s' → Inv K A s → Inv K A s' ∧ s'.inputs = s.inputs) (s s' : Schema),
    l.foldlM f s = .ok s' → Inv K A s → Inv K A s' ∧ s'.inputs = s.inputs
  | [], _, s, s', h, hI => by
    simp only [List.foldlM_nil, pure, Except.pure, Except.ok.injEq] at h
    subst h; exact ⟨hI, rfl⟩
  | t :: l, hstep, s, s', h, hI => by
    rw [List.foldlM_cons] at h
    obtain ⟨s1, h1, h⟩ := C02.bind_ok h
    obtain ⟨hI1, e1⟩ := hstep t List.mem_cons_self s s1 h1 hI
    obtain ⟨hI2, e2⟩ := fold_keep f l (fun t' ht' => hstep t' (List.mem_cons_of_mem _ ht')) s1 s' h hI1
    exact ⟨hI2, e2.trans e1⟩

theorem fold_inputs {K : Nat} {A : List String} (ro : Bool) : ∀ (l : List FullType) (s s' : Schema),
    l.foldlM (Intro.ingestInput ro) s = .ok s' → Inv K A s →
    Inv K A s' ∧ s'.inputs.map (·.name) = s.inputs.map (·.name) ++ l.filterMap (·.name)
  | [], s, s', h, hI => by
    simp only [List.foldlM_nil, pure, Except.pure, Except.ok.injEq] at h
    subst h; exact ⟨hI, by simp⟩
  | t :: l, s, s', h, hI => by
    rw [List.foldlM_cons] at h
    obtain ⟨s1, h1, h⟩ := C02.bind_ok h
    obtain ⟨hI1, e1⟩ := intro_input_step h1 hI
    obtain ⟨hI2, e2⟩ := fold_inputs ro l s1 s' h hI1
    refine ⟨hI2, ?_⟩
    rw [e2, e1, List.filterMap_cons]
    cases t.name <;> simp

theorem filterAuxM_mem {α : Type} (f : α → Outcome Bool) : ∀ (l acc r : List α), List.filterAuxM f l acc = .ok r →
    ∀ x ∈ r, x ∈ acc ∨ (x ∈ l ∧ f x = .ok true)
  | [], acc, r, h, x, hx => by
    simp only [List.filterAuxM, pure, Except.pure, Except.ok.injEq] at h
    subst h; exact .inl hx
  | a :: l, acc, r, h, x, hx => by
    simp only [List.filterAuxM] at h
    obtain ⟨b, hb, h⟩ := C02.bind_ok h
    rcases filterAuxM_mem f l _ r h x hx with hx | ⟨hx, hfx⟩
    · cases b with
      | false => exact .inl hx
      | true =>
        rcases List.mem_cons.mp hx with rfl | hx
        · exact .inr ⟨List.mem_cons_self, hb⟩
        · exact .inl hx
    · exact .inr ⟨List.mem_cons_of_mem _ hx, hfx⟩

theorem filterM_mem {α : Type} (f : α → Outcome Bool) (l r : List α) (h : l.filterM f = .ok r) :
    ∀ x ∈ r, x ∈ l ∧ f x = .ok true := by
  unfold List.filterM at h
  obtain ⟨r', hr', h⟩ := C02.bind_ok h
  simp only [pure, Except.pure, Except.ok.injEq] at h
  subst h
  intro x hx
  rcases filterAuxM_mem f l [] r' hr' x (List.mem_reverse.mp hx) with h | h
  · cases h
  · exact h

theorem isCustomScalar_true {t : FullType} (h : Intro.isCustomScalar t = .ok true) : t.kind = some "SCALAR" := by
  unfold Intro.isCustomScalar at h
  split at h
  · rename_i hk
    simpa using hk
  · cases h

theorem mem_introOther {ts : List FullType} {t : FullType} {n : String} (ht : t ∈ ts)
    (hk : t.kind ≠ some "INPUT_OBJECT") (hn : t.name = some n) : n ∈ introOtherNames ts := by
  unfold introOtherNames
  refine List.mem_append_right _ (List.mem_filterMap.mpr ⟨t, List.mem_filter.mpr ⟨ht, ?_⟩, hn⟩)
  simpa using hk

theorem mem_ofKind {ts : List FullType} {k : String} {t : FullType} (h : t ∈ Intro.ofKind ts k) :
    t ∈ ts ∧ t.kind = some k := by
  unfold Intro.ofKind at h
  obtain ⟨h1, h2⟩ := List.mem_filter.mp h
  exact ⟨h1, by simpa using h2⟩

/-- **the closed form of what `Intro.fromIntro` returns about inputs and names**, for ANY introspection value -/
theorem fromIntro_facts {ro : Bool} {src : Option IntroSchema} {s : Schema} (h : Intro.fromIntro ro src = .ok s) :
    Inv (introInputNames (introTypesOf src)).length (introOtherNames (introTypesOf src)) s ∧
    s.inputs.map (·.name) = introInputNames (introTypesOf src) := by
  unfold Intro.fromIntro at h
  cases src with
  | none => simp only [] at h; kill_panic h
  | some x0 =>
  simp only [pure_bind] at h
  obtain ⟨ts, hts, h⟩ := C02.bind_ok h
  have hts' : introTypesOf (some x0) = ts := by
    unfold Intro.typesOf at hts
    split at hts
    · cases hts
    · rename_i l hl
      simp only [pure, Except.pure, Except.ok.injEq] at hts
      simp [introTypesOf, hl, hts]
  rw [hts']
  obtain ⟨s0, hb, h⟩ := C02.bind_ok h
  obtain ⟨scalars, hsc, h⟩ := C02.bind_ok h
  obtain ⟨s1, h1, h⟩ := C02.bind_ok h
  obtain ⟨s2, h2, h⟩ := C02.bind_ok h
  obtain ⟨s3, h3, h⟩ := C02.bind_ok h
  obtain ⟨s4, h4, h⟩ := C02.bind_ok h
  obtain ⟨s5, h5, h⟩ := C02.bind_ok h
  obtain ⟨s6, h6, h⟩ := C02.bind_ok h
  simp only [pure, Except.pure, Except.ok.injEq] at h
  -- the name table
  have hI0 : Inv (introInputNames ts).length (introOtherNames ts) s0 ∧ s0.inputs = [] := by
    have hnew := schema_new_inv (introInputNames ts).length (introOtherNames ts)
      (fun n hn => List.mem_append_left _ hn)
    unfold Intro.buildNames at hb
    simp only [] at hb
    obtain ⟨n1, hn1, hb⟩ := C02.bind_ok hb
    obtain ⟨n2, hn2, hb⟩ := C02.bind_ok hb
    obtain ⟨n3, hn3, hb⟩ := C02.bind_ok hb
    obtain ⟨n4, hn4, hb⟩ := C02.bind_ok hb
    simp only [pure, Except.pure, Except.ok.injEq] at hb
    subst hb
    obtain ⟨ns1, _, hn1⟩ := C02.bind_ok hn1
    obtain ⟨ns2, _, hn2⟩ := C02.bind_ok hn2
    obtain ⟨ns3, _, hn3⟩ := C02.bind_ok hn3
    obtain ⟨ns4, hm4, hn4⟩ := C02.bind_ok hn4
    simp only [pure, Except.pure, Except.ok.injEq, zipIdx_foldl_eq'] at hn1 hn2 hn3 hn4
    subst hn1 hn2 hn3 hn4
    have hlen : ns4.length = (introInputNames ts).length := by
      rw [expectNames_eq _ _ hm4]; rfl
    refine ⟨⟨?_, hnew.fields, hnew.other⟩, by rw [schema_new]⟩
    refine insAll_bound (insAll_bound (insAll_bound (insAll_bound hnew.names ?_) ?_) ?_) ?_
    · exact pairsFrom_bound _ _ _ (fun j i _ h => by cases h)
    · exact pairsFrom_bound _ _ _ (fun j i _ h => by cases h)
    · exact pairsFrom_bound _ _ _ (fun j i _ h => by cases h)
    · exact pairsFrom_bound _ _ _ (fun j i hj h => by cases h; omega)
  obtain ⟨hI0, hin0⟩ := hI0
  have hA : ∀ k, k ≠ "INPUT_OBJECT" → ∀ t ∈ Intro.ofKind ts k, ∀ n, t.name = some n → n ∈ introOtherNames ts := by
    intro k hk t ht n hn
    obtain ⟨h1, h2⟩ := mem_ofKind ht
    exact mem_introOther h1 (by rw [h2]; simpa using hk) hn
  obtain ⟨hI1, e1⟩ := fold_keep Intro.ingestScalar scalars (fun t ht s s' hst hI =>
    intro_scalar_step hst (fun n hn => by
      obtain ⟨h1, h2⟩ := filterM_mem _ _ _ hsc t ht
      exact mem_introOther h1 (by rw [isCustomScalar_true h2]; decide) hn) hI) _ _ h1 hI0
  obtain ⟨hI2, e2⟩ := fold_keep Intro.ingestEnum _ (fun t ht s s' hst hI =>
    intro_enum_step hst (hA "ENUM" (by decide) t ht) hI) _ _ h2 hI1
  obtain ⟨hI3, e3⟩ := fold_keep Intro.ingestInterface _ (fun t ht s s' hst hI =>
    intro_iface_step hst (hA "INTERFACE" (by decide) t ht) hI) _ _ h3 hI2
  obtain ⟨hI4, e4⟩ := fold_keep Intro.ingestObject _ (fun t ht s s' hst hI =>
    intro_object_step hst (hA "OBJECT" (by decide) t ht) hI) _ _ h4 hI3
  obtain ⟨hI5, e5⟩ := fold_keep Intro.ingestUnion _ (fun t ht s s' hst hI =>
    intro_union_step hst (hA "UNION" (by decide) t ht) hI) _ _ h5 hI4
  obtain ⟨hI6, e6⟩ := fold_inputs ro _ _ _ h6 hI5
  subst h
  refine ⟨hI6.same ⟨rfl, rfl, rfl, rfl, rfl, rfl, rfl⟩, ?_⟩
  show s6.inputs.map (·.name) = _
  rw [e6, e5, e4, e3, e2, e1, hin0]
  rfl

/-- **Part B.1 (introspection)** — for ANY introspection value `fromIntro` accepts: if the `INPUT_OBJECT` entries have
    pairwise distinct names, the schema satisfies `InputsWf` -/
theorem fromIntro_inputsWf {ro : Bool} {src : Option IntroSchema} {s : Schema} (h : Intro.fromIntro ro src = .ok s)
    (hnd : (introInputNames (introTypesOf src)).Nodup) : InputsWf s := by
  obtain ⟨hI, hn⟩ := fromIntro_facts h
  refine inputsWf_of_inv hI ?_ (hn ▸ hnd)
  rw [← hn, List.length_map]

theorem fromIntro_inputsWf_iff {ro : Bool} {src : Option IntroSchema} {s : Schema}
    (h : Intro.fromIntro ro src = .ok s) : InputsWf s ↔ (introInputNames (introTypesOf src)).Nodup :=
  ⟨fun hw => (fromIntro_facts h).2 ▸ hw.nodup, fromIntro_inputsWf h⟩

/-- the entries of the JSON text of an introspection response -/
def jsonTypesOf (ro : Bool) (j : Json) : List FullType :=
  match Intro.parseIntro ro j with
  | some c => introTypesOf c
  | none => []

theorem fromJson_facts {ro : Bool} {j : Json} {s : Schema} (h : Intro.fromJson ro j = .ok s) :
    Inv (introInputNames (jsonTypesOf ro j)).length (introOtherNames (jsonTypesOf ro j)) s ∧
    s.inputs.map (·.name) = introInputNames (jsonTypesOf ro j) := by
  unfold Intro.fromJson at h
  unfold jsonTypesOf
  split at h
  · cases h
  · rename_i c hc
    rw [hc]
    exact fromIntro_facts h

/-- **Part B.1 (JSON)** — the same for `Intro.fromJson` (serde decoding, then `fromIntro`) -/
theorem fromJson_inputsWf {ro : Bool} {j : Json} {s : Schema} (h : Intro.fromJson ro j = .ok s)
    (hnd : (introInputNames (jsonTypesOf ro j)).Nodup) : InputsWf s := by
  obtain ⟨hI, hn⟩ := fromJson_facts h
  refine inputsWf_of_inv hI ?_ (hn ▸ hnd)
  rw [← hn, List.length_map]

/-! ## rendering-based forms (as `C02Frontends.schemaWf_fromSdl`) -/

/-- the schema both front-ends build for a well-formed abstract schema satisfies `InputsWf` -/
theorem inputsWf_toSchema (a : AS) (hw : WfAS a) : InputsWf a.toSchema := by
  have hspec := sdl_spec a (sdlOf true a) hw (isSdlOf_sdlOf a true (.inl rfl))
  refine fromSdl_inputsWf hspec ?_
  rw [← fromSdl_inputs_names hspec]
  have : a.toSchema.inputs.map (·.name) = a.inputNames := by
    simp [AS.toSchema, AS.inputNames, storedInput]
  rw [this]
  exact hw.1.sublist (List.sublist_append_right _ _)

theorem inputsWf_of_sdl_rendering (a : AS) (doc : SdlDoc) (hw : WfAS a) (hd : IsSdlOf a doc) :
    ∃ s, Sdl.fromSdl doc = .ok s ∧ InputsWf s :=
  ⟨a.toSchema, sdl_spec a doc hw hd, inputsWf_toSchema a hw⟩

theorem inputsWf_of_intro_rendering (a : AS) (l : List (Option FullType)) (hw : WfAS a)
    (hi : IsIntroOf a (l.filterMap id)) :
    ∃ s, Intro.fromIntro true (some (introSchemaOf a l)) = .ok s ∧ InputsWf s :=
  ⟨a.toSchema, intro_spec a l hw hi, inputsWf_toSchema a hw⟩

/-! ## `MentionsFaithful` from a name-level condition -/

/-- the name under which a type named `tn` is mentioned by a field (`Normalization.fieldType`) -/
def mentionN (o : Options) (cs : CaseFns) (tn : String) : String := o.normalization.fieldType cs tn

/-- the name of the item emitted for the input type named `n` (normalization, then keyword escaping) -/
def itemNameN (o : Options) (cs : CaseFns) (n : String) : String := keywordReplace (o.normalization.inputName cs n)

/-- **no collision after normalization and keyword escaping** (decidable, on names only): the mention of the `i`-th input
    name is the item name of the `j`-th input only if `i = j`; the mention of any other type name (scalar, enum, object,
    interface, union) is the item name of no input -/
def noCollision (o : Options) (cs : CaseFns) (inputs others : List String) : Bool :=
  inputs.zipIdx.all (fun p => inputs.zipIdx.all (fun q =>
    mentionN o cs p.1 != itemNameN o cs q.1 || p.2 == q.2)) &&
  others.all (fun tn => inputs.all (fun n => mentionN o cs tn != itemNameN o cs n))

theorem getObject_ok {s : Schema} {i : Nat} {x} (h : s.getObject i = .ok x) : s.objects[i]? = some x := by
  unfold Schema.getObject at h
  split at h
  · rename_i o ho; simp only [pure, Except.pure, Except.ok.injEq] at h; rw [ho, h]
  · cases h

theorem getInterface_ok {s : Schema} {i : Nat} {x} (h : s.getInterface i = .ok x) : s.interfaces[i]? = some x := by
  unfold Schema.getInterface at h
  split at h
  · rename_i o ho; simp only [pure, Except.pure, Except.ok.injEq] at h; rw [ho, h]
  · cases h

theorem getUnion_ok {s : Schema} {i : Nat} {x} (h : s.getUnion i = .ok x) : s.unions[i]? = some x := by
  unfold Schema.getUnion at h
  split at h
  · rename_i o ho; simp only [pure, Except.pure, Except.ok.injEq] at h; rw [ho, h]
  · cases h

theorem map_ok {α β : Type} {f : α → β} {x : Outcome α} {b : β} (h : f <$> x = .ok b) : ∃ a, x = .ok a ∧ f a = b := by
  cases x with
  | error e => cases h
  | ok a => exact ⟨a, rfl, by simpa [Functor.map, Except.map] using h⟩

theorem typeName_input {s : Schema} {k : Nat} {tn : String} (h : s.typeName (.input k) = .ok tn) :
    ∃ ik, s.inputs[k]? = some ik ∧ ik.name = tn := by
  obtain ⟨a, ha, hn⟩ := map_ok h
  exact ⟨a, C02.getInput_ok ha, hn⟩

theorem typeName_other {s : Schema} {t : TypeId} {tn : String} (h : s.typeName t = .ok tn)
    (ht : ∀ k, t ≠ .input k) : tn ∈ otherNames s := by
  rw [mem_otherNames]
  cases t with
  | object i =>
    obtain ⟨a, ha, hn⟩ := map_ok h
    exact .inr (.inr (.inl ⟨a, List.mem_of_getElem? (getObject_ok ha), hn⟩))
  | scalar i => exact .inl (List.mem_of_getElem? (C02.getScalar_ok h))
  | interface i =>
    obtain ⟨a, ha, hn⟩ := map_ok h
    exact .inr (.inr (.inr (.inl ⟨a, List.mem_of_getElem? (getInterface_ok ha), hn⟩)))
  | union i =>
    obtain ⟨a, ha, hn⟩ := map_ok h
    exact .inr (.inr (.inr (.inr ⟨a, List.mem_of_getElem? (getUnion_ok ha), hn⟩)))
  | enum i =>
    obtain ⟨a, ha, hn⟩ := map_ok h
    exact .inr (.inl ⟨a, List.mem_of_getElem? (C02.getEnum_ok ha), hn⟩)
  | input i => exact absurd rfl (ht i)

/-- **Part B.2** — `MentionsFaithful c` from the name-level `noCollision` (`ins`: the input names in order, `A`: any list
    containing the other type names of the schema) -/
theorem mentionsFaithful_of_noCollision {c : Ctx} {ins A : List String} (hin : c.s.inputs.map (·.name) = ins)
    (hA : ∀ n ∈ otherNames c.s, n ∈ A) (h : noCollision c.o c.cs ins A = true) : MentionsFaithful c := by
  simp only [noCollision, Bool.and_eq_true, List.all_eq_true, Bool.or_eq_true, bne_iff_ne, ne_eq, beq_iff_eq] at h
  obtain ⟨h1, h2⟩ := h
  unfold MentionsFaithful mentionsFaithful
  simp only [List.all_eq_true]
  intro i _ f _
  split
  · rename_i tn htn
    simp only [List.all_eq_true, Bool.or_eq_true, bne_iff_ne, ne_eq, decide_eq_true_eq]
    rintro ⟨ij, j⟩ hp
    have hj : c.s.inputs[j]? = some ij := by
      rw [List.mem_zipIdx_iff_getElem?] at hp
      simpa using hp
    by_cases hm : mention c tn = itemName c ij
    · refine .inr ?_
      have hjm : (ij.name, j) ∈ ins.zipIdx := by
        rw [List.mem_zipIdx_iff_getElem?, ← hin]
        simp [hj]
      by_cases hk : ∃ k, f.2.id = .input k
      · obtain ⟨k, hk⟩ := hk
        rw [hk] at htn
        obtain ⟨ik, hik, rfl⟩ := typeName_input htn
        have hkm : (ik.name, k) ∈ ins.zipIdx := by
          rw [List.mem_zipIdx_iff_getElem?, ← hin]
          simp [hik]
        rcases h1 _ hkm _ hjm with h | h
        · exact absurd hm h
        · simp only at h
          rw [hk, h]
      · have hto := hA tn (typeName_other htn (fun k hk' => hk ⟨k, hk'⟩))
        have hjn : ij.name ∈ ins := by
          rw [← hin]; exact List.mem_map_of_mem (List.mem_of_getElem? hj)
        exact absurd hm (h2 tn hto ij.name hjn)
    · exact .inl hm
  · rfl

/-! ## end to end: hypotheses on the document only -/

/-- **Part B.3 (SDL)** — the input items emitted for ANY document the SDL front-end accepts contain each other by value
    without cycle, provided the `input` definitions have pairwise distinct names and no name collides after normalization
    and keyword escaping.  All hypotheses are about the document (and the options). -/
theorem input_items_acyclic_of_sdl {doc : SdlDoc} {s : Schema} (o : Options) (cs : CaseFns)
    (h : Sdl.fromSdl doc = .ok s) (hnd : (sdlInputNames doc).Nodup)
    (hnc : noCollision o cs (sdlInputNames doc) (sdlOtherNames doc) = true)
    (q : Query) (u : UsedTypes) (items : List Item) (hi : inputItems { s := s, q := q, o := o, cs := cs } u = .ok items) :
    ¬ ∃ a, Relation.TransGen (containsByValue items) a a :=
  input_items_acyclic { s := s, q := q, o := o, cs := cs } u items (fromSdl_inputsWf h hnd)
    (mentionsFaithful_of_noCollision (c := { s := s, q := q, o := o, cs := cs }) (fromSdl_inputs_names h)
      (fromSdl_otherNames h) hnc) hi

/-- the same on the module `responseForQuery` emits -/
theorem module_input_items_acyclic_of_sdl {doc : SdlDoc} {s : Schema} (o : Options) (cs : CaseFns)
    (h : Sdl.fromSdl doc = .ok s) (hnd : (sdlInputNames doc).Nodup)
    (hnc : noCollision o cs (sdlInputNames doc) (sdlOtherNames doc) = true)
    (q : Query) (op : Nat) (items : List Item)
    (hgen : responseForQuery { s := s, q := q, o := o, cs := cs } op = .ok items) :
    ∃ (u : UsedTypes) (pre I post : List Item), allUsedTypes s q op = .ok u ∧
      inputItems { s := s, q := q, o := o, cs := cs } u = .ok I ∧ items = pre ++ I ++ post ∧
      ¬ ∃ a, Relation.TransGen (containsByValue I) a a :=
  responseForQuery_input_items_acyclic { s := s, q := q, o := o, cs := cs } op items (fromSdl_inputsWf h hnd)
    (mentionsFaithful_of_noCollision (c := { s := s, q := q, o := o, cs := cs }) (fromSdl_inputs_names h)
      (fromSdl_otherNames h) hnc) hgen

/-- **Part B.3 (introspection)** -/
theorem input_items_acyclic_of_intro {ro : Bool} {src : Option IntroSchema} {s : Schema} (o : Options) (cs : CaseFns)
    (h : Intro.fromIntro ro src = .ok s) (hnd : (introInputNames (introTypesOf src)).Nodup)
    (hnc : noCollision o cs (introInputNames (introTypesOf src)) (introOtherNames (introTypesOf src)) = true)
    (q : Query) (u : UsedTypes) (items : List Item) (hi : inputItems { s := s, q := q, o := o, cs := cs } u = .ok items) :
    ¬ ∃ a, Relation.TransGen (containsByValue items) a a :=
  input_items_acyclic { s := s, q := q, o := o, cs := cs } u items (fromIntro_inputsWf h hnd)
    (mentionsFaithful_of_noCollision (c := { s := s, q := q, o := o, cs := cs }) (fromIntro_facts h).2
      (fromIntro_facts h).1.other hnc) hi

/-- **Part B.3 (JSON)** -/
theorem input_items_acyclic_of_json {ro : Bool} {j : Json} {s : Schema} (o : Options) (cs : CaseFns)
    (h : Intro.fromJson ro j = .ok s) (hnd : (introInputNames (jsonTypesOf ro j)).Nodup)
    (hnc : noCollision o cs (introInputNames (jsonTypesOf ro j)) (introOtherNames (jsonTypesOf ro j)) = true)
    (q : Query) (u : UsedTypes) (items : List Item) (hi : inputItems { s := s, q := q, o := o, cs := cs } u = .ok items) :
    ¬ ∃ a, Relation.TransGen (containsByValue items) a a :=
  input_items_acyclic { s := s, q := q, o := o, cs := cs } u items (fromJson_inputsWf h hnd)
    (mentionsFaithful_of_noCollision (c := { s := s, q := q, o := o, cs := cs }) (fromJson_facts h).2
      (fromJson_facts h).1.other hnc) hi

/-! ## witnesses -/

/-- `input B { x: Int }  input B { y: B }` -/
def dupDoc : SdlDoc := [.input "B" [] [("x", .named "Int")], .input "B" [] [("y", .named "B")]]

/-- **distinct input names are needed**: the SDL front-end accepts a duplicate `input B`; the schema has two inputs named
    `B` and is not `InputsWf` -/
theorem dup_input_not_wf :
    ∃ s, Sdl.fromSdl dupDoc = .ok s ∧ s.inputs.map (·.name) = ["B", "B"] ∧ ¬ (sdlInputNames dupDoc).Nodup ∧ ¬ InputsWf s := by
  have h : ∃ s, Sdl.fromSdl dupDoc = .ok s := by
    cases hs : Sdl.fromSdl dupDoc with
    | ok s => exact ⟨s, rfl⟩
    | error e =>
      have : (Sdl.fromSdl dupDoc).toOption.isSome = true := by decide +kernel
      rw [hs] at this; cases this
  obtain ⟨s, hs⟩ := h
  have hnd : ¬ (sdlInputNames dupDoc).Nodup := by decide
  exact ⟨s, hs, fromSdl_inputs_names hs, hnd, fun hw => hnd ((fromSdl_inputsWf_iff hs).mp hw)⟩

/-- the same through the introspection front-end -/
def dupIntro : IntroSchema :=
  { queryType := none, mutationType := none, subscriptionType := none,
    types := some [some { kind := some "INPUT_OBJECT", name := some "B", fields := none, inputFields := some [],
                          interfaces := none, enumValues := none, possibleTypes := none },
                   some { kind := some "INPUT_OBJECT", name := some "B", fields := none, inputFields := some [],
                          interfaces := none, enumValues := none, possibleTypes := none }] }

theorem dup_input_intro_not_wf :
    ∃ s, Intro.fromIntro true (some dupIntro) = .ok s ∧ ¬ InputsWf s := by
  have h : ∃ s, Intro.fromIntro true (some dupIntro) = .ok s := by
    cases hs : Intro.fromIntro true (some dupIntro) with
    | ok s => exact ⟨s, rfl⟩
    | error e =>
      have : (Intro.fromIntro true (some dupIntro)).toOption.isSome = true := by decide +kernel
      rw [hs] at this; cases this
  obtain ⟨s, hs⟩ := h
  have hnd : ¬ (introInputNames (introTypesOf (some dupIntro))).Nodup := by decide
  exact ⟨s, hs, fun hw => hnd ((fromIntro_inputsWf_iff hs).mp hw)⟩

/-- `input type { a: A! }  input type_ { }  input A { t: type_! }` (the document of `C12I.mentionsFaithful_needed`) -/
def kwDoc : SdlDoc :=
  [.input "type" [] [("a", .nonNull (.named "A"))], .input "type_" [] [], .input "A" [] [("t", .nonNull (.named "type_"))]]

/-- **`noCollision` is needed**: names pairwise distinct, the front-end succeeds, `InputsWf` holds, `noCollision` fails
    (keyword escaping moves `type` onto `type_`), and the emitted input items contain each other by value in a cycle -/
theorem kw_collision :
    ∃ s, Sdl.fromSdl kwDoc = .ok s ∧ (sdlInputNames kwDoc).Nodup ∧ InputsWf s ∧
      noCollision {} ⟨id, id⟩ (sdlInputNames kwDoc) (sdlOtherNames kwDoc) = false ∧
      ∃ items, inputItems { s := s, q := {}, o := {}, cs := ⟨id, id⟩ } { types := [.input 0, .input 1, .input 2] } = .ok items ∧
        Relation.TransGen (containsByValue items) "type_" "type_" := by
  have hnd : (sdlInputNames kwDoc).Nodup := by decide
  have key : (match Sdl.fromSdl kwDoc with
      | .ok s => (match inputItems { s := s, q := {}, o := {}, cs := ⟨id, id⟩ } { types := [.input 0, .input 1, .input 2] } with
          | .ok items => hasTwoCycle items "type_" "A"
          | .error _ => false)
      | .error _ => false) = true := by decide +kernel
  split at key
  · rename_i s hs
    split at key
    · rename_i items hi
      exact ⟨s, hs, hnd, fromSdl_inputsWf hs hnd, by decide +kernel, items, hi, twoCycle_cycle key⟩
    · cases key
  · cases key

/-- non-vacuity: a document with a recursive input, an `@oneOf` input, an enum, a custom scalar and objects satisfies
    all hypotheses of `input_items_acyclic_of_sdl` (default options, identity case functions, and `normalization = rust`
    with the identity) -/
def okDoc : SdlDoc :=
  [.scalar "Date", .enum "Color" ["RED"], .object "Query" [] [{ name := "x", ty := .named "Int", directives := [] }],
   .input "A" [] [("a", .named "A"), ("l", .list (.named "B")), ("c", .named "Color"), ("d", .named "Date")],
   .input "B" ["oneOf"] [("a", .named "A"), ("n", .named "Int")]]

example : (Sdl.fromSdl okDoc).toOption.isSome = true ∧ (sdlInputNames okDoc).Nodup ∧
    noCollision {} ⟨id, id⟩ (sdlInputNames okDoc) (sdlOtherNames okDoc) = true ∧
    noCollision { normalization := .rust } ⟨id, id⟩ (sdlInputNames okDoc) (sdlOtherNames okDoc) = true := by
  refine ⟨by decide +kernel, by decide, by decide +kernel, by decide +kernel⟩

end C12FE
end GqlVerif
