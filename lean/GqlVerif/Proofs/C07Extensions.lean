import GqlVerif.Proofs.C07Frontends
/-!
# C07 — `extend type` blocks

`Proofs/C07Frontends.lean` proves `fromSdl (sdl rendering) = fromIntro (introspection rendering)` for abstract
schemas *without* `extend type`.  This file adds the extension blocks.

An `ASX` is an abstract schema `base : AS` plus a list `exts` of extension blocks
`(name, implements, fields)` in document order.  `x.fold : AS` is the schema an introspection response describes:
every object gets, appended to its own `implements` / `fields`, those of its blocks, in block order.
`IsSdlOfX x doc`: `doc` is any SDL document whose per-pass projections are the renderings of `x` (the blocks may
stand *anywhere*, also before the object they extend: pass 5 of `build_schema` runs after pass 4 has ingested every
object, so nothing about positions is needed).

**Literal equality of the two `Schema` values FAILS in general** (`exX0`: `type A {a} type B {b} extend type A {c}`
gives the field table `[a, b, c]`, `A.fields = [0, 2]` from SDL and `[a, c, b]`, `A.fields = [0, 1]` from JSON):
the SDL front-end allocates the ids of extension fields after those of *all* ordinary fields, the JSON front-end
right after the object's own fields.  What holds:

* `sdl_spec_ext` — closed form `x.sdlSchema` of `Sdl.fromSdl` on every rendering;
* `Schema.mapFields σ` — renumbering of the field ids (`σ` lists the old ids in the new order; old id `i` becomes
  `σ.idxOf i`); `idxOf_bijection`: for `σ` a permutation of `[0, n)` this is a bijection of `[0, n)` with inverse
  `σ[·]`, ids out of range stay out of range; `mapFields_getElem?`: `getField` commutes with it;
* `Schema.fieldOrder s` — the field ids of `s` in owner order (interfaces, then objects); `Schema.normFields s` —
  `s` renumbered in that order;
* `sdlSchema_fieldOrder_perm` — on the SDL result, `fieldOrder` is a permutation of all field ids;
* `fold_toSchema_eq` / **`frontends_iso_ext`** (`…_of_renderings`, `…_map`, `…_json`) — the introspection
  front-end's value *is* the SDL front-end's value renumbered by `σ = fieldOrder`:
  `(fromSdl doc).map normFields = fromIntro (rendering of x.fold)`;
* `frontends_equal_ext_iff` — literal equality holds **iff** the SDL ids already are in owner order;
  `frontends_equal_ext` — in particular for blocks without fields (`extend type X implements I`);
* `example`s: the witnesses above, a larger instance evaluated by the kernel on both sides, the new hypotheses
  of `WfASX` cannot be dropped.

That the renumbering is invisible in the generated code is `Proofs/C07ExtensionsCodegen.lean`
(`codegen_respects_field_renumbering`, `codegen_equal_ext_of_renderings`); type-order permutations within a kind are
`Proofs/C07Permutations.lean` (`toSchema_perm`, `frontends_iso_perm`).
-/

namespace GqlVerif
namespace C07


/-! generic list lemmas -/

theorem map_idxOf_segment (A B C : List Nat) (h : (A ++ B ++ C).Nodup) :
    B.map (A ++ B ++ C).idxOf = List.range' A.length B.length := by
  apply List.ext_getElem
  · simp
  · intro j h1 h2
    have hj : j < B.length := by simpa using h1
    have hlt : A.length + j < (A ++ B ++ C).length := by simp; omega
    have : (A ++ B ++ C)[A.length + j] = B[j] := by
      simp [hj]
    simp only [List.getElem_map, List.getElem_range', Nat.one_mul]
    rw [← this, h.idxOf_getElem]

def consec : Nat → List Nat → List (List Nat)
  | _, [] => []
  | s, n :: ns => List.range' s n :: consec (s + n) ns

theorem map_idxOf_segments (pre : List Nat) (segs : List (List Nat)) (post : List Nat)
    (h : (pre ++ segs.flatten ++ post).Nodup) :
    segs.map (·.map (pre ++ segs.flatten ++ post).idxOf) = consec pre.length (segs.map List.length) := by
  induction segs generalizing pre with
  | nil => rfl
  | cons g segs ih =>
    have e : pre ++ (g :: segs).flatten ++ post = (pre ++ g) ++ segs.flatten ++ post := by simp
    have e2 : pre ++ (g :: segs).flatten ++ post = pre ++ g ++ (segs.flatten ++ post) := by simp
    simp only [List.map_cons, consec]
    congr 1
    · rw [e2]; exact map_idxOf_segment pre g _ (by rw [← e2]; exact h)
    · rw [e]
      have := ih (pre ++ g) (by rw [← e]; exact h)
      simpa using this

theorem filterMap_getElem?_segment {α} (A B C : List α) :
    (List.range' A.length B.length).filterMap (fun i => (A ++ B ++ C)[i]?) = B := by
  induction B generalizing A with
  | nil => simp
  | cons b B ih =>
    have := ih (A ++ [b])
    simp only [List.length_append, List.length_cons, List.length_nil, Nat.zero_add, List.append_assoc,
      List.cons_append, List.nil_append] at this
    simp [List.range'_succ, this]

theorem flatMap_append_perm' {α β} (l : List α) (f g : α → List β) :
    (l.flatMap fun x => f x ++ g x).Perm (l.flatMap f ++ l.flatMap g) := by
  induction l with
  | nil => simp
  | cons x l ih =>
    simp only [List.flatMap_cons]
    refine ((List.Perm.append_left _ ih)).trans ?_
    simp only [List.append_assoc]
    refine List.Perm.append_left _ ?_
    simp only [← List.append_assoc]
    exact List.Perm.append_right _ List.perm_append_comm



/-- one `extend type name [implements …] { fields }` block -/
structure AExt where
  name : String
  implements : List String
  fields : List AField
  deriving Repr, DecidableEq, Inhabited

/-- abstract schema with `extend type` blocks: `exts` in document order (blocks of different objects may be
interleaved, an object may have several blocks or none) -/
structure ASX where
  base : AS
  exts : List AExt := []
  deriving Repr, DecidableEq, Inhabited

/-- SDL rendering of a block -/
def sdlExt (e : AExt) : SdlDef := .extObject e.name e.implements (e.fields.map sdlField)

/-- the blocks of the object named `n`, in document order -/
def extsOf (exts : List AExt) (n : String) : List AExt := exts.filter (·.name == n)

/-- an object with its blocks folded in: interfaces appended, fields appended, in block order -/
def foldObj (exts : List AExt) (o : AObj) : AObj :=
  { o with implements := o.implements ++ (extsOf exts o.name).flatMap (·.implements)
           fields := o.fields ++ (extsOf exts o.name).flatMap (·.fields) }

/-- the schema an introspection response describes -/
def ASX.fold (x : ASX) : AS := { x.base with objects := x.base.objects.map (foldObj x.exts) }

/-- `find_type_id(name).as_object_id()` -/
def objIdx (N : List (String × TypeId)) (n : String) : Nat := ((namesGet n N).bind TypeId.asObject?).getD 0

/-- the stored fields pass 5 appends to the field table, in block order -/
def extFields (N : List (String × TypeId)) : List AExt → List StoredField
  | [] => []
  | e :: es => e.fields.map (storedField N (.object (objIdx N e.name))) ++ extFields N es

/-- what pass 5 does to the extended object (`start` = id of the block's first field) -/
def extApply (N : List (String × TypeId)) (start : Nat) (e : AExt) (o : StoredObject) : StoredObject :=
  { o with implements := o.implements ++ e.implements.map (ifaceId N)
           fields := o.fields ++ List.range' start e.fields.length }

/-- the object table after pass 5 -/
def extObjs (N : List (String × TypeId)) : Nat → List AExt → List StoredObject → List StoredObject
  | _, [], os => os
  | start, e :: es, os => extObjs N (start + e.fields.length) es (os.modify (objIdx N e.name) (extApply N start e))

@[simp] theorem extObjs_length (N : List (String × TypeId)) (start : Nat) (es : List AExt) (os : List StoredObject) :
    (extObjs N start es os).length = os.length := by
  induction es generalizing start os with
  | nil => rfl
  | cons e es ih => simp [extObjs, ih]

theorem set_eq_modify {α} (l : List α) (i : Nat) (f : α → α) (x : α) (h : l[i]? = some x) :
    l.set i (f x) = l.modify i f := by
  apply List.ext_getElem?
  intro j
  rw [List.getElem?_modify, List.getElem?_set]
  by_cases hij : i = j
  · subst hij
    have : i < l.length := by
      rcases Nat.lt_or_ge i l.length with h' | h'
      · exact h'
      · rw [List.getElem?_eq_none h'] at h; cases h
    have hx : l[i] = x := by
      have := List.getElem?_eq_getElem this
      rw [h] at this; exact (Option.some.inj this).symm
    simp [this, hx]
  · simp [hij]

/-- pass 5 of `build_schema`, closed form -/
theorem sdl_exts (es : List AExt) (s : Schema)
    (hid : ∀ e ∈ es, ∃ k, namesGet e.name s.names = some (.object k) ∧ k < s.objects.length)
    (hf : ∀ e ∈ es, ∀ f ∈ e.fields, ∃ id, namesGet f.ty.base s.names = some id)
    (him : ∀ e ∈ es, ∀ n ∈ e.implements, ∃ i, namesGet n s.names = some (.interface i)) :
    (es.map sdlExt).foldlM (Sdl.ingestDef 5) s =
      .ok { s with fields := s.fields ++ extFields s.names es,
                   objects := extObjs s.names s.fields.length es s.objects } := by
  induction es generalizing s with
  | nil => simp [extFields, extObjs, pure, Except.pure]
  | cons e es ih =>
    obtain ⟨k, hk, hlt⟩ := hid e (by simp)
    have hk' : objIdx s.names e.name = k := by simp [objIdx, hk, TypeId.asObject?]
    have hfs := sdl_fields e.fields s (.object k) (hf e (by simp))
    have him' := mapM_ok' e.implements
      (Schema.findInterface { s with fields := s.fields ++ e.fields.map (storedField s.names (.object k)) })
      (ifaceId s.names) fun n hn => findInterface_ok _ n (him e (by simp) n hn)
    have hget : s.objects[k]? = some s.objects[k] := List.getElem?_eq_getElem hlt
    simp only [List.map_cons, List.foldlM_cons, sdlExt, Sdl.ingestDef, Schema.findTypeId, Schema.findType, hk,
      TypeId.asObject?, hfs, him', hget, bind, Except.bind, pure, Except.pure]
    rw [ih]
    · simp only [extFields, extObjs, hk', List.length_append, List.length_map, List.append_assoc]
      rw [← set_eq_modify _ _ (extApply s.names s.fields.length e) _ hget]
      rfl
    · intro e' he'
      obtain ⟨k', h1, h2⟩ := hid e' (by simp [he'])
      exact ⟨k', h1, by simpa using h2⟩
    · exact fun e' he' => hf e' (by simp [he'])
    · exact fun e' he' => him e' (by simp [he'])


/-- `doc` is an SDL rendering of `x`: as `IsSdlOf`, with the `extend type` definitions (pass 5) being the
renderings of `x.exts` in order — wherever they stand in the document -/
structure IsSdlOfX (x : ASX) (doc : SdlDoc) : Prop where
  scalars : ofPass doc 0 = x.base.scalars.map .scalar
  enums : ofPass doc 1 = x.base.enums.map sdlEnum
  unions : ofPass doc 2 = x.base.unions.map sdlUnion
  ifaces : ofPass doc 3 = x.base.interfaces.map sdlIface
  objects : ofPass doc 4 = x.base.objects.map sdlObj
  exts : ofPass doc 5 = x.exts.map sdlExt
  inputs : ofPass doc 6 = x.base.inputs.map sdlInput
  roots : schemaBlock doc = some (x.base.query, x.base.mutation, x.base.subscription) ∨
    (schemaBlock doc = none ∧ x.base.DefaultRoots)

/-- **the `Schema` the SDL front-end builds for `x`**: that of the base schema, with the extension fields appended
to the field table (after *all* ordinary fields) and the objects patched -/
def ASX.sdlSchema (x : ASX) : Schema :=
  let b := x.base.toSchema
  { b with fields := b.fields ++ extFields b.names x.exts
           objects := extObjs b.names b.fields.length x.exts b.objects }

/-- well-formedness: the base schema is well-formed; every block names a defined *object* (otherwise the SDL
front-end panics, while the folded schema silently drops the block); block fields / interfaces are defined -/
def WfASX (x : ASX) : Prop :=
  WfAS x.base ∧ (∀ e ∈ x.exts, e.name ∈ x.base.objNames) ∧
  (∀ e ∈ x.exts, ∀ f ∈ e.fields, f.ty.base ∈ x.base.known) ∧
  (∀ e ∈ x.exts, ∀ n ∈ e.implements, n ∈ x.base.ifaceNames)

instance (x : ASX) : Decidable (WfASX x) := by unfold WfASX; infer_instance

theorem sdl_populateX (x : ASX) (doc : SdlDoc) (h : IsSdlOfX x doc) (s : Schema) :
    Sdl.populateNames s doc =
      { s with names := insAll (pairsFrom .enum x.base.enumNames 0 ++ pairsFrom .object x.base.objNames 0 ++
          pairsFrom .interface x.base.ifaceNames 0 ++ pairsFrom .union x.base.unionNames 0 ++
          pairsFrom .input x.base.inputNames 0) s.names } := by
  have e1 : Sdl.namesOfKind doc (fun | .enum n _ => some n | _ => none) = x.base.enumNames :=
    filterMap_pick doc _ 1 x.base.enums sdlEnum (·.name) (by intro d; cases d <;> simp [passOf]) h.enums (fun _ => rfl)
  have e2 : Sdl.namesOfKind doc (fun | .object n _ _ => some n | _ => none) = x.base.objNames :=
    filterMap_pick doc _ 4 x.base.objects sdlObj (·.name) (by intro d; cases d <;> simp [passOf]) h.objects (fun _ => rfl)
  have e3 : Sdl.namesOfKind doc (fun | .interface n _ => some n | _ => none) = x.base.ifaceNames :=
    filterMap_pick doc _ 3 x.base.interfaces sdlIface (·.name) (by intro d; cases d <;> simp [passOf]) h.ifaces (fun _ => rfl)
  have e4 : Sdl.namesOfKind doc (fun | .union n _ => some n | _ => none) = x.base.unionNames :=
    filterMap_pick doc _ 2 x.base.unions sdlUnion (·.name) (by intro d; cases d <;> simp [passOf]) h.unions (fun _ => rfl)
  have e5 : Sdl.namesOfKind doc (fun | .input n _ _ => some n | _ => none) = x.base.inputNames :=
    filterMap_pick doc _ 6 x.base.inputs sdlInput (·.name) (by intro d; cases d <;> simp [passOf]) h.inputs (fun _ => rfl)
  unfold Sdl.populateNames
  simp only [zipIdx_foldl_eq', insAll_append]
  rw [← e1, ← e2, ← e3, ← e4, ← e5]
  rfl

@[simp] theorem objStored_length (N : List (String × TypeId)) (start : Nat) (os : List AObj) :
    (objStored N start os).length = os.length := by
  induction os generalizing start with
  | nil => rfl
  | cons o os ih => simp [objStored, ih]

/-- **the SDL front-end computes `x.sdlSchema`** on every SDL rendering of a well-formed `x` -/
theorem sdl_spec_ext (x : ASX) (doc : SdlDoc) (hw : WfASX x) (hd : IsSdlOfX x doc) :
    Sdl.fromSdl doc = .ok x.sdlSchema := by
  obtain ⟨⟨hn, hif, hof, him, hun, hinp⟩, hen, hef, hei⟩ := hw
  have L := lookups x.base hn
  unfold Sdl.fromSdl
  generalize hblk : List.findSome? _ doc = blk
  replace hblk : blk = schemaBlock doc := hblk.symm.trans rfl
  simp only [sdl_pass, hd.scalars, hd.enums, hd.unions, hd.ifaces, hd.objects, hd.exts, hd.inputs,
    sdl_populateX x doc hd, bind, Except.bind, pure, Except.pure]
  rw [sdl_scalars, schema_new]
  simp only [List.length_cons, List.length_nil, Schema.defaultScalars, Nat.zero_add, Nat.reduceAdd]
  rw [← Schema.defaultScalars.eq_def, sdl_names x.base hn]
  have hfld : ∀ t : GTy, t.base ∈ x.base.known → ∃ id, namesGet t.base x.base.names = some id := fun t h => L.known _ h
  rw [sdl_enums]; simp only []
  rw [sdl_unions _ _ ?hu]; simp only []
  rw [sdl_ifaces _ 0 _ ?hi1 ?hi2]; simp only []
  rw [sdl_objs _ 0 _ ?ho1 ?ho2 ?ho3]; simp only []
  rw [sdl_exts _ _ ?he1 ?he2 ?he3]; simp only []
  rw [sdl_inputs _ _ ?hin]; simp only []
  case hu => exact fun u hu m hm => L.known m (hun u hu m hm)
  case hi1 => exact L.iface
  case hi2 => exact fun i hi f hf => hfld _ (hif i hi f hf)
  case ho1 => exact L.obj
  case ho2 => exact fun o ho f hf => hfld _ (hof o ho f hf)
  case ho3 => exact fun o ho n hn' => L.impl n (him o ho n hn')
  case he1 =>
    intro e he
    have := hen e he
    simp only [AS.objNames, List.mem_map] at this
    obtain ⟨o, ho, hoe⟩ := this
    obtain ⟨k, hk⟩ := List.mem_iff_getElem?.1 ho
    have hk' : (o, k) ∈ x.base.objects.zipIdx 0 := by
      rw [List.mem_zipIdx_iff_getElem?]; simpa using hk
    refine ⟨k, by rw [← hoe]; exact L.obj (o, k) hk', ?_⟩
    have : k < x.base.objects.length := by
      rcases Nat.lt_or_ge k x.base.objects.length with h | h
      · exact h
      · rw [List.getElem?_eq_none h] at hk; cases hk
    simpa using this
  case he2 => exact fun e he f hf => hfld _ (hef e he f hf)
  case he3 => exact fun e he n hn' => L.impl n (hei e he n hn')
  case hin => exact fun i hi f hf => hfld _ (hinp i hi f hf)
  simp only [sdl_rootOf, List.nil_append, List.length_nil]
  rcases hd.roots with hr | ⟨hr, hq, hm, hs⟩
  · rw [hblk, hr]; rfl
  · rw [hblk, hr]
    simp only [default_root x.base x.base.names L, ← hq, ← hm, ← hs]
    rfl



/-- SDL ids of the extension fields of the blocks selected by `p` (`st` = id of the first extension field) -/
def extIds : Nat → List AExt → (AExt → Bool) → List Nat
  | _, [], _ => []
  | st, e :: es, p => (if p e then List.range' st e.fields.length else []) ++ extIds (st + e.fields.length) es p

def extImpls (N : List (String × TypeId)) (es : List AExt) (p : AExt → Bool) : List Nat :=
  (es.filter p).flatMap fun e => e.implements.map (ifaceId N)

/-- the block extends object number `k` -/
def pK (N : List (String × TypeId)) (k : Nat) (e : AExt) : Bool := objIdx N e.name == k

theorem extIds_congr (st : Nat) (es : List AExt) (p q : AExt → Bool) (h : ∀ e ∈ es, p e = q e) :
    extIds st es p = extIds st es q := by
  induction es generalizing st with
  | nil => rfl
  | cons e es ih =>
    simp only [extIds, h e (by simp)]
    rw [ih _ fun e' he' => h e' (by simp [he'])]

theorem extIds_length (st : Nat) (es : List AExt) (p : AExt → Bool) :
    (extIds st es p).length = ((es.filter p).flatMap (·.fields)).length := by
  induction es generalizing st with
  | nil => rfl
  | cons e es ih =>
    simp only [extIds, List.length_append, ih, List.filter_cons]
    cases p e <;> simp

theorem extObjs_getElem? (N : List (String × TypeId)) (st : Nat) (es : List AExt) (os : List StoredObject) (k : Nat) :
    (extObjs N st es os)[k]? = os[k]?.map fun o =>
      { o with implements := o.implements ++ extImpls N es (pK N k), fields := o.fields ++ extIds st es (pK N k) } := by
  induction es generalizing st os with
  | nil => simp [extObjs, extImpls, extIds]
  | cons e es ih =>
    rw [extObjs, ih, List.getElem?_modify]
    cases os[k]? with
    | none => rfl
    | some o =>
      simp only [Option.map_some, Functor.map, extImpls, extIds, pK, List.filter_cons]
      by_cases hk : objIdx N e.name = k
      · simp [hk, extApply]
      · simp [hk]

/-- closed form of the objects the SDL front-end builds (`st` = id of the first extension field) -/
def sdlObjsX (N : List (String × TypeId)) (st : Nat) (es : List AExt) : Nat → Nat → List AObj → List StoredObject
  | _, _, [] => []
  | k, start, o :: os =>
    { name := o.name, fields := List.range' start o.fields.length ++ extIds st es (pK N k),
      implements := o.implements.map (ifaceId N) ++ extImpls N es (pK N k) } ::
      sdlObjsX N st es (k + 1) (start + o.fields.length) os

theorem extObjs_objStored (N : List (String × TypeId)) (st : Nat) (es : List AExt) (os : List AObj) (start : Nat) :
    extObjs N st es (objStored N start os) = sdlObjsX N st es 0 start os := by
  have key : ∀ (k start : Nat) (os : List AObj),
      ((objStored N start os).zipIdx k).map (fun p =>
        ({ p.1 with implements := p.1.implements ++ extImpls N es (pK N p.2),
                    fields := p.1.fields ++ extIds st es (pK N p.2) } : StoredObject)) =
      sdlObjsX N st es k start os := by
    intro k start os
    induction os generalizing k start with
    | nil => rfl
    | cons o os ih => simp [objStored, sdlObjsX, List.zipIdx_cons, ih]
  rw [← key]
  apply List.ext_getElem?
  intro k
  rw [extObjs_getElem?]
  simp only [List.getElem?_map, List.getElem?_zipIdx]
  cases (objStored N start os)[k]? <;> simp


/-- for the objects numbered from `k`, "block `e` extends object number `i`" is "`e` is named like it" -/
def Hobj (N : List (String × TypeId)) (es : List AExt) (k : Nat) (os : List AObj) : Prop :=
  ∀ p ∈ os.zipIdx k, ∀ e ∈ es, pK N p.2 e = (e.name == p.1.name)

theorem Hobj_cons {N es k o os} (h : Hobj N es k (o :: os)) :
    (∀ e ∈ es, pK N k e = (e.name == o.name)) ∧ Hobj N es (k + 1) os :=
  ⟨h (o, k) (by simp [List.zipIdx_cons]), fun p hp => h p (by simp [List.zipIdx_cons, hp])⟩

theorem objs_ext (l1 l2 : List StoredObject) (h1 : l1.map (·.name) = l2.map (·.name))
    (h2 : l1.map (·.fields) = l2.map (·.fields)) (h3 : l1.map (·.implements) = l2.map (·.implements)) : l1 = l2 := by
  induction l1 generalizing l2 with
  | nil => cases l2 <;> simp_all
  | cons a l1 ih =>
    cases l2 with
    | nil => simp at h1
    | cons b l2 =>
      simp only [List.map_cons, List.cons.injEq] at h1 h2 h3
      rw [ih l2 h1.2 h2.2 h3.2]
      obtain ⟨_, _, _⟩ := a; obtain ⟨_, _, _⟩ := b
      simp_all

theorem sdlObjsX_names (N st es k start os) : (sdlObjsX N st es k start os).map (·.name) = os.map (·.name) := by
  induction os generalizing k start with
  | nil => rfl
  | cons o os ih => simp [sdlObjsX, ih]

theorem objStored_names (N start) (os : List AObj) : (objStored N start os).map (·.name) = os.map (·.name) := by
  induction os generalizing start with
  | nil => rfl
  | cons o os ih => simp [objStored, ih]

theorem objStored_fields (N start) (os : List AObj) :
    (objStored N start os).map (·.fields) = consec start (os.map (·.fields.length)) := by
  induction os generalizing start with
  | nil => rfl
  | cons o os ih => simp [objStored, consec, ih]

theorem ifaceStored_fields (start) (is : List AIface) :
    (ifaceStored start is).map (·.fields) = consec start (is.map (·.fields.length)) := by
  induction is generalizing start with
  | nil => rfl
  | cons o os ih => simp [ifaceStored, consec, ih]

theorem consec_flatten (start : Nat) (ns : List Nat) : (consec start ns).flatten = List.range' start ns.sum := by
  induction ns generalizing start with
  | nil => rfl
  | cons n ns ih => simp [consec, ih, List.range'_append_1]

theorem consec_map_length (start : Nat) (ns : List Nat) : (consec start ns).map List.length = ns := by
  induction ns generalizing start with
  | nil => rfl
  | cons n ns ih => simp [consec, ih]

theorem foldObj_name (es : List AExt) (o : AObj) : (foldObj es o).name = o.name := rfl

theorem sdlObjsX_implements (N st es k start start' os) (h : Hobj N es k os) :
    (sdlObjsX N st es k start os).map (·.implements) =
      (objStored N start' (os.map (foldObj es))).map (·.implements) := by
  induction os generalizing k start start' with
  | nil => rfl
  | cons o os ih =>
    obtain ⟨h1, h2⟩ := Hobj_cons h
    simp only [sdlObjsX, List.map_cons, objStored, List.cons.injEq]
    refine ⟨?_, ih _ _ _ h2⟩
    simp only [foldObj, extImpls, extsOf, List.map_append, List.map_flatMap]
    rw [List.filter_congr h1]

theorem sdlObjsX_lengths (N st es k start os) (h : Hobj N es k os) :
    ((sdlObjsX N st es k start os).map (·.fields)).map List.length = (os.map (foldObj es)).map (·.fields.length) := by
  induction os generalizing k start with
  | nil => rfl
  | cons o os ih =>
    obtain ⟨h1, h2⟩ := Hobj_cons h
    simp only [sdlObjsX, List.map_cons, ih _ _ h2, List.cons.injEq, and_true]
    simp only [foldObj, extsOf, List.length_append, List.length_range', extIds_length]
    rw [List.filter_congr h1]


theorem extIds_filterMap {β} (g : AExt → AField → β) (es : List AExt) (p : AExt → Bool) (pre post : List β) (st : Nat)
    (hst : st = pre.length) :
    (extIds st es p).filterMap (fun i => (pre ++ es.flatMap (fun e => e.fields.map (g e)) ++ post)[i]?) =
      (es.filter p).flatMap (fun e => e.fields.map (g e)) := by
  subst hst
  induction es generalizing pre with
  | nil => simp [extIds]
  | cons e es ih =>
    simp only [extIds, List.filterMap_append, List.flatMap_cons, List.filter_cons]
    have e1 : pre ++ (e.fields.map (g e) ++ es.flatMap (fun e => e.fields.map (g e))) ++ post =
        pre ++ e.fields.map (g e) ++ (es.flatMap (fun e => e.fields.map (g e)) ++ post) := by simp
    have e2 : pre ++ (e.fields.map (g e) ++ es.flatMap (fun e => e.fields.map (g e))) ++ post =
        (pre ++ e.fields.map (g e)) ++ es.flatMap (fun e => e.fields.map (g e)) ++ post := by simp
    have h2 := ih (pre ++ e.fields.map (g e))
    simp only [List.length_append, List.length_map] at h2
    rw [← e2] at h2
    rw [h2]
    cases hp : p e
    · simp
    · have h1 := filterMap_getElem?_segment pre (e.fields.map (g e)) (es.flatMap (fun e => e.fields.map (g e)) ++ post)
      rw [← e1, List.length_map] at h1
      simp only [if_true, h1]
      simp

theorem flatMap_congr' {α β} (l : List α) (f g : α → List β) (h : ∀ x ∈ l, f x = g x) :
    l.flatMap f = l.flatMap g := by
  induction l with
  | nil => rfl
  | cons x l ih => simp [h x (by simp), ih fun y hy => h y (by simp [hy])]

theorem extFields_eq (N : List (String × TypeId)) (es : List AExt) :
    extFields N es = es.flatMap fun e => e.fields.map (storedField N (.object (objIdx N e.name))) := by
  induction es with
  | nil => rfl
  | cons e es ih => simp [extFields, ih]

theorem sdlObjsX_filterMap (N : List (String × TypeId)) (es : List AExt) (os : List AObj) (k : Nat)
    (h : Hobj N es k os) (pre post : List StoredField) (st start : Nat)
    (hst : st = pre.length + (objFields N k os).length) (hstart : start = pre.length) :
    ((sdlObjsX N st es k start os).flatMap (·.fields)).filterMap
        (fun i => (pre ++ objFields N k os ++ extFields N es ++ post)[i]?) =
      objFields N k (os.map (foldObj es)) := by
  induction os generalizing k pre start with
  | nil => rfl
  | cons o os ih =>
    obtain ⟨h1, h2⟩ := Hobj_cons h
    subst hstart
    simp only [sdlObjsX, List.flatMap_cons, List.filterMap_append, List.map_cons, objFields]
    -- the object's own fields
    have eA : pre ++ (o.fields.map (storedField N (.object k)) ++ objFields N (k + 1) os) ++ extFields N es ++ post =
        pre ++ o.fields.map (storedField N (.object k)) ++ (objFields N (k + 1) os ++ extFields N es ++ post) := by simp
    have hA := filterMap_getElem?_segment pre (o.fields.map (storedField N (.object k)))
      (objFields N (k + 1) os ++ extFields N es ++ post)
    rw [← eA, List.length_map] at hA
    rw [hA]
    -- its extension fields
    have hE := extIds_filterMap (fun e => storedField N (.object (objIdx N e.name))) es (pK N k)
      (pre ++ (o.fields.map (storedField N (.object k)) ++ objFields N (k + 1) os)) post st (by simp [hst, objFields])
    rw [← extFields_eq] at hE
    simp only [List.append_assoc] at hE ⊢
    rw [hE]
    -- the other objects
    have hT := ih (k + 1) h2 (pre ++ o.fields.map (storedField N (.object k))) (pre.length + o.fields.length)
      (by simp [hst, objFields]; omega) (by simp)
    simp only [List.append_assoc] at hT
    rw [hT]
    simp only [foldObj, extsOf, List.map_append, List.map_flatMap, List.append_assoc, List.append_cancel_left_eq,
      List.append_cancel_right_eq]
    rw [← List.filter_congr h1]
    apply flatMap_congr'
    intro e he
    have : objIdx N e.name = k := by simpa [pK] using (List.mem_filter.1 he).2
    rw [this]


theorem flatMap_single (ks : List Nat) (j : Nat) (R : List Nat) (hn : ks.Nodup) (hj : j ∈ ks) :
    ks.flatMap (fun k => if (j == k) = true then R else []) = R := by
  induction ks with
  | nil => cases hj
  | cons k ks ih =>
    simp only [List.nodup_cons] at hn
    simp only [List.flatMap_cons]
    rcases List.mem_cons.1 hj with rfl | hj'
    · have : ks.flatMap (fun k => if (j == k) = true then R else []) = [] := by
        simp only [List.flatMap_eq_nil_iff]
        intro k hk
        have : j ≠ k := fun h => hn.1 (h ▸ hk)
        simp [this]
      rw [this]; simp
    · have : j ≠ k := fun h => hn.1 (h ▸ hj')
      rw [ih hn.2 hj']; simp [this]

theorem extIds_all_perm (N : List (String × TypeId)) (ks : List Nat) (hn : ks.Nodup) (es : List AExt) (st : Nat)
    (h : ∀ e ∈ es, objIdx N e.name ∈ ks) :
    (ks.flatMap fun k => extIds st es (pK N k)).Perm (List.range' st (es.map (·.fields.length)).sum) := by
  induction es generalizing st with
  | nil => simp [extIds]
  | cons e es ih =>
    simp only [extIds, List.map_cons, List.sum_cons]
    refine (flatMap_append_perm' ks _ _).trans ?_
    rw [← List.range'_append_1]
    refine List.Perm.append ?_ (ih _ fun e' he' => h e' (by simp [he']))
    have : ks.flatMap (fun k => if pK N k e = true then List.range' st e.fields.length else []) =
        List.range' st e.fields.length :=
      flatMap_single ks (objIdx N e.name) (List.range' st e.fields.length) hn (h e (by simp))
    rw [this]

theorem zipIdx_flatMap_snd {α β} (l : List α) (k : Nat) (f : Nat → List β) :
    (l.zipIdx k).flatMap (fun p => f p.2) = (List.range' k l.length).flatMap f := by
  induction l generalizing k with
  | nil => rfl
  | cons x l ih => simp [List.zipIdx_cons, List.range'_succ, ih]

theorem sdlObjsX_fields_perm (N st es k start) (os : List AObj) :
    ((sdlObjsX N st es k start os).flatMap (·.fields)).Perm
      (List.range' start (os.map (·.fields.length)).sum ++ (List.range' k os.length).flatMap fun k => extIds st es (pK N k)) := by
  induction os generalizing k start with
  | nil => simp [sdlObjsX]
  | cons o os ih =>
    simp only [sdlObjsX, List.flatMap_cons, List.map_cons, List.sum_cons, List.length_cons, List.range'_succ]
    rw [← List.range'_append_1]
    refine (List.Perm.append_left _ (ih (k + 1) (start + o.fields.length))).trans ?_
    simp only [List.append_assoc]
    refine List.Perm.append_left _ ?_
    simp only [← List.append_assoc]
    exact List.Perm.append_right _ List.perm_append_comm

@[simp] theorem objFields_length (N : List (String × TypeId)) (k : Nat) (os : List AObj) :
    (objFields N k os).length = (os.map (·.fields.length)).sum := by
  induction os generalizing k with
  | nil => rfl
  | cons o os ih => simp [objFields, ih]

@[simp] theorem extFields_length (N : List (String × TypeId)) (es : List AExt) :
    (extFields N es).length = (es.map (·.fields.length)).sum := by
  induction es with
  | nil => rfl
  | cons o os ih => simp [extFields, ih]

end C07
end GqlVerif

namespace GqlVerif

/-- renumber the field ids: `σ` lists the old ids in the new order (the field with old id `σ[j]` gets id `j`,
i.e. old id `i` becomes `σ.idxOf i`) -/
def Schema.mapFields (σ : List Nat) (s : Schema) : Schema :=
  { s with fields := σ.filterMap (fun i => s.fields[i]?)
           objects := s.objects.map fun o => { o with fields := o.fields.map σ.idxOf }
           interfaces := s.interfaces.map fun i => { i with fields := i.fields.map σ.idxOf } }

/-- the field ids in owner order: interfaces first, then objects -/
def Schema.fieldOrder (s : Schema) : List Nat :=
  s.interfaces.flatMap (·.fields) ++ s.objects.flatMap (·.fields)

/-- renumber the fields in owner order -/
def Schema.normFields (s : Schema) : Schema := s.mapFields s.fieldOrder

namespace C07

theorem perm_range_facts (σ : List Nat) (n : Nat) (h : σ.Perm (List.range n)) :
    σ.Nodup ∧ σ.length = n ∧ ∀ i, i ∈ σ ↔ i < n :=
  ⟨h.nodup_iff.2 List.nodup_range, by simpa using h.length_eq, fun i => by rw [h.mem_iff]; simp⟩

/-- `σ.idxOf` is a bijection of `[0, n)` with inverse `σ[·]`; ids out of range are sent out of range -/
theorem idxOf_bijection (σ : List Nat) (n : Nat) (h : σ.Perm (List.range n)) :
    (∀ i, i < n → σ.idxOf i < n) ∧ (∀ i, n ≤ i → σ.idxOf i = n) ∧
    (∀ i j, i < n → j < n → σ.idxOf i = σ.idxOf j → i = j) ∧
    (∀ j, j < n → ∃ i, i < n ∧ σ.idxOf i = j) ∧
    (∀ i, i < n → σ[σ.idxOf i]? = some i) ∧ (∀ j (hj : j < σ.length), σ.idxOf σ[j] = j) := by
  obtain ⟨hnd, hlen, hmem⟩ := perm_range_facts σ n h
  have hlt : ∀ i, i < n → σ.idxOf i < σ.length := fun i hi => List.idxOf_lt_length_iff.2 ((hmem i).2 hi)
  refine ⟨fun i hi => hlen ▸ hlt i hi, ?_, ?_, ?_, ?_, fun j hj => hnd.idxOf_getElem j hj⟩
  · intro i hi
    rw [← hlen]; exact List.idxOf_eq_length (fun hm => by have := (hmem i).1 hm; omega)
  · intro i j hi hj hij
    have h1 := List.getElem_idxOf (hlt i hi)
    have h2 := List.getElem_idxOf (hlt j hj)
    rw [← h1, ← h2]; simp [hij]
  · intro j hj
    have hj' : j < σ.length := by omega
    exact ⟨σ[j], (hmem _).1 (List.getElem_mem hj'), hnd.idxOf_getElem j hj'⟩
  · intro i hi
    rw [List.getElem?_eq_getElem (hlt i hi), List.getElem_idxOf]

theorem filterMap_all_some {α β} (f : α → Option β) (l : List α) (h : ∀ x ∈ l, (f x).isSome) (j : Nat) :
    (l.filterMap f)[j]? = l[j]?.bind f := by
  induction l generalizing j with
  | nil => simp
  | cons x l ih =>
    have hx := h x (by simp)
    obtain ⟨y, hy⟩ := Option.isSome_iff_exists.1 hx
    rw [List.filterMap_cons_some hy]
    cases j with
    | zero => simp [hy]
    | succ j => simpa using ih (fun z hz => h z (by simp [hz])) j

/-- `getField` commutes with the renumbering, for every id (in range or not) -/
theorem mapFields_getElem? (σ : List Nat) (s : Schema) (h : σ.Perm (List.range s.fields.length)) (i : Nat) :
    (s.mapFields σ).fields[σ.idxOf i]? = s.fields[i]? := by
  obtain ⟨_, hlen, hmem⟩ := perm_range_facts σ _ h
  obtain ⟨_, hout, _, _, hinv, _⟩ := idxOf_bijection σ _ h
  have hsome : ∀ x ∈ σ, (s.fields[x]?).isSome := fun x hx => by
    have := (hmem x).1 hx
    simp [this]
  simp only [Schema.mapFields]
  rw [filterMap_all_some _ σ hsome]
  rcases Nat.lt_or_ge i s.fields.length with hi | hi
  · rw [hinv i hi]; rfl
  · rw [hout i hi, List.getElem?_eq_none (by omega), List.getElem?_eq_none hi]; rfl

theorem mapFields_fields_length (σ : List Nat) (s : Schema) (h : σ.Perm (List.range s.fields.length)) :
    (s.mapFields σ).fields.length = s.fields.length := by
  obtain ⟨_, hlen, hmem⟩ := perm_range_facts σ _ h
  have hsome : ∀ x ∈ σ, (s.fields[x]?).isSome := fun x hx => by
    have := (hmem x).1 hx
    simp [this]
  have h1 := filterMap_all_some (fun i => s.fields[i]?) σ hsome
  simp only [Schema.mapFields]
  rcases Nat.lt_trichotomy (σ.filterMap fun i => s.fields[i]?).length σ.length with hlt | heq | hgt
  · have := h1 (σ.filterMap fun i => s.fields[i]?).length
    rw [List.getElem?_eq_none (Nat.le_refl _), List.getElem?_eq_getElem hlt] at this
    have h2 := hsome _ (List.getElem_mem hlt)
    simp only [Option.bind_some] at this
    rw [← this] at h2; cases h2
  · omega
  · have := h1 σ.length
    rw [List.getElem?_eq_getElem hgt, List.getElem?_eq_none (Nat.le_refl _)] at this
    cases this


@[simp] theorem fold_objNames (x : ASX) : x.fold.objNames = x.base.objNames := by
  simp [ASX.fold, AS.objNames, List.map_map, Function.comp_def, foldObj]

theorem fold_known (x : ASX) : x.fold.known = x.base.known := by
  simp only [AS.known, fold_objNames]; rfl

theorem fold_names (x : ASX) : x.fold.names = x.base.names := by
  simp only [AS.names, AS.pairs, fold_objNames]; rfl

theorem wf_fold (x : ASX) (hw : WfASX x) : WfAS x.fold := by
  obtain ⟨⟨hn, hif, hof, him, hun, hinp⟩, hen, hef, hei⟩ := hw
  refine ⟨by rw [fold_known]; exact hn, by rw [fold_known]; exact hif, ?_, ?_, by rw [fold_known]; exact hun,
    by rw [fold_known]; exact hinp⟩
  · intro o ho f hf
    rw [fold_known]
    simp only [ASX.fold, List.mem_map] at ho
    obtain ⟨o', ho', rfl⟩ := ho
    simp only [foldObj, List.mem_append, List.mem_flatMap, extsOf, List.mem_filter] at hf
    rcases hf with hf | ⟨e, ⟨he, _⟩, hf⟩
    · exact hof o' ho' f hf
    · exact hef e he f hf
  · intro o ho n hn'
    simp only [ASX.fold, List.mem_map] at ho
    obtain ⟨o', ho', rfl⟩ := ho
    simp only [foldObj, List.mem_append, List.mem_flatMap, extsOf, List.mem_filter] at hn'
    rcases hn' with hn' | ⟨e, ⟨he, _⟩, hn'⟩
    · exact him o' ho' n hn'
    · exact hei e he n hn'

/-- every block extends exactly the object it names -/
theorem ext_target (x : ASX) (hw : WfASX x) (e : AExt) (he : e ∈ x.exts) :
    ∃ p ∈ x.base.objects.zipIdx 0, p.1.name = e.name ∧ objIdx x.base.names e.name = p.2 := by
  obtain ⟨⟨hn, _⟩, hen, _, _⟩ := hw
  have L := lookups x.base hn
  have := hen e he
  simp only [AS.objNames, List.mem_map] at this
  obtain ⟨o, ho, hoe⟩ := this
  obtain ⟨k, hk⟩ := List.mem_iff_getElem?.1 ho
  have hk' : (o, k) ∈ x.base.objects.zipIdx 0 := by
    rw [List.mem_zipIdx_iff_getElem?]; simpa using hk
  refine ⟨(o, k), hk', hoe, ?_⟩
  have := L.obj (o, k) hk'
  simp only [hoe] at this
  simp [objIdx, this, TypeId.asObject?]

theorem hobj_of_wf (x : ASX) (hw : WfASX x) : Hobj x.base.names x.exts 0 x.base.objects := by
  intro p hp e he
  obtain ⟨q, hq, hqn, hqi⟩ := ext_target x hw e he
  obtain ⟨⟨hn, _⟩, _⟩ := hw
  have L := lookups x.base hn
  simp only [pK, hqi]
  have h1 := L.obj p hp
  have h2 := L.obj q hq
  rw [List.mem_zipIdx_iff_getElem?] at hp hq
  by_cases hpq : q.2 = p.2
  · have : q.1 = p.1 := by
      rw [hpq] at hq; rw [hq] at hp; exact Option.some.inj hp
    rw [← hqn, this, hpq]; simp
  · have : e.name ≠ p.1.name := by
      intro h
      rw [← hqn] at h; rw [h, h1] at h2
      exact hpq (by injection h2 with h2; injection h2 with h2; exact h2.symm)
    rw [beq_eq_false_iff_ne.2 hpq, beq_eq_false_iff_ne.2 this]


/-- the SDL result, with the closed form of the objects -/
theorem sdlSchema_eq (x : ASX) :
    x.sdlSchema =
      { x.base.toSchema with
        fields := ifaceFields x.base.names 0 x.base.interfaces ++ objFields x.base.names 0 x.base.objects ++
          extFields x.base.names x.exts
        objects := sdlObjsX x.base.names
          ((ifaceFields x.base.names 0 x.base.interfaces).length + (objFields x.base.names 0 x.base.objects).length)
          x.exts 0 (ifaceFields x.base.names 0 x.base.interfaces).length x.base.objects } := by
  simp only [ASX.sdlSchema, AS.toSchema, extObjs_objStored, List.length_append]

theorem ifaceStored_flatMap (start : Nat) (is : List AIface) :
    (ifaceStored start is).flatMap (·.fields) = List.range' start (is.map (·.fields.length)).sum := by
  rw [List.flatMap_def, ifaceStored_fields, consec_flatten]

theorem sdlSchema_fieldOrder (x : ASX) :
    x.sdlSchema.fieldOrder =
      List.range' 0 (ifaceFields x.base.names 0 x.base.interfaces).length ++
      (sdlObjsX x.base.names
          ((ifaceFields x.base.names 0 x.base.interfaces).length + (objFields x.base.names 0 x.base.objects).length)
          x.exts 0 (ifaceFields x.base.names 0 x.base.interfaces).length x.base.objects).flatMap (·.fields) := by
  rw [sdlSchema_eq]
  simp only [Schema.fieldOrder, AS.toSchema, ifaceStored_flatMap, ifaceFields_length]

/-- **the SDL field ids, listed in owner order, are a permutation of all field ids** -/
theorem sdlSchema_fieldOrder_perm (x : ASX) (hw : WfASX x) :
    x.sdlSchema.fieldOrder.Perm (List.range x.sdlSchema.fields.length) := by
  rw [sdlSchema_fieldOrder]
  have hlen : x.sdlSchema.fields.length =
      (ifaceFields x.base.names 0 x.base.interfaces).length + (objFields x.base.names 0 x.base.objects).length +
        (extFields x.base.names x.exts).length := by
    rw [sdlSchema_eq]; simp only [List.length_append]
  rw [hlen, List.range_eq_range', ← List.range'_append_1, ← List.range'_append_1]
  simp only [List.append_assoc]
  refine List.Perm.append_left _ ?_
  refine (sdlObjsX_fields_perm _ _ _ _ _ _).trans ?_
  simp only [Nat.zero_add, objFields_length, extFields_length]
  refine List.Perm.append_left _ ?_
  apply extIds_all_perm _ _ List.nodup_range' 
  intro e he
  obtain ⟨p, hp, _, hpi⟩ := ext_target x hw e he
  rw [hpi, List.mem_range'_1]
  have := (List.mem_zipIdx_iff_getElem?.1 hp)
  have hlt : p.2 < x.base.objects.length := by
    rcases Nat.lt_or_ge p.2 x.base.objects.length with h | h
    · exact h
    · rw [List.getElem?_eq_none h] at this; cases this
  omega


theorem ifaces_ext (l1 l2 : List StoredInterface) (h1 : l1.map (·.name) = l2.map (·.name))
    (h2 : l1.map (·.fields) = l2.map (·.fields)) : l1 = l2 := by
  induction l1 generalizing l2 with
  | nil => cases l2 <;> simp_all
  | cons a l1 ih =>
    cases l2 with
    | nil => simp at h1
    | cons b l2 =>
      simp only [List.map_cons, List.cons.injEq] at h1 h2
      rw [ih l2 h1.2 h2.2]
      obtain ⟨_, _⟩ := a; obtain ⟨_, _⟩ := b
      simp_all

/-- **the introspection front-end's value is the SDL front-end's value with the fields renumbered in owner
order** -/
theorem fold_toSchema_eq (x : ASX) (hw : WfASX x) : x.fold.toSchema = x.sdlSchema.normFields := by
  have hperm := sdlSchema_fieldOrder_perm x hw
  have hnd := (perm_range_facts _ _ hperm).1
  have hH := hobj_of_wf x hw
  rw [sdlSchema_fieldOrder] at hnd
  unfold Schema.normFields
  rw [sdlSchema_fieldOrder, sdlSchema_eq]
  generalize hN : x.base.names = N at *
  generalize hIF : ifaceFields N 0 x.base.interfaces = IF at *
  generalize hst : IF.length + (objFields N 0 x.base.objects).length = st at *
  generalize hSO : sdlObjsX N st x.exts 0 IF.length x.base.objects = SO at *
  have hIFlen : IF.length = (x.base.interfaces.map (·.fields.length)).sum := by rw [← hIF]; simp
  simp only [AS.toSchema, Schema.mapFields, fold_names, hN]
  have e1 : x.fold.interfaces = x.base.interfaces := rfl
  have e2 : x.fold.objects = x.base.objects.map (foldObj x.exts) := rfl
  have e3 : x.fold.unions = x.base.unions := rfl
  have e4 : x.fold.scalars = x.base.scalars := rfl
  have e5 : x.fold.enums = x.base.enums := rfl
  have e6 : x.fold.inputs = x.base.inputs := rfl
  have e7 : x.fold.query = x.base.query := rfl
  have e8 : x.fold.mutation = x.base.mutation := rfl
  have e9 : x.fold.subscription = x.base.subscription := rfl
  rw [e1, e2, e3, e4, e5, e6, e7, e8, e9, hIF]
  -- fields
  have hF : IF ++ objFields N 0 (x.base.objects.map (foldObj x.exts)) =
      (List.range' 0 IF.length ++ SO.flatMap (·.fields)).filterMap
        (fun i => (IF ++ objFields N 0 x.base.objects ++ extFields N x.exts)[i]?) := by
    rw [List.filterMap_append]
    have h1 := filterMap_getElem?_segment [] IF (objFields N 0 x.base.objects ++ extFields N x.exts)
    simp only [List.nil_append, List.length_nil, ← List.append_assoc] at h1
    rw [h1]
    have h2 := sdlObjsX_filterMap N x.exts x.base.objects 0 hH IF [] st IF.length hst.symm rfl
    rw [hSO, List.append_nil] at h2
    rw [h2]
  -- objects
  have hO : objStored N IF.length (x.base.objects.map (foldObj x.exts)) =
      SO.map fun o => { o with fields := o.fields.map (List.range' 0 IF.length ++ SO.flatMap (·.fields)).idxOf } := by
    have hnames := sdlObjsX_names N st x.exts 0 IF.length x.base.objects
    have hlens := sdlObjsX_lengths N st x.exts 0 IF.length x.base.objects hH
    have himpl := sdlObjsX_implements N st x.exts 0 IF.length IF.length x.base.objects hH
    rw [hSO] at hnames hlens himpl
    apply objs_ext
    · simp only [objStored_names, List.map_map, Function.comp_def]
      rw [hnames]; rfl
    · have := map_idxOf_segments (List.range' 0 IF.length) (SO.map (·.fields)) [] (by
        rw [← List.flatMap_def, List.append_nil]; exact hnd)
      rw [← List.flatMap_def, List.append_nil, List.length_range'] at this
      simp only [List.map_map, Function.comp_def] at this hlens ⊢
      rw [objStored_fields, this, hlens, List.map_map]; rfl
    · simp only [List.map_map, Function.comp_def]
      exact himpl.symm
  -- interfaces
  have hI : ifaceStored 0 x.base.interfaces =
      (ifaceStored 0 x.base.interfaces).map fun i =>
        { i with fields := i.fields.map (List.range' 0 IF.length ++ SO.flatMap (·.fields)).idxOf } := by
    apply ifaces_ext
    · rw [List.map_map]; rfl
    · have hfl : ((ifaceStored 0 x.base.interfaces).map (·.fields)).flatten = List.range' 0 IF.length := by
        rw [← List.flatMap_def, ifaceStored_flatMap, hIFlen]
      have := map_idxOf_segments [] ((ifaceStored 0 x.base.interfaces).map (·.fields)) (SO.flatMap (·.fields)) (by
        rw [List.nil_append, hfl]; exact hnd)
      rw [List.nil_append, hfl, List.length_nil] at this
      simp only [List.map_map, Function.comp_def] at this ⊢
      rw [this]
      have h2 := ifaceStored_fields 0 x.base.interfaces
      have h3 := congrArg (List.map List.length) h2
      rw [consec_map_length] at h3
      simp only [List.map_map, Function.comp_def] at h3
      rw [h3]; exact h2
  rw [← hF, ← hO, ← hI]


/-! ## `frontends_iso_ext` -/

/-- **C07 with `extend type`, general form.**  For every well-formed abstract schema with extension blocks, every
SDL rendering (blocks anywhere in the document) and every introspection rendering of the folded schema: the SDL
front-end returns some `s`, the field ids of `s` listed in owner order are a permutation `σ` of all field ids, and
the introspection front-end returns `s` renumbered by `σ`. -/
theorem frontends_iso_ext_of_renderings (x : ASX) (doc : SdlDoc) (l : List (Option FullType))
    (hw : WfASX x) (hd : IsSdlOfX x doc) (hi : IsIntroOf x.fold (l.filterMap id)) :
    ∃ s, Sdl.fromSdl doc = .ok s ∧ s.fieldOrder.Perm (List.range s.fields.length) ∧
      Intro.fromIntro true (some (introSchemaOf x.fold l)) = .ok (s.mapFields s.fieldOrder) :=
  ⟨x.sdlSchema, sdl_spec_ext x doc hw hd, sdlSchema_fieldOrder_perm x hw, by
    rw [intro_spec x.fold l (wf_fold x hw) hi, fold_toSchema_eq x hw]; rfl⟩

/-- the same, as one equation -/
theorem frontends_iso_ext_map (x : ASX) (doc : SdlDoc) (l : List (Option FullType))
    (hw : WfASX x) (hd : IsSdlOfX x doc) (hi : IsIntroOf x.fold (l.filterMap id)) :
    (Sdl.fromSdl doc).map Schema.normFields = Intro.fromIntro true (some (introSchemaOf x.fold l)) := by
  rw [sdl_spec_ext x doc hw hd, intro_spec x.fold l (wf_fold x hw) hi, fold_toSchema_eq x hw]; rfl

/-! ### one concrete rendering -/

/-- SDL rendering: the rendering of the base schema followed by the `extend type` blocks -/
def sdlOfX (explicitRoots : Bool) (x : ASX) : SdlDoc := sdlOf explicitRoots x.base ++ x.exts.map sdlExt

theorem ofPass_append (d1 d2 : SdlDoc) (p : Nat) : ofPass (d1 ++ d2) p = ofPass d1 p ++ ofPass d2 p := by
  simp [ofPass]

theorem ofPass_exts (es : List AExt) (p : Nat) : ofPass (es.map sdlExt) p = if (5 == p) = true then es.map sdlExt else [] := by
  unfold ofPass
  exact filter_map_const es sdlExt _ (5 == p) (fun _ _ => by simp [passOf, sdlExt])

theorem isSdlOfX_sdlOfX (x : ASX) (ex : Bool) (hex : ex = true ∨ x.base.DefaultRoots) : IsSdlOfX x (sdlOfX ex x) := by
  have h := isSdlOf_sdlOf x.base ex hex
  have hb : schemaBlock (sdlOfX ex x) = schemaBlock (sdlOf ex x.base) := by
    have h1 : schemaBlock (sdlOfX ex x) = (schemaBlock (sdlOf ex x.base)).or (schemaBlock (x.exts.map sdlExt)) := by
      simp [schemaBlock, sdlOfX, List.findSome?_append]
    have h2 : schemaBlock (x.exts.map sdlExt) = none := by
      simp only [schemaBlock, List.findSome?_eq_none_iff, List.mem_map]
      rintro _ ⟨e, _, rfl⟩; rfl
    rw [h1, h2]; simp
  refine ⟨?_, ?_, ?_, ?_, ?_, ?_, ?_, ?_⟩
  · simp [sdlOfX, ofPass_append, ofPass_exts, h.scalars]
  · simp [sdlOfX, ofPass_append, ofPass_exts, h.enums]
  · simp [sdlOfX, ofPass_append, ofPass_exts, h.unions]
  · simp [sdlOfX, ofPass_append, ofPass_exts, h.ifaces]
  · simp [sdlOfX, ofPass_append, ofPass_exts, h.objects]
  · simp [sdlOfX, ofPass_append, ofPass_exts, h.noExt]
  · simp [sdlOfX, ofPass_append, ofPass_exts, h.inputs]
  · rw [hb]; exact h.roots

/-- **`frontends_iso_ext`**: SDL rendering with `extend type` blocks vs introspection rendering of the folded
schema — the results agree up to the renumbering `σ = s.fieldOrder` of the field ids. -/
theorem frontends_iso_ext (x : ASX) (ex : Bool) (bs : List String) (hw : WfASX x)
    (hex : ex = true ∨ x.base.DefaultRoots) (hbs : ∀ b ∈ bs, b ∈ Schema.defaultScalars) :
    ∃ s, Sdl.fromSdl (sdlOfX ex x) = .ok s ∧ s.fieldOrder.Perm (List.range s.fields.length) ∧
      Intro.fromIntro true (some (introOf bs x.fold)) = .ok (s.mapFields s.fieldOrder) :=
  frontends_iso_ext_of_renderings x _ _ hw (isSdlOfX_sdlOfX x ex hex)
    (by rw [filterMap_id_map_some]; exact isIntroOf_introTypes x.fold bs (wf_fold x hw).1 hbs)

/-- at the level of the schema files -/
theorem frontends_iso_ext_json (x : ASX) (ex wrapped : Bool) (bs : List String) (hw : WfASX x)
    (hex : ex = true ∨ x.base.DefaultRoots) (hbs : ∀ b ∈ bs, b ∈ Schema.defaultScalars) (hd : x.fold.DepthOk) :
    (Sdl.fromSdl (sdlOfX ex x)).map Schema.normFields = Intro.fromJson true (jsonResponse wrapped (introOf bs x.fold)) := by
  rw [Intro.fromJson, parseIntro_json wrapped _ (depthOk_introOf x.fold bs hd)]
  exact frontends_iso_ext_map x _ _ hw (isSdlOfX_sdlOfX x ex hex)
    (by rw [filterMap_id_map_some]; exact isIntroOf_introTypes x.fold bs (wf_fold x hw).1 hbs)


/-! ## when is the equality literal? -/

theorem idxOf_range (n i : Nat) (h : i < n) : (List.range n).idxOf i = i := by
  have := (List.nodup_range (n := n)).idxOf_getElem i (by simpa using h)
  simpa using this

theorem map_eq_self {α} (l : List α) (f : α → α) (h : ∀ x ∈ l, f x = x) : l.map f = l := by
  induction l with
  | nil => rfl
  | cons x l ih => simp [h x (by simp), ih fun y hy => h y (by simp [hy])]

/-- a schema whose fields already are in owner order is a fixed point of the renumbering -/
theorem mapFields_of_sorted (s : Schema) (h : s.fieldOrder = List.range s.fields.length) : s.normFields = s := by
  unfold Schema.normFields
  rw [h]
  have hmem : ∀ f ∈ s.fieldOrder, (List.range s.fields.length).idxOf f = f := by
    intro f hf
    rw [h] at hf
    exact idxOf_range _ _ (by simpa using hf)
  have hF : (List.range s.fields.length).filterMap (fun i => s.fields[i]?) = s.fields := by
    have := filterMap_getElem?_segment [] s.fields []
    simpa [List.range_eq_range'] using this
  have hO : (s.objects.map fun o => { o with fields := o.fields.map (List.range s.fields.length).idxOf }) = s.objects := by
    apply map_eq_self
    intro o ho
    have : o.fields.map (List.range s.fields.length).idxOf = o.fields := by
      apply map_eq_self
      intro f hf
      exact hmem f (by simp only [Schema.fieldOrder, List.mem_append, List.mem_flatMap]; exact .inr ⟨o, ho, hf⟩)
    rw [this]
  have hI : (s.interfaces.map fun o => { o with fields := o.fields.map (List.range s.fields.length).idxOf }) =
      s.interfaces := by
    apply map_eq_self
    intro o ho
    have : o.fields.map (List.range s.fields.length).idxOf = o.fields := by
      apply map_eq_self
      intro f hf
      exact hmem f (by simp only [Schema.fieldOrder, List.mem_append, List.mem_flatMap]; exact .inl ⟨o, ho, hf⟩)
    rw [this]
  simp only [Schema.mapFields, hF, hO, hI]

theorem objStored_flatMap (N : List (String × TypeId)) (start : Nat) (os : List AObj) :
    (objStored N start os).flatMap (·.fields) = List.range' start (os.map (·.fields.length)).sum := by
  rw [List.flatMap_def, objStored_fields, consec_flatten]

/-- the closed form of `C07Frontends` has its fields in owner order -/
theorem toSchema_fieldOrder (a : AS) : a.toSchema.fieldOrder = List.range a.toSchema.fields.length := by
  simp only [Schema.fieldOrder, AS.toSchema, ifaceStored_flatMap, objStored_flatMap, List.length_append,
    ifaceFields_length, objFields_length, List.range_eq_range']
  rw [← List.range'_append_1]; simp

/-- **literal equality holds exactly when the SDL front-end happens to allocate the field ids in owner order** -/
theorem sdlSchema_eq_fold_iff (x : ASX) (hw : WfASX x) :
    x.sdlSchema = x.fold.toSchema ↔ x.sdlSchema.fieldOrder = List.range x.sdlSchema.fields.length := by
  constructor
  · intro h; rw [h]; exact toSchema_fieldOrder _
  · intro h; rw [fold_toSchema_eq x hw, mapFields_of_sorted _ h]

theorem extIds_nil (st : Nat) (es : List AExt) (p : AExt → Bool) (h : ∀ e ∈ es, e.fields = []) : extIds st es p = [] := by
  induction es generalizing st with
  | nil => rfl
  | cons e es ih => simp [extIds, h e (by simp), ih _ fun e' he' => h e' (by simp [he'])]

theorem extFields_nil (N : List (String × TypeId)) (es : List AExt) (h : ∀ e ∈ es, e.fields = []) : extFields N es = [] := by
  induction es with
  | nil => rfl
  | cons e es ih => simp [extFields, h e (by simp), ih fun e' he' => h e' (by simp [he'])]

theorem sdlObjsX_flatMap_nil (N st es k start) (os : List AObj) (h : ∀ e ∈ es, e.fields = []) :
    (sdlObjsX N st es k start os).flatMap (·.fields) = List.range' start (os.map (·.fields.length)).sum := by
  induction os generalizing k start with
  | nil => rfl
  | cons o os ih => simp [sdlObjsX, extIds_nil _ _ _ h, ih, List.range'_append_1]

/-- blocks that only add `implements` (no fields) do not disturb the field numbering -/
theorem sdlSchema_eq_fold_of_noFields (x : ASX) (hw : WfASX x) (h : ∀ e ∈ x.exts, e.fields = []) :
    x.sdlSchema = x.fold.toSchema := by
  rw [sdlSchema_eq_fold_iff x hw, sdlSchema_fieldOrder, sdlObjsX_flatMap_nil _ _ _ _ _ _ h, sdlSchema_eq]
  simp only [List.length_append, ifaceFields_length, objFields_length, extFields_nil _ _ h, List.length_nil,
    List.range_eq_range', Nat.add_zero]
  rw [← List.range'_append_1]; simp

/-- **`frontends_equal_ext`** (literal equality): `extend type` blocks without fields -/
theorem frontends_equal_ext (x : ASX) (doc : SdlDoc) (l : List (Option FullType))
    (hw : WfASX x) (hd : IsSdlOfX x doc) (hi : IsIntroOf x.fold (l.filterMap id))
    (h : ∀ e ∈ x.exts, e.fields = []) :
    Sdl.fromSdl doc = Intro.fromIntro true (some (introSchemaOf x.fold l)) := by
  rw [sdl_spec_ext x doc hw hd, intro_spec x.fold l (wf_fold x hw) hi, sdlSchema_eq_fold_of_noFields x hw h]

/-- literal equality, general criterion -/
theorem frontends_equal_ext_iff (x : ASX) (doc : SdlDoc) (l : List (Option FullType))
    (hw : WfASX x) (hd : IsSdlOfX x doc) (hi : IsIntroOf x.fold (l.filterMap id)) :
    Sdl.fromSdl doc = Intro.fromIntro true (some (introSchemaOf x.fold l)) ↔
      x.sdlSchema.fieldOrder = List.range x.sdlSchema.fields.length := by
  rw [sdl_spec_ext x doc hw hd, intro_spec x.fold l (wf_fold x hw) hi, ← sdlSchema_eq_fold_iff x hw]
  exact ⟨fun h => Except.ok.inj h, fun h => by rw [h]⟩


/-! ## witnesses -/

/-- the smallest schema on which literal equality FAILS: two objects with one field each, the first one extended -/
def exX0 : ASX :=
  { base := { objects := [⟨"A", [], [⟨"a", .named "Int", none⟩]⟩, ⟨"B", [], [⟨"b", .named "Int", none⟩]⟩] }
    exts := [⟨"A", [], [⟨"c", .named "Int", none⟩]⟩] }

example : WfASX exX0 := by decide

/-- SDL: `c` is allocated after `b` (pass 5 after pass 4); JSON: `c` follows `a` -/
example :
    (Sdl.fromSdl (sdlOfX false exX0)).toOption.map (fun s => (s.fields.map (·.name), s.objects.map (·.fields))) =
      some (["a", "b", "c"], [[0, 2], [1]]) ∧
    (Intro.fromIntro true (some (introOf [] exX0.fold))).toOption.map
        (fun s => (s.fields.map (·.name), s.objects.map (·.fields))) =
      some (["a", "c", "b"], [[0, 1], [2]]) := by decide

example : (Sdl.fromSdl (sdlOfX false exX0)).toOption ≠ (Intro.fromIntro true (some (introOf [] exX0.fold))).toOption := by
  decide

/-- … and they agree after the renumbering (kernel evaluation, independent of the theorems) -/
example : ((Sdl.fromSdl (sdlOfX false exX0)).map Schema.normFields).toOption =
    (Intro.fromIntro true (some (introOf [] exX0.fold))).toOption := by decide

/-- the running example of `C07Frontends` with extensions: `Human` gets an interface and two fields in two blocks,
`Droid` one field, `MutationRoot` a block without fields -/
def exASX : ASX :=
  { base := { exAS with interfaces := exAS.interfaces ++ [⟨"Aged", [⟨"age", .named "Int", none⟩]⟩] }
    exts := [⟨"Human", ["Aged"], [⟨"age", .named "Int", none⟩]⟩,
             ⟨"Droid", [], [⟨"model", .nonNull (.named "String"), some (some "old")⟩]⟩,
             ⟨"MutationRoot", [], []⟩,
             ⟨"Human", [], [⟨"mass", .named "Float", some none⟩, ⟨"when", .named "DateTime", none⟩]⟩] }

/-- its folded form, written out -/
def exFold : AS :=
  { exAS with
    interfaces := exAS.interfaces ++ [⟨"Aged", [⟨"age", .named "Int", none⟩]⟩]
    objects :=
      [⟨"Human", ["Character", "Aged"],
          exCharacterFields ++ [⟨"height", .named "Float", some none⟩, ⟨"born", .named "DateTime", none⟩,
            ⟨"age", .named "Int", none⟩, ⟨"mass", .named "Float", some none⟩, ⟨"when", .named "DateTime", none⟩]⟩,
       ⟨"Droid", ["Character"],
          exCharacterFields ++ [⟨"appearsIn", .nonNull (.list (.nonNull (.named "Episode"))), none⟩,
            ⟨"model", .nonNull (.named "String"), some (some "old")⟩]⟩,
       ⟨"QueryRoot", [], [⟨"hero", .named "Character", none⟩,
                          ⟨"search", .nonNull (.list (.nonNull (.named "SearchResult"))), none⟩]⟩,
       ⟨"MutationRoot", [], [⟨"rate", .named "Episode", none⟩]⟩] }

example : WfASX exASX := by decide
example : exASX.fold = exFold := by decide
example : exFold.DepthOk := by decide

/-- the extension blocks may stand anywhere, even before the definition of the object they extend -/
def exDocX : SdlDoc :=
  (exASX.exts.map sdlExt).take 2 ++ exDocShuffled ++ [sdlIface ⟨"Aged", [⟨"age", .named "Int", none⟩]⟩] ++
  (exASX.exts.map sdlExt).drop 2

example : IsSdlOfX exASX exDocX :=
  ⟨by decide, by decide, by decide, by decide, by decide, by decide, by decide, .inl (by decide)⟩

/-- both front-ends *evaluate* to the closed forms (kernel computation, independent of the theorems) … -/
example : (Sdl.fromSdl exDocX).toOption = some exASX.sdlSchema := by decide
example : (Intro.fromIntro true (some (introOf ["ID"] exFold))).toOption.map
      (fun s => (s.objects, s.interfaces, s.fields, s.unions)) =
    some (exFold.toSchema.objects, exFold.toSchema.interfaces, exFold.toSchema.fields, exFold.toSchema.unions) := by
  decide
example : (Intro.fromIntro true (some (introOf ["ID"] exFold))).toOption.map
      (fun s => (s.scalars, s.enums, s.inputs)) =
    some (exFold.toSchema.scalars, exFold.toSchema.enums, exFold.toSchema.inputs) := by decide
example : (Intro.fromIntro true (some (introOf ["ID"] exFold))).toOption.map
      (fun s => (s.names, s.queryType, s.mutationType, s.subscriptionType)) =
    some (exFold.toSchema.names, exFold.toSchema.queryType, exFold.toSchema.mutationType,
      exFold.toSchema.subscriptionType) := by decide
/-- … which differ, and agree after the renumbering; the SDL ids in owner order: -/
example : exASX.sdlSchema ≠ exFold.toSchema := by decide
example : exASX.sdlSchema.fieldOrder = [0, 1, 2, 3, 4, 5, 6, 7, 8, 16, 18, 19, 9, 10, 11, 12, 17, 13, 14, 15] := by decide
example : exASX.sdlSchema.normFields = exFold.toSchema := by decide

/-- blocks without fields: literal equality -/
def exX1 : ASX :=
  { base := { interfaces := [⟨"I", []⟩, ⟨"J", []⟩],
              objects := [⟨"A", ["I"], [⟨"a", .named "Int", none⟩]⟩, ⟨"B", [], [⟨"b", .named "A", none⟩]⟩] }
    exts := [⟨"B", ["I"], []⟩, ⟨"A", ["J"], []⟩, ⟨"B", ["J"], []⟩] }
example : WfASX exX1 ∧ (∀ e ∈ exX1.exts, e.fields = []) := by decide
example : (Sdl.fromSdl (sdlOfX false exX1)).toOption = (Intro.fromIntro true (some (introOf [] exX1.fold))).toOption ∧
    (Sdl.fromSdl (sdlOfX false exX1)).toOption.map (fun s => s.objects.map (·.implements)) = some [[0, 1], [0, 1]] := by
  decide

/-! the hypotheses of `WfASX` that are new cannot be dropped -/

/-- a block for an object that is not defined: SDL panics; the folded schema does not even mention the block -/
example :
    let x : ASX := { base := { objects := [⟨"A", [], []⟩] }, exts := [⟨"Nope", [], []⟩] }
    ¬ WfASX x ∧ Sdl.fromSdl (sdlOfX false x) = .error (.panic "failed to resolve TypeId for `Nope`") ∧
    (Intro.fromIntro true (some (introOf [] x.fold))).toOption.isSome = true := ⟨by decide, by rfl, by decide⟩

/-- a block naming a type that is not an object -/
example :
    let x : ASX := { base := { interfaces := [⟨"I", []⟩] }, exts := [⟨"I", [], []⟩] }
    ¬ WfASX x ∧ Sdl.fromSdl (sdlOfX false x) = .error (.panic "ingest_object_type_extension: as_object_id unwrap") :=
  ⟨by decide, by rfl⟩

end C07
end GqlVerif
