import GqlVerif.Proofs.C01DenyTreeClass
import GqlVerif.Proofs.C14GeneratedFragDeep
import GqlVerif.Proofs.C01AbstractI
import GqlVerif.Proofs.AcyclicModulesClasses
/-!
# P33 (4/4) — C03 / C01 end to end under `deny` with named fragment spreads (`FragOpD`)

`C14G.FragOpD` (P26): object-tree operations with spreads of spread-free object fragments on the parent type, deprecated
fields allowed under any strategy.  The generated types are those of the operation **and the fragments** with the denied
selections removed:

* `pruneFrag`, `pruneCtx c` — the document with every fragment body pruned (schema, options, case functions unchanged);
  the pruned operation is `pruneOp c op` of part 1;
* `reach_prune` — a selection reachable in the pruned document comes from one reachable in the document (same field /
  fragment id), so the used-types facts of the emitted module carry over; `fragOkD_of_reach`;
* closed forms: `fieldsOfF_prune` (members: `fieldsOfF` of the pruned selection in the pruned document = P26's
  `fieldsOfFD`), `fieldsOfV_prune`, `itemsFs_prune_sublist`, `itemsVs_prune_sublist` (the items of the pruned tree are
  among the emitted ones);
* **`topEnvFD_of_module`** — `TopEnvF (moduleEnv c items) (pruneCtx c) (pruneOp c op)` for the module emitted for `op`;
* **`fragD_precise_iff`** (C03): `okB (Serde.de … ResponseData j) = conformsLooseF c.s (pruneCtx c).q c.o false
  (pruneSels c op.sels) j`; `fragD_precise_iff_erased` (the `eraseDeniedF` form);
* **`fragD_accepts_pruned`** — a payload conforming to the pruned operation (`conformsOpF` in the pruned document) is
  accepted; with `denied_field_payload_same_frag`: `fragD_accepts_of_erased` — a payload whose erasure
  (`eraseDeniedF`) conforms to the pruned operation is accepted.

Hypotheses: `FragOpD c op` (P26); `FragmentOp (pruneCtx c) (pruneOp c op)` and `fragKeysOk (pruneCtx c) (pruneOp c op)`
(the pruned operation is in the old class, with the old key-disjointness condition — decidable); **`loneOkOp c op`**
(new, decidable, NECESSARY — `lone_spread_matters`): pruning does not turn a selection set into a lone spread (for
`animal { when ...AF }` with `when` denied the generator emits a struct with one flattened member, for
`animal { ...AF }` a type alias — they accept different payloads); `responseForQuery c i = .ok items`, `moduleOk c items`.
-/
set_option linter.unusedSimpArgs false
set_option linter.unusedSectionVars false
set_option linter.unusedVariables false

namespace GqlVerif
namespace C01
namespace Deny
open Serde Spec C13 C03 Codegen C01.E2E C14G

/-! ## the pruned document -/

def pruneFrag (c : Ctx) (f : RFragment) : RFragment := { f with sels := pruneSels c f.sels }

/-- the document with every fragment body pruned; schema, options and case functions unchanged -/
def pruneCtx (c : Ctx) : Ctx := { c with q := { c.q with fragments := c.q.fragments.map (pruneFrag c) } }

@[simp] theorem pruneCtx_s (c : Ctx) : (pruneCtx c).s = c.s := rfl
@[simp] theorem pruneCtx_o (c : Ctx) : (pruneCtx c).o = c.o := rfl
@[simp] theorem pruneCtx_cs (c : Ctx) : (pruneCtx c).cs = c.cs := rfl
theorem pruneCtx_respDerives (c : Ctx) : (pruneCtx c).respDerives = c.respDerives := rfl
theorem pruneCtx_serdeCrate (c : Ctx) : (pruneCtx c).serdeCrate = c.serdeCrate := rfl
theorem moduleEnv_pruneCtx (c : Ctx) (items : List Item) : moduleEnv (pruneCtx c) items = moduleEnv c items := rfl

theorem pruneCtx_frag (c : Ctx) (g : Nat) :
    (pruneCtx c).q.fragments[g]? = (c.q.fragments[g]?).map (pruneFrag c) := by
  simp [pruneCtx]

theorem pruneCtx_frag_some {c : Ctx} {g : Nat} {f' : RFragment} (h : (pruneCtx c).q.fragments[g]? = some f') :
    ∃ f, c.q.fragments[g]? = some f ∧ f' = pruneFrag c f := by
  rw [pruneCtx_frag] at h
  cases hf : c.q.fragments[g]? with
  | none => simp [hf] at h
  | some f => simp only [hf, Option.map_some, Option.some.injEq] at h; exact ⟨f, rfl, h.symm⟩

theorem fragName_prune (c : Ctx) (g : Nat) : fragName (pruneCtx c) g = fragName c g := by
  unfold fragName
  rw [pruneCtx_frag]
  cases c.q.fragments[g]? <;> rfl

theorem fragSels_prune (c : Ctx) (g : Nat) : fragSels (pruneCtx c).q g = pruneSels c (fragSels c.q g) := by
  unfold fragSels
  rw [pruneCtx_frag]
  cases c.q.fragments[g]? with
  | none => simp [pruneSels]
  | some f => rfl

theorem pruneSel_spread (c : Ctx) (g : Nat) : pruneSel c (.spread g) = [.spread g] := by rw [pruneSel]

theorem pruneSels_lone (c : Ctx) (g : Nat) : pruneSels c [.spread g] = [.spread g] := by
  rw [pruneSels, pruneSel_spread, pruneSels]; rfl

/-! ## reachability in the pruned document -/

/-- the selection without its sub-selection -/
def selHead : Sel → Sel
  | .field a fid _ => .field a fid []
  | .inline t _ => .inline t []
  | x => x

theorem direct_head {s : Schema} {u : UsedTypes} {x y : Sel} (h : selHead y = selHead x) (hd : C02.Direct s u x) :
    C02.Direct s u y := by
  cases x <;> cases y <;> simp [selHead] at h <;> simp_all [C02.Direct]

theorem mem_pruneSel_head {c : Ctx} {x y : Sel} (h : y ∈ pruneSel c x) : selHead y = selHead x := by
  cases x with
  | field a fid sub =>
    rw [pruneSel] at h
    cases hsf : c.s.fields[fid]? with
    | none => simp only [hsf, List.mem_singleton] at h; subst h; rfl
    | some sf =>
      simp only [hsf] at h
      split at h
      · simp at h
      · simp only [List.mem_singleton] at h; subst h; rfl
  | inline t sub => rw [pruneSel, List.mem_singleton] at h; subst h; rfl
  | spread g => rw [pruneSel, List.mem_singleton] at h; subst h; rfl
  | typename => rw [pruneSel, List.mem_singleton] at h; subst h; rfl

theorem mem_pruneSel_field {c : Ctx} {x : Sel} {a : Option String} {fid : Nat} {sub' : List Sel}
    (h : Sel.field a fid sub' ∈ pruneSel c x) : ∃ sub, x = .field a fid sub ∧ sub' = pruneSels c sub := by
  cases x with
  | field a0 fid0 sub =>
    rw [pruneSel] at h
    cases hsf : c.s.fields[fid0]? with
    | none =>
      simp only [hsf, List.mem_singleton, Sel.field.injEq] at h
      obtain ⟨rfl, rfl, rfl⟩ := h
      exact ⟨sub, rfl, rfl⟩
    | some sf =>
      simp only [hsf] at h
      split at h
      · simp at h
      · simp only [List.mem_singleton, Sel.field.injEq] at h
        obtain ⟨rfl, rfl, rfl⟩ := h
        exact ⟨sub, rfl, rfl⟩
  | inline t sub => rw [pruneSel] at h; simp at h
  | spread g => rw [pruneSel] at h; simp at h
  | typename => rw [pruneSel] at h; simp at h

theorem mem_pruneSel_inline {c : Ctx} {x : Sel} {t : TypeId} {sub' : List Sel}
    (h : Sel.inline t sub' ∈ pruneSel c x) : ∃ sub, x = .inline t sub ∧ sub' = pruneSels c sub := by
  cases x with
  | field a0 fid0 sub =>
    rw [pruneSel] at h
    cases hsf : c.s.fields[fid0]? with
    | none => simp [hsf] at h
    | some sf =>
      simp only [hsf] at h
      split at h <;> simp at h
  | inline t0 sub =>
    rw [pruneSel] at h
    simp only [List.mem_singleton, Sel.inline.injEq] at h
    obtain ⟨rfl, rfl⟩ := h
    exact ⟨sub, rfl, rfl⟩
  | spread g => rw [pruneSel] at h; simp at h
  | typename => rw [pruneSel] at h; simp at h

theorem mem_pruneSel_spread {c : Ctx} {x : Sel} {g : Nat} (h : Sel.spread g ∈ pruneSel c x) : x = .spread g := by
  cases x with
  | field a0 fid0 sub =>
    rw [pruneSel] at h
    cases hsf : c.s.fields[fid0]? with
    | none => simp [hsf] at h
    | some sf =>
      simp only [hsf] at h
      split at h <;> simp at h
  | inline t0 sub => rw [pruneSel] at h; simp at h
  | spread g0 => rw [pruneSel] at h; simp at h; rw [h]
  | typename => rw [pruneSel] at h; simp at h

theorem mem_pruneSels_spread {c : Ctx} {sels : List Sel} {g : Nat} :
    Sel.spread g ∈ pruneSels c sels ↔ Sel.spread g ∈ sels := by
  constructor
  · intro h
    obtain ⟨x, hx, hin⟩ := mem_pruneSels.mp h
    rw [← mem_pruneSel_spread hin]; exact hx
  · intro h
    exact mem_pruneSels.mpr ⟨_, h, by rw [pruneSel_spread]; simp⟩

/-- **a selection reachable in the pruned document comes from a selection reachable in the document**, with the same
    field id / type condition / fragment id -/
theorem reach_prune (c : Ctx) {sels' : List Sel} {y : Sel} (h : C02.Reach (pruneCtx c).q sels' y) :
    ∀ sels, sels' = pruneSels c sels → ∃ x, C02.Reach c.q sels x ∧ selHead y = selHead x := by
  induction h with
  | here hm =>
    intro sels hs; subst hs
    obtain ⟨x, hx, hy⟩ := mem_pruneSels.mp hm
    exact ⟨x, .here hx, mem_pruneSel_head hy⟩
  | field hm _ ih =>
    intro sels hs; subst hs
    obtain ⟨x0, hx0, hin⟩ := mem_pruneSels.mp hm
    obtain ⟨sub, rfl, rfl⟩ := mem_pruneSel_field hin
    obtain ⟨x, hx, hh⟩ := ih sub rfl
    exact ⟨x, .field hx0 hx, hh⟩
  | inline hm _ ih =>
    intro sels hs; subst hs
    obtain ⟨x0, hx0, hin⟩ := mem_pruneSels.mp hm
    obtain ⟨sub, rfl, rfl⟩ := mem_pruneSel_inline hin
    obtain ⟨x, hx, hh⟩ := ih sub rfl
    exact ⟨x, .inline hx0 hx, hh⟩
  | spread hm hf _ ih =>
    intro sels hs; subst hs
    have hm' := mem_pruneSels_spread.mp hm
    obtain ⟨f, hf0, rfl⟩ := pruneCtx_frag_some hf
    obtain ⟨x, hx, hh⟩ := ih f.sels rfl
    exact ⟨x, .spread hm' hf0 hx, hh⟩

theorem reach_prune_spread (c : Ctx) {sels : List Sel} {g : Nat}
    (h : C02.Reach (pruneCtx c).q (pruneSels c sels) (.spread g)) : C02.Reach c.q sels (.spread g) := by
  obtain ⟨x, hx, hh⟩ := reach_prune c h sels rfl
  cases x <;> simp [selHead] at hh
  subst hh; exact hx

/-- in an operation of `FragOpD` every reachable spread is a spread of a fragment of the class (bodies are spread-free) -/
theorem fragOkD_of_reach (c : Ctx) {sels : List Sel} {x : Sel} (h : C02.Reach c.q sels x) :
    ((∃ i, fBodyD c (.object i) sels = true) ∨ treeSelsD c sels = true) →
    ∀ g, x = .spread g → ∃ i, fragOkD c (.object i) g = true := by
  induction h with
  | @here sels x hm =>
    intro hP g hx; subst hx
    rcases hP with ⟨i, hb⟩ | ht
    · exact ⟨i, spread_fragOkD hb hm⟩
    · have := treeSelD_of_mem ht hm; simp [treeSelD] at this
  | @field sels a fid sub x hm hr ih =>
    intro hP g hx
    refine ih ?_ g hx
    have hsubP : ∀ sf, c.s.fields[fid]? = some sf → (∀ j, sf.ty.id ≠ .object j) → sub.isEmpty = true →
        ((∃ i, fBodyD c (.object i) sub = true) ∨ treeSelsD c sub = true) := by
      intro sf _ _ he
      rw [List.isEmpty_iff] at he; subst he
      exact .inr (by simp [treeSelsD])
    rcases hP with ⟨i, hb⟩ | ht
    · rw [fBodyD_not_lone (mem_not_lone hm), Bool.and_eq_true] at hb
      have hx' := fSelD_of_mem hb.1 hm
      cases hsf : c.s.fields[fid]? with
      | none => rw [fSelD] at hx'; simp [hsf] at hx'
      | some sf =>
        cases hid : sf.ty.id with
        | object j => exact .inl ⟨j, (fSelD_object hsf hid hx').2⟩
        | scalar k =>
          rw [fSelD] at hx'; simp only [hsf, hid, Bool.and_eq_true] at hx'
          exact hsubP sf hsf (by simp [hid]) hx'.2.2
        | «enum» k =>
          rw [fSelD] at hx'; simp only [hsf, hid, Bool.and_eq_true] at hx'
          exact hsubP sf hsf (by simp [hid]) hx'.2.2
        | interface k => rw [fSelD] at hx'; simp [hsf, hid] at hx'
        | union k => rw [fSelD] at hx'; simp [hsf, hid] at hx'
        | input k => rw [fSelD] at hx'; simp [hsf, hid] at hx'
    · have hx' := treeSelD_of_mem ht hm
      rw [treeSelD] at hx'
      cases hsf : c.s.fields[fid]? with
      | none => simp [hsf] at hx'
      | some sf =>
        simp only [hsf, Bool.and_eq_true] at hx'
        cases hid : sf.ty.id with
        | object j => simp only [hid, Bool.and_eq_true] at hx'; exact .inr hx'.2.1.2
        | scalar k => simp only [hid, Bool.and_eq_true] at hx'; exact hsubP sf hsf (by simp [hid]) hx'.2.2
        | «enum» k => simp only [hid, Bool.and_eq_true] at hx'; exact hsubP sf hsf (by simp [hid]) hx'.2.2
        | interface k => simp [hid] at hx'
        | union k => simp [hid] at hx'
        | input k => simp [hid] at hx'
  | @inline sels t sub x hm hr ih =>
    intro hP g hx
    exfalso
    rcases hP with ⟨i, hb⟩ | ht
    · rw [fBodyD_not_lone (fun g hg => by rw [hg] at hm; simp at hm), Bool.and_eq_true] at hb
      have := fSelD_of_mem hb.1 hm; simp [fSelD] at this
    · have := treeSelD_of_mem ht hm; simp [treeSelD] at this
  | @spread sels g' f x hm hf hr ih =>
    intro hP g hx
    refine ih ?_ g hx
    rcases hP with ⟨i, hb⟩ | ht
    · obtain ⟨f', hf', _, _, hv, _⟩ := fragOkD_parts (spread_fragOkD hb hm)
      rw [hf] at hf'; cases hf'
      exact .inr hv
    · have := treeSelD_of_mem ht hm; simp [treeSelD] at this

/-! ## closed forms: the pruned selection in the pruned document vs. P26's closed forms -/

theorem fieldsOfV_append (c : Ctx) (pfx : String) (xs ys : List Sel) :
    fieldsOfV c pfx (xs ++ ys) = fieldsOfV c pfx xs ++ fieldsOfV c pfx ys := by
  simp [fieldsOfV]

theorem fieldsOfF_append (c : Ctx) (pfx : String) (xs ys : List Sel) :
    fieldsOfF c pfx (xs ++ ys) = fieldsOfF c pfx xs ++ fieldsOfF c pfx ys := by
  simp [fieldsOfF]

theorem filterMap_congr' {α β : Type} {f g : α → Option β} : ∀ {l : List α}, (∀ x ∈ l, f x = g x) →
    l.filterMap f = l.filterMap g
  | [], _ => rfl
  | x :: xs, h => by
    rw [List.filterMap_cons, List.filterMap_cons, h x (by simp), filterMap_congr' (fun y hy => h y (by simp [hy]))]

/-- for a field of scalar / enum / object type the two leaf-name functions agree -/
theorem fieldOfSelV_eq_fieldOfSel (c c' : Ctx) (hs : c'.s = c.s) (ho : c'.o = c.o) (hcs : c'.cs = c.cs) (pfx : String)
    (a : Option String) (fid : Nat) (sub sub' : List Sel) (sf : StoredField) (hsf : c.s.fields[fid]? = some sf)
    (hty : (∃ k, sf.ty.id = .scalar k) ∨ (∃ k, sf.ty.id = .enum k) ∨ (∃ k, sf.ty.id = .object k)) :
    fieldOfSelV c' pfx (.field a fid sub') = fieldOfSel c pfx (.field a fid sub) := by
  simp only [fieldOfSelV, fieldOfSel, hs, hsf]
  have hl : leafNameV c' pfx (a.getD sf.name) sf.ty.id = leafName c pfx (a.getD sf.name) sf.ty.id := by
    rcases hty with ⟨k, hk⟩ | ⟨k, hk⟩ | ⟨k, hk⟩ <;> simp [hk, leafNameV, leafName, hs, hcs]
  rw [hl]
  cases leafName c pfx (a.getD sf.name) sf.ty.id with
  | none => rfl
  | some ft => simp [fieldOf, hcs, ho]

theorem treeSelD_ty {c : Ctx} {a : Option String} {fid : Nat} {sub : List Sel} {sf : StoredField}
    (ht : treeSelD c (.field a fid sub) = true) (hsf : c.s.fields[fid]? = some sf) :
    (∃ k, sf.ty.id = .scalar k) ∨ (∃ k, sf.ty.id = .enum k) ∨ (∃ k, sf.ty.id = .object k) := by
  rw [treeSelD] at ht
  simp only [hsf, Bool.and_eq_true] at ht
  cases hid : sf.ty.id with
  | scalar k => exact .inl ⟨k, rfl⟩
  | «enum» k => exact .inr (.inl ⟨k, rfl⟩)
  | object k => exact .inr (.inr ⟨k, rfl⟩)
  | interface k => simp [hid] at ht
  | union k => simp [hid] at ht
  | input k => simp [hid] at ht

theorem fSelD_ty {c : Ctx} {p : TypeId} {a : Option String} {fid : Nat} {sub : List Sel} {sf : StoredField}
    (ht : fSelD c p (.field a fid sub) = true) (hsf : c.s.fields[fid]? = some sf) :
    (∃ k, sf.ty.id = .scalar k) ∨ (∃ k, sf.ty.id = .enum k) ∨ (∃ k, sf.ty.id = .object k) := by
  rw [fSelD] at ht
  simp only [hsf, Bool.and_eq_true] at ht
  cases hid : sf.ty.id with
  | scalar k => exact .inl ⟨k, rfl⟩
  | «enum» k => exact .inr (.inl ⟨k, rfl⟩)
  | object k => exact .inr (.inr ⟨k, rfl⟩)
  | interface k => simp [hid] at ht
  | union k => simp [hid] at ht
  | input k => simp [hid] at ht

/-- one field selection: the member in the pruned document -/
theorem fieldV_pruneSel (c : Ctx) (pfx : String) (a : Option String) (fid : Nat) (sub : List Sel)
    (hty : ∀ sf, c.s.fields[fid]? = some sf →
      (∃ k, sf.ty.id = .scalar k) ∨ (∃ k, sf.ty.id = .enum k) ∨ (∃ k, sf.ty.id = .object k)) :
    (pruneSel c (.field a fid sub)).filterMap (fieldOfSelV (pruneCtx c) pfx) =
      (fieldOfSelD c pfx (.field a fid sub)).toList := by
  cases hsf : c.s.fields[fid]? with
  | none => rw [pruneSel]; simp [hsf, fieldOfSelV, fieldOfSelD]
  | some sf =>
    by_cases hd : isDenied c sf = true
    · rw [pruneSel_denied hsf hd]; simp [fieldOfSelD, hsf, hd]
    · have hd' : isDenied c sf = false := by simpa using hd
      rw [pruneSel_kept hsf hd']
      simp only [List.filterMap_cons, List.filterMap_nil]
      rw [fieldOfSelV_eq_fieldOfSel c (pruneCtx c) rfl rfl rfl pfx a fid sub _ sf hsf (hty sf hsf)]
      have : fieldOfSelD c pfx (.field a fid sub) = fieldOfSel c pfx (.field a fid sub) := by
        simp only [fieldOfSelD, fieldOfSel, hsf, hd', Bool.false_eq_true, ↓reduceIte]
        cases leafName c pfx (a.getD sf.name) sf.ty.id <;> rfl
      rw [this]
      cases fieldOfSel c pfx (.field a fid sub) <;> rfl

/-- **members of a fragment struct**: `fieldsOfV` of the pruned body in the pruned document = `fieldsOfD` of the body -/
theorem fieldsOfV_prune (c : Ctx) (pfx : String) : ∀ sels : List Sel, treeSelsD c sels = true →
    fieldsOfV (pruneCtx c) pfx (pruneSels c sels) = fieldsOfD c pfx sels
  | [], _ => by rw [pruneSels]; rfl
  | x :: xs, ht => by
    obtain ⟨hx, hxs⟩ := treeSelsD_cons ht
    rw [pruneSels, fieldsOfV_append, fieldsOfV_prune c pfx xs hxs]
    have hhead : fieldsOfV (pruneCtx c) pfx (pruneSel c x) = (fieldOfSelD c pfx x).toList := by
      cases x with
      | field a fid sub => exact fieldV_pruneSel c pfx a fid sub (fun sf hsf => treeSelD_ty hx hsf)
      | inline t sub => simp [treeSelD] at hx
      | spread g => simp [treeSelD] at hx
      | typename => rw [pruneSel_typename]; simp [fieldsOfV, fieldOfSelV, fieldOfSelD]
    rw [hhead]
    simp only [fieldsOfD, List.filterMap_cons]
    cases fieldOfSelD c pfx x <;> rfl

/-- **members of an object-level struct**: `fieldsOfF` of the pruned selection in the pruned document = `fieldsOfFD` -/
theorem fieldsOfF_prune (c : Ctx) (pfx : String) (p : TypeId) : ∀ sels : List Sel, fSelsD c p sels = true →
    fieldsOfF (pruneCtx c) pfx (pruneSels c sels) = fieldsOfFD c pfx sels
  | [], _ => by rw [pruneSels]; rfl
  | x :: xs, ht => by
    obtain ⟨hx, hxs⟩ := fSelsD_cons ht
    rw [pruneSels, fieldsOfF_append, fieldsOfF_prune c pfx p xs hxs, fieldsOfFD_cons]
    congr 1
    cases x with
    | field a fid sub =>
      have := fieldV_pruneSel c pfx a fid sub (fun sf hsf => fSelD_ty hx hsf)
      have e : ∀ l : List Sel, (∀ y ∈ l, ∃ a fid sub, y = Sel.field a fid sub) →
          fieldsOfF (pruneCtx c) pfx l = l.filterMap (fieldOfSelV (pruneCtx c) pfx) := by
        intro l hl
        unfold fieldsOfF
        apply filterMap_congr'
        intro y hy
        obtain ⟨a', fid', sub', rfl⟩ := hl y hy
        rfl
      rw [e _ (fun y hy => by
        have := mem_pruneSel_head hy
        cases y <;> simp [selHead] at this
        exact ⟨_, _, _, rfl⟩), this]
      rfl
    | inline t sub => simp [fSelD] at hx
    | spread g =>
      rw [pruneSel_spread]
      simp only [fieldsOfF, List.filterMap_cons, List.filterMap_nil, fieldOfSelF, fieldOfSelFD, pruneCtx_frag]
      cases c.q.fragments[g]? with
      | none => rfl
      | some f => rfl
    | typename => rw [pruneSel_typename]; simp [fieldsOfF, fieldOfSelF, fieldOfSelV, fieldOfSelFD, fieldOfSelD]

/-! ### items -/

theorem itemsVs_append (c : Ctx) (pfx : String) : ∀ xs ys : List Sel,
    itemsVs c pfx (xs ++ ys) = itemsVs c pfx xs ++ itemsVs c pfx ys
  | [], ys => by simp [itemsVs]
  | x :: xs, ys => by
    rw [List.cons_append, itemsVs, itemsVs, itemsVs_append c pfx xs ys, List.append_assoc]

theorem itemsFs_append (c : Ctx) (pfx : String) : ∀ xs ys : List Sel,
    itemsFs c pfx (xs ++ ys) = itemsFs c pfx xs ++ itemsFs c pfx ys
  | [], ys => by simp [itemsFs]
  | x :: xs, ys => by
    rw [List.cons_append, itemsFs, itemsFs, itemsFs_append c pfx xs ys, List.append_assoc]

mutual
  theorem itemsV_prune_sublist (c : Ctx) : ∀ (x : Sel) (pfx : String), treeSelD c x = true →
      (itemsVs (pruneCtx c) pfx (pruneSel c x)).Sublist (itemsOfSelD c pfx x)
    | .field a fid sub, pfx => by
      intro ht
      have IH := itemsVs_prune_sublist c sub
      have ht' := ht
      rw [treeSelD] at ht'
      cases hsf : c.s.fields[fid]? with
      | none => simp [hsf] at ht'
      | some sf =>
        by_cases hd : isDenied c sf = true
        · rw [pruneSel_denied hsf hd]; simp [itemsVs]
        · have hd' : isDenied c sf = false := by simpa using hd
          rw [pruneSel_kept hsf hd', itemsVs, itemsVs, List.append_nil, itemsV, itemsOfSelD]
          simp only [pruneCtx_s, pruneCtx_cs, hsf, Bool.and_eq_true] at ht' ⊢
          cases hid : sf.ty.id with
          | object i =>
            simp only [hid, Bool.and_eq_true] at ht' ⊢
            rw [fieldsOfV_prune c _ sub ht'.2.1.2]
            exact List.Sublist.cons_cons _ (IH _ ht'.2.1.2)
          | scalar k => simp
          | «enum» k => simp
          | interface k => simp [hid] at ht'
          | union k => simp [hid] at ht'
          | input k => simp [hid] at ht'
    | .inline t sub, _ => by intro ht; simp [treeSelD] at ht
    | .spread g, _ => by intro ht; simp [treeSelD] at ht
    | .typename, _ => by intro _; rw [pruneSel_typename]; simp [itemsVs, itemsV]
  theorem itemsVs_prune_sublist (c : Ctx) : ∀ (xs : List Sel) (pfx : String), treeSelsD c xs = true →
      (itemsVs (pruneCtx c) pfx (pruneSels c xs)).Sublist (itemsOfSelsD c pfx xs)
    | [], _ => by intro _; rw [pruneSels]; simp [itemsVs, itemsOfSelsD]
    | x :: xs, pfx => by
      intro ht
      obtain ⟨hx, hxs⟩ := treeSelsD_cons ht
      rw [pruneSels, itemsVs_append, itemsOfSelsD]
      exact List.Sublist.append (itemsV_prune_sublist c x pfx hx) (itemsVs_prune_sublist c xs pfx hxs)
end

/-- the struct of a spread fragment and its nested items, in the pruned document: among the items emitted for it -/
theorem structItemsV_prune_sublist (c : Ctx) (name pfx : String) (sels : List Sel) (ht : treeSelsD c sels = true) :
    (structItemsV (pruneCtx c) name pfx (pruneSels c sels)).Sublist (structItemsD c name pfx sels) := by
  unfold structItemsV structItemsD
  rw [fieldsOfV_prune c pfx sels ht]
  exact List.Sublist.cons_cons _ (itemsVs_prune_sublist c sels pfx ht)

/-! ### the side condition on lone spreads -/

def isLone : List Sel → Bool
  | [.spread _] => true
  | _ => false

theorem isLone_iff {sels : List Sel} : isLone sels = true ↔ ∃ g, sels = [Sel.spread g] := by
  constructor
  · intro h
    unfold isLone at h
    split at h
    · exact ⟨_, rfl⟩
    · cases h
  · rintro ⟨g, rfl⟩; rfl

/-- pruning does not turn this selection set into a lone spread -/
def loneHere (c : Ctx) (sels : List Sel) : Bool := !isLone (pruneSels c sels) || isLone sels

mutual
  def loneOkSel (c : Ctx) : Sel → Bool
    | .field _ fid sub =>
      match c.s.fields[fid]? with
      | some sf => isDenied c sf || (loneHere c sub && loneOkSels c sub)
      | none => true
    | _ => true
  def loneOkSels (c : Ctx) : List Sel → Bool
    | [] => true
    | x :: xs => loneOkSel c x && loneOkSels c xs
end

/-- **side condition** (decidable, necessary: `lone_spread_matters`): pruning creates no lone spread, at the root and
    at every kept selection set -/
def loneOkOp (c : Ctx) (op : ROperation) : Bool := loneHere c op.sels && loneOkSels c op.sels

theorem not_lone_prune {c : Ctx} {sels : List Sel} (h : loneHere c sels = true) (hnl : ∀ g, sels ≠ [Sel.spread g]) :
    ∀ g, pruneSels c sels ≠ [Sel.spread g] := by
  intro g hg
  simp only [loneHere, Bool.or_eq_true, Bool.not_eq_true'] at h
  rcases h with h | h
  · have := isLone_iff.mpr ⟨g, hg⟩
    rw [this] at h; cases h
  · obtain ⟨g', hg'⟩ := isLone_iff.mp h
    exact hnl g' hg'

theorem itemsF_object {c : Ctx} {pfx : String} {a : Option String} {fid : Nat} {sub : List Sel} {sf : StoredField} {i : Nat}
    (hsf : c.s.fields[fid]? = some sf) (hid : sf.ty.id = .object i) :
    itemsF c pfx (.field a fid sub) =
      bodyItemsF c (pfx ++ c.cs.camel (a.getD sf.name)) (pfx ++ c.cs.camel (a.getD sf.name)) sub := by
  rw [itemsF]; simp only [hsf, hid]; rfl

mutual
  theorem itemsF_prune_sublist (c : Ctx) : ∀ (x : Sel) (pfx : String) (p : TypeId), fSelD c p x = true →
      loneOkSel c x = true → (itemsFs (pruneCtx c) pfx (pruneSel c x)).Sublist (itemsFD c pfx x)
    | .field a fid sub, pfx, p => by
      intro ht hl
      have IH := itemsFs_prune_sublist c sub
      rw [loneOkSel] at hl
      cases hsf : c.s.fields[fid]? with
      | none => rw [fSelD] at ht; simp [hsf] at ht
      | some sf =>
        by_cases hd : isDenied c sf = true
        · rw [pruneSel_denied hsf hd]; simp [itemsFs]
        · have hd' : isDenied c sf = false := by simpa using hd
          simp only [hsf, hd', Bool.false_or, Bool.and_eq_true] at hl
          rw [pruneSel_kept hsf hd', itemsFs, itemsFs, List.append_nil]
          rcases fSelD_ty ht hsf with ⟨k, hid⟩ | ⟨k, hid⟩ | ⟨i, hid⟩
          · rw [itemsF]; simp [hsf, hid]
          · rw [itemsF]; simp [hsf, hid]
          · have hbody := (fSelD_object hsf hid ht).2
            rw [itemsF_object (c := pruneCtx c) (by simpa using hsf) hid, itemsFD_object hsf hid]
            simp only [pruneCtx_cs]
            by_cases hsp : ∃ g, sub = [Sel.spread g]
            · obtain ⟨g, rfl⟩ := hsp
              rw [pruneSels_lone]
              simp only [bodyItemsF, bodyItemsFD, fragName_prune]
              exact List.Sublist.refl _
            · have hnl : ∀ g, sub ≠ [Sel.spread g] := fun g hg => hsp ⟨g, hg⟩
              rw [bodyItemsF_not_lone _ _ _ (not_lone_prune hl.1 hnl), bodyItemsFD_not_lone c _ _ hnl]
              rw [fBodyD_not_lone hnl, Bool.and_eq_true] at hbody
              rw [fieldsOfF_prune c _ (.object i) sub hbody.1]
              exact List.Sublist.cons_cons _ (IH _ (.object i) hbody.1 hl.2)
    | .inline t sub, _, _ => by intro ht; simp [fSelD] at ht
    | .spread g, _, _ => by intro _ _; rw [pruneSel_spread]; simp [itemsFs, itemsF, itemsFD]
    | .typename, _, _ => by intro _ _; rw [pruneSel_typename]; simp [itemsFs, itemsF, itemsFD]
  theorem itemsFs_prune_sublist (c : Ctx) : ∀ (xs : List Sel) (pfx : String) (p : TypeId), fSelsD c p xs = true →
      loneOkSels c xs = true → (itemsFs (pruneCtx c) pfx (pruneSels c xs)).Sublist (itemsFsD c pfx xs)
    | [], _, _ => by intro _ _; rw [pruneSels]; simp [itemsFs, itemsFsD]
    | x :: xs, pfx, p => by
      intro ht hl
      obtain ⟨hx, hxs⟩ := fSelsD_cons ht
      rw [loneOkSels, Bool.and_eq_true] at hl
      rw [pruneSels, itemsFs_append, itemsFsD]
      exact List.Sublist.append (itemsF_prune_sublist c x pfx p hx hl.1) (itemsFs_prune_sublist c xs pfx p hxs hl.2)
end

/-! ## the environment of the module emitted for `op`, seen from the pruned operation in the pruned document -/

theorem isLone_prune_of_lone {c : Ctx} {sels : List Sel} (h : ∃ g, sels = [Sel.spread g]) :
    ∃ g, pruneSels c sels = [Sel.spread g] := by
  obtain ⟨g, rfl⟩ := h
  exact ⟨g, pruneSels_lone c g⟩

/-- **the module emitted for `op` under `deny` is an environment (`TopEnvF`) for the pruned operation in the pruned
    document** -/
theorem topEnvFD_of_module {c : Ctx} {opIdx : Nat} {op : ROperation} {items : List Item}
    (hop : c.q.operations[opIdx]? = some op) (ht : FragOpD c op = true)
    (hp : FragmentOp (pruneCtx c) (pruneOp c op) = true) (hl : loneOkOp c op = true)
    (hgen : responseForQuery c opIdx = .ok items) (hok : moduleOk c items = true) :
    TopEnvF (moduleEnv c items) (pruneCtx c) (pruneOp c op) := by
  obtain ⟨u, S, E, F, I, V, o, resp, hu, hS, hE, hF, ho, hresp, hitems⟩ := responseForQuery_parts_full hgen
  rw [hop] at ho; cases ho
  obtain ⟨hn, hbodyD⟩ := fragOpD_parts ht
  obtain ⟨_, _, hsels'⟩ := fragmentOp_parts hp
  rw [pruneOp_sels, pruneOp_objectId] at hsels'
  simp only [pruneCtx_s, pruneCtx_o] at hsels'
  simp only [loneOkOp, Bool.and_eq_true] at hl
  rw [frag_items_shapeD c op (List.mem_of_getElem? hop) ht] at hresp
  cases hresp
  simp only [moduleOk, Bool.and_eq_true, List.all_eq_true, decide_eq_true_eq, List.isEmpty_iff] at hok
  obtain ⟨⟨⟨⟨hnd, hnp⟩, hext⟩, htab⟩, hnoext⟩ := hok
  have hsub : ∀ it ∈ bodyItemsFD c "ResponseData" (c.cs.camel op.name) op.sels, it ∈ items := by
    intro it h; rw [hitems]; simp [h]
  have M : ModFacts c items u op.sels := {
    hn := hn
    nodup := nodup_iff'.mp hnd
    np := hnp
    ext := fun x hx => ⟨(hext x hx).1, fun it hit => by simpa using (hext x hx).2 it hit⟩
    tables := fun n d sp vs ser de hm => by simpa using htab _ hm
    builtin := fun it h => by rw [hitems]; simp [h]
    scalars := fun k n hk hn' hnd' => by
      have := scalarItems_mem hS hk hn' hnd'
      simp only [hn, Normalization.scalarName, Normalization.camelCase] at this
      rw [hitems]; simp [this]
    enums := fun k en hk hen => by
      have := enumItems_mem hE hk hen (by simp [hnoext])
      rw [hitems]; simp [this]
    used := C02.selected_types_used c.s c.q opIdx u hu op hop }
  -- the same facts, for the pruned document
  have M' : ModFacts (pruneCtx c) items u (pruneSels c op.sels) := {
    hn := M.hn
    nodup := M.nodup
    np := M.np
    ext := M.ext
    tables := M.tables
    builtin := M.builtin
    scalars := M.scalars
    enums := M.enums
    used := fun y hy => by
      obtain ⟨x, hx, hh⟩ := reach_prune c hy op.sels rfl
      exact direct_head hh (M.used x hx) }
  -- the items of every spread fragment are in the module
  have hfragmem : ∀ g i, C02.Reach c.q op.sels (.spread g) → fragOkD c (.object i) g = true →
      ∀ f, c.q.fragments[g]? = some f → structItemsD c f.name (c.cs.camel f.name) f.sels ∈ F := by
    intro g i hr hokg f hf
    have hused : g ∈ u.fragments := M.used _ hr
    obtain ⟨its, hits, hfi⟩ := C02.mapM_ok_of_mem hF g ((C02.mem_sortNat _ _).mpr hused)
    obtain ⟨f', hf', hshape⟩ := frag_struct_shapeD c hn i g hokg
    rw [hf] at hf'; cases hf'
    rw [hshape] at hfi; cases hfi
    exact hits
  have hfragD : ∀ g, C02.Reach c.q op.sels (.spread g) → ∃ i, fragOkD c (.object i) g = true :=
    fun g hr => fragOkD_of_reach c hr (.inl ⟨_, hbodyD⟩) g rfl
  have hfr : FragsIn (pruneCtx c) items (pruneSels c op.sels) := by
    intro g i hr' _ f' hf' it hit
    obtain ⟨f, hf, rfl⟩ := pruneCtx_frag_some hf'
    have hr := reach_prune_spread c hr'
    obtain ⟨i0, hokD⟩ := hfragD g hr
    obtain ⟨f0, hf0, _, _, hv, _⟩ := fragOkD_parts hokD
    rw [hf] at hf0; cases hf0
    have hin := (structItemsV_prune_sublist c f.name (c.cs.camel f.name) f.sels hv).subset hit
    rw [hitems]
    have : it ∈ F.flatten := List.mem_flatten.mpr ⟨_, hfragmem g i0 hr hokD f hf, hin⟩
    simp [this]
  have hK : ∀ g i, C02.Reach (pruneCtx c).q (pruneSels c op.sels) (.spread g) →
      fragOk c.s (pruneCtx c).q c.o (.object i) g = true →
      selsDepth (fragSels (pruneCtx c).q g) ≤ F.flatten.length := by
    intro g i hr' hokg'
    obtain ⟨f', hf', _, _, hv', _⟩ := fragOk_parts hokg'
    obtain ⟨f, hf, rfl⟩ := pruneCtx_frag_some hf'
    have hr := reach_prune_spread c hr'
    obtain ⟨i0, hokD⟩ := hfragD g hr
    obtain ⟨f0, hf0, _, _, hv, _⟩ := fragOkD_parts hokD
    rw [hf] at hf0; cases hf0
    have h1 := length_le_flatten (hfragmem g i0 hr hokD f hf)
    have h2 := (depthV_sels (pruneCtx c) (pruneSels c f.sels) (c.cs.camel f.name) false hv').1 rfl
    have h3 := (itemsVs_prune_sublist c f.sels (c.cs.camel f.name) hv).length_le
    have : fragSels (pruneCtx c).q g = pruneSels c f.sels := by simp [fragSels, hf', pruneFrag]
    rw [this]
    simp only [structItemsD, List.length_cons] at h1
    omega
  by_cases hsp : ∃ g, op.sels = [Sel.spread g]
  · obtain ⟨g, hg⟩ := hsp
    have hg' : pruneSels c op.sels = [Sel.spread g] := by rw [hg, pruneSels_lone]
    have hokg : fragOk c.s (pruneCtx c).q c.o (.object op.objectId) g = true := by rw [hg'] at hsels'; exact hsels'
    have hr : C02.Reach (pruneCtx c).q (pruneSels c op.sels) (.spread g) := .here (by rw [hg']; simp)
    refine ⟨?_, ?_⟩
    · unfold BodyEnv
      rw [pruneOp_sels, hg']
      simp only
      refine ⟨aliasEnv_of M' hfr _ _ (hsub _ (by rw [hg, fragName_prune]; simp [bodyItemsFD])),
        fragEnv_of M' hfr g _ hr hokg⟩
    · have := hK g _ hr hokg
      have h4 : builtinAliases.length = 4 := rfl
      rw [pruneOp_sels, hg']
      simp only [depthsF, depthF, hitems, moduleEnv, List.length_append]
      omega
  · have hnl : ∀ g, op.sels ≠ [Sel.spread g] := fun g hg => hsp ⟨g, hg⟩
    have hnl' := not_lone_prune hl.1 hnl
    have hsels'' := hsels'
    rw [fBody_not_lone hnl'] at hsels''
    rw [fBodyD_not_lone hnl, Bool.and_eq_true] at hbodyD
    have hbody := bodyItemsFD_not_lone c "ResponseData" (c.cs.camel op.name) hnl
    rw [hbody] at hsub
    have hsubl := itemsFs_prune_sublist c op.sels (c.cs.camel op.name) _ hbodyD.1 hl.2
    refine ⟨?_, ?_⟩
    · unfold BodyEnv
      rw [pruneOp_sels, pruneOp_name]
      split
      · exact absurd (by assumption) (hnl' _)
      · refine ⟨structEnv_of M' _ _ ?_, ?_⟩
        · rw [fieldsOfF_prune c _ _ op.sels hbodyD.1]
          exact hsub _ (by simp [pruneCtx_respDerives, pruneCtx_serdeCrate])
        · exact envSelsF_of M' hfr (pruneSels c op.sels) _ op.objectId hsels''
            (fun x hx it h => hsub it (by simp [hsubl.subset (mem_itemsFs hx h)]))
            (fun x hx => .here hx)
    · have hd := depthF_sels (pruneCtx c) F.flatten.length (pruneSels c op.sels) (c.cs.camel op.name) _ hsels'' (by
        intro g hg
        have hr := reach_spreadIdss (pruneCtx c).q (pruneSels c op.sels) (pruneSels c op.sels) (fun y hy => .here hy) g hg
        obtain ⟨i, hokg⟩ := fragOk_of_spreadIdss c.s (pruneCtx c).q c.o (pruneSels c op.sels) _ hsels'' g hg
        exact hK g i hr hokg)
      have hlen := hsubl.length_le
      rw [pruneOp_sels, hitems, hbody]
      simp only [moduleEnv, List.length_append, List.length_cons]
      omega

/-! ## exact acceptance (C03) -/

/-- **`fragD_precise_iff` (C03 under `deny`, with fragment spreads).**  The `ResponseData` emitted for `op` accepts `j`
    **iff** `j` satisfies the exact-acceptance predicate of `fragment_precise_iff` for the operation and the fragments with
    the denied fields removed. -/
theorem fragD_precise_iff (c : Ctx) (opIdx : Nat) (op : ROperation) (items : List Item)
    (hop : c.q.operations[opIdx]? = some op) (ht : FragOpD c op = true)
    (hp : FragmentOp (pruneCtx c) (pruneOp c op) = true) (hk : fragKeysOk (pruneCtx c) (pruneOp c op) = true)
    (hl : loneOkOp c op = true)
    (hgen : responseForQuery c opIdx = .ok items) (hok : moduleOk c items = true) (j : Json) :
    okB (Serde.de (moduleEnv c items) (.path "ResponseData") j) =
      conformsLooseF c.s (pruneCtx c).q c.o false (pruneSels c op.sels) j :=
  top_accepts_iffF (moduleEnv c items) (pruneCtx c) (pruneOp c op) hp hk (topEnvFD_of_module hop ht hp hl hgen hok) j

theorem fragD_precise (c : Ctx) (opIdx : Nat) (op : ROperation) (items : List Item)
    (hop : c.q.operations[opIdx]? = some op) (ht : FragOpD c op = true)
    (hp : FragmentOp (pruneCtx c) (pruneOp c op) = true) (hk : fragKeysOk (pruneCtx c) (pruneOp c op) = true)
    (hl : loneOkOp c op = true)
    (hgen : responseForQuery c opIdx = .ok items) (hok : moduleOk c items = true) (j : Json) (v : Val)
    (hd : Serde.de (moduleEnv c items) (.path "ResponseData") j = .ok v) :
    conformsLooseF c.s (pruneCtx c).q c.o false (pruneSels c op.sels) j = true := by
  rw [← fragD_precise_iff c opIdx op items hop ht hp hk hl hgen hok j, hd]; rfl

/-- a payload conforming to the pruned operation in the pruned document (no entry for the denied fields) is accepted -/
theorem fragD_accepts_pruned (c : Ctx) (opIdx : Nat) (op : ROperation) (items : List Item)
    (hop : c.q.operations[opIdx]? = some op) (ht : FragOpD c op = true)
    (hp : FragmentOp (pruneCtx c) (pruneOp c op) = true) (hk : fragKeysOk (pruneCtx c) (pruneOp c op) = true)
    (hl : loneOkOp c op = true)
    (hgen : responseForQuery c opIdx = .ok items) (hok : moduleOk c items = true)
    (j : Json) (hc : conformsOpF (pruneCtx c) (pruneOp c op) j = true) :
    ∃ v, Serde.de (moduleEnv c items) (.path "ResponseData") j = .ok v := by
  have := fragD_precise_iff c opIdx op items hop ht hp hk hl hgen hok j
  have hloose := conformsF_loose (pruneCtx c).s (pruneCtx c).q (pruneCtx c).o false _ _ _ (fragmentOp_parts hp).2.2 hc
  simp only [pruneCtx_s, pruneCtx_o, pruneOp_sels] at hloose
  rw [hloose] at this
  exact (okB_iff _).mp this

/-! ## through P26: the payload with the denied keys erased -/

/-- `EnvOK` of every module emitted for an operation of `FragOpD` (fragment bodies have no spread: constant rank) -/
theorem fragOpD_envOK {c : Ctx} {opIdx : Nat} {op : ROperation} {items : List Item}
    (hop : c.q.operations[opIdx]? = some op) (ht : FragOpD c op = true)
    (hgen : responseForQuery c opIdx = .ok items) (hok : moduleOk c items = true) :
    SerdeFuel.EnvOK (moduleEnv c items) ∧ SerdeFuel.EnvOKS (moduleEnv c items) := by
  obtain ⟨_, hbodyD⟩ := fragOpD_parts ht
  refine AcyclicM.module_envOK_of_reachRanked (r := fun _ => 0) hop ?_ hgen hok
  refine AcyclicM.reachRanked_of_no_top_spread (fun g hg f hf x hx => ?_)
  obtain ⟨i, hokD⟩ := fragOkD_of_reach c hg (.inl ⟨_, hbodyD⟩) g rfl
  obtain ⟨f0, hf0, _, _, hv, _⟩ := fragOkD_parts hokD
  rw [hf] at hf0; cases hf0
  have := treeSelD_of_mem hv hx
  simp [treeSelD] at this

/-- P26's corollary with every hypothesis decidable -/
theorem denied_field_payload_same_frag' (c : Ctx) (opIdx : Nat) (op : ROperation) (items : List Item)
    (hop : c.q.operations[opIdx]? = some op) (ht : FragOpD c op = true) (hkD : FragKeysOkD c op = true)
    (hgen : responseForQuery c opIdx = .ok items) (hok : moduleOk c items = true) (j : Json) :
    Serde.de (moduleEnv c items) (.path "ResponseData") j =
      Serde.de (moduleEnv c items) (.path "ResponseData") (eraseDeniedF c op j) :=
  denied_field_payload_same_frag c opIdx op items hop ht hkD hgen (names_of_moduleOk hok)
    (fragOpD_envOK hop ht hgen hok).1 j

/-- `fragD_precise_iff` in the form of the task statement: … iff the payload with the denied keys erased at every depth
    (`C14G.eraseDeniedF`) satisfies the exact-acceptance predicate of the pruned operation -/
theorem fragD_precise_iff_erased (c : Ctx) (opIdx : Nat) (op : ROperation) (items : List Item)
    (hop : c.q.operations[opIdx]? = some op) (ht : FragOpD c op = true) (hkD : FragKeysOkD c op = true)
    (hp : FragmentOp (pruneCtx c) (pruneOp c op) = true) (hk : fragKeysOk (pruneCtx c) (pruneOp c op) = true)
    (hl : loneOkOp c op = true)
    (hgen : responseForQuery c opIdx = .ok items) (hok : moduleOk c items = true) (j : Json) :
    okB (Serde.de (moduleEnv c items) (.path "ResponseData") j) =
      conformsLooseF c.s (pruneCtx c).q c.o false (pruneSels c op.sels) (eraseDeniedF c op j) := by
  rw [denied_field_payload_same_frag' c opIdx op items hop ht hkD hgen hok j]
  exact fragD_precise_iff c opIdx op items hop ht hp hk hl hgen hok _

/-- a payload whose erasure conforms to the pruned operation is accepted (the hypothesis `hc` is discharged for payloads
    conforming to the operation as written in `C01DenyFragLossless`) -/
theorem fragD_accepts_of_erased (c : Ctx) (opIdx : Nat) (op : ROperation) (items : List Item)
    (hop : c.q.operations[opIdx]? = some op) (ht : FragOpD c op = true) (hkD : FragKeysOkD c op = true)
    (hp : FragmentOp (pruneCtx c) (pruneOp c op) = true) (hk : fragKeysOk (pruneCtx c) (pruneOp c op) = true)
    (hl : loneOkOp c op = true)
    (hgen : responseForQuery c opIdx = .ok items) (hok : moduleOk c items = true)
    (j : Json) (hc : conformsOpF (pruneCtx c) (pruneOp c op) (eraseDeniedF c op j) = true) :
    ∃ v, Serde.de (moduleEnv c items) (.path "ResponseData") j = .ok v := by
  rw [denied_field_payload_same_frag' c opIdx op items hop ht hkD hgen hok j]
  exact fragD_accepts_pruned c opIdx op items hop ht hp hk hl hgen hok _ hc

/-! ## losslessness, for payloads that conform to the pruned operation -/

/-- a response conforming to the pruned operation in the pruned document is written back as its `canonSelF` -/
theorem fragD_lossless_pruned (c : Ctx) (opIdx : Nat) (op : ROperation) (items : List Item)
    (hop : c.q.operations[opIdx]? = some op) (ht : FragOpD c op = true)
    (hp : FragmentOp (pruneCtx c) (pruneOp c op) = true) (hk : fragKeysOk (pruneCtx c) (pruneOp c op) = true)
    (hr : fragRustOk (pruneCtx c) (pruneOp c op) = true) (hl : loneOkOp c op = true)
    (hgen : responseForQuery c opIdx = .ok items) (hok : moduleOk c items = true)
    (j : Json) (hc : conformsOpF (pruneCtx c) (pruneOp c op) j = true) (v : Val)
    (hd : Serde.de (moduleEnv c items) (.path "ResponseData") j = .ok v) :
    Serde.ser (moduleEnv c items) (.path "ResponseData") v =
      .ok (canonSelF c.s (pruneCtx c).q c.o.skipNone (pruneSels c op.sels) j) :=
  top_losslessF (moduleEnv c items) (pruneCtx c) (pruneOp c op) hp hk hr (topEnvFD_of_module hop ht hp hl hgen hok) j v hc hd

/-- … and, through P26, a payload whose erasure conforms to the pruned operation is written back as the canonical form
    of its erasure -/
theorem fragD_lossless_of_erased (c : Ctx) (opIdx : Nat) (op : ROperation) (items : List Item)
    (hop : c.q.operations[opIdx]? = some op) (ht : FragOpD c op = true) (hkD : FragKeysOkD c op = true)
    (hp : FragmentOp (pruneCtx c) (pruneOp c op) = true) (hk : fragKeysOk (pruneCtx c) (pruneOp c op) = true)
    (hr : fragRustOk (pruneCtx c) (pruneOp c op) = true) (hl : loneOkOp c op = true)
    (hgen : responseForQuery c opIdx = .ok items) (hok : moduleOk c items = true)
    (j : Json) (hc : conformsOpF (pruneCtx c) (pruneOp c op) (eraseDeniedF c op j) = true) (v : Val)
    (hd : Serde.de (moduleEnv c items) (.path "ResponseData") j = .ok v) :
    Serde.ser (moduleEnv c items) (.path "ResponseData") v =
      .ok (canonSelF c.s (pruneCtx c).q c.o.skipNone (pruneSels c op.sels) (eraseDeniedF c op j)) := by
  rw [denied_field_payload_same_frag' c opIdx op items hop ht hkD hgen hok j] at hd
  exact fragD_lossless_pruned c opIdx op items hop ht hp hk hr hl hgen hok _ hc v hd

end Deny
end C01
end GqlVerif
