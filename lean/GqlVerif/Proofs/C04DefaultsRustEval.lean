import GqlVerif.Proofs.C04DefaultsRustLit
/-!
# C04 under `normalization = rust` — default literals, the semantic half: `evalLit` commutes with a renaming

For two environments related by a renaming (`EnvRen R e e'`, `C09NormSerde.lean`) whose items are well formed
(`ValWF`, `C04RustRename.lean`):

* `resolveTy_ren` — unfolding aliases / the consumer's types at the head of a type commutes with the renaming;
* `vrel_unresolve` — `VRel` at the resolved type is `VRel` at the type;
* **`evalLit_rename`** — `LitRel R EV`-related literals evaluate, at `TyRen R`-related types, to `VRel R e e'`-related
  values: if the first type-checks (`evalLit e l t = some x`) so does the second, and the two values are equal up to
  the identifiers of enum variants.  `EV` is tied to the two environments by `EnumFacts`: a path `Enum::Variant` whose
  variant exists in the enum `Enum` resolves to in `e` names, in `e'`, the variant at the same position.
-/
namespace GqlVerif
namespace C04DR
open Codegen Serde C04S C04R C13 C04D C09 C09N

section
variable {R : String → String → Prop} {e e' : Env}

/-! ## `resolveTy` -/

theorem resolveTyN_zero (e : Env) (t : RTy) : resolveTyN e 0 t = t := by
  cases t <;> rfl

theorem resolveTyN_ren (H : EnvRen R e e') : ∀ (n : Nat) {t t' : RTy}, TyRen R t t' →
    TyRen R (resolveTyN e n t) (resolveTyN e' n t')
  | 0, t, t', h => by rw [resolveTyN_zero, resolveTyN_zero]; exact h
  | n+1, .opt t, t', h => by obtain ⟨u, rfl, hu⟩ := tyRen_opt h; exact hu
  | n+1, .vec t, t', h => by obtain ⟨u, rfl, hu⟩ := tyRen_vec h; exact hu
  | n+1, .box t, t', h => by obtain ⟨u, rfl, hu⟩ := tyRen_box h; exact hu
  | n+1, .path p, t', h => by
    obtain ⟨p', rfl, hr⟩ := tyRen_path h
    cases hp : C04D.isPrimName p with
    | true =>
      have := prim_ren H hr hp; subst this
      rw [resolveTyN_prim e _ hp, resolveTyN_prim e' _ hp]
      exact hr
    | false =>
      have hp' : C04D.isPrimName p' = false :=
        (isPrimName_false_iff p').mpr (notPrim_ren H hr ((isPrimName_false_iff p).mp hp))
      rcases find_ren H hr with ⟨h1, h2⟩ | ⟨it, it', _, h1, h2, hit⟩
      · rcases extern_ren H hr with ⟨h3, h4⟩ | ⟨k, t1, k', t1', h3, h4, ht'⟩
        · simp only [resolveTyN, hp, hp', h1, h2, h3, h4, Bool.false_eq_true, ↓reduceIte]
          exact hr
        · simp only [resolveTyN, hp, hp', h1, h2, h3, h4, Bool.false_eq_true, ↓reduceIte]
          exact resolveTyN_ren H n ht'
      · cases hit with
        | «alias» hn ht' =>
          simp only [resolveTyN, hp, hp', h1, h2, Bool.false_eq_true, ↓reduceIte]
          exact resolveTyN_ren H n ht'
        | struct _ _ => simp only [resolveTyN, hp, hp', h1, h2, Bool.false_eq_true, ↓reduceIte]; exact hr
        | unitStruct _ => simp only [resolveTyN, hp, hp', h1, h2, Bool.false_eq_true, ↓reduceIte]; exact hr
        | tagged _ _ => simp only [resolveTyN, hp, hp', h1, h2, Bool.false_eq_true, ↓reduceIte]; exact hr
        | gqlEnum _ _ => simp only [resolveTyN, hp, hp', h1, h2, Bool.false_eq_true, ↓reduceIte]; exact hr
        | oneOf _ _ => simp only [resolveTyN, hp, hp', h1, h2, Bool.false_eq_true, ↓reduceIte]; exact hr
        | defaults _ => simp only [resolveTyN, hp, hp', h1, h2, Bool.false_eq_true, ↓reduceIte]; exact hr

/-- **`resolveTy` commutes with the renaming** -/
theorem resolveTy_ren (H : EnvRen R e e') {t t' : RTy} (h : TyRen R t t') :
    TyRen R (resolveTy e t) (resolveTy e' t') := by
  unfold resolveTy
  rw [← All2.length_eq H.items, ← All2.length_eq H.externs]
  exact resolveTyN_ren H _ h

theorem vrel_unresolveN : ∀ (n : Nat) (t : RTy) {v v' : Val}, VRel R e e' (resolveTyN e n t) v v' → VRel R e e' t v v'
  | 0, t, _, _, h => by rwa [resolveTyN_zero] at h
  | n+1, .opt t, _, _, h => h
  | n+1, .vec t, _, _, h => h
  | n+1, .box t, _, _, h => h
  | n+1, .path p, v, v', h => by
    cases hp : C04D.isPrimName p with
    | true => rwa [resolveTyN_prim e _ hp] at h
    | false =>
      cases hf : e.find p with
      | none =>
        cases hx : e.externs.find? (·.1 == p) with
        | none =>
          simp only [resolveTyN, hp, hf, hx, Bool.false_eq_true, ↓reduceIte] at h
          exact h
        | some kt =>
          obtain ⟨k, t1⟩ := kt
          simp only [resolveTyN, hp, hf, hx, Bool.false_eq_true, ↓reduceIte] at h
          exact .extern hf hx (vrel_unresolveN n t1 h)
      | some it =>
        cases it with
        | «alias» a pub t1 =>
          simp only [resolveTyN, hp, hf, Bool.false_eq_true, ↓reduceIte] at h
          exact .alias hf (vrel_unresolveN n t1 h)
        | struct _ _ _ _ => simp only [resolveTyN, hp, hf, Bool.false_eq_true, ↓reduceIte] at h; exact h
        | unitStruct _ _ _ => simp only [resolveTyN, hp, hf, Bool.false_eq_true, ↓reduceIte] at h; exact h
        | tagged _ _ _ _ _ => simp only [resolveTyN, hp, hf, Bool.false_eq_true, ↓reduceIte] at h; exact h
        | gqlEnum _ _ _ _ _ _ => simp only [resolveTyN, hp, hf, Bool.false_eq_true, ↓reduceIte] at h; exact h
        | oneOf _ _ _ _ => simp only [resolveTyN, hp, hf, Bool.false_eq_true, ↓reduceIte] at h; exact h
        | defaults _ => simp only [resolveTyN, hp, hf, Bool.false_eq_true, ↓reduceIte] at h; exact h

/-- `VRel` at the resolved type is `VRel` at the type -/
theorem vrel_unresolve {t : RTy} {v v' : Val} (h : VRel R e e' (resolveTy e t) v v') : VRel R e e' t v v' :=
  vrel_unresolveN _ t h

/-- a prelude name resolves to itself, on both sides -/
theorem resolveTy_prim_ren (H : EnvRen R e e') {t t' : RTy} (h : TyRen R t t') {q : String} (hq : C04D.isPrimName q = true)
    (hr : resolveTy e t = .path q) : resolveTy e' t' = .path q := by
  have := resolveTy_ren H h
  rw [hr] at this
  obtain ⟨p', hp', hrp⟩ := tyRen_path this
  rw [hp', prim_ren H hrp hq]

/-! ## the members of a struct literal -/

/-- the members of two struct literals, evaluated against corresponding member lists -/
inductive FV (R : String → String → Prop) (e e' : Env) : List RField → List (String × Val) → List (String × Val) → Prop
  | nil : FV R e e' [] [] []
  | cons {f fs x x' vals vals'} : VRel R e e' f.ty x x' → FV R e e' fs vals vals' →
      FV R e e' (f :: fs) ((f.rust, x) :: vals) ((f.rust, x') :: vals')

theorem pw_of_FV {fields : List RField} (hnd : (fields.map (·.rust)).Nodup) :
    ∀ {gs : List RField} {vals vals' : List (String × Val)}, FV R e e' gs vals vals' → (∀ g ∈ gs, g ∈ fields) →
      PW R e e' fields vals vals'
  | _, _, _, .nil, _ => .nil
  | _, _, _, .cons (f := f) hv t, hsub => by
    refine .cons ⟨rfl, ⟨f, hsub f (by simp), rfl⟩, fun g hg hgr => ?_⟩ (pw_of_FV hnd t (fun g hg => hsub g (by simp [hg])))
    have : g = f := eq_of_key_eq (·.rust) hnd hg (hsub f (by simp)) hgr
    subst this
    exact hv

end

/-! ## the theorem -/

/-- what ties `EV` to the two environments: a path `en::var` whose variant `var` exists in the string enum `en`
    resolves to in `e` names, in `e'`, the variant at the same position of the corresponding enum -/
def EnumFacts (R : String → String → Prop) (EV : String → String → String → Prop) (e e' : Env) : Prop :=
  ∀ en var var', EV en var var' → ∀ p p' n d sp ids ser de n' d' sp' ids' ser' de',
    resolveTy e (.path en) = .path p → R p p' → e.find p = some (.gqlEnum n d sp ids ser de) →
    e'.find p' = some (.gqlEnum n' d' sp' ids' ser' de') → var ∈ ids → (var, var') ∈ identPairs de de'

section
variable {R : String → String → Prop} {EV : String → String → String → Prop} {e e' : Env}
  (H : EnvRen R e e') (hw : ValWF e) (hw' : ValWF e') (hS : R "String" "String") (HE : EnumFacts R EV e e')
include H hw hw' hS HE

omit hw hw' hS HE in
/-- the common part of the three named-type cases: the type of the position resolves to `p` / `p'`, the name written
    in the literal resolves to the same -/
theorem named_ren {t t' : RTy} (ht : TyRen R t t') {name name' p : String} (hN : R name name')
    (hr : resolveTy e t = .path p) (hp : C04D.isPrimName p = false) (hn : resolveTy e (.path name) = .path p) :
    ∃ p', R p p' ∧ resolveTy e' t' = .path p' ∧ C04D.isPrimName p' = false ∧ resolveTy e' (.path name') = .path p' := by
  have h1 := resolveTy_ren H ht
  rw [hr] at h1
  obtain ⟨p', hp', hrp⟩ := tyRen_path h1
  have h2 := resolveTy_ren H (show TyRen R (.path name) (.path name') from hN)
  rw [hn] at h2
  obtain ⟨p'', hp'', hrp''⟩ := tyRen_path h2
  have : p' = p'' := (H.bij p p' p p'' hrp hrp'').mp rfl
  subst this
  exact ⟨p', hrp, hp', (isPrimName_false_iff p').mpr (notPrim_ren H hrp ((isPrimName_false_iff p).mp hp)), hp''⟩

set_option linter.unusedSectionVars false in
mutual
  /-- **`evalLit_rename`** — see the header -/
  theorem evalLit_rename : ∀ (l l' : LitExpr), LitRel R EV l l' → ∀ (t t' : RTy), TyRen R t t' → ∀ x,
      evalLit e l t = some x → ∃ x', evalLit e' l' t' = some x' ∧ VRel R e e' t x x'
    | .bool b, _, h, t, t', ht, x, hx => by
      cases h
      simp only [evalLit] at hx ⊢
      split at hx
      · rename_i hr
        cases hx
        rw [if_pos (resolveTy_prim_ren H ht (by decide) hr)]
        exact ⟨_, rfl, vrel_unresolve (by rw [hr]; exact .leaf (j := .bool b) rfl)⟩
      · cases hx
    | .str s, _, h, t, t', ht, x, hx => by
      cases h
      simp only [evalLit] at hx ⊢
      split at hx
      · rename_i hr
        cases hx
        rw [if_pos (resolveTy_prim_ren H ht (by decide) hr)]
        exact ⟨_, rfl, vrel_unresolve (by rw [hr]; exact .leaf (j := .str s) rfl)⟩
      · cases hx
    | .int n, _, h, t, t', ht, x, hx => by
      cases h
      simp only [evalLit] at hx ⊢
      split at hx
      · rename_i hr
        cases hx
        rw [if_pos ⟨resolveTy_prim_ren H ht (by decide) hr.1, hr.2⟩]
        exact ⟨_, rfl, vrel_unresolve (by rw [hr.1]; exact .leaf (j := .int n) rfl)⟩
      · cases hx
    | .float tok, _, h, t, t', ht, x, hx => by
      cases h
      simp only [evalLit] at hx ⊢
      split at hx
      · rename_i hr
        cases hx
        rw [if_pos (resolveTy_prim_ren H ht (by decide) hr)]
        exact ⟨_, rfl, vrel_unresolve (by rw [hr]; exact .leaf (j := floatJson tok) rfl)⟩
      · cases hx
    | .ident _, _, h, t, t', ht, x, hx => by simp [evalLit] at hx
    | .compileError _, _, h, t, t', ht, x, hx => by simp [evalLit] at hx
    | .none, _, h, t, t', ht, x, hx => by
      cases h
      have hres := resolveTy_ren H ht
      simp only [evalLit] at hx ⊢
      cases hr : resolveTy e t with
      | opt u =>
        rw [hr] at hx hres
        obtain ⟨u', hu', _⟩ := tyRen_opt hres
        simp only [Option.some.injEq] at hx
        subst hx
        rw [hu']
        exact ⟨_, rfl, .plain rfl⟩
      | path _ => rw [hr] at hx; cases hx
      | vec _ => rw [hr] at hx; cases hx
      | box _ => rw [hr] at hx; cases hx
    | .some l, _, h, t, t', ht, x, hx => by
      cases h with
      | some h =>
        have hres := resolveTy_ren H ht
        simp only [evalLit] at hx ⊢
        cases hr : resolveTy e t with
        | opt u =>
          rw [hr] at hx hres
          obtain ⟨u', hu', hu⟩ := tyRen_opt hres
          simp only [Option.map_eq_some_iff] at hx
          obtain ⟨y, hy, rfl⟩ := hx
          obtain ⟨y', hy', hv⟩ := evalLit_rename l _ h u u' hu y hy
          rw [hu']
          simp only [hy', Option.map_some]
          exact ⟨_, rfl, vrel_unresolve (by rw [hr]; exact .some hv)⟩
        | path _ => rw [hr] at hx; cases hx
        | vec _ => rw [hr] at hx; cases hx
        | box _ => rw [hr] at hx; cases hx
    | .box l, _, h, t, t', ht, x, hx => by
      cases h with
      | box h =>
        have hres := resolveTy_ren H ht
        simp only [evalLit] at hx ⊢
        cases hr : resolveTy e t with
        | box u =>
          rw [hr] at hx hres
          obtain ⟨u', hu', hu⟩ := tyRen_box hres
          simp only [] at hx
          obtain ⟨y', hy', hv⟩ := evalLit_rename l _ h u u' hu x hx
          rw [hu']
          exact ⟨_, hy', vrel_unresolve (by rw [hr]; exact .box hv)⟩
        | path _ => rw [hr] at hx; cases hx
        | vec _ => rw [hr] at hx; cases hx
        | opt _ => rw [hr] at hx; cases hx
    | .vec ls, _, h, t, t', ht, x, hx => by
      cases h with
      | vec h =>
        have hres := resolveTy_ren H ht
        simp only [evalLit] at hx ⊢
        cases hr : resolveTy e t with
        | vec u =>
          rw [hr] at hx hres
          obtain ⟨u', hu', hu⟩ := tyRen_vec hres
          simp only [Option.map_eq_some_iff] at hx
          obtain ⟨ys, hys, rfl⟩ := hx
          obtain ⟨ys', hys', hv⟩ := evalList_rename ls _ h u u' hu ys hys
          rw [hu']
          simp only [hys', Option.map_some]
          exact ⟨_, rfl, vrel_unresolve (by rw [hr]; exact vrel_ofList hv)⟩
        | path _ => rw [hr] at hx; cases hx
        | box _ => rw [hr] at hx; cases hx
        | opt _ => rw [hr] at hx; cases hx
    | .struct name fields, _, h, t, t', ht, x, hx => by
      cases h with
      | struct hN hfs =>
        rename_i name' fields'
        simp only [evalLit] at hx ⊢
        cases hr : resolveTy e t with
        | path p =>
          rw [hr] at hx
          simp only [] at hx
          split at hx
          · rename_i hc
            obtain ⟨p', hrp, hr', hp', hn'⟩ := named_ren H ht hN hr hc.1 hc.2
            rcases find_ren H hrp with ⟨h1, _⟩ | ⟨it, it', hmem, h1, h2, hit⟩
            · rw [h1] at hx; cases hx
            · rw [h1] at hx
              cases hit with
              | struct hn hfr =>
                rename_i n n' d d' sc sc' fs fs'
                simp only [Option.map_eq_some_iff] at hx
                obtain ⟨vals, hvals, rfl⟩ := hx
                obtain ⟨vals', hvals', hfv⟩ := evalFields_rename fields _ hfs fs fs' hfr vals hvals
                rw [hr']
                simp only [hp', hn', and_self, ↓reduceIte, h2, hvals', Option.map_some]
                refine ⟨_, rfl, vrel_unresolve ?_⟩
                rw [hr]
                exact vrel_ofPW h1 (pw_of_FV (hw _ hmem) hfv (fun _ h => h))
              | unitStruct _ => cases hx
              | tagged _ _ => cases hx
              | «alias» _ _ => cases hx
              | gqlEnum _ _ => cases hx
              | oneOf _ _ => cases hx
              | defaults _ => cases hx
          · cases hx
        | opt _ => rw [hr] at hx; cases hx
        | vec _ => rw [hr] at hx; cases hx
        | box _ => rw [hr] at hx; cases hx
    | .path en var, _, h, t, t', ht, x, hx => by
      cases h with
      | path hN hEV =>
        rename_i en' var'
        simp only [evalLit] at hx ⊢
        cases hr : resolveTy e t with
        | path p =>
          rw [hr] at hx
          simp only [] at hx
          split at hx
          · rename_i hc
            obtain ⟨p', hrp, hr', hp', hn'⟩ := named_ren H ht hN hr hc.1 hc.2
            rcases find_ren H hrp with ⟨h1, _⟩ | ⟨it, it', hmem, h1, h2, hit⟩
            · rw [h1] at hx; cases hx
            · rw [h1] at hx
              cases hit with
              | gqlEnum hn hen =>
                rename_i n n' d d' sp sp' ids ids' ser ser' de de'
                simp only [] at hx
                split at hx
                · rename_i hmemv
                  cases hx
                  have hm := HE en var var' hEV p p' _ _ _ _ _ _ _ _ _ _ _ _ hc.2 hrp h1 h2 hmemv
                  have hids' : ids' = de'.map (·.2) := hw' _ (mem_of_find h2)
                  have hmem' : var' ∈ ids' := by rw [hids']; exact (List.of_mem_zip hm).2
                  rw [hr']
                  simp only [hp', hn', and_self, ↓reduceIte, h2, hmem']
                  refine ⟨_, rfl, vrel_unresolve ?_⟩
                  rw [hr]
                  exact .enum h1 hrp h2 hm
                · cases hx
              | unitStruct _ => cases hx
              | tagged _ _ => cases hx
              | «alias» _ _ => cases hx
              | struct _ _ => cases hx
              | oneOf _ _ => cases hx
              | defaults _ => cases hx
          · cases hx
        | opt _ => rw [hr] at hx; cases hx
        | vec _ => rw [hr] at hx; cases hx
        | box _ => rw [hr] at hx; cases hx
    | .variant en var l, _, h, t, t', ht, x, hx => by
      cases h with
      | variant hN hl =>
        rename_i en' l'
        simp only [evalLit] at hx ⊢
        cases hr : resolveTy e t with
        | path p =>
          rw [hr] at hx
          simp only [] at hx
          split at hx
          · rename_i hc
            obtain ⟨p', hrp, hr', hp', hn'⟩ := named_ren H ht hN hr hc.1 hc.2
            rcases find_ren H hrp with ⟨h1, _⟩ | ⟨it, it', hmem, h1, h2, hit⟩
            · rw [h1] at hx; cases hx
            · rw [h1] at hx
              cases hit with
              | oneOf hn hvs =>
                rename_i n n' d d' sc sc' vs vs'
                simp only [] at hx
                rcases All2.find? (p := fun v : RVariant => v.name == var) (q := fun v : RVariant => v.name == var) hvs
                    (fun a b _ hab => by simp only [hab.name]) with ⟨hn1, _⟩ | ⟨v, v', hvm, hf1, hf2, hvv⟩
                · rw [hn1] at hx; cases hx
                · rw [hf1] at hx
                  simp only [] at hx
                  cases hpay : v.payload with
                  | none => rw [hpay] at hx; cases hx
                  | some u =>
                    rw [hpay] at hx
                    simp only [Option.map_eq_some_iff] at hx
                    obtain ⟨y, hy, rfl⟩ := hx
                    have hp := hvv.payload
                    rw [hpay] at hp
                    cases hpay' : v'.payload with
                    | none => simp [hpay', OptTyRen] at hp
                    | some u' =>
                      simp only [hpay', OptTyRen] at hp
                      obtain ⟨y', hy', hv⟩ := evalLit_rename l _ hl u u' hp y hy
                      have hnd : (vs.map (·.name)).Nodup := hw _ hmem
                      have hvn : v.name = var := by simpa using List.find?_some hf1
                      rw [hr']
                      simp only [hp', hn', and_self, ↓reduceIte, h2, hf2, hpay', hy', Option.map_some]
                      refine ⟨_, rfl, vrel_unresolve ?_⟩
                      rw [hr]
                      refine .oneOf h1 ⟨v, hvm, hvn, u, hpay⟩ ?_
                      intro w hwm hwn u2 hu2
                      have : w = v := eq_of_key_eq (·.name) hnd hwm hvm (hwn.trans hvn.symm)
                      subst this
                      rw [hpay] at hu2; cases hu2
                      exact hv
              | gqlEnum hn hen =>
                simp only [] at hx
                split at hx
                · rename_i hvar
                  simp only [Option.bind_eq_some_iff] at hx
                  obtain ⟨y, hy, hx⟩ := hx
                  obtain ⟨y', hy', hv⟩ := evalLit_rename l _ hl (.path "String") (.path "String") hS y hy
                  cases y <;> simp only [reduceCtorEq, Option.some.injEq] at hx
                  subst hx
                  have : y' = .str _ := vrel_prim_eq hv _ rfl
                  subst this
                  rw [hr']
                  simp only [hp', hn', and_self, ↓reduceIte, h2, hvar, hy', Option.bind_some]
                  refine ⟨_, rfl, vrel_unresolve ?_⟩
                  rw [hr]
                  exact .leaf (j := .str _) rfl
                · cases hx
              | unitStruct _ => cases hx
              | tagged _ _ => cases hx
              | «alias» _ _ => cases hx
              | struct _ _ => cases hx
              | defaults _ => cases hx
          · cases hx
        | opt _ => rw [hr] at hx; cases hx
        | vec _ => rw [hr] at hx; cases hx
        | box _ => rw [hr] at hx; cases hx
  theorem evalList_rename : ∀ (ls ls' : List LitExpr), LitRelList R EV ls ls' → ∀ (t t' : RTy), TyRen R t t' → ∀ xs,
      evalList e ls t = some xs → ∃ xs', evalList e' ls' t' = some xs' ∧ All2 (VRel R e e' t) xs xs'
    | [], _, h, t, t', ht, xs, hx => by
      cases h
      simp only [evalList, Option.some.injEq] at hx ⊢
      subst hx
      exact ⟨[], rfl, .nil⟩
    | l :: ls, _, h, t, t', ht, xs, hx => by
      cases h with
      | cons h1 h2 =>
        simp only [evalList, Option.bind_eq_bind, Option.bind_eq_some_iff, Option.pure_def, Option.some.injEq] at hx
        obtain ⟨y, hy, ys, hys, rfl⟩ := hx
        obtain ⟨y', hy', hv⟩ := evalLit_rename l _ h1 t t' ht y hy
        obtain ⟨ys', hys', hvs⟩ := evalList_rename ls _ h2 t t' ht ys hys
        refine ⟨y' :: ys', ?_, .cons hv hvs⟩
        simp only [evalList, hy', hys', Option.bind_eq_bind, Option.bind_some, Option.pure_def]
  theorem evalFields_rename : ∀ (fields fields' : List (String × LitExpr)), LitRelFields R EV fields fields' →
      ∀ (fs fs' : List RField), All2 (FieldRen R) fs fs' → ∀ vals, evalFields e fs fields = some vals →
        ∃ vals', evalFields e' fs' fields' = some vals' ∧ FV R e e' fs vals vals'
    | [], _, h, fs, fs', hfr, vals, hx => by
      cases h
      cases hfr with
      | nil =>
        simp only [evalFields, Option.some.injEq] at hx ⊢
        subst hx
        exact ⟨[], rfl, .nil⟩
      | cons _ _ => simp [evalFields] at hx
    | (k, l) :: fields, _, h, fs, fs', hfr, vals, hx => by
      cases h with
      | cons h1 h2 =>
        cases hfr with
        | nil => simp [evalFields] at hx
        | cons hf hfr =>
          rename_i f f' fs fs'
          simp only [evalFields] at hx
          split at hx
          · rename_i hk
            simp only [Option.bind_eq_bind, Option.bind_eq_some_iff, Option.pure_def, Option.some.injEq] at hx
            obtain ⟨y, hy, ys, hys, rfl⟩ := hx
            obtain ⟨y', hy', hv⟩ := evalLit_rename l _ h1 f.ty f'.ty hf.ty y hy
            obtain ⟨ys', hys', hvs⟩ := evalFields_rename fields _ h2 fs fs' hfr ys hys
            refine ⟨(f.rust, y') :: ys', ?_, .cons hv hvs⟩
            simp only [evalFields, hf.rust, hk, ↓reduceIte, hy', hys', Option.bind_eq_bind, Option.bind_some,
              Option.pure_def]
          · cases hx
end

end

end C04DR
end GqlVerif
