import GqlVerif.Proofs.C01EndToEndA
import GqlVerif.Props.C01
/-!
# C01 / C03 end to end, part B: what the emitted `ResponseData` accepts, exactly

Scope as in part A (object-tree operations: no fragments, no inline fragments, no abstract types).

* `conformsSelLoose s sels j` — the loose specification: like `conformsSel` but keys that are no selected
  field's (among them `__typename`) are unconstrained.  Two further liberties are forced by the model of
  serde (the task statement did not list them; each is witnessed in `C01EndToEnd.lean`):
  an **absent key at a nullable position** reads as `None` (`missingField`), and a **JSON array at an object
  position** is read positionally (`visit_seq` of the derived `Deserialize`).
* `EnvOk`-style hypotheses `ScalarEnv`, `EnumEnv`, `StructEnv`, `envSels` — what the theorems need of the
  environment (discharged for the environment of `responseForQuery` in `C01EndToEnd.lean`).
* `struct_accepts_iff` — for every selection set of the class, every JSON value `j` and every fuel above
  the depth of the selection tree: the emitted struct reads `j` successfully **iff** `conformsSelLoose`
  (mutual induction `accSel` / `accSels` over the selection tree; `ok_iff_accepts` at every field).
* `conforms_loose` — `conformsSel → conformsSelLoose`.
-/
set_option linter.unusedSimpArgs false

namespace GqlVerif
namespace C01
namespace E2E
open Serde Spec C13 C03 Codegen

/-! ## the loose specification (C03 side) -/

mutual
  /-- the value under a selected field's key -/
  def looseField (s : Schema) : Sel → Json → Bool
    | .field _ fid sub, v =>
      match s.fields[fid]? with
      | none => false
      | some sf =>
        match sf.ty.id with
        | .scalar k => (match s.scalars[k]? with
          | some n => accepts (scalarOk n) (gtyOf sf.ty.quals) v
          | none => false)
        | .enum k => (match s.enums[k]? with
          | some _ => accepts stringOk (gtyOf sf.ty.quals) v
          | none => false)
        | .object i => (match s.objects[i]? with
          | some _ => accepts (fun j => match j with
              | .obj kvs' => looseSels s sub kvs'
              | .arr xs => looseArr s sub xs
              | _ => false) (gtyOf sf.ty.quals) v
          | none => false)
        | _ => false
    | _, _ => true
  /-- an object: every selected field's key at most once; present with a conforming value, or absent
      at a nullable position; anything else (unknown keys, `__typename`) is unconstrained -/
  def looseSels (s : Schema) : List Sel → List (String × Json) → Bool
    | [], _ => true
    | .field a fid sub :: xs, kvs =>
      (match s.fields[fid]? with
       | none => false
       | some sf =>
         decide (countKey (a.getD sf.name) kvs ≤ 1) &&
         (match Json.lookup (a.getD sf.name) kvs with
          | none => nullableQ sf.ty.quals
          | some v => looseField s (.field a fid sub) v)) && looseSels s xs kvs
    | _ :: xs, kvs => looseSels s xs kvs
  /-- serde reads a struct from a JSON array positionally (`visit_seq`): one element per selected field,
      in selection order, surplus elements ignored -/
  def looseArr (s : Schema) : List Sel → List Json → Bool
    | [], _ => true
    | .field a fid sub :: xs, vs =>
      (match vs with
       | [] => false
       | v :: vs' => looseField s (.field a fid sub) v && looseArr s xs vs')
    | _ :: xs, vs => looseArr s xs vs
end

/-- what the generated `ResponseData` accepts -/
def conformsSelLoose (s : Schema) (sels : List Sel) : Json → Bool
  | .obj kvs => looseSels s sels kvs
  | .arr xs => looseArr s sels xs
  | _ => false


/-! ## what the theorems need of the environment -/

/-- how the scalar named `sn` is defined in `e`: the built-in aliases, or (custom scalar) an alias to an
    extern path that the consumer defines as `String` -/
def ScalarEnv (e : Env) (sn : String) : Prop :=
  if sn = "Int" then e.find "Int" = some (.alias "Int" false (.path "i64"))
  else if sn = "Float" then e.find "Float" = some (.alias "Float" false (.path "f64"))
  else if sn = "Boolean" then e.find "Boolean" = some (.alias "Boolean" false (.path "bool"))
  else if sn = "ID" then True
  else if sn = "String" then True
  else ∃ X, notPrim sn ∧ notPrim X ∧ e.find sn = some (.alias sn false (.path X)) ∧ e.find X = none ∧
    ∃ k, e.externs.find? (·.1 == X) = some (k, .path "String")

/-- the enum named `n` is a generated string enum with well-formed tables -/
def EnumEnv (e : Env) (n : String) : Prop :=
  notPrim n ∧ n ≠ "ID" ∧ ∃ n' d sp vs ser de, e.find n = some (.gqlEnum n' d sp vs ser de) ∧
    EnumSpec.tablesWf vs ser de = true

/-- the struct emitted for a selection set is what `name` resolves to -/
def StructEnv (e : Env) (name : String) (fields : List RField) : Prop :=
  notPrim name ∧ name ≠ "ID" ∧ ∃ n d cr, e.find name = some (.struct n d cr fields)

mutual
  def envSel (e : Env) (c : Ctx) (pfx : String) : Sel → Prop
    | .field a fid sub =>
      match c.s.fields[fid]? with
      | none => True
      | some sf =>
        match sf.ty.id with
        | .scalar k => (match c.s.scalars[k]? with | some sn => ScalarEnv e sn | none => True)
        | .enum k => (match c.s.enums[k]? with | some en => EnumEnv e en.name | none => True)
        | .object _ =>
          StructEnv e (pfx ++ c.cs.camel (a.getD sf.name)) (fieldsOf c (pfx ++ c.cs.camel (a.getD sf.name)) sub) ∧
          envSels e c (pfx ++ c.cs.camel (a.getD sf.name)) sub
        | _ => True
    | _ => True
  def envSels (e : Env) (c : Ctx) (pfx : String) : List Sel → Prop
    | [] => True
    | x :: xs => envSel e c pfx x ∧ envSels e c pfx xs
end

/-! ## facts about the emitted field -/

theorem fieldOf_wire (c : Ctx) (g ft : String) (quals : List Qual) (dep : Option (Option String)) :
    (fieldOf c g ft quals dep).wire = g := by
  simp only [RField.wire, fieldOf, fieldRename]
  by_cases h : g = keywordReplace (c.cs.snake g)
  · simp [← h]
  · simp [h]

theorem isOption_rustOfNN (ft : String) : ∀ t : GTy, isOption (rustOfNN (.path ft) t) = false
  | .named _ => by simp [rustOfNN, isOption]
  | .list _ => by simp [rustOfNN, isOption]
  | .nonNull t => by rw [rustOfNN]; exact isOption_rustOfNN ft t

theorem isOption_rustOf (ft : String) : ∀ quals, isOption (rustOf (.path ft) (gtyOf quals)) = nullableQ quals
  | [] => by simp [gtyOf, rustOf, isOption, nullableQ]
  | .list :: qs => by simp [gtyOf, rustOf, isOption, nullableQ]
  | .required :: qs => by
    simp only [gtyOf, rustOf, nullableQ]
    exact isOption_rustOfNN ft _

theorem skipQ_nullable {quals : List Qual} (h : skipQ quals = true) : nullableQ quals = true := by
  cases quals <;> simp_all [skipQ, nullableQ]

theorem deField_id (path : String → Json → D Val) (c : Ctx) (g : String) (quals : List Qual)
    (dep : Option (Option String)) (j : Json) :
    deFieldWith path (fieldOf c g "ID" quals dep) j =
      deHelper (C16.idHelperFor (gtyOf quals)) (rustOf (.path "ID") (gtyOf quals)) j := by
  simp [deFieldWith, fieldOf]

theorem deField_plain (path : String → Json → D Val) (c : Ctx) (g ft : String) (hft : ft ≠ "ID") (quals : List Qual)
    (dep : Option (Option String)) (j : Json) :
    deFieldWith path (fieldOf c g ft quals dep) j = deTyWith path (rustOf (.path ft) (gtyOf quals)) j := by
  simp [deFieldWith, fieldOf, hft]

theorem missing_fieldOf (c : Ctx) (g ft : String) (quals : List Qual) (dep : Option (Option String)) :
    okB (missingField (fieldOf c g ft quals dep)) = nullableQ quals := by
  unfold missingField
  by_cases hid : ft = "ID"
  · cases hq : nullableQ quals <;> simp [fieldOf, hid, hq, okB, bad, pure, Except.pure]
  · have : isOption (fieldOf c g ft quals dep).ty = nullableQ quals := isOption_rustOf _ _
    cases hq : nullableQ quals <;> simp [hq] at this <;> simp [fieldOf, hid, hq, okB, bad, pure, Except.pure] <;>
      simp [fieldOf] at this <;> simp [this, okB]

/-- the own-field loop, exact acceptance (duplicates of keys that are no field's are harmless) -/
theorem okB_deOwn' (path : String → Json → D Val) (kvs : List (String × Json)) :
    ∀ (fields : List RField), plain fields = true →
      okB (deOwnWith path fields kvs) =
        fields.all (fun f => decide (countKey f.wire kvs ≤ 1) && okB (readField path f kvs))
  | [], _ => rfl
  | f :: fs, hp => by
    obtain ⟨hf, hp'⟩ := plain_cons hp
    have ih := okB_deOwn' path kvs fs hp'
    rw [List.all_cons, ← ih]
    by_cases hc : countKey f.wire kvs ≤ 1
    · rw [deOwn_cons path f fs kvs hf hc]
      cases deOwnWith path fs kvs <;> cases readField path f kvs <;>
        simp [okB, bind, Except.bind, pure, Except.pure, hc]
    · have hc' : countKey f.wire kvs > 1 := by omega
      simp only [deOwnWith, hf, Bool.false_eq_true, ↓reduceIte, hc']
      cases deOwnWith path fs kvs <;> simp [okB, bind, Except.bind, bad, hc]


/-! ## leaves -/

theorem dePath_custom (e : Env) (b : Bool) (fd : Nat) (sn X k : String) (hp : notPrim sn) (hX : notPrim X)
    (h1 : e.find sn = some (.alias sn false (.path X))) (h2 : e.find X = none)
    (h3 : e.externs.find? (·.1 == X) = some (k, .path "String")) (j : Json) :
    dePath e b (fd + 3) sn j = dePath e b (fd + 1) "String" j := by
  rw [dePath]; simp only [dePrim_none hp, h1, deTyWith]
  rw [dePath]; simp only [dePrim_none hX, h2, h3, deTyWith]

theorem scalarOk_other {sn : String} (h1 : sn ≠ "Int") (h2 : sn ≠ "Float") (h3 : sn ≠ "Boolean") (h4 : sn ≠ "ID") :
    scalarOk sn = stringOk := by
  simp [scalarOk, h1, h2, h3, h4]

/-- a scalar leaf other than `ID` accepts exactly the values of its kind -/
theorem leaf_scalar (e : Env) (sn : String) (he : ScalarEnv e sn) (hid : sn ≠ "ID") (b : Bool) (fd : Nat) (j : Json) :
    okB (dePath e b (fd + 3) sn j) = scalarOk sn j := by
  unfold ScalarEnv at he
  by_cases h1 : sn = "Int"
  · subst h1; simp only [↓reduceIte] at he
    rw [leaf_int e b (fd + 1) he]; simp [scalarOk]
  by_cases h2 : sn = "Float"
  · subst h2; simp only [h1, ↓reduceIte] at he
    rw [leaf_float e b (fd + 1) he]; simp [scalarOk]
  by_cases h3 : sn = "Boolean"
  · subst h3; simp only [h1, h2, ↓reduceIte] at he
    rw [leaf_boolean e b (fd + 1) he]; simp [scalarOk]
  by_cases h5 : sn = "String"
  · subst h5
    rw [leaf_string e b (fd + 2)]; simp [scalarOk]
  simp only [h1, h2, h3, hid, h5, ↓reduceIte] at he
  obtain ⟨X, hp, hX, hf1, hf2, k, hf3⟩ := he
  rw [dePath_custom e b fd sn X k hp hX hf1 hf2 hf3, leaf_string e b fd, scalarOk_other h1 h2 h3 hid]

/-- … and writes back what it read -/
theorem leaf_scalar_rt (e : Env) (sn : String) (he : ScalarEnv e sn) (hid : sn ≠ "ID") (b : Bool) (fd fs : Nat)
    (j : Json) (v : Val) (h : dePath e b (fd + 3) sn j = .ok v) : serPath e (fs + 1) sn v = .ok j := by
  unfold ScalarEnv at he
  by_cases h1 : sn = "Int"
  · subst h1; simp only [↓reduceIte] at he
    exact leaf_int_rt e b (fd + 1) fs he j v h
  by_cases h2 : sn = "Float"
  · subst h2; simp only [h1, ↓reduceIte] at he
    exact leaf_float_rt e b (fd + 1) fs he j v h
  by_cases h3 : sn = "Boolean"
  · subst h3; simp only [h1, h2, ↓reduceIte] at he
    exact leaf_boolean_rt e b (fd + 1) fs he j v h
  by_cases h5 : sn = "String"
  · subst h5
    exact leaf_string_rt e b (fd + 2) fs j v h
  simp only [h1, h2, h3, hid, h5, ↓reduceIte] at he
  obtain ⟨X, hp, hX, hf1, hf2, k, hf3⟩ := he
  rw [dePath_custom e b fd sn X k hp hX hf1 hf2 hf3] at h
  rw [dePath] at h
  cases j <;> simp [dePrim, bad, pure, Except.pure] at h
  subst h
  exact serPath_prim e fs _ _ _ rfl


/-! ## acceptance, exactly (Theorems 2 and 4) -/

theorem plain_fieldsOf (c : Ctx) (pfx : String) : ∀ sels, plain (fieldsOf c pfx sels) = true
  | [] => rfl
  | x :: xs => by
    have ih := plain_fieldsOf c pfx xs
    unfold fieldsOf at ih ⊢
    rw [List.filterMap_cons]
    cases hx : fieldOfSel c pfx x with
    | none => exact ih
    | some f =>
      simp only [plain, List.all_cons, Bool.and_eq_true] at ih ⊢
      refine ⟨?_, ih⟩
      cases x with
      | field a fid sub =>
        simp only [fieldOfSel] at hx
        split at hx
        · cases hx
        · split at hx
          · cases hx
          · cases hx; rfl
      | spread g => cases hx
      | inline t sub => cases hx
      | typename => cases hx

section Acc
variable (e : Env) (c : Ctx)

def AccSel (pfx : String) (x : Sel) : Prop :=
  treeSel c.s c.o x = true → envSel e c pfx x → ∀ f, fieldOfSel c pfx x = some f →
    ∀ b fd, selDepth x + 2 ≤ fd → ∀ v, okB (deFieldWith (dePath e b fd) f v) = looseField c.s x v

def AccSels (pfx : String) (sels : List Sel) : Prop :=
  treeSels c.s c.o sels = true → envSels e c pfx sels → ∀ b fd, selsDepth sels + 2 ≤ fd →
    (∀ kvs, (fieldsOf c pfx sels).all (fun f => decide (countKey f.wire kvs ≤ 1) &&
        okB (readField (dePath e b fd) f kvs)) = looseSels c.s sels kvs) ∧
    (∀ xs, (decide ((fieldsOf c pfx sels).length ≤ xs.length) &&
        ((fieldsOf c pfx sels).zip xs).all (fun p => okB (deFieldWith (dePath e b fd) p.1 p.2))) =
          looseArr c.s sels xs)

/-- the struct of a selection set accepts exactly `conformsSelLoose` -/
theorem accStruct (pfx name : String) (sels : List Sel) (H : AccSels e c pfx sels)
    (ht : treeSels c.s c.o sels = true) (henv : envSels e c pfx sels)
    (hs : StructEnv e name (fieldsOf c pfx sels)) (b : Bool) (fd : Nat) (hfd : selsDepth sels + 3 ≤ fd) (j : Json) :
    okB (dePath e b fd name j) = conformsSelLoose c.s sels j := by
  obtain ⟨hp, _, n, d, cr, hfind⟩ := hs
  obtain ⟨fd', rfl⟩ : ∃ k, fd = k + 1 := ⟨fd - 1, by omega⟩
  obtain ⟨H1, H2⟩ := H ht henv b fd' (by omega)
  rw [dePath_struct e b fd' name n d cr _ hp hfind]
  have hpl := plain_fieldsOf c pfx sels
  cases j with
  | obj kvs =>
    rw [deStruct_obj, deStructMap_plain _ _ _ _ hpl, okB_map, okB_deOwn' _ _ _ hpl, H1]; rfl
  | arr xs =>
    simp only [deStructWith, any_flatten_of_plain hpl, Bool.false_eq_true, ↓reduceIte, conformsSelLoose]
    rw [← H2 xs]
    by_cases hlen : xs.length < (fieldsOf c pfx sels).length
    · have : ¬ ((fieldsOf c pfx sels).length ≤ xs.length) := by omega
      simp [hlen, this, okB, bad]
    · have : (fieldsOf c pfx sels).length ≤ xs.length := by omega
      simp only [hlen, ↓reduceIte, okB_map, okB_mapM, this, decide_true, Bool.true_and]
      congr 1; funext p
      cases deFieldWith (dePath e b fd') p.1 p.2 <;> rfl
  | null => rfl
  | bool _ => rfl
  | int _ => rfl
  | num _ => rfl
  | str _ => rfl

end Acc


theorem fieldOfSel_tree (c : Ctx) (pfx : String) (a : Option String) (fid : Nat) (sub : List Sel)
    (ht : treeSel c.s c.o (.field a fid sub) = true) :
    ∃ sf ft, c.s.fields[fid]? = some sf ∧ leafName c pfx (a.getD sf.name) sf.ty.id = some ft ∧
      fieldOfSel c pfx (.field a fid sub) = some (fieldOf c (a.getD sf.name) ft sf.ty.quals sf.deprecation) ∧
      wfQuals sf.ty.quals = true := by
  rw [treeSel] at ht
  cases hsf : c.s.fields[fid]? with
  | none => simp [hsf] at ht
  | some sf =>
    simp only [hsf, Bool.and_eq_true] at ht
    obtain ⟨⟨hw, _⟩, hty⟩ := ht
    cases hid : sf.ty.id with
    | scalar k =>
      simp only [hid, Bool.and_eq_true] at hty
      cases hk : c.s.scalars[k]? with
      | none => simp [hk] at hty
      | some sn => exact ⟨sf, sn, rfl, by simp [leafName, hid, hk], by simp [fieldOfSel, hsf, leafName, hid, hk], hw⟩
    | enum k =>
      simp only [hid, Bool.and_eq_true] at hty
      cases hk : c.s.enums[k]? with
      | none => simp [hk] at hty
      | some en => exact ⟨sf, en.name, rfl, by simp [leafName, hid, hk], by simp [fieldOfSel, hsf, leafName, hid, hk], hw⟩
    | object i => exact ⟨sf, pfx ++ c.cs.camel (a.getD sf.name), rfl, by simp [leafName, hid], by simp [fieldOfSel, hsf, leafName, hid], hw⟩
    | interface k => simp [hid] at hty
    | union k => simp [hid] at hty
    | input k => simp [hid] at hty

theorem looseLambda (s : Schema) (sub : List Sel) :
    (fun j => match j with
      | Json.obj kvs' => looseSels s sub kvs'
      | Json.arr xs => looseArr s sub xs
      | _ => false) = conformsSelLoose s sub := by
  funext j; cases j <;> rfl

section Acc2
variable (e : Env) (c : Ctx)

mutual
  theorem accSel : ∀ (x : Sel) (pfx : String), AccSel e c pfx x
    | .field a fid sub, pfx => by
      intro ht henv f hf b fd hfd v
      have IH := accSels sub
      rw [selDepth] at hfd
      obtain ⟨fd', rfl⟩ : ∃ k, fd = k + 3 := ⟨fd - 3, by omega⟩
      rw [treeSel] at ht
      rw [envSel] at henv
      rw [looseField]
      cases hsf : c.s.fields[fid]? with
      | none => simp [hsf] at ht
      | some sf =>
        simp only [hsf, Bool.and_eq_true] at ht henv ⊢
        obtain ⟨⟨hw, _⟩, hty⟩ := ht
        have hwf : wf (gtyOf sf.ty.quals) = true := by rw [wf_gtyOf]; exact hw
        cases hid : sf.ty.id with
        | scalar k =>
          simp only [hid, Bool.and_eq_true] at hty henv ⊢
          cases hk : c.s.scalars[k]? with
          | none => simp [hk] at hty
          | some sn =>
            simp only [hk] at henv ⊢
            simp only [fieldOfSel, hsf, leafName, hid, hk, Option.some.injEq] at hf
            subst hf
            by_cases hID : sn = "ID"
            · subst hID
              rw [deField_id, C16.id_field_iff _ hwf]
              simp [scalarOk]
            · rw [deField_plain _ _ _ _ hID]
              exact (ok_iff_accepts _ sn (scalarOk sn) (leaf_scalar e sn henv hID b fd') _ hwf).2 v
        | enum k =>
          simp only [hid, Bool.and_eq_true] at hty henv ⊢
          cases hk : c.s.enums[k]? with
          | none => simp [hk] at hty
          | some en =>
            simp only [hk] at henv ⊢
            simp only [fieldOfSel, hsf, leafName, hid, hk, Option.some.injEq, Option.map_some] at hf
            subst hf
            obtain ⟨hp, hID, n', d, sp, vs, ser, de, hfind, _⟩ := henv
            rw [deField_plain _ _ _ _ hID]
            exact (ok_iff_accepts _ en.name stringOk
              (leaf_enum e b (fd' + 2) en.name n' d sp vs ser de hp hfind) _ hwf).2 v
        | object i =>
          simp only [hid, Bool.and_eq_true] at hty henv ⊢
          cases hk : c.s.objects[i]? with
          | none => simp [hk] at hty
          | some o =>
            simp only [hk]
            simp only [fieldOfSel, hsf, leafName, hid, Option.some.injEq] at hf
            subst hf
            obtain ⟨hs, hesub⟩ := henv
            rw [deField_plain _ _ _ _ hs.2.1, looseLambda]
            exact (ok_iff_accepts _ _ (conformsSelLoose c.s sub)
              (accStruct e c _ _ sub (IH _) hty.1.2 hesub hs b (fd' + 3) (by omega)) _ hwf).2 v
        | interface k => simp [hid] at hty
        | union k => simp [hid] at hty
        | input k => simp [hid] at hty
    | .spread g, pfx => by intro ht; simp [treeSel] at ht
    | .inline t sub, pfx => by intro ht; simp [treeSel] at ht
    | .typename, pfx => by intro _ _ f hf; cases hf
  theorem accSels : ∀ (sels : List Sel) (pfx : String), AccSels e c pfx sels
    | [], pfx => by
      intro _ _ b fd _
      exact ⟨fun kvs => by simp [fieldsOf, looseSels], fun xs => by simp [fieldsOf, looseArr]⟩
    | x :: xs, pfx => by
      intro ht henv b fd hfd
      obtain ⟨hx, hxs⟩ := treeSels_cons ht
      rw [envSels] at henv
      rw [selsDepth] at hfd
      obtain ⟨I1, I2⟩ := accSels xs pfx hxs henv.2 b fd (by omega)
      have IX := accSel x pfx hx henv.1
      cases x with
      | field a fid sub =>
        obtain ⟨sf, ft, hsf, _, hf, hw⟩ := fieldOfSel_tree c pfx a fid sub hx
        have IXf := IX _ hf b fd (by omega)
        have hfs : fieldsOf c pfx (.field a fid sub :: xs) =
            fieldOf c (a.getD sf.name) ft sf.ty.quals sf.deprecation :: fieldsOf c pfx xs := by
          simp [fieldsOf, hf]
        refine ⟨fun kvs => ?_, fun vs => ?_⟩
        · rw [hfs, List.all_cons, I1 kvs, looseSels.eq_2]
          simp only [hsf, fieldOf_wire, readField]
          cases hl : Json.lookup (a.getD sf.name) kvs with
          | none => simp only [missing_fieldOf]
          | some v => simp only [IXf v]
        · rw [hfs]
          cases vs with
          | nil => rw [looseArr.eq_2]; simp
          | cons v vs' =>
            rw [looseArr.eq_3]
            simp only [List.length_cons, List.zip_cons_cons, List.all_cons, IXf v, ← I2 vs',
              Nat.add_le_add_iff_right]
            cases looseField c.s (.field a fid sub) v <;> simp
      | spread g => simp [treeSel] at hx
      | inline t sub => simp [treeSel] at hx
      | typename =>
        have hfs : fieldsOf c pfx (.typename :: xs) = fieldsOf c pfx xs := by
          have h1 : fieldOfSel c pfx .typename = none := rfl
          simp [fieldsOf, h1]
        refine ⟨fun kvs => ?_, fun vs => ?_⟩
        · rw [hfs, I1 kvs]; simp [looseSels]
        · rw [hfs, I2 vs]; simp [looseArr]
end

end Acc2


/-- the struct named `name` emitted for the selection set `sels` accepts exactly `conformsSelLoose` -/
theorem struct_accepts_iff (e : Env) (c : Ctx) (pfx name : String) (sels : List Sel)
    (ht : treeSels c.s c.o sels = true) (henv : envSels e c pfx sels)
    (hs : StructEnv e name (fieldsOf c pfx sels)) (b : Bool) (fd : Nat) (hfd : selsDepth sels + 3 ≤ fd) (j : Json) :
    okB (dePath e b fd name j) = conformsSelLoose c.s sels j :=
  accStruct e c pfx name sels (accSels e c sels pfx) ht henv hs b fd hfd j

/-! ## strict ⇒ loose -/

/-- the value under a selected field's key, strict reading (the `accepts …` expression of `confSel`) -/
def strictField (s : Schema) : Sel → Json → Bool
  | .field _ fid sub, v =>
    match s.fields[fid]? with
    | none => false
    | some sf =>
      match sf.ty.id with
      | .scalar k => (match s.scalars[k]? with
        | some n => accepts (scalarOk n) (gtyOf sf.ty.quals) v
        | none => false)
      | .enum k => (match s.enums[k]? with
        | some _ => accepts stringOk (gtyOf sf.ty.quals) v
        | none => false)
      | .object i => (match s.objects[i]? with
        | some o => accepts (conformsSel s o.name sub) (gtyOf sf.ty.quals) v
        | none => false)
      | _ => false
  | _, _ => false

theorem strictLambda (s : Schema) (tn : String) (sub : List Sel) :
    (fun j => match j with
      | Json.obj kvs' => EnumSpec.nodup (kvs'.map (·.1)) && kvs'.all (fun kv => (respKeys s sub).contains kv.1) &&
          confSels s tn sub kvs'
      | _ => false) = conformsSel s tn sub := by
  funext j; cases j <;> rfl

theorem confSel_field (s : Schema) (tn : String) (a : Option String) (fid : Nat) (sub : List Sel)
    (kvs : List (String × Json)) :
    confSel s tn (.field a fid sub) kvs =
      (match s.fields[fid]? with
       | none => false
       | some sf =>
         match Json.lookup (a.getD sf.name) kvs with
         | none => false
         | some v => strictField s (.field a fid sub) v) := by
  rw [confSel]
  cases hsf : s.fields[fid]? with
  | none => rfl
  | some sf =>
    simp only []
    cases Json.lookup (a.getD sf.name) kvs with
    | none => rfl
    | some v =>
      simp only [strictField, hsf]
      cases hid : sf.ty.id <;> simp only [] <;> rfl

theorem confSels_mem {s : Schema} {tn : String} {kvs : List (String × Json)} :
    ∀ {sels : List Sel}, confSels s tn sels kvs = true → ∀ x ∈ sels, confSel s tn x kvs = true
  | [], _, _, hx => by simp at hx
  | y :: ys, h, x, hx => by
    rw [confSels, Bool.and_eq_true] at h
    rcases List.mem_cons.mp hx with rfl | hx'
    · exact h.1
    · exact confSels_mem h.2 x hx'


mutual
  theorem strict_loose_field (s : Schema) : ∀ (x : Sel) (v : Json), strictField s x v = true → looseField s x v = true
    | .field a fid sub, v => by
      intro h
      have IH := strict_loose_sels s sub
      simp only [strictField] at h
      rw [looseField]
      cases hsf : s.fields[fid]? with
      | none => simp [hsf] at h
      | some sf =>
        simp only [hsf] at h ⊢
        cases hid : sf.ty.id <;> simp only [hid] at h ⊢ <;> try exact h
        rename_i i
        cases ho : s.objects[i]? with
        | none => simp [ho] at h
        | some o =>
          simp only [ho] at h ⊢
          rw [looseLambda]
          refine (accepts_mono _ _ ?_ _).2 v h
          intro j hj
          cases j with
          | obj kvs =>
            simp only [conformsSel, Bool.and_eq_true] at hj
            exact IH o.name kvs (countKey_le_one_of_nodup (nodup_iff'.mp hj.1.1)) hj.2
          | null => simp [conformsSel] at hj
          | bool _ => simp [conformsSel] at hj
          | int _ => simp [conformsSel] at hj
          | num _ => simp [conformsSel] at hj
          | str _ => simp [conformsSel] at hj
          | arr _ => simp [conformsSel] at hj
    | .spread _, _ => by intro h; simp [strictField] at h
    | .inline _ _, _ => by intro h; simp [strictField] at h
    | .typename, _ => by intro h; simp [strictField] at h
  theorem strict_loose_sels (s : Schema) : ∀ (sels : List Sel) (tn : String) (kvs : List (String × Json)),
      (∀ k, countKey k kvs ≤ 1) → confSels s tn sels kvs = true → looseSels s sels kvs = true
    | [], _, _, _, _ => by simp [looseSels]
    | x :: xs, tn, kvs, hc, h => by
      rw [confSels, Bool.and_eq_true] at h
      have ih := strict_loose_sels s xs tn kvs hc h.2
      cases x with
      | field a fid sub =>
        have hx := h.1
        rw [confSel_field] at hx
        rw [looseSels.eq_2, ih, Bool.and_true]
        cases hsf : s.fields[fid]? with
        | none => simp [hsf] at hx
        | some sf =>
          simp only [hsf] at hx ⊢
          cases hl : Json.lookup (a.getD sf.name) kvs with
          | none => simp [hl] at hx
          | some v =>
            simp only [hl] at hx ⊢
            simp [hc, strict_loose_field s _ v hx]
      | spread g => simpa [looseSels] using ih
      | inline t sub => simpa [looseSels] using ih
      | typename => simpa [looseSels] using ih
end

/-- every conforming response is loosely conforming -/
theorem conforms_loose (s : Schema) (tn : String) (sels : List Sel) (j : Json)
    (h : conformsSel s tn sels j = true) : conformsSelLoose s sels j = true := by
  cases j with
  | obj kvs =>
    simp only [conformsSel, Bool.and_eq_true] at h
    exact strict_loose_sels s sels tn kvs (countKey_le_one_of_nodup (nodup_iff'.mp h.1.1)) h.2
  | null => simp [conformsSel] at h
  | bool _ => simp [conformsSel] at h
  | int _ => simp [conformsSel] at h
  | num _ => simp [conformsSel] at h
  | str _ => simp [conformsSel] at h
  | arr _ => simp [conformsSel] at h

end E2E
end C01
end GqlVerif
