import GqlVerif.Proofs.C01MixedG
/-!
# C01 end to end: fragment bodies that themselves contain spreads (`NestedOp`), part A: class, closed form

`MixedOp` (C01MixedA..G) allows spreads at object positions and at abstract positions of one operation, but the body of a
fragment spread at an object position is spread-free (`fragOk`).  `NestedOp` lifts that restriction at object positions:

* `nSel ok …` / `nSels ok …` / `nBody ok …` — the object-level selection sets of `MixedOp`, **parametric in the predicate
  `ok parent g`** "the fragment `g` may be spread into a selection set on `parent`" (`mSel = nSel fragOk`: `nSel_fragOk`);
* `fragOkN s q o r parent g` — **rank-indexed**: rank `0` is `fragOk` (spread-free body); rank `r + 1` adds the fragments on
  `parent` (not named `ID`, not flagged recursive by the generator: no `Box`) whose body is again an `nBody` selection set
  **over the fragments of rank `r`**: fields, `__typename`, SPREADS OF FURTHER FRAGMENTS ON THE SAME TYPE AT THE TOP LEVEL OF
  THE FRAGMENT'S OWN BODY, object-typed fields with such bodies (a lone spread: a type alias), fields of scalar / enum /
  interface / union type as in `VariantSpreadOp`; the fragment's own body is not a lone spread (it is a struct).  The rank makes the spread graph acyclic by construction;
* `NestedOp c op` (decidable): the root selection set is an `nBody` over the fragments of rank `c.q.fragments.length`.

Proved here:

* **`nested_items_shape`** — `responseItems c op = .ok (bodyItemsM …)`: the closed form is the one of `MixedOp` (`bodyItemsM`
  never looks into a fragment body: a spread is one `#[serde(flatten)]` member / one type alias, whatever the body);
* **`nested_fragment_shape`** — the items of a spread fragment of any rank:
  `fragmentItems c g = .ok (bodyItemsM c f.name (camel f.name) f.sels)` — the fragment struct has one flattened member per
  spread of its own body (rank `0`: the `structItemsV` of `fragment_struct_shape`, `bodyItemsM_eq_V`);
* **`nestedOp_of_mixedOp`** — `MixedOp ⊆ NestedOp`;
* instances (part W, `decide +kernel`): `fragment Inner on Dog { barks }  fragment Outer on Dog { name ...Inner }
  query Q { dog { ...Outer } animal { __typename ...AnimalName } }` is in `NestedOp`, not in `MixedOp` / `MixedOp2`; the
  emitted module has `struct Outer { name, #[serde(flatten)] Inner }`; concrete round trips on the module.

Parts: A class / closed form, B serde (acceptance of structs whose flattened members have flattened members), C exact
acceptance (parametric), D rank recursion + `top_accepts_iffN`, K acyclicity from the class, E the emitted module +
`nested_precise_iff`, F specification + `nested_accepts`, G serde (values), H losslessness (parametric), I rank recursion +
`nested_lossless` / `nested_roundtrip`, J agreement with `C01Mixed*` on `MixedOp`, L side conditions on `MixedOp`,
W instances and necessity witnesses.

Not covered (still "Partial"): a spread of a fragment whose body contains spreads **at an abstract position** (`sSel`: the
fields of interface / union type are those of `VariantSpreadOp`, their fragments spread-free), and a fragment whose whole
body is a single spread (a type-alias fragment) being spread.
-/
set_option linter.unusedSimpArgs false
set_option linter.unusedVariables false
set_option linter.unusedSectionVars false

namespace GqlVerif
namespace C01N
open Serde Spec C13 C03 Codegen C01 C01.E2E C01M

/-! ## the class -/

mutual
  /-- one selection of an object-level selection set on `parent`; `ok parent g`: the fragment `g` may be spread here -/
  def nSel (ok : TypeId → Nat → Bool) (s : Schema) (q : Query) (o : Options) (parent : TypeId) : Sel → Bool
    | .field a fid sub =>
      match s.fields[fid]? with
      | none => false
      | some sf =>
        match sf.ty.id with
        | .object i =>
          wfQuals sf.ty.quals && !(sf.deprecation.isSome && o.deprecation == .deny) && (s.objects[i]?).isSome &&
            (match sub with
             | [.spread g] => ok (.object i) g
             | _ => nSels ok s q o (.object i) sub)
        | _ => sSel s q o false (.field a fid sub)
    | .typename => true
    | .spread g => ok parent g
    | .inline _ _ => false
  def nSels (ok : TypeId → Nat → Bool) (s : Schema) (q : Query) (o : Options) (parent : TypeId) : List Sel → Bool
    | [] => true
    | x :: xs => nSel ok s q o parent x && nSels ok s q o parent xs
end

/-- the body of an object-level selection set: a lone spread (type alias) or a selection set of the class -/
def nBody (ok : TypeId → Nat → Bool) (s : Schema) (q : Query) (o : Options) (parent : TypeId) (sels : List Sel) : Bool :=
  match sels with
  | [.spread g] => ok parent g
  | _ => nSels ok s q o parent sels

/-- a selection set that consists of a single spread (emitted as a type alias) -/
def isLone : List Sel → Bool
  | [.spread _] => true
  | _ => false

theorem not_lone_of_isLone {sels : List Sel} (h : isLone sels = false) : ∀ g, sels ≠ [Sel.spread g] := by
  intro g hg; rw [hg] at h; simp [isLone] at h

/-- the fragment `g` is on `parent`, not named `ID`, not flagged recursive (no `Box`), and its body is an object-level
    selection set whose spreads satisfy `ok` — not a lone spread (the fragment would be a type alias, not a struct) -/
def fragNew (ok : TypeId → Nat → Bool) (s : Schema) (q : Query) (o : Options) (parent : TypeId) (g : Nat) : Bool :=
  match q.fragments[g]? with
  | some f => f.on == parent && f.name != "ID" && !fragmentIsRecursive q g && !isLone f.sels &&
      nSels ok s q o f.on f.sels
  | none => false

/-- **fragments that may be spread at an object position, by rank**: rank `0` — spread-free body (`fragOk`); rank `r + 1` —
    also the fragments whose body spreads fragments of rank `r` (at its own top level, or below object-typed fields) -/
def fragOkN (s : Schema) (q : Query) (o : Options) : Nat → TypeId → Nat → Bool
  | 0, p, g => fragOk s q o p g
  | r + 1, p, g => fragOkN s q o r p g || fragNew (fragOkN s q o r) s q o p g

/-- **the class `NestedOp`** (decidable): as `MixedOp`, but the body of a fragment spread at an object position may again
    spread fragments on the same type (to any depth: the rank is bounded by the number of fragments of the document) -/
def NestedOp (c : Ctx) (op : ROperation) : Bool :=
  c.o.normalization == .none && (c.s.objects[op.objectId]?).isSome &&
  nBody (fragOkN c.s c.q c.o c.q.fragments.length) c.s c.q c.o (.object op.objectId) op.sels

/-- the sub-class with exactly one level of nesting: a fragment body may spread spread-free fragments -/
def NestedOp1 (c : Ctx) (op : ROperation) : Bool :=
  c.o.normalization == .none && (c.s.objects[op.objectId]?).isSome &&
  nBody (fragOkN c.s c.q c.o 1) c.s c.q c.o (.object op.objectId) op.sels

/-! ## basic facts -/

section Basic
variable {ok : TypeId → Nat → Bool} {s : Schema} {q : Query} {o : Options}

theorem nSels_cons {p : TypeId} {x : Sel} {xs : List Sel}
    (h : nSels ok s q o p (x :: xs) = true) : nSel ok s q o p x = true ∧ nSels ok s q o p xs = true := by
  simpa [nSels] using h

theorem nSels_mem {p : TypeId} : ∀ {sels : List Sel}, nSels ok s q o p sels = true →
    ∀ x ∈ sels, nSel ok s q o p x = true
  | [], _, _, hx => by simp at hx
  | y :: ys, h, x, hx => by
    obtain ⟨h1, h2⟩ := nSels_cons h
    rcases List.mem_cons.mp hx with rfl | hx'
    · exact h1
    · exact nSels_mem h2 x hx'

theorem nBody_not_lone {p : TypeId} {sels : List Sel}
    (h : ∀ g, sels ≠ [Sel.spread g]) : nBody ok s q o p sels = nSels ok s q o p sels := by
  unfold nBody
  split
  · rename_i g; exact absurd rfl (h g)
  · rfl

theorem nBody_lone {p : TypeId} {g : Nat} : nBody ok s q o p [Sel.spread g] = ok p g := rfl

/-- an object-typed field of the class -/
theorem nSel_obj {p : TypeId} {a : Option String} {fid : Nat} {sub : List Sel}
    {sf : StoredField} {i : Nat} (hsf : s.fields[fid]? = some sf) (hid : sf.ty.id = .object i)
    (h : nSel ok s q o p (.field a fid sub) = true) :
    wfQuals sf.ty.quals = true ∧ (sf.deprecation.isSome && o.deprecation == .deny) = false ∧
      (s.objects[i]?).isSome = true ∧ nBody ok s q o (.object i) sub = true := by
  rw [nSel] at h
  simp only [hsf, hid, Bool.and_eq_true] at h
  obtain ⟨⟨⟨hw, hdep⟩, hobj⟩, hb⟩ := h
  refine ⟨hw, ?_, hobj, hb⟩
  cases hd : (sf.deprecation.isSome && o.deprecation == .deny) with
  | false => rfl
  | true => simp [hd] at hdep

/-- a field of the class that is not object-typed is a field of `VariantSpreadOp` -/
theorem nSel_nonobj {p : TypeId} {a : Option String} {fid : Nat} {sub : List Sel}
    {sf : StoredField} (hsf : s.fields[fid]? = some sf) (hno : ∀ i, sf.ty.id ≠ .object i)
    (h : nSel ok s q o p (.field a fid sub) = true) : sSel s q o false (.field a fid sub) = true := by
  rw [nSel] at h
  simp only [hsf] at h
  cases hid : sf.ty.id with
  | object i => exact absurd hid (hno i)
  | scalar k => simpa [hid] using h
  | «enum» k => simpa [hid] using h
  | interface k => simpa [hid] using h
  | union k => simpa [hid] using h
  | input k => simpa [hid] using h

theorem nSel_field_some {p : TypeId} {a : Option String} {fid : Nat} {sub : List Sel}
    (h : nSel ok s q o p (.field a fid sub) = true) : ∃ sf, s.fields[fid]? = some sf := by
  rw [nSel] at h
  cases hsf : s.fields[fid]? with
  | none => simp [hsf] at h
  | some sf => exact ⟨sf, rfl⟩

end Basic

/-! ## the class is monotone in `ok`; `mSel = nSel fragOk` -/

mutual
  theorem nSel_mono {ok ok' : TypeId → Nat → Bool} (hle : ∀ p g, ok p g = true → ok' p g = true) (s : Schema) (q : Query)
      (o : Options) : ∀ (x : Sel) (p : TypeId), nSel ok s q o p x = true → nSel ok' s q o p x = true
    | .field a fid sub, p => by
      intro h
      have IH := nSels_mono hle s q o sub
      cases hsf : s.fields[fid]? with
      | none => rw [nSel] at h; simp [hsf] at h
      | some sf =>
        rw [nSel] at h ⊢
        simp only [hsf] at h ⊢
        cases hid : sf.ty.id with
        | object i =>
          simp only [hid, Bool.and_eq_true] at h ⊢
          refine ⟨h.1, ?_⟩
          have hb := h.2
          by_cases hsp : ∃ g, sub = [Sel.spread g]
          · obtain ⟨g, rfl⟩ := hsp; exact hle _ _ hb
          · have hnl : ∀ g, sub ≠ [Sel.spread g] := fun g hg => hsp ⟨g, hg⟩
            have hb' : nSels ok s q o (.object i) sub = true := by
              revert hb; split
              · exact fun _ => absurd rfl (hnl _)
              · exact id
            split
            · exact absurd rfl (hnl _)
            · exact IH _ hb'
        | scalar k => simpa only [hid] using h
        | «enum» k => simpa only [hid] using h
        | interface k => simpa only [hid] using h
        | union k => simpa only [hid] using h
        | input k => simpa only [hid] using h
    | .spread g, p => by
      intro h
      rw [nSel] at h ⊢
      exact hle _ _ h
    | .inline _ _, _ => by intro h; simp [nSel] at h
    | .typename, _ => by intro _; simp [nSel]
  theorem nSels_mono {ok ok' : TypeId → Nat → Bool} (hle : ∀ p g, ok p g = true → ok' p g = true) (s : Schema) (q : Query)
      (o : Options) : ∀ (sels : List Sel) (p : TypeId), nSels ok s q o p sels = true → nSels ok' s q o p sels = true
    | [], _ => by intro _; rfl
    | x :: xs, p => by
      intro h
      obtain ⟨hx, hxs⟩ := nSels_cons h
      rw [nSels, nSel_mono hle s q o x p hx, nSels_mono hle s q o xs p hxs]; rfl
end

theorem nBody_mono {ok ok' : TypeId → Nat → Bool} (hle : ∀ p g, ok p g = true → ok' p g = true) {s : Schema} {q : Query}
    {o : Options} {p : TypeId} {sels : List Sel} (h : nBody ok s q o p sels = true) : nBody ok' s q o p sels = true := by
  by_cases hsp : ∃ g, sels = [Sel.spread g]
  · obtain ⟨g, rfl⟩ := hsp; exact hle _ _ h
  · have hnl : ∀ g, sels ≠ [Sel.spread g] := fun g hg => hsp ⟨g, hg⟩
    rw [nBody_not_lone hnl] at h ⊢
    exact nSels_mono hle s q o sels p h

mutual
  theorem nSel_fragOk (s : Schema) (q : Query) (o : Options) : ∀ (x : Sel) (p : TypeId),
      nSel (fragOk s q o) s q o p x = mSel s q o p x
    | .field a fid sub, p => by
      have IH := nSels_fragOk s q o sub
      rw [nSel, mSel]
      cases hsf : s.fields[fid]? with
      | none => rfl
      | some sf =>
        simp only []
        cases hid : sf.ty.id with
        | object i =>
          simp only []
          congr 1
          by_cases hsp : ∃ g, sub = [Sel.spread g]
          · obtain ⟨g, rfl⟩ := hsp; rfl
          · have hnl : ∀ g, sub ≠ [Sel.spread g] := fun g hg => hsp ⟨g, hg⟩
            split
            · exact absurd rfl (hnl _)
            · split
              · exact absurd rfl (hnl _)
              · exact IH _
        | scalar k => rfl
        | «enum» k => rfl
        | interface k => rfl
        | union k => rfl
        | input k => rfl
    | .spread g, p => by rw [nSel, mSel]
    | .inline _ _, _ => by rw [nSel, mSel]
    | .typename, _ => by rw [nSel, mSel]
  theorem nSels_fragOk (s : Schema) (q : Query) (o : Options) : ∀ (sels : List Sel) (p : TypeId),
      nSels (fragOk s q o) s q o p sels = mSels s q o p sels
    | [], _ => rfl
    | x :: xs, p => by rw [nSels, mSels, nSel_fragOk s q o x p, nSels_fragOk s q o xs p]
end

theorem nBody_fragOk (s : Schema) (q : Query) (o : Options) (p : TypeId) (sels : List Sel) :
    nBody (fragOk s q o) s q o p sels = mBody s q o p sels := by
  by_cases hsp : ∃ g, sels = [Sel.spread g]
  · obtain ⟨g, rfl⟩ := hsp; rfl
  · have hnl : ∀ g, sels ≠ [Sel.spread g] := fun g hg => hsp ⟨g, hg⟩
    rw [nBody_not_lone hnl, mBody_not_lone hnl, nSels_fragOk]

/-! ## ranks -/

theorem fragOkN_succ {s : Schema} {q : Query} {o : Options} {r : Nat} {p : TypeId} {g : Nat}
    (h : fragOkN s q o r p g = true) : fragOkN s q o (r + 1) p g = true := by
  rw [fragOkN, h]; rfl

theorem fragOkN_le {s : Schema} {q : Query} {o : Options} {r r' : Nat} (hle : r ≤ r') {p : TypeId} {g : Nat}
    (h : fragOkN s q o r p g = true) : fragOkN s q o r' p g = true := by
  induction hle with
  | refl => exact h
  | step _ ih => exact fragOkN_succ ih

theorem fragOkN_zero {s : Schema} {q : Query} {o : Options} {r : Nat} {p : TypeId} {g : Nat}
    (h : fragOk s q o p g = true) : fragOkN s q o r p g = true :=
  fragOkN_le (Nat.zero_le r) (by rw [fragOkN]; exact h)

/-- a fragment of rank `r` is spread-free, or "new" at some rank below `r` -/
theorem fragOkN_cases {s : Schema} {q : Query} {o : Options} : ∀ {r : Nat} {p : TypeId} {g : Nat},
    fragOkN s q o r p g = true → fragOk s q o p g = true ∨ ∃ r', r' < r ∧ fragNew (fragOkN s q o r') s q o p g = true
  | 0, p, g, h => .inl (by rw [fragOkN] at h; exact h)
  | r + 1, p, g, h => by
    rw [fragOkN, Bool.or_eq_true] at h
    rcases h with h | h
    · rcases fragOkN_cases h with h' | ⟨r', hr', h'⟩
      · exact .inl h'
      · exact .inr ⟨r', by omega, h'⟩
    · exact .inr ⟨r, by omega, h⟩

theorem fragNew_parts {ok : TypeId → Nat → Bool} {s : Schema} {q : Query} {o : Options} {p : TypeId} {g : Nat}
    (h : fragNew ok s q o p g = true) :
    ∃ f, q.fragments[g]? = some f ∧ f.on = p ∧ f.name ≠ "ID" ∧ fragmentIsRecursive q g = false ∧
      (∀ g', f.sels ≠ [Sel.spread g']) ∧ nSels ok s q o f.on f.sels = true := by
  unfold fragNew at h
  cases hf : q.fragments[g]? with
  | none => simp [hf] at h
  | some f =>
    simp only [hf, Bool.and_eq_true, beq_iff_eq, bne_iff_ne, Bool.not_eq_true'] at h
    exact ⟨f, rfl, h.1.1.1.1, h.1.1.1.2, h.1.1.2, not_lone_of_isLone h.1.2, h.2⟩

/-- what the generator needs to know of a fragment that is spread -/
def OkSpec (q : Query) (ok : TypeId → Nat → Bool) : Prop :=
  ∀ p g, ok p g = true → ∃ f, q.fragments[g]? = some f ∧ f.on = p ∧ f.name ≠ "ID" ∧ fragmentIsRecursive q g = false

theorem fragOkN_spec (s : Schema) (q : Query) (o : Options) (r : Nat) : OkSpec q (fragOkN s q o r) := by
  intro p g h
  rcases fragOkN_cases h with h' | ⟨r', _, h'⟩
  · obtain ⟨f, hf, hon, hname, _, _⟩ := fragOk_parts h'
    exact ⟨f, hf, hon, hname, not_recursive_of_fragOk h'⟩
  · obtain ⟨f, hf, hon, hname, hrec, _, _⟩ := fragNew_parts h'
    exact ⟨f, hf, hon, hname, hrec⟩

/-! ## Theorem 1 for `NestedOp` -/

section CalcN
variable (c : Ctx) (hn : c.o.normalization = .none) (N M : Nat) (ok : TypeId → Nat → Bool) (hok : OkSpec c.q ok)

def N1 (fuel : Nat) : Prop := ∀ name pfx i sels e, selsDepth sels ≤ e → selsSize sels ≤ N →
  C02.Sb N M e ≤ fuel → nBody ok c.s c.q c.o (.object i) sels = true →
  calcSelection c fuel name pfx (.object i) sels = .ok (bodyItemsM c name pfx sels)
def N4 (fuel : Nat) : Prop := ∀ pfx i sels e, selsDepth sels ≤ e → selsSize sels ≤ N →
  C02.Fneed N M e sels.length ≤ fuel → nSels ok c.s c.q c.o (.object i) sels = true →
  calcFields c fuel pfx (.object i) sels = .ok (fieldsOfF c pfx sels, itemsMs c pfx sels)

include hok in
theorem stepN1 (f : Nat) (H4 : N4 c N M ok f) : N1 c N M ok (f + 1) := by
  intro name pfx i sels e hD hS hF ht
  by_cases hsp : ∃ g, sels = [Sel.spread g]
  · obtain ⟨g, rfl⟩ := hsp
    rw [calcSelection.eq_2]
    have hokg : ok (.object i) g = true := ht
    obtain ⟨fr, hfr, _, _, hrec⟩ := hok _ _ hokg
    simp only [getFragment_of hfr, bind, Except.bind, pure, Except.pure, hrec]
    simp [bodyItemsM, fragName, hfr]
  · have hsp' : ∀ g, sels ≠ [Sel.spread g] := fun g hg => hsp ⟨g, hg⟩
    rw [calcSelection.eq_3 _ _ _ _ _ _ (fun g hg => hsp ⟨g, hg⟩)]
    rw [nBody_not_lone hsp'] at ht
    have hv : variantsOf c.s (.object i) = .ok none := rfl
    have hL := C02.length_le_selsSize sels
    have hfields := H4 pfx i sels e hD hS (by
      cases e with
      | zero => simp only [C02.Fneed]; unfold C02.Sb at hF; omega
      | succ e' => simp only [C02.Fneed]; rw [C02.Sb_succ] at hF; omega) ht
    simp only [hv, bind, Except.bind, pure, Except.pure, hfields]
    rw [bodyItemsM_not_lone c name pfx hsp']
    simp [renderType]

include hn hok in
theorem stepN4 (hM : ∀ ty vts, variantsOf c.s ty = .ok (some vts) → vts.length ≤ M)
    (f : Nat) (H1 : N1 c N M ok f) (H4 : N4 c N M ok f) : N4 c N M ok (f + 1) := by
  intro pfx i sels e hD hS hF ht
  have H1a := (calc_variantspread c hn N M hM f).2.1
  cases sels with
  | nil => rw [calcFields.eq_2 _ _ _ _ (by omega)]; rfl
  | cons x rest =>
    cases e with
    | zero => have := C02.selsDepth_cons_pos x rest; omega
    | succ e =>
      obtain ⟨hx, hrest⟩ := nSels_cons ht
      rw [selsDepth.eq_2] at hD
      rw [selsSize.eq_2] at hS
      simp only [C02.Fneed, List.length_cons] at hF
      have hR := H4 pfx i rest (e + 1) (by omega) (by omega) (by simp only [C02.Fneed]; omega) hrest
      rw [fieldsOfF_cons, itemsMs]
      cases x with
      | field a fid sub =>
        rw [selDepth.eq_1] at hD
        rw [selSize.eq_1] at hS
        rw [calcFields.eq_3]
        obtain ⟨sf, hsf⟩ := nSel_field_some hx
        simp only [getField_of hsf, bind, Except.bind]
        by_cases hobj : ∃ j, sf.ty.id = .object j
        · obtain ⟨j, hid⟩ := hobj
          obtain ⟨hw, hdep', _, hbody⟩ := nSel_obj hsf hid hx
          have hS' := H1 (pfx ++ c.cs.camel (a.getD sf.name)) (pfx ++ c.cs.camel (a.getD sf.name)) j sub e
            (by omega) (by omega) (by omega) hbody
          simp only [hid, renderField_tree c _ _ _ _ hw hdep', hS', hR, pure, Except.pure]
          have hitems : itemsM c pfx (.field a fid sub) =
              bodyItemsM c (pfx ++ c.cs.camel (a.getD sf.name)) (pfx ++ c.cs.camel (a.getD sf.name)) sub := by
            rw [itemsM]; simp only [hsf, hid]; rfl
          rw [hitems]
          simp [fieldOfSelF, fieldOfSelV, hsf, hid, leafNameV]
        · have hno : ∀ j, sf.ty.id ≠ .object j := fun j h => hobj ⟨j, h⟩
          have hs := nSel_nonobj hsf hno hx
          rw [itemsM_nonobj c pfx a fid sub sf hsf hno]
          rw [sSel] at hs
          simp only [hsf, Bool.and_eq_true] at hs
          obtain ⟨⟨hw, hdep⟩, hty⟩ := hs
          have hdep' : (sf.deprecation.isSome && c.o.deprecation == .deny) = false := by
            cases hd : (sf.deprecation.isSome && c.o.deprecation == .deny) with
            | false => rfl
            | true => simp [hd] at hdep
          cases hid : sf.ty.id with
          | object j => exact absurd hid (hno j)
          | scalar k =>
            simp only [hid, Bool.and_eq_true] at hty
            cases hk : c.s.scalars[k]? with
            | none => simp [hk] at hty
            | some sn =>
              simp only [getScalar_of hk, hn, C02.fieldType_none, renderField_tree c _ _ _ _ hw hdep', hR,
                pure, Except.pure]
              simp [itemsS, fieldOfSelF, fieldOfSelV, hsf, hid, leafNameV, hk]
          | «enum» k =>
            simp only [hid, Bool.and_eq_true] at hty
            cases hk : c.s.enums[k]? with
            | none => simp [hk] at hty
            | some en =>
              simp only [getEnum_of hk, hn, C02.fieldType_none, renderField_tree c _ _ _ _ hw hdep', hR,
                pure, Except.pure]
              simp [itemsS, fieldOfSelF, fieldOfSelV, hsf, hid, leafNameV, hk]
          | interface k =>
            simp only [hid, Bool.and_eq_true] at hty
            have hS' := H1a (pfx ++ c.cs.camel (a.getD sf.name)) (pfx ++ c.cs.camel (a.getD sf.name)) (.interface k) sub e
              (by omega) (by omega) (by omega) hty.1.1 hty.1.2 hty.2
            simp only [renderField_tree c _ _ _ _ hw hdep', hS', hR, pure, Except.pure]
            simp [itemsS, fieldOfSelF, fieldOfSelV, hsf, hid, leafNameV, absItemsS, absItemsL]
          | union k =>
            simp only [hid, Bool.and_eq_true] at hty
            have hS' := H1a (pfx ++ c.cs.camel (a.getD sf.name)) (pfx ++ c.cs.camel (a.getD sf.name)) (.union k) sub e
              (by omega) (by omega) (by omega) hty.1.1 hty.1.2 hty.2
            simp only [renderField_tree c _ _ _ _ hw hdep', hS', hR, pure, Except.pure]
            simp [itemsS, fieldOfSelF, fieldOfSelV, hsf, hid, leafNameV, absItemsS, absItemsL]
          | input k => simp [hid] at hty
      | spread g =>
        rw [calcFields.eq_4]
        have hokg : ok (.object i) g = true := by simpa [nSel] using hx
        obtain ⟨fr, hfr, hon, hname, hrec⟩ := hok _ _ hokg
        have hne : (fr.on != TypeId.object i) = false := by simp [hon]
        simp only [getFragment_of hfr, bind, Except.bind, hR, hne, Bool.false_eq_true, ↓reduceIte,
          hrec, renderField_spread c fr hname, pure, Except.pure]
        simp [fieldOfSelF, hfr, itemsM]
      | inline t sub => simp [nSel] at hx
      | typename =>
        rw [calcFields.eq_5 _ _ _ _ _ _ (by simp) (by simp), hR]
        simp [fieldOfSelF, fieldOfSelV, itemsM]

include hn hok in
theorem calc_nested (hM : ∀ ty vts, variantsOf c.s ty = .ok (some vts) → vts.length ≤ M) :
    ∀ fuel, N1 c N M ok fuel ∧ N4 c N M ok fuel := by
  intro fuel
  induction fuel with
  | zero =>
    refine ⟨?_, ?_⟩
    · intro _ _ _ _ e _ _ h; unfold C02.Sb at h; omega
    · intro _ _ sels e _ _ h; have := C02.Fneed_pos N M e sels.length; omega
  | succ f ih => exact ⟨stepN1 c N M ok hok f ih.2, stepN4 c hn N M ok hok hM f ih.1 ih.2⟩

end CalcN

theorem nestedOp_parts {c : Ctx} {op : ROperation} (h : NestedOp c op = true) :
    c.o.normalization = .none ∧ (c.s.objects[op.objectId]?).isSome = true ∧
      nBody (fragOkN c.s c.q c.o c.q.fragments.length) c.s c.q c.o (.object op.objectId) op.sels = true := by
  simp only [NestedOp, Bool.and_eq_true, beq_iff_eq] at h
  exact ⟨h.1.1, h.1.2, h.2⟩

/-- the items of an object-level selection set of the class (any rank), anywhere in the document -/
theorem body_items_shape (c : Ctx) (hn : c.o.normalization = .none) (r : Nat) (name pfx : String) (i : Nat)
    (sels : List Sel) (hD : selsDepth sels ≤ C02.maxDepth c.q) (hS : selsSize sels ≤ C02.totalSize c.q)
    (ht : nBody (fragOkN c.s c.q c.o r) c.s c.q c.o (.object i) sels = true) :
    calcSelection c (calcFuel c.s c.q) name pfx (.object i) sels = .ok (bodyItemsM c name pfx sels) :=
  (calc_nested c hn (C02.totalSize c.q) (c.s.objects.length + C02.maxUnion c.s) _ (fragOkN_spec c.s c.q c.o r)
    (C02.variants_length_le c.s) (calcFuel c.s c.q)).1 name pfx i sels (C02.maxDepth c.q) hD hS (calcFuel_Sb c) ht

/-- **Theorem 1 (`nested_items_shape`).**  For an operation of the class `NestedOp` the response items are, in closed form,
    those of `mixed_items_shape`: at object positions a type alias for a lone spread, otherwise one struct with one
    `#[serde(flatten)]` member per spread — whatever the body of the spread fragment —, at fields of abstract type
    `itemsS`. -/
theorem nested_items_shape (c : Ctx) (op : ROperation) (hop : op ∈ c.q.operations) (ht : NestedOp c op = true) :
    responseItems c op = .ok (bodyItemsM c "ResponseData" (c.cs.camel op.name) op.sels) := by
  obtain ⟨hn, _, hsels⟩ := nestedOp_parts ht
  apply body_items_shape c hn _ _ _ _ _ (C02.op_depth_le c.q op hop) _ hsels
  apply C02.le_foldl_add
  left
  simp only [List.mem_append, List.mem_map]
  exact .inr ⟨op, hop, rfl⟩

/-- **… and the items of a spread fragment of any rank**: the struct named like the fragment (prefix: its upper-camel-case
    name) with one flattened member per spread **of the fragment's own body** (a type alias if the body is a lone
    spread), and the nested items -/
theorem nested_fragment_shape (c : Ctx) (hn : c.o.normalization = .none) (r : Nat) (i g : Nat)
    (hok : fragOkN c.s c.q c.o r (.object i) g = true) :
    ∃ f, c.q.fragments[g]? = some f ∧ f.on = .object i ∧
      fragmentItems c g = .ok (bodyItemsM c f.name (c.cs.camel f.name) f.sels) := by
  have key : ∀ f, c.q.fragments[g]? = some f → f.on = .object i → ∀ r',
      nBody (fragOkN c.s c.q c.o r') c.s c.q c.o (.object i) f.sels = true →
      fragmentItems c g = .ok (bodyItemsM c f.name (c.cs.camel f.name) f.sels) := by
    intro f hf hon r' hb
    unfold fragmentItems
    simp only [getFragment_of hf, bind, Except.bind]
    have hmem : f ∈ c.q.fragments := List.mem_of_getElem? hf
    rw [hon]
    apply body_items_shape c hn r' _ _ _ _ (C02.frag_depth_le c.q f hmem) _ hb
    apply C02.le_foldl_add
    left
    simp only [List.mem_append, List.mem_map]
    exact .inl ⟨f, hmem, rfl⟩
  rcases fragOkN_cases hok with h' | ⟨r', _, h'⟩
  · obtain ⟨f, hf, hon, _, hv, _⟩ := fragOk_parts h'
    refine ⟨f, hf, hon, key f hf hon 0 ?_⟩
    have hm : mSels c.s c.q c.o (.object i) f.sels = true :=
      mSels_of_fSels c.s c.q c.o f.sels _ (fSels_of_vSels c.s c.q c.o f.sels _ hv)
    have hnl : ∀ g', f.sels ≠ [Sel.spread g'] := by
      intro g' hg'
      have := noSpreads_of_vSels c.s c.o f.sels false hv
      rw [hg'] at this
      simp [noSpreads, noSpread] at this
    rw [nBody_not_lone hnl]
    have : fragOkN c.s c.q c.o 0 = fragOk c.s c.q c.o := by funext p g'; rw [fragOkN]
    rw [this, nSels_fragOk]
    exact hm
  · obtain ⟨f, hf, hon, _, _, hnl, hb⟩ := fragNew_parts h'
    rw [hon] at hb
    exact ⟨f, hf, hon, key f hf hon r' (by rw [nBody_not_lone hnl]; exact hb)⟩

/-! ## `MixedOp ⊆ NestedOp` -/

theorem nestedOp1_of_mixedOp (c : Ctx) (op : ROperation) (h : MixedOp c op = true) : NestedOp1 c op = true := by
  obtain ⟨hn, ho, hb⟩ := mixedOp_parts h
  simp only [NestedOp1, Bool.and_eq_true, beq_iff_eq]
  refine ⟨⟨hn, ho⟩, ?_⟩
  rw [← nBody_fragOk] at hb
  exact nBody_mono (fun p g hg => fragOkN_zero hg) hb

theorem nestedOp_of_nestedOp1 (c : Ctx) (op : ROperation) (h : NestedOp1 c op = true) (hl : 1 ≤ c.q.fragments.length) :
    NestedOp c op = true := by
  simp only [NestedOp1, Bool.and_eq_true, beq_iff_eq] at h
  simp only [NestedOp, Bool.and_eq_true, beq_iff_eq]
  exact ⟨h.1, nBody_mono (fun p g hg => fragOkN_le hl hg) h.2⟩

/-- **`MixedOp ⊆ NestedOp`** -/
theorem nestedOp_of_mixedOp (c : Ctx) (op : ROperation) (h : MixedOp c op = true) : NestedOp c op = true := by
  obtain ⟨hn, ho, hb⟩ := mixedOp_parts h
  simp only [NestedOp, Bool.and_eq_true, beq_iff_eq]
  refine ⟨⟨hn, ho⟩, ?_⟩
  rw [← nBody_fragOk] at hb
  exact nBody_mono (fun p g hg => fragOkN_zero hg) hb

/-- on `MixedOp` the closed form is the same (it is the same function) -/
theorem nested_items_eq_M (c : Ctx) (op : ROperation) (hop : op ∈ c.q.operations) (h : MixedOp c op = true) :
    responseItems c op = .ok (bodyItemsM c "ResponseData" (c.cs.camel op.name) op.sels) :=
  nested_items_shape c op hop (nestedOp_of_mixedOp c op h)

end C01N
end GqlVerif
