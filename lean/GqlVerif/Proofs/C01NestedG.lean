import GqlVerif.Proofs.C01NestedF
/-!
# C01 end to end (`NestedOp`), part G: serde — what a struct with flattened struct members (plain or not) reads, by name

The value-level companion of `okB_deStructMapN` (part B), the generalization of `deStruct_flat_finds` (`C01AbstractI`) to
members that have flattened members themselves:

* `deFlatsN_finds` / **`deStructN_finds`** — the record read has, under the Rust name of every own field, what `readField`
  reads from the object, and under the Rust name of every flattened member `g` what `memberVal` reads from the object with
  some entries **whose keys are outside `K g`** filtered out (the own keys of the struct and the keys earlier plain members
  took; a plain member: nothing is filtered).
-/
set_option linter.unusedSimpArgs false
set_option linter.unusedVariables false
set_option linter.unusedSectionVars false
set_option linter.unnecessarySimpa false

namespace GqlVerif
namespace C01N
open Serde Spec C13 C03 Codegen C01 C01.E2E C01M

theorem filter_not_nil (kvs : List (String × Json)) :
    kvs.filter (fun kv => !([] : List String).contains kv.1) = kvs := by
  rw [List.filter_eq_self]; intro kv _; simp

/-- own fields of a plain field list: entries with other keys do not matter (value level) -/
theorem deOwn_filter_not (path : String → Json → D Val) (L : List String) (kvs : List (String × Json))
    (fields : List RField) (h : ∀ f ∈ fields, f.flatten = false → f.wire ∉ L) :
    deOwnWith path fields (kvs.filter (fun kv => !L.contains kv.1)) = deOwnWith path fields kvs := by
  have hw : ∀ k ∈ (fields.filter (fun f => !f.flatten)).map (·.wire), k ∉ L := by
    intro k hk
    obtain ⟨f, hf, rfl⟩ := List.mem_map.mp hk
    have := List.mem_filter.mp hf
    exact h f this.1 (by simpa using this.2)
  have hkeys : ∀ f ∈ fields, f.flatten = false → f.wire ∈ (fields.filter (fun f => !f.flatten)).map (·.wire) :=
    fun f hf hfl => List.mem_map_of_mem (List.mem_filter.mpr ⟨hf, by simp [hfl]⟩)
  rw [← deOwn_filter path _ (kvs.filter (fun kv => !L.contains kv.1)) fields hkeys,
    filter_filter_disjoint kvs L _ hw, deOwn_filter path _ kvs fields hkeys]

theorem deFlatsN_finds (e : Env) (fuel : Nat) (kvs : List (String × Json)) (K : RField → List String) :
    ∀ (fs : List RField) (L : List String) (buf : Buf) (fl : List (String × Val)),
      present buf = kvs.filter (fun kv => !L.contains kv.1) →
      (∀ g ∈ fs, g.flatten = true → MemberOkN e g) →
      (∀ g ∈ fs, g.flatten = true → ∀ f ∈ memberFields e g, f.flatten = false → f.wire ∈ K g) →
      (∀ g ∈ fs, g.flatten = true → ∀ k ∈ L, k ∉ K g) →
      fs.Pairwise (fun g g' => g.flatten = true → g'.flatten = true → ∀ k ∈ K g', k ∉ K g) →
      (fs.map (·.rust)).Nodup →
      deFlatsWith (deFlat e (fuel + 1)) fs buf = .ok fl →
      (∀ n, n ∉ fs.map (·.rust) → fl.find? (·.1 == n) = none) ∧
      ∀ g ∈ fs, g.flatten = true → ∃ (L' : List String) (x : Val), (∀ k ∈ L', k ∉ K g) ∧
        memberVal e fuel g (kvs.filter (fun kv => !L'.contains kv.1)) = .ok x ∧
        fl.find? (·.1 == g.rust) = some (g.rust, x)
  | [], _, _, fl, _, _, _, _, _, _, h => by
    simp only [deFlatsWith, pure, Except.pure, Except.ok.injEq] at h
    subst h; simp
  | g :: fs, L, buf, fl, hbuf, hok, hsub, hL, hpw, hnd, h => by
    rw [List.pairwise_cons] at hpw
    simp only [List.map_cons, List.nodup_cons] at hnd
    have hok' : ∀ g' ∈ fs, g'.flatten = true → MemberOkN e g' := fun g' h' => hok g' (List.mem_cons_of_mem _ h')
    have hsub' : ∀ g' ∈ fs, g'.flatten = true → ∀ f ∈ memberFields e g', f.flatten = false → f.wire ∈ K g' :=
      fun g' h' => hsub g' (List.mem_cons_of_mem _ h')
    cases hg : g.flatten
    · simp only [deFlatsWith, hg, Bool.not_false, ↓reduceIte] at h
      obtain ⟨ih1, ih2⟩ := deFlatsN_finds e fuel kvs K fs L buf fl hbuf hok' hsub'
        (fun g' h' => hL g' (List.mem_cons_of_mem _ h')) hpw.2 hnd.2 h
      refine ⟨fun n hn => ih1 n (fun hm => hn (List.mem_cons_of_mem _ hm)), ?_⟩
      intro g' hg' hfl
      rcases List.mem_cons.mp hg' with rfl | hg''
      · rw [hg] at hfl; cases hfl
      · exact ih2 g' hg'' hfl
    · obtain ⟨q, n, d, c, hty, hnp, hfind⟩ := hok g (by simp) hg
      simp only [deFlatsWith, hg, Bool.not_true, Bool.false_eq_true, ↓reduceIte, hty] at h
      obtain ⟨⟨x, buf'⟩, hflat, h⟩ := C02.bind_ok h
      simp only at h
      obtain ⟨rest, hrest, h⟩ := C02.bind_ok h
      simp only [pure, Except.pure, Except.ok.injEq] at h
      subst h
      -- the member itself, and the buffer it leaves
      have hmem : ∃ (L' : List String), (∀ k ∈ L', k ∉ K g) ∧
          memberVal e fuel g (kvs.filter (fun kv => !L'.contains kv.1)) = .ok x ∧
          ∃ L2 : List String, present buf' = kvs.filter (fun kv => !L2.contains kv.1) ∧
            ∀ g' ∈ fs, g'.flatten = true → ∀ k ∈ L2, k ∉ K g' := by
        cases hpl : plain (memberFields e g)
        · have hany := any_flatten_of_not_plain hpl
          rw [deFlat_nonplain_struct e fuel q n d c _ buf hfind hany, hbuf] at hflat
          obtain ⟨v0, hv0, hp⟩ := C02.bind_ok hflat
          simp only [pure, Except.pure, Except.ok.injEq, Prod.mk.injEq] at hp
          obtain ⟨rfl, rfl⟩ := hp
          exact ⟨L, hL g (by simp) hg, hv0, L, hbuf, fun g' h' hf' => hL g' (List.mem_cons_of_mem _ h') hf'⟩
        · have hw : ∀ k ∈ (memberFields e g).map (·.wire), k ∉ L := by
            intro k hk hkL
            obtain ⟨f, hf, rfl⟩ := List.mem_map.mp hk
            exact hL g (by simp) hg _ hkL (hsub g (by simp) hg f hf (flatten_false_of_plain hpl f hf))
          rw [deFlat_plain_struct e fuel q n d c _ buf hfind hpl, takeKeys_fst, hbuf,
            filter_filter_disjoint kvs L _ hw, deOwn_filter _ _ kvs _ (fun f hf _ => List.mem_map_of_mem hf)] at hflat
          obtain ⟨own, hown, hp⟩ := C02.bind_ok hflat
          simp only [pure, Except.pure, Except.ok.injEq, Prod.mk.injEq] at hp
          obtain ⟨rfl, rfl⟩ := hp
          refine ⟨[], by simp, ?_, L ++ (memberFields e g).map (·.wire), ?_, ?_⟩
          · rw [filter_not_nil]
            unfold memberVal
            rw [deStructMap_plain _ _ _ _ hpl, hown]; rfl
          · rw [takeKeys_snd, hbuf, filter_not_append]
          · intro g' h' hf' k hk hkK
            rcases List.mem_append.mp hk with hk | hk
            · exact hL g' (List.mem_cons_of_mem _ h') hf' k hk hkK
            · obtain ⟨f, hf, rfl⟩ := List.mem_map.mp hk
              exact hpw.1 g' h' hg hf' _ hkK (hsub g (by simp) hg f hf (flatten_false_of_plain hpl f hf))
      obtain ⟨L', hL', hval, L2, hbuf2, hL2⟩ := hmem
      obtain ⟨ih1, ih2⟩ := deFlatsN_finds e fuel kvs K fs L2 buf' rest hbuf2 hok' hsub' hL2 hpw.2 hnd.2 hrest
      constructor
      · intro n hn
        simp only [List.map_cons, List.mem_cons, not_or] at hn
        have : (g.rust == n) = false := by simpa using fun h => hn.1 h.symm
        simp only [List.find?_cons, this]
        exact ih1 n hn.2
      · intro g' hg' hfl
        rcases List.mem_cons.mp hg' with rfl | hg''
        · exact ⟨L', x, hL', hval, by simp⟩
        · obtain ⟨L'', x', h1, h2, h3⟩ := ih2 g' hg'' hfl
          have hne : g.rust ≠ g'.rust := fun heq => hnd.1 (heq ▸ List.mem_map_of_mem hg'')
          have : (g.rust == g'.rust) = false := by simpa using hne
          exact ⟨L'', x', h1, h2, by simp only [List.find?_cons, this]; exact h3⟩

/-- **what a struct with (or without) flattened struct members — plain or not — reads, found again by name** -/
theorem deStructN_finds (e : Env) (fuel : Nat) (pathD : String → Json → D Val) (fields : List RField)
    (kvs : List (String × Json)) (K : RField → List String) (hcnt : ∀ k, countKey k kvs ≤ 1)
    (hrust : (fields.map (·.rust)).Nodup)
    (hok : ∀ g ∈ fields, g.flatten = true → MemberOkN e g)
    (hsub : ∀ g ∈ fields, g.flatten = true → ∀ f ∈ memberFields e g, f.flatten = false → f.wire ∈ K g)
    (hown : ∀ g ∈ fields, g.flatten = true → ∀ k ∈ (fields.filter (fun f => !f.flatten)).map (·.wire), k ∉ K g)
    (hpw : fields.Pairwise (fun g g' => g.flatten = true → g'.flatten = true → ∀ k ∈ K g', k ∉ K g))
    (v : Val) (hd : deStructMapWith pathD (deFlat e (fuel + 1)) fields kvs = .ok v) :
    ∃ vals, v = .record vals ∧
      (∀ f ∈ fields, f.flatten = false → ∃ x, vals.find? (·.1 == f.rust) = some (f.rust, x) ∧
        readField pathD f kvs = .ok x) ∧
      (∀ g ∈ fields, g.flatten = true → ∃ (L' : List String) (x : Val), (∀ k ∈ L', k ∉ K g) ∧
        memberVal e fuel g (kvs.filter (fun kv => !L'.contains kv.1)) = .ok x ∧
        vals.find? (·.1 == g.rust) = some (g.rust, x)) := by
  have hownpl : plain (fields.filter (fun f => !f.flatten)) = true := by
    simp only [plain, List.all_eq_true, List.mem_filter]
    intro f hf; exact hf.2
  have hsubl : (fields.filter (fun f => !f.flatten)).Sublist fields := List.filter_sublist
  have hownnd : ((fields.filter (fun f => !f.flatten)).map (·.rust)).Nodup := (hsubl.map _).nodup hrust
  cases hany : fields.any (·.flatten)
  · -- plain
    have hpl : plain fields = true := by
      simp only [plain, List.all_eq_true]
      intro f hf
      have := List.any_eq_false.mp hany f hf
      simpa using this
    rw [deStructMap_plain _ _ _ _ hpl, map_ok] at hd
    obtain ⟨own, hown', rfl⟩ := hd
    have hall := (deOwn_ok_iff pathD kvs hcnt fields own hpl).mp hown'
    refine ⟨own, rfl, fun f hf _ => find_of_all2 (R := fun f x => readField pathD f kvs = .ok x) hall hrust f hf, ?_⟩
    intro g hg hfl
    have := List.any_eq_false.mp hany g hg
    simp [hfl] at this
  · unfold deStructMapWith at hd
    simp only [hany, ↓reduceIte] at hd
    rw [deOwn_filter_flatten pathD kvs fields] at hd
    obtain ⟨own, hown', hd⟩ := C02.bind_ok hd
    obtain ⟨fl, hfl, hd⟩ := C02.bind_ok hd
    simp only [pure, Except.pure, Except.ok.injEq] at hd
    have hall := (deOwn_ok_iff pathD kvs hcnt _ own hownpl).mp hown'
    have hownnames : own.map (·.1) = (fields.filter (fun f => !f.flatten)).map (·.rust) :=
      All2.map_fst (fun _ _ hh => hh.1) hall
    obtain ⟨hfl1, hfl2⟩ := deFlatsN_finds e fuel kvs K fields _ _ fl (by rw [present_map_some]) hok hsub hown hpw
      hrust hfl
    refine ⟨_, hd.symm, ?_, ?_⟩
    · intro f hf hfl'
      rw [find_filterMap_rust _ fields hrust f hf]
      obtain ⟨x, hx, hR⟩ := find_of_all2 (R := fun f x => readField pathD f kvs = .ok x) hall hownnd f
        (List.mem_filter.mpr ⟨hf, by simp [hfl']⟩)
      exact ⟨x, by rw [List.find?_append, hx]; rfl, hR⟩
    · intro g hg hfl'
      rw [find_filterMap_rust _ fields hrust g hg]
      obtain ⟨L', x, h0, h1, h2⟩ := hfl2 g hg hfl'
      refine ⟨L', x, h0, h1, ?_⟩
      have hnone : own.find? (·.1 == g.rust) = none := by
        apply find_none_of_not_mem
        rw [hownnames]
        intro hm
        obtain ⟨f, hf, hfr⟩ := List.mem_map.mp hm
        have hf' := List.mem_filter.mp hf
        have : f = g := eq_of_nodup_rust hrust hf'.1 hg hfr
        subst this
        simp [hfl'] at hf'
      rw [List.find?_append, hnone]
      simpa using h2

end C01N
end GqlVerif
