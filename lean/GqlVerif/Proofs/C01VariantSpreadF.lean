import GqlVerif.Proofs.C01VariantSpreadE
import GqlVerif.Proofs.CalcVariantsPushed
/-!
# C01 / C03 end to end: `VariantSpreadOp2` — inline fragments whose body is a lone spread, next to other selections (part F)

The shape of the defect repaired by fix 78c01b5: at an abstract position, `... on T { ...F }` next to other selections on `T`.
`calcVariants` makes the variant an alias of `F` only if that inline fragment is the sole contribution; otherwise `F` becomes one
more `#[serde(flatten)]` member of the variant struct, **after** the fields and members of the other selections
(`aliasMember`).  So the emitted items are those of the *normalized* selection set `normSels`: every such inline fragment is
replaced by the spread `...F`, moved behind the other selections of its selection set.

* `normSel` / `normSels` — the normalization (at every level);
* `VariantSpreadOp2 c op` (decidable): the normalized operation is in `VariantSpreadOp`, every aliased inline fragment
  `... on T { ...F }` has `F` a `fragOk` fragment on `T` itself, and the edge case "one aliased inline fragment next to
  selections that contribute no field" is excluded (`edgeOk`; there the generator still emits the alias);
* `variantspread2_items_shape` — `responseItems c op = .ok (structItemsS … (normSels op.sels))`.
-/
set_option linter.unusedSimpArgs false
set_option linter.unusedVariables false
set_option linter.unusedSectionVars false

namespace GqlVerif
namespace C01
namespace E2E
open Serde Spec C13 C03 Codegen

/-! ## normalization -/

/-- an inline fragment whose body is a lone spread -/
def aliasInl : Sel → Option Nat
  | .inline _ [.spread g] => some g
  | _ => none

/-- the spreads that replace the aliased inline fragments of a selection set -/
def movedN (sels : List Sel) : List Sel := sels.filterMap (fun x => (aliasInl x).map Sel.spread)

mutual
  def normSel : Sel → Sel
    | .field a fid sub => .field a fid (keepN sub ++ movedN sub)
    | .inline t sub => .inline t (keepN sub ++ movedN sub)
    | .spread g => .spread g
    | .typename => .typename
  /-- the other selections, normalized below -/
  def keepN : List Sel → List Sel
    | [] => []
    | x :: xs => if (aliasInl x).isSome then keepN xs else normSel x :: keepN xs
end

/-- **the normalized selection set**: aliased inline fragments become spreads behind the other selections -/
def normSels (sels : List Sel) : List Sel := keepN sels ++ movedN sels

theorem normSel_field (a : Option String) (fid : Nat) (sub : List Sel) :
    normSel (.field a fid sub) = .field a fid (normSels sub) := by rw [normSel]; rfl

theorem normSel_inline (t : TypeId) (sub : List Sel) : normSel (.inline t sub) = .inline t (normSels sub) := by
  rw [normSel]; rfl

theorem keepN_cons_alias {x : Sel} {xs : List Sel} {g : Nat} (h : aliasInl x = some g) : keepN (x :: xs) = keepN xs := by
  rw [keepN]; simp [h]

theorem keepN_cons_keep {x : Sel} {xs : List Sel} (h : aliasInl x = none) : keepN (x :: xs) = normSel x :: keepN xs := by
  rw [keepN]; simp [h]

theorem movedN_cons_alias {x : Sel} {xs : List Sel} {g : Nat} (h : aliasInl x = some g) :
    movedN (x :: xs) = .spread g :: movedN xs := by
  simp [movedN, List.filterMap_cons, h]

theorem movedN_cons_keep {x : Sel} {xs : List Sel} (h : aliasInl x = none) : movedN (x :: xs) = movedN xs := by
  simp [movedN, List.filterMap_cons, h]

theorem aliasInl_some {x : Sel} {g : Nat} (h : aliasInl x = some g) : ∃ t, x = .inline t [.spread g] := by
  cases x with
  | inline t sub =>
    cases sub with
    | nil => simp [aliasInl] at h
    | cons y ys =>
      cases ys with
      | nil =>
        cases y with
        | spread g' => simp only [aliasInl, Option.some.injEq] at h; subst h; exact ⟨t, rfl⟩
        | _ => simp [aliasInl] at h
      | cons z zs => simp [aliasInl] at h
  | _ => simp [aliasInl] at h

theorem mem_movedN {sels : List Sel} {y : Sel} (h : y ∈ movedN sels) :
    ∃ t g, Sel.inline t [.spread g] ∈ sels ∧ y = .spread g := by
  unfold movedN at h
  obtain ⟨x, hx, hxy⟩ := List.mem_filterMap.mp h
  cases ha : aliasInl x with
  | none => simp [ha] at hxy
  | some g =>
    obtain ⟨t, rfl⟩ := aliasInl_some ha
    simp only [ha, Option.map_some, Option.some.injEq] at hxy
    exact ⟨t, g, hx, hxy.symm⟩

theorem mem_keepN : ∀ {sels : List Sel} {y : Sel}, y ∈ keepN sels → ∃ x ∈ sels, aliasInl x = none ∧ y = normSel x
  | [], y, h => by simp [keepN] at h
  | x :: xs, y, h => by
    cases ha : aliasInl x with
    | some g =>
      rw [keepN_cons_alias ha] at h
      obtain ⟨x', hx', h'⟩ := mem_keepN h
      exact ⟨x', List.mem_cons_of_mem _ hx', h'⟩
    | none =>
      rw [keepN_cons_keep ha] at h
      rcases List.mem_cons.mp h with rfl | h
      · exact ⟨x, by simp, ha, rfl⟩
      · obtain ⟨x', hx', h'⟩ := mem_keepN h
        exact ⟨x', List.mem_cons_of_mem _ hx', h'⟩

theorem movedN_no_alias : ∀ (sels : List Sel), (∀ x ∈ sels, aliasInl x = none) → movedN sels = []
  | [], _ => rfl
  | x :: xs, h => by
    rw [movedN_cons_keep (h x (by simp))]
    exact movedN_no_alias xs (fun y hy => h y (List.mem_cons_of_mem _ hy))

/-- an object-level selection set of the class (normalized) has no aliased inline fragment: nothing is moved -/
theorem movedN_nil_of_obj {s : Schema} {q : Query} {o : Options} {sels : List Sel}
    (h : sSels s q o false (normSels sels) = true) : movedN sels = [] := by
  cases hm : movedN sels with
  | nil => rfl
  | cons y ys =>
    have hy : y ∈ movedN sels := by rw [hm]; simp
    obtain ⟨t, g, _, rfl⟩ := mem_movedN hy
    have : Sel.spread g ∈ normSels sels := List.mem_append_right _ hy
    exact absurd this (no_spread_of_sSels h g)

theorem sSels_of_append {s : Schema} {q : Query} {o : Options} {abs : Bool} : ∀ {xs ys : List Sel},
    sSels s q o abs (xs ++ ys) = true → sSels s q o abs xs = true ∧ sSels s q o abs ys = true
  | [], _, h => ⟨rfl, h⟩
  | x :: xs, ys, h => by
    rw [List.cons_append] at h
    obtain ⟨hx, hxs⟩ := sSels_cons h
    obtain ⟨h1, h2⟩ := sSels_of_append hxs
    exact ⟨by rw [sSels, hx, h1]; rfl, h2⟩


/-! ## the class -/

/-- the items of the aliased inline fragments of the selections on one variant -/
def alItems (c : Ctx) (sname : String) (ms : List Sel) : List Item :=
  ms.filterMap (fun x => (aliasInl x).map (fun g => aliasItem sname (fragName c g) false))

/-- not the edge case: exactly one aliased inline fragment on the variant, next to other selections none of which
    contributes a field or member (there the generator still emits the type alias) -/
def edgeOk (c : Ctx) (vt : TypeId) (sub : List Sel) : Bool :=
  !((varFields c "" vt (keepN (mineOf c.q vt sub))).isEmpty && (movedN (mineOf c.q vt sub)).length == 1 &&
    decide (2 ≤ (mineOf c.q vt sub).length))

/-- every aliased inline fragment `... on T { ...F }` of the selection set: `F` is a `fragOk` fragment on `T` itself -/
def aliasFrOk (c : Ctx) (sub : List Sel) : Bool :=
  sub.all (fun x => match x with
    | .inline (.object i) [.spread g] => fragOk c.s c.q c.o (.object i) g
    | .inline _ [.spread _] => false
    | _ => true)

def aliasAt (c : Ctx) (vts : List TypeId) (sub : List Sel) : Bool :=
  aliasFrOk c sub && vts.all (fun vt => edgeOk c vt sub)

mutual
  def aliasOkSel (c : Ctx) : Sel → Bool
    | .field _ fid sub =>
      (match c.s.fields[fid]? with
       | some sf => aliasAt c (vtsOfTy c.s sf.ty.id) sub
       | none => true) && aliasOkSels c sub
    | .inline _ sub => aliasOkSels c sub
    | _ => true
  def aliasOkSels (c : Ctx) : List Sel → Bool
    | [] => true
    | x :: xs => aliasOkSel c x && aliasOkSels c xs
end

/-- the type condition of an aliased inline fragment `... on T { ...F }` is the type `F` is on -/
def aliasOn (q : Query) (t : TypeId) : List Sel → Bool
  | [.spread g] => (match q.fragments[g]? with | some f => f.on == t | none => false)
  | _ => true

mutual
  /-- every aliased inline fragment of the tree, at any level, is `... on T { ...F }` with `F` a fragment on `T` -/
  def aliasWfSel (q : Query) : Sel → Bool
    | .field _ _ sub => aliasWfSels q sub
    | .inline t sub => aliasOn q t sub && aliasWfSels q sub
    | _ => true
  def aliasWfSels (q : Query) : List Sel → Bool
    | [] => true
    | x :: xs => aliasWfSel q x && aliasWfSels q xs
end

/-- the operation with the normalized selection set -/
def normOp (op : ROperation) : ROperation := { op with sels := normSels op.sels }

/-- **the class `VariantSpreadOp2`** (decidable): the normalized operation is in `VariantSpreadOp`; the aliased inline
    fragments are well-formed (`aliasWfSels`: on the type of their fragment; `aliasOkSels`: at an abstract position the
    fragment is `fragOk`, and not the edge case `edgeOk`) -/
def VariantSpreadOp2 (c : Ctx) (op : ROperation) : Bool :=
  aliasWfSels c.q op.sels && aliasOkSels c op.sels && VariantSpreadOp c (normOp op)

theorem aliasOkSels_cons {c : Ctx} {x : Sel} {xs : List Sel} (h : aliasOkSels c (x :: xs) = true) :
    aliasOkSel c x = true ∧ aliasOkSels c xs = true := by
  simpa [aliasOkSels] using h

theorem aliasOkSels_mem {c : Ctx} : ∀ {sels : List Sel}, aliasOkSels c sels = true → ∀ x ∈ sels, aliasOkSel c x = true
  | [], _, _, hx => by simp at hx
  | y :: ys, h, x, hx => by
    obtain ⟨h1, h2⟩ := aliasOkSels_cons h
    rcases List.mem_cons.mp hx with rfl | hx'
    · exact h1
    · exact aliasOkSels_mem h2 x hx'

theorem aliasFrOk_mem {c : Ctx} {sub : List Sel} (h : aliasFrOk c sub = true) {t : TypeId} {g : Nat}
    (hm : Sel.inline t [.spread g] ∈ sub) : (∃ i, t = .object i) ∧ fragOk c.s c.q c.o t g = true := by
  simp only [aliasFrOk, List.all_eq_true] at h
  have := h _ hm
  cases t with
  | object i => exact ⟨⟨i, rfl⟩, this⟩
  | _ => simp at this

theorem aliasFrOk_tail {c : Ctx} {x : Sel} {xs : List Sel} (h : aliasFrOk c (x :: xs) = true) : aliasFrOk c xs = true := by
  simp only [aliasFrOk, List.all_cons, Bool.and_eq_true] at h ⊢
  exact h.2

theorem aliasInl_none_not_lone {x : Sel} (h : aliasInl x = none) : ∀ t g, x ≠ .inline t [.spread g] := by
  intro t g heq; subst heq; simp [aliasInl] at h

/-! ## Theorem 1 for `VariantSpreadOp2` -/

section CalcR
variable (c : Ctx) (hn : c.o.normalization = .none) (N M : Nat)

def R1oF (fuel : Nat) : Prop := ∀ name pfx i sels e, selsDepth sels ≤ e → selsSize sels ≤ N →
  C02.Sb N M e ≤ fuel → sSels c.s c.q c.o false (normSels sels) = true → aliasOkSels c sels = true →
  calcSelection c fuel name pfx (.object i) sels = .ok (structItemsS c name pfx (normSels sels))
def R1aF (fuel : Nat) : Prop := ∀ name pfx ty sels e, selsDepth sels ≤ e → selsSize sels ≤ N →
  C02.Sb N M e ≤ fuel → absHyp c.s ty → sSels c.s c.q c.o true (normSels sels) = true →
  absOkL c.s c.q c.o ty (normSels sels) = true → aliasAt c (vtsOfTy c.s ty) sels = true → aliasOkSels c sels = true →
  calcSelection c fuel name pfx ty sels = .ok (absItemsL c name pfx ty (normSels sels))
def R2F (fuel : Nat) : Prop := ∀ name pfx ty sels vts e, InlB N e sels →
  vts.length + 1 + sels.length + 1 + C02.Fneed N M e N ≤ fuel →
  absHyp c.s ty → sSels c.s c.q c.o true (normSels sels) = true → SpreadsA c ty (normSels sels) →
  aliasFrOk c sels = true → (∀ vt ∈ vts, edgeOk c vt sels = true) → aliasOkSels c sels = true →
  (∀ t ∈ vts, ∃ i, t = .object i ∧ (c.s.objects[i]?).isSome = true) →
  calcVariants c fuel name pfx (vselsOfS c.q ty sels) vts =
    .ok (vts.map (variantOf c pfx (marks c.q (normSels sels))),
         vts.flatMap (fun vt => variantHead c pfx vt (normSels sels) ++ varItems c pfx vt (normSels sels)))
def R3F (fuel : Nat) : Prop := ∀ sname pfx ty vt ms e, InlB N e ms →
  ms.length + 1 + C02.Fneed N M e N ≤ fuel →
  absHyp c.s ty → sSels c.s c.q c.o true (normSels ms) = true → SpreadsA c ty (normSels ms) →
  aliasFrOk c ms = true → aliasOkSels c ms = true → (∀ x ∈ ms, selOn c.q x = some vt) →
  (∃ i, vt = .object i ∧ (c.s.objects[i]?).isSome = true) →
  calcVariantSels c fuel sname pfx vt (vselsOfS c.q ty ms) =
    .ok (varFields c pfx vt (keepN ms), varItems c pfx vt (keepN ms), alItems c sname ms)
def R4F (fuel : Nat) : Prop := ∀ pfx ty sels e abs, selsDepth sels ≤ e → selsSize sels ≤ N →
  C02.Fneed N M e sels.length ≤ fuel → sSels c.s c.q c.o abs (keepN sels) = true → SpreadsA c ty (keepN sels) →
  aliasOkSels c sels = true →
  calcFields c fuel pfx ty sels = .ok (fieldsB c pfx ty (keepN sels), itemsSs c pfx (keepN sels))

theorem fieldsB_append (c : Ctx) (pfx : String) (ty : TypeId) (xs ys : List Sel) :
    fieldsB c pfx ty (xs ++ ys) = fieldsB c pfx ty xs ++ fieldsB c pfx ty ys := by
  simp [fieldsB]

theorem itemsSs_append (c : Ctx) (pfx : String) : ∀ (xs ys : List Sel),
    itemsSs c pfx (xs ++ ys) = itemsSs c pfx xs ++ itemsSs c pfx ys
  | [], ys => by simp [itemsSs]
  | x :: xs, ys => by rw [List.cons_append, itemsSs, itemsSs, itemsSs_append c pfx xs ys, List.append_assoc]

theorem itemsSs_movedN (c : Ctx) (pfx : String) : ∀ (sels : List Sel), itemsSs c pfx (movedN sels) = []
  | [] => rfl
  | x :: xs => by
    cases ha : aliasInl x with
    | none => rw [movedN_cons_keep ha]; exact itemsSs_movedN c pfx xs
    | some g => rw [movedN_cons_alias ha, itemsSs, itemsSs_movedN c pfx xs]; simp [itemsS]

/-- the moved spreads are on possible types, not on the abstract type itself: they add no interface-level member -/
theorem fieldsB_movedN (c : Ctx) (pfx : String) (ty : TypeId) : ∀ (sels : List Sel),
    (∀ t g, Sel.inline t [.spread g] ∈ sels → ∃ f, c.q.fragments[g]? = some f ∧ f.on ≠ ty) →
    fieldsB c pfx ty (movedN sels) = []
  | [], _ => rfl
  | x :: xs, h => by
    have ih := fieldsB_movedN c pfx ty xs (fun t g hm => h t g (List.mem_cons_of_mem _ hm))
    cases ha : aliasInl x with
    | none => rw [movedN_cons_keep ha]; exact ih
    | some g =>
      obtain ⟨t, rfl⟩ := aliasInl_some ha
      obtain ⟨f, hf, hne⟩ := h t g (by simp)
      have hne' : (f.on == ty) = false := by simpa using hne
      rw [movedN_cons_alias ha]
      simp only [fieldsB, List.filterMap_cons, fieldOfSelB, hf, hne', Bool.false_eq_true, ↓reduceIte]
      exact ih

theorem stepR1oF (f : Nat) (H4 : R4F c N M f) : R1oF c N M (f + 1) := by
  intro name pfx i sels e hD hS hF ht hal
  have hmv := movedN_nil_of_obj ht
  have hns : normSels sels = keepN sels := by simp [normSels, hmv]
  rw [hns] at ht ⊢
  have hlone : ∀ g, sels = [Sel.spread g] → False := by
    intro g hg; subst hg
    simp [keepN, aliasInl, normSel, sSels, sSel] at ht
  rw [calcSelection.eq_3 _ _ _ _ _ _ hlone]
  have hv : variantsOf c.s (.object i) = .ok none := rfl
  have hL := C02.length_le_selsSize sels
  have hfields := H4 pfx (.object i) sels e false hD hS (by
    cases e with
    | zero => simp only [C02.Fneed]; unfold C02.Sb at hF; omega
    | succ e' => simp only [C02.Fneed]; rw [C02.Sb_succ] at hF; omega) ht (spreadsA_obj ht) hal
  simp only [hv, bind, Except.bind, pure, Except.pure, hfields,
    fieldsB_noSpread c pfx _ (keepN sels) (no_spread_of_sSels ht)]
  simp [renderType, structItemsS]

include hn in
theorem stepR4F (f : Nat) (H1o : R1oF c N M f) (H1a : R1aF c N M f) (H4 : R4F c N M f) : R4F c N M (f + 1) := by
  intro pfx ty sels e abs hD hS hF ht hsp hal
  cases sels with
  | nil => rw [calcFields.eq_2 _ _ _ _ (by omega)]; rfl
  | cons x rest =>
    cases e with
    | zero => have := C02.selsDepth_cons_pos x rest; omega
    | succ e =>
      rw [selsDepth.eq_2] at hD
      rw [selsSize.eq_2] at hS
      simp only [C02.Fneed, List.length_cons] at hF
      obtain ⟨halx, halr⟩ := aliasOkSels_cons hal
      cases ha : aliasInl x with
      | some g =>
        obtain ⟨t, rfl⟩ := aliasInl_some ha
        rw [keepN_cons_alias ha] at ht hsp ⊢
        have hR := H4 pfx ty rest (e + 1) abs (by omega) (by omega) (by simp only [C02.Fneed]; omega) ht hsp halr
        rw [calcFields.eq_5 _ _ _ _ _ _ (by simp) (by simp), hR]
      | none =>
        rw [keepN_cons_keep ha] at ht hsp ⊢
        obtain ⟨hx, hrest⟩ := sSels_cons ht
        have hR := H4 pfx ty rest (e + 1) abs (by omega) (by omega) (by simp only [C02.Fneed]; omega) hrest hsp.tail halr
        cases x with
        | field a fid sub =>
          rw [selDepth.eq_1] at hD
          rw [selSize.eq_1] at hS
          rw [calcFields.eq_3]
          rw [normSel_field] at hx ⊢
          rw [sSel] at hx
          rw [aliasOkSel, Bool.and_eq_true] at halx
          cases hsf : c.s.fields[fid]? with
          | none => simp [hsf] at hx
          | some sf =>
            simp only [hsf, Bool.and_eq_true] at hx halx
            obtain ⟨⟨hw, hdep⟩, hty⟩ := hx
            have hdep' : (sf.deprecation.isSome && c.o.deprecation == .deny) = false := by
              cases hd : (sf.deprecation.isSome && c.o.deprecation == .deny) with
              | false => rfl
              | true => simp [hd] at hdep
            simp only [getField_of hsf, bind, Except.bind]
            cases hid : sf.ty.id with
            | scalar k =>
              simp only [hid, Bool.and_eq_true, List.isEmpty_iff] at hty
              cases hk : c.s.scalars[k]? with
              | none => simp [hk] at hty
              | some sn =>
                simp only [getScalar_of hk, hn, C02.fieldType_none, renderField_tree c _ _ _ _ hw hdep', hR,
                  pure, Except.pure]
                simp [fieldsB, fieldOfSelB, itemsSs, itemsS, fieldOfSelV, hsf, hid, leafNameV, hk]
            | «enum» k =>
              simp only [hid, Bool.and_eq_true, List.isEmpty_iff] at hty
              cases hk : c.s.enums[k]? with
              | none => simp [hk] at hty
              | some en =>
                simp only [getEnum_of hk, hn, C02.fieldType_none, renderField_tree c _ _ _ _ hw hdep', hR,
                  pure, Except.pure]
                simp [fieldsB, fieldOfSelB, itemsSs, itemsS, fieldOfSelV, hsf, hid, leafNameV, hk]
            | object i =>
              simp only [hid, Bool.and_eq_true] at hty
              have hS' := H1o (pfx ++ c.cs.camel (a.getD sf.name)) (pfx ++ c.cs.camel (a.getD sf.name)) i sub e
                (by omega) (by omega) (by omega) hty.1.2 halx.2
              simp only [renderField_tree c _ _ _ _ hw hdep', hS', hR, pure, Except.pure]
              simp [fieldsB, fieldOfSelB, itemsSs, itemsS, fieldOfSelV, hsf, hid, leafNameV, structItemsS]
            | interface k =>
              simp only [hid, Bool.and_eq_true] at hty halx
              have hS' := H1a (pfx ++ c.cs.camel (a.getD sf.name)) (pfx ++ c.cs.camel (a.getD sf.name)) (.interface k) sub e
                (by omega) (by omega) (by omega) hty.1.1 hty.1.2 hty.2 halx.1 halx.2
              simp only [renderField_tree c _ _ _ _ hw hdep', hS', hR, pure, Except.pure]
              simp [fieldsB, fieldOfSelB, itemsSs, itemsS, fieldOfSelV, hsf, hid, leafNameV, absItemsS, absItemsL]
            | union k =>
              simp only [hid, Bool.and_eq_true] at hty halx
              have hS' := H1a (pfx ++ c.cs.camel (a.getD sf.name)) (pfx ++ c.cs.camel (a.getD sf.name)) (.union k) sub e
                (by omega) (by omega) (by omega) hty.1.1 hty.1.2 hty.2 halx.1 halx.2
              simp only [renderField_tree c _ _ _ _ hw hdep', hS', hR, pure, Except.pure]
              simp [fieldsB, fieldOfSelB, itemsSs, itemsS, fieldOfSelV, hsf, hid, leafNameV, absItemsS, absItemsL]
            | input k => simp [hid] at hty
        | spread g =>
          rw [calcFields.eq_4]
          have hns : normSel (.spread g) = .spread g := by rw [normSel]
          rw [hns] at hsp ⊢
          have h2 : itemsS c pfx (.spread g) = [] := by simp [itemsS]
          rcases hsp g (by simp) with ⟨vt, fr, _, hfr, hon, hne⟩ | ⟨fr, hokB, hfr, hon⟩
          · have hne' : (fr.on != ty) = true := by rw [hon]; simpa using hne
            have hne2 : (fr.on == ty) = false := by rw [hon]; simpa using hne
            simp only [getFragment_of hfr, bind, Except.bind, hR, hne', ↓reduceIte, pure, Except.pure]
            simp [fieldsB, fieldOfSelB, hfr, hne2, itemsSs, h2]
          · obtain ⟨fr', hfr', _, hname, _, _⟩ := fragOkB_parts hokB
            rw [hfr] at hfr'; cases hfr'
            have hne' : (fr.on != ty) = false := by simp [hon]
            simp only [getFragment_of hfr, bind, Except.bind, hR, hne', Bool.false_eq_true, ↓reduceIte,
              not_recursive_of_fragOkB hokB, renderField_spread c fr hname, pure, Except.pure]
            simp [fieldsB, fieldOfSelB, hfr, hon, itemsSs, h2]
        | inline t sub =>
          rw [calcFields.eq_5 _ _ _ _ _ _ (by simp) (by simp), hR, normSel_inline]
          have h2 : itemsS c pfx (.inline t (normSels sub)) = [] := by simp [itemsS]
          have h1 : fieldOfSelB c pfx ty (.inline t (normSels sub)) = none := rfl
          simp [fieldsB, List.filterMap_cons, h1, itemsSs, h2]
        | typename =>
          have hns : normSel .typename = .typename := by rw [normSel]
          rw [calcFields.eq_5 _ _ _ _ _ _ (by simp) (by simp), hR, hns]
          have h2 : itemsS c pfx .typename = [] := by simp [itemsS]
          have h1 : fieldOfSelB c pfx ty .typename = none := rfl
          simp [fieldsB, List.filterMap_cons, h1, itemsSs, h2]

end CalcR

/-! ### normalization at the level of one variant -/

theorem selOn_normSel (q : Query) (x : Sel) : selOn q (normSel x) = selOn q x := by
  cases x with
  | field a fid sub => rw [normSel_field]; rfl
  | inline t sub => rw [normSel_inline]; rfl
  | spread g => rw [normSel]
  | typename => rw [normSel]

/-- the aliased inline fragments of a selection set are on the type of their fragment -/
def AliasOn (q : Query) (sels : List Sel) : Prop :=
  ∀ t g, Sel.inline t [.spread g] ∈ sels → ∃ f, q.fragments[g]? = some f ∧ f.on = t

theorem aliasOn_of {c : Ctx} {sels : List Sel} (h : aliasFrOk c sels = true) : AliasOn c.q sels := by
  intro t g hm
  obtain ⟨_, hok⟩ := aliasFrOk_mem h hm
  obtain ⟨f, hf, hon, _⟩ := fragOk_parts hok
  exact ⟨f, hf, hon⟩

theorem AliasOn.tail {q : Query} {x : Sel} {xs : List Sel} (h : AliasOn q (x :: xs)) : AliasOn q xs :=
  fun t g hm => h t g (List.mem_cons_of_mem _ hm)

theorem keepN_filter_onVt (q : Query) (vt : TypeId) : ∀ (sels : List Sel),
    (keepN sels).filter (onVt q vt) = keepN (sels.filter (onVt q vt))
  | [] => rfl
  | x :: xs => by
    have ih := keepN_filter_onVt q vt xs
    cases ha : aliasInl x with
    | some g =>
      rw [keepN_cons_alias ha, ih, List.filter_cons]
      split
      · rw [keepN_cons_alias ha]
      · rfl
    | none =>
      rw [keepN_cons_keep ha, List.filter_cons, List.filter_cons]
      have : onVt q vt (normSel x) = onVt q vt x := by simp [onVt, selOn_normSel]
      rw [this]
      split
      · rw [keepN_cons_keep ha, ih]
      · exact ih

theorem movedN_filter_onVt (q : Query) (vt : TypeId) : ∀ (sels : List Sel), AliasOn q sels →
    (movedN sels).filter (onVt q vt) = movedN (sels.filter (onVt q vt))
  | [], _ => rfl
  | x :: xs, hal => by
    have ih := movedN_filter_onVt q vt xs hal.tail
    cases ha : aliasInl x with
    | some g =>
      obtain ⟨t, rfl⟩ := aliasInl_some ha
      obtain ⟨f, hf, hon⟩ := hal t g (by simp)
      have : onVt q vt (.spread g) = onVt q vt (.inline t [.spread g]) := by simp [onVt, selOn, hf, hon]
      rw [movedN_cons_alias ha, List.filter_cons, List.filter_cons, this]
      split
      · rw [movedN_cons_alias ha, ih]
      · exact ih
    | none =>
      rw [movedN_cons_keep ha, ih, List.filter_cons]
      split
      · rw [movedN_cons_keep ha]
      · rfl

/-- the selections on a variant of the normalized selection set: the normalized selections on the variant -/
theorem mineOf_normSels (q : Query) (vt : TypeId) (sels : List Sel) (hal : AliasOn q sels) :
    mineOf q vt (normSels sels) = normSels (mineOf q vt sels) := by
  unfold mineOf normSels
  rw [List.filter_append, keepN_filter_onVt, movedN_filter_onVt q vt sels hal]

theorem length_normSels : ∀ (sels : List Sel), (normSels sels).length = sels.length
  | [] => rfl
  | x :: xs => by
    have ih := length_normSels xs
    unfold normSels at ih ⊢
    cases ha : aliasInl x with
    | some g => rw [keepN_cons_alias ha, movedN_cons_alias ha]; simp only [List.length_append, List.length_cons] at ih ⊢; omega
    | none => rw [keepN_cons_keep ha, movedN_cons_keep ha]; simp only [List.length_append, List.length_cons] at ih ⊢; omega

theorem normSels_eq_nil {sels : List Sel} : normSels sels = [] ↔ sels = [] := by
  constructor
  · intro h
    have := length_normSels sels
    rw [h] at this
    exact List.length_eq_zero_iff.mp this.symm
  · intro h; subst h; rfl

theorem varFields_append (c : Ctx) (pfx : String) (vt : TypeId) : ∀ (xs ys : List Sel),
    varFields c pfx vt (xs ++ ys) = varFields c pfx vt xs ++ varFields c pfx vt ys
  | [], ys => by simp [varFields]
  | x :: xs, ys => by
    have ih := varFields_append c pfx vt xs ys
    cases x with
    | inline t isub => rw [List.cons_append, varFields, varFields, ih, List.append_assoc]
    | spread g => rw [List.cons_append, varFields, varFields, ih, List.append_assoc]
    | field a fid sub => simpa [varFields] using ih
    | typename => simpa [varFields] using ih

theorem varItems_append (c : Ctx) (pfx : String) (vt : TypeId) : ∀ (xs ys : List Sel),
    varItems c pfx vt (xs ++ ys) = varItems c pfx vt xs ++ varItems c pfx vt ys
  | [], ys => by simp [varItems]
  | x :: xs, ys => by rw [List.cons_append, varItems, varItems, varItems_append c pfx vt xs ys, List.append_assoc]

theorem varItems_movedN (c : Ctx) (pfx : String) (vt : TypeId) : ∀ (sels : List Sel), varItems c pfx vt (movedN sels) = []
  | [] => rfl
  | x :: xs => by
    cases ha : aliasInl x with
    | none => rw [movedN_cons_keep ha]; exact varItems_movedN c pfx vt xs
    | some g => rw [movedN_cons_alias ha, varItems, varItems_movedN c pfx vt xs]; simp [varItem]

/-- the aliased inline fragments of the selections on a variant, rendered as flattened members -/
theorem aliasMembers (c : Ctx) (sname pfx : String) (vt : TypeId) : ∀ (ms : List Sel), aliasFrOk c ms = true →
    (∀ x ∈ ms, selOn c.q x = some vt) →
    ∃ L, (alItems c sname ms).mapM (aliasMember c) = .ok L ∧ L.flatten = varFields c pfx vt (movedN ms)
  | [], _, _ => ⟨[], rfl, rfl⟩
  | x :: xs, hal, hon => by
    obtain ⟨L, hL, hLf⟩ := aliasMembers c sname pfx vt xs (aliasFrOk_tail hal) (fun y hy => hon y (List.mem_cons_of_mem _ hy))
    cases ha : aliasInl x with
    | none =>
      refine ⟨L, ?_, ?_⟩
      · simpa [alItems, List.filterMap_cons, ha] using hL
      · rw [movedN_cons_keep ha]; exact hLf
    | some g =>
      obtain ⟨t, rfl⟩ := aliasInl_some ha
      obtain ⟨_, hok⟩ := aliasFrOk_mem hal (List.mem_cons_self)
      obtain ⟨fr, hfr, hfon, hname, _, _⟩ := fragOk_parts hok
      have htv : t = vt := by simpa [selOn] using hon _ (List.mem_cons_self)
      have hal1 : alItems c sname (Sel.inline t [.spread g] :: xs) =
          aliasItem sname fr.name false :: alItems c sname xs := by
        simp [alItems, List.filterMap_cons, ha, fragName, hfr]
      refine ⟨[memberField c fr] :: L, ?_, ?_⟩
      · rw [hal1, List.mapM_cons]
        have hL' : (alItems c sname xs).mapM (aliasMember c) = .ok L := hL
        simp only [aliasItem, Bool.false_eq_true, ↓reduceIte, aliasMember, renderField_member c fr hname, hL', bind,
          Except.bind, pure, Except.pure, Option.toList]
      · rw [movedN_cons_alias ha, varFields]
        simp [hfr, hfon, htv, hLf]

section CalcR2
variable (c : Ctx) (hn : c.o.normalization = .none) (N M : Nat)

theorem stepR3F (f : Nat) (H3 : R3F c N M f) (H4 : R4F c N M f) : R3F c N M (f + 1) := by
  intro sname pfx ty vt ms e hI hF hty ht hsp hal halo hon hobj
  cases ms with
  | nil => rw [show vselsOfS c.q ty [] = [] from rfl, calcVariantSels.eq_2 _ _ _ _ _ (by omega)]; rfl
  | cons x rest =>
    simp only [List.length_cons] at hF
    obtain ⟨halox, halor⟩ := aliasOkSels_cons halo
    obtain ⟨i, rfl, hi⟩ := hobj
    have hvne : TypeId.object i ≠ ty := obj_ne_abs hty i
    have honx := hon x (by simp)
    cases ha : aliasInl x with
    | some g =>
      obtain ⟨t, rfl⟩ := aliasInl_some ha
      have htv : t = .object i := by simpa [selOn] using honx
      subst htv
      have hnr : normSels (Sel.inline (.object i) [.spread g] :: rest) = keepN rest ++ (.spread g :: movedN rest) := by
        simp [normSels, keepN_cons_alias ha, movedN_cons_alias ha]
      have htr : sSels c.s c.q c.o true (normSels rest) = true := by
        rw [hnr] at ht
        obtain ⟨h1, h2⟩ := sSels_of_append ht
        exact sSels_append h1 (sSels_cons h2).2
      have hspr : SpreadsA c ty (normSels rest) := by
        intro g' hg'
        apply hsp g'
        rw [hnr]
        rcases List.mem_append.mp hg' with h | h
        · exact List.mem_append_left _ h
        · exact List.mem_append_right _ (List.mem_cons_of_mem _ h)
      have hR := H3 sname pfx ty (.object i) rest e (fun t sub hm => hI t sub (List.mem_cons_of_mem _ hm)) (by omega) hty
        htr hspr (aliasFrOk_tail hal) halor (fun y hy => hon y (List.mem_cons_of_mem _ hy)) ⟨i, rfl, hi⟩
      obtain ⟨_, hok⟩ := aliasFrOk_mem hal (List.mem_cons_self)
      obtain ⟨fr, hfr, _, _, _, _⟩ := fragOk_parts hok
      rw [show vselsOfS c.q ty (Sel.inline (.object i) [.spread g] :: rest) =
        .inline (.object i) [.spread g] :: vselsOfS c.q ty rest from rfl, calcVariantSels.eq_3, keepN_cons_alias ha]
      simp only [typeName_obj hi, getFragment_of hfr, not_recursive_of_fragOk hok, bind, Except.bind, pure, Except.pure, hR]
      simp [alItems, List.filterMap_cons, ha, fragName, hfr]
    | none =>
      have hnr : normSels (x :: rest) = normSel x :: normSels rest := by
        simp [normSels, keepN_cons_keep ha, movedN_cons_keep ha]
      rw [hnr] at ht hsp
      obtain ⟨hx, hrest⟩ := sSels_cons ht
      have hR := H3 sname pfx ty (.object i) rest e (fun t sub hm => hI t sub (List.mem_cons_of_mem _ hm)) (by omega) hty
        hrest hsp.tail (aliasFrOk_tail hal) halor (fun y hy => hon y (List.mem_cons_of_mem _ hy)) ⟨i, rfl, hi⟩
      have hal0 : alItems c sname (x :: rest) = alItems c sname rest := by simp [alItems, List.filterMap_cons, ha]
      rw [keepN_cons_keep ha, hal0]
      cases x with
      | inline t isub =>
        simp only [selOn, Option.some.injEq] at honx
        subst honx
        obtain ⟨hd, hs⟩ := hI _ _ (List.mem_cons_self)
        rw [normSel_inline] at hx ⊢
        simp only [sSel, Bool.and_eq_true] at hx
        have hsubN := hx.1.2
        have hmv := movedN_nil_of_obj hsubN
        have hns : normSels isub = keepN isub := by simp [normSels, hmv]
        rw [hns] at hsubN
        rw [aliasOkSel] at halox
        have hfields := H4 (pfx ++ "On" ++ c.cs.camel (objName c.s (.object i))) (.object i) isub e false hd hs (by
          have := C02.Fneed_mono N M e (Nat.le_trans (C02.length_le_selsSize isub) hs)
          omega) hsubN (spreadsA_obj hsubN) halox
        rw [fieldsB_noSpread c _ _ (keepN isub) (no_spread_of_sSels hsubN)] at hfields
        have hnl : ∀ fid, isub = [Sel.spread fid] → False := by
          intro fid h; subst h; simp [aliasInl] at ha
        rw [show vselsOfS c.q ty (Sel.inline (.object i) isub :: rest) = .inline (.object i) isub :: vselsOfS c.q ty rest from rfl,
          calcVariantSels.eq_4 _ _ _ _ _ _ _ _ hnl]
        simp only [typeName_obj hi, bind, Except.bind, pure, Except.pure, hfields, hR]
        simp [varFields, varItems, varItem, hns]
      | spread g =>
        have hns : normSel (.spread g) = .spread g := by rw [normSel]
        rw [hns] at hsp ⊢
        obtain ⟨fr, hok, hfr, hfon⟩ := hsp.onVt hvne (List.mem_cons_self) honx
        obtain ⟨fr', hfr', _, hname, _, _⟩ := fragOk_parts hok
        rw [hfr] at hfr'; cases hfr'
        have hne2 : (fr.on == ty) = false := by rw [hfon]; simpa using hvne
        rw [show vselsOfS c.q ty (Sel.spread g :: rest) = .spread g fr :: vselsOfS c.q ty rest from by
          simp [vselsOfS, vselOfS, hfr, hne2, List.filterMap_cons], calcVariantSels.eq_5]
        simp only [not_recursive_of_fragOk hok, renderField_member c fr hname, bind, Except.bind, pure, Except.pure, hR]
        simp [varFields, varItems, varItem, hfr, hfon]
      | field a fid sub => simp [selOn] at honx
      | typename => simp [selOn] at honx

end CalcR2

theorem isEmpty_append' {α} (xs ys : List α) : (xs ++ ys).isEmpty = (xs.isEmpty && ys.isEmpty) := by
  cases xs <;> simp

theorem fieldOfSelV_isSome_pfx (c : Ctx) (p p' : String) (x : Sel) :
    (fieldOfSelV c p x).isSome = (fieldOfSelV c p' x).isSome := by
  cases x with
  | field a fid sub =>
    simp only [fieldOfSelV]
    cases hsf : c.s.fields[fid]? with
    | none => rfl
    | some sf =>
      simp only []
      cases hid : sf.ty.id <;> simp [leafNameV, hid] <;> (split <;> simp_all)
  | _ => rfl

theorem fieldsOfV_isEmpty_pfx (c : Ctx) (p p' : String) : ∀ (sels : List Sel),
    (fieldsOfV c p sels).isEmpty = (fieldsOfV c p' sels).isEmpty
  | [] => rfl
  | x :: xs => by
    have ih := fieldsOfV_isEmpty_pfx c p p' xs
    have hx := fieldOfSelV_isSome_pfx c p p' x
    unfold fieldsOfV at ih ⊢
    rw [List.filterMap_cons, List.filterMap_cons]
    cases h1 : fieldOfSelV c p x <;> cases h2 : fieldOfSelV c p' x <;> simp_all

theorem varFields_isEmpty_pfx (c : Ctx) (p p' : String) (vt : TypeId) : ∀ (sels : List Sel),
    (varFields c p vt sels).isEmpty = (varFields c p' vt sels).isEmpty
  | [] => rfl
  | x :: xs => by
    have ih := varFields_isEmpty_pfx c p p' vt xs
    cases x with
    | inline t isub =>
      rw [varFields, varFields]
      simp only [isEmpty_append', ih]
      split
      · rw [fieldsOfV_isEmpty_pfx c (p ++ "On" ++ c.cs.camel (objName c.s t)) (p' ++ "On" ++ c.cs.camel (objName c.s t)) isub]
      · rfl
    | spread g => rw [varFields, varFields]; simp only [isEmpty_append', ih]
    | field a fid sub => simpa [varFields] using ih
    | typename => simpa [varFields] using ih

theorem length_alItems (c : Ctx) (sname : String) : ∀ (ms : List Sel), (alItems c sname ms).length = (movedN ms).length
  | [] => rfl
  | x :: xs => by
    have ih := length_alItems c sname xs
    cases ha : aliasInl x with
    | none => simpa [alItems, movedN, List.filterMap_cons, ha] using ih
    | some g => simpa [alItems, movedN, List.filterMap_cons, ha] using ih

theorem mem_keepN_spread {sels : List Sel} {g : Nat} (h : Sel.spread g ∈ sels) : Sel.spread g ∈ keepN sels := by
  induction sels with
  | nil => simp at h
  | cons x xs ih =>
    cases ha : aliasInl x with
    | some g' =>
      rw [keepN_cons_alias ha]
      rcases List.mem_cons.mp h with heq | h'
      · subst heq; simp [aliasInl] at ha
      · exact ih h'
    | none =>
      rw [keepN_cons_keep ha]
      rcases List.mem_cons.mp h with heq | h'
      · subst heq; rw [normSel]; simp
      · exact List.mem_cons_of_mem _ (ih h')

theorem mem_keepN_of {sels : List Sel} {x : Sel} (h : x ∈ sels) (ha : aliasInl x = none) : normSel x ∈ keepN sels := by
  induction sels with
  | nil => simp at h
  | cons y ys ih =>
    rcases List.mem_cons.mp h with heq | h'
    · subst heq; rw [keepN_cons_keep ha]; simp
    · cases hy : aliasInl y with
      | some g' => rw [keepN_cons_alias hy]; exact ih h'
      | none => rw [keepN_cons_keep hy]; exact List.mem_cons_of_mem _ (ih h')

theorem normSels_single_spread {ms : List Sel} {g : Nat} (h : normSels ms = [Sel.spread g]) :
    ms = [Sel.spread g] ∨ ∃ t, ms = [Sel.inline t [.spread g]] := by
  have hlen := length_normSels ms
  rw [h] at hlen
  cases ms with
  | nil => simp at hlen
  | cons x xs =>
    cases xs with
    | cons y ys => simp at hlen
    | nil =>
      cases ha : aliasInl x with
      | some g' =>
        obtain ⟨t, rfl⟩ := aliasInl_some ha
        have e1 : normSels [Sel.inline t [.spread g']] = [.spread g'] := by
          unfold normSels; rw [keepN_cons_alias ha, movedN_cons_alias ha]; rfl
        rw [e1] at h
        cases h
        exact .inr ⟨t, rfl⟩
      | none =>
        have e1 : normSels [x] = [normSel x] := by
          unfold normSels; rw [keepN_cons_keep ha, movedN_cons_keep ha]; rfl
        rw [e1] at h
        cases x with
        | spread g' => rw [normSel] at h; exact .inl h
        | field a fid sub => rw [normSel_field] at h; cases h
        | inline t sub => rw [normSel_inline] at h; cases h
        | typename => rw [normSel] at h; cases h

section CalcR3
variable (c : Ctx) (hn : c.o.normalization = .none) (N M : Nat)

theorem stepR2F (f : Nat) (H2 : R2F c N M f) (H3 : R3F c N M f) : R2F c N M (f + 1) := by
  intro name pfx ty sels vts e hI hF hty ht hsp hal hedge halo hobj
  cases vts with
  | nil => rw [calcVariants.eq_2 _ _ _ _ _ (by omega)]; rfl
  | cons vt rest =>
    simp only [List.length_cons] at hF
    have hrest := H2 name pfx ty sels rest e hI (by omega) hty ht hsp hal
      (fun t h => hedge t (List.mem_cons_of_mem _ h)) halo (fun t h => hobj t (List.mem_cons_of_mem _ h))
    obtain ⟨i, rfl, hi⟩ := hobj vt (by simp)
    rw [calcVariants.eq_3]
    have hvne : TypeId.object i ≠ ty := obj_ne_abs hty i
    simp only [typeName_obj hi, bind, Except.bind, filter_vselsOfS c.q ty _ hvne]
    have hmem : ∀ x ∈ mineOf c.q (.object i) sels, x ∈ sels ∧ selOn c.q x = some (.object i) := fun x hx => mem_mineOf hx
    have halOn := aliasOn_of hal
    have hmine := mineOf_normSels c.q (.object i) sels halOn
    have hemp : (mineOf c.q (.object i) (normSels sels)).isEmpty = (mineOf c.q (.object i) sels).isEmpty := by
      rw [hmine]
      cases hm : mineOf c.q (.object i) sels with
      | nil => rfl
      | cons y ys =>
        have : normSels (y :: ys) ≠ [] := fun h => by
          have := normSels_eq_nil.mp h; cases this
        cases hn' : normSels (y :: ys) with
        | nil => exact absurd hn' this
        | cons _ _ => rfl
    have hvo : variantOf c pfx (marks c.q (normSels sels)) (.object i) =
        if (mineOf c.q (.object i) sels).isEmpty then { name := objName c.s (.object i) }
        else { name := objName c.s (.object i), payload := some (.path (pfx ++ "On" ++ objName c.s (.object i))) } := by
      unfold variantOf; rw [marks_contains, hemp]; cases (mineOf c.q (.object i) sels).isEmpty <;> rfl
    have hvit : varItems c pfx (.object i) (normSels sels) = varItems c pfx (.object i) (keepN (mineOf c.q (.object i) sels)) := by
      rw [← varItems_mineOf c pfx (.object i) (normSels sels), hmine, normSels, varItems_append, varItems_movedN, List.append_nil]
    have hvfl : varFields c pfx (.object i) (normSels sels) =
        varFields c pfx (.object i) (keepN (mineOf c.q (.object i) sels)) ++
          varFields c pfx (.object i) (movedN (mineOf c.q (.object i) sels)) := by
      rw [← varFields_mineOf c pfx (.object i) (normSels sels), hmine, normSels, varFields_append]
    rw [List.map_cons, List.flatMap_cons, hvo, hvit]
    by_cases hm : mineOf c.q (.object i) sels = []
    · -- unit variant
      have hh : variantHead c pfx (.object i) (normSels sels) = [] := variantHead_nil (by rw [hmine, hm]; rfl)
      simp only [hm, show vselsOfS c.q ty [] = [] from rfl, hrest, pure, Except.pure, hh]
      simp [keepN, varItems]
    · by_cases hs : ∃ g, mineOf c.q (.object i) sels = [Sel.spread g]
      · -- a lone (direct) spread: the type alias
        obtain ⟨g, hg⟩ := hs
        have hgm := hmem (.spread g) (by rw [hg]; simp)
        have hgk : Sel.spread g ∈ normSels sels := List.mem_append_left _ (mem_keepN_spread hgm.1)
        obtain ⟨fr, hok, hfr, hfon⟩ := hsp.onVt hvne hgk hgm.2
        have hne2 : (fr.on == ty) = false := by rw [hfon]; simpa using hvne
        have hv : vselsOfS c.q ty [Sel.spread g] = [.spread g fr] := by simp [vselsOfS, vselOfS, hfr, hne2]
        have hnsg : normSels [Sel.spread g] = [Sel.spread g] := by
          simp [normSels, keepN, movedN, aliasInl, normSel]
        have hh := variantHead_alias (c := c) (pfx := pfx) (vt := .object i) (sub := normSels sels) (g := g)
          (by rw [hmine, hg, hnsg])
        simp only [hg, hv, hrest, pure, Except.pure, not_recursive_of_fragOk hok, hh]
        simp [keepN, aliasInl, normSel, varItems, varItem, fragName, hfr]
      · -- the selections of the variant contribute to one struct (or: a lone aliased inline fragment)
        have hs' : ∀ g, mineOf c.q (.object i) sels ≠ [Sel.spread g] := fun g hg => hs ⟨g, hg⟩
        have hfrs : ∀ g, Sel.spread g ∈ mineOf c.q (.object i) sels → ∃ f, c.q.fragments[g]? = some f :=
          fun g hg => hsp.frag g (List.mem_append_left _ (mem_keepN_spread (hmem _ hg).1))
        obtain ⟨v, vs, hvs, hnot⟩ := vselsOfS_shape c.q ty (.object i) hvne _ hfrs (fun x hx => (hmem x hx).2) hm hs'
        have hlen : (mineOf c.q (.object i) sels).length ≤ sels.length := List.length_filter_le _ _
        have halm : aliasFrOk c (mineOf c.q (.object i) sels) = true := by
          simp only [aliasFrOk, List.all_eq_true] at hal ⊢
          exact fun x hx => hal x (hmem x hx).1
        have htm : sSels c.s c.q c.o true (normSels (mineOf c.q (.object i) sels)) = true := by
          rw [← hmine]; exact sSels_filter _ ht
        have hspm : SpreadsA c ty (normSels (mineOf c.q (.object i) sels)) := by
          intro g hg
          rw [← hmine] at hg
          exact hsp g (mem_mineOf hg).1
        have halom : aliasOkSels c (mineOf c.q (.object i) sels) = true := by
          have : ∀ (l : List Sel), (∀ x ∈ l, aliasOkSel c x = true) → aliasOkSels c l = true := by
            intro l
            induction l with
            | nil => intro _; rfl
            | cons y ys ih => intro h; rw [aliasOkSels, h y (by simp), ih (fun x hx => h x (List.mem_cons_of_mem _ hx))]; rfl
          exact this _ (fun x hx => aliasOkSels_mem halo x (hmem x hx).1)
        have h3 := H3 (pfx ++ "On" ++ objName c.s (.object i)) pfx ty (.object i) (mineOf c.q (.object i) sels) e
          (fun t sub hmm => hI t sub (hmem _ hmm).1) (by omega) hty htm hspm halm halom
          (fun x hx => (hmem x hx).2) ⟨i, rfl, hi⟩
        rw [hvs] at h3
        have hemp' : (mineOf c.q (.object i) sels).isEmpty = false := by simpa using hm
        by_cases hA : ∃ t g, mineOf c.q (.object i) sels = [Sel.inline t [.spread g]]
        · -- a lone aliased inline fragment: the type alias
          obtain ⟨t, g, hg⟩ := hA
          obtain ⟨_, hok⟩ := aliasFrOk_mem halm (t := t) (g := g) (by rw [hg]; simp)
          obtain ⟨fr, hfr, _, _, _, _⟩ := fragOk_parts hok
          have ha : aliasInl (Sel.inline t [.spread g]) = some g := rfl
          have hk : keepN [Sel.inline t [.spread g]] = [] := by rw [keepN_cons_alias ha]; rfl
          have hmv : movedN [Sel.inline t [.spread g]] = [.spread g] := by rw [movedN_cons_alias ha]; rfl
          have hali : alItems c (pfx ++ "On" ++ objName c.s (.object i)) [Sel.inline t [.spread g]] =
              [aliasItem (pfx ++ "On" ++ objName c.s (.object i)) fr.name false] := by
            simp [alItems, aliasInl, fragName, hfr]
          have hh := variantHead_alias (c := c) (pfx := pfx) (vt := .object i) (sub := normSels sels) (g := g)
            (by rw [hmine, hg]; unfold normSels; rw [hk, hmv]; rfl)
          rw [hg, hk, hali] at h3
          -- (P41) a lone aliased inline fragment pushes no field for the variant struct
          have hpa : pushedAny c.q (.object i) (v :: vs) = false := by
            rw [← hvs, hg]; rfl
          simp only [hvs, h3, hrest, pure, Except.pure, hemp', hpa]
          simp only [hg, hk, hh]
          simp [varFields, varItems, fragName, hfr]
        · -- the variant struct
          have hnA : ∀ t g, mineOf c.q (.object i) sels ≠ [Sel.inline t [.spread g]] := fun t g h => hA ⟨t, g, h⟩
          obtain ⟨L, hL, hLf⟩ := aliasMembers c (pfx ++ "On" ++ objName c.s (.object i)) pfx (.object i) _ halm
            (fun x hx => (hmem x hx).2)
          have hstruct := variantHead_struct (c := c) (pfx := pfx) (vt := .object i) (sub := normSels sels)
            (by rw [hmine]; exact fun h => hm (normSels_eq_nil.mp h))
            (by
              intro g h
              rw [hmine] at h
              rcases normSels_single_spread h with h' | ⟨t, h'⟩
              · exact hs' g h'
              · exact hnA t g h')
          rw [hstruct]
          simp only [hvs, h3, hrest, pure, Except.pure, hemp']
          split
          · -- `[], [a]`: excluded by `edgeOk`
            rename_i a h1 h2
            exfalso
            -- (P41) the decision is taken on `pushedAny`; nothing pushed ⇒ no rendered field
            have h1 : varFields c pfx (.object i) (keepN (mineOf c.q (.object i) sels)) = [] :=
              Pushed.pushedAny_false_fields h3 h1
            have he := hedge (.object i) (by simp)
            simp only [edgeOk, Bool.not_eq_true', Bool.and_eq_false_iff, decide_eq_false_iff_not] at he
            have hlen1 : (movedN (mineOf c.q (.object i) sels)).length = 1 := by
              rw [← length_alItems c (pfx ++ "On" ++ objName c.s (.object i)), h2]; rfl
            have hfe : (varFields c "" (.object i) (keepN (mineOf c.q (.object i) sels))).isEmpty = true := by
              rw [varFields_isEmpty_pfx c "" pfx, h1]; rfl
            have hle : (mineOf c.q (.object i) sels).length ≤ 1 := by
              rcases he with (he | he) | he
              · rw [hfe] at he; cases he
              · simp [hlen1] at he
              · omega
            cases hmm : mineOf c.q (.object i) sels with
            | nil => exact hm hmm
            | cons y ys =>
              cases ys with
              | cons z zs => rw [hmm] at hle; simp at hle
              | nil =>
                cases hy : aliasInl y with
                | some g =>
                  obtain ⟨t, rfl⟩ := aliasInl_some hy
                  exact hnA t g hmm
                | none =>
                  rw [hmm, movedN_cons_keep hy] at hlen1
                  simp [movedN] at hlen1
          · simp only [hL, hLf, ← hvfl]
            simp [renderType]

theorem normSels_lone {sels : List Sel} {g : Nat} (h : normSels sels = [Sel.spread g]) :
    sels = [Sel.spread g] ∨ ∃ t, sels = [Sel.inline t [.spread g]] := by
  have hl := length_normSels sels
  rw [h] at hl
  cases sels with
  | nil => simp at hl
  | cons x xs =>
    cases xs with
    | cons y ys => simp at hl
    | nil =>
      unfold normSels at h
      cases ha : aliasInl x with
      | some g' =>
        obtain ⟨t, rfl⟩ := aliasInl_some ha
        rw [keepN_cons_alias ha, movedN_cons_alias ha] at h
        simp only [keepN, movedN, List.filterMap_nil, List.nil_append, List.cons.injEq, Sel.spread.injEq, and_true] at h
        subst h
        exact .inr ⟨t, rfl⟩
      | none =>
        rw [keepN_cons_keep ha, movedN_cons_keep ha] at h
        simp only [keepN, movedN, List.filterMap_nil, List.append_nil, List.cons.injEq, and_true] at h
        cases x with
        | spread g' => rw [normSel] at h; exact .inl (by rw [h])
        | field a fid sub => rw [normSel_field] at h; cases h
        | inline t sub => rw [normSel_inline] at h; cases h
        | typename => rw [normSel] at h; cases h

theorem stepR1aF (hM : ∀ ty vts, variantsOf c.s ty = .ok (some vts) → vts.length ≤ M)
    (f : Nat) (H2 : R2F c N M f) (H4 : R4F c N M f) : R1aF c N M (f + 1) := by
  intro name pfx ty sels e hD hS hF hty ht hokL hat halo
  simp only [aliasAt, Bool.and_eq_true, List.all_eq_true] at hat
  obtain ⟨hal, hedge⟩ := hat
  rcases absOkL_cases hokL with ⟨hok, hlg⟩ | ⟨g, hng, hokB⟩
  rotate_left
  · -- a lone spread of a fragment on the abstract type itself: the type alias
    obtain ⟨fr, hfr, hon, _, _, _⟩ := fragOkB_parts hokB
    have hs : sels = [Sel.spread g] := by
      rcases normSels_lone hng with h | ⟨t, h⟩
      · exact h
      · subst h
        obtain ⟨⟨i, rfl⟩, hokg⟩ := aliasFrOk_mem hal (t := t) (g := g) (by simp)
        obtain ⟨fr', hfr', hon', _⟩ := fragOk_parts hokg
        rw [hfr] at hfr'; cases hfr'
        exact absurd (hon'.symm.trans hon) (obj_ne_abs hty i)
    subst hs
    rw [calcSelection.eq_2]
    simp only [getFragment_of hfr, bind, Except.bind, pure, Except.pure, not_recursive_of_fragOkB hokB]
    simp [absItemsL, hng, loneG, fragName, hfr]
  have hns : ∀ g, sels = [Sel.spread g] → False := by
    intro g hg
    subst hg
    obtain ⟨hok1, _, _⟩ := absOkS_parts hok
    obtain ⟨htn, _⟩ := absOk2_parts hok1
    simp [normSels, keepN, movedN, aliasInl, normSel, isTypename] at htn
  rw [calcSelection.eq_3 _ _ _ _ _ _ hns]
  have hv : variantsOf c.s ty = .ok (some (vtsOfTy c.s ty)) := by
    apply variantsOf_abs
    cases ty <;> simp only [absHyp] at hty ⊢ <;> first | trivial | exact hty
  obtain ⟨hok1, _, _⟩ := absOkS_parts hok
  obtain ⟨_, _, hobj, _, _, _, _, _⟩ := absOk2_parts hok1
  have hspA := spreadsA_abs hty hok
  obtain ⟨htk, _⟩ := sSels_of_append (show sSels c.s c.q c.o true (keepN sels ++ movedN sels) = true from ht)
  have hspK : SpreadsA c ty (keepN sels) := fun g hg => hspA g (List.mem_append_left _ hg)
  have hL := C02.length_le_selsSize sels
  have hvl := hM ty _ hv
  have hfields := H4 pfx ty sels e true hD hS (by
    cases e with
    | zero => simp only [C02.Fneed]; unfold C02.Sb at hF; omega
    | succ e' => simp only [C02.Fneed]; rw [C02.Sb_succ] at hF; omega) htk hspK halo
  have hfb : fieldsB c pfx ty (normSels sels) = fieldsB c pfx ty (keepN sels) := by
    rw [normSels, fieldsB_append, fieldsB_movedN c pfx ty sels (fun t g hm => by
      obtain ⟨⟨i, rfl⟩, hokg⟩ := aliasFrOk_mem hal hm
      obtain ⟨fr, hfr, hon, _⟩ := fragOk_parts hokg
      exact ⟨fr, hfr, by rw [hon]; exact obj_ne_abs hty i⟩), List.append_nil]
  have hib : itemsSs c pfx (normSels sels) = itemsSs c pfx (keepN sels) := by
    rw [normSels, itemsSs_append, itemsSs_movedN, List.append_nil]
  have hvar : calcVariants c f name pfx (vselsOfS c.q ty sels) (vtsOfTy c.s ty) =
      .ok ((vtsOfTy c.s ty).map (variantOf c pfx (marks c.q (normSels sels))),
        (vtsOfTy c.s ty).flatMap (fun vt => variantHead c pfx vt (normSels sels) ++ varItems c pfx vt (normSels sels))) := by
    cases e with
    | zero =>
      have : sels = [] := by
        cases sels with
        | nil => rfl
        | cons x xs => have := C02.selsDepth_cons_pos x xs; omega
      subst this
      apply H2 name pfx ty [] _ 0 (fun t sub hm => by simp at hm) _ hty ht hspA hal hedge halo hobj
      simp only [C02.Fneed, List.length_nil]; unfold C02.Sb at hF; omega
    | succ e' =>
      have hI : InlB N e' sels := by
        intro t sub hm
        have h1 := C02.selDepth_le_of_mem hm
        have h2 := C02.selSize_le_of_mem hm
        rw [selDepth.eq_2] at h1
        rw [selSize.eq_2] at h2
        omega
      apply H2 name pfx ty sels _ e' hI _ hty ht hspA hal hedge halo hobj
      cases e' with
      | zero => simp only [C02.Fneed]; rw [C02.Sb_succ] at hF; unfold C02.Sb at hF; omega
      | succ e'' => simp only [C02.Fneed]; rw [C02.Sb_succ, C02.Sb_succ] at hF; omega
  have hfm := filterMapM_variantSelS c.q ty sels
    (fun g hg => hspA.frag g (List.mem_append_left _ (mem_keepN_spread hg)))
  simp only [hv, bind, Except.bind, pure, Except.pure, hfm, hvar, hfields]
  simp [absItemsL, hlg, absItemsS, variantsV, otherVariants, hfb, hib]

include hn in
theorem calc_variantspread2 (hM : ∀ ty vts, variantsOf c.s ty = .ok (some vts) → vts.length ≤ M) :
    ∀ fuel, R1oF c N M fuel ∧ R1aF c N M fuel ∧ R2F c N M fuel ∧ R3F c N M fuel ∧ R4F c N M fuel := by
  intro fuel
  induction fuel with
  | zero =>
    refine ⟨?_, ?_, ?_, ?_, ?_⟩
    · intro _ _ _ _ e _ _ h; unfold C02.Sb at h; omega
    · intro _ _ _ _ e _ _ h; unfold C02.Sb at h; omega
    · intro _ _ _ _ _ e _ h; omega
    · intro _ _ _ _ _ e _ h; omega
    · intro _ _ sels e _ _ _ h; have := C02.Fneed_pos N M e sels.length; omega
  | succ f ih =>
    obtain ⟨H1o, H1a, H2, H3, H4⟩ := ih
    exact ⟨stepR1oF c N M f H4, stepR1aF c N M hM f H2 H4, stepR2F c N M f H2 H3, stepR3F c N M f H3 H4,
      stepR4F c hn N M f H1o H1a H4⟩

end CalcR3

theorem variantSpreadOp2_parts {c : Ctx} {op : ROperation} (h : VariantSpreadOp2 c op = true) :
    aliasWfSels c.q op.sels = true ∧ aliasOkSels c op.sels = true ∧ VariantSpreadOp c (normOp op) = true := by
  simpa [VariantSpreadOp2, and_assoc] using h

/-- **Theorem 1 (`variantspread2_items_shape`).**  For an operation of the class `VariantSpreadOp2` the response items are those
    of `variantspread_items_shape` for the normalized selection set: an inline fragment `... on T { ...F }` next to other
    selections on `T` is one more flattened member `snake(F): F` of the variant struct, behind the others. -/
theorem variantspread2_items_shape (c : Ctx) (op : ROperation) (hop : op ∈ c.q.operations)
    (ht : VariantSpreadOp2 c op = true) :
    responseItems c op = .ok (structItemsS c "ResponseData" (c.cs.camel op.name) (normSels op.sels)) := by
  obtain ⟨_, hal, ht'⟩ := variantSpreadOp2_parts ht
  obtain ⟨hn, _, hsels, _⟩ := variantSpreadOp_parts ht'
  have H := (calc_variantspread2 c hn (C02.totalSize c.q) (c.s.objects.length + C02.maxUnion c.s)
    (C02.variants_length_le c.s) (calcFuel c.s c.q)).1
  apply H _ _ _ _ (C02.maxDepth c.q) (C02.op_depth_le c.q op hop) _ (calcFuel_Sb c) hsels hal
  apply C02.le_foldl_add
  left
  simp only [List.mem_append, List.mem_map]
  exact .inr ⟨op, hop, rfl⟩

end E2E
end C01
end GqlVerif
