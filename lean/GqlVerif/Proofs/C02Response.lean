import GqlVerif.Props.C02
import GqlVerif.Proofs.CalcVariantsPushed
/-!
# C02 — the response items of a generated module are closed and defined once

`Props/C02.lean` proves that the mentions of the emitted *input* items and of `Variables` are resolved
inside the module `Codegen.responseForQuery` emits.  This file proves the same for the **response
items** — the structs / tagged enums / aliases produced by `responseItems` and `fragmentItems` (the four
mutual `calc*` functions of `Model/Codegen.lean`, `renderType`, `renderField`) — and assembles the
executable scope check `Scope.wellScoped` on the whole module.  All statements are about the model's own
functions, for all schemas, queries, operations, options and case functions (no bound on sizes); core Lean
only.

* §2 one-step decompositions of a successful `calcSelection` / `calcVariants` / `calcVariantSels` /
  `calcFields` call (`calcSelection_ok`, `calcVariants_ok`, …): the only place where the `do` blocks are opened.
* §3 `calc_closed` — simultaneous induction over the four functions: the item list of a `calc*` call is
  closed (every mention is defined by an item of the same list, or resolved globally) whenever the used set
  covers the selections at hand (`Cov`, from `C02.selPhase_spec`) and the global part resolves the used
  enums / scalars / fragments (`GOK`).
* §4 **`response_mentions_resolved`** (normalization `none`, `supplied = externEnums`) and
  **`response_mentions_resolved_mapped`** (any normalization, explicit name mapping `NameMapOK`,
  `supplied = externSupplied`): every mention of every item of `fragmentItems` / `responseItems` is resolved
  in the emitted module.  No well-formedness or keyword hypothesis is needed for the response side.
* §5 **`module_well_scoped_partial`** / `module_no_undefined_mentions` — with the input / `Variables`
  theorems: every mention of *every* item of the module is resolved (`supplied = moduleSupplied`: extern
  enums and the paths of the custom scalars).
* §6 `calc_names`, **`module_defines_eq`** — the list of names the module defines equals `moduleNames`, a
  structurally recursive function of the selection trees (path-concatenated names); hence
  **`defines_nodup_iff`** / **`defines_nodup`**: no name is defined twice iff the decidable `NoClash` holds.
* §7 `calc_shape`, **`module_serde_crate`** — every item with a serde derive names the serde crate.
* §8 **`module_well_scoped_iff`** — under the hypotheses of §5, `Scope.wellScoped` holds on the emitted
  module iff `NoClash` holds and no item has two members of the same identifier.
* §9 non-vacuity (`richCtx`) and necessity witnesses: `normalization_needed`, `nameMap_needed`,
  `defines_dup_witness` (path collision `a.bC` / `aB.c`), `member_dup_witness` (field `on`),
  `keyword_enum_variable_mismatch`, `object_variable_unresolved`.
-/
namespace GqlVerif
namespace C02
open Codegen

/-! ## 0. scope vocabulary -/

theorem defines_append (a b : List Item) : Scope.defines (a ++ b) = Scope.defines a ++ Scope.defines b := by
  simp [Scope.defines, List.filterMap_append]

theorem defines_cons (a : Item) (b : List Item) :
    Scope.defines (a :: b) = (Scope.itemDefines a).toList ++ Scope.defines b := by
  cases h : Scope.itemDefines a <;> simp [Scope.defines, h]

@[simp] theorem defines_nil : Scope.defines [] = [] := rfl

/-- `n` is resolved by the items `ctx` or by the global part `G` of the module -/
def Res (G : String → Prop) (ctx : List Item) (n : String) : Prop := n ∈ Scope.defines ctx ∨ G n

/-- every mention of every item of `items` is resolved by `ctx` or globally -/
def ClosedIn (G : String → Prop) (ctx items : List Item) : Prop :=
  ∀ it ∈ items, ∀ n ∈ Scope.itemMentions it, Res G ctx n

theorem Res.mono {G : String → Prop} {a b : List Item} {n : String}
    (h : ∀ m ∈ Scope.defines a, m ∈ Scope.defines b) (hr : Res G a n) : Res G b n :=
  hr.elim (fun x => .inl (h _ x)) .inr

theorem ClosedIn.mono {G : String → Prop} {a b items : List Item}
    (h : ∀ m ∈ Scope.defines a, m ∈ Scope.defines b) (hc : ClosedIn G a items) : ClosedIn G b items :=
  fun it hit n hn => (hc it hit n hn).mono h

theorem ClosedIn.append {G : String → Prop} {ctx a b : List Item}
    (ha : ClosedIn G ctx a) (hb : ClosedIn G ctx b) : ClosedIn G ctx (a ++ b) := by
  intro it hit
  rcases List.mem_append.mp hit with h | h
  · exact ha it h
  · exact hb it h

theorem ClosedIn.nil {G : String → Prop} {ctx : List Item} : ClosedIn G ctx [] := by
  intro it hit; cases hit

/-! ## 1. `renderField`, `aliasItem`, `renderType` -/

theorem renderField_leaf {c : Ctx} {g : Option String} {r ft : String} {quals : List Qual} {fl bx : Bool}
    {dep : Option (Option String)} {o : Option RField}
    (h : renderField c g r ft quals fl bx dep = .ok o) : ∀ f ∈ o.toList, Scope.leaf f.ty = ft := by
  unfold renderField at h
  obtain ⟨ty, hty, h⟩ := bind_ok h
  have hl := decorateType_leaf hty
  rw [leaf_eq] at hl
  simp only [] at h
  split at h
  · simp only [pure, Except.pure, Except.ok.injEq] at h
    subst h; simp
  · simp only [pure, Except.pure, Except.ok.injEq] at h
    subst h
    intro f hf
    simp only [Option.toList_some, List.mem_singleton] at hf
    subst hf
    simp only []
    split
    · simpa [Scope.leaf, C02.leaf] using hl
    · simpa [Scope.leaf, C02.leaf] using hl

theorem aliasItem_mentions (n t : String) (b : Bool) : Scope.itemMentions (aliasItem n t b) = [t] := by
  cases b <;> rfl

theorem aliasItem_defines (n t : String) (b : Bool) : Scope.itemDefines (aliasItem n t b) = some n := by
  cases b <;> rfl

/-- `aliasMember` on an `aliasItem`: the flattened member rendered for the fragment -/
theorem aliasMember_aliasItem (c : Ctx) (n t : String) (b : Bool) :
    aliasMember c (aliasItem n t b) =
      (renderField c none (c.cs.snake t) t [.required] true b none >>= fun fld => pure fld.toList) := by
  cases b <;> rfl

theorem aliasMember_leaf {c : Ctx} {n t : String} {b : Bool} {fs : List RField}
    (h : aliasMember c (aliasItem n t b) = .ok fs) : ∀ f ∈ fs, Scope.leaf f.ty = t := by
  rw [aliasMember_aliasItem] at h
  obtain ⟨fld, hfld, h⟩ := bind_ok h
  simp only [pure, Except.pure, Except.ok.injEq] at h
  subst h
  exact renderField_leaf hfld

/-- the leaves of the flattened members made from aliased fragments are the alias targets -/
theorem aliasMembers_leaf {c : Ctx} {al : List Item} {extra : List (List RField)}
    (h : al.mapM (aliasMember c) = .ok extra) {P : String → Prop} {sname : String}
    (hal : ∀ a ∈ al, ∃ tgt b, a = aliasItem sname tgt b ∧ P tgt) :
    ∀ f ∈ extra.flatten, P (Scope.leaf f.ty) := by
  intro f hf
  obtain ⟨fs, hfs, hf⟩ := List.mem_flatten.mp hf
  obtain ⟨a, ha, hfa⟩ := mapM_ok_mem h fs hfs
  obtain ⟨tgt, b, rfl, ht⟩ := hal a ha
  rw [aliasMember_leaf hfa f hf]
  exact ht

theorem renderType_defines (c : Ctx) (name : String) (fs : List RField) (vs : List RVariant) :
    name ∈ Scope.defines (renderType c name fs vs) := by
  unfold renderType
  split
  · simp [Scope.defines, Scope.itemDefines, Item.name]
  · split <;> simp [Scope.defines, Scope.itemDefines, Item.name]

theorem renderType_closed {G : String → Prop} (c : Ctx) (name : String) (fs : List RField) (vs : List RVariant)
    (ctx : List Item)
    (hf : ∀ f ∈ fs, Res G ctx (Scope.leaf f.ty))
    (hv : ∀ v ∈ vs, ∀ t, v.payload = some t → Res G ctx (Scope.leaf t)) :
    ClosedIn G (renderType c name fs vs ++ ctx) (renderType c name fs vs) := by
  have mono : ∀ {n}, Res G ctx n → Res G (renderType c name fs vs ++ ctx) n :=
    fun h => h.mono (fun m hm => by simp [defines_append, hm])
  have htag : ∀ n, n ∈ Scope.itemMentions (.tagged (name ++ "On") c.respDerives c.serdeCrate "__typename" vs) ∨
      n ∈ Scope.itemMentions (.tagged name c.respDerives c.serdeCrate "__typename" vs) →
      Res G (renderType c name fs vs ++ ctx) n := by
    intro n hn
    simp only [Scope.itemMentions, List.mem_filterMap, or_self] at hn
    obtain ⟨v, hv', hvn⟩ := hn
    cases hp : v.payload with
    | none => simp [hp] at hvn
    | some t =>
      simp only [hp, Option.map_some, Option.some.injEq] at hvn
      subst hvn
      exact mono (hv v hv' t hp)
  intro it hit n hn
  unfold renderType at hit
  split at hit
  · simp only [List.mem_singleton] at hit
    subst hit
    exact htag n (.inr hn)
  · split at hit
    · simp only [List.mem_singleton] at hit
      subst hit
      simp only [Scope.itemMentions, List.mem_map] at hn
      obtain ⟨f, hf', rfl⟩ := hn
      exact mono (hf f hf')
    · simp only [List.mem_cons, List.not_mem_nil, or_false] at hit
      rcases hit with rfl | rfl
      · simp only [Scope.itemMentions, List.map_append, List.mem_append, List.mem_map, List.map_cons,
          List.map_nil, List.mem_singleton] at hn
        rcases hn with ⟨f, hf', rfl⟩ | rfl
        · exact mono (hf f hf')
        · refine .inl ?_
          rw [defines_append]
          apply List.mem_append_left
          unfold renderType
          rw [if_neg (by assumption), if_neg (by assumption)]
          simp [Scope.defines, Scope.itemDefines, Item.name, Scope.leaf]
      · exact htag n (.inl hn)

/-! ## 2. one-step decompositions of the `calc*` block -/

/-- the variants part of a successful `calcSelection` call -/
def VariantsPart (c : Ctx) (f : Nat) (name pfx : String) (ty : TypeId) (sels : List Sel)
    (rvariants : List RVariant) (vitems : List Item) : Prop :=
  (variantsOf c.s ty = .ok none ∧ rvariants = [] ∧ vitems = []) ∨
  ∃ vts vsels r, variantsOf c.s ty = .ok (some vts) ∧ sels.filterMapM (variantSelOf c.q ty) = .ok vsels ∧
    calcVariants c f name pfx vsels vts = .ok r ∧
    rvariants = r.1 ++ (if c.o.otherVariant then [{ name := "Unknown", other := true }] else []) ∧ vitems = r.2

theorem calcSelection_single_ok {c : Ctx} {f : Nat} {name pfx : String} {ty : TypeId} {g : Nat} {items : List Item}
    (h : calcSelection c (f + 1) name pfx ty [.spread g] = .ok items) :
    ∃ fr, c.q.fragments[g]? = some fr ∧ items = [aliasItem name fr.name (fragmentIsRecursive c.q g)] := by
  rw [calcSelection.eq_2] at h
  obtain ⟨fr, hfr, h⟩ := bind_ok h
  simp only [pure, Except.pure, Except.ok.injEq] at h
  exact ⟨fr, getFragment_ok hfr, h.symm⟩

theorem calcSelection_ok {c : Ctx} {f : Nat} {name pfx : String} {ty : TypeId} {sels : List Sel} {items : List Item}
    (hsp : ∀ g, sels ≠ [Sel.spread g])
    (h : calcSelection c (f + 1) name pfx ty sels = .ok items) :
    ∃ rvariants vitems rfields fitems, VariantsPart c f name pfx ty sels rvariants vitems ∧
      calcFields c f pfx ty sels = .ok (rfields, fitems) ∧
      items = renderType c name rfields rvariants ++ vitems ++ fitems := by
  rw [calcSelection.eq_3 _ _ _ _ _ _ (fun g hg => hsp g hg)] at h
  obtain ⟨variants, hv, h⟩ := bind_ok h
  simp only [] at h
  cases variants with
  | none =>
    simp only [pure_bind] at h
    obtain ⟨⟨rfields, fitems⟩, hfl, h⟩ := bind_ok h
    simp only [pure, Except.pure, Except.ok.injEq] at h
    exact ⟨[], [], rfields, fitems, .inl ⟨hv, rfl, rfl⟩, hfl, h.symm⟩
  | some vts =>
    simp only [] at h
    obtain ⟨vsels, hvs, h⟩ := bind_ok h
    obtain ⟨r, hr, h⟩ := bind_ok h
    simp only [pure_bind] at h
    obtain ⟨⟨rfields, fitems⟩, hfl, h⟩ := bind_ok h
    simp only [pure, Except.pure, Except.ok.injEq] at h
    exact ⟨_, _, rfields, fitems, .inr ⟨vts, vsels, r, hv, hvs, hr, rfl, rfl⟩, hfl, h.symm⟩

/-- what one iteration of the per-variant loop contributes -/
def VariantStep (c : Ctx) (f : Nat) (pfx : String) (vt : TypeId) (mine : List VariantSel) (vname : String)
    (thisV : RVariant) (thisItems : List Item) : Prop :=
  let sname := pfx ++ "On" ++ vname
  (mine = [] ∧ thisV = { name := vname } ∧ thisItems = []) ∨
  (mine ≠ [] ∧ thisV = { name := vname, payload := some (.path sname) } ∧
    ((∃ fid fr, mine = [.spread fid fr] ∧ thisItems = [aliasItem sname fr.name (fragmentIsRecursive c.q fid)]) ∨
     (∃ r, calcVariantSels c f sname pfx vt mine = .ok r ∧
        ((∃ a, r.1 = [] ∧ r.2.2 = [a] ∧ thisItems = a :: r.2.1) ∨
         ((∀ a, pushedAny c.q vt mine = false → r.2.2 = [a] → False) ∧ ∃ extra, r.2.2.mapM (aliasMember c) = .ok extra ∧
            thisItems = renderType c sname (r.1 ++ extra.flatten) [] ++ r.2.1)))))

theorem calcVariants_ok {c : Ctx} {f : Nat} {name pfx : String} {vsels : List VariantSel} {vt : TypeId}
    {rest : List TypeId} {vs : List RVariant} {items : List Item}
    (h : calcVariants c (f + 1) name pfx vsels (vt :: rest) = .ok (vs, items)) :
    ∃ vname thisV thisItems vs' items', c.s.typeName vt = .ok vname ∧
      calcVariants c f name pfx vsels rest = .ok (vs', items') ∧ vs = thisV :: vs' ∧ items = thisItems ++ items' ∧
      VariantStep c f pfx vt (vsels.filter (fun v => v.typeId == vt)) vname thisV thisItems := by
  rw [calcVariants.eq_3] at h
  obtain ⟨vname, hvn, h⟩ := bind_ok h
  simp only [] at h
  have fin : ∀ {thisV : RVariant} {thisItems : List Item},
      (do let x ← calcVariants c f name pfx vsels rest
          (pure (thisV :: x.fst, thisItems ++ x.snd) : Outcome _)) = .ok (vs, items) →
      ∃ vs' items', calcVariants c f name pfx vsels rest = .ok (vs', items') ∧ vs = thisV :: vs' ∧
        items = thisItems ++ items' := by
    intro thisV thisItems h
    obtain ⟨⟨vs', items'⟩, hr, h⟩ := bind_ok h
    simp only [pure, Except.pure, Except.ok.injEq, Prod.mk.injEq] at h
    exact ⟨vs', items', hr, h.1.symm, h.2.symm⟩
  split at h
  · rename_i hm
    simp only [pure_bind] at h
    obtain ⟨vs', items', hr, h1, h2⟩ := fin h
    exact ⟨vname, _, _, vs', items', hvn, hr, h1, h2, .inl ⟨hm, rfl, rfl⟩⟩
  · rename_i first tl hm
    split at h
    · rename_i fid fr hs
      simp only [pure_bind] at h
      obtain ⟨vs', items', hr, h1, h2⟩ := fin h
      refine ⟨vname, _, _, vs', items', hvn, hr, h1, h2, .inr ⟨by simp [hm], rfl, .inl ⟨fid, fr, ?_, rfl⟩⟩⟩
      split at hs
      · rename_i fid' fr' hm'
        simp only [Option.some.injEq, Prod.mk.injEq] at hs
        rw [← hs.1, ← hs.2]; exact hm'
      · cases hs
    · obtain ⟨r, hr0, h⟩ := bind_ok h
      split at h
      · rename_i a hfs hal
        simp only [pure_bind] at h
        obtain ⟨vs', items', hr, h1, h2⟩ := fin h
        exact ⟨vname, _, _, vs', items', hvn, hr, h1, h2,
          .inr ⟨by simp [hm], rfl, .inr ⟨r, hr0, .inl ⟨a, Pushed.pushedAny_false_fields hr0 hfs, hal, rfl⟩⟩⟩⟩
      · rename_i hal
        obtain ⟨extra, hex, h⟩ := bind_ok h
        simp only [pure_bind] at h
        obtain ⟨vs', items', hr, h1, h2⟩ := fin h
        exact ⟨vname, _, _, vs', items', hvn, hr, h1, h2,
          .inr ⟨by simp [hm], rfl, .inr ⟨r, hr0, .inr ⟨hal, extra, hex, rfl⟩⟩⟩⟩

theorem calcVariantSels_inline_ok {c : Ctx} {f : Nat} {sname pfx : String} {vt t : TypeId} {sub : List Sel}
    {rest : List VariantSel} {fs : List RField} {items al : List Item}
    (h : calcVariantSels c (f + 1) sname pfx vt (.inline t sub :: rest) = .ok (fs, items, al)) :
    ∃ tn fs0 items0 al0 fs' items' al', c.s.typeName t = .ok tn ∧
      calcVariantSels c f sname pfx vt rest = .ok (fs', items', al') ∧
      fs = fs0 ++ fs' ∧ items = items0 ++ items' ∧ al = al0 ++ al' ∧
      ((∃ g fr, sub = [.spread g] ∧ c.q.fragments[g]? = some fr ∧ fs0 = [] ∧ items0 = [] ∧
          al0 = [aliasItem sname fr.name (fragmentIsRecursive c.q g)]) ∨
       ((∀ g, sub ≠ [Sel.spread g]) ∧ calcFields c f (pfx ++ "On" ++ c.cs.camel tn) vt sub = .ok (fs0, items0) ∧
          al0 = [])) := by
  have fin : ∀ {fs0 : List RField} {items0 al0 : List Item},
      (do let x ← calcVariantSels c f sname pfx vt rest
          (pure (fs0 ++ x.fst, items0 ++ x.snd.fst, al0 ++ x.snd.snd) : Outcome _)) = .ok (fs, items, al) →
      ∃ fs' items' al', calcVariantSels c f sname pfx vt rest = .ok (fs', items', al') ∧
        fs = fs0 ++ fs' ∧ items = items0 ++ items' ∧ al = al0 ++ al' := by
    intro fs0 items0 al0 h
    obtain ⟨⟨fs', items', al'⟩, hr, h⟩ := bind_ok h
    simp only [pure, Except.pure, Except.ok.injEq, Prod.mk.injEq] at h
    exact ⟨fs', items', al', hr, h.1.symm, h.2.1.symm, h.2.2.symm⟩
  by_cases hsp : ∃ g, sub = [Sel.spread g]
  · obtain ⟨g, rfl⟩ := hsp
    rw [calcVariantSels.eq_3] at h
    obtain ⟨tn, htn, h⟩ := bind_ok h
    simp only [] at h
    obtain ⟨fr, hfr, h⟩ := bind_ok h
    simp only [pure_bind] at h
    obtain ⟨fs', items', al', hr, h1, h2, h3⟩ := fin h
    exact ⟨tn, _, _, _, fs', items', al', htn, hr, h1, h2, h3,
      .inl ⟨g, fr, rfl, getFragment_ok hfr, rfl, rfl, rfl⟩⟩
  · rw [calcVariantSels.eq_4 _ _ _ _ _ _ _ _ (fun g hg => hsp ⟨g, hg⟩)] at h
    obtain ⟨tn, htn, h⟩ := bind_ok h
    simp only [] at h
    obtain ⟨⟨fs0, items0⟩, hfl, h⟩ := bind_ok h
    simp only [pure_bind] at h
    obtain ⟨fs', items', al', hr, h1, h2, h3⟩ := fin h
    exact ⟨tn, fs0, items0, [], fs', items', al', htn, hr, h1, h2, h3,
      .inr ⟨fun g hg => hsp ⟨g, hg⟩, hfl, rfl⟩⟩

theorem calcVariantSels_spread_ok {c : Ctx} {f : Nat} {sname pfx : String} {vt : TypeId} {fid : Nat} {fr : RFragment}
    {rest : List VariantSel} {fs : List RField} {items al : List Item}
    (h : calcVariantSels c (f + 1) sname pfx vt (.spread fid fr :: rest) = .ok (fs, items, al)) :
    ∃ fld fs', renderField c none (c.cs.snake fr.name) fr.name [.required] true (fragmentIsRecursive c.q fid) none = .ok fld ∧
      calcVariantSels c f sname pfx vt rest = .ok (fs', items, al) ∧ fs = fld.toList ++ fs' := by
  rw [calcVariantSels.eq_5] at h
  obtain ⟨fld, hfld, h⟩ := bind_ok h
  obtain ⟨⟨fs', items', al'⟩, hr, h⟩ := bind_ok h
  simp only [pure, Except.pure, Except.ok.injEq, Prod.mk.injEq] at h
  obtain ⟨h1, h2, h3⟩ := h
  subst h2 h3
  exact ⟨fld, fs', hfld, hr, h1.symm⟩

/-- what a field selection contributes to the field loop -/
def FieldStep (c : Ctx) (f : Nat) (pfx : String) (alias : Option String) (sub : List Sel) (sf : StoredField)
    (fld : Option RField) (its : List Item) : Prop :=
  let gname := alias.getD sf.name
  let rname := keywordReplace (c.cs.snake gname)
  let sname := pfx ++ c.cs.camel gname
  (∃ e en, sf.ty.id = .enum e ∧ c.s.enums[e]? = some en ∧ its = [] ∧
    renderField c (some gname) rname (c.o.normalization.fieldType c.cs en.name) sf.ty.quals false false sf.deprecation = .ok fld) ∨
  (∃ k sn, sf.ty.id = .scalar k ∧ c.s.scalars[k]? = some sn ∧ its = [] ∧
    renderField c (some gname) rname (c.o.normalization.fieldType c.cs sn) sf.ty.quals false false sf.deprecation = .ok fld) ∨
  ((∀ e, sf.ty.id ≠ .enum e) ∧ (∀ k, sf.ty.id ≠ .scalar k) ∧ (∀ i, sf.ty.id ≠ .input i) ∧
    renderField c (some gname) rname sname sf.ty.quals false false sf.deprecation = .ok fld ∧
    calcSelection c f sname sname sf.ty.id sub = .ok its)

theorem calcFields_field_ok {c : Ctx} {f : Nat} {pfx : String} {ty : TypeId} {alias : Option String} {fid : Nat}
    {sub rest : List Sel} {fs : List RField} {items : List Item}
    (h : calcFields c (f + 1) pfx ty (.field alias fid sub :: rest) = .ok (fs, items)) :
    ∃ sf fld its fs' items', c.s.fields[fid]? = some sf ∧ calcFields c f pfx ty rest = .ok (fs', items') ∧
      fs = fld.toList ++ fs' ∧ items = its ++ items' ∧ FieldStep c f pfx alias sub sf fld its := by
  rw [calcFields.eq_3] at h
  obtain ⟨sf, hsf, h⟩ := bind_ok h
  simp only [] at h
  have fin : ∀ {fld : Option RField} {its : List Item},
      (do let x ← calcFields c f pfx ty rest
          (pure (fld.toList ++ x.fst, its ++ x.snd) : Outcome _)) = .ok (fs, items) →
      ∃ fs' items', calcFields c f pfx ty rest = .ok (fs', items') ∧ fs = fld.toList ++ fs' ∧ items = its ++ items' := by
    intro fld its h
    obtain ⟨⟨fs', items'⟩, hr, h⟩ := bind_ok h
    simp only [pure, Except.pure, Except.ok.injEq, Prod.mk.injEq] at h
    exact ⟨fs', items', hr, h.1.symm, h.2.symm⟩
  split at h
  · rename_i e he
    obtain ⟨en, hen, h⟩ := bind_ok h
    obtain ⟨fld, hfld, h⟩ := bind_ok h
    simp only [pure_bind] at h
    obtain ⟨fs', items', hr, h1, h2⟩ := fin h
    exact ⟨sf, fld, [], fs', items', getField_ok hsf, hr, h1, h2, .inl ⟨e, en, he, getEnum_ok hen, rfl, hfld⟩⟩
  · rename_i k hk
    obtain ⟨sn, hsn, h⟩ := bind_ok h
    obtain ⟨fld, hfld, h⟩ := bind_ok h
    simp only [pure_bind] at h
    obtain ⟨fs', items', hr, h1, h2⟩ := fin h
    exact ⟨sf, fld, [], fs', items', getField_ok hsf, hr, h1, h2, .inr (.inl ⟨k, sn, hk, getScalar_ok hsn, rfl, hfld⟩)⟩
  · obtain ⟨x, hx, _⟩ := bind_ok h
    cases hx
  · rename_i h1' h2' h3'
    obtain ⟨fld, hfld, h⟩ := bind_ok h
    obtain ⟨its, hits, h⟩ := bind_ok h
    simp only [pure_bind] at h
    obtain ⟨fs', items', hr, h1, h2⟩ := fin h
    exact ⟨sf, fld, its, fs', items', getField_ok hsf, hr, h1, h2,
      .inr (.inr ⟨fun e he => h1' e he, fun k hk => h2' k hk, fun i hi => h3' i hi, hfld, hits⟩)⟩

theorem calcFields_spread_ok {c : Ctx} {f : Nat} {pfx : String} {ty : TypeId} {fid : Nat}
    {rest : List Sel} {fs : List RField} {items : List Item}
    (h : calcFields c (f + 1) pfx ty (.spread fid :: rest) = .ok (fs, items)) :
    ∃ fr fs', c.q.fragments[fid]? = some fr ∧ calcFields c f pfx ty rest = .ok (fs', items) ∧
      (((fr.on != ty) = true ∧ fs = fs') ∨
       ((fr.on != ty) = false ∧ ∃ fld, renderField c none (keywordReplace (c.cs.snake fr.name)) fr.name [.required] true
                    (fragmentIsRecursive c.q fid) none = .ok fld ∧ fs = fld.toList ++ fs')) := by
  rw [calcFields.eq_4] at h
  obtain ⟨fr, hfr, h⟩ := bind_ok h
  obtain ⟨⟨fs', items'⟩, hr, h⟩ := bind_ok h
  simp only [] at h
  split at h
  · rename_i hc
    simp only [pure, Except.pure, Except.ok.injEq, Prod.mk.injEq] at h
    obtain ⟨h1, h2⟩ := h
    subst h2
    exact ⟨fr, fs', getFragment_ok hfr, hr, .inl ⟨hc, h1.symm⟩⟩
  · rename_i hc
    obtain ⟨fld, hfld, h⟩ := bind_ok h
    simp only [pure, Except.pure, Except.ok.injEq, Prod.mk.injEq] at h
    obtain ⟨h1, h2⟩ := h
    subst h2
    exact ⟨fr, fs', getFragment_ok hfr, hr, .inr ⟨by simpa using hc, fld, hfld, h1.symm⟩⟩

/-! ## 3. the `calc*` block emits closed item lists -/

theorem calcSelection_defines_name {c : Ctx} {fuel : Nat} {name pfx : String} {ty : TypeId} {sels : List Sel}
    {items : List Item} (h : calcSelection c fuel name pfx ty sels = .ok items) : name ∈ Scope.defines items := by
  cases fuel with
  | zero => rw [calcSelection.eq_1] at h; cases h
  | succ f =>
    by_cases hsp : ∃ g, sels = [Sel.spread g]
    · obtain ⟨g, rfl⟩ := hsp
      obtain ⟨fr, _, rfl⟩ := calcSelection_single_ok h
      simp [Scope.defines, aliasItem_defines]
    · obtain ⟨rv, vi, rf, fi, _, _, rfl⟩ := calcSelection_ok (fun g hg => hsp ⟨g, hg⟩) h
      simp only [defines_append, List.mem_append]
      exact .inl (.inl (renderType_defines c name rf rv))

theorem variantSels_origin {q : Query} {ty : TypeId} {sels : List Sel} {vsels : List VariantSel}
    (h : sels.filterMapM (variantSelOf q ty) = .ok vsels) :
    (∀ t sub, VariantSel.inline t sub ∈ vsels → Sel.inline t sub ∈ sels) ∧
    (∀ g fr, VariantSel.spread g fr ∈ vsels → Sel.spread g ∈ sels ∧ q.fragments[g]? = some fr ∧ fr.on ≠ ty) := by
  refine ⟨fun t sub hm => ?_, fun g fr hm => ?_⟩
  · obtain ⟨x, hx, hfx⟩ := filterMapM_ok_mem h _ hm
    cases x with
    | inline t' sub' =>
      simp only [variantSelOf, pure, Except.pure, Except.ok.injEq, Option.some.injEq, VariantSel.inline.injEq] at hfx
      rw [← hfx.1, ← hfx.2]; exact hx
    | spread g =>
      simp only [variantSelOf] at hfx
      obtain ⟨fr, _, hfx⟩ := bind_ok hfx
      simp only [pure, Except.pure, Except.ok.injEq] at hfx
      split at hfx <;> simp at hfx
    | field a b c' => simp [variantSelOf, pure, Except.pure] at hfx
    | typename => simp [variantSelOf, pure, Except.pure] at hfx
  · obtain ⟨x, hx, hfx⟩ := filterMapM_ok_mem h _ hm
    cases x with
    | inline t' sub' => simp [variantSelOf, pure, Except.pure] at hfx
    | spread g' =>
      simp only [variantSelOf] at hfx
      obtain ⟨fr', hfr', hfx⟩ := bind_ok hfx
      simp only [pure, Except.pure, Except.ok.injEq] at hfx
      split at hfx
      · simp at hfx
      · rename_i hne
        simp only [Option.some.injEq, VariantSel.spread.injEq] at hfx
        obtain ⟨rfl, rfl⟩ := hfx
        exact ⟨hx, getFragment_ok hfr', by simpa using hne⟩
    | field a b c' => simp [variantSelOf, pure, Except.pure] at hfx
    | typename => simp [variantSelOf, pure, Except.pure] at hfx

section Calc
variable (c : Ctx) (u : UsedTypes) (G : String → Prop)

/-- the used set accounts for every node below these selections (spreads are not entered) -/
def Cov (sels : List Sel) : Prop := ∀ x ∈ sels, Covered c.s u x

/-- the selections attached to the variants of an abstract type are accounted for in the used set -/
structure VOK (vsels : List VariantSel) : Prop where
  inl : ∀ t sub, VariantSel.inline t sub ∈ vsels → Cov c u sub
  spr : ∀ g fr, VariantSel.spread g fr ∈ vsels → g ∈ u.fragments ∧ c.q.fragments[g]? = some fr

/-- the global part of the module resolves the names of the used enums, scalars and fragments -/
structure GOK : Prop where
  enum : ∀ k en, TypeId.enum k ∈ u.types → c.s.enums[k]? = some en →
    G (c.o.normalization.fieldType c.cs en.name)
  scalar : ∀ k sn, TypeId.scalar k ∈ u.types → c.s.scalars[k]? = some sn →
    G (c.o.normalization.fieldType c.cs sn)
  frag : ∀ g fr, g ∈ u.fragments → c.q.fragments[g]? = some fr → G fr.name

variable {c u G}

theorem Cov.tail {x : Sel} {rest : List Sel} (h : Cov c u (x :: rest)) : Cov c u rest :=
  fun y hy => h y (List.mem_cons_of_mem _ hy)

theorem Cov.field {sels : List Sel} {a : Option String} {fid : Nat} {sub : List Sel} (h : Cov c u sels)
    (hm : .field a fid sub ∈ sels) : Cov c u sub :=
  fun _ hy z hz => h _ hm z (.field hy hz)

theorem Cov.inline {sels : List Sel} {t : TypeId} {sub : List Sel} (h : Cov c u sels)
    (hm : .inline t sub ∈ sels) : Cov c u sub :=
  fun _ hy z hz => h _ hm z (.inline hy hz)

theorem Cov.fieldType {sels : List Sel} {a : Option String} {fid : Nat} {sub : List Sel} (h : Cov c u sels)
    (hm : .field a fid sub ∈ sels) {sf : StoredField} (hsf : c.s.fields[fid]? = some sf) : sf.ty.id ∈ u.types :=
  h _ hm _ (.refl _) sf hsf

theorem Cov.spread {sels : List Sel} {g : Nat} (h : Cov c u sels) (hm : .spread g ∈ sels) : g ∈ u.fragments :=
  h _ hm _ (.refl _)

theorem Cov.vok {sels : List Sel} {ty : TypeId} {vsels : List VariantSel} (h : Cov c u sels)
    (hv : sels.filterMapM (variantSelOf c.q ty) = .ok vsels) : VOK c u vsels := by
  have ⟨h1, h2⟩ := variantSels_origin hv
  exact ⟨fun t sub hm => h.inline (h1 t sub hm), fun g fr hm => ⟨h.spread (h2 g fr hm).1, (h2 g fr hm).2.1⟩⟩

theorem VOK.tail {x : VariantSel} {rest : List VariantSel} (h : VOK c u (x :: rest)) : VOK c u rest :=
  ⟨fun t sub hm => h.inl t sub (List.mem_cons_of_mem _ hm), fun g fr hm => h.spr g fr (List.mem_cons_of_mem _ hm)⟩

theorem VOK.filter {l : List VariantSel} (p : VariantSel → Bool) (h : VOK c u l) : VOK c u (l.filter p) :=
  ⟨fun t sub hm => h.inl t sub (List.mem_filter.mp hm).1, fun g fr hm => h.spr g fr (List.mem_filter.mp hm).1⟩

variable (c u G)

def RStmt1 (fuel : Nat) : Prop := ∀ name pfx ty sels items, Cov c u sels →
  calcSelection c fuel name pfx ty sels = .ok items → ClosedIn G items items
def RStmt2 (fuel : Nat) : Prop := ∀ name pfx vsels vts vs items, VOK c u vsels →
  calcVariants c fuel name pfx vsels vts = .ok (vs, items) →
  (∀ v ∈ vs, ∀ t, v.payload = some t → Res G items (Scope.leaf t)) ∧ ClosedIn G items items
def RStmt3 (fuel : Nat) : Prop := ∀ sname pfx vt mine fs items al, VOK c u mine →
  calcVariantSels c fuel sname pfx vt mine = .ok (fs, items, al) →
  (∀ f ∈ fs, Res G items (Scope.leaf f.ty)) ∧ ClosedIn G items items ∧
  ∀ a ∈ al, ∃ tgt b, a = aliasItem sname tgt b ∧ G tgt
def RStmt4 (fuel : Nat) : Prop := ∀ pfx ty sels fs items, Cov c u sels →
  calcFields c fuel pfx ty sels = .ok (fs, items) →
  (∀ f ∈ fs, Res G items (Scope.leaf f.ty)) ∧ ClosedIn G items items

variable {c u G}

theorem mem_defines_left {a b : List Item} : ∀ m ∈ Scope.defines a, m ∈ Scope.defines (a ++ b) :=
  fun m hm => by rw [defines_append]; exact List.mem_append_left _ hm
theorem mem_defines_right {a b : List Item} : ∀ m ∈ Scope.defines b, m ∈ Scope.defines (a ++ b) :=
  fun m hm => by rw [defines_append]; exact List.mem_append_right _ hm

theorem rstep4 (hG : GOK c u G) (f : Nat) (H1 : RStmt1 c u G f) (H4 : RStmt4 c u G f) : RStmt4 c u G (f + 1) := by
  intro pfx ty sels fs items hcov h
  cases sels with
  | nil =>
    rw [calcFields.eq_2 _ _ _ _ (by omega)] at h
    simp only [pure, Except.pure, Except.ok.injEq, Prod.mk.injEq] at h
    obtain ⟨rfl, rfl⟩ := h
    exact ⟨fun f hf => (by cases hf), ClosedIn.nil⟩
  | cons x rest =>
    cases x with
    | field a fid sub =>
      obtain ⟨sf, fld, its, fs', items', hsf, hr, rfl, rfl, hstep⟩ := calcFields_field_ok h
      have ⟨ih1, ih2⟩ := H4 pfx ty rest fs' items' hcov.tail hr
      have hused := hcov.fieldType (List.mem_cons_self) hsf
      have key : (∀ f ∈ fld.toList, Res G its (Scope.leaf f.ty)) ∧ ClosedIn G its its := by
        rcases hstep with ⟨e, en, he, hen, rfl, hfld⟩ | ⟨k, sn, hk, hsn, rfl, hfld⟩ | ⟨_, _, _, hfld, hits⟩
        · refine ⟨fun f hf => ?_, ClosedIn.nil⟩
          rw [renderField_leaf hfld f hf]
          exact .inr (hG.enum e en (he ▸ hused) hen)
        · refine ⟨fun f hf => ?_, ClosedIn.nil⟩
          rw [renderField_leaf hfld f hf]
          exact .inr (hG.scalar k sn (hk ▸ hused) hsn)
        · refine ⟨fun f hf => ?_, H1 _ _ _ _ _ (hcov.field List.mem_cons_self) hits⟩
          rw [renderField_leaf hfld f hf]
          exact .inl (calcSelection_defines_name hits)
      refine ⟨fun f hf => ?_, ?_⟩
      · rcases List.mem_append.mp hf with hf | hf
        · exact (key.1 f hf).mono mem_defines_left
        · exact (ih1 f hf).mono mem_defines_right
      · exact (key.2.mono mem_defines_left).append (ih2.mono mem_defines_right)
    | spread g =>
      obtain ⟨fr, fs', hfr, hr, hfs⟩ := calcFields_spread_ok h
      have ⟨ih1, ih2⟩ := H4 pfx ty rest fs' items hcov.tail hr
      refine ⟨fun f hf => ?_, ih2⟩
      rcases hfs with ⟨_, rfl⟩ | ⟨_, fld, hfld, rfl⟩
      · exact ih1 f hf
      · rcases List.mem_append.mp hf with hf | hf
        · rw [renderField_leaf hfld f hf]
          exact .inr (hG.frag g fr (hcov.spread List.mem_cons_self) hfr)
        · exact ih1 f hf
    | inline t sub =>
      rw [calcFields.eq_5 _ _ _ _ _ _ (by simp) (by simp)] at h
      exact H4 pfx ty rest fs items hcov.tail h
    | typename =>
      rw [calcFields.eq_5 _ _ _ _ _ _ (by simp) (by simp)] at h
      exact H4 pfx ty rest fs items hcov.tail h

theorem rstep3 (hG : GOK c u G) (f : Nat) (H3 : RStmt3 c u G f) (H4 : RStmt4 c u G f) : RStmt3 c u G (f + 1) := by
  intro sname pfx vt mine fs items al hvok h
  cases mine with
  | nil =>
    rw [calcVariantSels.eq_2 _ _ _ _ _ (by omega)] at h
    simp only [pure, Except.pure, Except.ok.injEq, Prod.mk.injEq] at h
    obtain ⟨rfl, rfl, rfl⟩ := h
    exact ⟨fun f hf => (by cases hf), ClosedIn.nil, fun a ha => (by cases ha)⟩
  | cons x rest =>
    cases x with
    | inline t sub =>
      obtain ⟨tn, fs0, items0, al0, fs', items', al', _, hr, rfl, rfl, rfl, hstep⟩ := calcVariantSels_inline_ok h
      have ⟨ih1, ih2, ih3⟩ := H3 sname pfx vt rest fs' items' al' hvok.tail hr
      have hcov : Cov c u sub := hvok.inl t sub List.mem_cons_self
      have key : (∀ f ∈ fs0, Res G items0 (Scope.leaf f.ty)) ∧ ClosedIn G items0 items0 ∧
          ∀ a ∈ al0, ∃ tgt b, a = aliasItem sname tgt b ∧ G tgt := by
        rcases hstep with ⟨g, fr, rfl, hfr, rfl, rfl, rfl⟩ | ⟨_, hfl, rfl⟩
        · refine ⟨fun f hf => (by cases hf), ClosedIn.nil, fun a ha => ?_⟩
          simp only [List.mem_singleton] at ha
          exact ⟨fr.name, _, ha, hG.frag g fr (hcov.spread List.mem_cons_self) hfr⟩
        · have ⟨k1, k2⟩ := H4 _ _ _ _ _ hcov hfl
          exact ⟨k1, k2, fun a ha => (by cases ha)⟩
      refine ⟨fun f hf => ?_, ?_, fun a ha => ?_⟩
      · rcases List.mem_append.mp hf with hf | hf
        · exact (key.1 f hf).mono mem_defines_left
        · exact (ih1 f hf).mono mem_defines_right
      · exact (key.2.1.mono mem_defines_left).append (ih2.mono mem_defines_right)
      · rcases List.mem_append.mp ha with ha | ha
        · exact key.2.2 a ha
        · exact ih3 a ha
    | spread g fr =>
      obtain ⟨fld, fs', hfld, hr, rfl⟩ := calcVariantSels_spread_ok h
      have ⟨ih1, ih2, ih3⟩ := H3 sname pfx vt rest fs' items al hvok.tail hr
      refine ⟨fun f hf => ?_, ih2, ih3⟩
      rcases List.mem_append.mp hf with hf | hf
      · rw [renderField_leaf hfld f hf]
        have ⟨hg, hfr⟩ := hvok.spr g fr List.mem_cons_self
        exact .inr (hG.frag g fr hg hfr)
      · exact ih1 f hf

theorem rstep2 (hG : GOK c u G) (f : Nat) (H2 : RStmt2 c u G f) (H3 : RStmt3 c u G f) : RStmt2 c u G (f + 1) := by
  intro name pfx vsels vts vs items hvok h
  cases vts with
  | nil =>
    rw [calcVariants.eq_2 _ _ _ _ _ (by omega)] at h
    simp only [pure, Except.pure, Except.ok.injEq, Prod.mk.injEq] at h
    obtain ⟨rfl, rfl⟩ := h
    exact ⟨fun v hv => (by cases hv), ClosedIn.nil⟩
  | cons vt rest =>
    obtain ⟨vname, thisV, thisItems, vs', items', _, hr, rfl, rfl, hstep⟩ := calcVariants_ok h
    have ⟨ih1, ih2⟩ := H2 name pfx vsels rest vs' items' hvok hr
    have hmine : VOK c u (vsels.filter (fun v => v.typeId == vt)) := hvok.filter _
    have key : (∀ t, thisV.payload = some t → Res G thisItems (Scope.leaf t)) ∧ ClosedIn G thisItems thisItems := by
      rcases hstep with ⟨_, rfl, rfl⟩ | ⟨_, rfl, hstep⟩
      · exact ⟨fun t ht => (by cases ht), ClosedIn.nil⟩
      · simp only [Option.some.injEq]
        rcases hstep with ⟨g, fr, hm, rfl⟩ | ⟨r, hr0, hstep⟩
        · refine ⟨fun t ht => ?_, fun it hit n hn => ?_⟩
          · subst ht
            exact .inl (by simp [Scope.defines, aliasItem_defines, Scope.leaf])
          · simp only [List.mem_singleton] at hit
            subst hit
            rw [aliasItem_mentions, List.mem_singleton] at hn
            subst hn
            have ⟨hg, hfr⟩ := hmine.spr g fr (by rw [hm]; exact List.mem_cons_self)
            exact .inr (hG.frag g fr hg hfr)
        · obtain ⟨r1, r2, r3⟩ := H3 _ _ _ _ r.1 r.2.1 r.2.2 hmine hr0
          rcases hstep with ⟨a, _, hal, rfl⟩ | ⟨hal, extra, hex, rfl⟩
          · obtain ⟨tgt, b, rfl, htgt⟩ := r3 a (by rw [hal]; exact List.mem_cons_self)
            refine ⟨fun t ht => ?_, fun it hit n hn => ?_⟩
            · subst ht
              exact .inl (by simp [defines_cons, aliasItem_defines, Scope.leaf])
            · rcases List.mem_cons.mp hit with rfl | hit
              · rw [aliasItem_mentions, List.mem_singleton] at hn
                subst hn
                exact .inr htgt
              · exact (r2 it hit n hn).mono (fun m hm => by simp [defines_cons, hm])
          · refine ⟨fun t ht => ?_, ?_⟩
            · subst ht
              exact .inl (mem_defines_left _ (renderType_defines c _ _ _))
            · have hextra : ∀ f ∈ extra.flatten, Res G r.2.1 (Scope.leaf f.ty) :=
                aliasMembers_leaf hex (P := fun n => Res G r.2.1 n)
                  (fun a ha => let ⟨tgt, b, e, ht⟩ := r3 a ha; ⟨tgt, b, e, .inr ht⟩)
              exact (renderType_closed c _ (r.1 ++ extra.flatten) [] r.2.1
                  (fun f hf => (List.mem_append.mp hf).elim (r1 f) (hextra f))
                  (fun v hv => (by cases hv))).append
                (r2.mono mem_defines_right)
    refine ⟨fun v hv t ht => ?_, (key.2.mono mem_defines_left).append (ih2.mono mem_defines_right)⟩
    rcases List.mem_cons.mp hv with rfl | hv
    · exact (key.1 t ht).mono mem_defines_left
    · exact (ih1 v hv t ht).mono mem_defines_right

theorem rstep1 (hG : GOK c u G) (f : Nat) (H2 : RStmt2 c u G f) (H4 : RStmt4 c u G f) : RStmt1 c u G (f + 1) := by
  intro name pfx ty sels items hcov h
  by_cases hsp : ∃ g, sels = [Sel.spread g]
  · obtain ⟨g, rfl⟩ := hsp
    obtain ⟨fr, hfr, rfl⟩ := calcSelection_single_ok h
    intro it hit n hn
    simp only [List.mem_singleton] at hit
    subst hit
    rw [aliasItem_mentions, List.mem_singleton] at hn
    subst hn
    exact .inr (hG.frag g fr (hcov.spread List.mem_cons_self) hfr)
  · obtain ⟨rv, vi, rf, fi, hvp, hfl, rfl⟩ := calcSelection_ok (fun g hg => hsp ⟨g, hg⟩) h
    have ⟨f1, f2⟩ := H4 _ _ _ _ _ hcov hfl
    have hv : (∀ v ∈ rv, ∀ t, v.payload = some t → Res G vi (Scope.leaf t)) ∧ ClosedIn G vi vi := by
      rcases hvp with ⟨_, rfl, rfl⟩ | ⟨vts, vsels, r, _, hvs, hr, rfl, rfl⟩
      · exact ⟨fun v hv => (by cases hv), ClosedIn.nil⟩
      · have ⟨v1, v2⟩ := H2 _ _ _ _ r.1 r.2 (hcov.vok hvs) hr
        refine ⟨fun v hv t ht => ?_, v2⟩
        rcases List.mem_append.mp hv with hv | hv
        · exact v1 v hv t ht
        · split at hv
          · simp only [List.mem_singleton] at hv
            subst hv; cases ht
          · cases hv
    have h1 := renderType_closed c name rf rv (vi ++ fi)
      (fun f hf => (f1 f hf).mono mem_defines_right)
      (fun v hv' t ht => (hv.1 v hv' t ht).mono mem_defines_left)
    rw [List.append_assoc]
    refine h1.append (ClosedIn.mono mem_defines_right ?_)
    exact (hv.2.mono mem_defines_left).append (f2.mono mem_defines_right)

/-- **the `calc*` block emits closed item lists**: whenever the used set accounts for the selections
    at hand and the global part of the module resolves the names of the used enums, scalars and fragments,
    every mention of every item returned by `calcSelection` is resolved by an item of the same list or
    globally -/
theorem calc_closed (hG : GOK c u G) :
    ∀ fuel, RStmt1 c u G fuel ∧ RStmt2 c u G fuel ∧ RStmt3 c u G fuel ∧ RStmt4 c u G fuel := by
  intro fuel
  induction fuel with
  | zero =>
    refine ⟨?_, ?_, ?_, ?_⟩
    · intro _ _ _ _ _ _ h; rw [calcSelection.eq_1] at h; cases h
    · intro _ _ _ _ _ _ _ h; rw [calcVariants.eq_1] at h; cases h
    · intro _ _ _ _ _ _ _ _ h; rw [calcVariantSels.eq_1] at h; cases h
    · intro _ _ _ _ _ _ h; rw [calcFields.eq_1] at h; cases h
  | succ f ih =>
    obtain ⟨H1, H2, H3, H4⟩ := ih
    exact ⟨rstep1 hG f H2 H4, rstep2 hG f H2 H3, rstep3 hG f H3 H4, rstep4 hG f H1 H4⟩

end Calc

/-! ## 4. the response items inside the module -/

/-- the items `responseForQuery` emits, decomposed (with the fragment and response parts) -/
theorem responseForQuery_ok_full {c : Ctx} {op : Nat} {items : List Item} (h : responseForQuery c op = .ok items) :
    ∃ u S E F I V o R, allUsedTypes c.s c.q op = .ok u ∧ scalarItems c u = .ok S ∧ enumItems c u = .ok E ∧
      (sortNat u.fragments).mapM (fragmentItems c) = .ok F ∧
      inputItems c u = .ok I ∧ variablesItems c op = .ok V ∧
      c.q.operations[op]? = some o ∧ responseItems c o = .ok R ∧
      items = builtinAliases ++ S ++ E ++ I ++ V ++ F.flatten ++ R := by
  unfold responseForQuery at h
  obtain ⟨u, hu, h⟩ := bind_ok h
  obtain ⟨S, hS, h⟩ := bind_ok h
  obtain ⟨E, hE, h⟩ := bind_ok h
  obtain ⟨F, hF, h⟩ := bind_ok h
  obtain ⟨I, hI, h⟩ := bind_ok h
  obtain ⟨V, hV, h⟩ := bind_ok h
  obtain ⟨o, ho, h⟩ := bind_ok h
  obtain ⟨R, hR, h⟩ := bind_ok h
  simp only [pure, Except.pure, Except.ok.injEq] at h
  exact ⟨u, S, E, F, I, V, o, R, hu, hS, hE, hF, hI, hV, getOperation_ok ho, hR, h.symm⟩

/-- the used set accounts for the operation's selection set and for the body of every used fragment -/
theorem used_covered {s : Schema} {q : Query} {op : Nat} {u : UsedTypes} (h : allUsedTypes s q op = .ok u)
    {o : ROperation} (ho : q.operations[op]? = some o) :
    (∀ x ∈ o.sels, Covered s u x) ∧
    (∀ g ∈ u.fragments, ∀ f, q.fragments[g]? = some f → ∀ x ∈ f.sels, Covered s u x) := by
  obtain ⟨o', u0, ho', hsel, hvar⟩ := allUsedTypes_ok h
  rw [ho] at ho'; cases ho'
  have ⟨hroot, hfr⟩ := selPhase_spec s q o (List.mem_of_getElem? ho) u0 hsel
  have ⟨hle, _⟩ := collectVars_spec s _ u0 u hvar
  have hfrag : ∀ g ∈ u0.fragments, g ∈ u.fragments := fun g hg => by rw [hle.frags]; exact hg
  refine ⟨fun x hx y hy => (hroot x hx y hy).mono hle.types hfrag, ?_⟩
  intro g hg f hf x hx y hy
  exact (hfr g (by rw [← hle.frags]; exact hg) f hf x hx y hy).mono hle.types hfrag

theorem defines_flatten {F : List (List Item)} {its : List Item} (h : its ∈ F) :
    ∀ m ∈ Scope.defines its, m ∈ Scope.defines F.flatten := by
  intro m hm
  simp only [Scope.defines, List.mem_filterMap, List.mem_flatten] at hm ⊢
  obtain ⟨it, hit, hd⟩ := hm
  exact ⟨it, ⟨its, h, hit⟩, hd⟩

theorem fragmentItems_ok {c : Ctx} {g : Nat} {its : List Item} (h : fragmentItems c g = .ok its) :
    ∃ fr, c.q.fragments[g]? = some fr ∧
      calcSelection c (calcFuel c.s c.q) fr.name (c.cs.camel fr.name) fr.on fr.sels = .ok its := by
  unfold fragmentItems at h
  obtain ⟨fr, hfr, h⟩ := bind_ok h
  exact ⟨fr, getFragment_ok hfr, h⟩

theorem resolved_of_defines {items : List Item} {supplied : List String} {n : String}
    (h : n ∈ Scope.defines items) : Scope.resolved items supplied n = true := by
  unfold Scope.resolved
  simp only [Bool.or_eq_true, List.contains_iff_mem]
  exact .inl (.inl h)

theorem resolved_mono_supplied {items : List Item} {sup sup' : List String} {n : String}
    (hs : ∀ x ∈ sup, x ∈ sup') (h : Scope.resolved items sup n = true) : Scope.resolved items sup' n = true := by
  unfold Scope.resolved at h ⊢
  simp only [Bool.or_eq_true, List.contains_iff_mem] at h ⊢
  rcases h with h | h
  · exact .inl h
  · exact .inr (hs _ h)

/-- the bare names the consumer has to supply for the extern enums: the enum names as the generated code
    spells them in field position (`Normalization.fieldType`; the identity for normalization `none`) -/
def externSupplied (c : Ctx) : List String :=
  c.o.externEnums.map (c.o.normalization.fieldType c.cs)

theorem externSupplied_none {c : Ctx} (hnorm : c.o.normalization = .none) : externSupplied c = c.o.externEnums := by
  unfold externSupplied
  rw [hnorm]
  have : Normalization.fieldType .none c.cs = id := funext (fieldType_none c.cs)
  rw [this, List.map_id]

/-- the name mapping between field position and declaration (`Normalization.fieldType` vs
    `enumName` / `scalarName`) is consistent on the schema's enums and scalars.  Trivially true for
    normalization `none` (`NameMapOK.of_none`); for `rust` it says that no enum / custom scalar is called
    `ID` or starts with `__`, and that camel-casing leaves the names of the built-in scalars alone. -/
structure NameMapOK (c : Ctx) : Prop where
  enums : ∀ e ∈ c.s.enums, c.o.normalization.fieldType c.cs e.name = c.o.normalization.enumName c.cs e.name
  scalars : ∀ sn ∈ c.s.scalars, sn ∉ Schema.defaultScalars →
    c.o.normalization.fieldType c.cs sn = c.o.normalization.scalarName c.cs sn
  builtins : ∀ sn ∈ c.s.scalars, sn ∈ Schema.defaultScalars → c.o.normalization.fieldType c.cs sn = sn

theorem NameMapOK.of_none {c : Ctx} (hnorm : c.o.normalization = .none) : NameMapOK c := by
  refine ⟨fun e _ => ?_, fun sn _ _ => ?_, fun sn _ _ => ?_⟩ <;> rw [hnorm, fieldType_none] <;> rfl

theorem builtin_resolved {sn : String} (h : sn ∈ Schema.defaultScalars) (rest : List Item) (sup : List String) :
    Scope.resolved (builtinAliases ++ rest) sup sn = true := by
  unfold Scope.resolved
  simp only [Bool.or_eq_true, List.contains_iff_mem]
  simp only [Schema.defaultScalars, List.mem_cons, List.not_mem_nil, or_false] at h
  rcases h with rfl | rfl | rfl | rfl | rfl
  · exact .inl (.inl (by simp [Scope.defines, builtinAliases, Scope.itemDefines, Item.name]))
  · exact .inl (.inr (by simp [Scope.rustBuiltins]))
  · exact .inl (.inl (by simp [Scope.defines, builtinAliases, Scope.itemDefines, Item.name]))
  · exact .inl (.inl (by simp [Scope.defines, builtinAliases, Scope.itemDefines, Item.name]))
  · exact .inl (.inl (by simp [Scope.defines, builtinAliases, Scope.itemDefines, Item.name]))

theorem mem_defines_of_mem {items : List Item} {it : Item} (hit : it ∈ items)
    (hd : Scope.itemDefines it = some it.name) : it.name ∈ Scope.defines items := by
  unfold Scope.defines
  exact List.mem_filterMap.mpr ⟨it, hit, hd⟩

/-- **response items are resolved in the emitted module (any normalization, explicit name mapping).**
    For every operation for which `responseForQuery` succeeds and a consistent name mapping
    (`NameMapOK`), every type name mentioned by an item emitted for the response (`responseItems`:
    `ResponseData` and its nested structs / variant enums / aliases) or for a used fragment
    (`fragmentItems`) is an item of the same module, a Rust prelude type or an extern enum the consumer
    supplies (under its field-position spelling).  No well-formedness hypothesis on schema or query is
    needed: an ill-formed query makes `responseForQuery` fail. -/
theorem response_mentions_resolved_mapped (c : Ctx) (op : Nat) (items : List Item)
    (hmap : NameMapOK c)
    (h : responseForQuery c op = .ok items) :
    ∃ u o F R, allUsedTypes c.s c.q op = .ok u ∧ c.q.operations[op]? = some o ∧
      (sortNat u.fragments).mapM (fragmentItems c) = .ok F ∧ responseItems c o = .ok R ∧
      (∀ it ∈ F.flatten ++ R, it ∈ items) ∧
      ∀ it ∈ F.flatten ++ R, ∀ n ∈ Scope.itemMentions it, Scope.resolved items (externSupplied c) n = true := by
  obtain ⟨u, S, E, F, I, V, o, R, hu, hS, hE, hF, hI, hV, ho, hR, rfl⟩ := responseForQuery_ok_full h
  refine ⟨u, o, F, R, hu, ho, hF, hR, fun it hit => ?_, ?_⟩
  · rcases List.mem_append.mp hit with hit | hit <;> simp [hit]
  have ⟨hroot, hfrs⟩ := used_covered hu ho
  have hG : GOK c u (fun n => Scope.resolved (builtinAliases ++ S ++ E ++ I ++ V ++ F.flatten ++ R)
      (externSupplied c) n = true) := by
    refine ⟨fun k en hk hen => ?_, fun k sn hk hsn => ?_, fun g fr hg hfr => ?_⟩
    · by_cases hx : en.name ∈ c.o.externEnums
      · unfold Scope.resolved
        simp only [Bool.or_eq_true, List.contains_iff_mem]
        exact .inr (List.mem_map.mpr ⟨_, hx, rfl⟩)
      · obtain ⟨it, hit, hname⟩ := enumItems_defines hE hk hen hx
        rw [hmap.enums en (List.mem_of_getElem? hen), ← hname]
        apply resolved_of_defines
        exact mem_defines_of_mem (by simp [hit]) (enumItems_itemDefines hE it hit)
    · by_cases hd : sn ∈ Schema.defaultScalars
      · rw [hmap.builtins sn (List.mem_of_getElem? hsn) hd]
        simp only [List.append_assoc]
        exact builtin_resolved hd _ _
      · obtain ⟨it, hit, hname⟩ := scalarItems_defines hS hk hsn hd
        rw [hmap.scalars sn (List.mem_of_getElem? hsn) hd, ← hname]
        apply resolved_of_defines
        exact mem_defines_of_mem (by simp [hit]) (scalarItems_itemDefines hS it hit)
    · have hmem : g ∈ sortNat u.fragments := (mem_sortNat _ _).mpr hg
      obtain ⟨its, hits, hfi⟩ := mapM_ok_of_mem hF g hmem
      obtain ⟨fr', hfr', hcalc⟩ := fragmentItems_ok hfi
      rw [hfr] at hfr'; cases hfr'
      apply resolved_of_defines
      have := defines_flatten hits _ (calcSelection_defines_name hcalc)
      simp only [defines_append, List.mem_append]
      exact .inl (.inr this)
  have hclosed := fun fuel => (calc_closed hG fuel).1
  intro it hit n hn
  rcases List.mem_append.mp hit with hit | hit
  · obtain ⟨its, hits, hit⟩ := List.mem_flatten.mp hit
    obtain ⟨g, hg, hfi⟩ := mapM_ok_mem hF its hits
    obtain ⟨fr, hfr, hcalc⟩ := fragmentItems_ok hfi
    have hcov : Cov c u fr.sels := hfrs g ((mem_sortNat _ _).mp hg) fr hfr
    rcases hclosed _ _ _ _ _ _ hcov hcalc it hit n hn with hd | hd
    · apply resolved_of_defines
      have := defines_flatten hits _ hd
      simp only [defines_append, List.mem_append]
      exact .inl (.inr this)
    · exact hd
  · unfold responseItems at hR
    rcases hclosed _ _ _ _ _ _ hroot hR it hit n hn with hd | hd
    · apply resolved_of_defines
      simp only [defines_append, List.mem_append]
      exact .inr hd
    · exact hd

/-- **response items are resolved in the emitted module** (normalization `none`, `supplied` = the extern
    enum names; the form of `inputs_resolved_in_module` / `variables_resolved_in_module`). -/
theorem response_mentions_resolved (c : Ctx) (op : Nat) (items : List Item)
    (hnorm : c.o.normalization = .none)
    (h : responseForQuery c op = .ok items) :
    ∃ u o F R, allUsedTypes c.s c.q op = .ok u ∧ c.q.operations[op]? = some o ∧
      (sortNat u.fragments).mapM (fragmentItems c) = .ok F ∧ responseItems c o = .ok R ∧
      (∀ it ∈ F.flatten ++ R, it ∈ items) ∧
      ∀ it ∈ F.flatten ++ R, ∀ n ∈ Scope.itemMentions it, Scope.resolved items c.o.externEnums n = true := by
  have := response_mentions_resolved_mapped c op items (NameMapOK.of_none hnorm) h
  rwa [externSupplied_none hnorm] at this

/-! ## 5. the whole module -/

/-- what the consumer supplies: the extern enums (bare names) and, for every custom scalar of the schema,
    a type at the path the scalar's alias points to (`<scalars module or super>::<Name>`) -/
def moduleSupplied (c : Ctx) : List String :=
  c.o.externEnums ++
  (c.s.scalars.filter (fun n => !Schema.defaultScalars.contains n)).map (fun n =>
    (c.o.scalarsModule.getD "super") ++ "::" ++ c.o.normalization.scalarName c.cs n)

theorem scalarItems_mentions_supplied {c : Ctx} {u : UsedTypes} {S : List Item} (h : scalarItems c u = .ok S) :
    ∀ it ∈ S, ∀ n ∈ Scope.itemMentions it, n ∈ moduleSupplied c := by
  unfold scalarItems at h
  obtain ⟨ns, hns, h⟩ := bind_ok h
  simp only [pure, Except.pure, Except.ok.injEq] at h
  subst h
  intro it hit n hn
  simp only [List.mem_map, List.mem_filter] at hit
  obtain ⟨sn, ⟨hsn, hnd⟩, rfl⟩ := hit
  simp only [Scope.itemMentions, Scope.leaf, List.mem_singleton] at hn
  subst hn
  obtain ⟨k, _, hk⟩ := mapM_ok_mem hns sn hsn
  have hmem : sn ∈ c.s.scalars := List.mem_of_getElem? (getScalar_ok hk)
  unfold moduleSupplied
  apply List.mem_append_right
  exact List.mem_map.mpr ⟨sn, List.mem_filter.mpr ⟨hmem, hnd⟩, rfl⟩

theorem enumItems_mentions {c : Ctx} {u : UsedTypes} {E : List Item} (h : enumItems c u = .ok E) :
    ∀ it ∈ E, Scope.itemMentions it = [] := by
  unfold enumItems at h
  obtain ⟨es, _, h⟩ := bind_ok h
  simp only [pure, Except.pure, Except.ok.injEq] at h
  subst h
  intro it hit
  simp only [List.mem_map] at hit
  obtain ⟨e, _, rfl⟩ := hit
  rfl

/-- **every mention of every item of the emitted module is resolved** (first component of
    `Scope.wellScoped`, see `C02.wellScoped_iff`): normalization `none`; `keyword_replace` is the identity
    on the names of the schema's input types, scalars and enums (needed by the input / `Variables` items
    only, see `keyword_input_name_mismatch`); the schema and query use input types in input positions only
    (`OutputOnly`, `InputFieldsRelevant`, `hvars`).  The response items need none of these.
    *Partial*: the other three components of `wellScoped` (no name defined twice, no duplicate member,
    serde crate named) are not part of this statement — the first two are false in general
    (`defines_dup_witness`). -/
theorem module_well_scoped_partial (c : Ctx) (op : Nat) (items : List Item)
    (hnorm : c.o.normalization = .none)
    (hkwI : ∀ i ∈ c.s.inputs, keywordReplace i.name = i.name)
    (hkwS : ∀ n ∈ c.s.scalars, keywordReplace n = n)
    (hkwE : ∀ e ∈ c.s.enums, keywordReplace e.name = e.name)
    (hwf : OutputOnly c.s c.q = true) (hrel : InputFieldsRelevant c.s = true)
    (hvars : ∀ v ∈ c.q.opVariables op, Relevant v.ty.id)
    (h : responseForQuery c op = .ok items) :
    ∀ it ∈ items, ∀ n ∈ Scope.itemMentions it, Scope.resolved items (moduleSupplied c) n = true := by
  have hsup : ∀ x ∈ c.o.externEnums, x ∈ moduleSupplied c := fun x hx => List.mem_append_left _ hx
  obtain ⟨u1, o, F1, R1, hu1, ho1, hF1, hR1, _, hresp⟩ := response_mentions_resolved c op items hnorm h
  obtain ⟨u2, I2, hu2, hI2, _, hinp⟩ := inputs_resolved_in_module c op items hnorm hkwI hwf hrel h
  obtain ⟨V3, hV3, _, hvar⟩ := variables_resolved_in_module c op items hnorm hkwS hkwE hvars h
  obtain ⟨u, S, E, F, I, V, o', R, hu, hS, hE, hF, hI, hV, ho, hR, hitems⟩ := responseForQuery_ok_full h
  rw [hu] at hu1 hu2
  cases hu1; cases hu2
  rw [hF] at hF1; cases hF1
  rw [hI] at hI2; cases hI2
  rw [hV] at hV3; cases hV3
  intro it hit n hn
  rw [hitems] at hit
  simp only [List.mem_append] at hit
  rcases hit with (((((hit | hit) | hit) | hit) | hit) | hit) | hit
  · -- built-in aliases
    unfold Scope.resolved
    simp only [Bool.or_eq_true, List.contains_iff_mem]
    refine .inl (.inr ?_)
    simp only [builtinAliases, List.mem_cons, List.not_mem_nil, or_false] at hit
    rcases hit with rfl | rfl | rfl | rfl <;>
      (simp only [Scope.itemMentions, Scope.leaf, List.mem_singleton] at hn; subst hn; simp [Scope.rustBuiltins])
  · unfold Scope.resolved
    simp only [Bool.or_eq_true, List.contains_iff_mem]
    exact .inr (scalarItems_mentions_supplied hS it hit n hn)
  · rw [enumItems_mentions hE it hit] at hn; cases hn
  · exact resolved_mono_supplied hsup (hinp it hit n hn)
  · exact resolved_mono_supplied hsup (hvar it hit n hn)
  · exact resolved_mono_supplied hsup (hresp it (List.mem_append_left _ hit) n hn)
  · have hoo : o = o' := by
      rw [ho] at ho1; cases ho1; rfl
    subst hoo
    rw [hR] at hR1; cases hR1
    exact resolved_mono_supplied hsup (hresp it (List.mem_append_right _ hit) n hn)

/-- `module_well_scoped_partial` in the vocabulary of the executable check: the `undefined` component of
    the scope report of the emitted module is empty -/
theorem module_no_undefined_mentions (c : Ctx) (op : Nat) (items : List Item)
    (hnorm : c.o.normalization = .none)
    (hkwI : ∀ i ∈ c.s.inputs, keywordReplace i.name = i.name)
    (hkwS : ∀ n ∈ c.s.scalars, keywordReplace n = n)
    (hkwE : ∀ e ∈ c.s.enums, keywordReplace e.name = e.name)
    (hwf : OutputOnly c.s c.q = true) (hrel : InputFieldsRelevant c.s = true)
    (hvars : ∀ v ∈ c.q.opVariables op, Relevant v.ty.id)
    (h : responseForQuery c op = .ok items) :
    (Scope.report items (moduleSupplied c)).undefined = [] := by
  have := module_well_scoped_partial c op items hnorm hkwI hkwS hkwE hwf hrel hvars h
  simp only [Scope.report, Scope.undefinedMentions, List.filter_eq_nil_iff, Scope.mentions, List.mem_flatMap]
  rintro n ⟨it, hit, hn⟩
  simp [this it hit n hn]

/-! ## 6. the names the response items define, computed from the selection tree -/

/-- the type name used for a variant (`""` when the id is out of range: generation fails then) -/
def tnOf (c : Ctx) (t : TypeId) : String := (c.s.typeName t).toOption.getD ""

/-- the possible types of an abstract type (`[]` for a concrete one) -/
def vtsOf (c : Ctx) (ty : TypeId) : List TypeId :=
  match variantsOf c.s ty with
  | .ok (some vts) => vts
  | _ => []

/-- does the emitted type carry variants (`rvariants` non-empty)? -/
def hasVariants (c : Ctx) (ty : TypeId) : Bool :=
  match variantsOf c.s ty with
  | .ok (some vts) => !vts.isEmpty || c.o.otherVariant
  | _ => false

def isLoneSpread : List Sel → Bool
  | [.spread _] => true
  | _ => false

/-- does this selection contribute a field to the struct of type `ty`? -/
def selHasField (c : Ctx) (ty : TypeId) : Sel → Bool
  | .field _ fid _ =>
    match c.s.fields[fid]? with
    | some sf => !(sf.deprecation.isSome && c.o.deprecation == .deny)
    | none => false
  | .spread g =>
    match c.q.fragments[g]? with
    | some fr => fr.on == ty
    | none => false
  | _ => false

/-- is this selection attached to the variant `vt` of the abstract type `ty`? -/
def selOnVariant (c : Ctx) (ty vt : TypeId) : Sel → Bool
  | .inline t _ => t == vt
  | .spread g =>
    match c.q.fragments[g]? with
    | some fr => fr.on != ty && fr.on == vt
    | none => false
  | _ => false

/-- the names `renderType` defines -/
def headNames (name : String) (hasF hasV : Bool) : List String :=
  if hasF && hasV then [name, name ++ "On"] else [name]

mutual
  /-- names of the items the field loop emits for one selection -/
  def selNames (c : Ctx) (pfx : String) : Sel → List String
    | .field alias fid sub =>
      match c.s.fields[fid]? with
      | none => []
      | some sf =>
        match sf.ty.id with
        | .enum _ => []
        | .scalar _ => []
        | .input _ => []
        | t =>
          let sname := pfx ++ c.cs.camel (alias.getD sf.name)
          if isLoneSpread sub then [sname] else
          headNames sname (sub.any (selHasField c t)) (hasVariants c t) ++
          (vtsOf c t).flatMap (fun vt =>
            if sub.any (selOnVariant c t vt) then (sname ++ "On" ++ tnOf c vt) :: inlsNames c sname vt sub else []) ++
          selsNames c sname sub
    | _ => []
  def selsNames (c : Ctx) (pfx : String) : List Sel → List String
    | [] => []
    | x :: xs => selNames c pfx x ++ selsNames c pfx xs
  /-- names of the nested items emitted for an inline fragment on the variant `vt` -/
  def inlNames (c : Ctx) (pfx : String) (vt : TypeId) : Sel → List String
    | .inline t sub =>
      if t == vt then
        (if isLoneSpread sub then [] else selsNames c (pfx ++ "On" ++ c.cs.camel (tnOf c t)) sub)
      else []
    | _ => []
  def inlsNames (c : Ctx) (pfx : String) (vt : TypeId) : List Sel → List String
    | [] => []
    | x :: xs => inlNames c pfx vt x ++ inlsNames c pfx vt xs
end

/-- names of the items `calcSelection c _ name pfx ty sels` emits, computed from the selection tree -/
def selectionNames (c : Ctx) (name pfx : String) (ty : TypeId) (sels : List Sel) : List String :=
  if isLoneSpread sels then [name] else
  headNames name (sels.any (selHasField c ty)) (hasVariants c ty) ++
  (vtsOf c ty).flatMap (fun vt =>
    if sels.any (selOnVariant c ty vt) then (pfx ++ "On" ++ tnOf c vt) :: inlsNames c pfx vt sels else []) ++
  selsNames c pfx sels


theorem tnOf_ok {c : Ctx} {t : TypeId} {tn : String} (h : c.s.typeName t = .ok tn) : tnOf c t = tn := by
  simp [tnOf, h, Except.toOption]

theorem isLoneSpread_false {sels : List Sel} (h : ∀ g, sels ≠ [Sel.spread g]) : isLoneSpread sels = false := by
  unfold isLoneSpread
  split
  · rename_i g; exact absurd rfl (h g)
  · rfl

theorem renderField_isSome {c : Ctx} {g : Option String} {r ft : String} {quals : List Qual} {fl bx : Bool}
    {dep : Option (Option String)} {o : Option RField}
    (h : renderField c g r ft quals fl bx dep = .ok o) :
    o.isSome = !(dep.isSome && c.o.deprecation == .deny) := by
  unfold renderField at h
  obtain ⟨ty, _, h⟩ := bind_ok h
  cases dep <;> cases hd : c.o.deprecation <;>
    simp only [hd, pure, Except.pure, Except.ok.injEq] at h <;> subst h <;> simp

theorem defines_renderType (c : Ctx) (name : String) (fs : List RField) (vs : List RVariant) :
    Scope.defines (renderType c name fs vs) = headNames name (!fs.isEmpty) (!vs.isEmpty) := by
  unfold renderType headNames
  cases hf : fs.isEmpty <;> cases hv : vs.isEmpty <;>
    simp [Scope.defines, Scope.itemDefines, Item.name]

/-- names of the nested items emitted for the selections attached to one variant -/
def vselsNames (c : Ctx) (pfx : String) : List VariantSel → List String
  | [] => []
  | .inline t sub :: rest =>
    (if isLoneSpread sub then [] else selsNames c (pfx ++ "On" ++ c.cs.camel (tnOf c t)) sub) ++ vselsNames c pfx rest
  | .spread _ _ :: rest => vselsNames c pfx rest

/-- names of the items the per-variant loop emits -/
def variantsNames (c : Ctx) (pfx : String) (vsels : List VariantSel) (vts : List TypeId) : List String :=
  vts.flatMap (fun vt =>
    if (vsels.filter (fun v => v.typeId == vt)).isEmpty then []
    else (pfx ++ "On" ++ tnOf c vt) :: vselsNames c pfx (vsels.filter (fun v => v.typeId == vt)))

theorem selNames_composite {c : Ctx} {pfx : String} {a : Option String} {fid : Nat} {sub : List Sel}
    {sf : StoredField} (hsf : c.s.fields[fid]? = some sf)
    (h1 : ∀ e, sf.ty.id ≠ .enum e) (h2 : ∀ k, sf.ty.id ≠ .scalar k) (h3 : ∀ i, sf.ty.id ≠ .input i) :
    selNames c pfx (.field a fid sub) =
      selectionNames c (pfx ++ c.cs.camel (a.getD sf.name)) (pfx ++ c.cs.camel (a.getD sf.name)) sf.ty.id sub := by
  rw [selNames.eq_1]
  simp only [hsf]
  rfl

theorem filter_typeId_inline (t vt : TypeId) (sub : List Sel) (r : List VariantSel) :
    (VariantSel.inline t sub :: r).filter (fun v => v.typeId == vt) =
      if t == vt then .inline t sub :: r.filter (fun v => v.typeId == vt) else r.filter (fun v => v.typeId == vt) := by
  rw [List.filter_cons]; rfl

theorem filter_typeId_spread (g : Nat) (fr : RFragment) (vt : TypeId) (r : List VariantSel) :
    (VariantSel.spread g fr :: r).filter (fun v => v.typeId == vt) =
      if fr.on == vt then .spread g fr :: r.filter (fun v => v.typeId == vt) else r.filter (fun v => v.typeId == vt) := by
  rw [List.filter_cons]; rfl

/-- the selections attached to a variant, seen from the selection set -/
theorem vsels_filter_spec (c : Ctx) (pfx : String) (ty vt : TypeId) :
    ∀ (sels : List Sel) (vsels : List VariantSel), sels.filterMapM (variantSelOf c.q ty) = .ok vsels →
      vselsNames c pfx (vsels.filter (fun v => v.typeId == vt)) = inlsNames c pfx vt sels ∧
      (vsels.filter (fun v => v.typeId == vt)).isEmpty = !(sels.any (selOnVariant c ty vt))
  | [], vsels, h => by
    simp only [List.filterMapM_nil, pure, Except.pure, Except.ok.injEq] at h
    subst h
    simp [vselsNames, inlsNames]
  | x :: xs, vsels, h => by
    rw [List.filterMapM_cons] at h
    obtain ⟨o, ho, h⟩ := bind_ok h
    rw [inlsNames.eq_2, List.any_cons]
    cases o with
    | none =>
      have ⟨ih1, ih2⟩ := vsels_filter_spec c pfx ty vt xs vsels h
      have hx : inlNames c pfx vt x = [] ∧ selOnVariant c ty vt x = false := by
        cases x with
        | inline t sub => simp [variantSelOf, pure, Except.pure] at ho
        | spread g =>
          simp only [variantSelOf] at ho
          obtain ⟨fr, hfr, ho⟩ := bind_ok ho
          simp only [pure, Except.pure, Except.ok.injEq] at ho
          split at ho
          · rename_i heq
            refine ⟨by simp [inlNames], ?_⟩
            have : (fr.on != ty) = false := by simpa using heq
            simp only [selOnVariant, getFragment_ok hfr, this, Bool.false_and]
          · cases ho
        | field a b c' => simp [inlNames, selOnVariant]
        | typename => simp [inlNames, selOnVariant]
      rw [hx.1, hx.2, ih1, ih2]
      simp
    | some v =>
      simp only [] at h
      obtain ⟨r, hr, h⟩ := bind_ok h
      simp only [pure, Except.pure, Except.ok.injEq] at h
      subst h
      have ⟨ih1, ih2⟩ := vsels_filter_spec c pfx ty vt xs r hr
      cases x with
      | inline t sub =>
        simp only [variantSelOf, pure, Except.pure, Except.ok.injEq, Option.some.injEq] at ho
        subst ho
        rw [filter_typeId_inline, inlNames.eq_1, show selOnVariant c ty vt (.inline t sub) = (t == vt) from rfl]
        cases htv : (t == vt)
        · simp [ih1, ih2]
        · simp [vselsNames, ih1]
      | spread g =>
        simp only [variantSelOf] at ho
        obtain ⟨fr, hfr, ho⟩ := bind_ok ho
        simp only [pure, Except.pure, Except.ok.injEq] at ho
        split at ho
        · cases ho
        · rename_i hne
          simp only [Option.some.injEq] at ho
          subst ho
          have hne' : (fr.on != ty) = true := by simpa using hne
          have hsel : selOnVariant c ty vt (.spread g) = (fr.on == vt) := by
            simp only [selOnVariant, getFragment_ok hfr, hne', Bool.true_and]
          have hinl : inlNames c pfx vt (.spread g) = [] := by simp [inlNames]
          rw [filter_typeId_spread, hsel, hinl]
          cases htv : (fr.on == vt)
          · simp [ih1, ih2]
          · simp [vselsNames, ih1]
      | field a b c' => simp [variantSelOf, pure, Except.pure] at ho
      | typename => simp [variantSelOf, pure, Except.pure] at ho

section Names
variable (c : Ctx)

def NStmt1 (fuel : Nat) : Prop := ∀ name pfx ty sels items,
  calcSelection c fuel name pfx ty sels = .ok items → Scope.defines items = selectionNames c name pfx ty sels
def NStmt2 (fuel : Nat) : Prop := ∀ name pfx vsels vts vs items,
  calcVariants c fuel name pfx vsels vts = .ok (vs, items) →
  Scope.defines items = variantsNames c pfx vsels vts ∧ vs.length = vts.length
def NStmt3 (fuel : Nat) : Prop := ∀ sname pfx vt mine fs items al,
  calcVariantSels c fuel sname pfx vt mine = .ok (fs, items, al) →
  Scope.defines items = vselsNames c pfx mine ∧ ∀ a ∈ al, Scope.itemDefines a = some sname
def NStmt4 (fuel : Nat) : Prop := ∀ pfx ty sels fs items,
  calcFields c fuel pfx ty sels = .ok (fs, items) →
  Scope.defines items = selsNames c pfx sels ∧ fs.isEmpty = !(sels.any (selHasField c ty))

variable {c}

theorem isEmpty_toList_append {α} (o : Option α) (l : List α) :
    (o.toList ++ l).isEmpty = (!o.isSome && l.isEmpty) := by
  cases o <;> simp

theorem nstep4 (f : Nat) (H1 : NStmt1 c f) (H4 : NStmt4 c f) : NStmt4 c (f + 1) := by
  intro pfx ty sels fs items h
  cases sels with
  | nil =>
    rw [calcFields.eq_2 _ _ _ _ (by omega)] at h
    simp only [pure, Except.pure, Except.ok.injEq, Prod.mk.injEq] at h
    obtain ⟨rfl, rfl⟩ := h
    simp [selsNames]
  | cons x rest =>
    rw [selsNames.eq_2, List.any_cons]
    cases x with
    | field a fid sub =>
      obtain ⟨sf, fld, its, fs', items', hsf, hr, rfl, rfl, hstep⟩ := calcFields_field_ok h
      have ⟨ih1, ih2⟩ := H4 pfx ty rest fs' items' hr
      rw [defines_append, ih1, isEmpty_toList_append, ih2]
      have hsel : selHasField c ty (.field a fid sub) = !(sf.deprecation.isSome && c.o.deprecation == .deny) := by
        simp only [selHasField, hsf]
      rw [hsel]
      rcases hstep with ⟨e, en, he, _, rfl, hfld⟩ | ⟨k, sn, hk, _, rfl, hfld⟩ | ⟨h1, h2, h3, hfld, hits⟩
      · rw [renderField_isSome hfld, selNames.eq_1]
        simp [hsf, he]
      · rw [renderField_isSome hfld, selNames.eq_1]
        simp [hsf, hk]
      · rw [renderField_isSome hfld, selNames_composite hsf h1 h2 h3, H1 _ _ _ _ _ hits]
        simp
    | spread g =>
      obtain ⟨fr, fs', hfr, hr, hfs⟩ := calcFields_spread_ok h
      have ⟨ih1, ih2⟩ := H4 pfx ty rest fs' items hr
      have hsel : selHasField c ty (.spread g) = (fr.on == ty) := by simp only [selHasField, hfr]
      rw [hsel, ih1, selNames.eq_2 _ _ _ (by simp)]
      refine ⟨by simp, ?_⟩
      rcases hfs with ⟨hc, rfl⟩ | ⟨hc, fld, hfld, rfl⟩
      · have : (fr.on == ty) = false := by simpa using hc
        rw [ih2, this]; simp
      · have : (fr.on == ty) = true := by simpa using hc
        rw [isEmpty_toList_append, renderField_isSome hfld, this]; simp
    | inline t sub =>
      rw [calcFields.eq_5 _ _ _ _ _ _ (by simp) (by simp)] at h
      have ⟨ih1, ih2⟩ := H4 pfx ty rest fs items h
      rw [ih1, ih2, selNames.eq_2 _ _ _ (by simp)]
      simp [selHasField]
    | typename =>
      rw [calcFields.eq_5 _ _ _ _ _ _ (by simp) (by simp)] at h
      have ⟨ih1, ih2⟩ := H4 pfx ty rest fs items h
      rw [ih1, ih2, selNames.eq_2 _ _ _ (by simp)]
      simp [selHasField]

theorem nstep3 (f : Nat) (H3 : NStmt3 c f) (H4 : NStmt4 c f) : NStmt3 c (f + 1) := by
  intro sname pfx vt mine fs items al h
  cases mine with
  | nil =>
    rw [calcVariantSels.eq_2 _ _ _ _ _ (by omega)] at h
    simp only [pure, Except.pure, Except.ok.injEq, Prod.mk.injEq] at h
    obtain ⟨rfl, rfl, rfl⟩ := h
    exact ⟨rfl, fun a ha => (by cases ha)⟩
  | cons x rest =>
    cases x with
    | inline t sub =>
      obtain ⟨tn, fs0, items0, al0, fs', items', al', htn, hr, rfl, rfl, rfl, hstep⟩ := calcVariantSels_inline_ok h
      have ⟨ih1, ih2⟩ := H3 sname pfx vt rest fs' items' al' hr
      rw [defines_append, ih1, vselsNames, tnOf_ok htn]
      rcases hstep with ⟨g, fr, rfl, _, rfl, rfl, rfl⟩ | ⟨hns, hfl, rfl⟩
      · refine ⟨by simp [isLoneSpread], fun a ha => ?_⟩
        rcases List.mem_append.mp ha with ha | ha
        · simp only [List.mem_singleton] at ha
          subst ha; exact aliasItem_defines _ _ _
        · exact ih2 a ha
      · rw [isLoneSpread_false hns, (H4 _ _ _ _ _ hfl).1]
        exact ⟨by simp, fun a ha => ih2 a (by simpa using ha)⟩
    | spread g fr =>
      obtain ⟨fld, fs', _, hr, rfl⟩ := calcVariantSels_spread_ok h
      have ⟨ih1, ih2⟩ := H3 sname pfx vt rest fs' items al hr
      exact ⟨by rw [ih1, vselsNames], ih2⟩

theorem nstep2 (f : Nat) (H2 : NStmt2 c f) (H3 : NStmt3 c f) : NStmt2 c (f + 1) := by
  intro name pfx vsels vts vs items h
  cases vts with
  | nil =>
    rw [calcVariants.eq_2 _ _ _ _ _ (by omega)] at h
    simp only [pure, Except.pure, Except.ok.injEq, Prod.mk.injEq] at h
    obtain ⟨rfl, rfl⟩ := h
    exact ⟨rfl, rfl⟩
  | cons vt rest =>
    obtain ⟨vname, thisV, thisItems, vs', items', hvn, hr, rfl, rfl, hstep⟩ := calcVariants_ok h
    have ⟨ih1, ih2⟩ := H2 name pfx vsels rest vs' items' hr
    refine ⟨?_, by simp [ih2]⟩
    rw [defines_append, ih1]
    unfold variantsNames
    rw [List.flatMap_cons, tnOf_ok hvn]
    congr 1
    rcases hstep with ⟨hm, _, rfl⟩ | ⟨hm, _, hstep⟩
    · simp [hm]
    · have hne : (vsels.filter (fun v => v.typeId == vt)).isEmpty = false := by
        cases hmm : vsels.filter (fun v => v.typeId == vt) with
        | nil => exact absurd hmm hm
        | cons _ _ => rfl
      rw [hne]
      simp only [Bool.false_eq_true, if_false]
      rcases hstep with ⟨g, fr, hmine, rfl⟩ | ⟨r, hr0, hstep⟩
      · rw [hmine]
        simp [Scope.defines, aliasItem_defines, vselsNames]
      · obtain ⟨r1, r2⟩ := H3 _ _ _ _ r.1 r.2.1 r.2.2 hr0
        rcases hstep with ⟨a, _, hal, rfl⟩ | ⟨_, extra, _, rfl⟩
        · have := r2 a (by rw [hal]; exact List.mem_cons_self)
          rw [defines_cons, this, r1]; rfl
        · rw [defines_append, defines_renderType, r1]
          simp [headNames]

theorem length_pos_of_ne_nil_bool {α} (l : List α) : (!l.isEmpty) = decide (0 < l.length) := by
  cases l <;> simp

theorem nstep1 (f : Nat) (H2 : NStmt2 c f) (H4 : NStmt4 c f) : NStmt1 c (f + 1) := by
  intro name pfx ty sels items h
  by_cases hsp : ∃ g, sels = [Sel.spread g]
  · obtain ⟨g, rfl⟩ := hsp
    obtain ⟨fr, _, rfl⟩ := calcSelection_single_ok h
    simp [Scope.defines, aliasItem_defines, selectionNames, isLoneSpread]
  · obtain ⟨rv, vi, rf, fi, hvp, hfl, rfl⟩ := calcSelection_ok (fun g hg => hsp ⟨g, hg⟩) h
    have ⟨f1, f2⟩ := H4 _ _ _ _ _ hfl
    unfold selectionNames
    rw [isLoneSpread_false (fun g hg => hsp ⟨g, hg⟩)]
    simp only [Bool.false_eq_true, if_false]
    rw [defines_append, defines_append, defines_renderType, f1, f2, Bool.not_not]
    rcases hvp with ⟨hv, rfl, rfl⟩ | ⟨vts, vsels, r, hv, hvs, hr, rfl, rfl⟩
    · simp [hasVariants, vtsOf, hv]
    · have ⟨v1, v2⟩ := H2 _ _ _ _ r.1 r.2 hr
      have hV : (!(r.1 ++ if c.o.otherVariant = true then [({ name := "Unknown", other := true } : RVariant)] else []).isEmpty)
          = hasVariants c ty := by
        simp only [hasVariants, hv]
        cases hvts : vts with
        | nil =>
          have : r.1 = [] := List.length_eq_zero_iff.mp (by rw [v2, hvts]; rfl)
          rw [this]
          cases c.o.otherVariant <;> simp
        | cons a l =>
          have : r.1 ≠ [] := by
            intro h0
            rw [h0, hvts] at v2
            simp at v2
          cases hr1 : r.1 with
          | nil => exact absurd hr1 this
          | cons _ _ => simp
      rw [hV, v1]
      congr 2
      unfold variantsNames
      simp only [vtsOf, hv]
      congr 1
      funext vt
      have ⟨e1, e2⟩ := vsels_filter_spec c pfx ty vt sels vsels hvs
      rw [e1, e2]
      cases sels.any (selOnVariant c ty vt) <;> simp

/-- **the names defined by the items of `calcSelection`** are the names computed from the selection tree
    (same order, same multiplicity) -/
theorem calc_names : ∀ fuel, NStmt1 c fuel ∧ NStmt2 c fuel ∧ NStmt3 c fuel ∧ NStmt4 c fuel := by
  intro fuel
  induction fuel with
  | zero =>
    refine ⟨?_, ?_, ?_, ?_⟩
    · intro _ _ _ _ _ h; rw [calcSelection.eq_1] at h; cases h
    · intro _ _ _ _ _ _ h; rw [calcVariants.eq_1] at h; cases h
    · intro _ _ _ _ _ _ _ h; rw [calcVariantSels.eq_1] at h; cases h
    · intro _ _ _ _ _ h; rw [calcFields.eq_1] at h; cases h
  | succ f ih =>
    obtain ⟨H1, H2, H3, H4⟩ := ih
    exact ⟨nstep1 f H2 H4, nstep2 f H2 H3, nstep3 f H3 H4, nstep4 f H1 H4⟩

end Names

/-! ### the names the whole module defines -/

theorem defines_eq_map_name {l : List Item} (h : ∀ it ∈ l, Scope.itemDefines it = some it.name) :
    Scope.defines l = l.map Item.name := by
  induction l with
  | nil => rfl
  | cons a l ih =>
    rw [defines_cons, h a List.mem_cons_self, ih (fun it hit => h it (List.mem_cons_of_mem _ hit))]
    rfl

theorem mapM_eq_filterMap {ε α β : Type} {f : α → Except ε β} {g : α → Option β}
    (hfg : ∀ a b, f a = .ok b → g a = some b) :
    ∀ {l : List α} {r : List β}, l.mapM f = .ok r → r = l.filterMap g
  | [], r, h => by
    simp only [List.mapM_nil, pure, Except.pure, Except.ok.injEq] at h
    subst h; rfl
  | a :: l, r, h => by
    rw [List.mapM_cons] at h
    obtain ⟨b, hb, h⟩ := bind_ok h
    obtain ⟨r', hr', h⟩ := bind_ok h
    simp only [pure, Except.pure, Except.ok.injEq] at h
    subst h
    rw [List.filterMap_cons, hfg a b hb, mapM_eq_filterMap hfg hr']

theorem mapM_map_eq {ε α β γ : Type} {f : α → Except ε β} {g : α → γ} {k : β → γ}
    (hfg : ∀ a b, f a = .ok b → k b = g a) :
    ∀ {l : List α} {r : List β}, l.mapM f = .ok r → r.map k = l.map g
  | [], r, h => by
    simp only [List.mapM_nil, pure, Except.pure, Except.ok.injEq] at h
    subst h; rfl
  | a :: l, r, h => by
    rw [List.mapM_cons] at h
    obtain ⟨b, hb, h⟩ := bind_ok h
    obtain ⟨r', hr', h⟩ := bind_ok h
    simp only [pure, Except.pure, Except.ok.injEq] at h
    subst h
    rw [List.map_cons, List.map_cons, hfg a b hb, mapM_map_eq hfg hr']

theorem mapM_defines_flatten {ε α : Type} {f : α → Except ε (List Item)} {n : α → List String}
    (hfn : ∀ a its, f a = .ok its → Scope.defines its = n a) :
    ∀ {l : List α} {F : List (List Item)}, l.mapM f = .ok F → Scope.defines F.flatten = l.flatMap n
  | [], F, h => by
    simp only [List.mapM_nil, pure, Except.pure, Except.ok.injEq] at h
    subst h; rfl
  | a :: l, F, h => by
    rw [List.mapM_cons] at h
    obtain ⟨b, hb, h⟩ := bind_ok h
    obtain ⟨r', hr', h⟩ := bind_ok h
    simp only [pure, Except.pure, Except.ok.injEq] at h
    subst h
    rw [List.flatten_cons, defines_append, hfn a b hb, mapM_defines_flatten hfn hr', List.flatMap_cons]

/-- aliases of the used custom scalars, in id order -/
def scalarNames (c : Ctx) (u : UsedTypes) : List String :=
  (((sortNat (u.types.filterMap TypeId.asScalar?)).filterMap (fun k => c.s.scalars[k]?)).filter
    (fun n => !Schema.defaultScalars.contains n)).map (c.o.normalization.scalarName c.cs)

/-- the used enums that are not extern, in id order -/
def enumNames (c : Ctx) (u : UsedTypes) : List String :=
  (((sortNat (u.types.filterMap TypeId.asEnum?)).filterMap (fun k => c.s.enums[k]?)).filter
    (fun e => !c.o.externEnums.contains e.name)).map (fun e => c.o.normalization.enumName c.cs e.name)

/-- the used input types, in id order -/
def inputNames (c : Ctx) (u : UsedTypes) : List String :=
  (c.s.inputs.zipIdx.filter (fun (x : StoredInput × Nat) => u.types.contains (.input x.2))).map
    (fun x => keywordReplace (c.o.normalization.inputName c.cs x.1.name))

/-- the items of a used fragment -/
def fragmentNames (c : Ctx) (g : Nat) : List String :=
  match c.q.fragments[g]? with
  | some fr => selectionNames c fr.name (c.cs.camel fr.name) fr.on fr.sels
  | none => []

/-- **every name the emitted module defines**, computed from the schema, the used set and the selection
    trees: the four built-in aliases, the custom scalars, the enums, the input types, `Variables`, the
    fragment structs with their path-named nested types, `ResponseData` with its path-named nested types -/
def moduleNames (c : Ctx) (u : UsedTypes) (o : ROperation) : List String :=
  ["Boolean", "Float", "Int", "ID"] ++ scalarNames c u ++ enumNames c u ++ inputNames c u ++ ["Variables"] ++
  (sortNat u.fragments).flatMap (fragmentNames c) ++
  selectionNames c "ResponseData" (c.cs.camel o.name) (.object o.objectId) o.sels

/-- the decidable no-clash predicate: the names of `moduleNames` are pairwise distinct -/
def NoClash (c : Ctx) (op : Nat) : Bool :=
  match allUsedTypes c.s c.q op, c.q.operations[op]? with
  | .ok u, some o => decide (moduleNames c u o).Nodup
  | _, _ => true

theorem scalarItems_names {c : Ctx} {u : UsedTypes} {S : List Item} (h : scalarItems c u = .ok S) :
    Scope.defines S = scalarNames c u := by
  rw [defines_eq_map_name (scalarItems_itemDefines h)]
  unfold scalarItems at h
  obtain ⟨ns, hns, h⟩ := bind_ok h
  simp only [pure, Except.pure, Except.ok.injEq] at h
  subst h
  rw [mapM_eq_filterMap (g := fun k => c.s.scalars[k]?) (fun a b hb => getScalar_ok hb) hns]
  simp only [scalarNames, List.map_map]
  rfl

theorem enumItems_names {c : Ctx} {u : UsedTypes} {E : List Item} (h : enumItems c u = .ok E) :
    Scope.defines E = enumNames c u := by
  rw [defines_eq_map_name (enumItems_itemDefines h)]
  unfold enumItems at h
  obtain ⟨es, hes, h⟩ := bind_ok h
  simp only [pure, Except.pure, Except.ok.injEq] at h
  subst h
  rw [mapM_eq_filterMap (g := fun k => c.s.enums[k]?) (fun a b hb => getEnum_ok hb) hes]
  simp only [enumNames, List.map_map]
  rfl

theorem inputItems_names {c : Ctx} {u : UsedTypes} {I : List Item} (h : inputItems c u = .ok I) :
    Scope.defines I = inputNames c u := by
  rw [defines_eq_map_name (inputItems_itemDefines h)]
  unfold inputItems at h
  exact mapM_map_eq (g := fun (x : StoredInput × Nat) => keywordReplace (c.o.normalization.inputName c.cs x.1.name))
    (fun a b hb => inputItem_name hb) h

theorem variablesItems_names {c : Ctx} {op : Nat} {V : List Item} (h : variablesItems c op = .ok V) :
    Scope.defines V = ["Variables"] := by
  unfold variablesItems at h
  simp only [] at h
  split at h
  · simp only [pure, Except.pure, Except.ok.injEq] at h
    subst h; rfl
  · obtain ⟨fs, _, h⟩ := bind_ok h
    obtain ⟨dfl, _, h⟩ := bind_ok h
    simp only [pure, Except.pure, Except.ok.injEq] at h
    subst h; rfl

theorem fragmentItems_names {c : Ctx} {g : Nat} {its : List Item} (h : fragmentItems c g = .ok its) :
    Scope.defines its = fragmentNames c g := by
  obtain ⟨fr, hfr, hcalc⟩ := fragmentItems_ok h
  simp only [fragmentNames, hfr]
  exact (calc_names _).1 _ _ _ _ _ hcalc

/-- **the names the emitted module defines** are exactly `moduleNames` (same order, same multiplicity);
    no hypothesis -/
theorem module_defines_eq (c : Ctx) (op : Nat) (items : List Item) (h : responseForQuery c op = .ok items) :
    ∃ u o, allUsedTypes c.s c.q op = .ok u ∧ c.q.operations[op]? = some o ∧
      Scope.defines items = moduleNames c u o := by
  obtain ⟨u, S, E, F, I, V, o, R, hu, hS, hE, hF, hI, hV, ho, hR, rfl⟩ := responseForQuery_ok_full h
  refine ⟨u, o, hu, ho, ?_⟩
  unfold responseItems at hR
  simp only [defines_append, moduleNames]
  rw [scalarItems_names hS, enumItems_names hE, inputItems_names hI, variablesItems_names hV,
    mapM_defines_flatten (fun a its ha => fragmentItems_names ha) hF, (calc_names _).1 _ _ _ _ _ hR]
  rfl

/-- **no name is defined twice** (second component of `Scope.wellScoped`) exactly when the decidable
    `NoClash` holds: the built-in aliases, scalar / enum / input names, `Variables`, fragment names and
    the path-concatenated names of all nested response types are pairwise distinct -/
theorem defines_nodup_iff (c : Ctx) (op : Nat) (items : List Item) (h : responseForQuery c op = .ok items) :
    (Scope.defines items).Nodup ↔ NoClash c op = true := by
  obtain ⟨u, o, hu, ho, hd⟩ := module_defines_eq c op items h
  unfold NoClash
  rw [hd]
  simp only [hu, ho, decide_eq_true_eq]

theorem defines_nodup (c : Ctx) (op : Nat) (items : List Item) (h : responseForQuery c op = .ok items)
    (hnc : NoClash c op = true) : (Scope.defines items).Nodup :=
  (defines_nodup_iff c op items h).mpr hnc

/-! ## 7. every response item is an alias or the rendering of one expanded type; the serde crate is named -/

section Shape
variable (c : Ctx) (P : Item → Prop)

def PStmt1 (fuel : Nat) : Prop := ∀ name pfx ty sels items,
  calcSelection c fuel name pfx ty sels = .ok items → ∀ it ∈ items, P it
def PStmt2 (fuel : Nat) : Prop := ∀ name pfx vsels vts vs items,
  calcVariants c fuel name pfx vsels vts = .ok (vs, items) → ∀ it ∈ items, P it
def PStmt3 (fuel : Nat) : Prop := ∀ sname pfx vt mine fs items al,
  calcVariantSels c fuel sname pfx vt mine = .ok (fs, items, al) → (∀ it ∈ items, P it) ∧ ∀ it ∈ al, P it
def PStmt4 (fuel : Nat) : Prop := ∀ pfx ty sels fs items,
  calcFields c fuel pfx ty sels = .ok (fs, items) → ∀ it ∈ items, P it

variable {c P}

/-- **shape of the response items**: a property that holds for every alias item and for every item
    `renderType` can produce holds for every item of the `calc*` block -/
theorem calc_shape (hA : ∀ n t b, P (aliasItem n t b)) (hR : ∀ n fs vs, ∀ it ∈ renderType c n fs vs, P it) :
    ∀ fuel, PStmt1 c P fuel ∧ PStmt2 c P fuel ∧ PStmt3 c P fuel ∧ PStmt4 c P fuel := by
  intro fuel
  induction fuel with
  | zero =>
    refine ⟨?_, ?_, ?_, ?_⟩
    · intro _ _ _ _ _ h; rw [calcSelection.eq_1] at h; cases h
    · intro _ _ _ _ _ _ h; rw [calcVariants.eq_1] at h; cases h
    · intro _ _ _ _ _ _ _ h; rw [calcVariantSels.eq_1] at h; cases h
    · intro _ _ _ _ _ h; rw [calcFields.eq_1] at h; cases h
  | succ f ih =>
    obtain ⟨H1, H2, H3, H4⟩ := ih
    refine ⟨?_, ?_, ?_, ?_⟩
    · intro name pfx ty sels items h
      by_cases hsp : ∃ g, sels = [Sel.spread g]
      · obtain ⟨g, rfl⟩ := hsp
        obtain ⟨fr, _, rfl⟩ := calcSelection_single_ok h
        intro it hit
        simp only [List.mem_singleton] at hit
        subst hit; exact hA _ _ _
      · obtain ⟨rv, vi, rf, fi, hvp, hfl, rfl⟩ := calcSelection_ok (fun g hg => hsp ⟨g, hg⟩) h
        intro it hit
        simp only [List.mem_append] at hit
        rcases hit with (hit | hit) | hit
        · exact hR _ _ _ it hit
        · rcases hvp with ⟨_, _, rfl⟩ | ⟨vts, vsels, r, _, _, hr, _, rfl⟩
          · cases hit
          · exact H2 _ _ _ _ r.1 r.2 hr it hit
        · exact H4 _ _ _ _ _ hfl it hit
    · intro name pfx vsels vts vs items h
      cases vts with
      | nil =>
        rw [calcVariants.eq_2 _ _ _ _ _ (by omega)] at h
        simp only [pure, Except.pure, Except.ok.injEq, Prod.mk.injEq] at h
        obtain ⟨_, rfl⟩ := h
        intro it hit; cases hit
      | cons vt rest =>
        obtain ⟨vname, thisV, thisItems, vs', items', _, hr, rfl, rfl, hstep⟩ := calcVariants_ok h
        intro it hit
        rcases List.mem_append.mp hit with hit | hit
        · rcases hstep with ⟨_, _, rfl⟩ | ⟨_, _, hstep⟩
          · cases hit
          · rcases hstep with ⟨g, fr, _, rfl⟩ | ⟨r, hr0, hstep⟩
            · simp only [List.mem_singleton] at hit
              subst hit; exact hA _ _ _
            · obtain ⟨r1, r2⟩ := H3 _ _ _ _ r.1 r.2.1 r.2.2 hr0
              rcases hstep with ⟨a, _, hal, rfl⟩ | ⟨_, extra, _, rfl⟩
              · rcases List.mem_cons.mp hit with rfl | hit
                · exact r2 _ (by rw [hal]; exact List.mem_cons_self)
                · exact r1 it hit
              · rcases List.mem_append.mp hit with hit | hit
                · exact hR _ _ _ it hit
                · exact r1 it hit
        · exact H2 _ _ _ _ _ _ hr it hit
    · intro sname pfx vt mine fs items al h
      cases mine with
      | nil =>
        rw [calcVariantSels.eq_2 _ _ _ _ _ (by omega)] at h
        simp only [pure, Except.pure, Except.ok.injEq, Prod.mk.injEq] at h
        obtain ⟨_, rfl, rfl⟩ := h
        exact ⟨fun it hit => (by cases hit), fun it hit => (by cases hit)⟩
      | cons x rest =>
        cases x with
        | inline t sub =>
          obtain ⟨tn, fs0, items0, al0, fs', items', al', _, hr, rfl, rfl, rfl, hstep⟩ := calcVariantSels_inline_ok h
          have ⟨ih1, ih2⟩ := H3 _ _ _ _ _ _ _ hr
          rcases hstep with ⟨g, fr, _, _, _, rfl, rfl⟩ | ⟨_, hfl, rfl⟩
          · refine ⟨fun it hit => ih1 it (by simpa using hit), fun it hit => ?_⟩
            rcases List.mem_append.mp hit with hit | hit
            · simp only [List.mem_singleton] at hit
              subst hit; exact hA _ _ _
            · exact ih2 it hit
          · refine ⟨fun it hit => ?_, fun it hit => ih2 it (by simpa using hit)⟩
            rcases List.mem_append.mp hit with hit | hit
            · exact H4 _ _ _ _ _ hfl it hit
            · exact ih1 it hit
        | spread g fr =>
          obtain ⟨fld, fs', _, hr, rfl⟩ := calcVariantSels_spread_ok h
          exact H3 _ _ _ _ _ _ _ hr
    · intro pfx ty sels fs items h
      cases sels with
      | nil =>
        rw [calcFields.eq_2 _ _ _ _ (by omega)] at h
        simp only [pure, Except.pure, Except.ok.injEq, Prod.mk.injEq] at h
        obtain ⟨_, rfl⟩ := h
        intro it hit; cases hit
      | cons x rest =>
        cases x with
        | field a fid sub =>
          obtain ⟨sf, fld, its, fs', items', _, hr, rfl, rfl, hstep⟩ := calcFields_field_ok h
          intro it hit
          rcases List.mem_append.mp hit with hit | hit
          · rcases hstep with ⟨_, _, _, _, rfl, _⟩ | ⟨_, _, _, _, rfl, _⟩ | ⟨_, _, _, _, hits⟩
            · cases hit
            · cases hit
            · exact H1 _ _ _ _ _ hits it hit
          · exact H4 _ _ _ _ _ hr it hit
        | spread g =>
          obtain ⟨fr, fs', _, hr, _⟩ := calcFields_spread_ok h
          exact H4 _ _ _ _ _ hr
        | inline t sub =>
          rw [calcFields.eq_5 _ _ _ _ _ _ (by simp) (by simp)] at h
          exact H4 _ _ _ _ _ h
        | typename =>
          rw [calcFields.eq_5 _ _ _ _ _ _ (by simp) (by simp)] at h
          exact H4 _ _ _ _ _ h

end Shape

theorem renderType_serde (c : Ctx) (n : String) (fs : List RField) (vs : List RVariant) :
    ∀ it ∈ renderType c n fs vs, Scope.missingSerdeCrate it = false := by
  intro it hit
  unfold renderType at hit
  split at hit
  · simp only [List.mem_singleton] at hit
    subst hit; simp [Scope.missingSerdeCrate, Ctx.serdeCrate]
  · split at hit
    · simp only [List.mem_singleton] at hit
      subst hit; simp [Scope.missingSerdeCrate, Ctx.serdeCrate]
    · simp only [List.mem_cons, List.not_mem_nil, or_false] at hit
      rcases hit with rfl | rfl <;> simp [Scope.missingSerdeCrate, Ctx.serdeCrate]

theorem inputItem_serde {c : Ctx} {i : StoredInput} {it : Item} (h : inputItem c i = .ok it) :
    Scope.missingSerdeCrate it = false := by
  unfold inputItem at h
  split at h
  · obtain ⟨vs, _, h⟩ := bind_ok h
    simp only [pure, Except.pure, Except.ok.injEq] at h
    subst h; simp [Scope.missingSerdeCrate, Ctx.serdeCrate]
  · obtain ⟨fs, _, h⟩ := bind_ok h
    simp only [pure, Except.pure, Except.ok.injEq] at h
    subst h; simp [Scope.missingSerdeCrate, Ctx.serdeCrate]

/-- **every item of the emitted module that carries a serde derive names the serde crate** (fourth
    component of `Scope.wellScoped`); no hypothesis -/
theorem module_serde_crate (c : Ctx) (op : Nat) (items : List Item) (h : responseForQuery c op = .ok items) :
    ∀ it ∈ items, Scope.missingSerdeCrate it = false := by
  obtain ⟨u, S, E, F, I, V, o, R, hu, hS, hE, hF, hI, hV, ho, hR, rfl⟩ := responseForQuery_ok_full h
  have hcalc := fun fuel => (calc_shape (c := c) (P := fun it => Scope.missingSerdeCrate it = false)
    (fun n t b => by cases b <;> rfl) (renderType_serde c) fuel).1
  intro it hit
  simp only [List.mem_append] at hit
  rcases hit with (((((hit | hit) | hit) | hit) | hit) | hit) | hit
  · simp only [builtinAliases, List.mem_cons, List.not_mem_nil, or_false] at hit
    rcases hit with rfl | rfl | rfl | rfl <;> rfl
  · unfold scalarItems at hS
    obtain ⟨ns, _, hS⟩ := bind_ok hS
    simp only [pure, Except.pure, Except.ok.injEq] at hS
    subst hS
    simp only [List.mem_map] at hit
    obtain ⟨n, _, rfl⟩ := hit
    rfl
  · unfold enumItems at hE
    obtain ⟨es, _, hE⟩ := bind_ok hE
    simp only [pure, Except.pure, Except.ok.injEq] at hE
    subst hE
    simp only [List.mem_map] at hit
    obtain ⟨e, _, rfl⟩ := hit
    rfl
  · unfold inputItems at hI
    obtain ⟨x, _, hx⟩ := mapM_ok_mem hI it hit
    exact inputItem_serde hx
  · unfold variablesItems at hV
    simp only [] at hV
    split at hV
    · simp only [pure, Except.pure, Except.ok.injEq] at hV
      subst hV
      simp only [List.mem_singleton] at hit
      subst hit; simp [Scope.missingSerdeCrate, Ctx.serdeCrate]
    · obtain ⟨fs, _, hV⟩ := bind_ok hV
      obtain ⟨dfl, _, hV⟩ := bind_ok hV
      simp only [pure, Except.pure, Except.ok.injEq] at hV
      subst hV
      simp only [List.mem_cons, List.not_mem_nil, or_false] at hit
      rcases hit with rfl | rfl <;> simp [Scope.missingSerdeCrate, Ctx.serdeCrate]
  · obtain ⟨its, hits, hit⟩ := List.mem_flatten.mp hit
    obtain ⟨g, _, hfi⟩ := mapM_ok_mem hF its hits
    obtain ⟨fr, _, hc⟩ := fragmentItems_ok hfi
    exact hcalc _ _ _ _ _ _ hc it hit
  · unfold responseItems at hR
    exact hcalc _ _ _ _ _ _ hR it hit

/-! ## 8. the executable scope check on the emitted module -/

/-- **`Scope.wellScoped` on the emitted module, characterised.**  Under the hypotheses of
    `module_well_scoped_partial`, the executable check the correspondence harness evaluates holds for the
    module `responseForQuery` emits **iff** the decidable `NoClash` holds (no name defined twice) and no
    item has two members of the same identifier.  (The last condition is stated on the items: it fails for
    sibling fields that coincide after snake-casing, a field called `on` next to variants, two inline
    fragments on the same type — known findings of C02/C01.) -/
theorem module_well_scoped_iff (c : Ctx) (op : Nat) (items : List Item)
    (hnorm : c.o.normalization = .none)
    (hkwI : ∀ i ∈ c.s.inputs, keywordReplace i.name = i.name)
    (hkwS : ∀ n ∈ c.s.scalars, keywordReplace n = n)
    (hkwE : ∀ e ∈ c.s.enums, keywordReplace e.name = e.name)
    (hwf : OutputOnly c.s c.q = true) (hrel : InputFieldsRelevant c.s = true)
    (hvars : ∀ v ∈ c.q.opVariables op, Relevant v.ty.id)
    (h : responseForQuery c op = .ok items) :
    Scope.wellScoped items (moduleSupplied c) = true ↔
      NoClash c op = true ∧ ∀ it ∈ items, (memberIdents it).Nodup := by
  rw [wellScoped_iff, defines_nodup_iff c op items h]
  have h1 := module_well_scoped_partial c op items hnorm hkwI hkwS hkwE hwf hrel hvars h
  have h4 := module_serde_crate c op items h
  constructor
  · rintro ⟨_, b, c', _⟩; exact ⟨b, c'⟩
  · rintro ⟨b, c'⟩
    refine ⟨fun n hn => ?_, b, c', h4⟩
    simp only [Scope.mentions, List.mem_flatMap] at hn
    obtain ⟨it, hit, hn⟩ := hn
    have := h1 it hit n hn
    unfold Scope.resolved at this
    simp only [Bool.or_eq_true, List.contains_iff_mem] at this
    rcases this with (h | h) | h
    · exact .inl h
    · exact .inr (.inl h)
    · exact .inr (.inr h)

/-! ## 9. non-vacuity, and the hypotheses are needed -/

/-- ```graphql
    interface Animal { name: String }   type Dog implements Animal { name: String barks: Boolean owner: Person }
    type Cat implements Animal { name: String }   type Person { id: ID! }   union Pet = Dog | Cat
    enum Kind { A B }   enum Ext { X }   scalar Date   input In { k: Kind  d: Date! }
    type Query { animal: Animal  pet: [Pet]  kind: Kind!  when: Date @deprecated  ext: Ext }
    ``` -/
def richSchema : Schema :=
  { objects := [{ name := "Query", fields := [0, 1, 2, 3, 8], implements := [] },
                { name := "Dog", fields := [4, 5, 6], implements := [0] },
                { name := "Cat", fields := [4], implements := [0] },
                { name := "Person", fields := [7], implements := [] }],
    fields := [{ name := "animal", ty := { id := .interface 0, quals := [] }, parent := .object 0, deprecation := none },
               { name := "pet", ty := { id := .union 0, quals := [.list] }, parent := .object 0, deprecation := none },
               { name := "kind", ty := { id := .enum 0, quals := [.required] }, parent := .object 0, deprecation := none },
               { name := "when", ty := { id := .scalar 5, quals := [] }, parent := .object 0, deprecation := some none },
               { name := "name", ty := { id := .scalar 1, quals := [] }, parent := .interface 0, deprecation := none },
               { name := "barks", ty := { id := .scalar 4, quals := [] }, parent := .object 1, deprecation := none },
               { name := "owner", ty := { id := .object 3, quals := [] }, parent := .object 1, deprecation := none },
               { name := "id", ty := { id := .scalar 0, quals := [.required] }, parent := .object 3, deprecation := none },
               { name := "ext", ty := { id := .enum 1, quals := [] }, parent := .object 0, deprecation := none }],
    interfaces := [{ name := "Animal", fields := [4] }],
    unions := [{ name := "Pet", variants := [.object 1, .object 2] }],
    scalars := Schema.defaultScalars ++ ["Date"],
    enums := [{ name := "Kind", variants := ["A", "B"] }, { name := "Ext", variants := ["X"] }],
    inputs := [{ name := "In", fields := [("k", { id := .enum 0, quals := [] }), ("d", { id := .scalar 5, quals := [.required] })],
                 isOneOf := false }] }

/-- ```graphql
    fragment DogF on Dog { barks owner { id } }
    fragment AnimalF on Animal { name ... on Dog { ...DogF } }
    fragment QF on Query { kind }
    query Q($v: In) {
      animal { __typename name ... on Dog { barks owner { id } } ...DogF ... on Cat { ...AnimalF } }
      pets: pet { __typename ... on Dog { ...DogF } ... on Cat { name } }
      animal2: animal { ...AnimalF }
      kind when ext ...QF
    }
    ``` -/
def richQuery : Query :=
  { fragments := [{ name := "DogF", on := .object 1, sels := [.field none 5 [], .field none 6 [.field none 7 []]] },
                  { name := "AnimalF", on := .interface 0, sels := [.field none 4 [], .inline (.object 1) [.spread 0]] },
                  { name := "QF", on := .object 0, sels := [.field none 2 []] }],
    operations := [{ name := "Q", kind := .query, objectId := 0,
                     sels := [.field none 0 [.typename, .field none 4 [],
                                             .inline (.object 1) [.field none 5 [], .field none 6 [.field none 7 []]],
                                             .spread 0, .inline (.object 2) [.spread 1]],
                              .field (some "pets") 1 [.typename, .inline (.object 1) [.spread 0],
                                                      .inline (.object 2) [.field none 4 []]],
                              .field (some "animal2") 0 [.spread 1],
                              .field none 2 [], .field none 3 [], .field none 8 [], .spread 2] }],
    variables := [{ opIdx := 0, name := "v", default := none, ty := { id := .input 0, quals := [] } }] }

def richCtx : Ctx := { s := richSchema, q := richQuery, o := { externEnums := ["Ext"] }, cs := ⟨id, id⟩ }

/-- non-vacuity: all hypotheses of `module_well_scoped_partial` hold on a schema / query pair with an
    interface, a union, nested objects, fragments (spread as fields, as a lone selection, inside inline
    fragments), an extern enum, a custom scalar, a deprecated field and an input-typed variable;
    generation succeeds (25 items) — and there the full executable check `wellScoped` holds -/
example : richCtx.o.normalization = .none ∧
    (∀ i ∈ richCtx.s.inputs, keywordReplace i.name = i.name) ∧
    (∀ n ∈ richCtx.s.scalars, keywordReplace n = n) ∧
    (∀ e ∈ richCtx.s.enums, keywordReplace e.name = e.name) ∧
    OutputOnly richCtx.s richCtx.q = true ∧ InputFieldsRelevant richCtx.s = true ∧
    (∀ v ∈ richCtx.q.opVariables 0, Relevant v.ty.id) ∧
    (responseForQuery richCtx 0).toOption.map
      (fun items => (items.length, Scope.wellScoped items (moduleSupplied richCtx))) = some (25, true) := by
  refine ⟨rfl, hkw_of_not_keyword _ (by decide +kernel), fun n hn => ?_, fun e he => ?_, by decide, by decide,
    fun v hv => ?_, by decide +kernel⟩
  · rw [C11.keywordReplace_spec, if_neg]
    revert n; decide +kernel
  · rw [C11.keywordReplace_spec, if_neg]
    revert e; decide +kernel
  · have : v ∈ [richQuery.variables[0]] := hv
    simp only [List.mem_singleton] at this
    subst this
    trivial

/-- `type Query { e: my_enum }  enum my_enum { A }`, `query Q { e }`, `extern_enums("my_enum")`,
    `normalization = "rust"` (heck: `my_enum` ↦ `MyEnum`) -/
def rustCtx : Ctx :=
  { s := { objects := [{ name := "Query", fields := [0], implements := [] }],
           fields := [{ name := "e", ty := { id := .enum 0, quals := [] }, parent := .object 0, deprecation := none }],
           scalars := Schema.defaultScalars,
           enums := [{ name := "my_enum", variants := ["A"] }] },
    q := { operations := [{ name := "Q", kind := .query, objectId := 0, sels := [.field none 0 []] }] },
    o := { normalization := .rust, externEnums := ["my_enum"] },
    cs := ⟨id, fun s => if s = "my_enum" then "MyEnum" else s⟩ }

/-- **the normalization hypothesis of `response_mentions_resolved` is needed**: with
    `normalization = rust` the response struct mentions the extern enum under its camel-cased name
    (`MyEnum`), which `supplied = externEnums` (`my_enum`) does not resolve; the name-mapped statement
    (`response_mentions_resolved_mapped`, `supplied = externSupplied`) applies and resolves it -/
theorem normalization_needed :
    (responseForQuery rustCtx 0).toOption.map (fun items => Scope.undefinedMentions items rustCtx.o.externEnums)
      = some ["MyEnum"] ∧
    (responseForQuery rustCtx 0).toOption.map (fun items => Scope.undefinedMentions items (externSupplied rustCtx))
      = some [] ∧
    NameMapOK rustCtx := by
  refine ⟨by decide +kernel, by decide +kernel, ⟨?_, ?_, ?_⟩⟩
  · decide +kernel
  · decide +kernel
  · decide +kernel

/-- as `rustCtx`, the enum is called `__E` and is not extern (heck: `__E` ↦ `E`) -/
def rustCtx2 : Ctx :=
  { s := { objects := [{ name := "Query", fields := [0], implements := [] }],
           fields := [{ name := "e", ty := { id := .enum 0, quals := [] }, parent := .object 0, deprecation := none }],
           scalars := Schema.defaultScalars,
           enums := [{ name := "__E", variants := ["A"] }] },
    q := { operations := [{ name := "Q", kind := .query, objectId := 0, sels := [.field none 0 []] }] },
    o := { normalization := .rust },
    cs := ⟨id, fun s => if s = "__E" then "E" else s⟩ }

/-- **the name-mapping hypothesis `NameMapOK` of `response_mentions_resolved_mapped` is needed**: with
    `normalization = rust`, a name starting with `__` is left alone in field position
    (`Normalization.fieldType`) and camel-cased in the declaration (`enumName`): the enum is emitted as `E`,
    the response struct mentions `__E` -/
theorem nameMap_needed :
    (responseForQuery rustCtx2 0).toOption.map
      (fun items => (Scope.defines items, Scope.undefinedMentions items (externSupplied rustCtx2)))
      = some (["Boolean", "Float", "Int", "ID", "E", "Variables", "ResponseData"], ["__E"]) ∧
    ¬ NameMapOK rustCtx2 := by
  refine ⟨by decide +kernel, fun h => ?_⟩
  have := h.enums { name := "__E", variants := ["A"] } (by decide)
  revert this
  decide +kernel

/-- `type Query { a: A  aB: A2 }  type A { bC: B }  type A2 { c: B }  type B { x: Int }`,
    `query Q { a { bC { x } } aB { c { x } } }`, heck's `to_upper_camel_case` on the names involved -/
def clashCtx : Ctx :=
  { s := { objects := [{ name := "Query", fields := [0, 1], implements := [] }, { name := "A", fields := [2], implements := [] },
                       { name := "A2", fields := [3], implements := [] }, { name := "B", fields := [4], implements := [] }],
           fields := [{ name := "a", ty := { id := .object 1, quals := [] }, parent := .object 0, deprecation := none },
                      { name := "aB", ty := { id := .object 2, quals := [] }, parent := .object 0, deprecation := none },
                      { name := "bC", ty := { id := .object 3, quals := [] }, parent := .object 1, deprecation := none },
                      { name := "c", ty := { id := .object 3, quals := [] }, parent := .object 2, deprecation := none },
                      { name := "x", ty := { id := .scalar 2, quals := [] }, parent := .object 3, deprecation := none }],
           scalars := Schema.defaultScalars },
    q := { operations := [{ name := "Q", kind := .query, objectId := 0,
                            sels := [.field none 0 [.field none 2 [.field none 4 []]],
                                     .field none 1 [.field none 3 [.field none 4 []]]] }] },
    o := {},
    cs := ⟨id, fun s => if s = "a" then "A" else if s = "aB" then "AB" else if s = "bC" then "BC"
                        else if s = "c" then "C" else s⟩ }

/-- **without a no-clash hypothesis the module defines a name twice** (known finding: path-name
    collision): the selection paths `a.bC` and `aB.c` both concatenate to `QABC`; all mentions are
    resolved (`module_well_scoped_partial` applies), `wellScoped` fails on `duplicateDefs` alone -/
theorem defines_dup_witness :
    (responseForQuery clashCtx 0).toOption.map (fun items => Scope.report items (moduleSupplied clashCtx))
      = some { undefined := [], duplicateDefs := ["QABC"], duplicateMembers := [], serdeless := [] } := by
  decide +kernel

/-- the decidable `NoClash` separates the two: it holds on the rich sample and fails on the path collision -/
example : NoClash richCtx 0 = true ∧ NoClash clashCtx 0 = false := by
  constructor <;> decide +kernel

/-- the names of the rich sample, as `moduleNames` computes them from the selection trees -/
example : (allUsedTypes richCtx.s richCtx.q 0).toOption.map (fun u => moduleNames richCtx u richQuery.operations[0]) =
    some ["Boolean", "Float", "Int", "ID", "Date", "Kind", "In", "Variables", "DogF", "DogFowner", "AnimalF",
      "AnimalFOn", "AnimalFOnDog", "QF", "ResponseData", "Qanimal", "QanimalOn", "QanimalOnDog", "QanimalOnDogowner",
      "QanimalOnCat", "Qpets", "QpetsOnDog", "QpetsOnCat", "Qanimal2"] := by
  decide +kernel

/-- `interface I { on: String }  type O implements I { on: String }  type Query { i: I }`,
    `query Q { i { on ... on O { on } } }` -/
def onCtx : Ctx :=
  { s := { objects := [{ name := "Query", fields := [0], implements := [] }, { name := "O", fields := [1], implements := [0] }],
           fields := [{ name := "i", ty := { id := .interface 0, quals := [] }, parent := .object 0, deprecation := none },
                      { name := "on", ty := { id := .scalar 1, quals := [] }, parent := .interface 0, deprecation := none }],
           interfaces := [{ name := "I", fields := [1] }],
           scalars := Schema.defaultScalars },
    q := { operations := [{ name := "Q", kind := .query, objectId := 0,
                            sels := [.field none 0 [.field none 1 [], .inline (.object 1) [.field none 1 []]]] }] },
    o := {}, cs := ⟨id, id⟩ }

/-- **the member condition of `module_well_scoped_iff` is not implied by `NoClash`** (known finding: a
    field called `on` next to the flattened variant field `on`): every name is defined once, all mentions
    are resolved, the struct `Qi` has two fields `on` -/
theorem member_dup_witness :
    NoClash onCtx 0 = true ∧
    (responseForQuery onCtx 0).toOption.map (fun items => Scope.report items (moduleSupplied onCtx))
      = some { undefined := [], duplicateDefs := [], duplicateMembers := ["on"], serdeless := [] } := by
  constructor <;> decide +kernel

/-! ### the hypotheses `module_well_scoped_partial` inherits from the input / `Variables` theorems are needed
(`hkwI`: `keyword_input_name_mismatch`, `OutputOnly`: `outputOnly_needed` in `Proofs/C02Closure.lean`) -/

/-- `enum type { A }`, `query Q($v: type) { __typename }` -/
def kwEnumCtx : Ctx :=
  { s := { objects := [{ name := "Query", fields := [], implements := [] }],
           scalars := Schema.defaultScalars,
           enums := [{ name := "type", variants := ["A"] }] },
    q := { operations := [{ name := "Q", kind := .query, objectId := 0, sels := [.typename] }],
           variables := [{ opIdx := 0, name := "v", default := none, ty := { id := .enum 0, quals := [] } }] },
    o := {}, cs := ⟨id, id⟩ }

/-- **`hkwE` is needed** (the same mechanism gives `hkwS`): the `Variables` struct escapes the type name
    (`type_`), the enum is declared unescaped (`type`).  In *response* position the name is not escaped
    either, which is why the response theorems need no keyword hypothesis. -/
theorem keyword_enum_variable_mismatch :
    (responseForQuery kwEnumCtx 0).toOption.map
      (fun items => (Scope.defines items, Scope.undefinedMentions items (moduleSupplied kwEnumCtx)))
      = some (["Boolean", "Float", "Int", "ID", "type", "Variables", "ResponseData"], ["type_"]) := by
  decide +kernel

/-- `query Q($v: Query) { __typename }` (a variable of object type: rejected by GraphQL validation, not by
    the generator) -/
def objVarCtx : Ctx :=
  { s := { objects := [{ name := "Query", fields := [], implements := [] }],
           scalars := Schema.defaultScalars },
    q := { operations := [{ name := "Q", kind := .query, objectId := 0, sels := [.typename] }],
           variables := [{ opIdx := 0, name := "v", default := none, ty := { id := .object 0, quals := [] } }] },
    o := {}, cs := ⟨id, id⟩ }

/-- **`hvars` is needed**: `Variables` mentions the object type, for which no item is emitted -/
theorem object_variable_unresolved :
    (responseForQuery objVarCtx 0).toOption.map (fun items => Scope.undefinedMentions items (moduleSupplied objVarCtx))
      = some ["Query"] := by
  decide +kernel

end C02
end GqlVerif
